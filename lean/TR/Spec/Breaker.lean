import TR.Model.Circuit
/-!
# The documented circuit-breaker state machine, written as briefly as possible

State: the current state, every outcome recorded since the window was last emptied, the
number of half-open successes, and the instant of the last transition. The *window* is a
view of the recorded outcomes: the last `sliding_window_size` of them (count-based) or those
no older than `sliding_window_duration` (time-based).
-/
namespace TR.Spec
open TR.Circuit

structure Breaker where
  st    : St := .closed
  hist  : List Rec := []
  succ  : Nat := 0
  since : Nat := 0
deriving DecidableEq, Repr

def lastN {α : Type} (n : Nat) (l : List α) : List α := l.drop (l.length - n)

def Breaker.window (cfg : Cfg) (b : Breaker) (now : Nat) : List Rec :=
  if cfg.countBased then lastN (max cfg.size 1) b.hist
  else b.hist.filter (fun r => decide (now - r.t ≤ cfg.windowMs))

/-- every transition empties the window and restarts the half-open count -/
def Breaker.goto (b : Breaker) (s : St) (now : Nat) : Breaker :=
  if b.st = s then b else { st := s, hist := [], succ := 0, since := now }

/-- closed → open exactly when, with at least `minimum_number_of_calls` recorded (and a full
window for count-based windows), the failure rate or the enabled slow-call rate reaches its threshold -/
def Breaker.tripped (cfg : Cfg) (b : Breaker) (now : Nat) : Bool :=
  let w := b.window cfg now
  shouldOpen cfg w.length (countFail w) (countSlow w)

/-- half-open: any failure re-opens, `permitted_calls_in_half_open` successes close -/
def Breaker.recordHalf (cfg : Cfg) (b : Breaker) (fail : Bool) (now : Nat) : Breaker :=
  if fail then b.goto .opened now
  else if b.succ + 1 ≥ cfg.permitted then { b with succ := b.succ + 1 }.goto .closed now
  else { b with succ := b.succ + 1 }

def Breaker.push (b : Breaker) (r : Rec) : Breaker := { b with hist := b.hist ++ [r] }

def Breaker.record (cfg : Cfg) (b : Breaker) (fail slow : Bool) (now : Nat) : Breaker :=
  let b := b.push { t := now, fail := fail, slow := slow }
  if b.st = .halfOpen then b.recordHalf cfg fail now
  else if b.tripped cfg now then b.goto .opened now else b

/-- a call arrives: `true` = it may proceed. Half-open admission (how many trials) is C09's business. -/
def Breaker.arrive (cfg : Cfg) (b : Breaker) (now : Nat) : Breaker × Bool :=
  match b.st with
  | .closed => (b, true)
  | .opened => if now - b.since ≥ cfg.waitMs then (b.goto .halfOpen now, true) else (b, false)
  | .halfOpen => (b, true)

def Breaker.forceOpen (b : Breaker) (now : Nat) : Breaker := b.goto .opened now
def Breaker.forceClosed (b : Breaker) (now : Nat) : Breaker := b.goto .closed now
def Breaker.reset (b : Breaker) (now : Nat) : Breaker := { b.goto .closed now with hist := [] }

end TR.Spec
