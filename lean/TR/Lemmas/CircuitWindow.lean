import TR.Lemmas.CircuitState
/-!
# Circuit breaker: what the sliding window contains (C04)

Count-based: the window is exactly the last `max sliding_window_size 1` outcomes recorded since
the window was last emptied (transition or `reset`). Time-based: the window is a suffix of that
history, every outcome no longer in it is older than `sliding_window_duration`, and right after
a pruning (`cleanup_old_records`, run by every record/evaluation) it is exactly the outcomes
no older than the duration.
-/
namespace TR.Circuit

def lastN {α : Type} (n : Nat) (l : List α) : List α := l.drop (l.length - n)

theorem lastN_length_le {α : Type} (n : Nat) (l : List α) : (lastN n l).length ≤ n := by
  simp [lastN]; omega

theorem lastN_snoc_short {α : Type} (n : Nat) (l : List α) (r : α) (h : l.length < n) :
    lastN n (l ++ [r]) = l ++ [r] ∧ lastN n l = l := by
  constructor
  · have : l.length + 1 - n = 0 := by omega
    simp [lastN, this]
  · have : l.length - n = 0 := by omega
    simp [lastN, this]

theorem lastN_snoc_full {α : Type} (n : Nat) (l : List α) (r : α) (h : l.length ≥ n) (hn : n ≥ 1) :
    lastN n (l ++ [r]) = (lastN n l).tail ++ [r] := by
  unfold lastN
  have h1 : (l ++ [r]).length - n = (l.length - n) + 1 := by simp; omega
  rw [h1, List.drop_append_of_le_length (by omega)]
  simp [List.tail_drop]

theorem lastN_length_of_ge {α : Type} (n : Nat) (l : List α) (h : l.length ≥ n) : (lastN n l).length = n := by
  simp [lastN]; omega

/-- window invariant; `now` = the current instant -/
structure WInv (cfg : Cfg) (now : Nat) (c : Circuit) : Prop where
  count : cfg.countBased = true → c.cwin = lastN (max cfg.size 1) c.hist
  suffix : cfg.countBased = false → ∃ pre, c.hist = pre ++ c.recs ∧ ∀ r ∈ pre, now - r.t > cfg.windowMs
  sorted : c.hist.Pairwise (fun a b => a.t ≤ b.t)
  past : ∀ r ∈ c.hist, r.t ≤ now

theorem winv_mono (cfg : Cfg) (now now' : Nat) (c : Circuit) (hle : now ≤ now') (h : WInv cfg now c) :
    WInv cfg now' c := by
  refine ⟨h.count, fun hc => ?_, h.sorted, fun r hr => Nat.le_trans (h.past r hr) hle⟩
  obtain ⟨pre, hp, hold⟩ := h.suffix hc
  exact ⟨pre, hp, fun r hr => by have := hold r hr; omega⟩

theorem winv_clear (cfg : Cfg) (now : Nat) (c : Circuit) : WInv cfg now (clearWindow c) := by
  refine ⟨fun _ => by simp [clearWindow, lastN], fun _ => ⟨[], by simp [clearWindow]⟩, by simp [clearWindow], by simp [clearWindow]⟩

theorem transitionTo_winv (cfg : Cfg) (now : Nat) (c : Circuit) (s : St) (h : WInv cfg now c) :
    WInv cfg now (transitionTo c s now).1 := by
  unfold transitionTo
  split
  · exact h
  · have := winv_clear cfg now c
    exact ⟨this.count, this.suffix, this.sorted, this.past⟩

theorem cleanup_winv (cfg : Cfg) (now : Nat) (c : Circuit) (h : WInv cfg now c) : WInv cfg now (cleanup cfg c now) := by
  refine ⟨h.count, fun hc => ?_, h.sorted, h.past⟩
  obtain ⟨pre, hp, hold⟩ := h.suffix hc
  refine ⟨pre ++ c.recs.takeWhile (fun r => decide (now - r.t > cfg.windowMs)), ?_, ?_⟩
  · show c.hist = _ ++ c.recs.dropWhile _
    rw [List.append_assoc, List.takeWhile_append_dropWhile]; exact hp
  · intro r hr
    rcases List.mem_append.mp hr with hr | hr
    · exact hold r hr
    · have hall := List.all_takeWhile (l := c.recs) (p := fun r => decide (now - r.t > cfg.windowMs))
      have := List.all_eq_true.mp hall r hr
      simpa using this

/-- right after a pruning every remaining record is no older than the window duration -/
theorem cleanup_all_young (cfg : Cfg) (now : Nat) (c : Circuit) (hc : cfg.countBased = false) (h : WInv cfg now c) :
    ∀ r ∈ (cleanup cfg c now).recs, now - r.t ≤ cfg.windowMs := by
  obtain ⟨pre, hp, _⟩ := h.suffix hc
  have hsorted : c.recs.Pairwise (fun a b => a.t ≤ b.t) := by
    have := h.sorted; rw [hp] at this; exact (List.pairwise_append.mp this).2.1
  intro r hr
  show now - r.t ≤ cfg.windowMs
  simp only [cleanup] at hr
  -- the head of the remaining list is young, and later records are not older
  cases hd : c.recs.dropWhile (fun r => decide (now - r.t > cfg.windowMs)) with
  | nil => rw [hd] at hr; cases hr
  | cons x tl =>
    have hx' : now - x.t ≤ cfg.windowMs := by
      have := List.head?_dropWhile_not (fun r : Rec => decide (now - r.t > cfg.windowMs)) c.recs
      rw [hd] at this
      simpa using this
    rw [hd] at hr
    have hsub : (x :: tl).Pairwise (fun a b => a.t ≤ b.t) := by
      rw [← hd]; exact hsorted.sublist (List.dropWhile_sublist _)
    rcases List.mem_cons.mp hr with rfl | hr
    · exact hx'
    · have := (List.pairwise_cons.mp hsub).1 r hr
      omega

/-- … and it is exactly the recorded outcomes that are no older than the duration -/
theorem cleanup_eq_filter (cfg : Cfg) (now : Nat) (c : Circuit) (hc : cfg.countBased = false) (h : WInv cfg now c) :
    (cleanup cfg c now).recs = c.hist.filter (fun r => decide (now - r.t ≤ cfg.windowMs)) := by
  have hw := cleanup_winv cfg now c h
  obtain ⟨pre, hp, hold⟩ := hw.suffix hc
  have hyoung := cleanup_all_young cfg now c hc h
  have hh : (cleanup cfg c now).hist = c.hist := rfl
  rw [← hh, hp, List.filter_append]
  have h1 : pre.filter (fun r => decide (now - r.t ≤ cfg.windowMs)) = [] := by
    simp only [List.filter_eq_nil_iff]
    intro r hr; have := hold r hr; simp; omega
  have h2 : (cleanup cfg c now).recs.filter (fun r => decide (now - r.t ≤ cfg.windowMs)) = (cleanup cfg c now).recs := by
    simp only [List.filter_eq_self]
    intro r hr; simpa using hyoung r hr
  rw [h1, h2]; simp

theorem pushOutcome_winv (cfg : Cfg) (now : Nat) (c : Circuit) (fail slow : Bool) (hb : c.cwin.length ≤ max cfg.size 1)
    (h : WInv cfg now c) : WInv cfg now (pushOutcome cfg c { t := now, fail := fail, slow := slow } now) := by
  have hsorted : (c.hist ++ [({ t := now, fail := fail, slow := slow } : Rec)]).Pairwise (fun a b => a.t ≤ b.t) := by
    rw [List.pairwise_append]
    exact ⟨h.sorted, by simp, fun a ha b hb => by simp at hb; rw [hb]; exact h.past a ha⟩
  have hpast : ∀ r ∈ c.hist ++ [({ t := now, fail := fail, slow := slow } : Rec)], r.t ≤ now := by
    intro r hr
    rcases List.mem_append.mp hr with hr | hr
    · exact h.past r hr
    · simp at hr; rw [hr]; exact Nat.le_refl _
  unfold pushOutcome
  split
  · rename_i hcb
    refine ⟨fun _ => ?_, fun hc => (by rw [hcb] at hc; cases hc), hsorted, hpast⟩
    have hw := h.count hcb
    show (pushCount cfg c _).cwin = lastN (max cfg.size 1) (c.hist ++ [_])
    unfold pushCount
    simp only
    split
    · rename_i hlen
      -- the window was full: evict the oldest
      have hfull : c.cwin.length = max cfg.size 1 := by simp at hlen; omega
      have hhist : c.hist.length ≥ max cfg.size 1 := by
        rw [hw] at hfull
        simp [lastN] at hfull; omega
      rw [lastN_snoc_full _ _ _ hhist (by omega), ← hw]
      unfold evictOne
      simp only
      cases hcw : c.cwin with
      | nil => rw [hcw] at hfull; simp at hfull; omega
      | cons x tl => simp
    · rename_i hlen
      have hshort : c.cwin.length < max cfg.size 1 := by simp at hlen; omega
      have hhist : c.hist.length < max cfg.size 1 := by
        by_cases hge : c.hist.length ≥ max cfg.size 1
        · have := lastN_length_of_ge _ _ hge; rw [← hw] at this; omega
        · omega
      have := lastN_snoc_short (max cfg.size 1) c.hist { t := now, fail := fail, slow := slow } hhist
      show c.cwin ++ [_] = _
      rw [this.1, hw, this.2]
  · rename_i hcb
    have hcb' : cfg.countBased = false := by simpa using hcb
    have hw := cleanup_winv cfg now c h
    refine ⟨fun hc => (by rw [hcb'] at hc; cases hc), fun _ => ?_, hsorted, hpast⟩
    obtain ⟨pre, hp, hold⟩ := hw.suffix hcb'
    refine ⟨pre, ?_, hold⟩
    show c.hist ++ [_] = pre ++ ((cleanup cfg c now).recs ++ [_])
    have hh : (cleanup cfg c now).hist = c.hist := rfl
    rw [← hh, hp]; simp

end TR.Circuit

namespace TR.Circuit

theorem evalOn_winv (cfg : Cfg) (now : Nat) (c : Circuit) (h : WInv cfg now c) : WInv cfg now (evalOn cfg c now).1 := by
  unfold evalOn
  simp only
  split
  · exact transitionTo_winv cfg now c _ h
  · exact h

theorem evaluate_winv (cfg : Cfg) (now : Nat) (c : Circuit) (h : WInv cfg now c) : WInv cfg now (evaluate cfg c now).1 := by
  unfold evaluate
  apply evalOn_winv
  split
  · exact h
  · exact cleanup_winv cfg now c h

theorem record_winv (cfg : Cfg) (now : Nat) (c : Circuit) (fail : Bool) (dur : Nat) (own : Bool)
    (hb : c.cwin.length ≤ max cfg.size 1) (h : WInv cfg now c) : WInv cfg now (record cfg c fail dur now own).1 := by
  have hp := pushOutcome_winv cfg now c fail (isSlow cfg dur) hb h
  unfold record
  simp only
  split
  · split
    · exact transitionTo_winv cfg now _ _ hp
    · split
      · apply transitionTo_winv
        exact ⟨hp.count, hp.suffix, hp.sorted, hp.past⟩
      · exact ⟨hp.count, hp.suffix, hp.sorted, hp.past⟩
  · exact evaluate_winv cfg now _ hp

theorem tryAcquire_winv (cfg : Cfg) (now : Nat) (c : Circuit) (h : WInv cfg now c) :
    WInv cfg now (tryAcquire cfg c now).1 := by
  unfold tryAcquire
  split
  · exact h
  · split
    · have := transitionTo_winv cfg now c .halfOpen h
      exact ⟨this.count, this.suffix, this.sorted, this.past⟩
    · exact h
  · split
    · exact ⟨h.count, h.suffix, h.sorted, h.past⟩
    · exact h

theorem releaseTrial_winv (cfg : Cfg) (now : Nat) (c : Circuit) (ep : Option Nat) (h : WInv cfg now c) :
    WInv cfg now (releaseTrial c ep) := by
  unfold releaseTrial
  split
  · split
    · exact ⟨h.count, h.suffix, h.sorted, h.past⟩
    · exact h
  · exact h

/-- the state-level pairing of the two circuit invariants -/
def WS (cfg : Cfg) (s : State) : Prop := WInv cfg s.now s.circ ∧ s.circ.cwin.length ≤ max cfg.size 1

theorem pollRunning_winv (cfg : Cfg) (s : State) (c : Nat) (h : WInv cfg s.now s.circ)
    (hb : s.circ.cwin.length ≤ max cfg.size 1) : WInv cfg (pollRunning cfg s c).now (pollRunning cfg s c).circ := by
  unfold pollRunning
  split
  · split
    · unfold complete
      split
      · exact releaseTrial_winv cfg _ _ _ h
      · exact record_winv cfg s.now s.circ _ _ _ hb h
    · exact h
  · exact h

theorem admitStep_winv (cfg : Cfg) (s : State) (f : Fresh) (h : WInv cfg s.now s.circ) :
    WInv cfg (admitStep cfg s f).1.now (admitStep cfg s f).1.circ ∧
    (admitStep cfg s f).1.circ = (tryAcquire cfg s.circ s.now).1 := by
  have := tryAcquire_winv cfg s.now s.circ h
  unfold admitStep
  simp only
  split
  · exact ⟨this, rfl⟩
  · split
    · unfold startFallback; split <;> exact ⟨this, rfl⟩
    · exact ⟨this, rfl⟩

theorem stepS_winv (cfg : Cfg) (s : State) (op : Op) (hs : SInv cfg s) (h : WInv cfg s.now s.circ) :
    WInv cfg (stepS cfg s op).now (stepS cfg s op).circ := by
  have hb := hs.circ.bounded
  cases op with
  | adv ms => exact winv_mono cfg s.now (s.now + ms) s.circ (Nat.le_add_right _ _) h
  | arrive c sc tag fb =>
    simp only [stepS]
    split
    · exact h
    · split <;> exact h
  | poll c =>
    simp only [stepS]
    split
    · rename_i f _
      unfold pollFresh
      simp only
      have ha := admitStep_winv cfg s f h
      split
      · apply pollRunning_winv cfg _ _ ha.1
        rw [ha.2]; exact (tryAcquire_inv cfg s.circ s.now hs.circ).bounded
      · exact ha.1
    · split
      · unfold pollFalling; split <;> exact h
      · exact pollRunning_winv cfg s c h hb
  | drop c =>
    simp only [stepS]
    split
    · exact h
    · split
      · exact h
      · split
        · unfold dropRunning; exact releaseTrial_winv cfg _ _ _ h
        · exact h
  | forceOpen => exact transitionTo_winv cfg s.now s.circ _ h
  | forceClosed => exact transitionTo_winv cfg s.now s.circ _ h
  | reset =>
    have := winv_clear cfg s.now (transitionTo s.circ .closed s.now).1
    exact this
  | views => exact h
  | gate g => exact h
  | trigger u => exact h
  | elsewhere n => exact h
  | yield =>
    show WInv cfg (runTasks (emit s [.manual "yield"])).now (runTasks (emit s [.manual "yield"])).circ
    unfold runTasks
    suffices ∀ (l : List Bool) (t : State), WInv cfg t.now t.circ →
        WInv cfg (l.foldl applyTask t).now (l.foldl applyTask t).circ from this _ _ h
    intro l
    induction l with
    | nil => intro t ht; exact ht
    | cons u tl ih =>
      intro t ht
      exact ih _ (transitionTo_winv cfg t.now t.circ _ ht)

theorem winv_reachable (cfg : Cfg) (ops : List Op) : WInv cfg (run cfg ops).now (run cfg ops).circ := by
  unfold run
  suffices ∀ s, SInv cfg s → WInv cfg s.now s.circ →
      WInv cfg (ops.foldl (stepS cfg) s).now (ops.foldl (stepS cfg) s).circ from
    this _ (init_sinv cfg) ⟨fun _ => by simp [init, lastN], fun _ => ⟨[], by simp [init]⟩, by simp [init], by simp [init]⟩
  induction ops with
  | nil => intro s _ h; exact h
  | cons o os ih => intro s hs h; exact ih _ (stepS_inv cfg s o hs) (stepS_winv cfg s o hs h)

end TR.Circuit

namespace TR.Circuit

/-! ## what `metrics()` reports

`Circuit::metrics` reads the count-based aggregates, or — time-based — `time_based_stats()` over `call_records` AS THEY ARE: it does
not prune first (`cleanup_old_records` runs only inside `record_*` / `evaluate_window`). So for a time-based window the snapshot
counts the documented window plus every record that has expired since the last recording and has not been popped yet. -/

/-- the counts `(total, failures, successes, slow)` of a list of outcomes -/
def counts (w : List Rec) : Nat × Nat × Nat × Nat := (w.length, countFail w, w.length - countFail w, countSlow w)

/-- count-based: the snapshot is the counts over the documented window (the last `sliding_window_size` outcomes) -/
theorem stats_count_window (cfg : Cfg) (now : Nat) (c : Circuit) (hcb : cfg.countBased = true) (hc : CInv cfg c)
    (hw : WInv cfg now c) : stats cfg c = counts (lastN (max cfg.size 1) c.hist) := by
  have h1 := hc.failN; have h2 := hc.slowN; have h3 := hc.totalN; have h4 := hc.succN
  rw [← hw.count hcb]
  unfold stats counts
  simp only [hcb, if_true, h1, h2, h3]
  have : c.succN = c.cwin.length - countFail c.cwin := by omega
  rw [this]

/-- time-based: the records kept are the documented window preceded by records that have expired and were not pruned yet;
the snapshot counts all of them -/
theorem stats_time_window (cfg : Cfg) (now : Nat) (c : Circuit) (hcb : cfg.countBased = false) (hw : WInv cfg now c) :
    ∃ stale, c.recs = stale ++ c.hist.filter (fun r => decide (now - r.t ≤ cfg.windowMs)) ∧
      (∀ r ∈ stale, now - r.t > cfg.windowMs) ∧ stats cfg c = counts c.recs := by
  refine ⟨c.recs.takeWhile (fun r => decide (now - r.t > cfg.windowMs)), ?_, ?_, ?_⟩
  · rw [← cleanup_eq_filter cfg now c hcb hw]
    exact (List.takeWhile_append_dropWhile (p := fun r => decide (now - r.t > cfg.windowMs)) (l := c.recs)).symm
  · intro r hr
    have hall := List.all_takeWhile (l := c.recs) (p := fun r => decide (now - r.t > cfg.windowMs))
    have := List.all_eq_true.mp hall r hr
    simpa using this
  · unfold stats counts
    simp [hcb]

/-- … so it is exactly the documented window whenever no kept record has expired -/
theorem stats_time_fresh (cfg : Cfg) (now : Nat) (c : Circuit) (hcb : cfg.countBased = false) (hw : WInv cfg now c)
    (hy : ∀ r ∈ c.recs, now - r.t ≤ cfg.windowMs) :
    stats cfg c = counts (c.hist.filter (fun r => decide (now - r.t ≤ cfg.windowMs))) := by
  obtain ⟨stale, h1, h2, h3⟩ := stats_time_window cfg now c hcb hw
  have hst : stale = [] := by
    cases stale with
    | nil => rfl
    | cons x tl =>
      exfalso
      have hx := h2 x (by simp)
      have := hy x (by rw [h1]; simp)
      omega
  rw [h3, h1, hst, List.nil_append]

theorem transitionTo_recs (c : Circuit) (s : St) (now : Nat) :
    (transitionTo c s now).1.recs = c.recs ∨ (transitionTo c s now).1.recs = [] := by
  unfold transitionTo
  split
  · exact Or.inl rfl
  · exact Or.inr rfl

/-- right after an outcome was recorded every kept record is young: `record_*` prunes before it pushes -/
theorem recs_young_after_record (cfg : Cfg) (now : Nat) (c : Circuit) (fail : Bool) (dur : Nat) (own : Bool)
    (hcb : cfg.countBased = false) (hw : WInv cfg now c) :
    ∀ r ∈ (record cfg c fail dur now own).1.recs, now - r.t ≤ cfg.windowMs := by
  have hy := cleanup_all_young cfg now c hcb hw
  have hp : ∀ r ∈ (pushOutcome cfg c { t := now, fail := fail, slow := isSlow cfg dur } now).recs, now - r.t ≤ cfg.windowMs := by
    unfold pushOutcome
    simp only [hcb, Bool.false_eq_true, if_false]
    intro r hr
    rcases List.mem_append.mp hr with hr | hr
    · exact hy r hr
    · simp at hr; rw [hr]; simp
  have htr : ∀ (c2 : Circuit) (s : St), (∀ r ∈ c2.recs, now - r.t ≤ cfg.windowMs) →
      ∀ r ∈ (transitionTo c2 s now).1.recs, now - r.t ≤ cfg.windowMs := by
    intro c2 s h2 r hr
    rcases transitionTo_recs c2 s now with h | h
    · rw [h] at hr; exact h2 r hr
    · rw [h] at hr; cases hr
  unfold record
  simp only
  split
  · split
    · exact htr _ _ hp
    · split
      · exact htr _ _ hp
      · exact hp
  · unfold evaluate evalOn
    simp only [hcb, Bool.false_eq_true, if_false]
    have hcl : ∀ r ∈ (cleanup cfg (pushOutcome cfg c { t := now, fail := fail, slow := isSlow cfg dur } now) now).recs,
        now - r.t ≤ cfg.windowMs := by
      intro r hr
      exact hp r ((List.dropWhile_sublist _).subset hr)
    split
    · exact htr _ _ hcl
    · exact hcl

end TR.Circuit
