import TR.Lemmas.Fallback
/-!
# Fallback: dropping the service handles (`manual dropsvc`) — helper lemmas for C17

`Op.dropsvc` stands for the caller dropping the `Fallback` service, every clone of it and the
`FallbackLayer` while calls are in flight (`svc.oneshot(req)`; `let f = svc.call(req); drop(svc);
f.await`). In the model it sets the flag `svcGone`, and the only reader of the flag is `arrive`
(no service, no further call). The lemmas here make that precise: every poll-level helper
commutes with setting the flag (`*_gone`), so a run from a state and a run from the same state
with a different flag differ in the flag only (`foldl_flagless`), and once the flag is set the
arrivals in the rest of the run are no-ops (`foldl_gone`).
-/
namespace TR.Fallback

/-- the state with the flag overwritten -/
def withGone (s : State) (b : Bool) : State := { s with svcGone := b }

/-- everything a call can observe (clock, phases, serial and value-function counters, log): the
state with the flag erased -/
def flagless (s : State) : State := withGone s false

theorem withGone_self (s : State) : withGone s s.svcGone = s := by cases s; rfl
@[simp] theorem withGone_withGone (s : State) (a b : Bool) : withGone (withGone s a) b = withGone s b := rfl
@[simp] theorem withGone_svcGone (s : State) (b : Bool) : (withGone s b).svcGone = b := rfl
@[simp] theorem withGone_log (s : State) (b : Bool) : (withGone s b).log = s.log := rfl
@[simp] theorem withGone_phase (s : State) (b : Bool) : (withGone s b).phase = s.phase := rfl
theorem flagless_log (s : State) : (flagless s).log = s.log := rfl
theorem flagless_phase (s : State) : (flagless s).phase = s.phase := rfl
theorem flagless_withGone (s : State) (b : Bool) : flagless (withGone s b) = flagless s := rfl

def Op.isArrive : Op → Bool
  | .arrive _ _ _ => true
  | _ => false

/-! ## no helper reads or writes the flag -/

theorem pollBackup_gone (s : State) (b : Bool) (c : Nat) (rq : Request) (k t : Nat) (out : Out) :
    pollBackup (withGone s b) c rq k t out = withGone (pollBackup s c rq k t out) b := by
  unfold pollBackup
  show (if s.now ≥ t ∧ out ≠ .never then _ else _) = _
  split <;> rfl

theorem callBackup_gone (s : State) (b : Bool) (c : Nat) (rq : Request) (bk : Step) :
    callBackup (withGone s b) c rq bk = withGone (callBackup s c rq bk) b := by
  exact pollBackup_gone
    (setPhase (emit { s with serial := s.serial + 1 } [.backupCall c s.serial rq]) c (.backup rq s.serial (s.now + bk.lat) bk.out))
    b c rq s.serial (s.now + bk.lat) bk.out

theorem startBackup_gone (cfg : Cfg) (s : State) (b : Bool) (c : Nat) (rq : Request) (bk : Step) :
    startBackup cfg (withGone s b) c rq bk = withGone (startBackup cfg s c rq bk) b := by
  by_cases h : answer cfg.bready (s.brdy + pendingRun (cfg.bready.drop s.brdy)) = .error
  · rw [startBackup_error (s := withGone s b) h, startBackup_error h]; rfl
  · rw [startBackup_ready (s := withGone s b) h, startBackup_ready h]
    exact callBackup_gone { s with brdy := s.brdy + pendingRun (cfg.bready.drop s.brdy) + 1 } b c rq bk

theorem continueWith_gone (cfg : Cfg) (s : State) (b : Bool) (c : Nat) (rq : Request) (bk : Step) (nx : Next) :
    continueWith cfg (withGone s b) c rq bk nx = withGone (continueWith cfg s c rq bk nx) b := by
  cases nx with
  | fin => rfl
  | toBackup => exact startBackup_gone cfg s b c rq bk

theorem completeInner_gone (cfg : Cfg) (s : State) (b : Bool) (c : Nat) (rq : Request) (k : Nat) (out : Out)
    (bk : Step) : completeInner cfg (withGone s b) c rq k out bk = withGone (completeInner cfg s c rq k out bk) b := by
  exact continueWith_gone cfg
    (emit { s with fnCalls := s.fnCalls + (completionInner cfg c rq s.fnCalls k out).1.countP isValueFn }
      (completionInner cfg c rq s.fnCalls k out).1)
    b c rq bk (completionInner cfg c rq s.fnCalls k out).2

theorem pollInner_gone (cfg : Cfg) (s : State) (b : Bool) (c : Nat) (rq : Request) (k t : Nat) (out : Out)
    (bk : Step) : pollInner cfg (withGone s b) c rq k t out bk = withGone (pollInner cfg s c rq k t out bk) b := by
  unfold pollInner
  show (if s.now ≥ t ∧ out ≠ .never then _ else _) = _
  split
  · exact completeInner_gone cfg s b c rq k out bk
  · rfl

theorem pollFresh_gone (cfg : Cfg) (s : State) (b : Bool) (c : Nat) (rq : Request) (plan : List Step) :
    pollFresh cfg (withGone s b) c rq plan = withGone (pollFresh cfg s c rq plan) b := by
  exact pollInner_gone cfg
    (setPhase (emit { s with serial := s.serial + 1 } [.innerCall c s.serial rq]) c
      (.inner rq s.serial (s.now + (plan.headD { lat := 0, out := .ok }).lat) (plan.headD { lat := 0, out := .ok }).out
        (plan.tail.headD { lat := 0, out := .ok })))
    b c rq s.serial (s.now + (plan.headD { lat := 0, out := .ok }).lat) (plan.headD { lat := 0, out := .ok }).out
    (plan.tail.headD { lat := 0, out := .ok })

/-- polls, drops and clock advances neither read nor write the flag -/
theorem stepS_gone (cfg : Cfg) (s : State) (b : Bool) (op : Op) (h : op.isArrive = false) (hd : op ≠ .dropsvc) :
    stepS cfg (withGone s b) op = withGone (stepS cfg s op) b := by
  cases op with
  | arrive c tag plan => simp [Op.isArrive] at h
  | dropsvc => exact absurd rfl hd
  | adv ms => rfl
  | poll c =>
      simp only [stepS, withGone_phase]
      split
      · exact pollFresh_gone cfg s b c _ _
      · exact pollInner_gone cfg s b c _ _ _ _ _
      · exact pollBackup_gone s b c _ _ _ _
      · rfl
  | drop c =>
      simp only [stepS, withGone_phase]
      split <;> rfl

theorem stepS_dropsvc (cfg : Cfg) (s : State) : stepS cfg s .dropsvc = withGone s true := rfl

/-- once the handles are gone an arrival changes nothing -/
theorem stepS_arrive_gone (cfg : Cfg) (s : State) (c tag : Nat) (plan : List Step) (h : s.svcGone = true) :
    stepS cfg s (.arrive c tag plan) = s := by
  simp [stepS, h]

/-- the flag, once set, stays set -/
theorem stepS_stays_gone (cfg : Cfg) (s : State) (op : Op) (h : s.svcGone = true) :
    (stepS cfg s op).svcGone = true := by
  by_cases ha : op.isArrive = true
  · cases op <;> simp [Op.isArrive] at ha
    rw [stepS_arrive_gone cfg s _ _ _ h]; exact h
  · by_cases hd : op = .dropsvc
    · subst hd; rfl
    · have := stepS_gone cfg s true op (by simpa using ha) hd
      have e : withGone s true = s := by rw [← h]; exact withGone_self s
      rw [e] at this
      rw [this]; rfl

/-- a step other than an arrival does the same to a state and to that state with another flag -/
theorem flagless_stepS (cfg : Cfg) (s : State) (op : Op) (h : op.isArrive = false) :
    flagless (stepS cfg s op) = flagless (stepS cfg (flagless s) op) := by
  by_cases hd : op = .dropsvc
  · subst hd; rfl
  · unfold flagless
    rw [stepS_gone cfg s false op h hd]
    rfl

/-- … hence so does a whole run without arrivals: the flag is invisible to the calls that exist -/
theorem foldl_flagless (cfg : Cfg) (ops : List Op) (h : ∀ op ∈ ops, op.isArrive = false) (s t : State)
    (hst : flagless s = flagless t) :
    flagless (ops.foldl (stepS cfg) s) = flagless (ops.foldl (stepS cfg) t) := by
  induction ops generalizing s t with
  | nil => exact hst
  | cons op tl ih =>
      simp only [List.foldl_cons]
      apply ih (fun o ho => h o (List.mem_cons_of_mem _ ho))
      rw [flagless_stepS cfg s op (h op (List.mem_cons_self ..)), flagless_stepS cfg t op (h op (List.mem_cons_self ..)), hst]

/-- after the handles are gone the rest of the run is the same with its arrivals removed -/
theorem foldl_gone (cfg : Cfg) (ops : List Op) (s : State) (h : s.svcGone = true) :
    ops.foldl (stepS cfg) s = (ops.filter (fun op => !op.isArrive)).foldl (stepS cfg) s := by
  induction ops generalizing s with
  | nil => rfl
  | cons op tl ih =>
      by_cases ha : op.isArrive = true
      · have hs : stepS cfg s op = s := by
          cases op <;> simp [Op.isArrive] at ha
          exact stepS_arrive_gone cfg s _ _ _ h
        simp only [List.foldl_cons, hs, List.filter_cons, ha, Bool.not_true]
        exact ih s h
      · have ha' : op.isArrive = false := by simpa using ha
        simp only [List.foldl_cons, List.filter_cons, ha', Bool.not_false, if_true]
        exact ih _ (stepS_stays_gone cfg s op h)

theorem filter_noArrive (ops : List Op) : ∀ op ∈ ops.filter (fun op => !op.isArrive), op.isArrive = false := by
  intro op h
  have := (List.mem_filter.mp h).2
  simpa using this

theorem filter_noArrive_id (ops : List Op) (h : ∀ op ∈ ops, op.isArrive = false) :
    ops.filter (fun op => !op.isArrive) = ops := by
  apply List.filter_eq_self.mpr
  intro op ho; simp [h op ho]

theorem run_append (cfg : Cfg) (a b : List Op) : run cfg (a ++ b) = b.foldl (stepS cfg) (run cfg a) := by
  simp [run, List.foldl_append]

/-- the run with the handles dropped after `pre` = the run in which they are never dropped and no
call is made after `pre`, up to the flag -/
theorem run_dropsvc (cfg : Cfg) (pre post : List Op) :
    flagless (run cfg (pre ++ .dropsvc :: post)) = flagless (run cfg (pre ++ post.filter (fun op => !op.isArrive))) := by
  rw [run_append, run_append, List.foldl_cons, stepS_dropsvc, foldl_gone cfg post _ rfl]
  exact foldl_flagless cfg _ (filter_noArrive post) _ _ (flagless_withGone _ true)

/-! ## a request that was never made stays unknown unless it arrives -/

theorem stepS_poll_other (cfg : Cfg) (s : State) {c' c : Nat} (h : c' ≠ c) :
    lookup (stepS cfg s (.poll c')).phase c = lookup s.phase c := by
  simp only [stepS]
  split
  · exact (touches_pollFresh cfg s c' _ _).others c h
  · exact (touches_pollInner cfg s c' _ _ _ _ _).others c h
  · exact (touches_pollBackup s c' _ _ _ _).others c h
  · rfl

theorem stepS_drop_other (cfg : Cfg) (s : State) {c' c : Nat} (h : c' ≠ c) :
    lookup (stepS cfg s (.drop c')).phase c = lookup s.phase c := by
  simp only [stepS]
  split
  · exact lookup_setPhase_other s _ h
  · exact lookup_setPhase_other _ _ h
  · exact lookup_setPhase_other _ _ h
  · rfl

theorem stepS_unknown (cfg : Cfg) (s : State) (op : Op) (c : Nat) (hop : op.isArrive = false)
    (h : lookup s.phase c = none) : lookup (stepS cfg s op).phase c = none := by
  cases op with
  | arrive c' tag plan => simp [Op.isArrive] at hop
  | adv ms => exact h
  | dropsvc => exact h
  | poll c' =>
      by_cases hcc : c' = c
      · subst hcc; simp only [stepS, h]
      · rw [stepS_poll_other cfg s hcc]; exact h
  | drop c' =>
      by_cases hcc : c' = c
      · subst hcc; simp only [stepS, h]
      · rw [stepS_drop_other cfg s hcc]; exact h

theorem foldl_unknown (cfg : Cfg) (ops : List Op) (c : Nat) (hops : ∀ op ∈ ops, op.isArrive = false) (s : State)
    (h : lookup s.phase c = none) : lookup (ops.foldl (stepS cfg) s).phase c = none := by
  induction ops generalizing s with
  | nil => exact h
  | cons op tl ih =>
      exact ih (fun o ho => hops o (List.mem_cons_of_mem _ ho)) _
        (stepS_unknown cfg s op c (hops op (List.mem_cons_self ..)) h)

/-- a request that had not arrived when the handles were dropped has no phase and no events, ever -/
theorem unknown_after_dropsvc (cfg : Cfg) (pre post : List Op) (c : Nat) (hc : lookup (run cfg pre).phase c = none) :
    lookup (run cfg (pre ++ .dropsvc :: post)).phase c = none ∧ evsOf c (run cfg (pre ++ .dropsvc :: post)).log = [] := by
  have hl : lookup (run cfg (pre ++ .dropsvc :: post)).phase c = none := by
    rw [← flagless_phase, run_dropsvc, flagless_phase, run_append]
    exact foldl_unknown cfg _ c (filter_noArrive post) _ hc
  refine ⟨hl, ?_⟩
  have := inv_reachable cfg (pre ++ .dropsvc :: post) c
  unfold Stage at this
  rw [hl] at this
  exact this

end TR.Fallback
