import TR.Model.Cache
/-!
# Cache: container invariants, refinement to the specification map, trace invariants
(helper lemmas for C10)
-/
namespace TR.Cache

/-! ## lists of entries -/

theorem find_some {items : List Entry} {k : Nat} {e : Entry} (h : find items k = some e) :
    e ∈ items ∧ e.key = k := by
  unfold find at h
  refine ⟨List.mem_of_find?_eq_some h, ?_⟩
  have := List.find?_some h
  simpa using this

theorem find_none {items : List Entry} {k : Nat} (h : find items k = none) :
    ∀ e ∈ items, e.key ≠ k := by
  unfold find at h
  intro e he hk
  have := List.find?_eq_none.mp h e he
  simp [hk] at this

theorem find_isSome_of_mem {items : List Entry} {k : Nat} {e : Entry} (he : e ∈ items) (hk : e.key = k) :
    (find items k).isSome = true := by
  cases h : find items k with
  | some _ => rfl
  | none => exact absurd hk (find_none h e he)

theorem mem_rm {k : Nat} {items : List Entry} {e : Entry} : e ∈ rm k items ↔ e ∈ items ∧ e.key ≠ k := by
  simp [rm]

theorem rm_sublist (k : Nat) (items : List Entry) : (rm k items).Sublist items := List.filter_sublist

theorem length_rm_lt {k : Nat} {items : List Entry} {e : Entry} (he : e ∈ items) (hk : e.key = k) :
    (rm k items).length < items.length := by
  unfold rm
  apply List.length_filter_lt_length_iff_exists.mpr
  exact ⟨e, he, by simp [hk]⟩

theorem length_upd (k : Nat) (f : Entry → Entry) (items : List Entry) : (upd k f items).length = items.length := by
  simp [upd]

theorem keys_upd (k : Nat) (f : Entry → Entry) (items : List Entry) (hf : ∀ x, (f x).key = x.key) :
    (upd k f items).map (·.key) = items.map (·.key) := by
  unfold upd
  rw [List.map_map]
  apply List.map_congr_left
  intro a _
  simp only [Function.comp]
  split
  · exact hf a
  · rfl

theorem mem_upd {k : Nat} {f : Entry → Entry} {items : List Entry} {e : Entry} (h : e ∈ upd k f items) :
    ∃ x ∈ items, e = if x.key = k then f x else x := by
  unfold upd at h
  obtain ⟨x, hx, rfl⟩ := List.mem_map.mp h
  exact ⟨x, hx, rfl⟩

theorem mem_upd_of_ne {k : Nat} {f : Entry → Entry} {items : List Entry} {x : Entry} (hx : x ∈ items)
    (hk : x.key ≠ k) : x ∈ upd k f items := by
  unfold upd
  exact List.mem_map.mpr ⟨x, hx, by simp [hk]⟩

theorem nodup_keys_sublist {a b : List Entry} (h : a.Sublist b) (hb : (b.map (·.key)).Nodup) :
    (a.map (·.key)).Nodup := (h.map _).nodup hb

theorem key_not_in_rm (k : Nat) (items : List Entry) : k ∉ (rm k items).map (·.key) := by
  intro h
  obtain ⟨x, hx, hxk⟩ := List.mem_map.mp h
  exact (mem_rm.mp hx).2 hxk

theorem key_not_in_of_find_none {items : List Entry} {k : Nat} (h : find items k = none) :
    k ∉ items.map (·.key) := by
  intro hm
  obtain ⟨x, hx, hxk⟩ := List.mem_map.mp hm
  exact find_none h x hx hxk

theorem nodup_keys_append_new {items : List Entry} {e : Entry} (hu : (items.map (·.key)).Nodup)
    (hn : e.key ∉ items.map (·.key)) : ((items ++ [e]).map (·.key)).Nodup := by
  rw [List.map_append, List.nodup_append]
  refine ⟨hu, by simp, ?_⟩
  intro a ha b hb
  simp at hb
  subst hb
  intro hab
  exact hn (hab ▸ ha)

/-! ## the two phases of a read (`CacheStore::get`: container `get`, then expiry test and `remove`)

The model's `storeGet` is the code's sequence. `storeGetC` is the one-phase form the proofs work with:
an expired entry is simply removed. `storeGet_eq` proves the two are the same function. -/

theorem rm_rm (k : Nat) (items : List Entry) : rm k (rm k items) = rm k items := by
  simp [rm, List.filter_filter]

/-- removing key `k` after an in-place update of the entry stored under `k` (one that keeps the key)
is removing `k` -/
theorem rm_upd (k : Nat) (f : Entry → Entry) (items : List Entry) (hf : ∀ x, (f x).key = x.key) :
    rm k (upd k f items) = rm k items := by
  induction items with
  | nil => rfl
  | cons a tl ih =>
    simp only [rm, upd, List.map_cons, List.filter_cons] at ih ⊢
    by_cases hk : a.key = k
    · simp [hk, hf a, ih]
    · simp [hk, ih]

/-- **promote-then-remove = remove**: whatever the container's `get` did to the entry `e` it found
(LRU: moved it to the front; LFU: counted the use; FIFO: nothing), removing `e`'s key afterwards leaves
exactly the container that removing it at once would have left -/
theorem rm_touch (p : Policy) (tick : Nat) (e : Entry) (items : List Entry) :
    rm e.key (touch p tick e items) = rm e.key items := by
  cases p with
  | fifo => rfl
  | lfu => exact rm_upd e.key _ items (fun _ => rfl)
  | lru =>
    show rm e.key ({ e with used := tick } :: rm e.key items) = rm e.key items
    simp only [rm, List.filter_cons, bne_self_eq_false, Bool.false_eq_true, if_false]
    exact rm_rm e.key items

/-- the read in one phase: an expired entry is removed, an unexpired one is touched -/
def storeGetC (cfg : Cfg) (now tick : Nat) (items : List Entry) (k : Nat) : List Entry × Option Nat :=
  match find items k with
  | none   => (items, none)
  | some e => if expired cfg.ttl now e then (rm k items, none)
              else (touch cfg.policy tick e items, some e.val)

/-- the two-phase read of the code is the one-phase read -/
theorem storeGet_eq (cfg : Cfg) (now tick : Nat) (items : List Entry) (k : Nat) :
    storeGet cfg now tick items k = storeGetC cfg now tick items k := by
  unfold storeGet storeGetC
  cases hf : find items k with
  | none => rfl
  | some e =>
    have hk := (find_some hf).2
    simp only []
    by_cases hx : expired cfg.ttl now e = true
    · rw [if_pos hx, if_pos hx, ← hk, rm_touch]
    · rw [if_neg hx, if_neg hx]

/-! ## container invariant -/

structure SInv (p : Policy) (cap tick : Nat) (items : List Entry) : Prop where
  size  : items.length ≤ cap
  uniq  : (items.map (·.key)).Nodup
  lru   : p = .lru → items.Pairwise (fun a b => b.used < a.used)
  fifo  : p = .fifo → items.Pairwise (fun a b => a.born < b.born)
  ticks : ∀ e ∈ items, e.used < tick ∧ e.born < tick

theorem SInv.sublist {p : Policy} {cap tick tick' : Nat} {items l : List Entry}
    (h : SInv p cap tick items) (hs : l.Sublist items) (ht : tick ≤ tick') : SInv p cap tick' l where
  size := Nat.le_trans hs.length_le h.size
  uniq := nodup_keys_sublist hs h.uniq
  lru hp := (h.lru hp).sublist hs
  fifo hp := (h.fifo hp).sublist hs
  ticks e he := by have := h.ticks e (hs.subset he); omega

theorem pairwise_upd {R : Entry → Entry → Prop} (k : Nat) (f : Entry → Entry) (items : List Entry)
    (hR : ∀ a b, R a b → R (if a.key = k then f a else a) (if b.key = k then f b else b))
    (h : items.Pairwise R) : (upd k f items).Pairwise R := by
  unfold upd
  rw [List.pairwise_map]
  exact h.imp (fun {a b} hab => hR a b hab)

/-- an in-place update that keeps key and ghost instants keeps the invariant -/
theorem SInv.upd {p : Policy} {cap tick tick' : Nat} {items : List Entry} (k : Nat) (f : Entry → Entry)
    (hk : ∀ x, (f x).key = x.key) (hu : ∀ x, (f x).used = x.used) (hb : ∀ x, (f x).born = x.born)
    (h : SInv p cap tick items) (ht : tick ≤ tick') : SInv p cap tick' (upd k f items) where
  size := by rw [length_upd]; exact h.size
  uniq := by rw [keys_upd k f items hk]; exact h.uniq
  lru hp := by
    apply pairwise_upd k f items _ (h.lru hp)
    intro a b hab
    split <;> split <;> (try simp only [hu]) <;> exact hab
  fifo hp := by
    apply pairwise_upd k f items _ (h.fifo hp)
    intro a b hab
    split <;> split <;> (try simp only [hb]) <;> exact hab
  ticks e he := by
    obtain ⟨x, hx, rfl⟩ := mem_upd he
    have := h.ticks x hx
    split <;> (try simp only [hu, hb]) <;> omega

theorem touch_sinv {p : Policy} {cap tick : Nat} {items : List Entry} {e : Entry}
    (h : SInv p cap tick items) (he : e ∈ items) : SInv p cap (tick + 1) (touch p tick e items) := by
  cases p with
  | fifo => exact h.sublist (List.Sublist.refl _) (by omega)
  | lfu => exact h.upd _ _ (fun _ => rfl) (fun _ => rfl) (fun _ => rfl) (by omega)
  | lru =>
    have hsub := rm_sublist e.key items
    have hr := h.sublist hsub (Nat.le_succ tick)
    refine ⟨?_, ?_, ?_, ?_, ?_⟩
    · have := length_rm_lt he rfl
      have := h.size
      simp only [touch, List.length_cons]; omega
    · simp only [touch, List.map_cons, List.nodup_cons]
      exact ⟨key_not_in_rm e.key items, hr.uniq⟩
    · intro _
      simp only [touch, List.pairwise_cons]
      refine ⟨?_, hr.lru rfl⟩
      intro b hb
      exact (h.ticks b (mem_rm.mp hb).1).1
    · intro hp; cases hp
    · intro x hx
      simp only [touch, List.mem_cons] at hx
      rcases hx with rfl | hx
      · have := h.ticks e he; simp; omega
      · exact hr.ticks x hx

theorem storeGet_sinv (cfg : Cfg) (now tick : Nat) (items : List Entry) (k : Nat)
    (h : SInv cfg.policy cfg.cap tick items) :
    SInv cfg.policy cfg.cap (tick + 1) (storeGet cfg now tick items k).1 := by
  rw [storeGet_eq]; unfold storeGetC
  split
  · exact h.sublist (List.Sublist.refl _) (by omega)
  · rename_i e hf
    split
    · exact h.sublist (rm_sublist k items) (by omega)
    · exact touch_sinv h (find_some hf).1

/-! ### insertion -/

theorem firstMin_spec {items : List Entry} {m : Entry} (h : firstMin items = some m) :
    m ∈ items ∧ ∀ x ∈ items, m.cnt ≤ x.cnt := by
  induction items generalizing m with
  | nil => simp [firstMin] at h
  | cons e tl ih =>
    simp only [firstMin] at h
    split at h
    · rename_i hn
      cases h
      have : tl = [] := by
        cases tl with
        | nil => rfl
        | cons a t =>
          simp only [firstMin] at hn
          split at hn <;> (try split at hn) <;> simp at hn
      subst this
      simp
    · rename_i m' hm'
      have ih' := ih hm'
      split at h
      · cases h
        refine ⟨by simp, ?_⟩
        intro x hx
        simp only [List.mem_cons] at hx
        rcases hx with rfl | hx
        · exact Nat.le_refl _
        · have := ih'.2 x hx; omega
      · cases h
        refine ⟨List.mem_cons_of_mem _ ih'.1, ?_⟩
        intro x hx
        simp only [List.mem_cons] at hx
        rcases hx with rfl | hx
        · omega
        · exact ih'.2 x hx

theorem firstMin_none {items : List Entry} (h : firstMin items = none) : items = [] := by
  cases items with
  | nil => rfl
  | cons a t =>
    simp only [firstMin] at h
    split at h <;> (try split at h) <;> simp at h

theorem allowedVictim_spec {items : List Entry} {w : Nat} (h : allowedVictim items w = true) :
    ∃ e, find items w = some e ∧ ∀ x ∈ items, e.cnt ≤ x.cnt := by
  unfold allowedVictim at h
  split at h
  · rename_i e he
    refine ⟨e, he, ?_⟩
    intro x hx
    have := List.all_eq_true.mp h x hx
    simpa using this
  · simp at h

/-- whatever `w` is, the entry the LFU container removes is present and has minimal count -/
theorem lfuVictim_spec {items : List Entry} {w : Nat} {v : Entry} (h : lfuVictim items w = some v) :
    v ∈ items ∧ ∀ x ∈ items, v.cnt ≤ x.cnt := by
  unfold lfuVictim at h
  split at h
  · rename_i ha
    obtain ⟨e, he, hmin⟩ := allowedVictim_spec ha
    rw [he] at h; cases h
    exact ⟨(find_some he).1, hmin⟩
  · exact firstMin_spec h

theorem pairwise_append_one {R : Entry → Entry → Prop} {items : List Entry} {e : Entry}
    (h : items.Pairwise R) (he : ∀ a ∈ items, R a e) : (items ++ [e]).Pairwise R := by
  rw [List.pairwise_append]
  refine ⟨h, by simp, ?_⟩
  intro a ha b hb
  simp at hb
  subst hb
  exact he a ha

/-- appending a brand-new entry (ghost instants = the current tick) to a store with room -/
theorem SInv.append_new {p : Policy} {cap tick : Nat} {items : List Entry} {e : Entry}
    (h : SInv p cap tick items) (hp : p ≠ .lru) (hlen : items.length + 1 ≤ cap)
    (hnew : e.key ∉ items.map (·.key)) (hu : e.used = tick) (hb : e.born = tick) :
    SInv p cap (tick + 1) (items ++ [e]) where
  size := by simp; exact hlen
  uniq := nodup_keys_append_new h.uniq hnew
  lru hq := absurd hq hp
  fifo hq := pairwise_append_one (h.fifo hq) (fun a ha => by have := (h.ticks a ha).2; omega)
  ticks x hx := by
    simp only [List.mem_append, List.mem_singleton] at hx
    rcases hx with hx | rfl
    · have := h.ticks x hx; omega
    · omega

theorem SInv.cons_new {p : Policy} {cap tick : Nat} {items : List Entry} {e : Entry}
    (h : SInv p cap tick items) (hp : p = .lru) (hlen : items.length + 1 ≤ cap)
    (hnew : e.key ∉ items.map (·.key)) (hu : e.used = tick) (hb : e.born = tick) :
    SInv p cap (tick + 1) (e :: items) where
  size := by simp; exact hlen
  uniq := by simp only [List.map_cons, List.nodup_cons]; exact ⟨hnew, h.uniq⟩
  lru hq := by
    simp only [List.pairwise_cons]
    exact ⟨fun b hb' => by have := (h.ticks b hb').1; omega, h.lru hq⟩
  fifo hq := by rw [hp] at hq; cases hq
  ticks x hx := by
    simp only [List.mem_cons] at hx
    rcases hx with rfl | hx
    · omega
    · have := h.ticks x hx; omega

theorem length_dropLast_lt {items : List Entry} (h : items ≠ []) : items.dropLast.length + 1 = items.length := by
  simp [List.length_dropLast]
  have := List.length_pos_iff.mpr h
  omega

theorem insertLru_sinv {cap tick : Nat} {items : List Entry} {e : Entry} (hc : 0 < cap)
    (h : SInv .lru cap tick items) (hu : e.used = tick) (hb : e.born = tick) :
    SInv .lru cap (tick + 1) (insertLru cap items e).items := by
  unfold insertLru
  split
  · rename_i hs
    obtain ⟨x, hx⟩ := Option.isSome_iff_exists.mp hs
    have hlt := length_rm_lt (find_some hx).1 (find_some hx).2
    have hr := h.sublist (rm_sublist e.key items) (Nat.le_refl tick)
    exact hr.cons_new rfl (by have := h.size; omega) (key_not_in_rm e.key items) hu hb
  · rename_i hs
    have hnone : find items e.key = none := by
      cases hf : find items e.key with
      | none => rfl
      | some _ => simp [hf] at hs
    split
    · rename_i hfull
      have hne : items ≠ [] := by
        intro h0; subst h0; simp at hfull; omega
      have hd := h.sublist (List.dropLast_sublist items) (Nat.le_refl tick)
      have hl := length_dropLast_lt hne
      refine hd.cons_new rfl (by have := h.size; omega) ?_ hu hb
      intro hm
      exact key_not_in_of_find_none hnone ((List.dropLast_sublist items).map _ |>.subset hm)
    · rename_i hroom
      exact h.cons_new rfl (by omega) (key_not_in_of_find_none hnone) hu hb

theorem insertFifo_sinv {cap tick : Nat} {items : List Entry} {e : Entry} (hc : 0 < cap)
    (h : SInv .fifo cap tick items) (hu : e.used = tick) (hb : e.born = tick) :
    SInv .fifo cap (tick + 1) (insertFifo cap items e).items := by
  unfold insertFifo
  split
  · exact h.upd _ _ (fun _ => rfl) (fun _ => rfl) (fun _ => rfl) (by omega)
  · rename_i hs
    have hnone : find items e.key = none := by
      cases hf : find items e.key with
      | none => rfl
      | some _ => simp [hf] at hs
    split
    · rename_i hfull
      have hne : items ≠ [] := by
        intro h0; subst h0; simp at hfull; omega
      have ht := h.sublist (List.tail_sublist items) (Nat.le_refl tick)
      have hl : items.tail.length + 1 = items.length := by
        have := List.length_pos_iff.mpr hne
        simp; omega
      refine ht.append_new (by simp) (by have := h.size; omega) ?_ hu hb
      intro hm
      exact key_not_in_of_find_none hnone ((List.tail_sublist items).map _ |>.subset hm)
    · exact h.append_new (by simp) (by omega) (key_not_in_of_find_none hnone) hu hb

theorem insertLfu_sinv {cap tick : Nat} {items : List Entry} {e : Entry} (w : Nat) (hc : 0 < cap)
    (h : SInv .lfu cap tick items) (hu : e.used = tick) (hb : e.born = tick) :
    SInv .lfu cap (tick + 1) (insertLfu cap items e w).items := by
  unfold insertLfu
  split
  · exact h.upd _ _ (fun _ => rfl) (fun _ => rfl) (fun _ => rfl) (by omega)
  · rename_i hs
    have hnone : find items e.key = none := by
      cases hf : find items e.key with
      | none => rfl
      | some _ => simp [hf] at hs
    split
    · rename_i hfull
      split
      · rename_i v hv
        have hvm := (lfuVictim_spec hv).1
        have hlt := length_rm_lt hvm rfl
        have hr := h.sublist (rm_sublist v.key items) (Nat.le_refl tick)
        refine hr.append_new (by simp) (by have := h.size; omega) ?_ hu hb
        intro hm
        exact key_not_in_of_find_none hnone ((rm_sublist v.key items).map _ |>.subset hm)
      · rename_i hv
        -- no victim: only possible for an empty store, i.e. never when `cap ≥ 1`
        unfold lfuVictim at hv
        split at hv
        · rename_i ha
          obtain ⟨x, hx, _⟩ := allowedVictim_spec ha
          rw [hx] at hv; cases hv
        · have := firstMin_none hv
          subst this
          simp at hfull; omega
    · exact h.append_new (by simp) (by omega) (key_not_in_of_find_none hnone) hu hb

theorem storeInsert_sinv (cfg : Cfg) (now tick : Nat) (items : List Entry) (k v w : Nat)
    (hc : 0 < cfg.cap) (h : SInv cfg.policy cfg.cap tick items) :
    SInv cfg.policy cfg.cap (tick + 1) (storeInsert cfg now tick items k v w).items := by
  unfold storeInsert
  cases hp : cfg.policy with
  | lru => rw [hp] at h; exact insertLru_sinv hc h rfl rfl
  | fifo => rw [hp] at h; exact insertFifo_sinv hc h rfl rfl
  | lfu => rw [hp] at h; exact insertLfu_sinv w hc h rfl rfl

theorem cap_pos (cfg : Cfg) : 0 < cfg.cap := by
  unfold Cfg.cap
  split
  · split <;> omega
  · omega

theorem cap_eq_max {cfg : Cfg} (h : 0 < cfg.max) : cfg.cap = cfg.max := by
  unfold Cfg.cap
  split
  · omega
  · rfl


/-! ## what a read / an insert does to the contents (key, value, inserted_at) -/

/-- same key, value and `inserted_at` (the non-ghost, non-policy part of an entry) -/
def Same (x y : Entry) : Prop := x.key = y.key ∧ x.val = y.val ∧ x.ins = y.ins

theorem Same.rfl' (x : Entry) : Same x x := ⟨rfl, rfl, rfl⟩

theorem touch_mem {p : Policy} {tick : Nat} {e x : Entry} {items : List Entry} (he : e ∈ items)
    (hx : x ∈ touch p tick e items) : ∃ y ∈ items, Same x y := by
  cases p with
  | fifo => exact ⟨x, hx, Same.rfl' x⟩
  | lfu =>
    obtain ⟨y, hy, rfl⟩ := mem_upd hx
    refine ⟨y, hy, ?_⟩
    split <;> exact ⟨rfl, rfl, rfl⟩
  | lru =>
    simp only [touch, List.mem_cons] at hx
    rcases hx with rfl | hx
    · exact ⟨e, he, rfl, rfl, rfl⟩
    · exact ⟨x, (mem_rm.mp hx).1, Same.rfl' x⟩

/-- a read never changes a key, a value or an `inserted_at`, it can only remove the entry read -/
theorem storeGet_mem {cfg : Cfg} {now tick k : Nat} {items : List Entry} {x : Entry}
    (hx : x ∈ (storeGet cfg now tick items k).1) : ∃ y ∈ items, Same x y := by
  rw [storeGet_eq] at hx; unfold storeGetC at hx
  split at hx
  · exact ⟨x, hx, Same.rfl' x⟩
  · rename_i e hf
    split at hx
    · exact ⟨x, (mem_rm.mp hx).1, Same.rfl' x⟩
    · exact touch_mem (find_some hf).1 hx

/-- a hit returns the value of an entry stored under exactly that key which has not expired -/
theorem storeGet_hit {cfg : Cfg} {now tick k v : Nat} {items : List Entry}
    (h : (storeGet cfg now tick items k).2 = some v) :
    ∃ e ∈ items, e.key = k ∧ e.val = v ∧ expired cfg.ttl now e = false := by
  rw [storeGet_eq] at h; unfold storeGetC at h
  split at h
  · simp at h
  · rename_i e hf
    split at h
    · simp at h
    · rename_i hexp
      simp at h
      exact ⟨e, (find_some hf).1, (find_some hf).2, h, by simpa using hexp⟩

theorem expired_false {ttl : Option Nat} {now : Nat} {e : Entry} (h : expired ttl now e = false) :
    ∀ d, ttl = some d → now - e.ins ≤ d := by
  intro d hd
  subst hd
  simp [expired] at h
  omega

/-- after an insert of `(k, v)` at `now` every entry either is that binding or is an old entry of another key -/
def NewOrOld (k v now : Nat) (items : List Entry) (x : Entry) : Prop :=
  (x.key = k ∧ x.val = v ∧ x.ins = now) ∨ (x.key ≠ k ∧ ∃ y ∈ items, Same x y)

theorem old_of_mem {k v now : Nat} {items : List Entry} {x : Entry} (hx : x ∈ items)
    (hn : find items k = none) : NewOrOld k v now items x :=
  Or.inr ⟨find_none hn x hx, x, hx, Same.rfl' x⟩

theorem find_none_of_not_isSome {items : List Entry} {k : Nat} (hs : ¬ (find items k).isSome = true) :
    find items k = none := by
  cases hf : find items k with
  | none => rfl
  | some _ => simp [hf] at hs

theorem insertLru_mem {cap : Nat} {items : List Entry} {e x : Entry}
    (hx : x ∈ (insertLru cap items e).items) : NewOrOld e.key e.val e.ins items x := by
  unfold insertLru at hx
  split at hx
  · simp only [List.mem_cons] at hx
    rcases hx with rfl | hx
    · exact Or.inl ⟨rfl, rfl, rfl⟩
    · exact Or.inr ⟨(mem_rm.mp hx).2, x, (mem_rm.mp hx).1, Same.rfl' x⟩
  · rename_i hs
    have hn := find_none_of_not_isSome hs
    split at hx
    · simp only [List.mem_cons] at hx
      rcases hx with rfl | hx
      · exact Or.inl ⟨rfl, rfl, rfl⟩
      · exact old_of_mem ((List.dropLast_sublist items).subset hx) hn
    · simp only [List.mem_cons] at hx
      rcases hx with rfl | hx
      · exact Or.inl ⟨rfl, rfl, rfl⟩
      · exact old_of_mem hx hn

theorem upd_mem_newOrOld {items : List Entry} {e x : Entry} (f : Entry → Entry)
    (hx : x ∈ upd e.key f items)
    (hf : ∀ y, (f y).key = y.key ∧ (f y).val = e.val ∧ (f y).ins = e.ins) :
    NewOrOld e.key e.val e.ins items x := by
  obtain ⟨y, hy, rfl⟩ := mem_upd hx
  split
  · rename_i hk
    exact Or.inl ⟨by rw [(hf y).1]; exact hk, (hf y).2.1, (hf y).2.2⟩
  · rename_i hk
    exact Or.inr ⟨hk, y, hy, Same.rfl' y⟩

theorem append_mem_newOrOld {items l : List Entry} {e x : Entry} (hsub : l.Sublist items)
    (hn : find items e.key = none) (hx : x ∈ l ++ [e]) : NewOrOld e.key e.val e.ins items x := by
  simp only [List.mem_append, List.mem_singleton] at hx
  rcases hx with hx | rfl
  · exact old_of_mem (hsub.subset hx) hn
  · exact Or.inl ⟨rfl, rfl, rfl⟩

theorem insertFifo_mem {cap : Nat} {items : List Entry} {e x : Entry}
    (hx : x ∈ (insertFifo cap items e).items) : NewOrOld e.key e.val e.ins items x := by
  unfold insertFifo at hx
  split at hx
  · exact upd_mem_newOrOld (fun x => { x with val := e.val, ins := e.ins }) hx (fun _ => ⟨rfl, rfl, rfl⟩)
  · rename_i hs
    have hn := find_none_of_not_isSome hs
    split at hx
    · exact append_mem_newOrOld (List.tail_sublist items) hn hx
    · exact append_mem_newOrOld (List.Sublist.refl _) hn hx

theorem insertLfu_mem {cap w : Nat} {items : List Entry} {e x : Entry}
    (hx : x ∈ (insertLfu cap items e w).items) : NewOrOld e.key e.val e.ins items x := by
  unfold insertLfu at hx
  split at hx
  · exact upd_mem_newOrOld (fun x => { x with val := e.val, ins := e.ins, cnt := x.cnt + 1 }) hx
      (fun _ => ⟨rfl, rfl, rfl⟩)
  · rename_i hs
    have hn := find_none_of_not_isSome hs
    split at hx
    · split at hx
      · exact append_mem_newOrOld (rm_sublist _ items) hn hx
      · exact append_mem_newOrOld (List.Sublist.refl _) hn hx
    · exact append_mem_newOrOld (List.Sublist.refl _) hn hx

theorem storeInsert_mem {cfg : Cfg} {now tick k v w : Nat} {items : List Entry} {x : Entry}
    (hx : x ∈ (storeInsert cfg now tick items k v w).items) : NewOrOld k v now items x := by
  unfold storeInsert at hx
  split at hx
  · exact insertLru_mem hx
  · exact insertFifo_mem hx
  · exact insertLfu_mem hx

/-! ## victims -/

/-- What an insert of a **new** key into a **full** store does: exactly one old entry `v` leaves,
everything else stays, the new entry is added. -/
def Evicts (items new : List Entry) (e v : Entry) : Prop :=
  v ∈ items ∧ ∀ x, x ∈ new ↔ (x = e ∨ (x ∈ items ∧ x.key ≠ v.key))

theorem insertLru_victim {cap tick : Nat} {items : List Entry} {e : Entry} (hc : 0 < cap)
    (h : SInv .lru cap tick items) (hnone : find items e.key = none) (hfull : items.length ≥ cap) :
    ∃ v, (insertLru cap items e).victim = some v ∧ Evicts items (insertLru cap items e).items e v ∧
      ∀ x ∈ items, v.used ≤ x.used := by
  have hne : items ≠ [] := by intro h0; subst h0; simp at hfull; omega
  obtain ⟨v, hv⟩ : ∃ v, items.getLast? = some v := by
    cases hl : items.getLast? with
    | some v => exact ⟨v, rfl⟩
    | none => exact absurd (List.getLast?_eq_none_iff.mp hl) hne
  obtain ⟨ys, hys⟩ := List.getLast?_eq_some_iff.mp hv
  have hdl : items.dropLast = ys := by rw [hys]; simp
  have hlru := h.lru rfl
  have huniq := h.uniq
  rw [hys] at hlru huniq
  rw [List.pairwise_append] at hlru
  rw [List.map_append, List.nodup_append] at huniq
  have hvmem : v ∈ items := by rw [hys]; simp
  refine ⟨v, ?_, ⟨hvmem, ?_⟩, ?_⟩
  · simp [insertLru, hnone, hfull, hv]
  · intro x
    simp only [insertLru, hnone, Option.isSome_none, Bool.false_eq_true, if_false, hfull, if_true,
      List.mem_cons, hdl]
    constructor
    · rintro (rfl | hx)
      · exact Or.inl rfl
      · refine Or.inr ⟨by rw [hys]; simp [hx], ?_⟩
        exact huniq.2.2 x.key (List.mem_map.mpr ⟨x, hx, rfl⟩) v.key (by simp)
    · rintro (rfl | ⟨hx, hk⟩)
      · exact Or.inl rfl
      · right
        rw [hys] at hx
        simp only [List.mem_append, List.mem_singleton] at hx
        rcases hx with hx | rfl
        · exact hx
        · exact absurd rfl hk
  · intro x hx
    rw [hys] at hx
    simp only [List.mem_append, List.mem_singleton] at hx
    rcases hx with hx | rfl
    · have := hlru.2.2 x hx v (by simp); omega
    · exact Nat.le_refl _

theorem insertFifo_victim {cap tick : Nat} {items : List Entry} {e : Entry} (hc : 0 < cap)
    (h : SInv .fifo cap tick items) (hnone : find items e.key = none) (hfull : items.length ≥ cap) :
    ∃ v, (insertFifo cap items e).victim = some v ∧ Evicts items (insertFifo cap items e).items e v ∧
      ∀ x ∈ items, v.born ≤ x.born := by
  cases items with
  | nil => simp at hfull; omega
  | cons v tl =>
    have hf := h.fifo rfl
    have hu := h.uniq
    simp only [List.pairwise_cons] at hf
    simp only [List.map_cons, List.nodup_cons] at hu
    refine ⟨v, ?_, ⟨by simp, ?_⟩, ?_⟩
    · simp only [insertFifo, hnone, Option.isSome_none, Bool.false_eq_true, if_false, hfull, if_true,
        List.head?_cons]
    · intro x
      simp only [insertFifo, hnone, Option.isSome_none, Bool.false_eq_true, if_false, hfull, if_true,
        List.tail_cons, List.mem_append, List.mem_cons, List.not_mem_nil, or_false]
      constructor
      · rintro (hx | rfl)
        · refine Or.inr ⟨Or.inr hx, ?_⟩
          intro hk
          exact hu.1 (List.mem_map.mpr ⟨x, hx, hk⟩)
        · exact Or.inl rfl
      · rintro (rfl | ⟨hx | hx, hk⟩)
        · exact Or.inr rfl
        · exact absurd (by rw [hx]) hk
        · exact Or.inl hx
    · intro x hx
      simp only [List.mem_cons] at hx
      rcases hx with rfl | hx
      · exact Nat.le_refl _
      · have := hf.1 x hx; omega

theorem insertLfu_victim {cap tick w : Nat} {items : List Entry} {e : Entry} (hc : 0 < cap)
    (h : SInv .lfu cap tick items) (hnone : find items e.key = none) (hfull : items.length ≥ cap) :
    ∃ v, (insertLfu cap items e w).victim = some v ∧ Evicts items (insertLfu cap items e w).items e v ∧
      (∀ x ∈ items, v.cnt ≤ x.cnt) ∧ (allowedVictim items w = true → v.key = w) := by
  have hne : items ≠ [] := by intro h0; subst h0; simp at hfull; omega
  obtain ⟨v, hv⟩ : ∃ v, lfuVictim items w = some v := by
    cases hl : lfuVictim items w with
    | some v => exact ⟨v, rfl⟩
    | none =>
      unfold lfuVictim at hl
      split at hl
      · rename_i ha
        obtain ⟨x, hx, _⟩ := allowedVictim_spec ha
        rw [hx] at hl; cases hl
      · exact absurd (firstMin_none hl) hne
  have hs := lfuVictim_spec hv
  refine ⟨v, ?_, ⟨hs.1, ?_⟩, hs.2, ?_⟩
  · simp [insertLfu, hnone, hfull, hv]
  · intro x
    simp only [insertLfu, hnone, Option.isSome_none, Bool.false_eq_true, if_false, hfull, if_true, hv,
      List.mem_append, List.mem_singleton]
    constructor
    · rintro (hx | rfl)
      · exact Or.inr (mem_rm.mp hx)
      · exact Or.inl rfl
    · rintro (rfl | hx)
      · exact Or.inr rfl
      · exact Or.inl (mem_rm.mpr hx)
  · intro ha
    unfold lfuVictim at hv
    rw [if_pos ha] at hv
    exact (find_some hv).2

theorem insertLru_keeps {cap : Nat} {items : List Entry} {e : Entry}
    (h : (find items e.key).isSome = true ∨ items.length < cap) :
    (insertLru cap items e).victim = none ∧
    ∀ x ∈ items, x.key ≠ e.key → ∃ y ∈ (insertLru cap items e).items, Same y x := by
  unfold insertLru
  by_cases hs : (find items e.key).isSome = true
  · simp only [hs, if_true, true_and]
    intro x hx hk
    exact ⟨x, List.mem_cons_of_mem _ (mem_rm.mpr ⟨hx, hk⟩), Same.rfl' x⟩
  · have hl : ¬ items.length ≥ cap := by rcases h with h | h; exact absurd h hs; omega
    simp only [hs, hl, Bool.false_eq_true, if_false, true_and]
    intro x hx _
    exact ⟨x, List.mem_cons_of_mem _ hx, Same.rfl' x⟩

theorem insertFifo_keeps {cap : Nat} {items : List Entry} {e : Entry}
    (h : (find items e.key).isSome = true ∨ items.length < cap) :
    (insertFifo cap items e).victim = none ∧
    ∀ x ∈ items, x.key ≠ e.key → ∃ y ∈ (insertFifo cap items e).items, Same y x := by
  unfold insertFifo
  by_cases hs : (find items e.key).isSome = true
  · simp only [hs, if_true, true_and]
    intro x hx hk
    exact ⟨x, mem_upd_of_ne hx hk, Same.rfl' x⟩
  · have hl : ¬ items.length ≥ cap := by rcases h with h | h; exact absurd h hs; omega
    simp only [hs, hl, Bool.false_eq_true, if_false, true_and]
    intro x hx _
    exact ⟨x, by simp [hx], Same.rfl' x⟩

theorem insertLfu_keeps {cap w : Nat} {items : List Entry} {e : Entry}
    (h : (find items e.key).isSome = true ∨ items.length < cap) :
    (insertLfu cap items e w).victim = none ∧
    ∀ x ∈ items, x.key ≠ e.key → ∃ y ∈ (insertLfu cap items e w).items, Same y x := by
  unfold insertLfu
  by_cases hs : (find items e.key).isSome = true
  · simp only [hs, if_true, true_and]
    intro x hx hk
    exact ⟨x, mem_upd_of_ne hx hk, Same.rfl' x⟩
  · have hl : ¬ items.length ≥ cap := by rcases h with h | h; exact absurd h hs; omega
    simp only [hs, hl, Bool.false_eq_true, if_false, true_and]
    intro x hx _
    exact ⟨x, by simp [hx], Same.rfl' x⟩

/-- when the key is present, or the store has room, nothing is evicted: every entry of another
key is still there with its value and `inserted_at` -/
theorem storeInsert_keeps {cfg : Cfg} {now tick k v w : Nat} {items : List Entry}
    (h : (find items k).isSome = true ∨ items.length < cfg.cap) :
    (storeInsert cfg now tick items k v w).victim = none ∧
    ∀ x ∈ items, x.key ≠ k → ∃ y ∈ (storeInsert cfg now tick items k v w).items, Same y x := by
  unfold storeInsert
  split
  · exact insertLru_keeps h
  · exact insertFifo_keeps h
  · exact insertLfu_keeps h


/-! ## association lists -/

theorem lookup_mem {α : Type} {l : List (Nat × α)} {c : Nat} {v : α} (h : lookup l c = some v) : (c, v) ∈ l := by
  induction l with
  | nil => simp [lookup] at h
  | cons hd tl ih =>
    obtain ⟨k, v'⟩ := hd
    simp only [lookup] at h
    split at h
    · rename_i hk
      cases h
      subst hk
      exact List.mem_cons_self
    · exact List.mem_cons_of_mem _ (ih h)

theorem lookup_cons_ne {α : Type} {l : List (Nat × α)} {k c : Nat} {v : α} (h : k ≠ c) :
    lookup ((k, v) :: l) c = lookup l c := by
  simp [lookup, h]

theorem lookup_cons_eq {α : Type} {l : List (Nat × α)} {c : Nat} {v : α} :
    lookup ((c, v) :: l) c = some v := by
  simp [lookup]

theorem mem_del {α : Type} {l : List (Nat × α)} {c : Nat} {q : Nat × α} (h : q ∈ del l c) : q ∈ l :=
  (List.mem_filter.mp h).1

/-! ## the three invariants of the service model

`Inv1` — the container invariant, the refinement `store ⊆ spec map`, instants in the past;
`Inv2` — ghost bookkeeping: every stored value is the response of an `Ok` completion of a call made for that key;
`Inv3` — the inner service is called at most once per request. -/

structure Inv1 (cfg : Cfg) (s : State) : Prop where
  st    : SInv cfg.policy cfg.cap s.tick s.store
  fresh : ∀ e ∈ s.store, lookup s.stored e.key = some (e.val, e.ins)
  past  : ∀ x ∈ s.stored, x.2.2 ≤ s.now

theorem Inv1.congr {cfg : Cfg} {s s' : State} (h : Inv1 cfg s) (h1 : s'.store = s.store)
    (h2 : s'.tick = s.tick) (h3 : s'.stored = s.stored) (h4 : s'.now = s.now) : Inv1 cfg s' := by
  constructor
  · rw [h1, h2]; exact h.st
  · rw [h1, h3]; exact h.fresh
  · rw [h3, h4]; exact h.past

theorem Inv1.get {cfg : Cfg} {s s' : State} (h : Inv1 cfg s) (k : Nat)
    (h1 : s'.store = (storeGet cfg s.now s.tick s.store k).1)
    (h2 : s'.tick = s.tick + 1) (h3 : s'.stored = s.stored) (h4 : s'.now = s.now) : Inv1 cfg s' := by
  constructor
  · rw [h1, h2]; exact storeGet_sinv cfg s.now s.tick s.store k h.st
  · rw [h1, h3]
    intro e he
    obtain ⟨y, hy, hk, hv, hi⟩ := storeGet_mem he
    rw [hk, hv, hi]; exact h.fresh y hy
  · rw [h3, h4]; exact h.past

theorem Inv1.insert {cfg : Cfg} {s s' : State} (h : Inv1 cfg s) (k v w : Nat)
    (h1 : s'.store = (storeInsert cfg s.now s.tick s.store k v w).items)
    (h2 : s'.tick = s.tick + 1) (h3 : s'.stored = (k, (v, s.now)) :: s.stored) (h4 : s'.now = s.now) :
    Inv1 cfg s' := by
  constructor
  · rw [h1, h2]; exact storeInsert_sinv cfg s.now s.tick s.store k v w (cap_pos cfg) h.st
  · rw [h1, h3]
    intro e he
    rcases storeInsert_mem he with ⟨hk, hv, hi⟩ | ⟨hk, y, hy, hyk, hyv, hyi⟩
    · rw [hk, hv, hi]; exact lookup_cons_eq
    · rw [lookup_cons_ne (fun hh => hk hh.symm), hyk, hyv, hyi]; exact h.fresh y hy
  · rw [h3, h4]
    intro x hx
    simp only [List.mem_cons] at hx
    rcases hx with rfl | hx
    · exact Nat.le_refl _
    · exact h.past x hx

structure Inv2 (s : State) : Prop where
  okDone   : ∀ x ∈ s.stored, ∃ c, Ev.innerDone c x.2.1 .ok ∈ s.log
  rightKey : ∀ x ∈ s.stored, lookup s.callKey x.2.1 = some x.1
  serials  : ∀ y ∈ s.callKey, y.1 < s.serial
  pendKey  : ∀ q ∈ s.pend, lookup s.callKey q.2.k = some q.2.key

theorem Inv2.frame {s s' : State} (h : Inv2 s) (h1 : s'.stored = s.stored) (h2 : s'.callKey = s.callKey)
    (h3 : s'.serial = s.serial) (h4 : ∀ q ∈ s'.pend, q ∈ s.pend) (h5 : ∀ e ∈ s.log, e ∈ s'.log) : Inv2 s' := by
  constructor
  · rw [h1]; intro x hx
    obtain ⟨c, hc⟩ := h.okDone x hx
    exact ⟨c, h5 _ hc⟩
  · rw [h1, h2]; exact h.rightKey
  · rw [h2, h3]; exact h.serials
  · rw [h2]; intro q hq; exact h.pendKey q (h4 q hq)

/-- a serial that is already mapped is not the next serial -/
theorem Inv2.lookup_fresh {s : State} (h : Inv2 s) {a k key : Nat} (hl : lookup s.callKey a = some k) :
    lookup ((s.serial, key) :: s.callKey) a = some k := by
  have := h.serials _ (lookup_mem hl)
  rw [lookup_cons_ne (by simp at this; omega)]; exact hl

def isCall : Ev → Bool
  | .innerCall _ _ => true
  | _ => false

def isCallOf (c : Nat) : Ev → Bool
  | .innerCall c' _ => c' == c
  | _ => false

structure Inv3 (s : State) : Prop where
  callSeen : ∀ c k, Ev.innerCall c k ∈ s.log → c ∈ s.seen
  callOnce : ∀ c, s.log.countP (isCallOf c) ≤ 1

theorem countP_callOf_nocall (c : Nat) (evs : List Ev) (h : ∀ e ∈ evs, isCall e = false) :
    evs.countP (isCallOf c) = 0 := by
  apply List.countP_eq_zero.mpr
  intro e he
  have := h e he
  cases e <;> simp_all [isCall, isCallOf]

theorem Inv3.frame {s s' : State} (h : Inv3 s) (evs : List Ev) (h1 : s'.log = s.log ++ evs)
    (h2 : ∀ e ∈ evs, isCall e = false) (h3 : ∀ c ∈ s.seen, c ∈ s'.seen) : Inv3 s' := by
  constructor
  · intro c k hm
    rw [h1, List.mem_append] at hm
    rcases hm with hm | hm
    · exact h3 c (h.callSeen c k hm)
    · have := h2 _ hm; simp [isCall] at this
  · intro c
    rw [h1, List.countP_append, countP_callOf_nocall c evs h2]
    exact h.callOnce c

/-! ### helper by helper -/

theorem reqEv_nocall (c key svc : Nat) : isCall (reqEv c key svc) = false := rfl

theorem arriveHit_inv {cfg : Cfg} {s : State} (c key svc v : Nat)
    (h1 : Inv1 cfg s) (h2 : Inv2 s) (h3 : Inv3 s) :
    let s' := arriveHit s c key svc (storeGet cfg s.now s.tick s.store key).1 v
    Inv1 cfg s' ∧ Inv2 s' ∧ Inv3 s' := by
  refine ⟨h1.get key rfl rfl rfl rfl, h2.frame rfl rfl rfl (fun _ hq => hq) ?_, h3.frame [reqEv c key svc] rfl ?_ ?_⟩
  · intro e he; simp [arriveHit, emit, he]
  · intro e he; simp at he; subst he; rfl
  · intro x hx; simp [arriveHit, emit, hx]

theorem arriveMiss_inv {cfg : Cfg} {s : State} (c key svc : Nat) (sc : Step) (hc : c ∉ s.seen)
    (h1 : Inv1 cfg s) (h2 : Inv2 s) (h3 : Inv3 s) :
    let s' := arriveMiss s c key svc (storeGet cfg s.now s.tick s.store key).1 sc
    Inv1 cfg s' ∧ Inv2 s' ∧ Inv3 s' := by
  refine ⟨h1.get key rfl rfl rfl rfl, ⟨?_, ?_, ?_, ?_⟩, ⟨?_, ?_⟩⟩
  · intro x hx
    obtain ⟨c', hc'⟩ := h2.okDone x hx
    exact ⟨c', by simp [arriveMiss, emit, hc']⟩
  · intro x hx
    exact h2.lookup_fresh (h2.rightKey x hx)
  · intro y hy
    simp only [arriveMiss, emit, List.mem_cons] at hy
    rcases hy with rfl | hy
    · simp [arriveMiss, emit]
    · have := h2.serials y hy
      simp only [arriveMiss, emit]; omega
  · intro q hq
    simp only [arriveMiss, emit, List.mem_cons] at hq
    rcases hq with rfl | hq
    · exact lookup_cons_eq
    · exact h2.lookup_fresh (h2.pendKey q hq)
  · intro c' k hm
    simp only [arriveMiss, emit, List.mem_append, List.mem_cons, List.not_mem_nil, or_false] at hm
    rcases hm with hm | hm | hm
    · exact List.mem_cons_of_mem _ (h3.callSeen c' k hm)
    · simp [reqEv] at hm
    · cases hm; exact List.mem_cons_self
  · intro c'
    simp only [arriveMiss, emit, List.countP_append]
    by_cases hcc : c = c'
    · subst hcc
      have : s.log.countP (isCallOf c) = 0 := by
        apply List.countP_eq_zero.mpr
        intro e he
        cases e <;> simp [isCallOf]
        rename_i c'' k
        intro hh; subst hh
        exact hc (h3.callSeen _ k he)
      rw [this]
      simp [isCallOf, reqEv]
    · have := h3.callOnce c'
      simp [isCallOf, reqEv, hcc]
      exact this

theorem arrive_inv {cfg : Cfg} {s : State} (c key svc : Nat) (sc : Step)
    (h1 : Inv1 cfg s) (h2 : Inv2 s) (h3 : Inv3 s) :
    Inv1 cfg (arrive cfg s c key svc sc) ∧ Inv2 (arrive cfg s c key svc sc) ∧ Inv3 (arrive cfg s c key svc sc) := by
  unfold arrive
  split
  · exact ⟨h1, h2, h3⟩
  · rename_i hseen
    simp only []
    split
    · exact arriveHit_inv c key svc _ h1 h2 h3
    · exact arriveMiss_inv c key svc sc (by simpa using hseen) h1 h2 h3

theorem pollHit_inv {cfg : Cfg} {s : State} (c v : Nat) (h1 : Inv1 cfg s) (h2 : Inv2 s) (h3 : Inv3 s) :
    Inv1 cfg (pollHit s c v) ∧ Inv2 (pollHit s c v) ∧ Inv3 (pollHit s c v) := by
  refine ⟨h1.congr rfl rfl rfl rfl, h2.frame rfl rfl rfl (fun _ hq => hq) ?_, h3.frame [.result c (.ok v)] rfl ?_ (fun _ hx => hx)⟩
  · intro e he; simp [pollHit, emit, he]
  · intro e he; simp at he; subst he; rfl

theorem completeFail_inv {cfg : Cfg} {s : State} (c : Nat) (p : Pend) (r : Res)
    (h1 : Inv1 cfg s) (h2 : Inv2 s) (h3 : Inv3 s) :
    Inv1 cfg (completeFail s c p r) ∧ Inv2 (completeFail s c p r) ∧ Inv3 (completeFail s c p r) := by
  refine ⟨h1.congr rfl rfl rfl rfl, h2.frame rfl rfl rfl (fun _ hq => mem_del hq) ?_,
    h3.frame [.innerDone c p.k p.out, .result c r] rfl ?_ (fun _ hx => hx)⟩
  · intro e he; simp [completeFail, emit, he]
  · intro e he; simp at he; rcases he with rfl | rfl <;> rfl

theorem completeOk_events_nocall (c k : Nat) (b : Bool) :
    ∀ e ∈ ([Ev.innerDone c k .ok] ++ (if b then [] else [Ev.raw "choice-not-allowed"]) ++ [Ev.result c (.ok k)]),
      isCall e = false := by
  intro e he
  cases b <;> simp at he <;> rcases he with rfl | rfl | rfl <;> rfl

theorem completeOk_inv {cfg : Cfg} {s : State} (c w : Nat) (p : Pend) (hp : (c, p) ∈ s.pend)
    (h1 : Inv1 cfg s) (h2 : Inv2 s) (h3 : Inv3 s) :
    Inv1 cfg (completeOk cfg s c p w) ∧ Inv2 (completeOk cfg s c p w) ∧ Inv3 (completeOk cfg s c p w) := by
  refine ⟨h1.insert p.key p.k w rfl rfl rfl rfl, ⟨?_, ?_, h2.serials, ?_⟩,
    h3.frame _ rfl (completeOk_events_nocall c p.k _) (fun _ hx => hx)⟩
  · intro x hx
    simp only [completeOk, emit, List.mem_cons] at hx
    rcases hx with rfl | hx
    · exact ⟨c, by simp [completeOk, emit]⟩
    · obtain ⟨c', hc'⟩ := h2.okDone x hx
      exact ⟨c', by simp [completeOk, emit, hc']⟩
  · intro x hx
    simp only [completeOk, emit, List.mem_cons] at hx
    rcases hx with rfl | hx
    · exact h2.pendKey _ hp
    · exact h2.rightKey x hx
  · intro q hq
    exact h2.pendKey q (mem_del hq)

theorem pollPend_inv {cfg : Cfg} {s : State} (c w : Nat) (p : Pend) (hp : (c, p) ∈ s.pend)
    (h1 : Inv1 cfg s) (h2 : Inv2 s) (h3 : Inv3 s) :
    Inv1 cfg (pollPend cfg s c p w) ∧ Inv2 (pollPend cfg s c p w) ∧ Inv3 (pollPend cfg s c p w) := by
  unfold pollPend
  split
  · split
    · exact completeOk_inv c w p hp h1 h2 h3
    · exact completeFail_inv c p _ h1 h2 h3
    · exact completeFail_inv c p _ h1 h2 h3
    · exact ⟨h1, h2, h3⟩
  · exact ⟨h1, h2, h3⟩

theorem poll_inv {cfg : Cfg} {s : State} (c w : Nat) (h1 : Inv1 cfg s) (h2 : Inv2 s) (h3 : Inv3 s) :
    Inv1 cfg (poll cfg s c w) ∧ Inv2 (poll cfg s c w) ∧ Inv3 (poll cfg s c w) := by
  unfold poll
  split
  · exact pollHit_inv c _ h1 h2 h3
  · split
    · rename_i p hp
      exact pollPend_inv c w p (lookup_mem hp) h1 h2 h3
    · exact ⟨h1, h2, h3⟩

theorem dropC_inv {cfg : Cfg} {s : State} (c : Nat) (h1 : Inv1 cfg s) (h2 : Inv2 s) (h3 : Inv3 s) :
    Inv1 cfg (dropC s c) ∧ Inv2 (dropC s c) ∧ Inv3 (dropC s c) := by
  unfold dropC
  split
  · exact ⟨h1.congr rfl rfl rfl rfl, h2.frame rfl rfl rfl (fun _ hq => hq) (fun _ he => he),
      h3.frame [] (by simp) (by simp) (fun _ hx => hx)⟩
  · split
    · rename_i p hp
      refine ⟨h1.congr rfl rfl rfl rfl, h2.frame rfl rfl rfl (fun _ hq => mem_del hq) ?_,
        h3.frame [.innerDrop c p.k] rfl ?_ (fun _ hx => hx)⟩
      · intro e he; simp [emit, he]
      · intro e he; simp at he; subst he; rfl
    · exact ⟨h1, h2, h3⟩

theorem adv_inv {cfg : Cfg} {s : State} (ms : Nat) (h1 : Inv1 cfg s) (h2 : Inv2 s) (h3 : Inv3 s) :
    let s' : State := { s with now := s.now + ms }
    Inv1 cfg s' ∧ Inv2 s' ∧ Inv3 s' := by
  refine ⟨⟨h1.st, h1.fresh, ?_⟩, h2.frame rfl rfl rfl (fun _ hq => hq) (fun _ he => he),
    h3.frame [] (by simp) (by simp) (fun _ hx => hx)⟩
  intro x hx
  have := h1.past x hx
  simp only []; omega

theorem step_inv {cfg : Cfg} {s : State} (op : Op) (h1 : Inv1 cfg s) (h2 : Inv2 s) (h3 : Inv3 s) :
    Inv1 cfg (stepS cfg s op) ∧ Inv2 (stepS cfg s op) ∧ Inv3 (stepS cfg s op) := by
  cases op with
  | adv ms => exact adv_inv ms h1 h2 h3
  | arrive c key svc sc => exact arrive_inv c key svc sc h1 h2 h3
  | poll c w => exact poll_inv c w h1 h2 h3
  | drop c => exact dropC_inv c h1 h2 h3

theorem init_inv (cfg : Cfg) : Inv1 cfg init ∧ Inv2 init ∧ Inv3 init := by
  refine ⟨⟨⟨by simp [init], by simp [init], ?_, ?_, ?_⟩, ?_, ?_⟩, ⟨?_, ?_, ?_, ?_⟩, ⟨?_, ?_⟩⟩ <;>
    simp [init]

/-- every reachable state satisfies the three invariants -/
theorem inv_reachable (cfg : Cfg) (ops : List Op) :
    Inv1 cfg (run cfg ops) ∧ Inv2 (run cfg ops) ∧ Inv3 (run cfg ops) := by
  unfold run
  suffices ∀ s, (Inv1 cfg s ∧ Inv2 s ∧ Inv3 s) →
      (Inv1 cfg (ops.foldl (stepS cfg) s) ∧ Inv2 (ops.foldl (stepS cfg) s) ∧ Inv3 (ops.foldl (stepS cfg) s)) from
    this _ (init_inv cfg)
  induction ops with
  | nil => intro s h; exact h
  | cons o os ih =>
    intro s h
    exact ih _ (step_inv o h.1 h.2.1 h.2.2)


/-! ## one-step characterisations (used verbatim by the C10 property file) -/

theorem step_stored (cfg : Cfg) (s : State) (op : Op) :
    (stepS cfg s op).stored = s.stored ∨
    ∃ c w p, op = .poll c w ∧ lookup s.hits c = none ∧ lookup s.pend c = some p ∧ p.out = .ok ∧
      p.doneAt ≤ s.now ∧ (stepS cfg s op).stored = (p.key, (p.k, s.now)) :: s.stored := by
  cases op with
  | adv ms => exact Or.inl rfl
  | drop c =>
    left; simp only [stepS, dropC]
    split
    · rfl
    · split <;> rfl
  | arrive c key svc sc =>
    left; simp only [stepS, arrive]
    split
    · rfl
    · split <;> rfl
  | poll c w =>
    simp only [stepS, poll]
    split
    · exact Or.inl rfl
    · rename_i hh
      split
      · rename_i p hp
        unfold pollPend
        split
        · rename_i hdone
          split
          · rename_i hout
            exact Or.inr ⟨c, w, p, rfl, hh, hp, hout, hdone, rfl⟩
          · exact Or.inl rfl
          · exact Or.inl rfl
          · exact Or.inl rfl
        · exact Or.inl rfl
      · exact Or.inl rfl

theorem step_arrive_hit (cfg : Cfg) (s : State) (c k svc v : Nat) (sc : Step)
    (hc : s.seen.contains c = false)
    (h : (storeGet cfg s.now s.tick s.store k).2 = some v) :
    (stepS cfg s (.arrive c k svc sc)).log = s.log ++ [reqEv c k svc] ∧
    (stepS cfg s (.arrive c k svc sc)).serial = s.serial ∧
    (stepS cfg s (.arrive c k svc sc)).pend = s.pend ∧
    lookup (stepS cfg s (.arrive c k svc sc)).hits c = some v := by
  have : stepS cfg s (.arrive c k svc sc)
      = arriveHit s c k svc (storeGet cfg s.now s.tick s.store k).1 v := by
    simp only [stepS, arrive, hc, Bool.false_eq_true, if_false, h]
  rw [this]
  exact ⟨rfl, rfl, rfl, lookup_cons_eq⟩

theorem step_poll_hit (cfg : Cfg) (s : State) (c v w : Nat) (h : lookup s.hits c = some v) :
    (stepS cfg s (.poll c w)).log = s.log ++ [.result c (.ok v)] ∧
    (stepS cfg s (.poll c w)).store = s.store := by
  have : stepS cfg s (.poll c w) = pollHit s c v := by simp only [stepS, poll, h]
  rw [this]
  exact ⟨rfl, rfl⟩

theorem step_arrive_miss (cfg : Cfg) (s : State) (c k svc : Nat) (sc : Step)
    (hc : s.seen.contains c = false)
    (h : (storeGet cfg s.now s.tick s.store k).2 = none) :
    (stepS cfg s (.arrive c k svc sc)).log = s.log ++ [reqEv c k svc, .innerCall c s.serial] ∧
    (stepS cfg s (.arrive c k svc sc)).serial = s.serial + 1 ∧
    lookup (stepS cfg s (.arrive c k svc sc)).pend c
      = some { key := k, k := s.serial, doneAt := s.now + sc.lat, out := sc.out } := by
  have : stepS cfg s (.arrive c k svc sc)
      = arriveMiss s c k svc (storeGet cfg s.now s.tick s.store k).1 sc := by
    simp only [stepS, arrive, hc, Bool.false_eq_true, if_false, h]
  rw [this]
  exact ⟨rfl, rfl, lookup_cons_eq⟩

theorem step_nocall (cfg : Cfg) (s : State) (op : Op)
    (h : ∀ c k svc sc, op ≠ .arrive c k svc sc) :
    ∃ evs, (stepS cfg s op).log = s.log ++ evs ∧ ∀ e ∈ evs, isCall e = false := by
  cases op with
  | arrive c k svc sc => exact absurd rfl (h c k svc sc)
  | adv ms => exact ⟨[], by simp [stepS], by simp⟩
  | drop c =>
    simp only [stepS, dropC]
    split
    · exact ⟨[], by simp, by simp⟩
    · split
      · rename_i p _
        exact ⟨[.innerDrop c p.k], rfl, by intro e he; simp at he; subst he; rfl⟩
      · exact ⟨[], by simp, by simp⟩
  | poll c w =>
    simp only [stepS, poll]
    split
    · rename_i v _
      exact ⟨[.result c (.ok v)], rfl, by intro e he; simp at he; subst he; rfl⟩
    · split
      · rename_i p _
        unfold pollPend
        split
        · split
          · exact ⟨_, rfl, completeOk_events_nocall c p.k _⟩
          · exact ⟨_, rfl, by intro e he; simp at he; rcases he with rfl | rfl <;> rfl⟩
          · exact ⟨_, rfl, by intro e he; simp at he; rcases he with rfl | rfl <;> rfl⟩
          · exact ⟨[], by simp, by simp⟩
        · exact ⟨[], by simp, by simp⟩
      · exact ⟨[], by simp, by simp⟩

theorem step_errors (cfg : Cfg) (s : State) (c w : Nat) (p : Pend)
    (hh : lookup s.hits c = none) (hp : lookup s.pend c = some p) (hout : p.out ≠ .ok) :
    (stepS cfg s (.poll c w)).store = s.store ∧ (stepS cfg s (.poll c w)).stored = s.stored := by
  simp only [stepS, poll, hh, hp, pollPend]
  split
  · split
    · rename_i h; exact absurd h hout
    · exact ⟨rfl, rfl⟩
    · exact ⟨rfl, rfl⟩
    · exact ⟨rfl, rfl⟩
  · exact ⟨rfl, rfl⟩

theorem storeInsert_lru {cfg : Cfg} (hp : cfg.policy = .lru) (now tick : Nat) (items : List Entry) (k v w : Nat) :
    storeInsert cfg now tick items k v w
      = insertLru cfg.cap items { key := k, val := v, ins := now, cnt := 1, used := tick, born := tick } := by
  simp only [storeInsert, hp]

theorem storeInsert_fifo {cfg : Cfg} (hp : cfg.policy = .fifo) (now tick : Nat) (items : List Entry) (k v w : Nat) :
    storeInsert cfg now tick items k v w
      = insertFifo cfg.cap items { key := k, val := v, ins := now, cnt := 1, used := tick, born := tick } := by
  simp only [storeInsert, hp]

theorem storeInsert_lfu {cfg : Cfg} (hp : cfg.policy = .lfu) (now tick : Nat) (items : List Entry) (k v w : Nat) :
    storeInsert cfg now tick items k v w
      = insertLfu cfg.cap items { key := k, val := v, ins := now, cnt := 1, used := tick, born := tick } w := by
  simp only [storeInsert, hp]

end TR.Cache
