import TR.Lemmas.Health
/-!
# Health check: the fuel of `quiesce` is adequate (C18, audit item "fuel 40 has no adequacy lemma")

`quiesce cfg fuel` lets the periodic task run "until nothing more can happen at this instant", cut off after `fuel`
transitions. Here: a state in which nothing more can happen is `settled`; from every state whose phase is consistent
with the configuration (`PhaseOK`: the interval is non-zero once the task is past `interval(period)` — true of every
reachable state, `phaseOK_reachable`) at most `cost ≤ 13` transitions lead to a settled state, for **every**
configuration (any interval ≥ 1, any timeout, any delay, any number of resources) and any distance between `now` and
the tick deadline. So `fuel = 40` is never what ends a step, and any fuel ≥ 13 gives the same run (`runWith_eq`).
The bound comes from tokio's 5 ms lateness tolerance: a tick that is more than 5 ms late re-aligns the next deadline
past `now` (one round), one that is at most 5 ms late is followed by deadlines `dl + period, dl + 2·period, …`, at
most six of which are ≤ `now`.
-/
namespace TR.Health

/-- nothing more can happen at this instant: the task is gone, asleep until a later instant, or awaiting a check -/
def settled (s : State) : Bool :=
  match s.phase with
  | .dead => true
  | .stopped => true
  | .spawned => false
  | .initial wake => decide (s.now < wake)
  | .waiting dl => decide (s.now < dl)
  | .checking _ => s.pending.any (·.cur)

def Phase.ticking : Phase → Bool
  | .waiting _ => true
  | .checking _ => true
  | _ => false

/-- the task is in its tick loop only with a non-zero period (`tokio::time::interval(0)` panics before the loop) -/
def PhaseOK (cfg : Cfg) (s : State) : Prop := s.phase.ticking = true → cfg.interval ≠ 0

/-- transitions still to come from `waiting dl` at `now`: two per round -/
def waitCost (now dl : Nat) : Nat :=
  if now < dl then 0 else if now - dl > 5 then 2 else 2 * (now - dl) + 2

/-- an upper bound on the transitions `quiesce` makes from `s` -/
def cost (s : State) : Nat :=
  match s.phase with
  | .dead => 0
  | .stopped => 0
  | .spawned => 4
  | .initial wake => if s.now < wake then 0 else 3
  | .waiting dl => waitCost s.now dl
  | .checking next => 1 + waitCost s.now next

theorem waitCost_le (now dl : Nat) : waitCost now dl ≤ 12 := by
  unfold waitCost; split
  · omega
  · split <;> omega

theorem cost_le (s : State) : cost s ≤ 13 := by
  unfold cost
  split
  · omega
  · omega
  · omega
  · split <;> omega
  · exact Nat.le_trans (waitCost_le _ _) (by omega)
  · have := waitCost_le s.now ‹Nat›; omega

/-- one round brings the cost down by two: the next deadline is later than `now`, or one period further on -/
theorem waitCost_step (iv now dl : Nat) (hiv : iv ≠ 0) (h : now ≥ dl) :
    waitCost now (nextTick iv now dl) + 2 ≤ waitCost now dl := by
  unfold nextTick
  split
  · rename_i hlate
    have hm : (now - dl) % iv < iv := Nat.mod_lt _ (Nat.pos_of_ne_zero hiv)
    have hnext : now < now + iv - (now - dl) % iv := by omega
    unfold waitCost
    rw [if_pos hnext, if_neg (by omega), if_pos (by omega)]
    omega
  · rename_i hsoon
    unfold waitCost
    rw [if_neg (show ¬ now < dl by omega), if_neg (show ¬ now - dl > 5 by omega)]
    have : 0 < iv := Nat.pos_of_ne_zero hiv
    split
    · omega
    · split <;> omega

/-! ### what the helpers leave alone -/

theorem finish_phase (cfg : Cfg) (s : State) (p : Pending) (o : Outcome) : (finish cfg s p o).phase = s.phase := rfl
theorem finish_now (cfg : Cfg) (s : State) (p : Pending) (o : Outcome) : (finish cfg s p o).now = s.now := rfl

theorem startOne_phase_now (cfg : Cfg) (s : State) (r : Nat) :
    (startOne cfg s r).phase = s.phase ∧ (startOne cfg s r).now = s.now := by
  unfold startOne
  split
  · exact ⟨rfl, rfl⟩
  · simp only
    split <;> exact ⟨rfl, rfl⟩

theorem foldl_phase_now {β : Type} (f : State → β → State)
    (hf : ∀ s b, (f s b).phase = s.phase ∧ (f s b).now = s.now) (l : List β) (s : State) :
    (l.foldl f s).phase = s.phase ∧ (l.foldl f s).now = s.now := by
  induction l generalizing s with
  | nil => exact ⟨rfl, rfl⟩
  | cons b tl ih =>
    obtain ⟨h1, h2⟩ := ih (f s b)
    obtain ⟨h3, h4⟩ := hf s b
    exact ⟨h1.trans h3, h2.trans h4⟩

theorem startRound_phase_now (cfg : Cfg) (s : State) :
    (startRound cfg s).phase = s.phase ∧ (startRound cfg s).now = s.now :=
  foldl_phase_now _ (startOne_phase_now cfg) _ s

theorem finishOne_phase_now (cfg : Cfg) (now : Nat) (s : State) (p : Pending) :
    (finishOne cfg now s p).phase = s.phase ∧ (finishOne cfg now s p).now = s.now := by
  unfold finishOne; split <;> exact ⟨rfl, rfl⟩

theorem finishDue_phase_now (cfg : Cfg) (order : List Nat) (s : State) :
    (finishDue cfg order s).phase = s.phase ∧ (finishDue cfg order s).now = s.now := by
  unfold finishDue
  exact foldl_phase_now _ (finishOne_phase_now cfg s.now) _ _

/-! ### settled states are fixed points; enough fuel reaches one -/

theorem quiesce_of_settled (cfg : Cfg) (f : Nat) (s : State) (h : settled s = true) : quiesce cfg f s = s := by
  cases f with
  | zero => rfl
  | succ f =>
    unfold quiesce
    unfold settled at h
    split
    · rfl
    · rfl
    · rename_i hp; simp [hp] at h
    · rename_i w hp
      simp only [hp, decide_eq_true_eq] at h
      rw [if_neg (by omega)]
    · rename_i dl hp
      simp only [hp, decide_eq_true_eq] at h
      rw [if_neg (by omega)]
    · rename_i nx hp
      simp only [hp] at h
      rw [if_pos h]

theorem quiesce_phaseOK (cfg : Cfg) (f : Nat) (s : State) (h : PhaseOK cfg s) : PhaseOK cfg (quiesce cfg f s) := by
  induction f generalizing s with
  | zero => exact h
  | succ f ih =>
    unfold quiesce
    split
    · exact h
    · exact h
    · exact ih _ (fun hh => by simp [Phase.ticking] at hh)
    · split
      · split
        · exact fun hh => by simp [Phase.ticking] at hh
        · rename_i hiv; exact ih _ (fun _ => hiv)
      · exact h
    · rename_i dl hp
      have hiv : cfg.interval ≠ 0 := h (by rw [hp]; rfl)
      split
      · exact ih _ (fun _ => hiv)
      · exact h
    · rename_i nx hp
      have hiv : cfg.interval ≠ 0 := h (by rw [hp]; rfl)
      split
      · exact h
      · exact ih _ (fun _ => hiv)

/-- **adequacy**: with at least `cost s` (≤ 13) units of fuel `quiesce` ends in a settled state — it is never the
fuel that stops it -/
theorem quiesce_settles (cfg : Cfg) (f : Nat) (s : State) (h : PhaseOK cfg s) (hf : cost s ≤ f) :
    settled (quiesce cfg f s) = true := by
  induction f generalizing s with
  | zero =>
    unfold quiesce
    unfold cost at hf
    unfold settled
    split <;> rename_i hp <;> simp only [hp] at hf ⊢
    · omega
    · split at hf
      · simpa using ‹s.now < _›
      · omega
    · unfold waitCost at hf
      split at hf
      · simpa using ‹s.now < _›
      · split at hf <;> omega
    · omega
  | succ f ih =>
    unfold quiesce
    split
    · rename_i hp; unfold settled; simp [hp]
    · rename_i hp; unfold settled; simp [hp]
    · rename_i hp
      apply ih
      · exact fun hh => by simp [Phase.ticking] at hh
      · unfold cost at hf ⊢; simp only [hp] at hf; simp only; split <;> omega
    · rename_i wake hp
      split
      · split
        · unfold settled; simp
        · rename_i hiv
          apply ih
          · exact fun _ => hiv
          · unfold cost at hf ⊢; simp only [hp] at hf; simp only
            rw [if_neg (by omega)] at hf
            unfold waitCost; rw [if_neg (by omega), if_neg (by omega)]; omega
      · unfold settled; simp only [hp]; simp; omega
    · rename_i dl hp
      have hiv : cfg.interval ≠ 0 := h (by rw [hp]; rfl)
      split
      · rename_i hge
        obtain ⟨e1, e2⟩ := startRound_phase_now cfg { s with phase := .checking (nextTick cfg.interval s.now dl) }
        apply ih
        · exact fun _ => hiv
        · unfold cost at hf ⊢; simp only [hp] at hf
          rw [e1]; simp only; rw [e2]
          have := waitCost_step cfg.interval s.now dl hiv hge
          simp only at this ⊢; omega
      · unfold settled; simp only [hp]; simp; omega
    · rename_i nx hp
      have hiv : cfg.interval ≠ 0 := h (by rw [hp]; rfl)
      split
      · rename_i hany; unfold settled; simp only [hp]; exact hany
      · apply ih
        · exact fun _ => hiv
        · unfold cost at hf ⊢; simp only [hp] at hf; simp only; omega

theorem quiesce_succ (cfg : Cfg) (f : Nat) (s : State) :
    quiesce cfg (f + 1) s =
      match s.phase with
      | .dead => s
      | .stopped => s
      | .spawned => quiesce cfg f { s with phase := .initial (s.now + cfg.delay) }
      | .initial wake =>
          if s.now ≥ wake then
            if cfg.interval = 0 then { s with phase := .dead }
            else quiesce cfg f { s with phase := .waiting s.now }
          else s
      | .waiting dl =>
          if s.now ≥ dl then
            quiesce cfg f (startRound cfg { s with phase := .checking (nextTick cfg.interval s.now dl) })
          else s
      | .checking next =>
          if s.pending.any (·.cur) then s else quiesce cfg f { s with phase := .waiting next } := by
  rfl

/-- running on after running is running longer: the fuel only matters if it runs out -/
theorem quiesce_add (cfg : Cfg) (a b : Nat) (s : State) : quiesce cfg (a + b) s = quiesce cfg b (quiesce cfg a s) := by
  induction a generalizing s with
  | zero => simp [quiesce]
  | succ a ih =>
    have e : a + 1 + b = (a + b) + 1 := by omega
    rw [e, quiesce_succ cfg (a + b) s, quiesce_succ cfg a s]
    have key : ∀ s' : State, settled s' = true → s' = quiesce cfg b s' := fun s' h => (quiesce_of_settled cfg b s' h).symm
    cases hp : s.phase with
    | dead => exact key s (by unfold settled; simp [hp])
    | stopped => exact key s (by unfold settled; simp [hp])
    | spawned => exact ih _
    | initial wake =>
      simp only
      split
      · split
        · exact key _ (by unfold settled; simp)
        · exact ih _
      · exact key s (by unfold settled; simp only [hp]; simp; omega)
    | waiting dl =>
      simp only
      split
      · exact ih _
      · exact key s (by unfold settled; simp only [hp]; simp; omega)
    | checking nx =>
      simp only
      split
      · rename_i hany; exact key s (by unfold settled; simp only [hp]; exact hany)
      · exact ih _

/-- any fuel ≥ 13 gives the result of fuel 13 -/
theorem quiesce_fuel_irrelevant (cfg : Cfg) (f : Nat) (s : State) (h : PhaseOK cfg s) (hf : 13 ≤ f) :
    quiesce cfg f s = quiesce cfg 13 s := by
  obtain ⟨k, rfl⟩ : ∃ k, f = 13 + k := ⟨f - 13, by omega⟩
  rw [quiesce_add]
  exact quiesce_of_settled cfg k _ (quiesce_settles cfg 13 s h (cost_le s))

/-! ### every reachable state is `PhaseOK`, every step ends settled -/

theorem doOp_phaseOK (cfg : Cfg) (s : State) (op : Op) (h : PhaseOK cfg s) : PhaseOK cfg (doOp cfg s op) := by
  cases op with
  | adv ms o => exact h
  | script r items => simp only [doOp]; split <;> exact h
  | status r => exact h
  | details r => exact h
  | all => exact h
  | getHealthy pick => unfold PhaseOK; rw [show doOp cfg s (.getHealthy pick) = doGet cfg s true pick from rfl, doGet_phase]; exact h
  | getUsable pick => unfold PhaseOK; rw [show doOp cfg s (.getUsable pick) = doGet cfg s false pick from rfl, doGet_phase]; exact h
  | start => exact fun hh => by simp [doOp, emit, Phase.ticking] at hh
  | stop => exact fun hh => by simp [doOp, emit, Phase.ticking] at hh
  | config => exact h
  | u8 v => exact h
  | fresh n => exact h
  | bad => exact h
  | idle => exact h

theorem finishDue_phaseOK (cfg : Cfg) (order : List Nat) (s : State) (h : PhaseOK cfg s) :
    PhaseOK cfg (finishDue cfg order s) := by
  unfold PhaseOK; rw [(finishDue_phase_now cfg order s).1]; exact h

theorem stepS_phaseOK (cfg : Cfg) (s : State) (op : Op) (h : PhaseOK cfg s) : PhaseOK cfg (stepS cfg s op) :=
  quiesce_phaseOK cfg _ _ (finishDue_phaseOK cfg _ _ (doOp_phaseOK cfg s op h))

theorem init_phaseOK (cfg : Cfg) : PhaseOK cfg (init cfg) := by
  unfold PhaseOK init
  simp only
  split <;> simp [Phase.ticking]

theorem foldl_phaseOK (cfg : Cfg) (ops : List Op) (s : State) (h : PhaseOK cfg s) :
    PhaseOK cfg (ops.foldl (stepS cfg) s) := by
  induction ops generalizing s with
  | nil => exact h
  | cons op tl ih => exact ih _ (stepS_phaseOK cfg s op h)

theorem phaseOK_reachable (cfg : Cfg) (ops : List Op) : PhaseOK cfg (run cfg ops) :=
  foldl_phaseOK cfg ops _ (init_phaseOK cfg)

theorem stepS_settled (cfg : Cfg) (s : State) (op : Op) (h : PhaseOK cfg s) : settled (stepS cfg s op) = true :=
  quiesce_settles cfg fuel _ (finishDue_phaseOK cfg _ _ (doOp_phaseOK cfg s op h))
    (Nat.le_trans (cost_le _) (by decide))

/-- the model with another amount of fuel -/
def stepSWith (f : Nat) (cfg : Cfg) (s : State) (op : Op) : State :=
  quiesce cfg f (finishDue cfg (orderOf op) (doOp cfg s op))

def runWith (f : Nat) (cfg : Cfg) (ops : List Op) : State := ops.foldl (stepSWith f cfg) (init cfg)

theorem stepSWith_eq (f : Nat) (hf : 13 ≤ f) (cfg : Cfg) (s : State) (op : Op) (h : PhaseOK cfg s) :
    stepSWith f cfg s op = stepS cfg s op := by
  unfold stepSWith stepS
  have hq := finishDue_phaseOK cfg (orderOf op) _ (doOp_phaseOK cfg s op h)
  rw [quiesce_fuel_irrelevant cfg f _ hq hf, quiesce_fuel_irrelevant cfg fuel _ hq (by decide)]

theorem runWith_eq (f : Nat) (hf : 13 ≤ f) (cfg : Cfg) (ops : List Op) : runWith f cfg ops = run cfg ops := by
  unfold runWith run
  have : ∀ s, PhaseOK cfg s → ops.foldl (stepSWith f cfg) s = ops.foldl (stepS cfg) s := by
    induction ops with
    | nil => intro s _; rfl
    | cons op tl ih =>
      intro s h
      simp only [List.foldl_cons]
      rw [stepSWith_eq f hf cfg s op h]
      exact ih _ (stepS_phaseOK cfg s op h)
  exact this _ (init_phaseOK cfg)

end TR.Health
