import TR.Lemmas.Coalesce
/-!
# Coalesce (C11): several services (`svc=<i>`) = the model over the key space (service, key)

`svcKey` is injective, and an operation only ever touches the table entry of the one key it is about: the key of
the arriving request, or the key fixed in the role of the polled / dropped caller. Together: an operation on a
request of service `i` leaves the whole table of every other service as it was.
-/
namespace TR.Coalesce

theorem tri_mono {a b : Nat} (h : a ≤ b) : tri a ≤ tri b := by
  induction b with
  | zero => have : a = 0 := by omega
            subst this; exact Nat.le_refl _
  | succ n ih =>
    by_cases e : a = n + 1
    · subst e; exact Nat.le_refl _
    · have := ih (by omega)
      show tri a ≤ tri n + n + 1
      omega

/-- the pairing is injective: different (service, key) pairs are different keys of the model -/
theorem svcKey_inj {i j key key' : Nat} (h : svcKey i key = svcKey j key') : i = j ∧ key = key' := by
  unfold svcKey at h
  have lt_of_sum_lt : ∀ {a b x y : Nat}, a + x < b + y → tri (a + x) + x < tri (b + y) + y := by
    intro a b x y hlt
    have h1 : tri (a + x + 1) ≤ tri (b + y) := tri_mono hlt
    have h2 : tri (a + x + 1) = tri (a + x) + (a + x) + 1 := rfl
    omega
  by_cases hs : i + key = j + key'
  · rw [hs] at h
    have : key = key' := by omega
    subst this
    exact ⟨by omega, rfl⟩
  · rcases Nat.lt_or_gt_of_ne hs with hlt | hgt
    · have := lt_of_sum_lt hlt; omega
    · have := lt_of_sum_lt hgt; omega

theorem svcKey_ne {i j key key' : Nat} (h : i ≠ j ∨ key ≠ key') : svcKey i key ≠ svcKey j key' := by
  intro e
  obtain ⟨h1, h2⟩ := svcKey_inj e
  rcases h with h | h
  · exact h h1
  · exact h h2

/-- the key an operation is about: the key of an arriving request, the key fixed (at its arrival) in the role of
the caller that is polled or dropped; time passing and the handle being dropped are about no key -/
def opKey (s : State) : Op → Option Nat
  | .arrive _ key _ _ => some key
  | .poll c => (lookup s.role c).map fun r => match r with
      | .leader key _ => key
      | .waiter key _ => key
      | .panicked key => key
  | .drop c => (lookup s.role c).map fun r => match r with
      | .leader key _ => key
      | .waiter key _ => key
      | .panicked key => key
  | _ => none

theorem finishLeader_reg_other (s : State) (c key k : Nat) (o : Out) {key' : Nat} (h : key ≠ key') :
    reg (finishLeader s c key k o) key' = reg s key' := by
  cases o <;> first
    | rfl
    | (show regOf ((key, none) :: s.inflight) key' = regOf s.inflight key'
       rw [regOf_cons, if_neg h])

theorem pollLeader_reg_other (s : State) (c key k : Nat) {key' : Nat} (h : key ≠ key') :
    reg (pollLeader s c key k) key' = reg s key' := by
  rcases pollLeader_cases s c key k with e | ⟨o, r, ch, _, _, _, e⟩
  · rw [e]
  · rw [e]
    show regOf ((key, none) :: s.inflight) key' = regOf s.inflight key'
    rw [regOf_cons, if_neg h]

theorem pollWaiter_reg (s : State) (c l key' : Nat) : reg (pollWaiter s c l) key' = reg s key' := by
  unfold pollWaiter; split <;> rfl

/-- **An operation touches the table entry of its own key only.** Whatever the state: for every key other than the
one the operation is about, the entry of the in-flight table is after the step what it was before. -/
theorem step_other_key (s : State) (op : Op) (key' : Nat) (h : opKey s op ≠ some key') :
    reg (stepS s op) key' = reg s key' := by
  cases op with
  | adv ms => rfl
  | dropsvc => rfl
  | bomb c => rfl
  | arrive c key sc cp =>
    have hne : key ≠ key' := fun e => h (by rw [e]; rfl)
    simp only [stepS]
    split
    · rfl
    split
    · rfl
    · unfold arrive
      split
      · rfl
      · split
        · rfl
        · show regOf ((key, some c) :: s.inflight) key' = regOf s.inflight key'
          rw [regOf_cons, if_neg hne]
  | poll c =>
    simp only [stepS]
    split
    · rfl
    · split
      · rename_i key k hr
        have hne : key ≠ key' := fun e => h (by simp [opKey, hr, e])
        exact pollLeader_reg_other s c key k hne
      · exact pollWaiter_reg ..
      · rfl
  | drop c =>
    simp only [stepS]
    split
    · rfl
    · split
      · rename_i key k hr
        have hne : key ≠ key' := fun e => h (by simp [opKey, hr, e])
        show regOf ((key, none) :: s.inflight) key' = regOf s.inflight key'
        rw [regOf_cons, if_neg hne]
      · rfl
      · rfl

/-- … and the same for a whole sequence of operations none of which is about `key'`. (`opKey` of a poll / drop is
read in the state the operation is applied to; roles never change once assigned, so this is the key the caller
arrived with.) -/
theorem steps_other_key (key' : Nat) : ∀ (ops : List Op) (s : State),
    (∀ pre op post, ops = pre ++ op :: post → opKey (pre.foldl stepS s) op ≠ some key') →
    reg (ops.foldl stepS s) key' = reg s key' := by
  intro ops
  induction ops with
  | nil => intro s _; rfl
  | cons o os ih =>
    intro s h
    rw [List.foldl_cons, ih (stepS s o) ?_, step_other_key s o key' (h [] o os rfl)]
    intro pre op post e
    have := h (o :: pre) op post (by rw [e]; rfl)
    simpa using this

/-! ### … and adds to the log only events of its own key -/

/-- calls started / ended for `key'` in a trace -/
def traffic (key' : Nat) (l : List CEv) : Nat × Nat := (calls key' l, ended key' l)

theorem traffic_append (key' : Nat) (a b : List CEv) :
    traffic key' (a ++ b) = ((traffic key' a).1 + (traffic key' b).1, (traffic key' a).2 + (traffic key' b).2) := by
  simp [traffic]

theorem finishLeader_traffic_other (s : State) (c key k : Nat) (o : Out) {key' : Nat} (h : key ≠ key') :
    traffic key' (finishLeader s c key k o).log = traffic key' s.log := by
  cases o <;> first
    | rfl
    | (simp only [finishLeader, emit, retire, traffic, calls_append, ended_append, ended_done, if_neg h]
       simp [calls, isCall])

theorem pollLeader_traffic_other (s : State) (c key k : Nat) {key' : Nat} (h : key ≠ key') :
    traffic key' (pollLeader s c key k).log = traffic key' s.log := by
  rcases pollLeader_cases s c key k with e | ⟨o, r, ch, _, _, _, e⟩
  · rw [e]
  · rw [e]
    simp only [emit, retire, traffic, calls_append, ended_append, ended_done, if_neg h]
    simp [calls, isCall]

theorem pollWaiter_traffic (s : State) (c l key' : Nat) :
    traffic key' (pollWaiter s c l).log = traffic key' s.log := by
  unfold pollWaiter
  split <;> first
    | rfl
    | (simp only [resolveWaiter, takeWake, emit, traffic, calls_append, ended_append]
       simp [calls, ended, isCall, isEnd])

/-- for every key other than the one the operation is about, the numbers of inner calls started and ended
(finished, panicked, dropped) in the log are after the step what they were before -/
theorem step_other_key_traffic (s : State) (op : Op) (key' : Nat) (h : opKey s op ≠ some key') :
    traffic key' (stepS s op).log = traffic key' s.log := by
  cases op with
  | adv ms => rfl
  | dropsvc => rfl
  | bomb c => rfl
  | arrive c key sc cp =>
    have hne : key ≠ key' := fun e => h (by rw [e]; rfl)
    simp only [stepS]
    split
    · rfl
    split
    · rfl
    · unfold arrive
      split
      · rfl
      · split
        · simp only [leadPanic, emit, traffic, calls_append, ended_append]
          simp [calls, ended, isCall, isEnd]
        · simp only [lead, emit, traffic, calls_append, ended_append]
          simp [calls, ended, isCall, isEnd, hne]
  | poll c =>
    simp only [stepS]
    split
    · rfl
    · split
      · rename_i key k hr
        have hne : key ≠ key' := fun e => h (by simp [opKey, hr, e])
        exact pollLeader_traffic_other s c key k hne
      · exact pollWaiter_traffic ..
      · rfl
  | drop c =>
    simp only [stepS]
    split
    · rfl
    · split
      · rename_i key k hr
        have hne : key ≠ key' := fun e => h (by simp [opKey, hr, e])
        simp only [dropLeader, emit, retire, traffic, calls_append, ended_append, ended_dropEv, if_neg hne]
        simp [calls, isCall]
      · rfl
      · rfl

end TR.Coalesce
