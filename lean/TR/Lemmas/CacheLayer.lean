import TR.Lemmas.Cache
import TR.Lemmas.CacheTtl
/-!
# Cache (C10): several services built from one layer value; a TTL of zero

`runAt cfg n i ops` is the state of store `i` (of `n`) after the history `ops`: the single-store model run on
the history projected to that store (`proj`). A plain `CacheLayer` builds one store per `layer()` call
(`nStores false nsvc = nsvc`), a `SharedCacheLayer` one for all of them (`nStores true nsvc = 1`).
-/
namespace TR.Cache

theorem run_append (cfg : Cfg) (a b : List Op) : run cfg (a ++ b) = b.foldl (stepS cfg) (run cfg a) := by
  simp [run, List.foldl_append]

theorem run_snoc (cfg : Cfg) (ops : List Op) (op : Op) : run cfg (ops ++ [op]) = stepS cfg (run cfg ops) op := by
  simp [run_append]

/-- one more operation: the store it concerns makes that step, every other store stays as it is -/
theorem runAt_snoc (cfg : Cfg) (n i : Nat) (ops : List Op) (op : Op) :
    runAt cfg n i (ops ++ [op]) =
      if concerns n i op then stepS cfg (runAt cfg n i ops) op else runAt cfg n i ops := by
  unfold runAt proj
  rw [List.filter_append]
  by_cases h : concerns n i op = true
  · simp [h, run_snoc]
  · simp [h]

/-- a poll or a drop of a caller that has nothing parked and nothing pending in a store does nothing there -/
theorem foreign_poll (cfg : Cfg) (s : State) (c w : Nat)
    (hh : lookup s.hits c = none) (hp : lookup s.pend c = none) :
    stepS cfg s (.poll c w) = s ∧ stepS cfg s (.drop c) = s := by
  constructor
  · simp [stepS, poll, hh, hp]
  · simp [stepS, dropC, hh, hp]

/-- with one store every operation concerns it -/
theorem proj_one (ops : List Op) : proj 1 0 ops = ops := by
  unfold proj
  apply List.filter_eq_self.mpr
  intro op _
  cases op <;> simp [concerns, Nat.mod_one]

theorem nStores_shared (nsvc : Nat) : nStores true nsvc = 1 := rfl

theorem nStores_private {nsvc : Nat} (h : 0 < nsvc) : nStores false nsvc = nsvc := by
  simp [nStores, Nat.pos_iff_ne_zero.mp h]

/-- a zero TTL: hit ⇔ the clock has not moved since the store -/
theorem storeGet_ttl_zero {cfg : Cfg} {now tick k : Nat} {items : List Entry} {e : Entry}
    (hf : find items k = some e) (httl : cfg.ttl = some 0) (hpast : e.ins ≤ now) :
    ((storeGet cfg now tick items k).2 = some e.val ↔ now = e.ins) ∧
    ((storeGet cfg now tick items k).2 = none ↔ e.ins < now) := by
  have h := storeGet_hit_iff (now := now) (tick := tick) hf httl
  refine ⟨h.1.trans ⟨fun hh => by omega, fun hh => by omega⟩, h.2.trans ⟨fun hh => by omega, fun hh => by omega⟩⟩

end TR.Cache
