import TR.Lemmas.Cache
import TR.Lemmas.CacheLayer
/-!
# Cache (C10): the ghost maps are functions of the event log

The correspondence check compares the model's **event log** with the implementation's, line by line:
`req c key=k svc=i` (the echo of a request), `inner_call c v`, `inner_done c v ok|err…`, `inner_drop c v`,
`result c …`. The ghost fields `stored` (specification map) and `callKey` are not compared. This file ties
them to the log, so that the property can be read off the log alone:

* `reqEv_inj` — the echo line determines caller, key and service (the rendering is injective);
* `LInv` — bookkeeping of the log: every inner call `inner_call c v` stands directly behind the echo of
  `c`'s request, a caller has one echo, a serial has one call, `callKey v = k` iff the call with serial `v`
  was made by a caller whose echo shows key `k`;
* `SpecInv` — `lookup stored k = some (v, _)` iff the **last** `inner_done _ v ok` of a caller whose echo
  shows key `k` carries `v` (`LastOkFor`), `none` iff there is no such completion (`NoOkFor`); and every
  `result c ok:v` of a caller that made no inner call (a hit) carries the value of the last such
  completion in the part of the log **before `c`'s echo** (`HitOf`).
-/
namespace TR.Cache

/-! ## the echo of a request determines caller, key and service -/

theorem toString_str (s : String) : toString s = s := rfl

theorem reqEv_toList (c key svc : Nat) : ∃ s, reqEv c key svc = .raw s ∧
    s.toList = 'r' :: 'e' :: 'q' :: ' ' :: (Nat.toDigits 10 c ++ ' ' :: 'k' :: 'e' :: 'y' :: '=' ::
      (Nat.toDigits 10 key ++ ' ' :: 's' :: 'v' :: 'c' :: '=' :: Nat.toDigits 10 svc)) := by
  refine ⟨_, rfl, ?_⟩
  simp [String.toList_append, toString_str]

/-- splitting a list at the first occurrence of a separator is unique -/
theorem split_unique {α : Type} {x : α} : ∀ {l1 l2 r1 r2 : List α}, x ∉ l1 → x ∉ l2 →
    l1 ++ x :: r1 = l2 ++ x :: r2 → l1 = l2 ∧ r1 = r2
  | [], [], _, _, _, _, h => by simp at h; exact ⟨rfl, h⟩
  | [], b :: l2, _, _, _, h2, h => by
      simp at h; simp at h2; exact absurd h.1 (by intro e; exact h2.1 e)
  | a :: l1, [], _, _, h1, _, h => by
      simp at h; simp at h1; exact absurd h.1.symm (by intro e; exact h1.1 e)
  | a :: l1, b :: l2, r1, r2, h1, h2, h => by
      simp at h h1 h2
      obtain ⟨e1, e2⟩ := split_unique (l1 := l1) (l2 := l2) h1.2 h2.2 h.2
      exact ⟨by rw [h.1, e1], e2⟩

theorem space_not_digit {n : Nat} : ' ' ∉ Nat.toDigits 10 n := by
  intro h
  have := Nat.isDigit_of_mem_toDigits (by decide) (by decide) h
  simp at this

theorem toDigits_inj {a b : Nat} (h : Nat.toDigits 10 a = Nat.toDigits 10 b) : a = b := by
  have := congrArg (fun l => Nat.ofDigitChars 10 l 0) h
  simpa [Nat.ofDigitChars_ten_toDigits] using this

/-- **the echo line `req c key=k svc=i` determines `c`, `k` and `i`** -/
theorem reqEv_inj {c k s c' k' s' : Nat} (h : reqEv c k s = reqEv c' k' s') : c = c' ∧ k = k' ∧ s = s' := by
  obtain ⟨x, hx, hl⟩ := reqEv_toList c k s
  obtain ⟨y, hy, hl'⟩ := reqEv_toList c' k' s'
  rw [hx, hy] at h
  cases h
  rw [hl] at hl'
  simp only [List.cons.injEq, true_and] at hl'
  obtain ⟨e1, r1⟩ := split_unique space_not_digit space_not_digit hl'
  simp only [List.cons.injEq, true_and] at r1
  obtain ⟨e2, r2⟩ := split_unique space_not_digit space_not_digit r1
  simp only [List.cons.injEq, true_and] at r2
  exact ⟨toDigits_inj e1, toDigits_inj e2, toDigits_inj r2⟩

theorem reqEv_ne_choice (c k s : Nat) : reqEv c k s ≠ .raw "choice-not-allowed" := by
  intro h
  obtain ⟨x, hx, hl⟩ := reqEv_toList c k s
  rw [hx] at h
  cases h
  simp at hl

theorem reqEv_ne_call (c k s c' v : Nat) : reqEv c k s ≠ .innerCall c' v := by simp [reqEv]
theorem reqEv_ne_done (c k s c' v : Nat) (o : Out) : reqEv c k s ≠ .innerDone c' v o := by simp [reqEv]
theorem reqEv_ne_drop (c k s c' v : Nat) : reqEv c k s ≠ .innerDrop c' v := by simp [reqEv]
theorem reqEv_ne_result (c k s c' : Nat) (r : Res) : reqEv c k s ≠ .result c' r := by simp [reqEv]

/-! ## vocabulary over the log -/

/-- the log shows a request of caller `c` with key `k` -/
def ReqKey (log : List Ev) (c k : Nat) : Prop := ∃ svc, reqEv c k svc ∈ log

theorem ReqKey.mono {log : List Ev} {c k : Nat} (h : ReqKey log c k) (evs : List Ev) : ReqKey (log ++ evs) c k := by
  obtain ⟨svc, hs⟩ := h
  exact ⟨svc, List.mem_append_left _ hs⟩

/-- an event that is neither the echo of a request nor an inner call -/
def Quiet (e : Ev) : Prop := (∀ c k svc, e ≠ reqEv c k svc) ∧ (∀ c v, e ≠ .innerCall c v)

theorem quiet_done (c v : Nat) (o : Out) : Quiet (.innerDone c v o) := ⟨fun _ _ _ h => reqEv_ne_done _ _ _ _ _ _ h.symm, fun _ _ h => by cases h⟩
theorem quiet_drop (c v : Nat) : Quiet (.innerDrop c v) := ⟨fun _ _ _ h => reqEv_ne_drop _ _ _ _ _ h.symm, fun _ _ h => by cases h⟩
theorem quiet_result (c : Nat) (r : Res) : Quiet (.result c r) := ⟨fun _ _ _ h => reqEv_ne_result _ _ _ _ _ h.symm, fun _ _ h => by cases h⟩
theorem quiet_choice : Quiet (.raw "choice-not-allowed") := ⟨fun _ _ _ h => reqEv_ne_choice _ _ _ h.symm, fun _ _ h => by cases h⟩

theorem mem_append_quiet_req {log evs : List Ev} (hq : ∀ e ∈ evs, Quiet e) {c k svc : Nat} :
    reqEv c k svc ∈ log ++ evs ↔ reqEv c k svc ∈ log := by
  rw [List.mem_append]
  exact ⟨fun h => h.elim id (fun h => absurd rfl ((hq _ h).1 c k svc)), Or.inl⟩

theorem mem_append_quiet_call {log evs : List Ev} (hq : ∀ e ∈ evs, Quiet e) {c v : Nat} :
    Ev.innerCall c v ∈ log ++ evs ↔ Ev.innerCall c v ∈ log := by
  rw [List.mem_append]
  exact ⟨fun h => h.elim id (fun h => absurd rfl ((hq _ h).2 c v)), Or.inl⟩

theorem reqKey_append_quiet {log evs : List Ev} (hq : ∀ e ∈ evs, Quiet e) {c k : Nat} :
    ReqKey (log ++ evs) c k ↔ ReqKey log c k :=
  ⟨fun ⟨svc, h⟩ => ⟨svc, (mem_append_quiet_req hq).mp h⟩, fun h => h.mono evs⟩

/-- the events of a successful completion -/
def okEvs (c k : Nat) (b : Bool) : List Ev :=
  [Ev.innerDone c k .ok] ++ (if b then [] else [Ev.raw "choice-not-allowed"]) ++ [Ev.result c (.ok k)]

theorem okEvs_quiet (c k : Nat) (b : Bool) : ∀ e ∈ okEvs c k b, Quiet e := by
  intro e he
  cases b <;> simp [okEvs] at he
  · rcases he with rfl | rfl | rfl
    · exact quiet_done _ _ _
    · exact quiet_choice
    · exact quiet_result _ _
  · rcases he with rfl | rfl
    · exact quiet_done _ _ _
    · exact quiet_result _ _

theorem okEvs_done {c k : Nat} {b : Bool} {c' v : Nat} {o : Out} (h : Ev.innerDone c' v o ∈ okEvs c k b) :
    c' = c ∧ v = k ∧ o = .ok := by
  cases b <;> simp [okEvs] at h <;> exact h

theorem okEvs_result {c k : Nat} {b : Bool} {c' : Nat} {r : Res} (h : Ev.result c' r ∈ okEvs c k b) :
    c' = c ∧ r = .ok k := by
  cases b <;> simp [okEvs] at h <;> exact h

/-! ## two decompositions of one list -/

/-- two ways of pointing at an element of a list: the same place, or one lies behind the other -/
theorem decomp_cases {α : Type} {p1 q1 p2 q2 : List α} {a b : α} (h : p1 ++ a :: q1 = p2 ++ b :: q2) :
    (p1 = p2 ∧ a = b ∧ q1 = q2) ∨ (∃ m, q1 = m ++ b :: q2 ∧ p2 = p1 ++ a :: m) ∨
      (∃ m, q2 = m ++ a :: q1 ∧ p1 = p2 ++ b :: m) := by
  rcases List.append_eq_append_iff.mp h with ⟨m, h1, h2⟩ | ⟨m, h1, h2⟩
  · cases m with
    | nil => simp at h1 h2; exact Or.inl ⟨h1.symm, h2.1, h2.2⟩
    | cons x m =>
      simp at h2
      exact Or.inr (Or.inl ⟨m, h2.2, by rw [h1, h2.1]⟩)
  · cases m with
    | nil => simp at h1 h2; exact Or.inl ⟨h1, h2.1.symm, h2.2.symm⟩
    | cons x m =>
      simp at h2
      exact Or.inr (Or.inr ⟨m, h2.2, by rw [h1, h2.1]⟩)

/-! ## bookkeeping of the log -/

/-- no two events of the log are echoes of requests of one caller -/
def ReqOnce (log : List Ev) : Prop :=
  log.Pairwise (fun a b => ∀ c k svc k' svc', a = reqEv c k svc → b ≠ reqEv c k' svc')

structure LInv (s : State) : Prop where
  reqSeen  : ∀ c k svc, reqEv c k svc ∈ s.log → c ∈ s.seen
  callSeen : ∀ c v, Ev.innerCall c v ∈ s.log → c ∈ s.seen ∧ v < s.serial
  doneCall : ∀ c v o, Ev.innerDone c v o ∈ s.log → Ev.innerCall c v ∈ s.log
  reqFun   : ∀ c k k', ReqKey s.log c k → ReqKey s.log c k' → k = k'
  reqOnce  : ReqOnce s.log
  callFun  : ∀ c c' v, Ev.innerCall c v ∈ s.log → Ev.innerCall c' v ∈ s.log → c = c'
  callOne  : ∀ c v v', Ev.innerCall c v ∈ s.log → Ev.innerCall c v' ∈ s.log → v = v'
  callAdj  : ∀ c v, Ev.innerCall c v ∈ s.log →
               ∃ pre post k svc, s.log = pre ++ reqEv c k svc :: Ev.innerCall c v :: post ∧ lookup s.callKey v = some k
  keyCall  : ∀ v k, lookup s.callKey v = some k → ∃ c, Ev.innerCall c v ∈ s.log
  pendLog  : ∀ q ∈ s.pend, Ev.innerCall q.1 q.2.k ∈ s.log ∧ ReqKey s.log q.1 q.2.key
  hitsLog  : ∀ q ∈ s.hits, q.1 ∈ s.seen ∧ ∀ v, Ev.innerCall q.1 v ∉ s.log

theorem LInv.doneSeen {s : State} (h : LInv s) {c v : Nat} {o : Out} (hd : Ev.innerDone c v o ∈ s.log) : c ∈ s.seen :=
  (h.callSeen c v (h.doneCall c v o hd)).1

/-- the echo of the caller of an inner call is in the log, with the key `callKey` records -/
theorem LInv.callReq {s : State} (h : LInv s) {c v : Nat} (hc : Ev.innerCall c v ∈ s.log) :
    ∃ k, lookup s.callKey v = some k ∧ ReqKey s.log c k := by
  obtain ⟨pre, post, k, svc, hl, hk⟩ := h.callAdj c v hc
  exact ⟨k, hk, svc, by rw [hl]; simp⟩

theorem reqOnce_append {log evs : List Ev} (h : ReqOnce log) (he : ReqOnce evs)
    (hx : ∀ a ∈ log, ∀ b ∈ evs, ∀ c k svc k' svc', a = reqEv c k svc → b ≠ reqEv c k' svc') :
    ReqOnce (log ++ evs) := by
  unfold ReqOnce
  rw [List.pairwise_append]
  exact ⟨h, he, hx⟩

theorem reqOnce_quiet {evs : List Ev} (hq : ∀ e ∈ evs, Quiet e) : ReqOnce evs := by
  unfold ReqOnce
  apply List.Pairwise.imp_of_mem (R := fun _ _ => True)
  · intro a b _ hb _ c k svc k' svc' _
    exact (hq b hb).1 c k' svc'
  · exact List.pairwise_of_forall (fun _ _ => trivial)

/-- a step that appends only quiet events (no echo, no inner call), every `inner_done` among them for a
call that is in the log, and that adds nothing to `seen`, `serial`, `callKey`, `pend`, `hits` -/
theorem LInv.quiet {s s' : State} (h : LInv s) (evs : List Ev) (hlog : s'.log = s.log ++ evs)
    (hq : ∀ e ∈ evs, Quiet e) (hdone : ∀ c v o, Ev.innerDone c v o ∈ evs → Ev.innerCall c v ∈ s.log)
    (hseen : s'.seen = s.seen) (hser : s'.serial = s.serial) (hck : s'.callKey = s.callKey)
    (hp : ∀ q ∈ s'.pend, q ∈ s.pend) (hh : ∀ q ∈ s'.hits, q ∈ s.hits) : LInv s' := by
  have hcall : ∀ {c v}, Ev.innerCall c v ∈ s'.log ↔ Ev.innerCall c v ∈ s.log := by
    intro c v; rw [hlog]; exact mem_append_quiet_call hq
  have hreq : ∀ {c k}, ReqKey s'.log c k ↔ ReqKey s.log c k := by
    intro c k; rw [hlog]; exact reqKey_append_quiet hq
  refine ⟨?_, ?_, ?_, ?_, ?_, ?_, ?_, ?_, ?_, ?_, ?_⟩
  · intro c k svc hm
    rw [hlog, mem_append_quiet_req hq] at hm
    rw [hseen]; exact h.reqSeen c k svc hm
  · intro c v hm
    rw [hseen, hser]; exact h.callSeen c v (hcall.mp hm)
  · intro c v o hm
    rw [hlog, List.mem_append] at hm
    apply hcall.mpr
    rcases hm with hm | hm
    · exact h.doneCall c v o hm
    · exact hdone c v o hm
  · intro c k k' h1 h2
    exact h.reqFun c k k' (hreq.mp h1) (hreq.mp h2)
  · rw [hlog]
    refine reqOnce_append h.reqOnce (reqOnce_quiet hq) ?_
    intro a _ b hb c k svc k' svc' _
    exact (hq b hb).1 c k' svc'
  · intro c c' v h1 h2
    exact h.callFun c c' v (hcall.mp h1) (hcall.mp h2)
  · intro c v v' h1 h2
    exact h.callOne c v v' (hcall.mp h1) (hcall.mp h2)
  · intro c v hm
    obtain ⟨pre, post, k, svc, hl, hk⟩ := h.callAdj c v (hcall.mp hm)
    exact ⟨pre, post ++ evs, k, svc, by rw [hlog, hl]; simp, by rw [hck]; exact hk⟩
  · intro v k hk
    rw [hck] at hk
    obtain ⟨c, hc⟩ := h.keyCall v k hk
    exact ⟨c, hcall.mpr hc⟩
  · intro q hq'
    have := h.pendLog q (hp q hq')
    exact ⟨hcall.mpr this.1, hreq.mpr this.2⟩
  · intro q hq'
    have := h.hitsLog q (hh q hq')
    rw [hseen]
    exact ⟨this.1, fun v hv => this.2 v (hcall.mp hv)⟩

theorem mem_seen_of_contains {l : List Nat} {c : Nat} (h : ¬ l.contains c = true) : c ∉ l := by
  simpa using h

theorem arriveHit_linv {s : State} (c key svc v : Nat) (items : List Entry) (hc : c ∉ s.seen) (h : LInv s) :
    LInv (arriveHit s c key svc items v) := by
  have hlog : (arriveHit s c key svc items v).log = s.log ++ [reqEv c key svc] := rfl
  have hcall : ∀ {c' v'}, Ev.innerCall c' v' ∈ (arriveHit s c key svc items v).log ↔ Ev.innerCall c' v' ∈ s.log := by
    intro c' v'
    rw [hlog, List.mem_append, List.mem_singleton]
    exact ⟨fun hh => hh.elim id (fun hh => absurd hh.symm (reqEv_ne_call _ _ _ _ _)), Or.inl⟩
  have hreq : ∀ {c' k}, ReqKey (arriveHit s c key svc items v).log c' k → ReqKey s.log c' k ∨ (c' = c ∧ k = key) := by
    intro c' k ⟨svc', hm⟩
    rw [hlog, List.mem_append, List.mem_singleton] at hm
    rcases hm with hm | hm
    · exact Or.inl ⟨svc', hm⟩
    · exact Or.inr ⟨(reqEv_inj hm).1, (reqEv_inj hm).2.1⟩
  have hnew : ∀ k, ¬ ReqKey s.log c k := fun k ⟨svc', hm⟩ => hc (h.reqSeen c k svc' hm)
  refine ⟨?_, ?_, ?_, ?_, ?_, ?_, ?_, ?_, ?_, ?_, ?_⟩
  · intro c' k svc' hm
    rw [hlog, List.mem_append, List.mem_singleton] at hm
    show c' ∈ c :: s.seen
    rcases hm with hm | hm
    · exact List.mem_cons_of_mem _ (h.reqSeen c' k svc' hm)
    · rw [(reqEv_inj hm).1]; exact List.mem_cons_self
  · intro c' v' hm
    have := h.callSeen c' v' (hcall.mp hm)
    exact ⟨List.mem_cons_of_mem _ this.1, this.2⟩
  · intro c' v' o hm
    rw [hlog, List.mem_append, List.mem_singleton] at hm
    apply hcall.mpr
    rcases hm with hm | hm
    · exact h.doneCall c' v' o hm
    · exact absurd hm.symm (reqEv_ne_done _ _ _ _ _ _)
  · intro c' k k' h1 h2
    rcases hreq h1 with g1 | ⟨e1, e1'⟩ <;> rcases hreq h2 with g2 | ⟨e2, e2'⟩
    · exact h.reqFun c' k k' g1 g2
    · exact absurd (e2 ▸ g1) (hnew _)
    · exact absurd (e1 ▸ g2) (hnew _)
    · rw [e1', e2']
  · rw [hlog]
    refine reqOnce_append h.reqOnce (List.pairwise_singleton _ _) ?_
    intro a ha b hb c' k svc' k' svc'' hae hbe
    rw [List.mem_singleton] at hb
    subst hae
    rw [hb] at hbe
    have := (reqEv_inj hbe).1
    subst this
    exact hc (h.reqSeen _ k svc' ha)
  · intro c1 c2 v' h1 h2
    exact h.callFun c1 c2 v' (hcall.mp h1) (hcall.mp h2)
  · intro c1 v1 v2 h1 h2
    exact h.callOne c1 v1 v2 (hcall.mp h1) (hcall.mp h2)
  · intro c' v' hm
    obtain ⟨pre, post, k, svc', hl, hk⟩ := h.callAdj c' v' (hcall.mp hm)
    exact ⟨pre, post ++ [reqEv c key svc], k, svc', by rw [hlog, hl]; simp, hk⟩
  · intro v' k hk
    obtain ⟨c', hc'⟩ := h.keyCall v' k hk
    exact ⟨c', hcall.mpr hc'⟩
  · intro q hq
    have := h.pendLog q hq
    exact ⟨hcall.mpr this.1, this.2.mono _⟩
  · intro q hq
    simp only [arriveHit, emit, List.mem_cons] at hq
    rcases hq with rfl | hq
    · refine ⟨List.mem_cons_self, ?_⟩
      intro v' hv'
      exact hc (h.callSeen c v' (hcall.mp hv')).1
    · have := h.hitsLog q hq
      exact ⟨List.mem_cons_of_mem _ this.1, fun v' hv' => this.2 v' (hcall.mp hv')⟩

theorem arriveMiss_linv {s : State} (c key svc : Nat) (items : List Entry) (sc : Step) (hc : c ∉ s.seen)
    (h : LInv s) (hser : ∀ y ∈ s.callKey, y.1 < s.serial) :
    LInv (arriveMiss s c key svc items sc) := by
  have hlog : (arriveMiss s c key svc items sc).log = s.log ++ [reqEv c key svc, .innerCall c s.serial] := rfl
  have hcall : ∀ {c' v'}, Ev.innerCall c' v' ∈ (arriveMiss s c key svc items sc).log →
      Ev.innerCall c' v' ∈ s.log ∨ (c' = c ∧ v' = s.serial) := by
    intro c' v' hm
    rw [hlog] at hm
    simp only [List.mem_append, List.mem_cons, List.not_mem_nil, or_false] at hm
    rcases hm with hm | hm | hm
    · exact Or.inl hm
    · exact absurd hm.symm (reqEv_ne_call _ _ _ _ _)
    · cases hm; exact Or.inr ⟨rfl, rfl⟩
  have hreq : ∀ {c' k}, ReqKey (arriveMiss s c key svc items sc).log c' k → ReqKey s.log c' k ∨ (c' = c ∧ k = key) := by
    intro c' k ⟨svc', hm⟩
    rw [hlog] at hm
    simp only [List.mem_append, List.mem_cons, List.not_mem_nil, or_false] at hm
    rcases hm with hm | hm | hm
    · exact Or.inl ⟨svc', hm⟩
    · exact Or.inr ⟨(reqEv_inj hm).1, (reqEv_inj hm).2.1⟩
    · exact absurd hm (reqEv_ne_call _ _ _ _ _)
  have hnew : ∀ k, ¬ ReqKey s.log c k := fun k ⟨svc', hm⟩ => hc (h.reqSeen c k svc' hm)
  have hold : ∀ {e}, e ∈ s.log → e ∈ (arriveMiss s c key svc items sc).log := fun he => by
    rw [hlog]; exact List.mem_append_left _ he
  have hnewcall : Ev.innerCall c s.serial ∈ (arriveMiss s c key svc items sc).log := by rw [hlog]; simp
  have hnewreq : ReqKey (arriveMiss s c key svc items sc).log c key := ⟨svc, by rw [hlog]; simp⟩
  have hfreshkey : ∀ {v' k}, lookup s.callKey v' = some k → lookup ((s.serial, key) :: s.callKey) v' = some k := by
    intro v' k hk
    have := hser _ (lookup_mem hk)
    rw [lookup_cons_ne (by simp at this; omega)]; exact hk
  refine ⟨?_, ?_, ?_, ?_, ?_, ?_, ?_, ?_, ?_, ?_, ?_⟩
  · intro c' k svc' hm
    show c' ∈ c :: s.seen
    rcases hreq ⟨svc', hm⟩ with ⟨svc'', hm'⟩ | ⟨rfl, _⟩
    · exact List.mem_cons_of_mem _ (h.reqSeen c' k svc'' hm')
    · exact List.mem_cons_self
  · intro c' v' hm
    show c' ∈ c :: s.seen ∧ v' < s.serial + 1
    rcases hcall hm with hm | ⟨rfl, rfl⟩
    · have := h.callSeen c' v' hm
      exact ⟨List.mem_cons_of_mem _ this.1, by omega⟩
    · exact ⟨List.mem_cons_self, by omega⟩
  · intro c' v' o hm
    rw [hlog] at hm
    simp only [List.mem_append, List.mem_cons, List.not_mem_nil, or_false] at hm
    rcases hm with hm | hm | hm
    · exact hold (h.doneCall c' v' o hm)
    · exact absurd hm.symm (reqEv_ne_done _ _ _ _ _ _)
    · cases hm
  · intro c' k k' h1 h2
    rcases hreq h1 with g1 | ⟨e1, e1'⟩ <;> rcases hreq h2 with g2 | ⟨e2, e2'⟩
    · exact h.reqFun c' k k' g1 g2
    · exact absurd (e2 ▸ g1) (hnew _)
    · exact absurd (e1 ▸ g2) (hnew _)
    · rw [e1', e2']
  · rw [hlog]
    refine reqOnce_append h.reqOnce ?_ ?_
    · unfold ReqOnce
      simp only [List.pairwise_cons, List.mem_singleton, List.not_mem_nil, false_imp_iff, implies_true,
        List.Pairwise.nil, and_true]
      intro b hb c' k svc' k' svc'' _
      rw [hb]
      exact fun hh => reqEv_ne_call _ _ _ _ _ hh.symm
    · intro a ha b hb c' k svc' k' svc'' hae hbe
      simp only [List.mem_cons, List.not_mem_nil, or_false] at hb
      subst hae
      rcases hb with rfl | rfl
      · have := (reqEv_inj hbe).1
        subst this
        exact hc (h.reqSeen _ k svc' ha)
      · exact reqEv_ne_call _ _ _ _ _ hbe.symm
  · intro c1 c2 v' h1 h2
    rcases hcall h1 with h1 | ⟨rfl, rfl⟩ <;> rcases hcall h2 with h2 | ⟨hcc, hvv⟩
    · exact h.callFun c1 c2 v' h1 h2
    · subst hvv; have := (h.callSeen c1 _ h1).2; omega
    · have := (h.callSeen c2 _ h2).2; omega
    · exact hcc.symm
  · intro c1 v1 v2 h1 h2
    rcases hcall h1 with g1 | ⟨e1, e1'⟩ <;> rcases hcall h2 with g2 | ⟨e2, e2'⟩
    · exact h.callOne c1 v1 v2 g1 g2
    · exact absurd (h.callSeen c1 v1 g1).1 (e2 ▸ hc)
    · exact absurd (h.callSeen c1 v2 g2).1 (e1 ▸ hc)
    · rw [e1', e2']
  · intro c' v' hm
    show ∃ pre post k svc', _ = _ ∧ lookup ((s.serial, key) :: s.callKey) v' = some k
    rcases hcall hm with hm | ⟨rfl, rfl⟩
    · obtain ⟨pre, post, k, svc', hl, hk⟩ := h.callAdj c' v' hm
      exact ⟨pre, post ++ [reqEv c key svc, .innerCall c s.serial], k, svc', by rw [hlog, hl]; simp, hfreshkey hk⟩
    · exact ⟨s.log, [], key, svc, hlog, lookup_cons_eq⟩
  · intro v' k hk
    change lookup ((s.serial, key) :: s.callKey) v' = some k at hk
    by_cases hv : s.serial = v'
    · subst hv; exact ⟨c, hnewcall⟩
    · rw [lookup_cons_ne hv] at hk
      obtain ⟨c', hc'⟩ := h.keyCall v' k hk
      exact ⟨c', hold hc'⟩
  · intro q hq
    simp only [arriveMiss, emit, List.mem_cons] at hq
    rcases hq with rfl | hq
    · exact ⟨hnewcall, hnewreq⟩
    · have := h.pendLog q hq
      exact ⟨hold this.1, this.2.mono _⟩
  · intro q hq
    have := h.hitsLog q hq
    refine ⟨List.mem_cons_of_mem _ this.1, ?_⟩
    intro v' hv'
    rcases hcall hv' with hv' | ⟨hcc, _⟩
    · exact this.2 v' hv'
    · exact hc (hcc ▸ this.1)

theorem arrive_linv {cfg : Cfg} {s : State} (c key svc : Nat) (sc : Step) (h : LInv s) (h2 : Inv2 s) :
    LInv (arrive cfg s c key svc sc) := by
  unfold arrive
  split
  · exact h
  · rename_i hseen
    simp only []
    split
    · exact arriveHit_linv c key svc _ _ (mem_seen_of_contains hseen) h
    · exact arriveMiss_linv c key svc _ sc (mem_seen_of_contains hseen) h h2.serials

theorem pollHit_linv {s : State} (c v : Nat) (h : LInv s) : LInv (pollHit s c v) :=
  h.quiet [.result c (.ok v)] rfl (by intro e he; simp at he; subst he; exact quiet_result _ _)
    (by intro c' v' o hm; simp at hm) rfl rfl rfl (fun _ hq => hq) (fun _ hq => mem_del hq)

theorem completeFail_linv {s : State} (c : Nat) (p : Pend) (r : Res) (hp : (c, p) ∈ s.pend) (h : LInv s) :
    LInv (completeFail s c p r) :=
  h.quiet [.innerDone c p.k p.out, .result c r] rfl
    (by intro e he; simp at he; rcases he with rfl | rfl; exact quiet_done _ _ _; exact quiet_result _ _)
    (by intro c' v' o hm; simp at hm; obtain ⟨rfl, rfl, _⟩ := hm; exact (h.pendLog _ hp).1)
    rfl rfl rfl (fun _ hq => mem_del hq) (fun _ hq => hq)

theorem completeOk_log (cfg : Cfg) (s : State) (c w : Nat) (p : Pend) :
    (completeOk cfg s c p w).log
      = s.log ++ okEvs c p.k (storeInsert cfg s.now s.tick s.store p.key p.k w).choiceOk := by
  simp [completeOk, emit, okEvs]

theorem completeOk_linv {cfg : Cfg} {s : State} (c w : Nat) (p : Pend) (hp : (c, p) ∈ s.pend) (h : LInv s) :
    LInv (completeOk cfg s c p w) :=
  h.quiet _ (completeOk_log cfg s c w p) (okEvs_quiet _ _ _)
    (by intro c' v' o hm; obtain ⟨rfl, rfl, _⟩ := okEvs_done hm; exact (h.pendLog _ hp).1)
    rfl rfl rfl (fun _ hq => mem_del hq) (fun _ hq => hq)

theorem pollPend_linv {cfg : Cfg} {s : State} (c w : Nat) (p : Pend) (hp : (c, p) ∈ s.pend) (h : LInv s) :
    LInv (pollPend cfg s c p w) := by
  unfold pollPend
  split
  · split
    · exact completeOk_linv c w p hp h
    · exact completeFail_linv c p _ hp h
    · exact completeFail_linv c p _ hp h
    · exact h
  · exact h

theorem poll_linv {cfg : Cfg} {s : State} (c w : Nat) (h : LInv s) : LInv (poll cfg s c w) := by
  unfold poll
  split
  · exact pollHit_linv c _ h
  · split
    · rename_i p hp
      exact pollPend_linv c w p (lookup_mem hp) h
    · exact h

theorem dropC_linv {s : State} (c : Nat) (h : LInv s) : LInv (dropC s c) := by
  unfold dropC
  split
  · exact h.quiet [] (by simp) (by simp) (by simp) rfl rfl rfl (fun _ hq => hq) (fun _ hq => mem_del hq)
  · split
    · rename_i p hp
      exact h.quiet [.innerDrop c p.k] rfl (by intro e he; simp at he; subst he; exact quiet_drop _ _)
        (by intro c' v' o hm; simp at hm) rfl rfl rfl (fun _ hq => mem_del hq) (fun _ hq => hq)
    · exact h

theorem step_linv {cfg : Cfg} {s : State} (op : Op) (h : LInv s) (h2 : Inv2 s) : LInv (stepS cfg s op) := by
  cases op with
  | adv ms => exact h.quiet [] (by simp [stepS]) (by simp) (by simp) rfl rfl rfl (fun _ hq => hq) (fun _ hq => hq)
  | arrive c key svc sc => exact arrive_linv c key svc sc h h2
  | poll c w => exact poll_linv c w h
  | drop c => exact dropC_linv c h

theorem init_linv : LInv init := by
  refine ⟨?_, ?_, ?_, ?_, ?_, ?_, ?_, ?_, ?_, ?_, ?_⟩ <;> simp [init, ReqKey, ReqOnce, lookup]

/-! ## the specification map and the hits, read off the log -/

/-- **the last successful completion for key `k` in `log` carries `v`**: the log contains
`inner_done c v ok` for a caller `c` whose echo shows key `k`, and behind it no `inner_done c' _ ok` of a
caller `c'` whose echo shows key `k` -/
def LastOkFor (log : List Ev) (k v : Nat) : Prop :=
  ∃ p q c, log = p ++ Ev.innerDone c v .ok :: q ∧ ReqKey log c k ∧
    ∀ c' v', Ev.innerDone c' v' .ok ∈ q → ¬ ReqKey log c' k

/-- no successful completion for key `k` in `log` -/
def NoOkFor (log : List Ev) (k : Nat) : Prop :=
  ∀ c v, Ev.innerDone c v .ok ∈ log → ¬ ReqKey log c k

/-- **`c` was served from the cache with `v`**: `c` made no inner call, and in the part of the log that
precedes the echo of `c`'s request (key `k`) the last successful completion for `k` carries `v` -/
def HitOf (log : List Ev) (c v : Nat) : Prop :=
  (∀ v', Ev.innerCall c v' ∉ log) ∧
  ∃ pre post k svc, log = pre ++ reqEv c k svc :: post ∧ LastOkFor pre k v

/-- the echoes among `evs` are of callers that have completed nothing in `log` -/
def FreshReqs (log evs : List Ev) : Prop :=
  ∀ c k svc, reqEv c k svc ∈ evs → ∀ v o, Ev.innerDone c v o ∉ log

theorem freshReqs_quiet {log evs : List Ev} (hq : ∀ e ∈ evs, Quiet e) : FreshReqs log evs :=
  fun c k svc hm => absurd rfl ((hq _ hm).1 c k svc)

theorem reqKey_of_append {log evs : List Ev} (hf : FreshReqs log evs) {c k v : Nat} {o : Out}
    (hd : Ev.innerDone c v o ∈ log) (h : ReqKey (log ++ evs) c k) : ReqKey log c k := by
  obtain ⟨svc, hm⟩ := h
  rcases List.mem_append.mp hm with hm | hm
  · exact ⟨svc, hm⟩
  · exact absurd hd (hf c k svc hm v o)

theorem LastOkFor.append {log evs : List Ev} {k v : Nat} (h : LastOkFor log k v) (hf : FreshReqs log evs)
    (hd : ∀ c v', Ev.innerDone c v' .ok ∈ evs → ¬ ReqKey (log ++ evs) c k) : LastOkFor (log ++ evs) k v := by
  obtain ⟨p, q, c, hl, hk, hno⟩ := h
  refine ⟨p, q ++ evs, c, by rw [hl]; simp, hk.mono evs, ?_⟩
  intro c' v' hm hr
  rcases List.mem_append.mp hm with hm | hm
  · have hin : Ev.innerDone c' v' .ok ∈ log := by rw [hl]; simp [hm]
    exact hno c' v' hm (reqKey_of_append hf hin hr)
  · exact hd c' v' hm hr

theorem NoOkFor.append {log evs : List Ev} {k : Nat} (h : NoOkFor log k) (hf : FreshReqs log evs)
    (hd : ∀ c v', Ev.innerDone c v' .ok ∈ evs → ¬ ReqKey (log ++ evs) c k) : NoOkFor (log ++ evs) k := by
  intro c v hm hr
  rcases List.mem_append.mp hm with hm | hm
  · exact h c v hm (reqKey_of_append hf hm hr)
  · exact hd c v hm hr

theorem HitOf.append {log evs : List Ev} {c v : Nat} (h : HitOf log c v) (hn : ∀ v', Ev.innerCall c v' ∉ evs) :
    HitOf (log ++ evs) c v := by
  obtain ⟨h1, pre, post, k, svc, hl, hlast⟩ := h
  refine ⟨?_, pre, post ++ evs, k, svc, by rw [hl]; simp, hlast⟩
  intro v' hm
  rcases List.mem_append.mp hm with hm | hm
  · exact h1 v' hm
  · exact hn v' hm

/-- the last successful completion for a key is unique -/
theorem LastOkFor.unique {log : List Ev} {k v v' : Nat} (h : LastOkFor log k v) (h' : LastOkFor log k v') : v = v' := by
  obtain ⟨p, q, c, hl, hk, hno⟩ := h
  obtain ⟨p', q', c', hl', hk', hno'⟩ := h'
  rcases decomp_cases (hl.symm.trans hl') with ⟨_, he, _⟩ | ⟨m, hq, _⟩ | ⟨m, hq, _⟩
  · cases he; rfl
  · exact absurd hk' (hno c' v' (by rw [hq]; simp))
  · exact absurd hk (hno' c v (by rw [hq]; simp))

theorem LastOkFor.not_noOk {log : List Ev} {k v : Nat} (h : LastOkFor log k v) : ¬ NoOkFor log k := by
  obtain ⟨p, q, c, hl, hk, _⟩ := h
  intro hn
  exact hn c v (by rw [hl]; simp) hk

structure SpecInv (s : State) : Prop where
  some : ∀ k v t, lookup s.stored k = some (v, t) → LastOkFor s.log k v
  none : ∀ k, lookup s.stored k = none → NoOkFor s.log k
  hits : ∀ q ∈ s.hits, HitOf s.log q.1 q.2
  res  : ∀ c v, Ev.result c (.ok v) ∈ s.log → Ev.innerDone c v .ok ∈ s.log ∨ HitOf s.log c v

/-- a step that leaves the specification map alone and appends no successful completion -/
theorem SpecInv.frame {s : State} (s' : State) (h : SpecInv s) (evs : List Ev) (hlog : s'.log = s.log ++ evs)
    (hst : s'.stored = s.stored) (hf : FreshReqs s.log evs)
    (hnd : ∀ c v, Ev.innerDone c v .ok ∉ evs)
    (hnc : ∀ c v, Ev.innerCall c v ∈ evs → ∀ k svc, reqEv c k svc ∉ s.log)
    (hh : ∀ q ∈ s'.hits, q ∈ s.hits ∨ HitOf s'.log q.1 q.2)
    (hr : ∀ c v, Ev.result c (.ok v) ∈ evs → HitOf s.log c v) : SpecInv s' := by
  have hhit : ∀ {c v}, HitOf s.log c v → HitOf s'.log c v := by
    intro c v hc
    rw [hlog]
    apply hc.append
    intro v' hm
    obtain ⟨_, pre, post, k, svc, hl, _⟩ := hc
    exact hnc c v' hm k svc (by rw [hl]; simp)
  refine ⟨?_, ?_, ?_, ?_⟩
  · intro k v t hk
    rw [hst] at hk
    rw [hlog]
    exact (h.some k v t hk).append hf (fun c v' hm => absurd hm (hnd c v'))
  · intro k hk
    rw [hst] at hk
    rw [hlog]
    exact (h.none k hk).append hf (fun c v' hm => absurd hm (hnd c v'))
  · intro q hq
    rcases hh q hq with hq | hq
    · exact hhit (h.hits q hq)
    · exact hq
  · intro c v hm
    rw [hlog] at hm ⊢
    rcases List.mem_append.mp hm with hm | hm
    · rcases h.res c v hm with hd | hc
      · exact Or.inl (List.mem_append_left _ hd)
      · exact Or.inr (by rw [← hlog]; exact hhit hc)
    · exact Or.inr (by rw [← hlog]; exact hhit (hr c v hm))

theorem arriveHit_spec {s : State} (c key svc v : Nat) (items : List Entry) (hc : c ∉ s.seen)
    (hl : LInv s) (hv : ∃ t, lookup s.stored key = some (v, t)) (h : SpecInv s) :
    SpecInv (arriveHit s c key svc items v) := by
  apply h.frame (arriveHit s c key svc items v) [reqEv c key svc] rfl rfl
  · intro c' k svc' hm v' o hd
    simp only [List.mem_singleton] at hm
    rw [(reqEv_inj hm).1] at hd
    exact hc (hl.doneSeen hd)
  · intro c' v' hm; simp only [List.mem_singleton] at hm; exact reqEv_ne_done _ _ _ _ _ _ hm.symm
  · intro c' v' hm; simp only [List.mem_singleton] at hm; exact absurd hm.symm (reqEv_ne_call _ _ _ _ _)
  · intro q hq
    simp only [arriveHit, emit, List.mem_cons] at hq
    rcases hq with rfl | hq
    · right
      obtain ⟨t, ht⟩ := hv
      refine ⟨?_, s.log, [], key, svc, rfl, h.some key v t ht⟩
      intro v' hm
      simp only [arriveHit, emit, List.mem_append, List.mem_singleton] at hm
      rcases hm with hm | hm
      · exact hc (hl.callSeen c v' hm).1
      · exact reqEv_ne_call _ _ _ _ _ hm.symm
    · exact Or.inl hq
  · intro c' v' hm; simp only [List.mem_singleton] at hm; exact absurd hm.symm (reqEv_ne_result _ _ _ _ _)

theorem arriveMiss_spec {s : State} (c key svc : Nat) (items : List Entry) (sc : Step) (hc : c ∉ s.seen)
    (hl : LInv s) (h : SpecInv s) : SpecInv (arriveMiss s c key svc items sc) := by
  apply h.frame (arriveMiss s c key svc items sc) [reqEv c key svc, .innerCall c s.serial] rfl rfl
  · intro c' k svc' hm v' o hd
    simp only [List.mem_cons, List.not_mem_nil, or_false] at hm
    rcases hm with hm | hm
    · rw [(reqEv_inj hm).1] at hd
      exact hc (hl.doneSeen hd)
    · exact reqEv_ne_call _ _ _ _ _ hm
  · intro c' v' hm
    simp only [List.mem_cons, List.not_mem_nil, or_false] at hm
    rcases hm with hm | hm
    · exact reqEv_ne_done _ _ _ _ _ _ hm.symm
    · cases hm
  · intro c' v' hm k svc' hr
    simp only [List.mem_cons, List.not_mem_nil, or_false] at hm
    rcases hm with hm | hm
    · exact reqEv_ne_call _ _ _ _ _ hm.symm
    · cases hm
      exact hc (hl.reqSeen c k svc' hr)
  · intro q hq; exact Or.inl hq
  · intro c' v' hm
    simp only [List.mem_cons, List.not_mem_nil, or_false] at hm
    rcases hm with hm | hm
    · exact absurd hm.symm (reqEv_ne_result _ _ _ _ _)
    · cases hm

theorem pollHit_spec {s : State} (c v : Nat) (hv : (c, v) ∈ s.hits) (h : SpecInv s) : SpecInv (pollHit s c v) := by
  have hq : ∀ e ∈ [Ev.result c (.ok v)], Quiet e := by intro e he; simp at he; subst he; exact quiet_result _ _
  apply h.frame (pollHit s c v) [.result c (.ok v)] rfl rfl (freshReqs_quiet hq)
  · intro c' v' hm; simp at hm
  · intro c' v' hm; exact absurd rfl ((hq _ hm).2 c' v')
  · intro q hq'; exact Or.inl (mem_del hq')
  · intro c' v' hm
    simp only [List.mem_singleton, Ev.result.injEq, Res.ok.injEq] at hm
    obtain ⟨rfl, rfl⟩ := hm
    exact h.hits _ hv

theorem completeFail_spec {s : State} (c : Nat) (p : Pend) (r : Res) (ho : p.out ≠ .ok) (hr : ∀ v, r ≠ .ok v)
    (h : SpecInv s) : SpecInv (completeFail s c p r) := by
  have hq : ∀ e ∈ [Ev.innerDone c p.k p.out, .result c r], Quiet e := by
    intro e he; simp at he; rcases he with rfl | rfl; exact quiet_done _ _ _; exact quiet_result _ _
  apply h.frame (completeFail s c p r) [.innerDone c p.k p.out, .result c r] rfl rfl (freshReqs_quiet hq)
  · intro c' v' hm
    simp only [List.mem_cons, List.not_mem_nil, or_false, Ev.innerDone.injEq] at hm
    rcases hm with hm | hm
    · exact ho hm.2.2.symm
    · cases hm
  · intro c' v' hm; exact absurd rfl ((hq _ hm).2 c' v')
  · intro q hq'; exact Or.inl hq'
  · intro c' v' hm
    simp only [List.mem_cons, List.not_mem_nil, or_false] at hm
    rcases hm with hm | hm
    · cases hm
    · cases hm; exact absurd rfl (hr v')

theorem completeOk_spec {cfg : Cfg} {s : State} (c w : Nat) (p : Pend) (hp : (c, p) ∈ s.pend)
    (hl : LInv s) (h : SpecInv s) : SpecInv (completeOk cfg s c p w) := by
  have hlog := completeOk_log cfg s c w p
  generalize (storeInsert cfg s.now s.tick s.store p.key p.k w).choiceOk = b at hlog
  have hq := okEvs_quiet c p.k b
  have hf : FreshReqs s.log (okEvs c p.k b) := freshReqs_quiet hq
  have hst : (completeOk cfg s c p w).stored = (p.key, (p.k, s.now)) :: s.stored := rfl
  have hck : ReqKey s.log c p.key := (hl.pendLog _ hp).2
  -- a successful completion among the new events is `c`'s, and `c`'s key is `p.key`
  have hd : ∀ k, k ≠ p.key → ∀ c' v', Ev.innerDone c' v' .ok ∈ okEvs c p.k b → ¬ ReqKey (s.log ++ okEvs c p.k b) c' k := by
    intro k hk c' v' hm hr
    obtain ⟨rfl, _, _⟩ := okEvs_done hm
    exact hk (hl.reqFun _ _ _ ((reqKey_append_quiet hq).mp hr) hck)
  have hhit : ∀ {c' v}, HitOf s.log c' v → HitOf (completeOk cfg s c p w).log c' v := by
    intro c' v hc'
    rw [hlog]
    exact hc'.append (fun v' hm => absurd rfl ((hq _ hm).2 c' v'))
  refine ⟨?_, ?_, ?_, ?_⟩
  · intro k v t hk
    rw [hst] at hk
    rw [hlog]
    by_cases hkk : p.key = k
    · subst hkk
      rw [lookup_cons_eq] at hk
      cases hk
      refine ⟨s.log, (if b then [] else [Ev.raw "choice-not-allowed"]) ++ [Ev.result c (.ok p.k)], c, ?_, hck.mono _, ?_⟩
      · simp [okEvs]
      · intro c' v' hm
        cases b <;> simp at hm
    · rw [lookup_cons_ne hkk] at hk
      exact (h.some k v t hk).append hf (hd k (fun e => hkk e.symm))
  · intro k hk
    rw [hst] at hk
    rw [hlog]
    by_cases hkk : p.key = k
    · subst hkk; rw [lookup_cons_eq] at hk; cases hk
    · rw [lookup_cons_ne hkk] at hk
      exact (h.none k hk).append hf (hd k (fun e => hkk e.symm))
  · intro q hq'
    exact hhit (h.hits q hq')
  · intro c' v hm
    rw [hlog] at hm
    rcases List.mem_append.mp hm with hm | hm
    · rcases h.res c' v hm with hd' | hc'
      · exact Or.inl (by rw [hlog]; exact List.mem_append_left _ hd')
      · exact Or.inr (hhit hc')
    · obtain ⟨rfl, hv⟩ := okEvs_result hm
      cases hv
      exact Or.inl (by rw [hlog]; simp [okEvs])

theorem pollPend_spec {cfg : Cfg} {s : State} (c w : Nat) (p : Pend) (hp : (c, p) ∈ s.pend)
    (hl : LInv s) (h : SpecInv s) : SpecInv (pollPend cfg s c p w) := by
  unfold pollPend
  split
  · split
    · exact completeOk_spec c w p hp hl h
    · rename_i kd ho
      exact completeFail_spec c p _ (by rw [ho]; simp) (by intro v; simp) h
    · rename_i ho
      exact completeFail_spec c p _ (by rw [ho]; simp) (by intro v; simp) h
    · exact h
  · exact h

theorem poll_spec {cfg : Cfg} {s : State} (c w : Nat) (hl : LInv s) (h : SpecInv s) : SpecInv (poll cfg s c w) := by
  unfold poll
  split
  · rename_i v hv
    exact pollHit_spec c v (lookup_mem hv) h
  · split
    · rename_i p hp
      exact pollPend_spec c w p (lookup_mem hp) hl h
    · exact h

theorem dropC_spec {s : State} (c : Nat) (h : SpecInv s) : SpecInv (dropC s c) := by
  unfold dropC
  split
  · exact h.frame { s with hits := del s.hits c } [] (by simp) rfl (freshReqs_quiet (by simp)) (by simp) (by simp)
      (fun q hq => Or.inl (mem_del hq)) (by simp)
  · split
    · rename_i p hp
      have hq : ∀ e ∈ [Ev.innerDrop c p.k], Quiet e := by intro e he; simp at he; subst he; exact quiet_drop _ _
      exact h.frame (emit { s with pend := del s.pend c } [.innerDrop c p.k]) [.innerDrop c p.k] rfl rfl (freshReqs_quiet hq) (by simp)
        (fun c' v' hm => absurd rfl ((hq _ hm).2 c' v')) (fun q hq' => Or.inl hq') (by simp)
    · exact h

theorem arrive_spec {cfg : Cfg} {s : State} (c key svc : Nat) (sc : Step) (h1 : Inv1 cfg s) (hl : LInv s)
    (h : SpecInv s) : SpecInv (arrive cfg s c key svc sc) := by
  unfold arrive
  split
  · exact h
  · rename_i hseen
    simp only []
    split
    · rename_i v hv
      refine arriveHit_spec c key svc v _ (mem_seen_of_contains hseen) hl ?_ h
      obtain ⟨e, he, hk, hval, _⟩ := storeGet_hit hv
      have := h1.fresh e he
      rw [hk, hval] at this
      exact ⟨e.ins, this⟩
    · exact arriveMiss_spec c key svc _ sc (mem_seen_of_contains hseen) hl h

theorem step_spec {cfg : Cfg} {s : State} (op : Op) (h1 : Inv1 cfg s) (hl : LInv s) (h : SpecInv s) :
    SpecInv (stepS cfg s op) := by
  cases op with
  | adv ms =>
    exact h.frame { s with now := s.now + ms } [] (by simp) rfl (freshReqs_quiet (by simp)) (by simp) (by simp)
      (fun q hq => Or.inl hq) (by simp)
  | arrive c key svc sc => exact arrive_spec c key svc sc h1 hl h
  | poll c w => exact poll_spec c w hl h
  | drop c => exact dropC_spec c h

theorem init_spec : SpecInv init := by
  refine ⟨?_, ?_, ?_, ?_⟩ <;> simp [init, lookup, NoOkFor]

/-- every reachable state satisfies the log invariants -/
theorem log_inv_reachable (cfg : Cfg) (ops : List Op) : LInv (run cfg ops) ∧ SpecInv (run cfg ops) := by
  unfold run
  suffices ∀ s, (Inv1 cfg s ∧ Inv2 s ∧ Inv3 s) → LInv s → SpecInv s →
      (LInv (ops.foldl (stepS cfg) s) ∧ SpecInv (ops.foldl (stepS cfg) s)) from
    this _ (init_inv cfg) init_linv init_spec
  induction ops with
  | nil => intro s _ hl hs; exact ⟨hl, hs⟩
  | cons o os ih =>
    intro s hi hl hs
    exact ih _ (step_inv o hi.1 hi.2.1 hi.2.2) (step_linv o hl hi.2.1) (step_spec o hi.1 hl hs)

/-! ## consequences, for every reachable state -/

/-- a caller has one echo: two ways of pointing at "the echo of `c`'s request" in the log are the same -/
theorem req_decomp_unique {log pre post pre' post' : List Ev} {c k svc k' svc' : Nat} (h : ReqOnce log)
    (h1 : log = pre ++ reqEv c k svc :: post) (h2 : log = pre' ++ reqEv c k' svc' :: post') :
    pre = pre' ∧ k = k' ∧ svc = svc' ∧ post = post' := by
  rcases decomp_cases (h1.symm.trans h2) with ⟨hp, he, hq⟩ | ⟨m, hq, _⟩ | ⟨m, hq, _⟩
  · exact ⟨hp, (reqEv_inj he).2.1, (reqEv_inj he).2.2, hq⟩
  · exfalso
    unfold ReqOnce at h
    rw [h1, List.pairwise_append] at h
    have := (List.pairwise_cons.mp h.2.1).1 (reqEv c k' svc') (by rw [hq]; simp)
    exact this c k svc k' svc' rfl rfl
  · exfalso
    unfold ReqOnce at h
    rw [h2, List.pairwise_append] at h
    have := (List.pairwise_cons.mp h.2.1).1 (reqEv c k svc) (by rw [hq]; simp)
    exact this c k' svc' k svc rfl rfl

/-- `callKey` is a function of the log: `callKey v = k` iff the log shows an inner call with serial `v`
by a caller whose echo shows key `k` -/
theorem callKey_iff_log {s : State} (h : LInv s) (v k : Nat) :
    lookup s.callKey v = some k ↔ ∃ c, Ev.innerCall c v ∈ s.log ∧ ReqKey s.log c k := by
  constructor
  · intro hk
    obtain ⟨c, hc⟩ := h.keyCall v k hk
    obtain ⟨k', hk', hr⟩ := h.callReq hc
    rw [hk] at hk'; cases hk'
    exact ⟨c, hc, hr⟩
  · rintro ⟨c, hc, hr⟩
    obtain ⟨k', hk', hr'⟩ := h.callReq hc
    rw [h.reqFun c k k' hr hr']; exact hk'

/-- the specification map is a function of the log -/
theorem stored_iff_log {s : State} (h : SpecInv s) (k v : Nat) :
    (∃ t, lookup s.stored k = some (v, t)) ↔ LastOkFor s.log k v := by
  constructor
  · rintro ⟨t, ht⟩; exact h.some k v t ht
  · intro hl
    cases hk : lookup s.stored k with
    | none => exact absurd (h.none k hk) hl.not_noOk
    | some x =>
      obtain ⟨v', t⟩ := x
      rw [hl.unique (h.some k v' t hk)]
      exact ⟨t, rfl⟩

theorem stored_none_iff_log {s : State} (h : SpecInv s) (k : Nat) :
    lookup s.stored k = none ↔ NoOkFor s.log k := by
  constructor
  · exact h.none k
  · intro hn
    cases hk : lookup s.stored k with
    | none => rfl
    | some x => exact absurd hn (h.some k x.1 x.2 hk).not_noOk

/-- a result delivered to a caller that made no inner call is the value of the last successful
completion for the key of its request in the log **before its echo** — for *every* way of pointing at
that echo -/
theorem hit_result_log {s : State} (hl : LInv s) (h : SpecInv s) {c v : Nat}
    (hr : Ev.result c (.ok v) ∈ s.log) (hn : ∀ v', Ev.innerCall c v' ∉ s.log)
    {pre post : List Ev} {k svc : Nat} (hd : s.log = pre ++ reqEv c k svc :: post) : LastOkFor pre k v := by
  rcases h.res c v hr with hdone | ⟨_, pre', post', k', svc', hd', hlast⟩
  · exact absurd (hl.doneCall c v .ok hdone) (hn v)
  · obtain ⟨hp, hk, _, _⟩ := req_decomp_unique hl.reqOnce hd hd'
    rw [hp, hk]; exact hlast

/-- a decidable way to say "caller `c` made no inner call" -/
theorem no_call_of_countP {log : List Ev} {c : Nat} (h : log.countP (isCallOf c) = 0) :
    ∀ v, Ev.innerCall c v ∉ log := by
  intro v hm
  have := List.countP_eq_zero.mp h _ hm
  simp [isCallOf] at this

end TR.Cache
