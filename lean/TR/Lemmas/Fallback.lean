import TR.Model.Fallback
/-!
# Fallback: per-request trace shapes of the poll-level machine (helper lemmas for C17)

`evsOf c log` is the sub-log of the events about request `c`. The invariant `Stage` says that
in every reachable state this sub-log is exactly a prefix stage of the canonical trace that the
pure decision function (`completionInner` = `afterInner`, `completionBackup` = `afterBackup`)
prescribes for that request: nothing before the first poll; the inner call; then the whole
completion block in one piece; for the backup strategy the backup call and its completion
block; or a drop after either call.
-/
namespace TR.Fallback

/-- the request an event is about -/
def about : FEv → Nat
  | .innerCall c _ _ => c
  | .innerDone c _ _ => c
  | .innerDrop c _ => c
  | .backupCall c _ _ => c
  | .backupDone c _ _ => c
  | .backupDrop c _ => c
  | .callback c _ => c
  | .resp c _ => c
  | .result c _ => c
  | .panicked c => c
  | .notReady c => c

def evsOf (c : Nat) (l : List FEv) : List FEv := l.filter (fun e => about e == c)

@[simp] theorem evsOf_append (c : Nat) (a b : List FEv) : evsOf c (a ++ b) = evsOf c a ++ evsOf c b := by
  simp [evsOf]

theorem evsOf_all {c : Nat} {l : List FEv} (h : ∀ e ∈ l, about e = c) : evsOf c l = l := by
  unfold evsOf
  apply List.filter_eq_self.mpr
  intro e he; simp [h e he]

theorem evsOf_none {c c' : Nat} {l : List FEv} (h : ∀ e ∈ l, about e = c') (hne : c' ≠ c) : evsOf c l = [] := by
  unfold evsOf
  apply List.filter_eq_nil_iff.mpr
  intro e he; simp [h e he, hne]

theorem mem_evsOf {c : Nat} {l : List FEv} {e : FEv} : e ∈ evsOf c l ↔ e ∈ l ∧ about e = c := by
  simp [evsOf]

/-! ## everything a completion block emits is about its request -/

theorem actEvents_about (c : Nat) (a : Act) : ∀ e ∈ (actEvents c a).1, about e = c := by
  intro e he
  cases a with
  | finish cbs o =>
      simp only [actEvents, List.mem_append, List.mem_map, List.mem_cons, List.mem_nil_iff, or_false] at he
      rcases he with ⟨cb, _, rfl⟩ | rfl | rfl <;> rfl
  | backup cbs =>
      simp only [actEvents, List.mem_map] at he
      rcases he with ⟨cb, _, rfl⟩; rfl

theorem completionInner_about (cfg : Cfg) (c : Nat) (rq : Request) (n k : Nat) (out : Out) :
    ∀ e ∈ (completionInner cfg c rq n k out).1, about e = c := by
  intro e he
  unfold completionInner at he
  split at he
  · simp only [List.mem_cons] at he
    rcases he with rfl | he
    · rfl
    · exact actEvents_about c _ e he
  · simp only [List.mem_cons, List.mem_nil_iff, or_false] at he
    rcases he with rfl | rfl <;> rfl

theorem completionBackup_about (c : Nat) (rq : Request) (k : Nat) (out : Out) :
    ∀ e ∈ completionBackup c rq k out, about e = c := by
  intro e he
  unfold completionBackup at he
  split at he <;>
    (simp only [List.mem_cons, List.mem_nil_iff, or_false] at he
     rcases he with rfl | rfl | rfl <;> rfl) <;> skip
  all_goals (rcases he with rfl | rfl <;> rfl)

theorem backupNotReady_about (c : Nat) : ∀ e ∈ backupNotReady c, about e = c := by
  intro e he
  simp only [backupNotReady, List.mem_cons, List.mem_nil_iff, or_false] at he
  rcases he with rfl | rfl <;> rfl

theorem arriveEvents_about (c : Nat) (r : Option (Option Outcome)) : ∀ e ∈ arriveEvents c r, about e = c := by
  intro e he
  rcases r with _ | _ | o <;> simp only [arriveEvents, List.mem_cons, List.mem_nil_iff, or_false] at he
  · subst he; rfl
  · rcases he with rfl | rfl <;> rfl

/-! ## the stages of one request's trace -/

/-- trace of a request whose inner call (serial `k`, outcome `out`) has completed and that did
not go to the backup service -/
def traceFin (cfg : Cfg) (c : Nat) (rq : Request) (n k : Nat) (out : Out) : List FEv :=
  .innerCall c k rq :: (completionInner cfg c rq n k out).1

/-- trace up to and including the backup call (serial `k2`) -/
def traceToBackup (cfg : Cfg) (c : Nat) (rq : Request) (n k : Nat) (out : Out) (k2 : Nat) : List FEv :=
  .innerCall c k rq :: (completionInner cfg c rq n k out).1 ++ [.backupCall c k2 rq]

/-- the shapes a finished (or cancelled) request's trace can have -/
inductive Final (cfg : Cfg) (c : Nat) : List FEv → Prop
  | unpolled : Final cfg c []
  /-- the wrapped service was not ready when the request arrived: the caller gave up, no call was made -/
  | notReady : Final cfg c [.notReady c]
  /-- the wrapped service failed readiness: its error, unchanged, under the pass-through variant — no
  predicate, no strategy, no inner call, no backup call -/
  | readyFailed : Final cfg c [.resp c (.inner readyErr), .result c (.inner readyErr)]
  /-- the backup service failed readiness: a failure of the backup, without a backup call -/
  | backupNotReady (rq : Request) (n k : Nat) (out : Out) (hn : out ≠ .never)
      (h : (completionInner cfg c rq n k out).2 = .toBackup) :
      Final cfg c (traceFin cfg c rq n k out ++ backupNotReady c)
  | droppedInner (rq : Request) (k : Nat) : Final cfg c [.innerCall c k rq, .innerDrop c k]
  | finished (rq : Request) (n k : Nat) (out : Out) (hn : out ≠ .never)
      (h : (completionInner cfg c rq n k out).2 = .fin) : Final cfg c (traceFin cfg c rq n k out)
  | droppedBackup (rq : Request) (n k : Nat) (out : Out) (k2 : Nat) (hn : out ≠ .never)
      (h : (completionInner cfg c rq n k out).2 = .toBackup) :
      Final cfg c (traceToBackup cfg c rq n k out k2 ++ [.backupDrop c k2])
  | finishedBackup (rq : Request) (n k : Nat) (out : Out) (k2 : Nat) (out2 : Out) (hn : out ≠ .never)
      (hn2 : out2 ≠ .never) (h : (completionInner cfg c rq n k out).2 = .toBackup) :
      Final cfg c (traceToBackup cfg c rq n k out k2 ++ completionBackup c rq k2 out2)

/-- the sub-log of request `c` matches its phase -/
def Stage (cfg : Cfg) (s : State) (c : Nat) : Prop :=
  match lookup s.phase c with
  | none => evsOf c s.log = []
  | some (.fresh rq _) => evsOf c s.log = [] ∧ rq.c = c
  | some (.inner rq k _ _ _) => evsOf c s.log = [.innerCall c k rq] ∧ rq.c = c
  | some (.backup rq k2 _ _) =>
      ∃ n k out, out ≠ .never ∧ (completionInner cfg c rq n k out).2 = .toBackup ∧
        evsOf c s.log = traceToBackup cfg c rq n k out k2
  | some .done => Final cfg c (evsOf c s.log)

def Inv (cfg : Cfg) (s : State) : Prop := ∀ c, Stage cfg s c

/-! ## lookup / phase update -/

theorem lookup_setPhase_same (s : State) (c : Nat) (p : Phase) : lookup (setPhase s c p).phase c = some p := by
  simp [setPhase, lookup]

theorem lookup_setPhase_other (s : State) {c c' : Nat} (p : Phase) (h : c ≠ c') :
    lookup (setPhase s c p).phase c' = lookup s.phase c' := by
  simp [setPhase, lookup, h]

/-- a step that only touches request `c` (its phase entry, appended events about `c`) keeps the
stage of every other request -/
theorem stage_other {cfg : Cfg} {s s' : State} {c c' : Nat} (hne : c ≠ c')
    (hph : lookup s'.phase c' = lookup s.phase c')
    (hlog : ∃ evs, s'.log = s.log ++ evs ∧ ∀ e ∈ evs, about e = c)
    (h : Stage cfg s c') : Stage cfg s' c' := by
  obtain ⟨evs, hl, hab⟩ := hlog
  have hev : evsOf c' s'.log = evsOf c' s.log := by
    rw [hl, evsOf_append, evsOf_none hab hne, List.append_nil]
  unfold Stage at *
  rw [hph, hev]; exact h

/-! ## the helpers, one by one: what they do to the phase of `c` and to the log -/

/-- effect of a helper on the state, as far as the invariant is concerned -/
structure Touches (c : Nat) (s s' : State) : Prop where
  others : ∀ c', c ≠ c' → lookup s'.phase c' = lookup s.phase c'
  log : ∃ evs, s'.log = s.log ++ evs ∧ ∀ e ∈ evs, about e = c

theorem Touches.refl (c : Nat) (s : State) : Touches c s s :=
  ⟨fun _ _ => rfl, ⟨[], by simp, by simp⟩⟩

theorem Touches.trans {c : Nat} {s1 s2 s3 : State} (h1 : Touches c s1 s2) (h2 : Touches c s2 s3) :
    Touches c s1 s3 := by
  refine ⟨fun c' hne => by rw [h2.others c' hne, h1.others c' hne], ?_⟩
  obtain ⟨e1, hl1, ha1⟩ := h1.log
  obtain ⟨e2, hl2, ha2⟩ := h2.log
  refine ⟨e1 ++ e2, by rw [hl2, hl1, List.append_assoc], ?_⟩
  intro e he
  rcases List.mem_append.mp he with h | h
  · exact ha1 e h
  · exact ha2 e h

theorem touches_setPhase (c : Nat) (s : State) (p : Phase) : Touches c s (setPhase s c p) :=
  ⟨fun _ hne => lookup_setPhase_other s p hne, ⟨[], by simp [setPhase], by simp⟩⟩

theorem touches_emit (c : Nat) (s : State) (evs : List FEv) (h : ∀ e ∈ evs, about e = c) :
    Touches c s (emit s evs) :=
  ⟨fun _ _ => rfl, ⟨evs, rfl, h⟩⟩

theorem touches_pollBackup (s : State) (c : Nat) (rq : Request) (k t : Nat) (out : Out) :
    Touches c s (pollBackup s c rq k t out) := by
  unfold pollBackup
  split
  · exact (touches_emit c s _ (completionBackup_about c rq k out)).trans (touches_setPhase c _ _)
  · exact Touches.refl c s

theorem touches_callBackup (s : State) (c : Nat) (rq : Request) (bk : Step) :
    Touches c s (callBackup s c rq bk) := by
  unfold callBackup
  refine Touches.trans ?_ (touches_pollBackup _ c rq _ _ _)
  refine Touches.trans (s2 := emit { s with serial := s.serial + 1 } [.backupCall c s.serial rq]) ?_ (touches_setPhase c _ _)
  exact ⟨fun _ _ => rfl, ⟨[.backupCall c s.serial rq], rfl, by intro e he; simp at he; subst he; rfl⟩⟩

/-- the two ways `startBackup` goes: the backup's readiness answer after its pending run -/
theorem startBackup_error {cfg : Cfg} {s : State} {c : Nat} {rq : Request} {bk : Step}
    (h : answer cfg.bready (s.brdy + pendingRun (cfg.bready.drop s.brdy)) = .error) :
    startBackup cfg s c rq bk
      = setPhase (emit { s with brdy := s.brdy + pendingRun (cfg.bready.drop s.brdy) + 1 } (backupNotReady c)) c .done := by
  simp only [startBackup, h]

theorem startBackup_ready {cfg : Cfg} {s : State} {c : Nat} {rq : Request} {bk : Step}
    (h : answer cfg.bready (s.brdy + pendingRun (cfg.bready.drop s.brdy)) ≠ .error) :
    startBackup cfg s c rq bk = callBackup { s with brdy := s.brdy + pendingRun (cfg.bready.drop s.brdy) + 1 } c rq bk := by
  simp only [startBackup]

theorem touches_startBackup (cfg : Cfg) (s : State) (c : Nat) (rq : Request) (bk : Step) :
    Touches c s (startBackup cfg s c rq bk) := by
  have h0 : Touches c s { s with brdy := s.brdy + pendingRun (cfg.bready.drop s.brdy) + 1 } :=
    ⟨fun _ _ => rfl, ⟨[], by simp, by simp⟩⟩
  simp only [startBackup]
  split
  · exact h0.trans ((touches_emit c _ _ (backupNotReady_about c)).trans (touches_setPhase c _ _))
  · exact h0.trans (touches_callBackup _ c rq bk)

theorem touches_pollInner (cfg : Cfg) (s : State) (c : Nat) (rq : Request) (k t : Nat) (out : Out) (bk : Step) :
    Touches c s (pollInner cfg s c rq k t out bk) := by
  unfold pollInner
  split
  · unfold completeInner continueWith
    have h1 : Touches c s (emit { s with fnCalls := s.fnCalls + (completionInner cfg c rq s.fnCalls k out).1.countP isValueFn }
        (completionInner cfg c rq s.fnCalls k out).1) :=
      ⟨fun _ _ => rfl, ⟨_, rfl, completionInner_about cfg c rq s.fnCalls k out⟩⟩
    split
    · exact h1.trans (touches_setPhase c _ _)
    · exact h1.trans (touches_startBackup cfg _ c rq bk)
  · exact Touches.refl c s

theorem touches_pollFresh (cfg : Cfg) (s : State) (c : Nat) (rq : Request) (plan : List Step) :
    Touches c s (pollFresh cfg s c rq plan) := by
  unfold pollFresh
  refine Touches.trans ?_ (touches_pollInner cfg _ c rq _ _ _ _)
  refine Touches.trans (s2 := emit { s with serial := s.serial + 1 } [.innerCall c s.serial rq]) ?_ (touches_setPhase c _ _)
  exact ⟨fun _ _ => rfl, ⟨[.innerCall c s.serial rq], rfl, by intro e he; simp at he; subst he; rfl⟩⟩

/-! ## stage of the touched request after each helper -/

theorem evsOf_emit_same {c : Nat} {s : State} {evs : List FEv} (h : ∀ e ∈ evs, about e = c) :
    evsOf c (emit s evs).log = evsOf c s.log ++ evs := by
  simp [emit, evsOf_all h]

theorem stage_pollBackup {cfg : Cfg} {s : State} {c : Nat} {rq : Request} {k2 t : Nat} {out2 : Out}
    (hph : lookup s.phase c = some (.backup rq k2 t out2)) (h : Stage cfg s c) :
    Stage cfg (pollBackup s c rq k2 t out2) c := by
  unfold pollBackup
  split
  · rename_i hc
    unfold Stage at h ⊢
    rw [hph] at h
    obtain ⟨n, k, out, hn, hnx, hev⟩ := h
    rw [lookup_setPhase_same]
    show Final cfg c (evsOf c (emit s (completionBackup c rq k2 out2)).log)
    rw [evsOf_emit_same (completionBackup_about c rq k2 out2), hev]
    exact Final.finishedBackup rq n k out k2 out2 hn hc.2 hnx
  · exact h

theorem stage_callBackup {cfg : Cfg} {s : State} {c : Nat} {rq : Request} {bk : Step} {n k : Nat} {out : Out}
    (hn : out ≠ .never) (hnx : (completionInner cfg c rq n k out).2 = .toBackup)
    (hev : evsOf c s.log = traceFin cfg c rq n k out) :
    Stage cfg (callBackup s c rq bk) c := by
  unfold callBackup
  apply stage_pollBackup (lookup_setPhase_same _ c _)
  unfold Stage
  rw [lookup_setPhase_same]
  refine ⟨n, k, out, hn, hnx, ?_⟩
  show evsOf c (s.log ++ [FEv.backupCall c s.serial rq]) = _
  rw [evsOf_append, hev]
  simp [evsOf, about, traceToBackup, traceFin]

theorem stage_startBackup {cfg : Cfg} {s : State} {c : Nat} {rq : Request} {bk : Step} {n k : Nat} {out : Out}
    (hn : out ≠ .never) (hnx : (completionInner cfg c rq n k out).2 = .toBackup)
    (hev : evsOf c s.log = traceFin cfg c rq n k out) :
    Stage cfg (startBackup cfg s c rq bk) c := by
  simp only [startBackup]
  split
  · unfold Stage
    rw [lookup_setPhase_same]
    show Final cfg c (evsOf c (emit _ (backupNotReady c)).log)
    rw [evsOf_emit_same (backupNotReady_about c)]
    show Final cfg c (evsOf c s.log ++ _)
    rw [hev]
    exact Final.backupNotReady rq n k out hn hnx
  · exact stage_callBackup (s := { s with brdy := s.brdy + pendingRun (cfg.bready.drop s.brdy) + 1 }) hn hnx hev

theorem stage_pollInner {cfg : Cfg} {s : State} {c : Nat} {rq : Request} {k t : Nat} {out : Out} {bk : Step}
    (hph : lookup s.phase c = some (.inner rq k t out bk)) (h : Stage cfg s c) :
    Stage cfg (pollInner cfg s c rq k t out bk) c := by
  unfold pollInner
  split
  · rename_i hc
    unfold Stage at h
    rw [hph] at h
    unfold completeInner continueWith
    have hev : evsOf c (emit { s with fnCalls := s.fnCalls + (completionInner cfg c rq s.fnCalls k out).1.countP isValueFn }
        (completionInner cfg c rq s.fnCalls k out).1).log = traceFin cfg c rq s.fnCalls k out := by
      rw [evsOf_emit_same (completionInner_about cfg c rq s.fnCalls k out)]
      show evsOf c s.log ++ _ = _
      rw [h.1]; rfl
    split
    · rename_i hnx
      unfold Stage
      rw [lookup_setPhase_same]
      show Final cfg c (evsOf c (emit _ _).log)
      rw [hev]
      exact Final.finished rq s.fnCalls k out hc.2 hnx
    · rename_i hnx
      exact stage_startBackup hc.2 hnx hev
  · exact h

theorem stage_pollFresh {cfg : Cfg} {s : State} {c : Nat} {rq : Request} {plan : List Step}
    (hph : lookup s.phase c = some (.fresh rq plan)) (h : Stage cfg s c) :
    Stage cfg (pollFresh cfg s c rq plan) c := by
  unfold pollFresh
  unfold Stage at h
  rw [hph] at h
  apply stage_pollInner (lookup_setPhase_same _ c _)
  unfold Stage
  rw [lookup_setPhase_same]
  refine ⟨?_, h.2⟩
  show evsOf c (s.log ++ [FEv.innerCall c s.serial rq]) = _
  rw [evsOf_append, h.1]
  simp [evsOf, about]

/-! ## the invariant is preserved by every step -/

theorem inv_of_touches {cfg : Cfg} {s s' : State} {c : Nat} (hinv : Inv cfg s) (ht : Touches c s s')
    (hc : Stage cfg s' c) : Inv cfg s' := by
  intro c'
  by_cases hne : c = c'
  · subst hne; exact hc
  · exact stage_other hne (ht.others c' hne) ht.log (hinv c')

theorem step_inv (cfg : Cfg) (s : State) (op : Op) (hinv : Inv cfg s) : Inv cfg (stepS cfg s op) := by
  cases op with
  | adv ms => exact hinv
  | arrive c tag plan =>
      simp only [stepS]
      split
      · exact hinv
      · rename_i hk
        have hnone : lookup s.phase c = none := by
          simp only [known, Bool.or_eq_true, not_or, Bool.not_eq_true, Option.isSome_eq_false_iff,
            Option.isNone_iff_eq_none] at hk
          exact hk.2
        have hab := arriveEvents_about c (pollReady (answer cfg.ready s.rdy))
        unfold arriveS
        apply inv_of_touches hinv (Touches.trans (s2 := emit { s with rdy := s.rdy + 1 } _) ⟨fun _ _ => rfl, ⟨_, rfl, hab⟩⟩
          (touches_setPhase c _ _))
        have := hinv c
        unfold Stage at this ⊢
        rw [hnone] at this
        rw [lookup_setPhase_same]
        cases answer cfg.ready s.rdy with
        | ready =>
            show evsOf c (s.log ++ []) = [] ∧ _
            rw [List.append_nil]; exact ⟨this, rfl⟩
        | pending =>
            show Final cfg c (evsOf c (s.log ++ [FEv.notReady c]))
            rw [evsOf_append, this]
            simp only [evsOf, about, List.filter, beq_self_eq_true, List.nil_append]
            exact Final.notReady
        | error =>
            show Final cfg c (evsOf c (s.log ++ [FEv.resp c (.inner readyErr), FEv.result c (.inner readyErr)]))
            rw [evsOf_append, this]
            simp only [evsOf, about, List.filter, beq_self_eq_true, List.nil_append]
            exact Final.readyFailed
  | poll c =>
      simp only [stepS]
      split
      · rename_i rq plan hph
        exact inv_of_touches hinv (touches_pollFresh cfg s c rq plan) (stage_pollFresh hph (hinv c))
      · rename_i rq k t out bk hph
        exact inv_of_touches hinv (touches_pollInner cfg s c rq k t out bk) (stage_pollInner hph (hinv c))
      · rename_i rq k t out hph
        exact inv_of_touches hinv (touches_pollBackup s c rq k t out) (stage_pollBackup hph (hinv c))
      · exact hinv
  | drop c =>
      simp only [stepS]
      split
      · rename_i rq plan hph
        apply inv_of_touches hinv (touches_setPhase c s _)
        have := hinv c
        unfold Stage at this ⊢
        rw [hph] at this
        rw [lookup_setPhase_same]
        show Final cfg c (evsOf c s.log)
        rw [this.1]; exact Final.unpolled
      · rename_i rq k t out bk hph
        have hab : ∀ e ∈ [FEv.innerDrop c k], about e = c := by intro e he; simp at he; subst he; rfl
        apply inv_of_touches hinv ((touches_emit c s _ hab).trans (touches_setPhase c _ _))
        have := hinv c
        unfold Stage at this ⊢
        rw [hph] at this
        rw [lookup_setPhase_same]
        show Final cfg c (evsOf c (emit s [FEv.innerDrop c k]).log)
        rw [evsOf_emit_same hab, this.1]
        exact Final.droppedInner rq k
      · rename_i rq k2 t out2 hph
        have hab : ∀ e ∈ [FEv.backupDrop c k2], about e = c := by intro e he; simp at he; subst he; rfl
        apply inv_of_touches hinv ((touches_emit c s _ hab).trans (touches_setPhase c _ _))
        have := hinv c
        unfold Stage at this ⊢
        rw [hph] at this
        obtain ⟨n, k, out, hn, hnx, hev⟩ := this
        rw [lookup_setPhase_same]
        show Final cfg c (evsOf c (emit s [FEv.backupDrop c k2]).log)
        rw [evsOf_emit_same hab, hev]
        exact Final.droppedBackup rq n k out k2 hn hnx
      · exact hinv
  | dropsvc => exact hinv

theorem inv_init (cfg : Cfg) : Inv cfg init := by
  intro c; simp [Stage, init, lookup, evsOf]

theorem foldl_inv (cfg : Cfg) (ops : List Op) (s : State) (h : Inv cfg s) : Inv cfg (ops.foldl (stepS cfg) s) := by
  induction ops generalizing s with
  | nil => exact h
  | cons op tl ih => exact ih _ (step_inv cfg s op h)

theorem inv_reachable (cfg : Cfg) (ops : List Op) : Inv cfg (run cfg ops) :=
  foldl_inv cfg ops init (inv_init cfg)

/-- every request's sub-log is one of the stages -/
inductive Shape (cfg : Cfg) (c : Nat) : List FEv → Prop
  | none : Shape cfg c []
  | calling (rq : Request) (k : Nat) : Shape cfg c [.innerCall c k rq]
  | backingUp (rq : Request) (n k : Nat) (out : Out) (k2 : Nat) (hn : out ≠ .never)
      (h : (completionInner cfg c rq n k out).2 = .toBackup) : Shape cfg c (traceToBackup cfg c rq n k out k2)
  | final (l : List FEv) (h : Final cfg c l) : Shape cfg c l

theorem shape_reachable (cfg : Cfg) (ops : List Op) (c : Nat) : Shape cfg c (evsOf c (run cfg ops).log) := by
  have h := inv_reachable cfg ops c
  unfold Stage at h
  split at h
  · rw [h]; exact Shape.none
  · rw [h.1]; exact Shape.none
  · rw [h.1]; exact Shape.calling _ _
  · obtain ⟨n, k, out, hn, hnx, hev⟩ := h
    rw [hev]; exact Shape.backingUp _ n k out _ hn hnx
  · exact Shape.final _ h

/-! ## the completion blocks, characterised -/

theorem completionInner_finish {cfg : Cfg} {c : Nat} {rq : Request} {n k : Nat} {out : Out} {ri : IRes}
    {cbs : List Callback} {o : Outcome} (h1 : svcResult rq k out = some ri)
    (h2 : afterInner cfg rq n ri = .finish cbs o) :
    completionInner cfg c rq n k out
      = (.innerDone c k out :: (cbs.map (.callback c) ++ [.resp c o, .result c o]), .fin) := by
  simp [completionInner, h1, h2, actEvents]

theorem completionInner_backup {cfg : Cfg} {c : Nat} {rq : Request} {n k : Nat} {out : Out} {ri : IRes}
    {cbs : List Callback} (h1 : svcResult rq k out = some ri)
    (h2 : afterInner cfg rq n ri = .backup cbs) :
    completionInner cfg c rq n k out = (.innerDone c k out :: cbs.map (.callback c), .toBackup) := by
  simp [completionInner, h1, h2, actEvents]

theorem completionInner_panic {cfg : Cfg} {c : Nat} {rq : Request} {n k : Nat} {out : Out}
    (h1 : svcResult rq k out = none) :
    completionInner cfg c rq n k out = ([.innerDone c k out, .panicked c], .fin) := by
  simp [completionInner, h1]

/-- the three possible forms of a completion block -/
theorem completionInner_cases (cfg : Cfg) (c : Nat) (rq : Request) (n k : Nat) (out : Out) :
    (svcResult rq k out = none ∧ completionInner cfg c rq n k out = ([.innerDone c k out, .panicked c], .fin)) ∨
    (∃ ri cbs o, svcResult rq k out = some ri ∧ afterInner cfg rq n ri = .finish cbs o ∧
      completionInner cfg c rq n k out
        = (.innerDone c k out :: (cbs.map (.callback c) ++ [.resp c o, .result c o]), .fin)) ∨
    (∃ ri cbs, svcResult rq k out = some ri ∧ afterInner cfg rq n ri = .backup cbs ∧
      completionInner cfg c rq n k out = (.innerDone c k out :: cbs.map (.callback c), .toBackup)) := by
  cases h1 : svcResult rq k out with
  | none => exact Or.inl ⟨rfl, completionInner_panic h1⟩
  | some ri =>
      cases h2 : afterInner cfg rq n ri with
      | finish cbs o => exact Or.inr (Or.inl ⟨ri, cbs, o, rfl, h2, completionInner_finish h1 h2⟩)
      | backup cbs => exact Or.inr (Or.inr ⟨ri, cbs, rfl, h2, completionInner_backup h1 h2⟩)

theorem innerDone_mem_completionInner (cfg : Cfg) (c : Nat) (rq : Request) (n k : Nat) (out : Out) :
    FEv.innerDone c k out ∈ (completionInner cfg c rq n k out).1 := by
  unfold completionInner
  split <;> simp

/-- a completion block never contains a callback of the backup phase -/
theorem callback_not_mem_completionBackup (c : Nat) (rq : Request) (k : Nat) (out : Out) (c' : Nat) (cb : Callback) :
    FEv.callback c' cb ∉ completionBackup c rq k out := by
  unfold completionBackup
  split <;> simp

/-- a predicate or strategy function is invoked in a completion block only when the inner call
ended in an error -/
theorem callback_mem_completionInner {cfg : Cfg} {c : Nat} {rq : Request} {n k : Nat} {out : Out} {c' : Nat}
    {cb : Callback} (h : FEv.callback c' cb ∈ (completionInner cfg c rq n k out).1) : ∃ kd, out = .err kd := by
  cases out with
  | err kd => exact ⟨kd, rfl⟩
  | ok => simp [completionInner, svcResult, afterInner, actEvents] at h
  | panic => simp [completionInner, svcResult] at h
  | never => simp [completionInner, svcResult] at h

theorem completionBackup_cases (c : Nat) (rq : Request) (k : Nat) (out : Out) :
    (svcResult rq k out = none ∧ completionBackup c rq k out = [.backupDone c k out, .panicked c]) ∨
    (∃ rb, svcResult rq k out = some rb ∧
      completionBackup c rq k out = [.backupDone c k out, .resp c (afterBackup rb), .result c (afterBackup rb)]) := by
  cases h1 : svcResult rq k out with
  | none => exact Or.inl ⟨rfl, by simp [completionBackup, h1]⟩
  | some rb => exact Or.inr ⟨rb, rfl, by simp [completionBackup, h1]⟩

theorem svcResult_ok {rq : Request} {k : Nat} {out : Out} {r : Resp} (h : svcResult rq k out = some (.ok r)) :
    out = .ok ∧ r = ⟨k, rq.c, rq.tag⟩ := by
  cases out <;> simp [svcResult] at h
  exact ⟨rfl, h.symm⟩

theorem svcResult_err {rq : Request} {k : Nat} {out : Out} {e : IErr} (h : svcResult rq k out = some (.err e)) :
    out = .err e.kind ∧ e.v = k := by
  cases out <;> simp [svcResult] at h
  subst h; exact ⟨rfl, rfl⟩

/-- the decision function never sends a success to the backup service -/
theorem afterInner_backup_is_error {cfg : Cfg} {rq : Request} {n : Nat} {ri : IRes} {cbs : List Callback}
    (h : afterInner cfg rq n ri = .backup cbs) :
    ∃ e, ri = .err e ∧ accepts cfg e = true ∧ cfg.strat = .service ∧ cbs = predCalls cfg e := by
  cases ri with
  | ok r => simp [afterInner] at h
  | err e =>
      refine ⟨e, rfl, ?_⟩
      simp only [afterInner] at h
      split at h
      · rename_i hacc
        refine ⟨hacc, ?_⟩
        unfold applyStrategy at h
        split at h <;> simp at h
        rename_i hs
        exact ⟨hs, h.symm⟩
      · simp at h

/-! Equation lemmas of the model's definitions are realised here (by mentioning them), so that
the property module declares property theorems only. -/
section realise
theorem equations_realised : True := by
  have := @accepts.eq_1
  have := @afterBackup.eq_1
  have := @afterBackup.eq_2
  have := @applyStrategy.eq_1
  have := @resolve.eq_1
  have := @strategyException.eq_1
  have := @strategyFromError.eq_1
  have := @strategyFromReqErr.eq_1
  have := @strategyValue.eq_1
  have := @strategyValueFn.eq_1
  have := @predCalls.eq_1
  have := @afterInner.eq_1
  have := @afterInner.eq_2
  have := @arriveS.eq_1
  have := @pollReady.eq_1
  have := @pollReady.eq_2
  have := @pollReady.eq_3
  have := @arriveEvents.eq_1
  have := @arriveEvents.eq_2
  have := @arriveEvents.eq_3
  have := @answer.eq_1
  have := @backupNotReady.eq_1
  have := @readyErr.eq_1
  trivial
end realise

end TR.Fallback
