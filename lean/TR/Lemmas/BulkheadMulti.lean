import TR.Lemmas.Bulkhead2
/-!
# Bulkhead: several services built from one layer value are independent bulkheads (C01 / C07)

`TR.Bulkhead.MState` is a family of instances of the single-bulkhead model. Two facts carry everything:

* `runM_synced` — the state of service `j` after any multi-service history is the state `run cfg (hist j)` of ONE
  bulkhead that has seen only service `j`'s own operations (plus `tick`s, which move nothing but the serial counter of
  the scripted backend, and the common `adv`s). Every theorem proved for `run cfg ops`, for all `ops`, therefore holds
  for every service of every multi-service history.
* `stepM_other` — an operation on service `i` leaves every field of service `j ≠ i` unchanged except that serial.
-/
namespace TR.Bulkhead

theorem run_snoc (cfg : Cfg) (ops : List Op) (op : Op) : run cfg (ops ++ [op]) = stepS cfg (run cfg ops) op := by
  simp [run, List.foldl_append]

/-- every service is in the state of a single bulkhead that has seen the service's own history -/
def Synced (cfg : Cfg) (ms : MState) : Prop := ∀ j, ms.insts j = run cfg (ms.hist j)

theorem initM_synced (cfg : Cfg) : Synced cfg (initM cfg) := fun _ => rfl

theorem stepM_synced (cfg : Cfg) (ms : MState) (i : Nat) (op : Op) (h : Synced cfg ms) :
    Synced cfg (stepM cfg ms i op) := by
  intro j
  have hj := h j
  have hi := h i
  cases op with
  | adv d => simp only [stepM]; rw [run_snoc, ← hj]
  | tick n => exact hj
  | arrive c sc =>
    simp only [stepM]
    by_cases hji : j = i
    · subst hji; simp only [if_true]; rw [run_snoc, ← hj]
    · simp only [hji, if_false]; rw [run_snoc, ← hj]
  | poll c =>
    simp only [stepM]
    by_cases hji : j = i
    · subst hji; simp only [if_true]; rw [run_snoc, ← hj]
    · simp only [hji, if_false]; rw [run_snoc, ← hj]
  | drop c =>
    simp only [stepM]
    by_cases hji : j = i
    · subst hji; simp only [if_true]; rw [run_snoc, ← hj]
    · simp only [hji, if_false]; rw [run_snoc, ← hj]
  | refuse c kind =>
    simp only [stepM]
    by_cases hji : j = i
    · subst hji; simp only [if_true]; rw [run_snoc, ← hj]
    · simp only [hji, if_false]; rw [run_snoc, ← hj]

theorem foldlM_synced (cfg : Cfg) (mops : List (Nat × Op)) (ms : MState) (h : Synced cfg ms) :
    Synced cfg (mops.foldl (fun ms (io : Nat × Op) => stepM cfg ms io.1 io.2) ms) := by
  induction mops generalizing ms with
  | nil => exact h
  | cons o os ih => exact ih _ (stepM_synced cfg ms o.1 o.2 h)

/-- **Each service of a multi-service history is a single bulkhead with its own history.** -/
theorem runM_synced (cfg : Cfg) (mops : List (Nat × Op)) (j : Nat) :
    (runM cfg mops).insts j = run cfg ((runM cfg mops).hist j) :=
  foldlM_synced cfg mops _ (initM_synced cfg) j

/-- **Independence.** An operation of a caller on service `i` (arrival, refused arrival, poll, cancellation) leaves
the state of every other service unchanged — its free permits, its queue, the permits handed over, the calls in
flight, its deadlines, its event log — except for the serial counter of the scripted backend, which moves by the
number of inner calls the operation started. -/
theorem stepM_other (cfg : Cfg) (ms : MState) (i j : Nat) (op : Op) (hij : j ≠ i) (hop : ∀ d, op ≠ .adv d) :
    ∃ n, (stepM cfg ms i op).insts j = { ms.insts j with serial := (ms.insts j).serial + n } := by
  cases op with
  | adv d => exact absurd rfl (hop d)
  | tick n => exact ⟨0, rfl⟩
  | arrive c sc => exact ⟨(stepS cfg (ms.insts i) (.arrive c sc)).serial - (ms.insts i).serial, by simp only [stepM, hij, if_false]; rfl⟩
  | poll c => exact ⟨(stepS cfg (ms.insts i) (.poll c)).serial - (ms.insts i).serial, by simp only [stepM, hij, if_false]; rfl⟩
  | drop c => exact ⟨(stepS cfg (ms.insts i) (.drop c)).serial - (ms.insts i).serial, by simp only [stepM, hij, if_false]; rfl⟩
  | refuse c kind => exact ⟨(stepS cfg (ms.insts i) (.refuse c kind)).serial - (ms.insts i).serial, by simp only [stepM, hij, if_false]; rfl⟩

/-- Time is common to all services and an advance changes nothing else. -/
theorem stepM_adv (cfg : Cfg) (ms : MState) (i j d : Nat) :
    (stepM cfg ms i (.adv d)).insts j = { ms.insts j with now := (ms.insts j).now + d } := rfl

/-! ## the serial counter of the scripted backend stays common to all services -/

theorem release_serial (s : State) : (release s).serial = s.serial := by
  unfold release; split <;> rfl

theorem pollRunning_serial (s : State) (c : Nat) : (pollRunning s c).serial = s.serial := by
  unfold pollRunning
  split
  · split
    · simp only [finishRunning, emit]; rw [release_serial]
    · rfl
  · rfl

theorem admitCall_serial (s : State) (c : Nat) : (admitCall s c).serial = s.serial + 1 := by
  unfold admitCall; rw [pollRunning_serial]; rfl

theorem stepS_serial_ge (cfg : Cfg) (s : State) (op : Op) : s.serial ≤ (stepS cfg s op).serial := by
  cases op with
  | adv d => exact Nat.le_refl _
  | tick n => exact Nat.le_add_right _ _
  | arrive c sc => simp only [stepS]; split <;> exact Nat.le_refl _
  | refuse c kind => simp only [stepS]; split <;> exact Nat.le_refl _
  | poll c =>
    simp only [stepS]
    split
    · unfold pollFresh
      simp only
      split
      · rw [admitCall_serial]; exact Nat.le_add_right _ _
      · split <;> exact Nat.le_refl _
    · split
      · unfold pollAssigned; rw [admitCall_serial]; exact Nat.le_add_right _ _
      · split
        · unfold pollQueued
          split
          · split <;> exact Nat.le_refl _
          · exact Nat.le_refl _
        · split
          · rw [pollRunning_serial]; exact Nat.le_refl _
          · exact Nat.le_refl _
  | drop c =>
    simp only [stepS]
    split
    · exact Nat.le_refl _
    · split
      · exact Nat.le_refl _
      · split
        · rw [release_serial]; exact Nat.le_refl _
        · split
          · simp only [dropRunning, finishRunning, emit]; rw [release_serial]; exact Nat.le_refl _
          · exact Nat.le_refl _

def SameSerial (ms : MState) : Prop := ∀ i j, (ms.insts i).serial = (ms.insts j).serial

theorem stepM_sameSerial (cfg : Cfg) (ms : MState) (i : Nat) (op : Op) (h : SameSerial ms) :
    SameSerial (stepM cfg ms i op) := by
  have key : ∀ (op : Op) (a : Nat),
      (if a = i then stepS cfg (ms.insts i) op
        else stepS cfg (ms.insts a) (.tick ((stepS cfg (ms.insts i) op).serial - (ms.insts i).serial))).serial
      = (stepS cfg (ms.insts i) op).serial := by
    intro op a
    by_cases ha : a = i
    · simp only [ha, if_true]
    · simp only [ha, if_false]
      show (ms.insts a).serial + ((stepS cfg (ms.insts i) op).serial - (ms.insts i).serial) = _
      have := stepS_serial_ge cfg (ms.insts i) op
      have := h a i
      omega
  intro a b
  cases op with
  | adv d => exact h a b
  | tick n => exact h a b
  | arrive c sc => simp only [stepM]; rw [key, key]
  | poll c => simp only [stepM]; rw [key, key]
  | drop c => simp only [stepM]; rw [key, key]
  | refuse c kind => simp only [stepM]; rw [key, key]

theorem runM_sameSerial (cfg : Cfg) (mops : List (Nat × Op)) : SameSerial (runM cfg mops) := by
  unfold runM
  suffices ∀ ms, SameSerial ms → SameSerial (mops.foldl (fun ms (io : Nat × Op) => stepM cfg ms io.1 io.2) ms) from
    this _ (fun _ _ => rfl)
  induction mops with
  | nil => intro ms h; exact h
  | cons o os ih => intro ms h; exact ih _ (stepM_sameSerial cfg ms o.1 o.2 h)

end TR.Bulkhead
