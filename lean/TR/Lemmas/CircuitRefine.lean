import TR.Lemmas.CircuitWindow
import TR.Spec.Breaker
/-!
# Refinement of the transcribed `Circuit` (incremental counters, evicting deque, pruned records)
to the documented machine `TR.Spec.Breaker` (a view over the recorded outcomes)
-/
namespace TR.Circuit
open TR.Spec

/-- abstraction map: forget the counters, the half-open admission bookkeeping and the mirror -/
def abs (c : Circuit) : Breaker := { st := c.st, hist := c.hist, succ := c.hoSuccesses, since := c.lastChange }

theorem lastN_eq (n : Nat) (l : List Rec) : TR.Spec.lastN n l = TR.Circuit.lastN n l := rfl

theorem abs_transitionTo (c : Circuit) (s : St) (now : Nat) :
    abs (transitionTo c s now).1 = (abs c).goto s now := by
  unfold transitionTo Breaker.goto abs
  simp only
  split <;> simp_all [clearWindow]

/-- what `evaluate_window` computes is the documented trip condition over the documented window -/
theorem evaluate_refines (cfg : Cfg) (now : Nat) (c : Circuit) (hc : CInv cfg c) (hw : WInv cfg now c) :
    abs (evaluate cfg c now).1 = (if (abs c).tripped cfg now then (abs c).goto .opened now else abs c) := by
  unfold evaluate evalOn
  simp only
  by_cases hcb : cfg.countBased = true
  · have hwin := hw.count hcb
    have hstats : stats cfg c = (c.cwin.length, countFail c.cwin, c.succN, countSlow c.cwin) := by
      simp [stats, hcb, hc.totalN, hc.failN, hc.slowN]
    have htr : (abs c).tripped cfg now = shouldOpen cfg c.cwin.length (countFail c.cwin) (countSlow c.cwin) := by
      simp [Breaker.tripped, Breaker.window, hcb, abs, lastN_eq, ← hwin]
    simp only [hcb, if_true, hstats, htr]
    split
    · exact abs_transitionTo c .opened now
    · rfl
  · have hcb' : cfg.countBased = false := by simpa using hcb
    have hfil := cleanup_eq_filter cfg now c hcb' hw
    have hstats : stats cfg (cleanup cfg c now) =
        ((cleanup cfg c now).recs.length, countFail (cleanup cfg c now).recs,
          (cleanup cfg c now).recs.length - countFail (cleanup cfg c now).recs, countSlow (cleanup cfg c now).recs) := by
      simp [stats, hcb']
    have htr : (abs c).tripped cfg now = shouldOpen cfg (cleanup cfg c now).recs.length
        (countFail (cleanup cfg c now).recs) (countSlow (cleanup cfg c now).recs) := by
      simp [Breaker.tripped, Breaker.window, hcb', abs, hfil]
    have habs : abs (cleanup cfg c now) = abs c := rfl
    simp only [hcb', Bool.false_eq_true, if_false, hstats, htr]
    split
    · rw [abs_transitionTo, habs]
    · exact habs

theorem abs_pushOutcome (cfg : Cfg) (c : Circuit) (r : Rec) (now : Nat) :
    abs (pushOutcome cfg c r now) = (abs c).push r := by
  have hf := pushOutcome_frame cfg c r now
  simp only at hf
  obtain ⟨f1, _, f3, _, f5, _, _, _⟩ := hf
  have hh : (pushOutcome cfg c r now).hist = c.hist ++ [r] := by
    unfold pushOutcome; split <;> rfl
  simp [abs, Breaker.push, f1, f3, f5, hh]

theorem abs_bump (c : Circuit) (n m : Nat) :
    abs { c with hoSuccesses := n, ownSucc := m } = { abs c with succ := n } := rfl

/-- `record` in the half-open state, spelled out -/
theorem record_half (cfg : Cfg) (c : Circuit) (fail : Bool) (dur now : Nat) (own : Bool) (hst : c.st = .halfOpen) :
    let c1 := pushOutcome cfg c { t := now, fail := fail, slow := isSlow cfg dur } now
    record cfg c fail dur now own =
      if fail then transitionTo c1 .opened now
      else if c1.hoSuccesses + 1 ≥ cfg.permitted then
        transitionTo { c1 with hoSuccesses := c1.hoSuccesses + 1, ownSucc := if own then c1.ownSucc + 1 else c1.ownSucc } .closed now
      else ({ c1 with hoSuccesses := c1.hoSuccesses + 1, ownSucc := if own then c1.ownSucc + 1 else c1.ownSucc }, []) := by
  have hf := (pushOutcome_frame cfg c { t := now, fail := fail, slow := isSlow cfg dur } now).1
  unfold record
  simp only
  split
  · rfl
  · rename_i h; rw [hf] at h; exact absurd hst (h ·)

/-- `record_success` / `record_failure` refine the documented `record` -/
theorem record_refines (cfg : Cfg) (now : Nat) (c : Circuit) (fail : Bool) (dur : Nat) (own : Bool)
    (hc : CInv cfg c) (hw : WInv cfg now c) :
    abs (record cfg c fail dur now own).1 = (abs c).record cfg fail (isSlow cfg dur) now := by
  have hp := abs_pushOutcome cfg c { t := now, fail := fail, slow := isSlow cfg dur } now
  have hci := pushOutcome_inv cfg c { t := now, fail := fail, slow := isSlow cfg dur } now hc
  have hwi := pushOutcome_winv cfg now c fail (isSlow cfg dur) hc.bounded hw
  unfold Breaker.record
  simp only
  rw [← hp]
  by_cases hh : c.st = .halfOpen
  · have hh' : (abs (pushOutcome cfg c { t := now, fail := fail, slow := isSlow cfg dur } now)).st = .halfOpen := by
      rw [hp]; exact hh
    rw [if_pos hh', record_half cfg c fail dur now own hh]
    unfold Breaker.recordHalf
    cases fail with
    | true => simp only [if_true]; exact abs_transitionTo _ _ _
    | false =>
      simp only [Bool.false_eq_true, if_false]
      have hsucc : (abs (pushOutcome cfg c { t := now, fail := false, slow := isSlow cfg dur } now)).succ
          = (pushOutcome cfg c { t := now, fail := false, slow := isSlow cfg dur } now).hoSuccesses := rfl
      rw [hsucc]
      split
      · rw [abs_transitionTo, abs_bump]
      · rw [abs_bump]
  · have hh' : ¬ (abs (pushOutcome cfg c { t := now, fail := fail, slow := isSlow cfg dur } now)).st = .halfOpen := by
      rw [hp]; exact hh
    rw [if_neg hh', record_st_not_half cfg c fail dur now own hh, evaluate_refines cfg now _ hci hwi]

/-- `try_acquire` refines the documented arrival of a call -/
theorem tryAcquire_refines (cfg : Cfg) (now : Nat) (c : Circuit) :
    abs (tryAcquire cfg c now).1 = ((abs c).arrive cfg now).1 ∧
    (c.st ≠ .halfOpen → (tryAcquire cfg c now).2.1 = ((abs c).arrive cfg now).2) ∧
    (c.st = .halfOpen → (tryAcquire cfg c now).2.1 = decide (c.hoAdmitted < cfg.permitted)) := by
  have hacq := tryAcquire_acq cfg c now
  unfold Breaker.arrive
  cases hacq with
  | closed h hc hok he =>
    have : (abs c).st = .closed := h
    simp only [this]
    exact ⟨by rw [hc], fun _ => hok, fun hh => by rw [h] at hh; cases hh⟩
  | toHalf h hw hok he h2 h3 h4 h5 h6 h7 h8 =>
    have hst : (abs c).st = .opened := h
    have hw' : now - (abs c).since ≥ cfg.waitMs := hw
    simp only [hst, hw', if_true]
    refine ⟨?_, fun _ => hok, fun hh => by rw [h] at hh; cases hh⟩
    unfold tryAcquire
    simp only [h, hw, if_true]
    have := abs_transitionTo c .halfOpen now
    rw [← this]; rfl
  | rejectOpen h hw hc hok he =>
    have hst : (abs c).st = .opened := h
    have hw' : ¬ now - (abs c).since ≥ cfg.waitMs := by show ¬ now - c.lastChange ≥ cfg.waitMs; omega
    simp only [hst, hw', if_false]
    exact ⟨by rw [hc], fun _ => hok, fun hh => by rw [h] at hh; cases hh⟩
  | trial h hlt hok he hc =>
    have hst : (abs c).st = .halfOpen := h
    simp only [hst]
    exact ⟨by rw [hc]; rfl, fun hh => absurd h hh, fun _ => by rw [hok]; simp [hlt]⟩
  | rejectHalf h hge hc hok he =>
    have hst : (abs c).st = .halfOpen := h
    simp only [hst]
    exact ⟨by rw [hc], fun hh => absurd h hh, fun _ => by rw [hok]; simp [hge]⟩

theorem reset_refines (c : Circuit) (now : Nat) : abs (reset c now).1 = (abs c).reset now := by
  unfold reset Breaker.reset
  rw [← abs_transitionTo]
  rfl

end TR.Circuit

namespace TR.Circuit
open TR.Spec

/-! ## sequential histories -/

/-- the alphabet of C04's histories: a call that completes (ok/failed, after `dur` ms) before the
next action, time passing, and the manual overrides -/
inductive Act
  | call (fail : Bool) (dur : Nat)
  | wait (ms : Nat)
  | forceOpen
  | forceClosed
  | reset
deriving Repr, DecidableEq

/-- one action on the transcribed circuit: `try_acquire`, then (if admitted) `record` after `dur` ms -/
def seqStep (cfg : Cfg) (p : Circuit × Nat) : Act → Circuit × Nat
  | .call fail dur =>
      if (tryAcquire cfg p.1 p.2).2.1 then
        ((record cfg (tryAcquire cfg p.1 p.2).1 fail dur (p.2 + dur) true).1, p.2 + dur)
      else ((tryAcquire cfg p.1 p.2).1, p.2)
  | .wait ms => (p.1, p.2 + ms)
  | .forceOpen => ((transitionTo p.1 .opened p.2).1, p.2)
  | .forceClosed => ((transitionTo p.1 .closed p.2).1, p.2)
  | .reset => ((reset p.1 p.2).1, p.2)

/-- the same action on the documented machine -/
def specStep (cfg : Cfg) (p : Breaker × Nat) : Act → Breaker × Nat
  | .call fail dur =>
      if (p.1.arrive cfg p.2).2 then ((p.1.arrive cfg p.2).1.record cfg fail (isSlow cfg dur) (p.2 + dur), p.2 + dur)
      else ((p.1.arrive cfg p.2).1, p.2)
  | .wait ms => (p.1, p.2 + ms)
  | .forceOpen => (p.1.forceOpen p.2, p.2)
  | .forceClosed => (p.1.forceClosed p.2, p.2)
  | .reset => (p.1.reset p.2, p.2)

def seqRun (cfg : Cfg) (acts : List Act) : Circuit × Nat := acts.foldl (seqStep cfg) ({}, 0)
def specRun (cfg : Cfg) (acts : List Act) : Breaker × Nat := acts.foldl (specStep cfg) ({}, 0)

/-- what holds between two actions of a sequential history -/
structure SeqInv (cfg : Cfg) (p : Circuit × Nat) : Prop where
  cinv : CInv cfg p.1
  winv : WInv cfg p.2 p.1
  quiet : p.1.st = .halfOpen → p.1.hoAdmitted = p.1.hoSuccesses ∧ p.1.hoSuccesses < cfg.permitted

theorem seqStep_inv (cfg : Cfg) (p : Circuit × Nat) (a : Act) (h : SeqInv cfg p) : SeqInv cfg (seqStep cfg p a) := by
  cases a with
  | call fail dur =>
    simp only [seqStep]
    have hacq := tryAcquire_acq cfg p.1 p.2
    have hci := tryAcquire_inv cfg p.1 p.2 h.cinv
    have hwi := tryAcquire_winv cfg p.2 p.1 h.winv
    split
    · rename_i hok
      have hwi' := winv_mono cfg p.2 (p.2 + dur) _ (Nat.le_add_right _ _) hwi
      refine ⟨record_inv cfg _ fail dur _ true hci, record_winv cfg _ _ fail dur true hci.bounded hwi', ?_⟩
      intro hst
      have heff := record_eff cfg (tryAcquire cfg p.1 p.2).1 fail dur (p.2 + dur) true
      simp only at heff
      obtain ⟨he1, he2, he3⟩ := heff
      by_cases hev : (record cfg (tryAcquire cfg p.1 p.2).1 fail dur (p.2 + dur) true).2 = []
      · cases he1 with
        | moved s' h0 h1 => rw [h1] at hev; cases hev
        | stay h1 h2 h3 h4 h5 =>
          -- stayed half-open: a trial succeeded without reaching `permitted`
          have hst0 : (tryAcquire cfg p.1 p.2).1.st = .halfOpen := by rw [← h2]; exact hst
          obtain ⟨g1, g2, g3⟩ := he2 hev
          have hfail := g3 hst0
          subst hfail
          have hrh := record_half cfg (tryAcquire cfg p.1 p.2).1 false dur (p.2 + dur) true hst0
          simp only [Bool.false_eq_true, if_false] at hrh
          have hfr := pushOutcome_frame cfg (tryAcquire cfg p.1 p.2).1 { t := p.2 + dur, fail := false, slow := isSlow cfg dur } (p.2 + dur)
          simp only at hfr
          obtain ⟨_, _, _, f4, f5, _, _, _⟩ := hfr
          -- the admission itself
          have hadm : (tryAcquire cfg p.1 p.2).1.hoAdmitted = (tryAcquire cfg p.1 p.2).1.hoSuccesses + 1 := by
            cases hacq with
            | closed hh hc => rw [hc] at hst0; rw [hh] at hst0; cases hst0
            | toHalf hh hw hok' he h2' h3' h4' => rw [h3', h4']
            | rejectOpen hh hw hc hok' => rw [hok'] at hok; cases hok
            | trial hh hlt hok' he hc => rw [hc]; simp; exact (h.quiet hh).1
            | rejectHalf hh hge hc hok' => rw [hok'] at hok; cases hok
          rw [hrh] at hst ⊢
          split
          · rename_i hge
            rw [if_pos hge] at hst
            rw [transitionTo_st] at hst; cases hst
          · rename_i hlt
            simp only
            rw [f4, f5]
            exact ⟨hadm, by rw [f5] at hlt; omega⟩
      · exact absurd hst (he3 hev)
    · rename_i hok
      refine ⟨hci, hwi, ?_⟩
      cases hacq with
      | closed hh hc hok' => rw [hok'] at hok; exact absurd rfl hok
      | toHalf hh hw hok' => rw [hok'] at hok; exact absurd rfl hok
      | rejectOpen hh hw hc hok' he => rw [hc]; exact h.quiet
      | trial hh hlt hok' => rw [hok'] at hok; exact absurd rfl hok
      | rejectHalf hh hge hc hok' he => rw [hc]; exact h.quiet
  | wait ms =>
    exact ⟨h.cinv, winv_mono cfg p.2 (p.2 + ms) p.1 (Nat.le_add_right _ _) h.winv, h.quiet⟩
  | forceOpen =>
    refine ⟨transitionTo_inv cfg _ _ _ h.cinv, transitionTo_winv cfg p.2 p.1 _ h.winv, ?_⟩
    intro hst; simp only [seqStep] at hst; rw [transitionTo_st] at hst; cases hst
  | forceClosed =>
    refine ⟨transitionTo_inv cfg _ _ _ h.cinv, transitionTo_winv cfg p.2 p.1 _ h.winv, ?_⟩
    intro hst; simp only [seqStep] at hst; rw [transitionTo_st] at hst; cases hst
  | reset =>
    refine ⟨reset_inv cfg _ _ h.cinv, winv_clear cfg p.2 _, ?_⟩
    intro hst
    have : (reset p.1 p.2).1.st = .closed := by
      unfold reset; show (transitionTo p.1 .closed p.2).1.st = _; exact transitionTo_st ..
    simp only [seqStep] at hst; rw [this] at hst; cases hst

/-- one action: the abstraction of the circuit after the action is the documented machine after it -/
theorem seqStep_refines (cfg : Cfg) (p : Circuit × Nat) (a : Act) (h : SeqInv cfg p) :
    (abs (seqStep cfg p a).1, (seqStep cfg p a).2) = specStep cfg (abs p.1, p.2) a := by
  cases a with
  | call fail dur =>
    simp only [seqStep, specStep]
    have hr := tryAcquire_refines cfg p.2 p.1
    obtain ⟨r1, r2, r3⟩ := hr
    have hok : (tryAcquire cfg p.1 p.2).2.1 = ((abs p.1).arrive cfg p.2).2 := by
      by_cases hh : p.1.st = .halfOpen
      · rw [r3 hh]
        have hq := h.quiet hh
        have hlt : p.1.hoAdmitted < cfg.permitted := by omega
        have hst : (abs p.1).st = .halfOpen := hh
        simp [Breaker.arrive, hst, hlt]
      · exact r2 hh
    rw [← hok]
    split
    · have hci := tryAcquire_inv cfg p.1 p.2 h.cinv
      have hwi := winv_mono cfg p.2 (p.2 + dur) _ (Nat.le_add_right _ _) (tryAcquire_winv cfg p.2 p.1 h.winv)
      rw [record_refines cfg (p.2 + dur) _ fail dur true hci hwi, r1]
    · rw [r1]
  | wait ms => rfl
  | forceOpen => simp only [seqStep, specStep, Breaker.forceOpen]; rw [abs_transitionTo]
  | forceClosed => simp only [seqStep, specStep, Breaker.forceClosed]; rw [abs_transitionTo]
  | reset => simp only [seqStep, specStep]; rw [reset_refines]

theorem seq_refines_from (cfg : Cfg) (acts : List Act) (p : Circuit × Nat) (h : SeqInv cfg p) :
    (abs (acts.foldl (seqStep cfg) p).1, (acts.foldl (seqStep cfg) p).2) = acts.foldl (specStep cfg) (abs p.1, p.2) := by
  induction acts generalizing p with
  | nil => rfl
  | cons a as ih =>
    simp only [List.foldl_cons]
    rw [ih _ (seqStep_inv cfg p a h), seqStep_refines cfg p a h]

theorem seq_init (cfg : Cfg) : SeqInv cfg (({} : Circuit), 0) :=
  ⟨init_cinv cfg, ⟨fun _ => by simp [lastN], fun _ => ⟨[], by simp⟩, by simp, by simp⟩, fun h => by cases h⟩

end TR.Circuit
