import TR.Model.BudgetTrace
import TR.Lemmas.Budget
/-!
# Every trace the protocol checker accepts satisfies conservation, the cap and linearizability
-/
namespace TR.Budget

/-- observable summary of a trace, independent of the checker -/
def grants : List Item → Nat
  | [] => 0
  | .fin _ (some true) :: tl => grants tl + 1
  | _ :: tl => grants tl

def depositCalls : List Item → Nat
  | [] => 0
  | .begin _ .D :: tl => depositCalls tl + 1
  | _ :: tl => depositCalls tl

/-- the value the tokens cell holds after the trace (each entry records the value it left behind) -/
def finalTokens (t0 : Nat) : List Item → Nat
  | [] => t0
  | .tok _ _ _ new _ :: tl => finalTokens new tl
  | _ :: tl => finalTokens t0 tl

structure CInv (cfg : Cfg) (cs : CS) : Prop where
  cons : cs.effW * cfg.cost + cs.tokens ≤ cfg.initial + cs.effD * cfg.amount
  cap  : cs.tokens ≤ cfg.maxTokens
  lim  : cs.limit ≤ cfg.maxLimit
  retW : cs.retTrue + cs.openWEff = cs.effW
  depA : cs.effD = cs.finD + cs.openDEff
  depB : cs.begunD = cs.finD + cs.openDEff + cs.openDNo
  lin  : replay cfg cfg.initial cs.lin = some cs.tokens

theorem cinit_inv (cfg : Cfg) (hwf : WF cfg) : CInv cfg (cinit cfg) :=
  ⟨by simp [cinit], hwf.init_le, by simp [cinit], rfl, rfl, rfl, by simp [cinit, replay]⟩

theorem tokRead_inv (cfg : Cfg) (cs cs' : CS) (tid v : Nat) (rf nw : Bool) (hv : v = cs.tokens) (h : CInv cfg cs)
    (hs : tokRead cfg cs tid v rf nw = some cs') :
    CInv cfg cs' ∧ cs'.tokens = cs.tokens ∧ cs'.retTrue = cs.retTrue ∧ cs'.begunD = cs.begunD := by
  unfold tokRead at hs
  split at hs
  · cases hs; exact ⟨h, rfl, rfl, rfl⟩
  · split at hs
    · rename_i hc
      cases hs
      refine ⟨⟨h.cons, h.cap, h.lim, h.retW, h.depA, h.depB, ?_⟩, rfl, rfl, rfl⟩
      show replay cfg cfg.initial (cs.lin ++ [_]) = some cs.tokens
      rw [replay_append, h.lin]
      have hlt : cs.tokens < cfg.cost := by rw [← hv]; exact hc.2.2.2.2
      simp [seqStep, hlt]
    · split at hs
      · rename_i hc
        cases hs
        obtain ⟨_, _, _, hno, _⟩ := hc
        refine ⟨⟨?_, h.cap, h.lim, h.retW, ?_, ?_, ?_⟩, rfl, rfl, rfl⟩
        · show cs.effW * cfg.cost + cs.tokens ≤ cfg.initial + (cs.effD + 1) * cfg.amount
          have := h.cons
          rw [Nat.add_mul, Nat.one_mul]; omega
        · show cs.effD + 1 = cs.finD + (cs.openDEff + 1)
          have := h.depA; omega
        · show cs.begunD = cs.finD + (cs.openDEff + 1) + (cs.openDNo - 1)
          have := h.depB; omega
        · show replay cfg cfg.initial (cs.lin ++ [_]) = some cs.tokens
          rw [replay_append, h.lin]
          have : min (cs.tokens + cfg.amount) v = cs.tokens := by rw [hv]; omega
          simp [seqStep, this]
      · cases hs; exact ⟨h, rfl, rfl, rfl⟩

theorem tokWrite_inv (cfg : Cfg) (cs cs' : CS) (tid : Nat) (k : AKind) (new : Nat) (h : CInv cfg cs)
    (hs : tokWrite cfg cs tid k new = some cs') :
    CInv cfg cs' ∧ cs'.tokens = new ∧ cs'.retTrue = cs.retTrue ∧ cs'.begunD = cs.begunD := by
  unfold tokWrite at hs
  split at hs
  · cases hs
  · split at hs
    · cases hs
    · split at hs
      · cases hs
      · split at hs
        · -- withdrawal
          split at hs
          · rename_i hc
            cases hs
            obtain ⟨hge, hnew⟩ := hc
            refine ⟨⟨?_, ?_, h.lim, ?_, h.depA, h.depB, ?_⟩, rfl, rfl, rfl⟩
            · show (cs.effW + 1) * cfg.cost + new ≤ cfg.initial + cs.effD * cfg.amount
              have := h.cons
              rw [Nat.add_mul, Nat.one_mul, hnew]; omega
            · show new ≤ cfg.maxTokens
              have := h.cap; omega
            · show cs.retTrue + (cs.openWEff + 1) = cs.effW + 1
              have := h.retW; omega
            · show replay cfg cfg.initial (cs.lin ++ [_]) = some new
              rw [replay_append, h.lin]
              have hnlt : ¬ cs.tokens < cfg.cost := by omega
              simp [seqStep, hnlt, hnew]
          · cases hs
        · -- deposit
          split at hs
          · rename_i hc
            cases hs
            obtain ⟨hle, hmax, hno, _⟩ := hc
            refine ⟨⟨?_, hmax, h.lim, h.retW, ?_, ?_, ?_⟩, rfl, rfl, rfl⟩
            · show cs.effW * cfg.cost + new ≤ cfg.initial + (cs.effD + 1) * cfg.amount
              have := h.cons
              rw [Nat.add_mul, Nat.one_mul]; omega
            · show cs.effD + 1 = cs.finD + (cs.openDEff + 1)
              have := h.depA; omega
            · show cs.begunD = cs.finD + (cs.openDEff + 1) + (cs.openDNo - 1)
              have := h.depB; omega
            · show replay cfg cfg.initial (cs.lin ++ [_]) = some new
              rw [replay_append, h.lin]
              simp [seqStep, Nat.min_eq_right hle]
          · cases hs

/-- what one accepted entry does to the observable summary -/
def dGrant : Item → Nat
  | .fin _ (some true) => 1
  | _ => 0

def dDep : Item → Nat
  | .begin _ .D => 1
  | _ => 0

def dTok (t0 : Nat) : Item → Nat
  | .tok _ _ _ new _ => new
  | _ => t0

theorem cstep_inv (cfg : Cfg) (cs cs' : CS) (it : Item) (rest : List Item) (h : CInv cfg cs)
    (hs : cstep cfg cs it rest = some cs') :
    CInv cfg cs' ∧ cs'.tokens = dTok cs.tokens it ∧ cs'.retTrue = cs.retTrue + dGrant it ∧
      cs'.begunD = cs.begunD + dDep it := by
  cases it with
  | begin tid op =>
    simp only [cstep] at hs
    split at hs
    · cases hs
    · cases op with
      | W =>
        cases hs
        exact ⟨⟨h.cons, h.cap, h.lim, h.retW, h.depA, h.depB, h.lin⟩, rfl, rfl, rfl⟩
      | D =>
        cases hs
        refine ⟨⟨h.cons, h.cap, h.lim, h.retW, h.depA, ?_, h.lin⟩, rfl, rfl, rfl⟩
        show cs.begunD + 1 = cs.finD + cs.openDEff + (cs.openDNo + 1)
        have := h.depB; omega
  | fin tid res =>
    simp only [cstep] at hs
    split at hs
    · cases hs
    · split at hs
      · -- W returned true
        split at hs
        · rename_i hc
          cases hs
          refine ⟨⟨h.cons, h.cap, h.lim, ?_, h.depA, h.depB, h.lin⟩, rfl, rfl, rfl⟩
          show cs.retTrue + 1 + (cs.openWEff - 1) = cs.effW
          have := h.retW; have := hc.2; omega
        · cases hs
      · -- W returned false
        split at hs
        · cases hs
          exact ⟨⟨h.cons, h.cap, h.lim, h.retW, h.depA, h.depB, h.lin⟩, rfl, rfl, rfl⟩
        · cases hs
      · -- D returned
        split at hs
        · rename_i hc
          cases hs
          refine ⟨⟨h.cons, h.cap, h.lim, h.retW, ?_, ?_, h.lin⟩, rfl, rfl, rfl⟩
          · show cs.effD = cs.finD + 1 + (cs.openDEff - 1)
            have := h.depA; have := hc.2; omega
          · show cs.begunD = cs.finD + 1 + (cs.openDEff - 1) + cs.openDNo
            have := h.depB; have := hc.2; omega
        · cases hs
      · cases hs
  | tok tid k old new ok =>
    simp only [cstep] at hs
    split at hs
    · cases hs
    · rename_i hold
      have hold' : old = cs.tokens := by simpa using hold
      split at hs
      · split at hs
        · rename_i hn
          obtain ⟨hi, ht, hr, hb⟩ := tokRead_inv cfg cs cs' tid old _ _ hold' h hs
          exact ⟨hi, by simp [dTok, ht, hn, hold'], by simp [dGrant, hr], by simp [dDep, hb]⟩
        · cases hs
      · obtain ⟨hi, ht, hr, hb⟩ := tokWrite_inv cfg cs cs' tid k new h hs
        exact ⟨hi, by simp [dTok, ht], by simp [dGrant, hr], by simp [dDep, hb]⟩
  | lim tid k old new ok =>
    simp only [cstep] at hs
    split at hs
    · cases hs
    · split at hs
      · split at hs
        · cases hs
          exact ⟨h, rfl, rfl, rfl⟩
        · cases hs
      · split at hs
        · rename_i hc
          cases hs
          exact ⟨⟨h.cons, h.cap, hc.2, h.retW, h.depA, h.depB, h.lin⟩, rfl, rfl, rfl⟩
        · cases hs

theorem grants_cons (it : Item) (tl : List Item) : grants (it :: tl) = dGrant it + grants tl := by
  cases it with
  | fin tid res =>
    cases res with
    | none => simp [grants, dGrant]
    | some b => cases b <;> simp [grants, dGrant, Nat.add_comm]
  | _ => simp [grants, dGrant]

theorem depositCalls_cons (it : Item) (tl : List Item) : depositCalls (it :: tl) = dDep it + depositCalls tl := by
  cases it with
  | begin tid op => cases op <;> simp [depositCalls, dDep, Nat.add_comm]
  | _ => simp [depositCalls, dDep]

theorem finalTokens_cons (t0 : Nat) (it : Item) (tl : List Item) :
    finalTokens t0 (it :: tl) = finalTokens (dTok t0 it) tl := by
  cases it <;> simp [finalTokens, dTok]

theorem crun_inv (cfg : Cfg) (tr : List Item) (cs cs' : CS) (h : CInv cfg cs) (hs : crun cfg cs tr = some cs') :
    CInv cfg cs' ∧ cs'.tokens = finalTokens cs.tokens tr ∧ cs'.retTrue = cs.retTrue + grants tr ∧
      cs'.begunD = cs.begunD + depositCalls tr := by
  induction tr generalizing cs with
  | nil =>
    simp only [crun] at hs
    cases hs
    exact ⟨h, rfl, rfl, rfl⟩
  | cons it tl ih =>
    simp only [crun] at hs
    split at hs
    · cases hs
    · rename_i cs1 h1
      obtain ⟨hi, ht, hr, hb⟩ := cstep_inv cfg cs cs1 it tl h h1
      obtain ⟨hi', ht', hr', hb'⟩ := ih cs1 hi hs
      refine ⟨hi', ?_, ?_, ?_⟩
      · rw [ht', ht, finalTokens_cons]
      · rw [hr', hr, grants_cons]; omega
      · rw [hb', hb, depositCalls_cons]; omega

/-- the state the accepted run of `a ++ b` is in after `a` -/
theorem crun_split (cfg : Cfg) (a b : List Item) (cs cs' : CS) (h : CInv cfg cs) (hs : crun cfg cs (a ++ b) = some cs') :
    ∃ cs1, CInv cfg cs1 ∧ cs1.tokens = finalTokens cs.tokens a ∧ cs1.retTrue = cs.retTrue + grants a ∧
      cs1.begunD = cs.begunD + depositCalls a ∧ crun cfg cs1 b = some cs' := by
  induction a generalizing cs with
  | nil => exact ⟨cs, h, rfl, rfl, rfl, hs⟩
  | cons it tl ih =>
    simp only [List.cons_append, crun] at hs
    split at hs
    · cases hs
    · rename_i cs1 h1
      obtain ⟨hi, ht, hr, hb⟩ := cstep_inv cfg cs cs1 it (tl ++ b) h h1
      obtain ⟨cs2, hi2, ht2, hr2, hb2, hrun⟩ := ih cs1 hi hs
      refine ⟨cs2, hi2, ?_, ?_, ?_, hrun⟩
      · rw [ht2, ht, finalTokens_cons]
      · rw [hr2, hr, grants_cons]; omega
      · rw [hb2, hb, depositCalls_cons]; omega

end TR.Budget
