import TR.Model.Coalesce
/-!
# Coalesce: the invariant of every reachable state and its consequences (helper lemmas for C11)
-/
namespace TR.Coalesce

/-! ## association lists -/

theorem lookup_cons {α : Type} (a : Nat) (v : α) (l : List (Nat × α)) (b : Nat) :
    lookup ((a, v) :: l) b = if a = b then some v else lookup l b := rfl

theorem lookup_cons_self {α : Type} (a : Nat) (v : α) (l : List (Nat × α)) :
    lookup ((a, v) :: l) a = some v := by simp [lookup_cons]

theorem lookup_cons_ne {α : Type} {a b : Nat} (v : α) (l : List (Nat × α)) (h : a ≠ b) :
    lookup ((a, v) :: l) b = lookup l b := by simp [lookup_cons, h]

/-- a fresh key differs from every bound one -/
theorem ne_of_fresh {α : Type} {m : List (Nat × α)} {c l : Nat} {v : α}
    (hc : lookup m c = none) (hl : lookup m l = some v) : c ≠ l := by
  intro h; subst h; rw [hc] at hl; cases hl

theorem regOf_cons (m : List (Nat × Option Nat)) (key : Nat) (o : Option Nat) (key' : Nat) :
    regOf ((key, o) :: m) key' = if key = key' then o else regOf m key' := by
  unfold regOf
  by_cases h : key = key'
  · simp only [lookup_cons, h, if_true]; cases o <;> rfl
  · simp only [lookup_cons, h, if_false]

/-! ## what the log says about a leader's inner call -/

/-- the inner call `k` of leader `l` for `key` finished with the value `r` (ok or error) and the leader itself
returned that value to its own caller (so it did not panic while publishing it) -/
def Delivered (log : List CEv) (l key k : Nat) (r : Res) : Prop :=
  (r = .ok k ∧ CEv.innerDone l key k .ok ∈ log ∧ CEv.result l (.ok k) ∈ log) ∨
  (∃ kd, r = .inner kd k ∧ CEv.innerDone l key k (.err kd) ∈ log ∧ CEv.result l (.inner kd k) ∈ log)

/-- the leader `l` went away without a value: its future was dropped, or its inner call panicked, or its inner
call finished but the leader itself panicked in its completing poll (cloning the value for the waiters unwound) -/
def Cancelled (log : List CEv) (l key k : Nat) : Prop :=
  CEv.innerDrop l key k ∈ log ∨ CEv.innerDone l key k .panic ∈ log ∨
  (CEv.result l .panic ∈ log ∧ ∃ o, CEv.innerDone l key k o ∈ log)

theorem Delivered.mono {log : List CEv} {l key k : Nat} {r : Res} (evs : List CEv)
    (h : Delivered log l key k r) : Delivered (log ++ evs) l key k r := by
  rcases h with ⟨h1, h2, h3⟩ | ⟨kd, h1, h2, h3⟩
  · exact Or.inl ⟨h1, List.mem_append_left _ h2, List.mem_append_left _ h3⟩
  · exact Or.inr ⟨kd, h1, List.mem_append_left _ h2, List.mem_append_left _ h3⟩

theorem Cancelled.mono {log : List CEv} {l key k : Nat} (evs : List CEv)
    (h : Cancelled log l key k) : Cancelled (log ++ evs) l key k := by
  rcases h with h | h | ⟨h, o, ho⟩
  · exact Or.inl (List.mem_append_left _ h)
  · exact Or.inr (Or.inl (List.mem_append_left _ h))
  · exact Or.inr (Or.inr ⟨List.mem_append_left _ h, o, List.mem_append_left _ ho⟩)

/-- what a waiter of leader `l` may legitimately receive -/
def Fair (log : List CEv) (l key k : Nat) (r : Res) : Prop :=
  Delivered log l key k r ∨ (r = .cancelled ∧ Cancelled log l key k)

theorem Fair.mono {log : List CEv} {l key k : Nat} {r : Res} (evs : List CEv)
    (h : Fair log l key k r) : Fair (log ++ evs) l key k r := by
  rcases h with h | ⟨h1, h2⟩
  · exact Or.inl (h.mono evs)
  · exact Or.inr ⟨h1, h2.mono evs⟩

/-! ## the invariant -/

structure Inv (s : State) : Prop where
  /-- a registered key belongs to a live leader of that key -/
  regLeader : ∀ key l, reg s key = some l →
    (∃ k, lookup s.role l = some (.leader key k)) ∧ l ∉ s.gone
  /-- a live leader's key is registered to it -/
  leaderReg : ∀ l key k, lookup s.role l = some (.leader key k) → l ∉ s.gone → reg s key = some l
  goneKnown : ∀ c, c ∈ s.gone → lookup s.role c ≠ none
  /-- a leader's channel is open exactly as long as its future exists -/
  chanOf : ∀ l key k, lookup s.role l = some (.leader key k) →
    ∃ ch, lookup s.chan l = some ch ∧ (ch = .opened ↔ l ∉ s.gone)
  chanKnown : ∀ l, lookup s.role l = none → lookup s.chan l = none
  /-- a waiter subscribed to a leader of its own key -/
  waiterLeader : ∀ c key l, lookup s.role c = some (.waiter key l) →
    ∃ k, lookup s.role l = some (.leader key k)
  /-- a pending waiter has always been woken since its last poll -/
  awakeW : ∀ c key l, lookup s.role c = some (.waiter key l) → c ∉ s.gone →
    lookup s.awake c = some true
  serialLt : ∀ c key k, lookup s.role c = some (.leader key k) → k < s.serial
  sentJust : ∀ l r, lookup s.chan l = some (.sent r) →
    ∃ key k, lookup s.role l = some (.leader key k) ∧ Delivered s.log l key k r
  closedJust : ∀ l, lookup s.chan l = some .closed →
    ∃ key k, lookup s.role l = some (.leader key k) ∧ Cancelled s.log l key k
  resultW : ∀ c key l r, lookup s.role c = some (.waiter key l) → CEv.result c r ∈ s.log →
    ∃ k, lookup s.role l = some (.leader key k) ∧ Fair s.log l key k r
  callLeader : ∀ c key k, CEv.innerCall c key k ∈ s.log → lookup s.role c = some (.leader key k)
  resultKnown : ∀ c r, CEv.result c r ∈ s.log → lookup s.role c ≠ none

theorem init_inv : Inv init := by
  refine ⟨?_, ?_, ?_, ?_, ?_, ?_, ?_, ?_, ?_, ?_, ?_, ?_, ?_⟩ <;> intros <;> simp_all [init, reg, regOf, lookup]

/-- changes that touch neither roles, the map, `gone`, the channels nor the log -/
theorem inv_frame {s s' : State} (h : Inv s)
    (h1 : s'.inflight = s.inflight) (h2 : s'.role = s.role) (h3 : s'.gone = s.gone)
    (h4 : s'.chan = s.chan) (h5 : s'.serial = s.serial) (h6 : s'.log = s.log)
    (h7 : ∀ c, lookup s.awake c = some true → lookup s'.awake c = some true) : Inv s' := by
  have hreg : ∀ key, reg s' key = reg s key := fun key => by unfold reg; rw [h1]
  refine ⟨?_, ?_, ?_, ?_, ?_, ?_, ?_, ?_, ?_, ?_, ?_, ?_, ?_⟩
  · intro key l; rw [hreg, h2, h3]; exact h.regLeader key l
  · intro l key k; rw [hreg, h2, h3]; exact h.leaderReg l key k
  · intro c; rw [h2, h3]; exact h.goneKnown c
  · intro l key k; rw [h2, h3, h4]; exact h.chanOf l key k
  · intro l; rw [h2, h4]; exact h.chanKnown l
  · intro c key l; rw [h2]; exact h.waiterLeader c key l
  · intro c key l; rw [h2, h3]; intro a b; exact h7 c (h.awakeW c key l a b)
  · intro c key k; rw [h2, h5]; exact h.serialLt c key k
  · intro l r; rw [h2, h4, h6]; exact h.sentJust l r
  · intro l; rw [h2, h4, h6]; exact h.closedJust l
  · intro c key l r; rw [h2, h6]; exact h.resultW c key l r
  · intro c key k; rw [h2, h6]; exact h.callLeader c key k
  · intro c r; rw [h2, h6]; exact h.resultKnown c r

/-- binding a fresh caller leaves every existing binding as it is -/
theorem role_ext {α : Type} {m : List (Nat × α)} {c l : Nat} {v : α} (w : α)
    (hc : lookup m c = none) (hl : lookup m l = some v) : lookup ((c, w) :: m) l = some v := by
  rw [lookup_cons_ne _ _ (ne_of_fresh hc hl)]; exact hl

theorem role_inv {α : Type} {m : List (Nat × α)} {c l : Nat} {v w : α}
    (h : lookup ((c, w) :: m) l = some v) : (c = l ∧ w = v) ∨ (c ≠ l ∧ lookup m l = some v) := by
  by_cases hcl : c = l
  · left; subst hcl; rw [lookup_cons_self] at h; exact ⟨rfl, Option.some.inj h⟩
  · right; rw [lookup_cons_ne _ _ hcl] at h; exact ⟨hcl, h⟩

theorem fresh_not_gone {s : State} (h : Inv s) {c : Nat} (hc : lookup s.role c = none) : c ∉ s.gone :=
  fun hg => h.goneKnown c hg hc

/-- `try_join` found the key registered -/
theorem inv_join {s s' : State} {c key ldr : Nat} (h : Inv s)
    (hc : lookup s.role c = none) (hr : reg s key = some ldr)
    (e1 : s'.inflight = s.inflight) (e2 : s'.role = (c, .waiter key ldr) :: s.role)
    (e3 : s'.gone = s.gone) (e4 : s'.chan = s.chan) (e5 : s'.serial = s.serial)
    (e6 : s'.log = s.log) (e7 : s'.awake = (c, true) :: s.awake) : Inv s' := by
  have hreg : ∀ key, reg s' key = reg s key := fun key => by unfold reg; rw [e1]
  refine ⟨?_, ?_, ?_, ?_, ?_, ?_, ?_, ?_, ?_, ?_, ?_, ?_, ?_⟩
  · intro key' l hl; rw [hreg] at hl; rw [e2, e3]
    obtain ⟨⟨k, hk⟩, hg⟩ := h.regLeader key' l hl
    exact ⟨⟨k, role_ext _ hc hk⟩, hg⟩
  · intro l key' k hl hg; rw [e2] at hl; rw [e3] at hg; rw [hreg]
    rcases role_inv hl with ⟨_, hw⟩ | ⟨_, hl'⟩
    · cases hw
    · exact h.leaderReg l key' k hl' hg
  · intro x hx; rw [e3] at hx; rw [e2, lookup_cons]
    split
    · simp
    · exact h.goneKnown x hx
  · intro l key' k hl; rw [e2] at hl; rw [e3, e4]
    rcases role_inv hl with ⟨_, hw⟩ | ⟨_, hl'⟩
    · cases hw
    · exact h.chanOf l key' k hl'
  · intro l hl; rw [e2, lookup_cons] at hl; rw [e4]
    split at hl
    · cases hl
    · exact h.chanKnown l hl
  · intro x key' l hx; rw [e2] at hx ⊢
    rcases role_inv hx with ⟨_, hw⟩ | ⟨_, hx'⟩
    · cases hw
      obtain ⟨⟨k, hk⟩, _⟩ := h.regLeader key ldr hr
      exact ⟨k, role_ext _ hc hk⟩
    · obtain ⟨k, hk⟩ := h.waiterLeader x key' l hx'
      exact ⟨k, role_ext _ hc hk⟩
  · intro x key' l hx hg; rw [e2] at hx; rw [e3] at hg; rw [e7]
    rcases role_inv hx with ⟨hcx, _⟩ | ⟨hcx, hx'⟩
    · subst hcx; exact lookup_cons_self ..
    · rw [lookup_cons_ne _ _ hcx]; exact h.awakeW x key' l hx' hg
  · intro x key' k hx; rw [e2] at hx; rw [e5]
    rcases role_inv hx with ⟨_, hw⟩ | ⟨_, hx'⟩
    · cases hw
    · exact h.serialLt x key' k hx'
  · intro l r hl; rw [e4] at hl; rw [e2, e6]
    obtain ⟨key', k, hk, hd⟩ := h.sentJust l r hl
    exact ⟨key', k, role_ext _ hc hk, hd⟩
  · intro l hl; rw [e4] at hl; rw [e2, e6]
    obtain ⟨key', k, hk, hd⟩ := h.closedJust l hl
    exact ⟨key', k, role_ext _ hc hk, hd⟩
  · intro x key' l r hx hres; rw [e2] at hx; rw [e6] at hres; rw [e2, e6]
    rcases role_inv hx with ⟨hcx, _⟩ | ⟨_, hx'⟩
    · subst hcx; exact absurd hc (h.resultKnown c r hres)
    · obtain ⟨k, hk, hf⟩ := h.resultW x key' l r hx' hres
      exact ⟨k, role_ext _ hc hk, hf⟩
  · intro x key' k hx; rw [e6] at hx; rw [e2]
    exact role_ext _ hc (h.callLeader x key' k hx)
  · intro x r hx; rw [e6] at hx; rw [e2, lookup_cons]
    split
    · simp
    · exact h.resultKnown x r hx

theorem joinWaiter_inv {s : State} {c key ldr : Nat} (h : Inv s)
    (hc : lookup s.role c = none) (hr : reg s key = some ldr) : Inv (joinWaiter s c key ldr) :=
  inv_join h hc hr rfl rfl rfl rfl rfl rfl rfl

/-- `try_join` registered the key; the inner service is called -/
theorem inv_lead {s s' : State} {c key : Nat} (h : Inv s)
    (hc : lookup s.role c = none) (hr : reg s key = none)
    (e1 : s'.inflight = (key, some c) :: s.inflight)
    (e2 : s'.role = (c, .leader key s.serial) :: s.role)
    (e3 : s'.gone = s.gone) (e4 : s'.chan = (c, .opened) :: s.chan)
    (e5 : s'.serial = s.serial + 1)
    (e6 : s'.log = s.log ++ [.innerCall c key s.serial]) (e7 : s'.awake = s.awake) : Inv s' := by
  have hreg : ∀ key', reg s' key' = if key = key' then some c else reg s key' :=
    fun key' => by unfold reg; rw [e1, regOf_cons]
  have hcg : c ∉ s.gone := fresh_not_gone h hc
  refine ⟨?_, ?_, ?_, ?_, ?_, ?_, ?_, ?_, ?_, ?_, ?_, ?_, ?_⟩
  · intro key' l hl; rw [hreg] at hl; rw [e2, e3]
    split at hl
    · rename_i hk; cases hl; subst hk
      exact ⟨⟨s.serial, lookup_cons_self ..⟩, hcg⟩
    · obtain ⟨⟨k, hk⟩, hg⟩ := h.regLeader key' l hl
      exact ⟨⟨k, role_ext _ hc hk⟩, hg⟩
  · intro l key' k hl hg; rw [e2] at hl; rw [e3] at hg; rw [hreg]
    rcases role_inv hl with ⟨hcl, hw⟩ | ⟨_, hl'⟩
    · cases hw; subst hcl; simp
    · have := h.leaderReg l key' k hl' hg
      split
      · rename_i hk; subst hk; rw [hr] at this; cases this
      · exact this
  · intro x hx; rw [e3] at hx; rw [e2, lookup_cons]
    split
    · simp
    · exact h.goneKnown x hx
  · intro l key' k hl; rw [e2] at hl; rw [e3, e4]
    rcases role_inv hl with ⟨hcl, _⟩ | ⟨hcl, hl'⟩
    · subst hcl; exact ⟨.opened, lookup_cons_self .., by simp [hcg]⟩
    · rw [lookup_cons_ne _ _ hcl]; exact h.chanOf l key' k hl'
  · intro l hl; rw [e2, lookup_cons] at hl; rw [e4, lookup_cons]
    split at hl
    · cases hl
    · rename_i hcl; simp only [hcl, if_false]; exact h.chanKnown l hl
  · intro x key' l hx; rw [e2] at hx ⊢
    rcases role_inv hx with ⟨_, hw⟩ | ⟨_, hx'⟩
    · cases hw
    · obtain ⟨k, hk⟩ := h.waiterLeader x key' l hx'
      exact ⟨k, role_ext _ hc hk⟩
  · intro x key' l hx hg; rw [e2] at hx; rw [e3] at hg; rw [e7]
    rcases role_inv hx with ⟨_, hw⟩ | ⟨_, hx'⟩
    · cases hw
    · exact h.awakeW x key' l hx' hg
  · intro x key' k hx; rw [e2] at hx; rw [e5]
    rcases role_inv hx with ⟨_, hw⟩ | ⟨_, hx'⟩
    · cases hw; omega
    · have := h.serialLt x key' k hx'; omega
  · intro l r hl; rw [e4] at hl; rw [e2, e6]
    rcases role_inv hl with ⟨_, hw⟩ | ⟨_, hl'⟩
    · cases hw
    · obtain ⟨key', k, hk, hd⟩ := h.sentJust l r hl'
      exact ⟨key', k, role_ext _ hc hk, hd.mono _⟩
  · intro l hl; rw [e4] at hl; rw [e2, e6]
    rcases role_inv hl with ⟨_, hw⟩ | ⟨_, hl'⟩
    · cases hw
    · obtain ⟨key', k, hk, hd⟩ := h.closedJust l hl'
      exact ⟨key', k, role_ext _ hc hk, hd.mono _⟩
  · intro x key' l r hx hres; rw [e2] at hx; rw [e6] at hres; rw [e2, e6]
    have hres' : CEv.result x r ∈ s.log := by simpa using hres
    rcases role_inv hx with ⟨_, hw⟩ | ⟨_, hx'⟩
    · cases hw
    · obtain ⟨k, hk, hf⟩ := h.resultW x key' l r hx' hres'
      exact ⟨k, role_ext _ hc hk, hf.mono _⟩
  · intro x key' k hx; rw [e6] at hx; rw [e2]
    rcases List.mem_append.mp hx with hx | hx
    · exact role_ext _ hc (h.callLeader x key' k hx)
    · simp at hx; obtain ⟨rfl, rfl, rfl⟩ := hx; exact lookup_cons_self ..
  · intro x r hx; rw [e6] at hx; rw [e2, lookup_cons]
    have hx' : CEv.result x r ∈ s.log := by simpa using hx
    split
    · simp
    · exact h.resultKnown x r hx'

theorem lead_inv {s : State} {c key : Nat} (sc : Step) (h : Inv s)
    (hc : lookup s.role c = none) (hr : reg s key = none) : Inv (lead s c key sc) :=
  inv_lead h hc hr rfl rfl rfl rfl rfl rfl rfl

/-- `try_join` registered the key, `inner.call()` unwound, the guard unregistered it again: only the
caller becomes known (and is gone at once), with `result c panic` -/
theorem inv_callPanic {s s' : State} {c key : Nat} (h : Inv s)
    (hc : lookup s.role c = none)
    (e1 : s'.inflight = s.inflight) (e2 : s'.role = (c, .panicked key) :: s.role)
    (e3 : s'.gone = c :: s.gone) (e4 : s'.chan = s.chan) (e5 : s'.serial = s.serial)
    (e6 : s'.log = s.log ++ [.result c .panic]) (e7 : s'.awake = s.awake) : Inv s' := by
  have hreg : ∀ key, reg s' key = reg s key := fun key => by unfold reg; rw [e1]
  have hnc : ∀ {x : Nat} {v : Role}, lookup s.role x = some v → x ≠ c :=
    fun hx e => (ne_of_fresh hc hx) e.symm
  refine ⟨?_, ?_, ?_, ?_, ?_, ?_, ?_, ?_, ?_, ?_, ?_, ?_, ?_⟩
  · intro key' l hl; rw [hreg] at hl; rw [e2, e3]
    obtain ⟨⟨k, hk⟩, hg⟩ := h.regLeader key' l hl
    refine ⟨⟨k, role_ext _ hc hk⟩, ?_⟩
    have := hnc hk
    simp [this, hg]
  · intro l key' k hl hg; rw [e2] at hl; rw [e3] at hg; rw [hreg]
    have hg' : l ≠ c ∧ l ∉ s.gone := by simpa using hg
    rcases role_inv hl with ⟨_, hw⟩ | ⟨_, hl'⟩
    · cases hw
    · exact h.leaderReg l key' k hl' hg'.2
  · intro x hx; rw [e3] at hx; rw [e2, lookup_cons]
    split
    · simp
    · rename_i hcx
      rcases List.mem_cons.mp hx with hx | hx
      · exact absurd hx.symm hcx
      · exact h.goneKnown x hx
  · intro l key' k hl; rw [e2] at hl; rw [e3, e4]
    rcases role_inv hl with ⟨_, hw⟩ | ⟨hcl, hl'⟩
    · cases hw
    · obtain ⟨ch', h1, h2⟩ := h.chanOf l key' k hl'
      refine ⟨ch', h1, ?_⟩
      have : l ≠ c := fun e => hcl e.symm
      simp [h2, this]
  · intro l hl; rw [e2, lookup_cons] at hl; rw [e4]
    split at hl
    · cases hl
    · exact h.chanKnown l hl
  · intro x key' l hx; rw [e2] at hx ⊢
    rcases role_inv hx with ⟨_, hw⟩ | ⟨_, hx'⟩
    · cases hw
    · obtain ⟨k, hk⟩ := h.waiterLeader x key' l hx'
      exact ⟨k, role_ext _ hc hk⟩
  · intro x key' l hx hg; rw [e2] at hx; rw [e3] at hg; rw [e7]
    have hg' : x ≠ c ∧ x ∉ s.gone := by simpa using hg
    rcases role_inv hx with ⟨_, hw⟩ | ⟨_, hx'⟩
    · cases hw
    · exact h.awakeW x key' l hx' hg'.2
  · intro x key' k hx; rw [e2] at hx; rw [e5]
    rcases role_inv hx with ⟨_, hw⟩ | ⟨_, hx'⟩
    · cases hw
    · exact h.serialLt x key' k hx'
  · intro l r hl; rw [e4] at hl; rw [e2, e6]
    obtain ⟨key', k, hk, hd⟩ := h.sentJust l r hl
    exact ⟨key', k, role_ext _ hc hk, hd.mono _⟩
  · intro l hl; rw [e4] at hl; rw [e2, e6]
    obtain ⟨key', k, hk, hd⟩ := h.closedJust l hl
    exact ⟨key', k, role_ext _ hc hk, hd.mono _⟩
  · intro x key' l r hx hres; rw [e2] at hx; rw [e6] at hres; rw [e2, e6]
    rcases role_inv hx with ⟨_, hw⟩ | ⟨hcx, hx'⟩
    · cases hw
    · have hres' : CEv.result x r ∈ s.log := by
        rcases List.mem_append.mp hres with hres | hres
        · exact hres
        · simp at hres; exact absurd hres.1.symm hcx
      obtain ⟨k, hk, hf⟩ := h.resultW x key' l r hx' hres'
      exact ⟨k, role_ext _ hc hk, hf.mono _⟩
  · intro x key' k hx; rw [e6] at hx; rw [e2]
    have hx' : CEv.innerCall x key' k ∈ s.log := by simpa using hx
    exact role_ext _ hc (h.callLeader x key' k hx')
  · intro x r hx; rw [e6] at hx; rw [e2, lookup_cons]
    split
    · simp
    · rename_i hcx
      rcases List.mem_append.mp hx with hx | hx
      · exact h.resultKnown x r hx
      · simp at hx; exact absurd hx.1.symm hcx

theorem leadPanic_inv {s : State} {c key : Nat} (h : Inv s)
    (hc : lookup s.role c = none) : Inv (leadPanic s c key) :=
  inv_callPanic h hc rfl rfl rfl rfl rfl rfl rfl

theorem arrive_inv {s : State} {c key : Nat} (sc : Step) (cp : Bool) (h : Inv s)
    (hc : lookup s.role c = none) : Inv (arrive s c key sc cp) := by
  unfold arrive
  split
  · rename_i ldr hr; exact joinWaiter_inv h hc hr
  · rename_i hr
    split
    · exact leadPanic_inv h hc
    · exact lead_inv sc h hc hr

/-- events a retiring leader may emit: no `inner_call`, results only for itself -/
def QuietFor (c : Nat) (evs : List CEv) : Prop :=
  (∀ x key k, CEv.innerCall x key k ∉ evs) ∧ (∀ x r, CEv.result x r ∈ evs → x = c)

/-- the future of live leader `c` ceases to exist (completed, panicked or dropped):
key removed, channel left as `ch ≠ opened`, justified by the events emitted -/
theorem inv_retire {s s' : State} {c key k : Nat} {ch : Chan} {evs : List CEv} (h : Inv s)
    (hrole : lookup s.role c = some (.leader key k)) (hlive : c ∉ s.gone)
    (hch : ch ≠ .opened) (hq : QuietFor c evs)
    (hsent : ∀ r, ch = .sent r → Delivered (s.log ++ evs) c key k r)
    (hclosed : ch = .closed → Cancelled (s.log ++ evs) c key k)
    (e1 : s'.inflight = (key, none) :: s.inflight) (e2 : s'.role = s.role)
    (e3 : s'.gone = c :: s.gone) (e4 : s'.chan = (c, ch) :: s.chan)
    (e5 : s'.serial = s.serial) (e6 : s'.log = s.log ++ evs) (e7 : s'.awake = s.awake) : Inv s' := by
  have hreg : ∀ key', reg s' key' = if key = key' then none else reg s key' :=
    fun key' => by unfold reg; rw [e1, regOf_cons]
  have hne : ∀ l key' k', lookup s.role l = some (.leader key' k') → key ≠ key' → l ≠ c := by
    intro l key' k' hl hk hlc; subst hlc; rw [hrole] at hl; cases hl; exact hk rfl
  refine ⟨?_, ?_, ?_, ?_, ?_, ?_, ?_, ?_, ?_, ?_, ?_, ?_, ?_⟩
  · intro key' l hl; rw [hreg] at hl; rw [e2, e3]
    split at hl
    · cases hl
    · rename_i hk
      obtain ⟨⟨k', hk'⟩, hg⟩ := h.regLeader key' l hl
      refine ⟨⟨k', hk'⟩, ?_⟩
      have := hne l key' k' hk' hk
      simp [this, hg]
  · intro l key' k' hl hg; rw [e2] at hl; rw [e3] at hg; rw [hreg]
    have hg' : l ≠ c ∧ l ∉ s.gone := by simpa using hg
    have := h.leaderReg l key' k' hl hg'.2
    split
    · rename_i hk; subst hk
      rw [h.leaderReg c key k hrole hlive] at this
      cases this; exact absurd rfl hg'.1
    · exact this
  · intro x hx; rw [e3] at hx; rw [e2]
    rcases List.mem_cons.mp hx with hx | hx
    · subst hx; rw [hrole]; simp
    · exact h.goneKnown x hx
  · intro l key' k' hl; rw [e2] at hl; rw [e3, e4]
    by_cases hlc : c = l
    · subst hlc; exact ⟨ch, lookup_cons_self .., by simp [hch]⟩
    · rw [lookup_cons_ne _ _ hlc]
      obtain ⟨ch', h1, h2⟩ := h.chanOf l key' k' hl
      refine ⟨ch', h1, ?_⟩
      have : l ≠ c := fun e => hlc e.symm
      simp [h2, this]
  · intro l hl; rw [e2] at hl; rw [e4]
    have : c ≠ l := by intro e; subst e; rw [hrole] at hl; cases hl
    rw [lookup_cons_ne _ _ this]; exact h.chanKnown l hl
  · intro x key' l hx; rw [e2] at hx ⊢; exact h.waiterLeader x key' l hx
  · intro x key' l hx hg; rw [e2] at hx; rw [e3] at hg; rw [e7]
    have hg' : x ≠ c ∧ x ∉ s.gone := by simpa using hg
    exact h.awakeW x key' l hx hg'.2
  · intro x key' k' hx; rw [e2] at hx; rw [e5]; exact h.serialLt x key' k' hx
  · intro l r hl; rw [e4] at hl; rw [e2, e6]
    rcases role_inv hl with ⟨hcl, hw⟩ | ⟨_, hl'⟩
    · subst hcl; exact ⟨key, k, hrole, hsent r hw⟩
    · obtain ⟨key', k', hk, hd⟩ := h.sentJust l r hl'
      exact ⟨key', k', hk, hd.mono _⟩
  · intro l hl; rw [e4] at hl; rw [e2, e6]
    rcases role_inv hl with ⟨hcl, hw⟩ | ⟨_, hl'⟩
    · subst hcl; exact ⟨key, k, hrole, hclosed hw⟩
    · obtain ⟨key', k', hk, hd⟩ := h.closedJust l hl'
      exact ⟨key', k', hk, hd.mono _⟩
  · intro x key' l r hx hres; rw [e2] at hx; rw [e6] at hres; rw [e2, e6]
    rcases List.mem_append.mp hres with hres | hres
    · obtain ⟨k', hk, hf⟩ := h.resultW x key' l r hx hres
      exact ⟨k', hk, hf.mono _⟩
    · have := hq.2 x r hres; subst this; rw [hrole] at hx; cases hx
  · intro x key' k' hx; rw [e6] at hx; rw [e2]
    rcases List.mem_append.mp hx with hx | hx
    · exact h.callLeader x key' k' hx
    · exact absurd hx (hq.1 x key' k')
  · intro x r hx; rw [e6] at hx; rw [e2]
    rcases List.mem_append.mp hx with hx | hx
    · exact h.resultKnown x r hx
    · have := hq.2 x r hx; subst this; rw [hrole]; simp

/-- the future of live waiter `c` ceases to exist (resolved with a fair result, or dropped) -/
theorem inv_waiterGone {s s' : State} {c key l : Nat} {evs : List CEv} (h : Inv s)
    (hrole : lookup s.role c = some (.waiter key l))
    (hevs : ∀ e ∈ evs, ∃ r, e = CEv.result c r ∧ ∃ k, lookup s.role l = some (.leader key k) ∧ Fair s.log l key k r)
    (e1 : s'.inflight = s.inflight) (e2 : s'.role = s.role)
    (e3 : s'.gone = c :: s.gone) (e4 : s'.chan = s.chan)
    (e5 : s'.serial = s.serial) (e6 : s'.log = s.log ++ evs)
    (e7 : ∀ x, x ≠ c → lookup s.awake x = some true → lookup s'.awake x = some true) : Inv s' := by
  have hreg : ∀ key, reg s' key = reg s key := fun key => by unfold reg; rw [e1]
  have hne : ∀ x key' k', lookup s.role x = some (.leader key' k') → x ≠ c := by
    intro x key' k' hx hxc; subst hxc; rw [hrole] at hx; cases hx
  refine ⟨?_, ?_, ?_, ?_, ?_, ?_, ?_, ?_, ?_, ?_, ?_, ?_, ?_⟩
  · intro key' x hx; rw [hreg] at hx; rw [e2, e3]
    obtain ⟨⟨k', hk'⟩, hg⟩ := h.regLeader key' x hx
    refine ⟨⟨k', hk'⟩, ?_⟩
    have := hne x key' k' hk'
    simp [this, hg]
  · intro x key' k' hx hg; rw [e2] at hx; rw [e3] at hg; rw [hreg]
    have hg' : x ≠ c ∧ x ∉ s.gone := by simpa using hg
    exact h.leaderReg x key' k' hx hg'.2
  · intro x hx; rw [e3] at hx; rw [e2]
    rcases List.mem_cons.mp hx with hx | hx
    · subst hx; rw [hrole]; simp
    · exact h.goneKnown x hx
  · intro x key' k' hx; rw [e2] at hx; rw [e3, e4]
    obtain ⟨ch', h1, h2⟩ := h.chanOf x key' k' hx
    refine ⟨ch', h1, ?_⟩
    have := hne x key' k' hx
    simp [h2, this]
  · intro x hx; rw [e2] at hx; rw [e4]; exact h.chanKnown x hx
  · intro x key' l' hx; rw [e2] at hx ⊢; exact h.waiterLeader x key' l' hx
  · intro x key' l' hx hg; rw [e2] at hx; rw [e3] at hg
    have hg' : x ≠ c ∧ x ∉ s.gone := by simpa using hg
    exact e7 x hg'.1 (h.awakeW x key' l' hx hg'.2)
  · intro x key' k' hx; rw [e2] at hx; rw [e5]; exact h.serialLt x key' k' hx
  · intro x r hx; rw [e4] at hx; rw [e2, e6]
    obtain ⟨key', k', hk, hd⟩ := h.sentJust x r hx
    exact ⟨key', k', hk, hd.mono _⟩
  · intro x hx; rw [e4] at hx; rw [e2, e6]
    obtain ⟨key', k', hk, hd⟩ := h.closedJust x hx
    exact ⟨key', k', hk, hd.mono _⟩
  · intro x key' l' r hx hres; rw [e2] at hx; rw [e6] at hres; rw [e2, e6]
    rcases List.mem_append.mp hres with hres | hres
    · obtain ⟨k', hk, hf⟩ := h.resultW x key' l' r hx hres
      exact ⟨k', hk, hf.mono _⟩
    · obtain ⟨r', he, k', hk, hf⟩ := hevs _ hres
      cases he; rw [hrole] at hx; cases hx
      exact ⟨k', hk, hf.mono _⟩
  · intro x key' k' hx; rw [e6] at hx; rw [e2]
    rcases List.mem_append.mp hx with hx | hx
    · exact h.callLeader x key' k' hx
    · obtain ⟨r', he, _⟩ := hevs _ hx; cases he
  · intro x r hx; rw [e6] at hx; rw [e2]
    rcases List.mem_append.mp hx with hx | hx
    · exact h.resultKnown x r hx
    · obtain ⟨r', he, _⟩ := hevs _ hx; cases he; rw [hrole]; simp

theorem finishLeader_inv {s : State} {c key k : Nat} (o : Out) (h : Inv s)
    (hrole : lookup s.role c = some (.leader key k)) (hlive : c ∉ s.gone) :
    Inv (finishLeader s c key k o) := by
  cases o with
  | ok =>
    refine inv_retire (ch := .sent (.ok k)) (evs := [.innerDone c key k .ok, .result c (.ok k)])
      h hrole hlive (by simp) ⟨by simp, by simp⟩ ?_ (by simp) rfl rfl rfl rfl rfl rfl rfl
    intro r hr; cases hr; exact Or.inl ⟨rfl, by simp, by simp⟩
  | err kd =>
    refine inv_retire (ch := .sent (.inner kd k)) (evs := [.innerDone c key k (.err kd), .result c (.inner kd k)])
      h hrole hlive (by simp) ⟨by simp, by simp⟩ ?_ (by simp) rfl rfl rfl rfl rfl rfl rfl
    intro r hr; cases hr; exact Or.inr ⟨kd, rfl, by simp, by simp⟩
  | panic =>
    refine inv_retire (ch := .closed) (evs := [.innerDone c key k .panic, .result c .panic])
      h hrole hlive (by simp) ⟨by simp, by simp⟩ (by simp) ?_ rfl rfl rfl rfl rfl rfl rfl
    intro _; exact Or.inr (Or.inl (by simp))
  | never => exact h

theorem clonePanic_inv {s : State} {c key k : Nat} (o : Out) (h : Inv s)
    (hrole : lookup s.role c = some (.leader key k)) (hlive : c ∉ s.gone) :
    Inv (clonePanic s c key k o) := by
  refine inv_retire (ch := .closed) (evs := [.innerDone c key k o, .result c .panic])
    h hrole hlive (by simp) ⟨by simp, by simp⟩ (by simp) ?_ rfl rfl rfl rfl rfl rfl rfl
  intro _; exact Or.inr (Or.inr ⟨by simp, o, by simp⟩)

theorem pollLeader_inv {s : State} {c key k : Nat} (h : Inv s)
    (hrole : lookup s.role c = some (.leader key k)) (hlive : c ∉ s.gone) :
    Inv (pollLeader s c key k) := by
  unfold pollLeader
  split
  · split
    · split
      · exact clonePanic_inv _ h hrole hlive
      · exact finishLeader_inv _ h hrole hlive
    · exact h
  · exact h

theorem dropLeader_inv {s : State} {c key k : Nat} (h : Inv s)
    (hrole : lookup s.role c = some (.leader key k)) (hlive : c ∉ s.gone) :
    Inv (dropLeader s c key k) := by
  refine inv_retire (ch := .closed) (evs := [.innerDrop c key k])
    h hrole hlive (by simp) ⟨by simp, by simp⟩ (by simp) ?_ rfl rfl rfl rfl rfl rfl rfl
  intro _; exact Or.inl (by simp)

theorem resolveWaiter_inv {s : State} {c key l : Nat} {r : Res} (h : Inv s)
    (hrole : lookup s.role c = some (.waiter key l))
    (hf : ∃ k, lookup s.role l = some (.leader key k) ∧ Fair s.log l key k r) :
    Inv (resolveWaiter (takeWake s c) c r) := by
  refine inv_waiterGone (evs := [.result c r]) h hrole ?_ rfl rfl rfl rfl rfl rfl ?_
  · intro e he; simp at he; exact ⟨r, he, hf⟩
  · intro x hx hw
    show lookup ((c, false) :: s.awake) x = some true
    rw [lookup_cons_ne _ _ (fun e => hx e.symm)]; exact hw

theorem pollWaiter_inv {s : State} {c key l : Nat} (h : Inv s)
    (hrole : lookup s.role c = some (.waiter key l)) : Inv (pollWaiter s c l) := by
  obtain ⟨k, hk⟩ := h.waiterLeader c key l hrole
  unfold pollWaiter
  split
  · rename_i r hch
    obtain ⟨key', k', hk', hd⟩ := h.sentJust l r hch
    rw [hk] at hk'; cases hk'
    exact resolveWaiter_inv h hrole ⟨k, hk, Or.inl hd⟩
  · rename_i hch
    obtain ⟨key', k', hk', hd⟩ := h.closedJust l hch
    rw [hk] at hk'; cases hk'
    exact resolveWaiter_inv h hrole ⟨k, hk, Or.inr ⟨rfl, hd⟩⟩
  · refine inv_frame h rfl rfl rfl rfl rfl rfl ?_
    intro x hx
    show lookup ((c, true) :: (c, false) :: s.awake) x = some true
    by_cases hcx : c = x
    · subst hcx; exact lookup_cons_self ..
    · rw [lookup_cons_ne _ _ hcx, lookup_cons_ne _ _ hcx]; exact hx

theorem dropWaiter_inv {s : State} {c key l : Nat} (h : Inv s)
    (hrole : lookup s.role c = some (.waiter key l)) : Inv (dropWaiter s c) := by
  refine inv_waiterGone (evs := []) h hrole ?_ rfl rfl rfl rfl rfl (by simp [dropWaiter]) ?_
  · intro e he; cases he
  · intro x _ hw; exact hw

theorem stepS_inv (s : State) (op : Op) (h : Inv s) : Inv (stepS s op) := by
  cases op with
  | adv ms => exact inv_frame h rfl rfl rfl rfl rfl rfl (fun _ hx => hx)
  | dropsvc => exact inv_frame h rfl rfl rfl rfl rfl rfl (fun _ hx => hx)
  | bomb c => exact inv_frame h rfl rfl rfl rfl rfl rfl (fun _ hx => hx)
  | arrive c key sc cp =>
    simp only [stepS]
    split
    · exact h
    split
    · exact h
    · rename_i hc; exact arrive_inv sc cp h hc
  | poll c =>
    simp only [stepS]
    split
    · exact h
    · rename_i hg
      have hlive : c ∉ s.gone := by simpa using hg
      split
      · rename_i key k hr; exact pollLeader_inv h hr hlive
      · rename_i key l hr; exact pollWaiter_inv h hr
      · exact h
  | drop c =>
    simp only [stepS]
    split
    · exact h
    · rename_i hg
      have hlive : c ∉ s.gone := by simpa using hg
      split
      · rename_i key k hr; exact dropLeader_inv h hr hlive
      · rename_i key l hr; exact dropWaiter_inv h hr
      · exact h

theorem foldl_inv (ops : List Op) (s : State) (h : Inv s) : Inv (ops.foldl stepS s) := by
  induction ops generalizing s with
  | nil => simpa
  | cons o os ih => exact ih _ (stepS_inv s o h)

/-- every reachable state satisfies the invariant: all operation sequences -/
theorem inv_reachable (ops : List Op) : Inv (run ops) := foldl_inv ops _ init_inv

theorem run_append (ops more : List Op) : run (ops ++ more) = more.foldl stepS (run ops) := by
  simp [run, List.foldl_append]

/-! ## the per-key trace bound: in every prefix of the log at most one inner call per key is in flight -/

def isCall (key : Nat) : CEv → Bool
  | .innerCall _ key' _ => key' == key
  | _ => false

def isEnd (key : Nat) : CEv → Bool
  | .innerDone _ key' _ _ => key' == key
  | .innerDrop _ key' _ => key' == key
  | _ => false

/-- number of inner calls for `key` started / ended (finished, panicked or dropped) in a trace -/
def calls (key : Nat) (l : List CEv) : Nat := l.countP (isCall key)
def ended (key : Nat) (l : List CEv) : Nat := l.countP (isEnd key)

@[simp] theorem calls_append (key : Nat) (a b : List CEv) : calls key (a ++ b) = calls key a + calls key b := by
  simp [calls, List.countP_append]
@[simp] theorem ended_append (key : Nat) (a b : List CEv) : ended key (a ++ b) = ended key a + ended key b := by
  simp [ended, List.countP_append]

/-- in every prefix of the trace at most one inner call for `key` is in flight -/
def PeakOK (key : Nat) (l : List CEv) : Prop := ∀ n, calls key (l.take n) ≤ ended key (l.take n) + 1

theorem calls_take_le (key : Nat) (l : List CEv) (n : Nat) : calls key (l.take n) ≤ calls key l := by
  unfold calls
  exact (List.take_sublist n l).countP_le

theorem peak_append_nocall {key : Nat} {l evs : List CEv} (h : PeakOK key l) (hn : calls key evs = 0) :
    PeakOK key (l ++ evs) := by
  intro n
  rw [List.take_append]
  simp only [calls_append, ended_append]
  have h1 := h n
  have h2 : calls key (evs.take (n - l.length)) = 0 := by
    have := calls_take_le key evs (n - l.length); omega
  omega

theorem peak_append_one {key : Nat} {l : List CEv} (e : CEv) (h : PeakOK key l)
    (hlt : calls key l + calls key [e] ≤ ended key l + 1) : PeakOK key (l ++ [e]) := by
  intro n
  by_cases hn : n ≤ l.length
  · rw [List.take_append]
    have : n - l.length = 0 := by omega
    simp [this]; exact h n
  · have : (l ++ [e]).take n = l ++ [e] := by
      apply List.take_of_length_le; simp; omega
    rw [this]; simp only [calls_append, ended_append]; omega

/-- 1 if the key is registered in the map, else 0 -/
def regCount (s : State) (key : Nat) : Nat := if (reg s key).isSome then 1 else 0

structure TInv (s : State) : Prop where
  trace : ∀ key, calls key s.log = ended key s.log + regCount s key
  peak : ∀ key, PeakOK key s.log

theorem init_tinv : TInv init :=
  ⟨fun key => by simp [init, calls, ended, regCount, reg, regOf, lookup], fun key n => by simp [init, calls, ended]⟩

theorem tinv_same {s s' : State} {evs : List CEv} (ht : TInv s)
    (e1 : s'.inflight = s.inflight) (e6 : s'.log = s.log ++ evs)
    (hc : ∀ key, calls key evs = 0) (he : ∀ key, ended key evs = 0) : TInv s' := by
  have hreg : ∀ key, regCount s' key = regCount s key := fun key => by unfold regCount reg; rw [e1]
  refine ⟨fun key => ?_, fun key => ?_⟩
  · rw [e6, hreg]; simp only [calls_append, ended_append, hc, he]; exact ht.trace key
  · rw [e6]; exact peak_append_nocall (ht.peak key) (hc key)

theorem tinv_retire {s s' : State} {c key : Nat} {evs : List CEv} (ht : TInv s)
    (hr : reg s key = some c)
    (e1 : s'.inflight = (key, none) :: s.inflight) (e6 : s'.log = s.log ++ evs)
    (hc : ∀ key', calls key' evs = 0)
    (he : ∀ key', ended key' evs = if key = key' then 1 else 0) : TInv s' := by
  have hreg : ∀ key', reg s' key' = if key = key' then none else reg s key' :=
    fun key' => by unfold reg; rw [e1, regOf_cons]
  refine ⟨fun key' => ?_, fun key' => ?_⟩
  · rw [e6]; simp only [calls_append, ended_append, hc, he]
    have := ht.trace key'
    unfold regCount at *
    rw [hreg]
    by_cases hk : key = key'
    · subst hk; simp only [if_true]; rw [hr] at this; simp at this ⊢; omega
    · simp only [hk, if_false]; omega
  · rw [e6]; exact peak_append_nocall (ht.peak key') (hc key')

theorem tinv_lead {s s' : State} {c key k : Nat} (ht : TInv s)
    (hr : reg s key = none)
    (e1 : s'.inflight = (key, some c) :: s.inflight)
    (e6 : s'.log = s.log ++ [.innerCall c key k]) : TInv s' := by
  have hreg : ∀ key', reg s' key' = if key = key' then some c else reg s key' :=
    fun key' => by unfold reg; rw [e1, regOf_cons]
  have hcall : ∀ key', calls key' [CEv.innerCall c key k] = if key = key' then 1 else 0 := by
    intro key'; simp [calls, isCall]
  have hend : ∀ key', ended key' [CEv.innerCall c key k] = 0 := by
    intro key'; simp [ended, isEnd]
  have htr : ∀ key', calls key' s.log + calls key' [CEv.innerCall c key k] ≤ ended key' s.log + 1 := by
    intro key'
    have := ht.trace key'
    unfold regCount at this
    rw [hcall]
    by_cases hk : key = key'
    · subst hk; rw [hr] at this; simp at this ⊢; omega
    · simp only [hk, if_false]; split at this <;> omega
  refine ⟨fun key' => ?_, fun key' => ?_⟩
  · rw [e6]; simp only [calls_append, ended_append, hcall, hend]
    have := ht.trace key'
    unfold regCount at *
    rw [hreg]
    by_cases hk : key = key'
    · subst hk; rw [hr] at this; simp at this ⊢; omega
    · simp only [hk, if_false]; omega
  · rw [e6]; exact peak_append_one _ (ht.peak key') (htr key')

theorem ended_done (key' c key k : Nat) (o : Out) (r : Res) :
    ended key' [CEv.innerDone c key k o, CEv.result c r] = if key = key' then 1 else 0 := by
  by_cases hk : key = key' <;> simp [ended, isEnd, hk]

theorem ended_dropEv (key' c key k : Nat) :
    ended key' [CEv.innerDrop c key k] = if key = key' then 1 else 0 := by
  by_cases hk : key = key' <;> simp [ended, isEnd, hk]

theorem finishLeader_tinv {s : State} {c key k : Nat} (o : Out) (ht : TInv s)
    (hr : reg s key = some c) : TInv (finishLeader s c key k o) := by
  cases o with
  | ok =>
    refine tinv_retire (evs := [.innerDone c key k .ok, .result c (.ok k)]) ht hr rfl rfl ?_ ?_
    · intro key'; simp [calls, isCall]
    · intro key'; exact ended_done ..
  | err kd =>
    refine tinv_retire (evs := [.innerDone c key k (.err kd), .result c (.inner kd k)]) ht hr rfl rfl ?_ ?_
    · intro key'; simp [calls, isCall]
    · intro key'; exact ended_done ..
  | panic =>
    refine tinv_retire (evs := [.innerDone c key k .panic, .result c .panic]) ht hr rfl rfl ?_ ?_
    · intro key'; simp [calls, isCall]
    · intro key'; exact ended_done ..
  | never => exact ht

theorem clonePanic_tinv {s : State} {c key k : Nat} (o : Out) (ht : TInv s)
    (hr : reg s key = some c) : TInv (clonePanic s c key k o) := by
  refine tinv_retire (evs := [.innerDone c key k o, .result c .panic]) ht hr rfl rfl ?_ ?_
  · intro key'; simp [calls, isCall]
  · intro key'; exact ended_done ..

theorem pollLeader_tinv {s : State} {c key k : Nat} (ht : TInv s)
    (hr : reg s key = some c) : TInv (pollLeader s c key k) := by
  unfold pollLeader
  split
  · split
    · split
      · exact clonePanic_tinv _ ht hr
      · exact finishLeader_tinv _ ht hr
    · exact ht
  · exact ht

theorem dropLeader_tinv {s : State} {c key k : Nat} (ht : TInv s)
    (hr : reg s key = some c) : TInv (dropLeader s c key k) := by
  refine tinv_retire (evs := [.innerDrop c key k]) ht hr rfl rfl ?_ ?_
  · intro key'; simp [calls, isCall]
  · intro key'; exact ended_dropEv ..

theorem pollWaiter_tinv {s : State} {c l : Nat} (ht : TInv s) : TInv (pollWaiter s c l) := by
  unfold pollWaiter
  split
  · rename_i r _
    refine tinv_same (evs := [.result c r]) ht rfl rfl ?_ ?_
    · intro key'; simp [calls, isCall]
    · intro key'; simp [ended, isEnd]
  · refine tinv_same (evs := [.result c .cancelled]) ht rfl rfl ?_ ?_
    · intro key'; simp [calls, isCall]
    · intro key'; simp [ended, isEnd]
  · exact tinv_same (evs := []) ht rfl (by simp [selfWake, takeWake]) (by simp [calls]) (by simp [ended])

theorem stepS_tinv (s : State) (op : Op) (h : Inv s) (ht : TInv s) : TInv (stepS s op) := by
  cases op with
  | adv ms => exact tinv_same (evs := []) ht rfl (by simp [stepS]) (by simp [calls]) (by simp [ended])
  | dropsvc => exact tinv_same (evs := []) ht rfl (by simp [stepS]) (by simp [calls]) (by simp [ended])
  | bomb c => exact tinv_same (evs := []) ht rfl (by simp [stepS]) (by simp [calls]) (by simp [ended])
  | arrive c key sc cp =>
    simp only [stepS]
    split
    · exact ht
    split
    · exact ht
    · unfold arrive
      split
      · exact tinv_same (evs := []) ht rfl (by simp [joinWaiter]) (by simp [calls]) (by simp [ended])
      · rename_i hr
        split
        · refine tinv_same (evs := [.result c .panic]) ht rfl rfl ?_ ?_
          · intro key'; simp [calls, isCall]
          · intro key'; simp [ended, isEnd]
        · exact tinv_lead ht hr rfl rfl
  | poll c =>
    simp only [stepS]
    split
    · exact ht
    · rename_i hg
      have hlive : c ∉ s.gone := by simpa using hg
      split
      · rename_i key k hrole
        exact pollLeader_tinv ht (h.leaderReg c key k hrole hlive)
      · exact pollWaiter_tinv ht
      · exact ht
  | drop c =>
    simp only [stepS]
    split
    · exact ht
    · rename_i hg
      have hlive : c ∉ s.gone := by simpa using hg
      split
      · rename_i key k hrole
        exact dropLeader_tinv ht (h.leaderReg c key k hrole hlive)
      · exact tinv_same (evs := []) ht rfl (by simp [dropWaiter]) (by simp [calls]) (by simp [ended])
      · exact ht

theorem foldl_tinv (ops : List Op) (s : State) (h : Inv s) (ht : TInv s) :
    TInv (ops.foldl stepS s) := by
  induction ops generalizing s with
  | nil => simpa
  | cons o os ih => exact ih _ (stepS_inv s o h) (stepS_tinv s o h ht)

theorem tinv_reachable (ops : List Op) : TInv (run ops) := foldl_tinv ops _ init_inv init_tinv

/-! ## one-step characterisations used by the property theorems -/

/-- caller `c` is a leader (for `key`, inner call `k`) whose future still exists -/
def LiveLeader (s : State) (c key k : Nat) : Prop :=
  lookup s.role c = some (.leader key k) ∧ c ∉ s.gone

/-- caller `c` is a waiter (for `key`, subscribed to leader `l`) whose future still exists -/
def LiveWaiter (s : State) (c key l : Nat) : Prop :=
  lookup s.role c = some (.waiter key l) ∧ c ∉ s.gone

/-- what the leader itself returns / what it leaves in the channel, for an inner outcome -/
def outRes (k : Nat) : Out → Res
  | .ok => .ok k
  | .err kd => .inner kd k
  | _ => .panic

def outChan (k : Nat) : Out → Chan
  | .ok => .sent (.ok k)
  | .err kd => .sent (.inner kd k)
  | _ => .closed

theorem finishLeader_eq (s : State) (c key k : Nat) {o : Out} (ho : o ≠ .never) :
    finishLeader s c key k o
      = emit (retire s c key (outChan k o)) [.innerDone c key k o, .result c (outRes k o)] := by
  cases o <;> first | rfl | exact absurd rfl ho

theorem outChan_ne_opened (k : Nat) (o : Out) : outChan k o ≠ .opened := by
  cases o <;> simp [outChan]

theorem outChan_closed_of_panic (k : Nat) (o : Out) (ho : o ≠ .never) (h : outRes k o = .panic) :
    outChan k o = .closed := by
  cases o <;> simp [outRes] at h <;> first | rfl | exact absurd rfl ho

/-- what the leader itself returns / what it leaves in the channel when cloning the value unwinds -/
theorem clonePanic_eq (s : State) (c key k : Nat) (o : Out) :
    clonePanic s c key k o
      = emit (retire s c key .closed) [.innerDone c key k o, .result c .panic] := rfl

/-- a poll of a leader: nothing (inner call not finished), or the leader is retired — with the inner outcome
`o`, returning `r` to its own caller and leaving the channel as `ch` (never open; closed if the leader panicked) -/
theorem pollLeader_cases (s : State) (c key k : Nat) :
    pollLeader s c key k = s ∨
    ∃ o r ch, o ≠ Out.never ∧ ch ≠ Chan.opened ∧ (r = Res.panic → ch = Chan.closed) ∧
      pollLeader s c key k = emit (retire s c key ch) [.innerDone c key k o, .result c r] := by
  unfold pollLeader
  split
  · rename_i t sc _ _
    split
    · rename_i hc
      split
      · exact Or.inr ⟨sc.out, .panic, .closed, hc.2, by simp, fun _ => rfl, rfl⟩
      · exact Or.inr ⟨sc.out, outRes k sc.out, outChan k sc.out, hc.2, outChan_ne_opened k sc.out,
          outChan_closed_of_panic k sc.out hc.2, finishLeader_eq s c key k hc.2⟩
    · exact Or.inl rfl
  · exact Or.inl rfl

theorem stepS_poll_leader {s : State} {c key k : Nat} (h : LiveLeader s c key k) :
    stepS s (.poll c) = pollLeader s c key k := by
  simp [stepS, h.1, h.2]

theorem stepS_drop_leader {s : State} {c key k : Nat} (h : LiveLeader s c key k) :
    stepS s (.drop c) = dropLeader s c key k := by
  simp [stepS, h.1, h.2]

theorem stepS_poll_waiter {s : State} {c key l : Nat} (h : LiveWaiter s c key l) :
    stepS s (.poll c) = pollWaiter s c l := by
  simp [stepS, h.1, h.2]

theorem stepS_drop_waiter {s : State} {c key l : Nat} (h : LiveWaiter s c key l) :
    stepS s (.drop c) = dropWaiter s c := by
  simp [stepS, h.1, h.2]

theorem stepS_arrive_fresh {s : State} {c key : Nat} (sc : Step) (cp : Bool)
    (hs : s.svcGone = false) (hc : lookup s.role c = none) :
    stepS s (.arrive c key sc cp) = arrive s c key sc cp := by
  simp [stepS, hc, hs]

/-- a poll of a live leader either changes nothing (inner call not finished) or retires the leader -/
theorem poll_leader_effect {s : State} {c key k : Nat} (h : LiveLeader s c key k) :
    stepS s (.poll c) = s ∨
    ∃ o r ch, o ≠ Out.never ∧ ch ≠ Chan.opened ∧ (r = Res.panic → ch = Chan.closed) ∧
      (stepS s (.poll c)).log = s.log ++ [.innerDone c key k o, .result c r] ∧
      reg (stepS s (.poll c)) key = none ∧
      lookup (stepS s (.poll c)).chan c = some ch ∧
      c ∈ (stepS s (.poll c)).gone := by
  rw [stepS_poll_leader h]
  rcases pollLeader_cases s c key k with h0 | ⟨o, r, ch, ho, hch, hp, h1⟩
  · exact Or.inl h0
  · refine Or.inr ⟨o, r, ch, ho, hch, hp, ?_⟩
    rw [h1]
    refine ⟨rfl, ?_, ?_, ?_⟩
    · show regOf ((key, none) :: s.inflight) key = none
      rw [regOf_cons]; simp
    · show lookup ((c, ch) :: s.chan) c = _
      exact lookup_cons_self ..
    · show c ∈ c :: s.gone
      simp

theorem drop_leader_effect {s : State} {c key k : Nat} (h : LiveLeader s c key k) :
    (stepS s (.drop c)).log = s.log ++ [.innerDrop c key k] ∧
    reg (stepS s (.drop c)) key = none ∧
    lookup (stepS s (.drop c)).chan c = some .closed ∧
    c ∈ (stepS s (.drop c)).gone := by
  rw [stepS_drop_leader h]
  refine ⟨rfl, ?_, ?_, ?_⟩
  · show regOf ((key, none) :: s.inflight) key = none
    rw [regOf_cons]; simp
  · show lookup ((c, Chan.closed) :: s.chan) c = _
    exact lookup_cons_self ..
  · show c ∈ c :: s.gone
    simp

/-- a request that finds its key registered: no event, no inner call, it becomes a waiter of that leader -/
theorem arrive_registered {s : State} {c key ldr : Nat} (sc : Step) (cp : Bool)
    (hs : s.svcGone = false) (hc : lookup s.role c = none) (hr : reg s key = some ldr) :
    stepS s (.arrive c key sc cp) = joinWaiter s c key ldr := by
  rw [stepS_arrive_fresh sc cp hs hc]; unfold arrive; rw [hr]

/-- a request that finds its key unregistered leads a fresh inner call at once -/
theorem arrive_free {s : State} {c key : Nat} (sc : Step)
    (hs : s.svcGone = false) (hc : lookup s.role c = none) (hr : reg s key = none) :
    stepS s (.arrive c key sc false) = lead s c key sc := by
  rw [stepS_arrive_fresh sc false hs hc]; unfold arrive; rw [hr]; rfl

/-- … and if the inner service's `call()` itself panics, the key is unregistered again in that step -/
theorem arrive_free_callPanics {s : State} {c key : Nat} (sc : Step)
    (hs : s.svcGone = false) (hc : lookup s.role c = none) (hr : reg s key = none) :
    stepS s (.arrive c key sc true) = leadPanic s c key := by
  rw [stepS_arrive_fresh sc true hs hc]; unfold arrive; rw [hr]; rfl

/-- the three outcomes of polling a live waiter -/
theorem poll_waiter_sent {s : State} {c key l : Nat} {r : Res} (h : LiveWaiter s c key l)
    (hch : lookup s.chan l = some (.sent r)) :
    (stepS s (.poll c)).log = s.log ++ [.result c r] := by
  rw [stepS_poll_waiter h]; unfold pollWaiter; rw [hch]; rfl

theorem poll_waiter_closed {s : State} {c key l : Nat} (h : LiveWaiter s c key l)
    (hch : lookup s.chan l = some .closed) :
    (stepS s (.poll c)).log = s.log ++ [.result c .cancelled] := by
  rw [stepS_poll_waiter h]; unfold pollWaiter; rw [hch]; rfl

theorem poll_waiter_open {s : State} {c key l : Nat} (h : LiveWaiter s c key l)
    (hch : lookup s.chan l = some .opened) :
    (stepS s (.poll c)).log = s.log ∧ LiveWaiter (stepS s (.poll c)) c key l ∧
    lookup (stepS s (.poll c)).awake c = some true := by
  rw [stepS_poll_waiter h]; unfold pollWaiter; rw [hch]
  exact ⟨rfl, h, lookup_cons_self ..⟩

/-! ## what later steps cannot undo -/

theorem finishLeader_role (s : State) (c key k : Nat) (o : Out) :
    (finishLeader s c key k o).role = s.role := by cases o <;> rfl

theorem pollLeader_role (s : State) (c key k : Nat) : (pollLeader s c key k).role = s.role := by
  rcases pollLeader_cases s c key k with h | ⟨o, r, ch, _, _, _, h⟩
  · rw [h]
  · rw [h]; rfl

theorem pollWaiter_role (s : State) (c l : Nat) : (pollWaiter s c l).role = s.role := by
  unfold pollWaiter; split <;> rfl

/-- only the arrival of a new caller changes the roles -/
theorem stepS_role_eq (s : State) (op : Op) (hop : ∀ c key sc cp, op ≠ .arrive c key sc cp) :
    (stepS s op).role = s.role := by
  cases op with
  | adv ms => rfl
  | dropsvc => rfl
  | arrive c key sc cp => exact absurd rfl (hop c key sc cp)
  | bomb c => rfl
  | poll c =>
    simp only [stepS]
    split
    · rfl
    · split
      · exact pollLeader_role ..
      · exact pollWaiter_role ..
      · rfl
  | drop c =>
    simp only [stepS]
    split
    · rfl
    · split <;> rfl

/-- a role, once assigned, is never changed -/
theorem stepS_role_mono (s : State) (op : Op) {x : Nat} {v : Role}
    (hx : lookup s.role x = some v) : lookup (stepS s op).role x = some v := by
  cases op with
  | arrive c key sc cp =>
    simp only [stepS]
    split
    · exact hx
    split
    · exact hx
    · rename_i hc
      unfold arrive
      split
      · show lookup ((c, _) :: s.role) x = some v
        exact role_ext _ hc hx
      · split
        · show lookup ((c, _) :: s.role) x = some v
          exact role_ext _ hc hx
        · show lookup ((c, _) :: s.role) x = some v
          exact role_ext _ hc hx
  | adv ms => rw [stepS_role_eq s _ (by intro _ _ _ _ h; cases h)]; exact hx
  | dropsvc => exact hx
  | bomb c => exact hx
  | poll c => rw [stepS_role_eq s _ (by intro _ _ _ _ h; cases h)]; exact hx
  | drop c => rw [stepS_role_eq s _ (by intro _ _ _ _ h; cases h)]; exact hx

theorem finishLeader_gone (s : State) (c key k : Nat) (o : Out) (x : Nat)
    (hx : x ∈ (finishLeader s c key k o).gone) : x ∈ s.gone ∨ x = c := by
  cases o <;> simp [finishLeader, emit, retire] at hx <;> first | exact Or.inl hx | exact hx.symm

theorem pollWaiter_gone (s : State) (c l x : Nat)
    (hx : x ∈ (pollWaiter s c l).gone) : x ∈ s.gone ∨ x = c := by
  unfold pollWaiter at hx
  split at hx <;> simp [resolveWaiter, takeWake, selfWake, emit] at hx <;>
    first | exact Or.inl hx | exact hx.symm

/-- the future of a known caller disappears only through a poll or a drop of that very caller -/
theorem stepS_gone (s : State) (op : Op) (x : Nat) (hk : lookup s.role x ≠ none)
    (hx : x ∈ (stepS s op).gone) : x ∈ s.gone ∨ op = .poll x ∨ op = .drop x := by
  cases op with
  | adv ms => exact Or.inl hx
  | dropsvc => exact Or.inl hx
  | bomb c => exact Or.inl hx
  | arrive c key sc cp =>
    simp only [stepS] at hx
    split at hx
    · exact Or.inl hx
    split at hx
    · exact Or.inl hx
    · rename_i hc
      unfold arrive at hx
      split at hx
      · exact Or.inl hx
      · split at hx
        · simp [leadPanic, emit] at hx
          rcases hx with hx | hx
          · subst hx; exact absurd hc hk
          · exact Or.inl hx
        · exact Or.inl hx
  | poll c =>
    simp only [stepS] at hx
    split at hx
    · exact Or.inl hx
    · split at hx
      · rcases pollLeader_cases s c _ _ with h | ⟨o, r, ch, _, _, _, h⟩
        · rw [h] at hx; exact Or.inl hx
        · rw [h] at hx
          simp [emit, retire] at hx
          rcases hx with h' | h'
          · subst h'; exact Or.inr (Or.inl rfl)
          · exact Or.inl h'
      · rcases pollWaiter_gone _ _ _ _ hx with h' | h'
        · exact Or.inl h'
        · subst h'; exact Or.inr (Or.inl rfl)
      · exact Or.inl hx
  | drop c =>
    simp only [stepS] at hx
    split at hx
    · exact Or.inl hx
    · split at hx
      · simp [dropLeader, emit, retire] at hx
        rcases hx with h' | h'
        · subst h'; exact Or.inr (Or.inr rfl)
        · exact Or.inl h'
      · simp [dropWaiter] at hx
        rcases hx with h' | h'
        · subst h'; exact Or.inr (Or.inr rfl)
        · exact Or.inl h'
      · exact Or.inl hx

/-- a channel whose sender is gone (value buffered, or closed) stays exactly as it is -/
theorem stepS_chan_stable {s : State} (op : Op) {l : Nat} {ch : Chan} (h : Inv s)
    (hch : lookup s.chan l = some ch) (hne : ch ≠ .opened) :
    lookup (stepS s op).chan l = some ch := by
  -- `l` is a leader that is gone
  have hl : ∃ key k, lookup s.role l = some (.leader key k) := by
    cases ch with
    | opened => exact absurd rfl hne
    | sent r => obtain ⟨key, k, hk, _⟩ := h.sentJust l r hch; exact ⟨key, k, hk⟩
    | closed => obtain ⟨key, k, hk, _⟩ := h.closedJust l hch; exact ⟨key, k, hk⟩
  obtain ⟨key, k, hk⟩ := hl
  have hg : l ∈ s.gone := by
    obtain ⟨ch', h1, h2⟩ := h.chanOf l key k hk
    rw [hch] at h1; cases h1
    by_cases hg : l ∈ s.gone
    · exact hg
    · exact absurd (h2.mpr hg) hne
  cases op with
  | adv ms => exact hch
  | dropsvc => exact hch
  | bomb c => exact hch
  | arrive c key' sc cp =>
    simp only [stepS]
    split
    · exact hch
    split
    · exact hch
    · rename_i hc
      unfold arrive
      split
      · exact hch
      · split
        · exact hch
        · show lookup ((c, Chan.opened) :: s.chan) l = some ch
          rw [lookup_cons_ne _ _ (ne_of_fresh hc hk)]; exact hch
  | poll c =>
    simp only [stepS]
    split
    · exact hch
    · rename_i hcg
      have hcl : c ≠ l := by intro e; subst e; simp [hg] at hcg
      split
      · rename_i key' k' _
        rcases pollLeader_cases s c key' k' with h0 | ⟨o, r, ch', _, _, _, h1⟩
        · rw [h0]; exact hch
        · rw [h1]
          show lookup ((c, ch') :: s.chan) l = some ch
          rw [lookup_cons_ne _ _ hcl]; exact hch
      · unfold pollWaiter; split <;> exact hch
      · exact hch
  | drop c =>
    simp only [stepS]
    split
    · exact hch
    · rename_i hcg
      have hcl : c ≠ l := by intro e; subst e; simp [hg] at hcg
      split
      · show lookup ((c, Chan.closed) :: s.chan) l = some ch
        rw [lookup_cons_ne _ _ hcl]; exact hch
      · exact hch
      · exact hch

/-- a waiter whose leader is gone keeps waiting on the same dead channel until it is polled or dropped -/
theorem waiter_persist (mid : List Op) {c key l : Nat} {ch : Chan}
    (hmid : ∀ op ∈ mid, op ≠ .poll c ∧ op ≠ .drop c) (s : State) (h : Inv s)
    (hw : LiveWaiter s c key l) (hch : lookup s.chan l = some ch) (hne : ch ≠ .opened) :
    Inv (mid.foldl stepS s) ∧ LiveWaiter (mid.foldl stepS s) c key l ∧
    lookup (mid.foldl stepS s).chan l = some ch := by
  induction mid generalizing s with
  | nil => exact ⟨h, hw, hch⟩
  | cons op rest ih =>
    have hop := hmid op (by simp)
    refine ih (fun o ho => hmid o (by simp [ho])) (stepS s op) (stepS_inv s op h) ⟨stepS_role_mono s op hw.1, ?_⟩
      (stepS_chan_stable op h hch hne)
    intro hx
    rcases stepS_gone s op c (by rw [hw.1]; simp) hx with h' | h' | h'
    · exact hw.2 h'
    · exact hop.1 h'
    · exact hop.2 h'

/-! ## serial numbers identify leaders -/

def SerialUniq (s : State) : Prop :=
  ∀ l1 l2 key1 key2 k, lookup s.role l1 = some (.leader key1 k) →
    lookup s.role l2 = some (.leader key2 k) → l1 = l2

theorem stepS_serialUniq (s : State) (op : Op) (h : Inv s) (hu : SerialUniq s) :
    SerialUniq (stepS s op) := by
  cases op with
  | arrive c key sc =>
    simp only [stepS]
    split
    · exact hu
    split
    · exact hu
    · rename_i hc
      unfold arrive
      split
      · intro l1 l2 key1 key2 k h1 h2
        change lookup ((c, _) :: s.role) l1 = _ at h1
        change lookup ((c, _) :: s.role) l2 = _ at h2
        rcases role_inv h1 with ⟨_, hw⟩ | ⟨_, h1'⟩
        · cases hw
        · rcases role_inv h2 with ⟨_, hw⟩ | ⟨_, h2'⟩
          · cases hw
          · exact hu l1 l2 key1 key2 k h1' h2'
      · split
        · intro l1 l2 key1 key2 k h1 h2
          change lookup ((c, _) :: s.role) l1 = _ at h1
          change lookup ((c, _) :: s.role) l2 = _ at h2
          rcases role_inv h1 with ⟨_, hw⟩ | ⟨_, h1'⟩
          · cases hw
          · rcases role_inv h2 with ⟨_, hw⟩ | ⟨_, h2'⟩
            · cases hw
            · exact hu l1 l2 key1 key2 k h1' h2'
        · intro l1 l2 key1 key2 k h1 h2
          change lookup ((c, _) :: s.role) l1 = _ at h1
          change lookup ((c, _) :: s.role) l2 = _ at h2
          rcases role_inv h1 with ⟨e1, hw1⟩ | ⟨_, h1'⟩
          · rcases role_inv h2 with ⟨e2, _⟩ | ⟨_, h2'⟩
            · rw [← e1, ← e2]
            · cases hw1; have := h.serialLt l2 key2 _ h2'; omega
          · rcases role_inv h2 with ⟨_, hw2⟩ | ⟨_, h2'⟩
            · cases hw2; have := h.serialLt l1 key1 _ h1'; omega
            · exact hu l1 l2 key1 key2 k h1' h2'
  | adv ms => unfold SerialUniq; rw [stepS_role_eq s _ (by intro _ _ _ _ h; cases h)]; exact hu
  | dropsvc => exact hu
  | bomb c => exact hu
  | poll c => unfold SerialUniq; rw [stepS_role_eq s _ (by intro _ _ _ _ h; cases h)]; exact hu
  | drop c => unfold SerialUniq; rw [stepS_role_eq s _ (by intro _ _ _ _ h; cases h)]; exact hu

theorem serialUniq_reachable (ops : List Op) : SerialUniq (run ops) := by
  have : ∀ (ops : List Op) (s : State), Inv s → SerialUniq s → SerialUniq (ops.foldl stepS s) := by
    intro ops
    induction ops with
    | nil => intro s _ hu; exact hu
    | cons o os ih => intro s h hu; exact ih _ (stepS_inv s o h) (stepS_serialUniq s o h hu)
  exact this ops _ init_inv (by intro l1 _ _ _ _ h1; simp [init, lookup] at h1)

/-- the leader itself saw a panic only if nothing was sent: the channel is left closed -/
theorem outChan_of_panic (k : Nat) {o : Out} (ho : o ≠ .never) (h : outRes k o = .panic) :
    outChan k o = .closed := by
  cases o <;> simp [outRes] at h <;> first | rfl | exact absurd rfl ho

end TR.Coalesce
