import TR.Model.Limit
/-!
# Invariants of the limit algorithms (C13, part A)

`Inv`: the limit cell, every value ever stored in it, every register holding a loaded limit and
every value returned by `limit()` lie in `[min, max]`. Preserved by every atomic step of every
thread, for every schedule. The proof never looks at the rtt cells: `vegasNew_inB` holds for an
arbitrary queue estimate.
-/
namespace TR.Limit

/-- `v ∈ [min_limit, max_limit]` -/
def InB (cfg : Cfg) (v : Nat) : Prop := cfg.min ≤ v ∧ v ≤ cfg.max

instance (cfg : Cfg) (v : Nat) : Decidable (InB cfg v) := by unfold InB; infer_instance

/-- the configurations the property quantifies over -/
structure Wf (cfg : Cfg) : Prop where
  le : cfg.min ≤ cfg.max
  factor : cfg.fnum ≤ cfg.fden

theorem clampInit_inB {cfg : Cfg} (h : cfg.min ≤ cfg.max) : InB cfg (clampInit cfg) := by
  unfold clampInit InB
  split
  · omega
  · split <;> omega

theorem aimdSuccNew_inB {cfg : Cfg} (h : cfg.min ≤ cfg.max) {r : Nat} (hr : InB cfg r) :
    InB cfg (aimdSuccNew cfg r) := by
  unfold aimdSuccNew; unfold InB at *; omega

theorem aimdSuccsNew_inB {cfg : Cfg} (h : cfg.min ≤ cfg.max) (n : Nat) {r : Nat} (hr : InB cfg r) :
    InB cfg (aimdSuccsNew cfg n r) := by
  unfold aimdSuccsNew; unfold InB at *; omega

theorem mul_div_le_self (r p q : Nat) (h : p ≤ q) : r * p / q ≤ r := by
  apply Nat.div_le_of_le_mul
  rw [Nat.mul_comm q r]
  exact Nat.mul_le_mul_left r h

theorem aimdFailNew_inB {cfg : Cfg} (w : Wf cfg) {r : Nat} (hr : InB cfg r) :
    InB cfg (aimdFailNew cfg r) := by
  have h1 := mul_div_le_self r cfg.fnum cfg.fden w.factor
  have h2 := w.le
  unfold aimdFailNew; unfold InB at *; omega

theorem vegasFailNew_inB {cfg : Cfg} (h : cfg.min ≤ cfg.max) {r : Nat} (hr : InB cfg r) :
    InB cfg (vegasFailNew cfg r) := by
  unfold vegasFailNew; unfold InB at *; omega

/-- whatever the queue estimate `q` is, the new Vegas limit is in bounds -/
theorem vegasNew_inB {cfg : Cfg} (h : cfg.min ≤ cfg.max) {cl : Nat} (hr : InB cfg cl) (q : Nat) :
    InB cfg (vegasNew cfg cl q) := by
  unfold vegasNew; unfold InB at *
  split
  · omega
  · split <;> omega

/-! ## cells -/

structure CellsOk (cfg : Cfg) (c : Cells) : Prop where
  lim : InB cfg c.limit
  stores : ∀ v ∈ c.stores, InB cfg v
  last : c.stores.getLast? = some c.limit

theorem initCells_ok {cfg : Cfg} (h : cfg.min ≤ cfg.max) : CellsOk cfg (initCells cfg) :=
  ⟨clampInit_inB h, by intro v hv; simp [initCells] at hv; subst hv; exact clampInit_inB h,
   by simp [initCells]⟩

theorem storeLimit_ok {cfg : Cfg} {c : Cells} (hc : CellsOk cfg c) {v : Nat} (hv : InB cfg v) :
    CellsOk cfg (storeLimit c v) := by
  refine ⟨hv, ?_, ?_⟩
  · intro x hx
    simp [storeLimit] at hx
    rcases hx with hx | hx
    · exact hc.stores x hx
    · subst hx; exact hv
  · simp [storeLimit]

/-! ## threads -/

def PhaseOk (cfg : Cfg) (ph : Phase) : Prop := ∀ r, ph.limitReg = some r → InB cfg r

structure ThreadOk (cfg : Cfg) (th : Thread) : Prop where
  ph : PhaseOk cfg th.ph
  out : ∀ v ∈ th.out, InB cfg v

theorem phaseOk_none {cfg : Cfg} {ph : Phase} (h : ph.limitReg = none) : PhaseOk cfg ph := by
  intro r hr; rw [h] at hr; cases hr

theorem phaseOk_some {cfg : Cfg} {ph : Phase} {v : Nat} (h : ph.limitReg = some v) (hv : InB cfg v) :
    PhaseOk cfg ph := by
  intro r hr; rw [h] at hr; cases hr; exact hv

theorem finish_ok {cfg : Cfg} {th : Thread} (ht : ThreadOk cfg th) : ThreadOk cfg (finish th) :=
  ⟨phaseOk_none rfl, ht.out⟩

theorem setPh_ok {cfg : Cfg} {th : Thread} (ht : ThreadOk cfg th) {ph : Phase} (hp : PhaseOk cfg ph) :
    ThreadOk cfg { th with ph := ph } :=
  ⟨hp, ht.out⟩

theorem afterMinLoad_ok (cfg : Cfg) (rtt cm : Nat) : PhaseOk cfg (afterMinLoad rtt cm) := by
  unfold afterMinLoad; split <;> exact phaseOk_none rfl

/-- a finished operation that returns values in bounds -/
theorem finish_out_ok {cfg : Cfg} {th : Thread} (ht : ThreadOk cfg th) {l : List Nat} (hl : ∀ v ∈ l, InB cfg v) :
    ThreadOk cfg { finish th with out := th.out ++ l } := by
  refine ⟨phaseOk_none rfl, ?_⟩
  intro v hv
  simp at hv
  rcases hv with hv | hv
  · exact ht.out v hv
  · exact hl v hv

theorem beginOp_ok {cfg : Cfg} (w : Wf cfg) (c : Cells) (th : Thread) (op : FOp)
    (hc : CellsOk cfg c) (ht : ThreadOk cfg th) :
    CellsOk cfg (beginOp cfg c th op).1 ∧ ThreadOk cfg (beginOp cfg c th op).2 := by
  unfold beginOp
  split
  · refine ⟨hc, phaseOk_none rfl, ?_⟩
    intro v hv
    simp at hv
    rcases hv with hv | hv
    · exact ht.out v hv
    · subst hv; exact hc.lim
  · exact ⟨hc, setPh_ok ht (phaseOk_some rfl hc.lim)⟩
  · refine ⟨hc, setPh_ok ht ?_⟩
    split
    · exact phaseOk_some rfl hc.lim
    · exact phaseOk_some rfl hc.lim
  · exact ⟨hc, setPh_ok ht (phaseOk_some rfl hc.lim)⟩
  · exact ⟨hc, setPh_ok ht (afterMinLoad_ok cfg _ _)⟩
  · exact ⟨hc, finish_ok ht⟩
  · refine ⟨hc, finish_out_ok ht ?_⟩
    intro v hv; simp at hv; subst hv; exact ⟨Nat.le_refl _, w.le⟩
  · refine ⟨hc, finish_out_ok ht ?_⟩
    intro v hv; simp at hv; subst hv; exact ⟨w.le, Nat.le_refl _⟩
  · split
    · exact ⟨hc, setPh_ok ht (phaseOk_some rfl hc.lim)⟩
    · exact ⟨hc, finish_ok ht⟩
  · split
    · exact ⟨storeLimit_ok hc (clampInit_inB w.le), finish_ok ht⟩
    · exact ⟨hc, finish_ok ht⟩
  · split
    · exact ⟨hc, setPh_ok ht (phaseOk_some rfl hc.lim)⟩
    · exact ⟨hc, finish_ok ht⟩

theorem contOp_ok {cfg : Cfg} (w : Wf cfg) (c : Cells) (th : Thread)
    (hc : CellsOk cfg c) (ht : ThreadOk cfg th) :
    CellsOk cfg (contOp cfg c th).1 ∧ ThreadOk cfg (contOp cfg c th).2 := by
  have hph := ht.ph
  unfold contOp
  split
  · exact ⟨hc, ht⟩
  · next r heq =>
    rw [heq] at hph
    exact ⟨storeLimit_ok hc (aimdSuccNew_inB w.le (hph r rfl)), finish_ok ht⟩
  · next r heq =>
    rw [heq] at hph
    exact ⟨storeLimit_ok hc (aimdFailNew_inB w (hph r rfl)), finish_ok ht⟩
  · next r heq =>
    rw [heq] at hph
    exact ⟨storeLimit_ok hc (vegasFailNew_inB w.le (hph r rfl)), finish_ok ht⟩
  · next n r heq =>
    rw [heq] at hph
    exact ⟨storeLimit_ok hc (aimdSuccsNew_inB w.le n (hph r rfl)), finish_ok ht⟩
  · next n r heq =>
    rw [heq] at hph
    split
    · refine ⟨hc, finish_out_ok ht ?_⟩
      intro v hv; simp at hv
      rcases hv with hv | hv
      · rw [hv]; exact hph r rfl
      · rw [hv]; exact aimdSuccNew_inB w.le (hph r rfl)
    · exact ⟨hc, setPh_ok ht (phaseOk_some rfl (hph r rfl))⟩
  · split
    · exact ⟨⟨hc.lim, hc.stores, hc.last⟩, setPh_ok ht (phaseOk_none rfl)⟩
    · exact ⟨hc, setPh_ok ht (afterMinLoad_ok cfg _ _)⟩
  · exact ⟨hc, setPh_ok ht (phaseOk_none rfl)⟩
  · exact ⟨⟨hc.lim, hc.stores, hc.last⟩, setPh_ok ht (phaseOk_none rfl)⟩
  · exact ⟨⟨hc.lim, hc.stores, hc.last⟩, setPh_ok ht (phaseOk_none rfl)⟩
  · split
    · exact ⟨hc, finish_ok ht⟩
    · exact ⟨hc, setPh_ok ht (phaseOk_none rfl)⟩
  · exact ⟨hc, setPh_ok ht (phaseOk_none rfl)⟩
  · split
    · exact ⟨hc, finish_ok ht⟩
    · exact ⟨hc, setPh_ok ht (phaseOk_none rfl)⟩
  · exact ⟨hc, setPh_ok ht (phaseOk_some rfl hc.lim)⟩
  · next mr sr cl heq =>
    rw [heq] at hph
    exact ⟨storeLimit_ok hc (vegasNew_inB w.le (hph cl rfl) _), finish_ok ht⟩

/-- one atomic step of one thread preserves the bounds -/
theorem tstep_ok {cfg : Cfg} (w : Wf cfg) (c : Cells) (th : Thread)
    (hc : CellsOk cfg c) (ht : ThreadOk cfg th) :
    CellsOk cfg (tstep cfg c th).1 ∧ ThreadOk cfg (tstep cfg c th).2 := by
  unfold tstep
  split
  · split
    · exact ⟨hc, ht⟩
    · exact beginOp_ok w c th _ hc ht
  · exact contOp_ok w c th hc ht

/-! ## schedules -/

structure Inv (cfg : Cfg) (s : State) : Prop where
  cells : CellsOk cfg s.cells
  threads : ∀ th ∈ s.threads, ThreadOk cfg th

theorem say_inv {cfg : Cfg} {s : State} (h : Inv cfg s) (l : String) : Inv cfg (say s l) :=
  ⟨h.cells, h.threads⟩

theorem stepT_inv {cfg : Cfg} (w : Wf cfg) {s : State} (h : Inv cfg s) (tid : Nat) :
    Inv cfg (stepT cfg s tid) := by
  unfold stepT
  split
  · exact say_inv h _
  · next th hth =>
    split
    · exact say_inv h _
    · have hmem : th ∈ s.threads := List.mem_of_getElem? hth
      have hr := tstep_ok w s.cells th h.cells (h.threads th hmem)
      apply say_inv
      refine ⟨hr.1, ?_⟩
      intro x hx
      rcases List.mem_or_eq_of_mem_set hx with hx | hx
      · exact h.threads x hx
      · subst hx; exact hr.2

theorem runSched_inv {cfg : Cfg} (w : Wf cfg) (sched : List Nat) {s : State} (h : Inv cfg s) :
    Inv cfg (runSched cfg s sched) := by
  induction sched generalizing s with
  | nil => exact h
  | cons t tl ih => exact ih (stepT_inv w h t)

theorem drain_inv {cfg : Cfg} (w : Wf cfg) (n : Nat) {s : State} (h : Inv cfg s) :
    Inv cfg (drain cfg n s) := by
  induction n generalizing s with
  | zero => exact h
  | succ n ih =>
    unfold drain
    split
    · exact h
    · exact ih (stepT_inv w h _)

theorem exec_inv {cfg : Cfg} (w : Wf cfg) (sched : List Nat) {s : State} (h : Inv cfg s) :
    Inv cfg (exec cfg s sched) :=
  drain_inv w _ (runSched_inv w sched h)

theorem threadOk_fresh (cfg : Cfg) (p : List FOp) : ThreadOk cfg { prog := p } :=
  ⟨phaseOk_none rfl, by intro v hv; cases hv⟩

theorem init_inv {cfg : Cfg} (h : cfg.min ≤ cfg.max) (progs : List (List FOp)) : Inv cfg (init cfg progs) := by
  refine ⟨initCells_ok h, ?_⟩
  intro th hth
  simp [init] at hth
  obtain ⟨p, _, rfl⟩ := hth
  exact threadOk_fresh cfg p

/-- starting the threads on cells that are in bounds (a later round of a case) -/
theorem start_inv {cfg : Cfg} {c : Cells} (hc : CellsOk cfg c) (progs : List (List FOp)) :
    Inv cfg { cells := c, threads := progs.map fun p => { prog := p } } := by
  refine ⟨hc, ?_⟩
  intro th hth
  simp at hth
  obtain ⟨p, _, rfl⟩ := hth
  exact threadOk_fresh cfg p

/-! ## sequential semantics -/

theorem alone_ok {cfg : Cfg} (w : Wf cfg) (n : Nat) (c : Cells) (th : Thread)
    (hc : CellsOk cfg c) (ht : ThreadOk cfg th) :
    CellsOk cfg (alone cfg n c th).1 ∧ ThreadOk cfg (alone cfg n c th).2 := by
  induction n generalizing c th with
  | zero => exact ⟨hc, ht⟩
  | succ n ih =>
    unfold alone
    split
    · exact ⟨hc, ht⟩
    · have hr := tstep_ok w c th hc ht
      exact ih _ _ hr.1 hr.2

theorem seqOps_ok {cfg : Cfg} (w : Wf cfg) (c : Cells) (prog : List FOp) (hc : CellsOk cfg c) :
    CellsOk cfg (seqOps cfg c prog).1 ∧ ∀ v ∈ (seqOps cfg c prog).2, InB cfg v := by
  have h := alone_ok w (16 * prog.length) c { prog := prog } hc (threadOk_fresh cfg prog)
  exact ⟨h.1, h.2.out⟩

theorem seqOp_ok {cfg : Cfg} (w : Wf cfg) (c : Cells) (op : FOp) (hc : CellsOk cfg c) :
    CellsOk cfg (seqOp cfg c op) := (seqOps_ok w c [op] hc).1

end TR.Limit
