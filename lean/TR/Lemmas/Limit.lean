import TR.Model.Limit
/-!
# Invariants of the limit algorithms (C13, part A)

`Inv`: the limit cell, every value ever stored in it, every register holding a loaded limit and
every value returned by `limit()` lie in `[min, max]`. Preserved by every atomic step of every
thread, for every schedule. The proof never looks at the rtt cells: `vegasNew_inB` holds for an
arbitrary queue estimate.
-/
namespace TR.Limit

/-- `v ∈ [min_limit, max_limit]` -/
def InB (cfg : Cfg) (v : Nat) : Prop := cfg.min ≤ v ∧ v ≤ cfg.max

instance (cfg : Cfg) (v : Nat) : Decidable (InB cfg v) := by unfold InB; infer_instance

/-- **the decrease never increases**: `(r as f64 * decrease_factor) as usize ≤ r` — asked only of the values within the
bounds (the only ones the limit cell ever holds). ANY function will do: the exact `⌊r·p/q⌋` with `p ≤ q`
(`decOk_ratio`), the binary64 arithmetic of the code for every factor `p/q ≤ 1` (`decOk_f64`), … -/
def DecOk (cfg : Cfg) : Prop := ∀ r, InB cfg r → cfg.dec r ≤ r

/-- the configurations the property quantifies over -/
structure Wf (cfg : Cfg) : Prop where
  le : cfg.min ≤ cfg.max
  factor : DecOk cfg

theorem clampInit_inB {cfg : Cfg} (h : cfg.min ≤ cfg.max) : InB cfg (clampInit cfg) := by
  unfold clampInit InB
  split
  · omega
  · split <;> omega

theorem aimdSuccNew_inB {cfg : Cfg} (h : cfg.min ≤ cfg.max) {r : Nat} (hr : InB cfg r) :
    InB cfg (aimdSuccNew cfg r) := by
  unfold aimdSuccNew; unfold InB at *; omega

/-- a saturating `usize` operation followed by a clamp to a bound a `usize` can hold: the saturation is invisible -/
theorem min_sat64 {x m : Nat} (h : m ≤ u64Max) : min (sat64 x) m = min x m := by
  unfold sat64; omega

/-- **`current.saturating_add(increase_by).min(max_limit)` is the model's `min (r + inc) max`**, for every `increase_by`
(also when the sum overflows `usize`), as long as `max_limit` is a `usize` -/
theorem aimdSuccNewSat_eq {cfg : Cfg} (h : cfg.max ≤ u64Max) (r : Nat) : aimdSuccNewSat cfg r = aimdSuccNew cfg r := by
  unfold aimdSuccNewSat aimdSuccNew; exact min_sat64 h

/-- … and `record_successes(n)`: `saturating_mul`, `saturating_add`, then the clamp -/
theorem aimdSuccsNewSat_eq {cfg : Cfg} (h : cfg.max ≤ u64Max) (n r : Nat) :
    aimdSuccsNewSat cfg n r = aimdSuccsNew cfg n r := by
  unfold aimdSuccsNewSat aimdSuccsNew sat64
  generalize cfg.inc * n = p
  omega

/-- so the value the code stores after a success stays within the bounds however large the step is -/
theorem aimdSuccNewSat_inB {cfg : Cfg} (h : cfg.min ≤ cfg.max) (hm : cfg.max ≤ u64Max) {r : Nat} (hr : cfg.min ≤ r ∧ r ≤ cfg.max) :
    cfg.min ≤ aimdSuccNewSat cfg r ∧ aimdSuccNewSat cfg r ≤ cfg.max := by
  rw [aimdSuccNewSat_eq hm]; unfold aimdSuccNew; omega

theorem aimdSuccsNew_inB {cfg : Cfg} (h : cfg.min ≤ cfg.max) (n : Nat) {r : Nat} (hr : InB cfg r) :
    InB cfg (aimdSuccsNew cfg n r) := by
  unfold aimdSuccsNew; unfold InB at *; omega

theorem mul_div_le_self (r p q : Nat) (h : p ≤ q) : r * p / q ≤ r := by
  apply Nat.div_le_of_le_mul
  rw [Nat.mul_comm q r]
  exact Nat.mul_le_mul_left r h

theorem aimdFailNew_inB {cfg : Cfg} (w : Wf cfg) {r : Nat} (hr : InB cfg r) :
    InB cfg (aimdFailNew cfg r) := by
  have h1 := w.factor r hr
  have h2 := w.le
  unfold aimdFailNew; unfold InB at *; omega

/-- the bound for ONE decrease, for an arbitrary function: all that is used of it is `d r ≤ r` at that `r` -/
theorem decrease_inB {cfg : Cfg} (h : cfg.min ≤ cfg.max) (d : Nat → Nat) {r : Nat} (hr : InB cfg r) (hd : d r ≤ r) :
    InB cfg (max (d r) cfg.min) := by
  unfold InB at *; omega

/-- the exact rational decrease `⌊r·p/q⌋` with `p ≤ q` -/
theorem decOk_ratio {cfg : Cfg} {p q : Nat} (h : p ≤ q) (hd : cfg.dec = ratioDec p q) : DecOk cfg := by
  intro r _; rw [hd]; exact mul_div_le_self r p q h

/-! ### the binary64 arithmetic of `(r as f64 * factor) as usize` never exceeds `r` for a factor `≤ 1` -/

/-- rounding `a / b` to the nearest integer does not pass an integer that is `≥ a / b` -/
theorem rne_le_of_le_mul {a b m : Nat} (hb : 0 < b) (h : a ≤ m * b) : rne a b ≤ m := by
  have hq : a / b ≤ m := by
    apply Nat.div_le_of_le_mul; rw [Nat.mul_comm]; exact h
  have hmod := Nat.mod_lt a hb
  have hdm := Nat.div_add_mod a b
  unfold rne
  simp only
  by_cases hlt : a / b < m
  · split
    · omega
    · split
      · omega
      · split <;> omega
  · have hqm : a / b = m := by omega
    have hr0 : a % b = 0 := by
      have h3 : b * (a / b) = m * b := by rw [hqm, Nat.mul_comm]
      omega
    have : 2 * (a % b) < b := by omega
    rw [if_pos this]; omega

/-- the quotient `fl(p / q)` is at most 1 for `p ≤ q`: mantissa `≤ 2^scale` -/
theorem fdiv_le_one {p q : Nat} (hq : 0 < q) (h : p ≤ q) : (fdiv p q).1 ≤ 2 ^ (fdiv p q).2 := by
  unfold fdiv
  simp only
  apply rne_le_of_le_mul hq
  rw [Nat.mul_comm]
  exact Nat.mul_le_mul_left _ h

theorem fdiv0_le_one {p q : Nat} (hq : 0 < q) (h : p ≤ q) : (fdiv0 p q).1 ≤ 2 ^ (fdiv0 p q).2 := by
  unfold fdiv0
  split
  · simp
  · exact fdiv_le_one hq h

/-- `fl(M/2^s · l)` truncated is at most `l` when `M/2^s ≤ 1` and `l` is an exact binary64 integer -/
theorem mulTrunc_le {M s l : Nat} (hM : M ≤ 2 ^ s) (hl : l < 2 ^ 53) : mulTrunc (M, s) l ≤ l := by
  unfold mulTrunc
  simp only
  have hP : M * l ≤ l * 2 ^ s := by rw [Nat.mul_comm]; exact Nat.mul_le_mul_left l hM
  have hs : 0 < 2 ^ s := Nat.two_pow_pos _
  split
  · apply Nat.div_le_of_le_mul; rw [Nat.mul_comm (2 ^ s) l]; exact hP
  · next hbig =>
    have hbig' : 2 ^ 53 ≤ M * l := by omega
    have hne : M * l ≠ 0 := by
      have : 0 < 2 ^ 53 := Nat.two_pow_pos _
      omega
    have hlog : 2 ^ (M * l).log2 ≤ M * l := Nat.log2_self_le hne
    have h53 : 53 ≤ (M * l).log2 := by
      rw [Nat.le_log2 hne]; exact hbig'
    -- the scale of the rounding step is at most `s`
    have hks : (M * l).log2 - 52 ≤ s := by
      have h1 : 2 ^ (M * l).log2 < 2 ^ (53 + s) := by
        calc 2 ^ (M * l).log2 ≤ M * l := hlog
          _ ≤ l * 2 ^ s := hP
          _ < 2 ^ 53 * 2 ^ s := Nat.mul_lt_mul_of_pos_right hl hs
          _ = 2 ^ (53 + s) := (Nat.pow_add 2 53 s).symm
      have := (Nat.pow_lt_pow_iff_right (by decide : 1 < 2)).mp h1
      omega
    generalize hk : (M * l).log2 - 52 = k at hks ⊢
    have hk0 : 0 < 2 ^ k := Nat.two_pow_pos _
    have hsplit : 2 ^ s = 2 ^ (s - k) * 2 ^ k := by rw [← Nat.pow_add]; congr 1; omega
    have hle : M * l ≤ (l * 2 ^ (s - k)) * 2 ^ k := by rw [Nat.mul_assoc, ← hsplit]; exact hP
    have hr := rne_le_of_le_mul hk0 hle
    apply Nat.div_le_of_le_mul
    calc rne (M * l) (2 ^ k) * 2 ^ k ≤ (l * 2 ^ (s - k)) * 2 ^ k := Nat.mul_le_mul_right _ hr
      _ = 2 ^ s * l := by rw [Nat.mul_assoc, ← hsplit, Nat.mul_comm]

/-- **the code's own arithmetic**: for every factor `p/q ≤ 1` (`q ≠ 0`) and every `r < 2^53`,
`(r as f64 * (p as f64 / q as f64)) as usize ≤ r` -/
theorem f64Dec_le {p q r : Nat} (h : p ≤ q) (hr : r < 2 ^ 53) : f64Dec p q r ≤ r := by
  unfold f64Dec
  split
  · exact Nat.zero_le _
  · next hq =>
    have hq' : 0 < q := Nat.pos_of_ne_zero hq
    have := fdiv0_le_one hq' h
    exact mulTrunc_le (M := (fdiv0 p q).1) (s := (fdiv0 p q).2) this hr

/-- … hence every configuration the line protocol builds with a factor `fnum/fden ≤ 1` and `max_limit < 2^53` is one
the theorems speak about -/
theorem decOk_f64 {cfg : Cfg} {p q : Nat} (h : p ≤ q) (hmax : cfg.max < 2 ^ 53) (hd : cfg.dec = f64Dec p q) : DecOk cfg := by
  intro r hr
  rw [hd]
  exact f64Dec_le h (by unfold InB at hr; omega)

/-- the default decrease (factor 0.5) -/
theorem decOk_half {cfg : Cfg} (hd : cfg.dec = fun r => r / 2) : DecOk cfg := by
  intro r _; rw [hd]; exact Nat.div_le_self r 2

theorem vegasFailNew_inB {cfg : Cfg} (h : cfg.min ≤ cfg.max) {r : Nat} (hr : InB cfg r) :
    InB cfg (vegasFailNew cfg r) := by
  unfold vegasFailNew; unfold InB at *; omega

/-- whatever the queue estimate `q` is, the new Vegas limit is in bounds -/
theorem vegasNew_inB {cfg : Cfg} (h : cfg.min ≤ cfg.max) {cl : Nat} (hr : InB cfg cl) (q : Nat) :
    InB cfg (vegasNew cfg cl q) := by
  unfold vegasNew; unfold InB at *
  split
  · omega
  · split <;> omega

/-! ## cells -/

structure CellsOk (cfg : Cfg) (c : Cells) : Prop where
  lim : InB cfg c.limit
  stores : ∀ v ∈ c.stores, InB cfg v
  last : c.stores.getLast? = some c.limit

theorem initCells_ok {cfg : Cfg} (h : cfg.min ≤ cfg.max) : CellsOk cfg (initCells cfg) :=
  ⟨clampInit_inB h, by intro v hv; simp [initCells] at hv; subst hv; exact clampInit_inB h,
   by simp [initCells]⟩

theorem storeLimit_ok {cfg : Cfg} {c : Cells} (hc : CellsOk cfg c) {v : Nat} (hv : InB cfg v) :
    CellsOk cfg (storeLimit c v) := by
  refine ⟨hv, ?_, ?_⟩
  · intro x hx
    simp [storeLimit] at hx
    rcases hx with hx | hx
    · exact hc.stores x hx
    · subst hx; exact hv
  · simp [storeLimit]

/-! ## threads -/

def PhaseOk (cfg : Cfg) (ph : Phase) : Prop := ∀ r, ph.limitReg = some r → InB cfg r

structure ThreadOk (cfg : Cfg) (th : Thread) : Prop where
  ph : PhaseOk cfg th.ph
  out : ∀ v ∈ th.out, InB cfg v

theorem phaseOk_none {cfg : Cfg} {ph : Phase} (h : ph.limitReg = none) : PhaseOk cfg ph := by
  intro r hr; rw [h] at hr; cases hr

theorem phaseOk_some {cfg : Cfg} {ph : Phase} {v : Nat} (h : ph.limitReg = some v) (hv : InB cfg v) :
    PhaseOk cfg ph := by
  intro r hr; rw [h] at hr; cases hr; exact hv

theorem finish_ok {cfg : Cfg} {th : Thread} (ht : ThreadOk cfg th) : ThreadOk cfg (finish th) :=
  ⟨phaseOk_none rfl, ht.out⟩

theorem setPh_ok {cfg : Cfg} {th : Thread} (ht : ThreadOk cfg th) {ph : Phase} (hp : PhaseOk cfg ph) :
    ThreadOk cfg { th with ph := ph } :=
  ⟨hp, ht.out⟩

theorem afterMinLoad_ok (cfg : Cfg) (rtt cm : Nat) : PhaseOk cfg (afterMinLoad rtt cm) := by
  unfold afterMinLoad; split <;> exact phaseOk_none rfl

/-- a finished operation that returns values in bounds -/
theorem finish_out_ok {cfg : Cfg} {th : Thread} (ht : ThreadOk cfg th) {l : List Nat} (hl : ∀ v ∈ l, InB cfg v) :
    ThreadOk cfg { finish th with out := th.out ++ l } := by
  refine ⟨phaseOk_none rfl, ?_⟩
  intro v hv
  simp at hv
  rcases hv with hv | hv
  · exact ht.out v hv
  · exact hl v hv

theorem beginOp_ok {cfg : Cfg} (w : Wf cfg) (c : Cells) (th : Thread) (op : FOp)
    (hc : CellsOk cfg c) (ht : ThreadOk cfg th) :
    CellsOk cfg (beginOp cfg c th op).1 ∧ ThreadOk cfg (beginOp cfg c th op).2 := by
  unfold beginOp
  split
  · refine ⟨hc, phaseOk_none rfl, ?_⟩
    intro v hv
    simp at hv
    rcases hv with hv | hv
    · exact ht.out v hv
    · subst hv; exact hc.lim
  · exact ⟨hc, setPh_ok ht (phaseOk_some rfl hc.lim)⟩
  · refine ⟨hc, setPh_ok ht ?_⟩
    split
    · exact phaseOk_some rfl hc.lim
    · exact phaseOk_some rfl hc.lim
  · exact ⟨hc, setPh_ok ht (phaseOk_some rfl hc.lim)⟩
  · exact ⟨hc, setPh_ok ht (afterMinLoad_ok cfg _ _)⟩
  · exact ⟨hc, finish_ok ht⟩
  · refine ⟨hc, finish_out_ok ht ?_⟩
    intro v hv; simp at hv; subst hv; exact ⟨Nat.le_refl _, w.le⟩
  · refine ⟨hc, finish_out_ok ht ?_⟩
    intro v hv; simp at hv; subst hv; exact ⟨w.le, Nat.le_refl _⟩
  · split
    · exact ⟨hc, setPh_ok ht (phaseOk_some rfl hc.lim)⟩
    · exact ⟨hc, finish_ok ht⟩
  · split
    · exact ⟨storeLimit_ok hc (clampInit_inB w.le), finish_ok ht⟩
    · exact ⟨hc, finish_ok ht⟩
  · split
    · exact ⟨hc, setPh_ok ht (phaseOk_some rfl hc.lim)⟩
    · exact ⟨hc, finish_ok ht⟩

theorem contOp_ok {cfg : Cfg} (w : Wf cfg) (c : Cells) (th : Thread)
    (hc : CellsOk cfg c) (ht : ThreadOk cfg th) :
    CellsOk cfg (contOp cfg c th).1 ∧ ThreadOk cfg (contOp cfg c th).2 := by
  have hph := ht.ph
  unfold contOp
  split
  · exact ⟨hc, ht⟩
  · next r heq =>
    rw [heq] at hph
    exact ⟨storeLimit_ok hc (aimdSuccNew_inB w.le (hph r rfl)), finish_ok ht⟩
  · next r heq =>
    rw [heq] at hph
    exact ⟨storeLimit_ok hc (aimdFailNew_inB w (hph r rfl)), finish_ok ht⟩
  · next r heq =>
    rw [heq] at hph
    exact ⟨storeLimit_ok hc (vegasFailNew_inB w.le (hph r rfl)), finish_ok ht⟩
  · next n r heq =>
    rw [heq] at hph
    exact ⟨storeLimit_ok hc (aimdSuccsNew_inB w.le n (hph r rfl)), finish_ok ht⟩
  · next n r heq =>
    rw [heq] at hph
    split
    · refine ⟨hc, finish_out_ok ht ?_⟩
      intro v hv; simp at hv
      rcases hv with hv | hv
      · rw [hv]; exact hph r rfl
      · rw [hv]; exact aimdSuccNew_inB w.le (hph r rfl)
    · exact ⟨hc, setPh_ok ht (phaseOk_some rfl (hph r rfl))⟩
  · split
    · exact ⟨⟨hc.lim, hc.stores, hc.last⟩, setPh_ok ht (phaseOk_none rfl)⟩
    · exact ⟨hc, setPh_ok ht (afterMinLoad_ok cfg _ _)⟩
  · exact ⟨hc, setPh_ok ht (phaseOk_none rfl)⟩
  · exact ⟨⟨hc.lim, hc.stores, hc.last⟩, setPh_ok ht (phaseOk_none rfl)⟩
  · exact ⟨⟨hc.lim, hc.stores, hc.last⟩, setPh_ok ht (phaseOk_none rfl)⟩
  · split
    · exact ⟨hc, finish_ok ht⟩
    · exact ⟨hc, setPh_ok ht (phaseOk_none rfl)⟩
  · exact ⟨hc, setPh_ok ht (phaseOk_none rfl)⟩
  · split
    · exact ⟨hc, finish_ok ht⟩
    · exact ⟨hc, setPh_ok ht (phaseOk_none rfl)⟩
  · exact ⟨hc, setPh_ok ht (phaseOk_some rfl hc.lim)⟩
  · next mr sr cl heq =>
    rw [heq] at hph
    exact ⟨storeLimit_ok hc (vegasNew_inB w.le (hph cl rfl) _), finish_ok ht⟩

/-- one atomic step of one thread preserves the bounds -/
theorem tstep_ok {cfg : Cfg} (w : Wf cfg) (c : Cells) (th : Thread)
    (hc : CellsOk cfg c) (ht : ThreadOk cfg th) :
    CellsOk cfg (tstep cfg c th).1 ∧ ThreadOk cfg (tstep cfg c th).2 := by
  unfold tstep
  split
  · split
    · exact ⟨hc, ht⟩
    · exact beginOp_ok w c th _ hc ht
  · exact contOp_ok w c th hc ht

/-- a spurious failure of the weak compare-exchange touches neither the limit cell nor any register holding a limit -/
theorem tstepW_ok {cfg : Cfg} (w : Wf cfg) (c : Cells) (th : Thread) (weak : Bool)
    (hc : CellsOk cfg c) (ht : ThreadOk cfg th) :
    CellsOk cfg (tstepW cfg c th weak).1 ∧ ThreadOk cfg (tstepW cfg c th weak).2 := by
  unfold tstepW
  split
  · split
    · next th' hw =>
      unfold weakFail at hw
      split at hw
      · cases hw; exact ⟨hc, setPh_ok ht (afterMinLoad_ok cfg _ _)⟩
      · cases hw
    · exact tstep_ok w c th hc ht
  · exact tstep_ok w c th hc ht

/-! ## the ghost history of the limit cell only grows -/

theorem storeLimit_mono (c : Cells) (v x : Nat) (h : x ∈ c.stores) : x ∈ (storeLimit c v).stores := by
  simp [storeLimit, h]

theorem beginOp_mono (cfg : Cfg) (c : Cells) (th : Thread) (op : FOp) (x : Nat) (h : x ∈ c.stores) :
    x ∈ (beginOp cfg c th op).1.stores := by
  unfold beginOp
  split <;> first | exact h | (split <;> first | exact h | exact storeLimit_mono c _ x h)

theorem contOp_mono (cfg : Cfg) (c : Cells) (th : Thread) (x : Nat) (h : x ∈ c.stores) :
    x ∈ (contOp cfg c th).1.stores := by
  unfold contOp
  split <;> first | exact h | exact storeLimit_mono c _ x h | (split <;> exact h)

theorem tstep_mono (cfg : Cfg) (c : Cells) (th : Thread) (x : Nat) (h : x ∈ c.stores) :
    x ∈ (tstep cfg c th).1.stores := by
  unfold tstep
  split
  · split
    · exact h
    · exact beginOp_mono cfg c th _ x h
  · exact contOp_mono cfg c th x h

theorem tstepW_mono (cfg : Cfg) (c : Cells) (th : Thread) (weak : Bool) (x : Nat) (h : x ∈ c.stores) :
    x ∈ (tstepW cfg c th weak).1.stores := by
  unfold tstepW
  split
  · split
    · exact h
    · exact tstep_mono cfg c th x h
  · exact tstep_mono cfg c th x h

/-- the value in the limit cell is the last entry of its history -/
theorem limit_mem_stores {cfg : Cfg} {c : Cells} (hc : CellsOk cfg c) : c.limit ∈ c.stores :=
  List.mem_of_getLast? hc.last

/-! ## schedules -/

structure Inv (cfg : Cfg) (s : State) : Prop where
  cells : CellsOk cfg s.cells
  threads : ∀ th ∈ s.threads, ThreadOk cfg th

theorem say_inv {cfg : Cfg} {s : State} (h : Inv cfg s) (l : String) : Inv cfg (say s l) :=
  ⟨h.cells, h.threads⟩

theorem stepT_inv {cfg : Cfg} (w : Wf cfg) {s : State} (h : Inv cfg s) (tid : Turn) :
    Inv cfg (stepT cfg s tid) := by
  unfold stepT
  split
  · exact say_inv h _
  · next th hth =>
    split
    · exact say_inv h _
    · have hmem : th ∈ s.threads := List.mem_of_getElem? hth
      have hr := tstepW_ok w s.cells th tid.isWeak h.cells (h.threads th hmem)
      apply say_inv
      refine ⟨hr.1, ?_⟩
      intro x hx
      rcases List.mem_or_eq_of_mem_set hx with hx | hx
      · exact h.threads x hx
      · subst hx; exact hr.2

theorem runSched_inv {cfg : Cfg} (w : Wf cfg) (sched : List Turn) {s : State} (h : Inv cfg s) :
    Inv cfg (runSched cfg s sched) := by
  induction sched generalizing s with
  | nil => exact h
  | cons t tl ih => exact ih (stepT_inv w h t)

theorem drain_inv {cfg : Cfg} (w : Wf cfg) (n : Nat) {s : State} (h : Inv cfg s) :
    Inv cfg (drain cfg n s) := by
  induction n generalizing s with
  | zero => exact h
  | succ n ih =>
    unfold drain
    split
    · exact h
    · exact ih (stepT_inv w h _)

theorem exec_inv {cfg : Cfg} (w : Wf cfg) (sched : List Turn) {s : State} (h : Inv cfg s) :
    Inv cfg (exec cfg s sched) :=
  drain_inv w _ (runSched_inv w sched h)

theorem threadOk_fresh (cfg : Cfg) (p : List FOp) : ThreadOk cfg { prog := p } :=
  ⟨phaseOk_none rfl, by intro v hv; cases hv⟩

theorem init_inv {cfg : Cfg} (h : cfg.min ≤ cfg.max) (progs : List (List FOp)) : Inv cfg (init cfg progs) := by
  refine ⟨initCells_ok h, ?_⟩
  intro th hth
  simp [init] at hth
  obtain ⟨p, _, rfl⟩ := hth
  exact threadOk_fresh cfg p

/-- starting the threads on cells that are in bounds (a later round of a case) -/
theorem start_inv {cfg : Cfg} {c : Cells} (hc : CellsOk cfg c) (progs : List (List FOp)) :
    Inv cfg { cells := c, threads := progs.map fun p => { prog := p } } := by
  refine ⟨hc, ?_⟩
  intro th hth
  simp at hth
  obtain ⟨p, _, rfl⟩ := hth
  exact threadOk_fresh cfg p

/-! ## sequential semantics -/

theorem alone_ok {cfg : Cfg} (w : Wf cfg) (n : Nat) (c : Cells) (th : Thread)
    (hc : CellsOk cfg c) (ht : ThreadOk cfg th) :
    CellsOk cfg (alone cfg n c th).1 ∧ ThreadOk cfg (alone cfg n c th).2 := by
  induction n generalizing c th with
  | zero => exact ⟨hc, ht⟩
  | succ n ih =>
    unfold alone
    split
    · exact ⟨hc, ht⟩
    · have hr := tstep_ok w c th hc ht
      exact ih _ _ hr.1 hr.2

theorem seqOps_ok {cfg : Cfg} (w : Wf cfg) (c : Cells) (prog : List FOp) (hc : CellsOk cfg c) :
    CellsOk cfg (seqOps cfg c prog).1 ∧ ∀ v ∈ (seqOps cfg c prog).2, InB cfg v := by
  have h := alone_ok w (16 * prog.length) c { prog := prog } hc (threadOk_fresh cfg prog)
  exact ⟨h.1, h.2.out⟩

theorem seqOp_ok {cfg : Cfg} (w : Wf cfg) (c : Cells) (op : FOp) (hc : CellsOk cfg c) :
    CellsOk cfg (seqOp cfg c op) := (seqOps_ok w c [op] hc).1

end TR.Limit
