import TR.Lemmas.TimeLimiter
/-!
# Time limiter: the wake-up of a pending call, the poll discipline, and a second per-caller invariant
(one result per caller, instants of the events, the strict form of "timeout only if unfinished")

`Caller.wakeup` (Model) is the instant the runtime has been told to poll the caller again.  Here:
* what every per-caller transition does to the fields the wake-up is computed from (`Tr`);
* `CInv2`: at most one result in a caller's history, every event at or after the first poll, `called` exactly at
  the first poll, a timeout only strictly before `done` (but for the zero-timeout first poll without cancellation),
  a result other than the timeout is the inner outcome, delivered at or after `done`;
* the poll discipline `timelyFrom` ("the clock never moves past an armed wake-up of `c` while `c` is pending": the
  runtime's timer fires at the armed instant and the caller is polled before time goes on) and, under it, `WInv`:
  a pending call has not passed its wake-up, and every result came no later than the deadline and no later than `done`.
-/
namespace TR.TimeLimiter

/-! ## the wake-up and the poll decision -/

theorem wakeup_none_of_not_waiting {x : Caller} (h : x.outer ≠ .waiting) : x.wakeup = none := by
  simp [Caller.wakeup, h]

/-- for a pending call: "the wake-up has been reached" is "a poll now resolves it" (`Caller.awake`) -/
theorem wakeup_le_iff_awake (x : Caller) (now : Nat) (hw : x.outer = .waiting) :
    (∃ w, x.wakeup = some w ∧ w ≤ now) ↔ x.awake now := by
  unfold Caller.wakeup Caller.awake Caller.due
  by_cases hn : x.sc.out = .never <;> cases hu : x.unl <;> simp [hw, hn] <;> omega

/-- the wake-up is never later than the deadline (if there is one) nor than `done` (if the inner call completes) -/
theorem wakeup_bounds (x : Caller) (w : Nat) (h : x.wakeup = some w) :
    (x.unl = false → w ≤ x.deadline) ∧ (x.sc.out ≠ .never → w ≤ x.doneAt) := by
  unfold Caller.wakeup at h
  constructor
  · intro h1
    by_cases hw : x.outer = .waiting <;> by_cases hn : x.sc.out = .never
    all_goals simp [hw, hn, h1] at h
    all_goals omega
  · intro hn
    by_cases hw : x.outer = .waiting <;> cases hu : x.unl
    all_goals simp [hw, hn, hu] at h
    all_goals omega

/-- something is armed unless the call has no deadline and its inner call never completes -/
theorem wakeup_some (x : Caller) (hw : x.outer = .waiting) (h : x.unl = false ∨ x.sc.out ≠ .never) :
    ∃ w, x.wakeup = some w := by
  unfold Caller.wakeup
  simp only [hw, ne_eq, not_true_eq_false, if_false]
  by_cases hn : x.sc.out = .never
  · rcases h with h | h
    · simp [hn, h]
    · exact absurd hn h
  · cases hu : x.unl <;> simp [hn]

/-- the wake set of the state, read off the record -/
theorem woken_iff (s : State) (c : Nat) (x : Caller) (hx : lookup s.callers c = some x) :
    s.woken c = true ↔ ∃ w, x.wakeup = some w ∧ w ≤ s.now := by
  unfold State.woken
  simp only [hx]
  cases hw : x.wakeup with
  | none => simp
  | some w => simp

theorem woken_iff_awake (s : State) (c : Nat) (x : Caller) (hx : lookup s.callers c = some x) :
    s.woken c = true ↔ x.outer = .waiting ∧ x.awake s.now := by
  rw [woken_iff s c x hx]
  by_cases hw : x.outer = .waiting
  · rw [wakeup_le_iff_awake x s.now hw]; simp [hw]
  · rw [wakeup_none_of_not_waiting hw]; simp [hw]

/-! ## what a per-caller transition does -/

def isRes : CEv → Bool
  | .result _ => true
  | _ => false

/-- number of results in a caller's history -/
def nRes (l : List (Nat × CEv)) : Nat := l.countP (fun p => isRes p.2)

theorem nRes_append (a b : List (Nat × CEv)) : nRes (a ++ b) = nRes a + nRes b := by
  simp [nRes, List.countP_append]

theorem nRes_stamp (now : Nat) (evs : List CEv) : nRes (evs.map (fun e => (now, e))) = evs.countP isRes := by
  induction evs with
  | nil => rfl
  | cons e tl ih =>
    simp only [List.map_cons, nRes, List.countP_cons] at ih ⊢
    rw [ih]

theorem nRes_zero_iff (l : List (Nat × CEv)) : nRes l = 0 ↔ ∀ t r, (t, CEv.result r) ∉ l := by
  unfold nRes
  rw [List.countP_eq_zero]
  constructor
  · intro h t r hm
    exact h _ hm rfl
  · intro h p hp hres
    obtain ⟨t, e⟩ := p
    cases e <;> simp [isRes] at hres
    exact h t _ hp

/-- what one per-caller transition `r = f x` at `now` does, as far as the instants of the events go -/
structure Tr (cfg : Cfg) (now : Nat) (x : Caller) (r : Caller × List CEv) : Prop where
  lock : r.1.hist = x.hist ++ r.2.map (fun e => (now, e))
  tmo : r.1.tmo = x.tmo
  unl : r.1.unl = x.unl
  sc : r.1.sc = x.sc
  /-- the first poll, and nothing else, sets `start` -/
  start : r.1.start = if CEv.called ∈ r.2 then now else x.start
  calledFresh : CEv.called ∈ r.2 → x.outer = .fresh
  /-- at most one result, and none for a call future that is gone -/
  resCount : r.2.countP isRes ≤ 1
  resLive : x.outer = .gone → r.2.countP isRes = 0
  /-- a result comes out of the first poll or of a poll of a pending call future, of nothing else -/
  resWaiting : ∀ cr, CEv.result cr ∈ r.2 → CEv.called ∈ r.2 ∨ x.outer = .waiting
  /-- a call future is pending afterwards only if it was before, or has just been polled for the first time -/
  waiting : r.1.outer = .waiting → x.outer = .waiting ∨ CEv.called ∈ r.2
  /-- a timeout is reported only while the inner call is unfinished — but for the first poll of a non-cancelling
  call with a zero timeout, which reports it before the inner call has even been started -/
  strict : CEv.result .timeout ∈ r.2 → x.sc.out ≠ .panic →
    (x.sc.out = .never ∨ now < r.1.doneAt ∨ (cfg.cancel = false ∧ x.unl = false ∧ x.tmo = 0 ∧ CEv.called ∈ r.2))
  /-- a result other than the timeout is the inner outcome, once it is there -/
  value : ∀ cr, CEv.result cr ∈ r.2 → cr = .timeout ∨ (x.sc.out ≠ .never ∧ r.1.doneAt ≤ now ∧ cr = resOf x.sc.out)

theorem tr_id (cfg : Cfg) (now : Nat) (x : Caller) : Tr cfg now x (x, []) := by
  constructor <;> simp

theorem pollCancel_tr (cfg : Cfg) (now : Nat) (x : Caller) (hw : x.outer = .waiting) :
    Tr cfg now x (pollCancel now x) := by
  unfold pollCancel
  split
  · rename_i hd
    constructor <;> simp [isRes, hw, Caller.doneAt]
    · intro h; exact absurd h (resOf_ne_timeout hd.1).symm
    · right; exact ⟨hd.1, by simpa [Caller.doneAt] using hd.2⟩
  · rename_i hnd
    split
    · constructor <;> simp [isRes, hw, Caller.doneAt]
      intro _
      by_cases ho : x.sc.out = .never
      · exact Or.inl ho
      · have : ¬ x.doneAt ≤ now := fun hle => hnd ⟨ho, hle⟩
        simp [Caller.doneAt] at this
        simp [this]
    · exact tr_id cfg now x

theorem pollDetached_tr (cfg : Cfg) (now : Nat) (x : Caller) (hc : cfg.cancel = false)
    (hw : x.outer = .waiting) (h : CInv cfg now x) : Tr cfg now x (pollDetached now x) := by
  have hs := h.ncSync hc (h.started hw)
  unfold pollDetached
  split
  · rename_i hfin
    have hd := hs.mp hfin
    constructor <;> simp [deliver, isRes, hw, Caller.doneAt]
    · intro hr hnp
      exact Or.inl (resRx_timeout hr.symm hnp)
    · by_cases hp : x.sc.out = .panic
      · left; simp [hp, resRx]
      · right
        refine ⟨hd.1, by simpa [Caller.doneAt] using hd.2, ?_⟩
        cases ho : x.sc.out <;> simp_all [resRx, resOf]
  · rename_i hnf
    split
    · constructor <;> simp [expire, isRes, hw, Caller.doneAt]
      intro _
      by_cases ho : x.sc.out = .never
      · exact Or.inl ho
      · have : ¬ x.doneAt ≤ now := fun hle => hnf (hs.mpr ⟨ho, hle⟩)
        simp [Caller.doneAt] at this
        simp [this]
    · exact tr_id cfg now x

theorem runTask_evs (now : Nat) (y : Caller) : ∀ e ∈ (runTask now y).2, e = CEv.done y.sc.out := by
  unfold runTask; split <;> simp

theorem runTask_outer (now : Nat) (y : Caller) : (runTask now y).1.outer = y.outer := by
  unfold runTask; split <;> simp

theorem firstPollCancel_tr (cfg : Cfg) (now : Nat) (x : Caller) (hf : x.outer = .fresh) :
    Tr cfg now x (firstPollCancel now x) := by
  have hl := firstPollCancel_lock now x
  have hfl := pollCancel_fields now (note now (begin now x) [.called]).1
  have hp := pollCancel_tr cfg now (note now (begin now x) [.called]).1 (by simp [begin])
  simp only [firstPollCancel] at hl ⊢
  constructor
  · exact hl
  · show (pollCancel now (note now (begin now x) [.called]).1).1.tmo = x.tmo
    rw [hfl.2.1]; simp [begin]
  · show (pollCancel now (note now (begin now x) [.called]).1).1.unl = x.unl
    rw [hfl.2.2.2]; simp [begin]
  · show (pollCancel now (note now (begin now x) [.called]).1).1.sc = x.sc
    rw [hfl.2.2.1]; simp [begin]
  · show (pollCancel now (note now (begin now x) [.called]).1).1.start = _
    rw [hfl.1]; simp [begin]
  · intro _; exact hf
  · simpa [isRes] using hp.resCount
  · intro hg; rw [hf] at hg; cases hg
  · intro _ _; left; simp
  · intro _; right; simp
  · intro hr hnp
    have hr' : CEv.result .timeout ∈ (pollCancel now (note now (begin now x) [.called]).1).2 := by simpa using hr
    rcases hp.strict hr' (by simpa [begin] using hnp) with h | h | h
    · left; simpa [begin] using h
    · right; left; exact h
    · exact absurd h.2.2.2 (by
        intro hc
        have := hp.calledFresh hc
        simp [begin] at this)
  · intro cr hcr
    have hcr' : CEv.result cr ∈ (pollCancel now (note now (begin now x) [.called]).1).2 := by simpa using hcr
    simpa [begin] using hp.value cr hcr'

/-- the spawn: `pre` has been emitted (the `called`, possibly after an immediate timeout), then the task is looked at -/
theorem spawned_tr (cfg : Cfg) (now : Nat) (x y : Caller) (pre : List CEv) (hf : x.outer = .fresh)
    (hy : y.tmo = x.tmo ∧ y.unl = x.unl ∧ y.sc = x.sc ∧ y.start = now)
    (hh : y.hist = x.hist ++ pre.map (fun e => (now, e)))
    (hcalled : CEv.called ∈ pre) (hcount : pre.countP isRes ≤ 1)
    (hstrict : CEv.result .timeout ∈ pre → cfg.cancel = false ∧ x.unl = false ∧ x.tmo = 0)
    (hval : ∀ cr, CEv.result cr ∈ pre → cr = .timeout) :
    Tr cfg now x ((runTask now y).1, pre ++ (runTask now y).2) := by
  have hl : (runTask now y).1.hist = y.hist ++ (runTask now y).2.map (fun e => (now, e)) := runTask_lock now y
  have hfl := runTask_fields now y
  have he := runTask_evs now y
  have hnr : (runTask now y).2.countP isRes = 0 := by
    rw [List.countP_eq_zero]
    intro e hm; rw [he e hm]; simp [isRes]
  have hin : CEv.called ∈ pre ++ (runTask now y).2 := List.mem_append.mpr (Or.inl hcalled)
  have hres : ∀ cr, CEv.result cr ∈ pre ++ (runTask now y).2 → CEv.result cr ∈ pre := by
    intro cr hm
    rcases List.mem_append.mp hm with hm | hm
    · exact hm
    · have := he _ hm; cases this
  constructor
  · show (runTask now y).1.hist = _
    rw [hl, hh]; simp
  · show (runTask now y).1.tmo = _
    rw [hfl.2.1, hy.1]
  · show (runTask now y).1.unl = _
    rw [hfl.2.2.2, hy.2.1]
  · show (runTask now y).1.sc = _
    rw [hfl.2.2.1, hy.2.2.1]
  · show (runTask now y).1.start = _
    rw [hfl.1, hy.2.2.2]; simp [hin]
  · intro _; exact hf
  · show (pre ++ (runTask now y).2).countP isRes ≤ 1
    rw [List.countP_append, hnr]; simpa using hcount
  · intro hg; rw [hf] at hg; cases hg
  · intro _ _; exact Or.inl hin
  · intro _; exact Or.inr hin
  · intro hr _
    have := hstrict (hres _ hr)
    exact Or.inr (Or.inr ⟨this.1, this.2.1, this.2.2, hin⟩)
  · intro cr hcr
    exact Or.inl (hval cr (hres cr hcr))

theorem firstPollDetached_zero (now : Nat) (x : Caller) (h0 : x.unl = false ∧ x.tmo = 0) :
    firstPollDetached now x =
      ((runTask now (note now (expire now (begin now x)).1 [.called]).1).1,
        [CEv.result .timeout, CEv.called] ++ (runTask now (note now (expire now (begin now x)).1 [.called]).1).2) := by
  unfold firstPollDetached
  simp only [h0, and_self, if_true]
  rfl

theorem firstPollDetached_pos (now : Nat) (x : Caller) (h0 : ¬ (x.unl = false ∧ x.tmo = 0)) :
    firstPollDetached now x =
      ((runTask now (note now (begin now x) [.called]).1).1,
        [CEv.called] ++ (runTask now (note now (begin now x) [.called]).1).2) := by
  unfold firstPollDetached
  simp only [h0, if_false]
  rfl

theorem firstPollDetached_tr (cfg : Cfg) (now : Nat) (x : Caller) (hc : cfg.cancel = false)
    (hf : x.outer = .fresh) : Tr cfg now x (firstPollDetached now x) := by
  by_cases h0 : x.unl = false ∧ x.tmo = 0
  · rw [firstPollDetached_zero now x h0]
    apply spawned_tr cfg now x _ _ hf
    · simp [expire, begin]
    · simp [expire, begin]
    · simp
    · decide
    · intro _; exact ⟨hc, h0.1, h0.2⟩
    · intro cr hcr; simpa using hcr
  · rw [firstPollDetached_pos now x h0]
    apply spawned_tr cfg now x _ _ hf
    · simp [begin]
    · simp [begin]
    · simp
    · decide
    · intro h; simp at h
    · intro cr hcr; simp at hcr

theorem pollC_tr (cfg : Cfg) (now : Nat) (x : Caller) (h : CInv cfg now x) : Tr cfg now x (pollC cfg now x) := by
  unfold pollC
  split
  · rename_i hf
    cases hc : cfg.cancel
    · simpa [hc] using firstPollDetached_tr cfg now x hc hf
    · simpa [hc] using firstPollCancel_tr cfg now x hf
  · rename_i hw
    cases hc : cfg.cancel
    · simpa [hc] using pollDetached_tr cfg now x hc hw h
    · simpa [hc] using pollCancel_tr cfg now x hw
  · exact tr_id cfg now x

theorem dropC_tr (cfg : Cfg) (now : Nat) (x : Caller) : Tr cfg now x (dropC cfg now x) := by
  unfold dropC
  split
  · constructor <;> simp
  · split
    · constructor <;> simp [isRes]
    · constructor <;> simp
  · exact tr_id cfg now x

theorem runTask_tr (cfg : Cfg) (now : Nat) (x : Caller) : Tr cfg now x (runTask now x) := by
  unfold runTask
  split
  · rename_i hd
    constructor <;> simp [isRes]
  · exact tr_id cfg now x

theorem advC_tr (cfg : Cfg) (now : Nat) (x : Caller) : Tr cfg now x (advC cfg now x) := by
  unfold advC
  split
  · exact tr_id cfg now x
  · exact runTask_tr cfg now x

/-- the clock alone produces no result and leaves the call future's phase alone -/
theorem advC_quiet (cfg : Cfg) (now : Nat) (x : Caller) :
    (advC cfg now x).1.outer = x.outer ∧ (∀ e ∈ (advC cfg now x).2, e = CEv.done x.sc.out) ∧
    (advC cfg now x).1.start = x.start := by
  unfold advC
  split
  · simp
  · exact ⟨runTask_outer now x, runTask_evs now x, (runTask_fields now x).1⟩

/-- dropping the call future produces no result -/
theorem dropC_quiet (cfg : Cfg) (now : Nat) (x : Caller) :
    (∀ e ∈ (dropC cfg now x).2, e = CEv.dropped) ∧ (dropC cfg now x).1.outer ≠ .waiting := by
  unfold dropC
  split
  · simp
  · split <;> simp
  · rename_i hg; simp [hg]

/-! ## the second per-caller invariant -/

structure CInv2 (cfg : Cfg) (now : Nat) (x : Caller) : Prop where
  /-- at most one result -/
  oneRes : nRes x.hist ≤ 1
  /-- the first poll lies in the past -/
  startLe : x.start ≤ now
  /-- `inner_call` happens at the first poll … -/
  calledAt : ∀ t, (t, CEv.called) ∈ x.hist → t = x.start
  /-- … and nothing before it -/
  afterStart : ∀ t e, (t, e) ∈ x.hist → x.start ≤ t
  /-- the strict form of "timeout only if the inner call had not finished" -/
  strictTo : ∀ t, (t, CEv.result .timeout) ∈ x.hist → x.sc.out ≠ .panic →
    (x.sc.out = .never ∨ t < x.doneAt ∨ (cfg.cancel = false ∧ x.unl = false ∧ x.tmo = 0 ∧ t = x.start))
  /-- a result other than the timeout is the inner outcome, delivered once it is there -/
  resVal : ∀ t cr, (t, CEv.result cr) ∈ x.hist →
    cr = .timeout ∨ (x.sc.out ≠ .never ∧ x.doneAt ≤ t ∧ cr = resOf x.sc.out)

theorem inv2_new (cfg : Cfg) (now : Nat) (tmo : Tmo) (sc : Step) : CInv2 cfg now (newCaller tmo sc) := by
  constructor <;> simp [newCaller, nRes]

theorem inv2_mono (cfg : Cfg) (now now' : Nat) (x : Caller) (hle : now ≤ now') (h : CInv2 cfg now x) :
    CInv2 cfg now' x :=
  ⟨h.oneRes, Nat.le_trans h.startLe hle, h.calledAt, h.afterStart, h.strictTo, h.resVal⟩

/-- a transition of a reachable record keeps the second invariant -/
theorem tr_inv2 (cfg : Cfg) (now : Nat) (x : Caller) (r : Caller × List CEv) (htr : Tr cfg now x r)
    (hfh : x.outer = .fresh → x.hist = []) (hrg : ∀ t r', (t, CEv.result r') ∈ x.hist → x.outer = .gone)
    (h2 : CInv2 cfg now x) : CInv2 cfg now r.1 := by
  have hdone : r.1.doneAt = r.1.start + x.sc.lat := by simp [Caller.doneAt, htr.sc]
  have hfreshHist : CEv.called ∈ r.2 → x.hist = [] := fun hc => hfh (htr.calledFresh hc)
  have hstart : r.1.start ≤ now := by
    rw [htr.start]; split
    · exact Nat.le_refl _
    · exact h2.startLe
  constructor
  · rw [htr.lock, nRes_append, nRes_stamp]
    by_cases hg : x.outer = .gone
    · rw [htr.resLive hg]; exact h2.oneRes
    · have : nRes x.hist = 0 := by
        rw [nRes_zero_iff]
        intro t r' hm
        exact hg (hrg t r' hm)
      rw [this]; simpa using htr.resCount
  · exact hstart
  · intro t ht
    rw [htr.lock] at ht
    rcases List.mem_append.mp ht with ht | ht
    · rw [htr.start]
      by_cases hc : CEv.called ∈ r.2
      · rw [hfreshHist hc] at ht; cases ht
      · simp only [hc, if_false]; exact h2.calledAt t ht
    · obtain ⟨e, he, heq⟩ := List.mem_map.mp ht
      injection heq with h1' h2'
      subst h2'
      rw [htr.start]
      simp [he, h1']
  · intro t e ht
    rw [htr.lock] at ht
    rcases List.mem_append.mp ht with ht | ht
    · rw [htr.start]
      by_cases hc : CEv.called ∈ r.2
      · rw [hfreshHist hc] at ht; cases ht
      · simp only [hc, if_false]; exact h2.afterStart t e ht
    · obtain ⟨e', he, heq⟩ := List.mem_map.mp ht
      injection heq with h1' h2'
      subst h1'
      exact hstart
  · intro t ht hnp
    rw [htr.lock] at ht
    rw [hdone, htr.unl, htr.tmo, htr.sc]
    rcases List.mem_append.mp ht with ht | ht
    · rw [htr.start]
      by_cases hc : CEv.called ∈ r.2
      · rw [hfreshHist hc] at ht; cases ht
      · simp only [hc, if_false]
        simpa [Caller.doneAt] using h2.strictTo t ht (by simpa [htr.sc] using hnp)
    · obtain ⟨e', he, heq⟩ := List.mem_map.mp ht
      injection heq with h1' h2'
      subst h1' h2'
      rcases htr.strict he (by simpa [htr.sc] using hnp) with h | h | h
      · exact Or.inl h
      · right; left; rw [hdone] at h; exact h
      · right; right
        refine ⟨h.1, h.2.1, h.2.2.1, ?_⟩
        rw [htr.start]; simp [h.2.2.2]
  · intro t cr ht
    rw [htr.lock] at ht
    rw [hdone, htr.sc]
    rcases List.mem_append.mp ht with ht | ht
    · rw [htr.start]
      by_cases hc : CEv.called ∈ r.2
      · rw [hfreshHist hc] at ht; cases ht
      · simp only [hc, if_false]
        simpa [Caller.doneAt] using h2.resVal t cr ht
    · obtain ⟨e', he, heq⟩ := List.mem_map.mp ht
      injection heq with h1' h2'
      subst h1' h2'
      rcases htr.value cr he with h | h
      · exact Or.inl h
      · right; rw [hdone] at h; exact h

/-! ## the second invariant along the single-caller machine -/

def PInv2 (cfg : Cfg) (p : Nat × Option Caller) : Prop :=
  ∀ x, p.2 = some x → CInv cfg p.1 x ∧ CInv2 cfg p.1 x

theorem track_inv2 (cfg : Cfg) (c : Nat) (p : Nat × Option Caller) (op : Op) (h : PInv2 cfg p) :
    PInv2 cfg (track cfg c p op) := by
  have h1 : PInv cfg p := fun x hx => (h x hx).1
  have h1' := track_inv cfg c p op h1
  intro x' hx'
  refine ⟨h1' x' hx', ?_⟩
  obtain ⟨now, ox⟩ := p
  cases op with
  | adv ms =>
    cases ox with
    | none => simp [track] at hx'
    | some y =>
      simp [track] at hx'
      subst hx'
      have hy := h y rfl
      exact tr_inv2 cfg (now + ms) y _ (advC_tr cfg (now + ms) y) (fun hf => (hy.1.freshHist hf).1) hy.1.resGone
        (inv2_mono cfg now (now + ms) y (by omega) hy.2)
  | arrive c' tmo sc =>
    by_cases hc : c' = c
    · cases ox with
      | none => simp [track, hc] at hx' ⊢; subst hx'; exact inv2_new cfg now _ _
      | some y => simp [track, hc] at hx' ⊢; subst hx'; exact (h y rfl).2
    · simp only [track, hc, if_false] at hx' ⊢; exact (h x' hx').2
  | poll c' =>
    by_cases hc : c' = c
    · cases ox with
      | none => simp [track, hc] at hx'
      | some y =>
        simp [track, hc] at hx' ⊢; subst hx'
        have hy := h y rfl
        exact tr_inv2 cfg now y _ (pollC_tr cfg now y hy.1) (fun hf => (hy.1.freshHist hf).1) hy.1.resGone hy.2
    · simp only [track, hc, if_false] at hx' ⊢; exact (h x' hx').2
  | drop c' =>
    by_cases hc : c' = c
    · cases ox with
      | none => simp [track, hc] at hx'
      | some y =>
        simp [track, hc] at hx' ⊢; subst hx'
        have hy := h y rfl
        exact tr_inv2 cfg now y _ (dropC_tr cfg now y) (fun hf => (hy.1.freshHist hf).1) hy.1.resGone hy.2
    · simp only [track, hc, if_false] at hx' ⊢; exact (h x' hx').2
  | refused c' e => exact (h x' hx').2

theorem track_foldl_inv2 (cfg : Cfg) (c : Nat) (ops : List Op) (p : Nat × Option Caller)
    (h : PInv2 cfg p) : PInv2 cfg (ops.foldl (track cfg c) p) := by
  induction ops generalizing p with
  | nil => exact h
  | cons o os ih => exact ih _ (track_inv2 cfg c p o h)

/-- every record of every reachable state satisfies the second invariant -/
theorem inv2_reachable (cfg : Cfg) (ops : List Op) (c : Nat) (x : Caller)
    (hx : lookup (run cfg ops).callers c = some x) : CInv2 cfg (run cfg ops).now x := by
  have h := track_foldl_inv2 cfg c ops (0, none) (by intro x hx; simp at hx)
  rw [← proj_run] at h
  exact (h x hx).2

/-! ## the poll discipline -/

/-- the clock may move by `ms` as far as the caller tracked in `p` is concerned: not past its armed wake-up — the
runtime's timer fires AT the armed instant, and a woken caller is polled before time goes on -/
def advOk (p : Nat × Option Caller) (ms : Nat) : Bool :=
  match p.2 with
  | some x =>
      match x.wakeup with
      | some w => decide (p.1 + ms ≤ w) || decide (ms = 0)
      | none => true
  | none => true

/-- every advance of the clock in `ops`, executed from `p`, respects the wake-up of caller `c` -/
def timelyFrom (cfg : Cfg) (c : Nat) : Nat × Option Caller → List Op → Bool
  | _, [] => true
  | p, .adv ms :: tl => advOk p ms && timelyFrom cfg c (track cfg c p (.adv ms)) tl
  | p, op :: tl => timelyFrom cfg c (track cfg c p op) tl

theorem timelyFrom_cons (cfg : Cfg) (c : Nat) (p : Nat × Option Caller) (op : Op) (tl : List Op) :
    timelyFrom cfg c p (op :: tl) =
      ((match op with | .adv ms => advOk p ms | _ => true) && timelyFrom cfg c (track cfg c p op) tl) := by
  cases op <;> simp [timelyFrom]

theorem advOk_spec (p : Nat × Option Caller) (ms : Nat) :
    advOk p ms = true ↔ ∀ x w, p.2 = some x → x.wakeup = some w → p.1 + ms ≤ w ∨ ms = 0 := by
  unfold advOk
  cases hp : p.2 with
  | none => simp
  | some x =>
    cases hw : x.wakeup with
    | none =>
      simp only [hw, true_iff]
      intro x1 w1 h1 h2
      injection h1 with h1; subst h1
      rw [hw] at h2; cases h2
    | some w =>
      simp only [hw, Bool.or_eq_true, decide_eq_true_eq]
      constructor
      · intro h x1 w1 h1 h2
        injection h1 with h1; subst h1
        rw [hw] at h2; injection h2 with h2; subst h2
        exact h
      · intro h; exact h x w rfl hw

/-- the fields the wake-up is computed from -/
theorem wakeup_congr (x y : Caller) (h1 : x.outer = y.outer) (h2 : x.sc = y.sc) (h3 : x.unl = y.unl)
    (h4 : x.start = y.start) (h5 : x.tmo = y.tmo) : x.wakeup = y.wakeup := by
  simp [Caller.wakeup, Caller.doneAt, Caller.deadline, h1, h2, h3, h4, h5]

theorem wakeup_ge_start (x : Caller) (w : Nat) (h : x.wakeup = some w) : x.start ≤ w := by
  unfold Caller.wakeup at h
  by_cases hw : x.outer = .waiting <;> by_cases hn : x.sc.out = .never <;> cases hu : x.unl
  all_goals simp [hw, hn, hu, Caller.doneAt, Caller.deadline] at h
  all_goals omega

/-- under the discipline: a pending call has not passed its wake-up, and every result came no later than the
deadline (if there is one) and no later than the completion of the inner call (if it completes) -/
structure WInv (now : Nat) (x : Caller) : Prop where
  notPast : ∀ w, x.wakeup = some w → now ≤ w
  resBefore : ∀ t r, (t, CEv.result r) ∈ x.hist →
    (x.unl = false → t ≤ x.deadline) ∧ (x.sc.out ≠ .never → t ≤ x.doneAt)

theorem winv_new (now : Nat) (tmo : Tmo) (sc : Step) : WInv now (newCaller tmo sc) := by
  constructor <;> simp [newCaller, Caller.wakeup]

/-- the clock moves, respecting the wake-up -/
theorem winv_adv (now ms : Nat) (x : Caller) (h : WInv now x)
    (hd : ∀ w, x.wakeup = some w → now + ms ≤ w ∨ ms = 0) : WInv (now + ms) x := by
  refine ⟨fun w hw => ?_, h.resBefore⟩
  rcases hd w hw with h' | h'
  · exact h'
  · have := h.notPast w hw; omega

theorem tr_winv (cfg : Cfg) (now : Nat) (x : Caller) (r : Caller × List CEv) (htr : Tr cfg now x r)
    (hfh : x.outer = .fresh → x.hist = []) (h : WInv now x) : WInv now r.1 := by
  have hfreshHist : CEv.called ∈ r.2 → x.hist = [] := fun hc => hfh (htr.calledFresh hc)
  have hdl : r.1.deadline = r.1.start + x.tmo := by simp [Caller.deadline, htr.tmo]
  have hdn : r.1.doneAt = r.1.start + x.sc.lat := by simp [Caller.doneAt, htr.sc]
  constructor
  · intro w hw
    by_cases hc : CEv.called ∈ r.2
    · have := wakeup_ge_start r.1 w hw
      rw [htr.start] at this
      simpa [hc] using this
    · have hwt : r.1.outer = .waiting := by
        by_cases hwt : r.1.outer = .waiting
        · exact hwt
        · rw [wakeup_none_of_not_waiting hwt] at hw; cases hw
      have hxw : x.outer = .waiting := by
        rcases htr.waiting hwt with h' | h'
        · exact h'
        · exact absurd h' hc
      have hst : r.1.start = x.start := by rw [htr.start]; simp [hc]
      have : r.1.wakeup = x.wakeup := wakeup_congr _ _ (by rw [hwt, hxw]) htr.sc htr.unl hst htr.tmo
      rw [this] at hw
      exact h.notPast w hw
  · intro t cr ht
    rw [htr.lock] at ht
    rw [hdl, hdn, htr.unl, htr.sc]
    rcases List.mem_append.mp ht with ht | ht
    · by_cases hc : CEv.called ∈ r.2
      · rw [hfreshHist hc] at ht; cases ht
      · have hst : r.1.start = x.start := by rw [htr.start]; simp [hc]
        rw [hst]
        exact h.resBefore t cr ht
    · obtain ⟨e', he, heq⟩ := List.mem_map.mp ht
      injection heq with h1' h2'
      subst h1' h2'
      by_cases hc : CEv.called ∈ r.2
      · have hst : r.1.start = now := by rw [htr.start]; simp [hc]
        rw [hst]
        exact ⟨fun _ => by omega, fun _ => by omega⟩
      · have hst : r.1.start = x.start := by rw [htr.start]; simp [hc]
        rw [hst]
        have hxw : x.outer = .waiting := by
          rcases htr.resWaiting cr he with h' | h'
          · exact absurd h' hc
          · exact h'
        constructor
        · intro hu
          obtain ⟨w, hw⟩ := wakeup_some x hxw (Or.inl hu)
          have h1 := h.notPast w hw
          have h2 := (wakeup_bounds x w hw).1 hu
          simp [Caller.deadline] at h2
          omega
        · intro hn
          obtain ⟨w, hw⟩ := wakeup_some x hxw (Or.inr hn)
          have h1 := h.notPast w hw
          have h2 := (wakeup_bounds x w hw).2 hn
          simp [Caller.doneAt] at h2
          omega

def PWInv (cfg : Cfg) (p : Nat × Option Caller) : Prop :=
  ∀ x, p.2 = some x → CInv cfg p.1 x ∧ WInv p.1 x

theorem track_winv (cfg : Cfg) (c : Nat) (p : Nat × Option Caller) (op : Op) (h : PWInv cfg p)
    (hd : ∀ ms, op = .adv ms → advOk p ms = true) : PWInv cfg (track cfg c p op) := by
  have h1 : PInv cfg p := fun x hx => (h x hx).1
  have h1' := track_inv cfg c p op h1
  intro x' hx'
  refine ⟨h1' x' hx', ?_⟩
  obtain ⟨now, ox⟩ := p
  cases op with
  | adv ms =>
    cases ox with
    | none => simp [track] at hx'
    | some y =>
      simp [track] at hx'
      subst hx'
      have hy := h y rfl
      have hok := (advOk_spec (now, some y) ms).mp (hd ms rfl)
      have hw : WInv (now + ms) y := winv_adv now ms y hy.2 (fun w hw => hok y w rfl hw)
      exact tr_winv cfg (now + ms) y _ (advC_tr cfg (now + ms) y) (fun hf => (hy.1.freshHist hf).1) hw
  | arrive c' tmo sc =>
    by_cases hc : c' = c
    · cases ox with
      | none => simp [track, hc] at hx' ⊢; subst hx'; exact winv_new now _ _
      | some y => simp [track, hc] at hx' ⊢; subst hx'; exact (h y rfl).2
    · simp only [track, hc, if_false] at hx' ⊢; exact (h x' hx').2
  | poll c' =>
    by_cases hc : c' = c
    · cases ox with
      | none => simp [track, hc] at hx'
      | some y =>
        simp [track, hc] at hx' ⊢; subst hx'
        have hy := h y rfl
        exact tr_winv cfg now y _ (pollC_tr cfg now y hy.1) (fun hf => (hy.1.freshHist hf).1) hy.2
    · simp only [track, hc, if_false] at hx' ⊢; exact (h x' hx').2
  | drop c' =>
    by_cases hc : c' = c
    · cases ox with
      | none => simp [track, hc] at hx'
      | some y =>
        simp [track, hc] at hx' ⊢; subst hx'
        have hy := h y rfl
        exact tr_winv cfg now y _ (dropC_tr cfg now y) (fun hf => (hy.1.freshHist hf).1) hy.2
    · simp only [track, hc, if_false] at hx' ⊢; exact (h x' hx').2
  | refused c' e => exact (h x' hx').2

theorem track_foldl_winv (cfg : Cfg) (c : Nat) (ops : List Op) (p : Nat × Option Caller)
    (h : PWInv cfg p) (hd : timelyFrom cfg c p ops = true) : PWInv cfg (ops.foldl (track cfg c) p) := by
  induction ops generalizing p with
  | nil => exact h
  | cons o os ih =>
    rw [timelyFrom_cons] at hd
    simp only [Bool.and_eq_true] at hd
    refine ih _ (track_winv cfg c p o h ?_) hd.2
    intro ms hms
    subst hms
    exact hd.1

/-- the discipline in terms of the runs of the service: whenever the clock is advanced by `ms` after the
operations `pre`, the wake-up `w` of caller `c` (if its call is pending and anything is armed) is not passed:
`now + ms ≤ w` — in particular the clock stands still (`ms = 0`) while `c` is woken (`w ≤ now`) and not yet polled -/
def PolledWhenWoken (cfg : Cfg) (c : Nat) (ops : List Op) : Prop :=
  ∀ pre ms post, ops = pre ++ Op.adv ms :: post →
    ∀ x w, lookup (run cfg pre).callers c = some x → x.wakeup = some w →
      (run cfg pre).now + ms ≤ w ∨ ms = 0

theorem timelyFrom_iff (cfg : Cfg) (c : Nat) (pre0 ops : List Op) :
    timelyFrom cfg c (proj (run cfg pre0) c) ops = true ↔
      ∀ pre ms post, ops = pre ++ Op.adv ms :: post →
        ∀ x w, lookup (run cfg (pre0 ++ pre)).callers c = some x → x.wakeup = some w →
          (run cfg (pre0 ++ pre)).now + ms ≤ w ∨ ms = 0 := by
  induction ops generalizing pre0 with
  | nil =>
    simp only [timelyFrom, true_iff]
    intro pre ms post h
    cases pre <;> simp at h
  | cons o os ih =>
    have hstep : track cfg c (proj (run cfg pre0) c) o = proj (run cfg (pre0 ++ [o])) c := by
      rw [← proj_step]; simp [run, List.foldl_append]
    rw [timelyFrom_cons, hstep, Bool.and_eq_true, ih (pre0 ++ [o])]
    constructor
    · rintro ⟨h1, h2⟩ pre ms post heq x w hx hw
      cases pre with
      | nil =>
        simp at heq
        obtain ⟨ho, _⟩ := heq
        subst ho
        simp only at h1
        simp only [List.append_nil] at hx ⊢
        exact (advOk_spec _ ms).mp h1 x w hx hw
      | cons a pre' =>
        simp at heq
        obtain ⟨ha, htl⟩ := heq
        subst ha
        have := h2 pre' ms post htl x w (by simpa using hx) hw
        simpa using this
    · intro h
      constructor
      · cases o with
        | adv ms =>
          simp only
          rw [advOk_spec]
          intro x w hx hw
          have := h [] ms os rfl x w (by simpa [proj] using hx) hw
          simpa [proj] using this
        | _ => rfl
      · intro pre ms post heq x w hx hw
        have := h (o :: pre) ms post (by simp [heq]) x w (by simpa using hx) hw
        simpa using this

theorem polledWhenWoken_iff (cfg : Cfg) (c : Nat) (ops : List Op) :
    PolledWhenWoken cfg c ops ↔ timelyFrom cfg c (0, none) ops = true := by
  have h := timelyFrom_iff cfg c [] ops
  simp only [List.nil_append] at h
  have h0 : proj (run cfg []) c = (0, none) := rfl
  rw [h0] at h
  exact h.symm

instance (cfg : Cfg) (c : Nat) (ops : List Op) : Decidable (PolledWhenWoken cfg c ops) :=
  decidable_of_iff _ (polledWhenWoken_iff cfg c ops).symm

/-- under the discipline every record satisfies `WInv` -/
theorem winv_reachable (cfg : Cfg) (ops : List Op) (c : Nat) (hd : PolledWhenWoken cfg c ops) (x : Caller)
    (hx : lookup (run cfg ops).callers c = some x) : WInv (run cfg ops).now x := by
  have h := track_foldl_winv cfg c ops (0, none) (by intro x hx; simp at hx) ((polledWhenWoken_iff cfg c ops).mp hd)
  rw [← proj_run] at h
  exact (h x hx).2

end TR.TimeLimiter
