import TR.Model.Budget
/-!
# Retry budgets: conservation, cap and linearizability over all schedules of atomic steps
-/
namespace TR.Budget

/-- configurations the constructors produce -/
structure WF (cfg : Cfg) : Prop where
  init_le : cfg.initial ≤ cfg.maxTokens
  lim_le : cfg.aimd = true → cfg.maxLimit ≤ cfg.maxTokens
  /-- `record_failure` never stores a limit above the maximum (decrease factor ≤ 1, min ≤ max) -/
  dec : ∀ r, r ≤ cfg.maxLimit → max (r * cfg.fnum / cfg.fden) cfg.minLimit ≤ cfg.maxLimit

theorem replay_append (cfg : Cfg) (t0 : Nat) (l : List LinOp) (o : LinOp) :
    replay cfg t0 (l ++ [o]) =
      (replay cfg t0 l).bind (fun t => if (seqStep cfg t o).2 = o.res then some (seqStep cfg t o).1 else none) := by
  induction l generalizing t0 with
  | nil => simp [replay]
  | cons x tl ih =>
    simp only [List.cons_append, replay]
    split
    · exact ih _
    · simp

/-- results of thread `i` in a linearisation, in order: `some b` for a withdrawal, `none` for a deposit -/
def resultsOf (i : Nat) (lin : List LinOp) : List (Option Bool) :=
  (lin.filter (fun o => o.tid == i)).map (fun o => match o.op with | .W => some o.res | .D => none)

theorem resultsOf_append_other (i : Nat) (lin : List LinOp) (o : LinOp) (h : o.tid ≠ i) :
    resultsOf i (lin ++ [o]) = resultsOf i lin := by
  have : (o.tid == i) = false := by simpa using h
  simp [resultsOf, List.filter_append, this]

theorem resultsOf_append_self (i : Nat) (lin : List LinOp) (o : LinOp) (h : o.tid = i) :
    resultsOf i (lin ++ [o]) = resultsOf i lin ++ [match o.op with | .W => some o.res | .D => none] := by
  have : (o.tid == i) = true := by simpa using h
  simp [resultsOf, List.filter_append, this]

/-- the part of the operation in progress that is already linearised but has not returned yet -/
def pending (t : Thread) : List (Option Bool) :=
  match t.prog, t.pc with
  | .W :: _, .failLoad => [some false]
  | .W :: _, .failStore _ => [some false]
  | .D :: _, .succLoad => [none]
  | .D :: _, .succStore _ => [none]
  | _, _ => []

/-- what the registers of a thread are known to satisfy -/
def pcOK (cfg : Cfg) (t : Thread) : Prop :=
  match t.pc with
  | .cas reg => reg ≥ cfg.cost
  | .failStore r => r ≤ cfg.maxLimit
  | .depRmw cap => cap ≤ cfg.maxLimit ∧ cfg.aimd = true
  | .succStore r => r ≤ cfg.maxLimit
  | _ => True

@[simp] theorem pending_finish (t : Thread) (r : Option Bool) : pending (t.finish r) = [] := by
  simp only [pending, Thread.finish]
  split <;> simp_all

@[simp] theorem pcOK_finish (cfg : Cfg) (t : Thread) (r : Option Bool) : pcOK cfg (t.finish r) := by
  simp [pcOK, Thread.finish]

/-- the global invariant -/
structure Inv (cfg : Cfg) (s : State) : Prop where
  cons : s.granted * cfg.cost + s.tokens ≤ cfg.initial + s.deposits * cfg.amount
  cap : s.tokens ≤ cfg.maxTokens
  lim : s.limit ≤ cfg.maxLimit
  lin : replay cfg cfg.initial s.lin = some s.tokens
  outs : ∀ i t, s.threads[i]? = some t → resultsOf i s.lin = t.out ++ pending t ∧ pcOK cfg t

/-- what one atomic step of thread `tid` guarantees -/
structure StepOK (cfg : Cfg) (s : State) (tid : Nat) (r : State × Thread) : Prop where
  cons : r.1.granted * cfg.cost + r.1.tokens ≤ cfg.initial + r.1.deposits * cfg.amount
  cap : r.1.tokens ≤ cfg.maxTokens
  lim : r.1.limit ≤ cfg.maxLimit
  lin : replay cfg cfg.initial r.1.lin = some r.1.tokens
  out : resultsOf tid r.1.lin = r.2.out ++ pending r.2
  pc : pcOK cfg r.2
  others : ∀ i, i ≠ tid → resultsOf i r.1.lin = resultsOf i s.lin
  threads : r.1.threads = s.threads
  trace : r.1.trace = s.trace

/-- a step that touches no shared cell and linearises nothing -/
theorem silent_ok (cfg : Cfg) (s : State) (tid : Nat) (t t' : Thread) (h : Inv cfg s)
    (ho : resultsOf tid s.lin = t.out ++ pending t) (hout : t'.out = t.out) (hpend : pending t' = pending t)
    (hpc : pcOK cfg t') : StepOK cfg s tid (s, t') :=
  ⟨h.cons, h.cap, h.lim, h.lin, by rw [ho, hout, hpend], hpc, fun _ _ => rfl, rfl, rfl⟩

theorem linW_others (s : State) (tid : Nat) (res : Bool) (i : Nat) (hi : i ≠ tid) :
    resultsOf i (s.linW tid res).lin = resultsOf i s.lin :=
  resultsOf_append_other i _ _ (by simpa using (Ne.symm hi))

theorem linW_self (s : State) (tid : Nat) (res : Bool) :
    resultsOf tid (s.linW tid res).lin = resultsOf tid s.lin ++ [some res] := by
  simp only [State.linW]
  exact resultsOf_append_self tid s.lin { tid := tid, op := .W, res := res, cap := 0 } rfl

theorem linD_self (lin : List LinOp) (tid cap : Nat) :
    resultsOf tid (lin ++ [{ tid := tid, op := .D, res := true, cap := cap }]) = resultsOf tid lin ++ [none] :=
  resultsOf_append_self tid lin { tid := tid, op := .D, res := true, cap := cap } rfl

theorem linD_others (lin : List LinOp) (tid cap i : Nat) (hi : i ≠ tid) :
    resultsOf i (lin ++ [{ tid := tid, op := .D, res := true, cap := cap }]) = resultsOf i lin :=
  resultsOf_append_other i _ _ (by simpa using (Ne.symm hi))

theorem stepThread_ok (cfg : Cfg) (hwf : WF cfg) (s : State) (tid : Nat) (t : Thread)
    (hget : s.threads[tid]? = some t) (h : Inv cfg s) : StepOK cfg s tid (stepThread cfg s tid t) := by
  have hdec : ∀ r, r ≤ cfg.maxLimit → max (r * cfg.fnum / cfg.fden) cfg.minLimit ≤ cfg.maxLimit := hwf.dec
  have hcapLim : cfg.maxLimit ≤ cfg.maxTokens ∨ cfg.aimd = false := by
    cases ha : cfg.aimd with
    | true => exact Or.inl (hwf.lim_le ha)
    | false => exact Or.inr rfl
  obtain ⟨hout, hpc⟩ := h.outs tid t hget
  have hcons := h.cons; have hcap := h.cap; have hlim := h.lim; have hlin := h.lin
  unfold stepThread
  split
  · -- finished thread
    exact silent_ok cfg s tid t t h hout rfl rfl hpc
  · -- W, start: the load
    rename_i rest hp hpcs
    have hpend0 : pending t = [] := by simp [pending, hp, hpcs]
    unfold wLoad
    split
    · rename_i hlow
      have hrep : replay cfg cfg.initial (s.linW tid false).lin = some s.tokens := by
        simp only [State.linW]; rw [replay_append, hlin]; simp [seqStep, hlow]
      split
      · refine ⟨hcons, hcap, hlim, hrep, ?_, by simp [pcOK], linW_others s tid false, rfl, rfl⟩
        rw [linW_self, hout, hpend0]
        simp [pending, hp]
      · refine ⟨hcons, hcap, hlim, hrep, ?_, pcOK_finish .., linW_others s tid false, rfl, rfl⟩
        rw [linW_self, hout, hpend0, pending_finish]
        simp [Thread.finish]
    · rename_i hlow
      exact silent_ok cfg s tid t _ h hout rfl (by simp [pending, hp, hpcs]) (by simp [pcOK]; omega)
  · -- W, cas
    rename_i rest reg hp hpcs
    have hpend0 : pending t = [] := by simp [pending, hp, hpcs]
    have hreg : reg ≥ cfg.cost := by simpa [pcOK, hpcs] using hpc
    unfold wCas
    split
    · rename_i heq
      have hrep : replay cfg cfg.initial (s.linW tid true).lin = some (reg - cfg.cost) := by
        simp only [State.linW]; rw [replay_append, hlin]
        have : ¬ reg < cfg.cost := by omega
        simp [seqStep, this, heq]
      refine ⟨?_, ?_, hlim, hrep, ?_, pcOK_finish .., linW_others s tid true, rfl, rfl⟩
      · show (s.granted + 1) * cfg.cost + (reg - cfg.cost) ≤ cfg.initial + s.deposits * cfg.amount
        rw [Nat.add_mul]; omega
      · show reg - cfg.cost ≤ cfg.maxTokens
        omega
      · show resultsOf tid (s.linW tid true).lin = _
        rw [linW_self, hout, hpend0, pending_finish]
        simp [Thread.finish]
    · exact silent_ok cfg s tid t _ h hout rfl (by simp [pending, hp, hpcs]) (by simp [pcOK])
  · -- W, failLoad
    rename_i rest hp hpcs
    exact silent_ok cfg s tid t _ h hout rfl (by simp [pending, hp, hpcs]) (by simpa [pcOK] using hlim)
  · -- W, failStore: `record_failure` stores the decreased limit
    rename_i rest r hp hpcs
    have hr : r ≤ cfg.maxLimit := by simpa [pcOK, hpcs] using hpc
    refine ⟨hcons, hcap, ?_, hlin, ?_, pcOK_finish .., fun _ _ => rfl, rfl, rfl⟩
    · show max (r * cfg.fnum / cfg.fden) cfg.minLimit ≤ cfg.maxLimit
      exact hdec r hr
    · show resultsOf tid s.lin = _
      rw [hout, pending_finish]; simp [pending, hp, hpcs, Thread.finish]
  · -- D, start
    rename_i rest hp hpcs
    have hpend0 : pending t = [] := by simp [pending, hp, hpcs]
    split
    · rename_i ha
      exact silent_ok cfg s tid t _ h hout rfl (by simp [pending, hp, hpcs]) (by simp [pcOK]; exact ⟨hlim, ha⟩)
    · unfold dRmwToken
      refine ⟨?_, Nat.min_le_right _ _, hlim, ?_, ?_, pcOK_finish .., fun i hi => linD_others _ _ _ i hi, rfl, rfl⟩
      · show s.granted * cfg.cost + min (s.tokens + cfg.amount) cfg.maxTokens ≤ cfg.initial + (s.deposits + 1) * cfg.amount
        have := Nat.min_le_left (s.tokens + cfg.amount) cfg.maxTokens
        rw [Nat.add_mul]; omega
      · show replay cfg cfg.initial (s.lin ++ [_]) = some (min (s.tokens + cfg.amount) cfg.maxTokens)
        rw [replay_append, hlin]; simp [seqStep]
      · show resultsOf tid (s.lin ++ [_]) = _
        rw [linD_self, hout, hpend0, pending_finish]; simp [Thread.finish]
  · -- D (AIMD), the read-modify-write on the tokens
    rename_i rest cp hp hpcs
    have hpend0 : pending t = [] := by simp [pending, hp, hpcs]
    have hcp : cp ≤ cfg.maxLimit ∧ cfg.aimd = true := by simpa [pcOK, hpcs] using hpc
    have hml := hwf.lim_le hcp.2
    unfold dRmwAimd
    refine ⟨?_, ?_, hlim, ?_, ?_, by simp [pcOK], fun i hi => linD_others _ _ _ i hi, rfl, rfl⟩
    · show s.granted * cfg.cost + min (s.tokens + cfg.amount) cp ≤ cfg.initial + (s.deposits + 1) * cfg.amount
      have := Nat.min_le_left (s.tokens + cfg.amount) cp
      rw [Nat.add_mul]; omega
    · show min (s.tokens + cfg.amount) cp ≤ cfg.maxTokens
      have := Nat.min_le_right (s.tokens + cfg.amount) cp
      omega
    · show replay cfg cfg.initial (s.lin ++ [_]) = some (min (s.tokens + cfg.amount) cp)
      rw [replay_append, hlin]; simp [seqStep]
    · show resultsOf tid (s.lin ++ [_]) = _
      rw [linD_self, hout, hpend0]; simp [pending, hp]
  · -- D (AIMD), `record_success` loads the limit
    rename_i rest hp hpcs
    exact silent_ok cfg s tid t _ h hout rfl (by simp [pending, hp, hpcs]) (by simpa [pcOK] using hlim)
  · -- D (AIMD), `record_success` stores the increased limit
    rename_i rest r hp hpcs
    refine ⟨hcons, hcap, Nat.min_le_right _ _, hlin, ?_, pcOK_finish .., fun _ _ => rfl, rfl, rfl⟩
    show resultsOf tid s.lin = _
    rw [hout, pending_finish]; simp [pending, hp, hpcs, Thread.finish]
  · -- impossible combinations: the step only resets the program counter
    rename_i hne1 hne2 hne3 hne4 hne5 hne6 hne7 hne8 hne9
    refine ⟨hcons, hcap, hlim, hlin, ?_, by simp [pcOK], fun _ _ => rfl, rfl, rfl⟩
    show resultsOf tid s.lin = t.out ++ pending { t with pc := .start }
    rw [hout]
    congr 1
    simp only [pending]
    split <;> split <;> simp_all

theorem step_inv (cfg : Cfg) (hwf : WF cfg) (s : State) (tid : Nat) (h : Inv cfg s) : Inv cfg (step cfg s tid) := by
  unfold step
  split
  · exact ⟨h.cons, h.cap, h.lim, h.lin, h.outs⟩
  · rename_i t hget
    split
    · exact ⟨h.cons, h.cap, h.lim, h.lin, h.outs⟩
    · have ok := stepThread_ok cfg hwf s tid t hget h
      refine ⟨ok.cons, ok.cap, ok.lim, ok.lin, ?_⟩
      intro i t' hi
      simp only at hi
      rw [ok.threads] at hi
      by_cases hit : i = tid
      · subst hit
        have hlt : i < s.threads.length := by
          have := List.getElem?_eq_some_iff.mp hget; exact this.1
        rw [List.getElem?_set_self hlt] at hi
        cases hi
        exact ⟨ok.out, ok.pc⟩
      · rw [List.getElem?_set_ne (Ne.symm hit)] at hi
        have := h.outs i t' hi
        exact ⟨by rw [ok.others i hit]; exact this.1, this.2⟩

theorem init_inv (cfg : Cfg) (progs : List (List BOp)) (hl : cfg.maxLimit ≤ cfg.maxLimit) (hwf : WF cfg) :
    Inv cfg (init cfg progs) := by
  refine ⟨by simp [init], hwf.init_le, Nat.le_refl _, by simp [init, replay], ?_⟩
  intro i t hi
  simp only [init, List.getElem?_map] at hi
  cases hp : progs[i]? with
  | none => simp [hp] at hi
  | some p =>
    simp [hp] at hi
    subst hi
    exact ⟨by simp [resultsOf, pending, init], by simp [pcOK]⟩

theorem run_inv (cfg : Cfg) (hwf : WF cfg) (progs : List (List BOp)) (sched : List Nat) :
    Inv cfg (run cfg progs sched) := by
  unfold run
  suffices ∀ s, Inv cfg s → Inv cfg (sched.foldl (step cfg) s) from this _ (init_inv cfg progs (Nat.le_refl _) hwf)
  induction sched with
  | nil => intro s h; exact h
  | cons x xs ih => intro s h; exact ih _ (step_inv cfg hwf s x h)

theorem drain_inv (cfg : Cfg) (hwf : WF cfg) (fuel : Nat) (s : State) (h : Inv cfg s) : Inv cfg (drain cfg fuel s) := by
  induction fuel generalizing s with
  | zero => exact h
  | succ n ih =>
    unfold drain
    split
    · exact h
    · exact ih _ (step_inv cfg hwf s _ h)

theorem runAll_inv (cfg : Cfg) (hwf : WF cfg) (progs : List (List BOp)) (sched : List Nat) :
    Inv cfg (runAll cfg progs sched) :=
  drain_inv cfg hwf _ _ (run_inv cfg hwf progs sched)

end TR.Budget
