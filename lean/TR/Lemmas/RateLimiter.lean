import TR.Model.RateLimiter
/-!
# Rate limiter: invariants of the limiter and of the callers (helper lemmas for C02 / C15)

Part 1: the limiter behind the mutex (`room`): window cut for fixed / counter, span for the log.
Part 2: the idle-refill guarantee.
Part 3: callers (`stepS`): admissions = grants, per-caller routing, sleeping callers' deadlines.
-/
namespace TR.RateLimiter

/-- The configurations for which the limiter invariants (windows, spans, "admitted iff a permit was taken") are
proved: `limit_for_period ≥ 1`, `refresh_period ≥ 1` tick, and — sliding counter only — a bucket of at least
`10 · limit` nanoseconds, which keeps the wait estimate (at least `bucket / (10 · previous_count)`) from rounding
to `Duration::ZERO`. Outside it the model still says what the code does (`Props/C02.lean`, boundary section). -/
structure Good (cfg : Cfg) : Prop where
  limit  : 1 ≤ cfg.limit
  period : 1 ≤ cfg.period
  est    : cfg.kind = .counter → 10 * cfg.limit ≤ cfg.period * cfg.tickNs

theorem Good.of_not_counter (cfg : Cfg) (hk : cfg.kind ≠ .counter) (hL : 1 ≤ cfg.limit) (hP : 1 ≤ cfg.period) :
    Good cfg := ⟨hL, hP, fun h => absurd h hk⟩

/-! ## Part 1 — the limiter -/

/-- every window older than the one starting at `u`: it starts at least `P` before `u`, holds at
most `L` grants, all of them inside `[s, u)`; recursively for the windows before it -/
def CutBelow (P L : Nat) : Nat → List (Nat × List Nat) → Prop
  | _, [] => True
  | u, (s, g) :: older => s + P ≤ u ∧ g.length ≤ L ∧ (∀ t ∈ g, s ≤ t ∧ t < u) ∧ CutBelow P L s older

/-- `wins` (newest first) cuts time into consecutive windows `[s_k, s_{k+1})`, the newest one
still open: consecutive starts at least `P` apart, every grant inside the window it is filed
under, at most `L` grants per window. -/
def Cut (P L : Nat) : List (Nat × List Nat) → Prop
  | [] => True
  | (s, g) :: older => g.length ≤ L ∧ (∀ t ∈ g, s ≤ t) ∧ CutBelow P L s older

/-- all grants of all windows, oldest first -/
def flat : List (Nat × List Nat) → List Nat
  | [] => []
  | (_, g) :: older => flat older ++ g

/-- number of grants in the current (newest) window -/
def curLen (l : Lim) : Nat :=
  match l.wins with
  | [] => 0
  | (_, g) :: _ => g.length

/-- window part of the invariant (fixed window and sliding counter) -/
structure WinInv (cfg : Cfg) (l : Lim) : Prop where
  head : ∃ g older, l.wins = (l.start, g) :: older ∧ ∀ t ∈ g, t < l.start + cfg.period
  cut  : Cut cfg.period cfg.limit l.wins
  flat : flat l.wins = l.grants

/-- sliding-log part: the log is the unexpired suffix of the grant history -/
structure LogInv (cfg : Cfg) (l : Lim) : Prop where
  split : ∃ dropped, l.grants = dropped ++ l.ts ∧ ∀ d ∈ dropped, d + cfg.period ≤ l.lastTry
  span  : ∀ i, (h : i + cfg.limit < l.grants.length) →
            l.grants[i]'(by omega) + cfg.period ≤ l.grants[i + cfg.limit]

structure LimInv (cfg : Cfg) (l : Lim) : Prop where
  startLe  : l.start ≤ l.lastTry
  tsLe     : ∀ t ∈ l.ts, t ≤ l.lastTry
  grantsLe : ∀ t ∈ l.grants, t ≤ l.lastTry
  win      : cfg.kind ≠ .slog → WinInv cfg l
  fixed    : cfg.kind = .fixed → curLen l + l.avail = cfg.limit
  counter  : cfg.kind = .counter → curLen l = l.cur
  slog     : cfg.kind = .slog → LogInv cfg l
  prevLe   : cfg.kind = .counter → l.prev ≤ cfg.limit
  inWin    : cfg.kind ≠ .slog → l.lastTry < l.start + cfg.period

theorem initLim_inv (cfg : Cfg) (hP : 1 ≤ cfg.period) : LimInv cfg (initLim cfg) := by
  refine ⟨by simp [initLim], by simp [initLim], by simp [initLim], ?_, ?_, ?_, ?_, by simp [initLim],
    by intro _; simp [initLim]; omega⟩
  · intro _
    exact ⟨⟨[], [], by simp [initLim], by simp⟩, by simp [initLim, Cut, CutBelow], by simp [initLim, flat]⟩
  · intro _; simp [initLim, curLen]
  · intro _; simp [initLim, curLen]
  · intro _
    exact ⟨⟨[], by simp [initLim], by simp⟩, by simp [initLim]⟩

/-! ### opening a window, recording a grant -/

theorem openWin_win (cfg : Cfg) (l : Lim) (now : Nat) (h : WinInv cfg l)
    (hgap : l.start + cfg.period ≤ now) : WinInv cfg (openWin l now) := by
  obtain ⟨⟨g, older, hw, hlt⟩, hcut, hflat⟩ := h
  refine ⟨⟨[], l.wins, by simp [openWin], by simp⟩, ?_, ?_⟩
  · simp only [openWin, hw, Cut, CutBelow]
    rw [hw] at hcut
    obtain ⟨h1, h2, h3⟩ := hcut
    refine ⟨by simp, by simp, hgap, h1, ?_, h3⟩
    intro t ht
    exact ⟨h2 t ht, by have := hlt t ht; omega⟩
  · simp [openWin, flat, hflat]

theorem grant_win (cfg : Cfg) (l : Lim) (now : Nat) (h : WinInv cfg l)
    (hlen : curLen l < cfg.limit) (hs : l.start ≤ now) (hlt : now < l.start + cfg.period) :
    WinInv cfg (grant l now) ∧ curLen (grant l now) = curLen l + 1 := by
  obtain ⟨⟨g, older, hw, hglt⟩, hcut, hflat⟩ := h
  have hcl : curLen l = g.length := by simp [curLen, hw]
  refine ⟨⟨⟨g ++ [now], older, by simp [grant, pushWin, hw], ?_⟩, ?_, ?_⟩, ?_⟩
  · intro t ht
    rcases List.mem_append.mp ht with ht | ht
    · exact hglt t ht
    · simp at ht; simp [grant, ht]; exact hlt
  · simp only [grant, pushWin, hw, Cut]
    rw [hw] at hcut
    obtain ⟨h1, h2, h3⟩ := hcut
    refine ⟨by simp; omega, ?_, h3⟩
    intro t ht
    rcases List.mem_append.mp ht with ht | ht
    · exact h2 t ht
    · simp at ht; omega
  · simp only [grant, pushWin, hw, flat]
    rw [← hflat, hw]; simp [flat, List.append_assoc]
  · simp [curLen, grant, pushWin, hw]

/-! ### fixed window -/

theorem roomFixed_inv (cfg : Cfg) (l : Lim) (now : Nat) (hk : cfg.kind = .fixed)
    (hP : 1 ≤ cfg.period) (hmono : l.lastTry ≤ now) (h : LimInv cfg l) :
    LimInv cfg { (roomFixed cfg l now).1 with lastTry := now } := by
  have hne : cfg.kind ≠ .slog := by rw [hk]; decide
  -- state after the roll
  have hroll : WinInv cfg (fixedRoll cfg l now) ∧ curLen (fixedRoll cfg l now) + (fixedRoll cfg l now).avail = cfg.limit
      ∧ (fixedRoll cfg l now).start ≤ now ∧ now < (fixedRoll cfg l now).start + cfg.period
      ∧ (fixedRoll cfg l now).grants = l.grants ∧ (fixedRoll cfg l now).ts = l.ts := by
    unfold fixedRoll
    split
    · rename_i hge
      have hs := h.startLe
      refine ⟨openWin_win cfg _ now ⟨(h.win hne).head, (h.win hne).cut, (h.win hne).flat⟩ (by simp; omega), ?_, ?_, ?_, ?_, ?_⟩
      · simp [openWin, curLen]
      · simp [openWin]
      · simp [openWin]; omega
      · simp [openWin]
      · simp [openWin]
    · rename_i hlt
      have hs := h.startLe
      exact ⟨h.win hne, h.fixed hk, by omega, by omega, rfl, rfl⟩
  obtain ⟨hw, hc, hs, hlt, hg, hts⟩ := hroll
  unfold roomFixed
  simp only
  split
  · rename_i hav
    obtain ⟨hw', hcl'⟩ := grant_win cfg { fixedRoll cfg l now with avail := (fixedRoll cfg l now).avail - 1 } now
      ⟨hw.head, hw.cut, hw.flat⟩ (by show curLen (fixedRoll cfg l now) < cfg.limit; omega) hs hlt
    refine ⟨by simpa [grant] using hs, ?_, ?_, fun _ => ⟨hw'.head, hw'.cut, hw'.flat⟩, ?_, ?_, ?_, ?_, ?_⟩
    · intro t ht; simp [grant, hts] at ht; have := h.tsLe t ht; simp; omega
    · intro t ht
      simp [grant, hg] at ht
      rcases ht with ht | ht
      · have := h.grantsLe t ht; simp; omega
      · simp; omega
    · intro _
      have : curLen (grant { fixedRoll cfg l now with avail := (fixedRoll cfg l now).avail - 1 } now)
          = curLen (fixedRoll cfg l now) + 1 := hcl'
      show curLen (grant _ now) + _ = _
      rw [this]; simp [grant]; omega
    · intro hc'; rw [hk] at hc'; cases hc'
    · intro hc'; rw [hk] at hc'; cases hc'
    · intro hc'; rw [hk] at hc'; cases hc'
    · intro _; simpa [grant] using hlt
  · refine ⟨by simpa using hs, ?_, ?_, fun _ => ⟨hw.head, hw.cut, hw.flat⟩, fun _ => hc, ?_, ?_, ?_, ?_⟩
    · intro t ht; simp [hts] at ht; have := h.tsLe t ht; simp; omega
    · intro t ht; simp [hg] at ht; have := h.grantsLe t ht; simp; omega
    · intro hc'; rw [hk] at hc'; cases hc'
    · intro hc'; rw [hk] at hc'; cases hc'
    · intro hc'; rw [hk] at hc'; cases hc'
    · intro _; simpa using hlt

/-! ### sliding counter -/

/-- the number of grants filed under the current window never exceeds the limit -/
theorem curLen_le (cfg : Cfg) (l : Lim) (h : WinInv cfg l) : curLen l ≤ cfg.limit := by
  obtain ⟨⟨g, older, hw, _⟩, hcut, _⟩ := h
  rw [hw] at hcut
  simp only [curLen, hw]
  exact hcut.1

theorem roomCounter_inv (cfg : Cfg) (l : Lim) (now : Nat) (fx : Fx) (hk : cfg.kind = .counter)
    (hP : 1 ≤ cfg.period) (hmono : l.lastTry ≤ now) (h : LimInv cfg l) :
    LimInv cfg { (roomCounter cfg l now fx).1 with lastTry := now } := by
  have hne : cfg.kind ≠ .slog := by rw [hk]; decide
  have hroll : WinInv cfg (counterRoll cfg l now fx.b1) ∧ curLen (counterRoll cfg l now fx.b1) = (counterRoll cfg l now fx.b1).cur
      ∧ (counterRoll cfg l now fx.b1).start ≤ now ∧ now < (counterRoll cfg l now fx.b1).start + cfg.period
      ∧ (counterRoll cfg l now fx.b1).grants = l.grants ∧ (counterRoll cfg l now fx.b1).ts = l.ts
      ∧ (counterRoll cfg l now fx.b1).prev ≤ cfg.limit := by
    unfold counterRoll
    simp only
    split
    · rename_i hge
      have hs := h.startLe
      refine ⟨openWin_win cfg _ now ⟨(h.win hne).head, (h.win hne).cut, (h.win hne).flat⟩ (by simp; omega), ?_, ?_, ?_, ?_, ?_, ?_⟩
      · simp [openWin, curLen]
      · simp [openWin]
      · simp [openWin]; omega
      · simp [openWin]
      · simp [openWin]
      · have hc := curLen_le cfg l (h.win hne)
        have hcc := h.counter hk
        simp only [openWin]
        split <;> omega
    · rename_i hlt
      have hs := h.startLe
      exact ⟨h.win hne, h.counter hk, by omega, by omega, rfl, rfl, h.prevLe hk⟩
  obtain ⟨hw, hc, hs, hlt, hg, hts, hpl⟩ := hroll
  unfold roomCounter
  simp only
  split
  · rename_i hroom
    have hcur : (counterRoll cfg l now fx.b1).cur < cfg.limit := by
      rcases hroom with hroom | ⟨hb, _⟩
      · have h1 : (counterRoll cfg l now fx.b1).cur * cfg.period < cfg.limit * cfg.period :=
          Nat.lt_of_le_of_lt (Nat.le_add_left _ _) hroom
        exact Nat.lt_of_mul_lt_mul_right h1
      · -- on the boundary with a non-empty previous bucket, part-way into the bucket: the current bucket is not full
        simp only [onBoundary, Bool.and_eq_true, decide_eq_true_eq] at hb
        obtain ⟨⟨heq, hp0, _⟩, _⟩ := hb
        have hpos : 0 < (counterRoll cfg l now fx.b1).prev * (cfg.period - (now - (counterRoll cfg l now fx.b1).start)) :=
          Nat.mul_pos hp0 (by omega)
        have h1 : (counterRoll cfg l now fx.b1).cur * cfg.period < cfg.limit * cfg.period := by omega
        exact Nat.lt_of_mul_lt_mul_right h1
    obtain ⟨hw', hcl'⟩ := grant_win cfg { counterRoll cfg l now fx.b1 with cur := (counterRoll cfg l now fx.b1).cur + 1 } now
      ⟨hw.head, hw.cut, hw.flat⟩ (by show curLen (counterRoll cfg l now fx.b1) < cfg.limit; omega) hs hlt
    refine ⟨by simpa [grant] using hs, ?_, ?_, fun _ => ⟨hw'.head, hw'.cut, hw'.flat⟩, ?_, ?_, ?_, ?_, ?_⟩
    · intro t ht; simp [grant, hts] at ht; have := h.tsLe t ht; simp; omega
    · intro t ht
      simp [grant, hg] at ht
      rcases ht with ht | ht
      · have := h.grantsLe t ht; simp; omega
      · simp; omega
    · intro hc'; rw [hk] at hc'; cases hc'
    · intro _
      have : curLen (grant { counterRoll cfg l now fx.b1 with cur := (counterRoll cfg l now fx.b1).cur + 1 } now)
          = curLen (counterRoll cfg l now fx.b1) + 1 := hcl'
      show curLen (grant _ now) = _
      rw [this]; simp [grant]; omega
    · intro hc'; rw [hk] at hc'; cases hc'
    · intro _; simpa [grant] using hpl
    · intro _; simpa [grant] using hlt
  · refine ⟨by simpa using hs, ?_, ?_, fun _ => ⟨hw.head, hw.cut, hw.flat⟩, ?_, fun _ => hc, ?_, fun _ => hpl, ?_⟩
    · intro t ht; simp [hts] at ht; have := h.tsLe t ht; simp; omega
    · intro t ht; simp [hg] at ht; have := h.grantsLe t ht; simp; omega
    · intro hc'; rw [hk] at hc'; cases hc'
    · intro hc'; rw [hk] at hc'; cases hc'
    · intro _; simpa using hlt

/-! ### sliding log -/

theorem expire_split (w now : Nat) (l : List Nat) (hle : ∀ t ∈ l, t ≤ now) :
    ∃ e, l = e ++ expire w now l ∧ ∀ t ∈ e, t + w ≤ now := by
  induction l with
  | nil => exact ⟨[], rfl, by simp⟩
  | cons t ts ih =>
    unfold expire
    split
    · obtain ⟨e, he, hd⟩ := ih (fun x hx => hle x (List.mem_cons_of_mem _ hx))
      refine ⟨t :: e, by rw [List.cons_append, ← he], ?_⟩
      intro x hx
      cases hx with
      | head => have := hle t (List.mem_cons_self); omega
      | tail _ h => exact hd x h
    · exact ⟨[], rfl, by simp⟩

/-- after pruning, the front entry (if any) is younger than the window -/
theorem expire_head (w now : Nat) (l : List Nat) (t : Nat) (rest : List Nat)
    (h : expire w now l = t :: rest) : now - t < w := by
  induction l with
  | nil => simp [expire] at h
  | cons x xs ih =>
    unfold expire at h
    split at h
    · exact ih h
    · rename_i hlt
      cases h
      omega

theorem roomLog_inv (cfg : Cfg) (l : Lim) (now : Nat) (hk : cfg.kind = .slog)
    (hmono : l.lastTry ≤ now) (h : LimInv cfg l) :
    LimInv cfg { (roomLog cfg l now).1 with lastTry := now } := by
  obtain ⟨⟨dropped, hsplit, hdrop⟩, hspan⟩ := h.slog hk
  have hle := h.grantsLe
  have hlog_le : ∀ t ∈ l.ts, t ≤ now := fun t ht => Nat.le_trans (h.tsLe t ht) hmono
  obtain ⟨e, he, hexp⟩ := expire_split cfg.period now l.ts hlog_le
  have hsub : ∀ t ∈ expire cfg.period now l.ts, t ∈ l.ts := by
    intro t ht; rw [he]; exact List.mem_append_right _ ht
  have hs := h.startLe
  have hkf : cfg.kind ≠ .fixed := by rw [hk]; decide
  have hkc : cfg.kind ≠ .counter := by rw [hk]; decide
  unfold roomLog
  simp only
  split
  · rename_i hlen
    refine ⟨by simp; omega, ?_, ?_, fun hc => absurd hk hc, fun hc => absurd hc hkf, fun hc => absurd hc hkc, fun _ => ⟨⟨dropped ++ e, ?_, ?_⟩, ?_⟩,
      fun hc => absurd hc hkc, fun hc => absurd hk hc⟩
    · intro t ht
      show t ≤ now
      simp at ht
      rcases ht with ht | ht
      · exact hlog_le t (hsub t ht)
      · omega
    · intro t ht
      show t ≤ now
      simp at ht
      rcases ht with ht | ht
      · exact Nat.le_trans (hle t ht) hmono
      · omega
    · simp only; rw [hsplit]; conv => lhs; rw [he]
      simp [List.append_assoc]
    · intro d hd
      simp only
      rcases List.mem_append.mp hd with hd | hd
      · have := hdrop d hd; omega
      · exact hexp d hd
    · intro i hi
      simp only [List.length_append, List.length_cons, List.length_nil] at hi
      simp only
      by_cases hlast : i + cfg.limit < l.grants.length
      · have := hspan i hlast
        rw [List.getElem_append_left (by omega), List.getElem_append_left hlast]
        exact this
      · have hiL : i + cfg.limit = l.grants.length := by omega
        have hglen : l.grants.length = dropped.length + e.length + (expire cfg.period now l.ts).length := by
          rw [hsplit]; conv => lhs; rw [he]
          simp [List.length_append]; omega
        have hi_lt : i < (dropped ++ e).length := by simp [List.length_append]; omega
        have hgr : l.grants = (dropped ++ e) ++ expire cfg.period now l.ts := by
          rw [hsplit]; conv => lhs; rw [he]
          simp [List.append_assoc]
        have hmem : l.grants[i]'(by omega) ∈ dropped ++ e := by
          have : l.grants[i]'(by omega) = (dropped ++ e)[i] := by
            simp only [hgr]; rw [List.getElem_append_left hi_lt]
          rw [this]; exact List.getElem_mem _
        have hold : l.grants[i]'(by omega) + cfg.period ≤ now := by
          rcases List.mem_append.mp hmem with hd | hd
          · have := hdrop _ hd; omega
          · exact hexp _ hd
        rw [List.getElem_append_left (by omega)]
        have : (l.grants ++ [now])[i + cfg.limit]'(by simp; omega) = now := by
          rw [List.getElem_append_right (by omega)]; simp [hiL]
        rw [this]; exact hold
  · refine ⟨by simp; omega, ?_, ?_, fun hc => absurd hk hc, fun hc => absurd hc hkf, fun hc => absurd hc hkc, fun _ => ⟨⟨dropped ++ e, ?_, ?_⟩, hspan⟩,
      fun hc => absurd hc hkc, fun hc => absurd hk hc⟩
    · intro t ht; exact hlog_le t (hsub t ht)
    · intro t ht; exact Nat.le_trans (hle t ht) hmono
    · simp only; rw [hsplit]; conv => lhs; rw [he]
      simp [List.append_assoc]
    · intro d hd
      simp only
      rcases List.mem_append.mp hd with hd | hd
      · have := hdrop d hd; omega
      · exact hexp d hd

/-- one `try_acquire` keeps the limiter invariant (time does not go backwards) -/
theorem room_inv (cfg : Cfg) (l : Lim) (now : Nat) (fx : Fx) (hP : 1 ≤ cfg.period)
    (hmono : l.lastTry ≤ now) (h : LimInv cfg l) : LimInv cfg (room cfg l now fx).1 := by
  unfold room
  cases hk : cfg.kind with
  | fixed => exact roomFixed_inv cfg l now hk hP hmono h
  | slog => exact roomLog_inv cfg l now hk hmono h
  | counter => exact roomCounter_inv cfg l now fx hk hP hmono h

theorem room_lastTry (cfg : Cfg) (l : Lim) (now : Nat) (fx : Fx) : (room cfg l now fx).1.lastTry = now := rfl

/-! ### what one `try_acquire` does to the grant history, and what it answers -/

theorem room_grants (cfg : Cfg) (l : Lim) (now : Nat) (fx : Fx) :
    (room cfg l now fx).1.grants = if (room cfg l now fx).2 then l.grants ++ [now] else l.grants := by
  unfold room
  cases hk : cfg.kind with
  | fixed =>
    simp only [roomFixed]
    have hg : (fixedRoll cfg l now).grants = l.grants := by unfold fixedRoll; split <;> simp [openWin]
    split <;> simp [grant, hg]
  | slog =>
    simp only [roomLog]
    split <;> simp
  | counter =>
    simp only [roomCounter]
    have hg : (counterRoll cfg l now fx.b1).grants = l.grants := by unfold counterRoll; simp only; split <;> simp [openWin]
    split <;> simp [grant, hg]

/-- A wait answer that puts the caller to sleep: positive, at most the timeout; for the fixed
window the sleep ends exactly at the end of the current window. -/
theorem noRoomAns_wait (cfg : Cfg) (l : Lim) (now : Nat) (rej : Bool) (fx : Fx) (lo hi : Nat)
    (h : noRoomAns cfg l now rej fx = .wait lo hi) (hhi : hi ≠ 0) :
    0 < lo ∧ lo ≤ hi ∧ hi ≤ cfg.timeout ∧
    (cfg.kind = .fixed → l.start ≤ now → now + lo = l.start + cfg.period) := by
  unfold noRoomAns at h
  cases hk : cfg.kind with
  | fixed =>
    simp only [hk] at h
    split at h
    · cases h
    · injection h with h1 h2
      refine ⟨by omega, by omega, by omega, fun _ hs => by omega⟩
  | slog =>
    simp only [hk] at h
    split at h
    · injection h with h1 h2; omega
    · split at h
      · cases h
      · injection h with h1 h2
        exact ⟨by omega, by omega, by omega, fun hc => by cases hc⟩
  | counter =>
    simp only [hk] at h
    split at h
    · split at h
      · injection h with h1 h2; omega
      · cases h
    · split at h
      · split at h <;> cases h
      · split at h
        · injection h with h1 h2
          rename_i hmin
          have : min cfg.timeout (cfg.period - (now - l.start)) ≤ cfg.timeout := Nat.min_le_left _ _
          exact ⟨by omega, by omega, by omega, fun hc => by cases hc⟩
        · cases h

/-- Sliding counter, `Good` configuration: when the exact test finds no room the wait estimate is at least one
nanosecond (`estimate ≥ bucket / (10·previous_count)`, `previous_count ≤ limit`, `bucket ≥ 10·limit` ns), so the
code cannot have returned `Duration::ZERO`. -/
theorem counter_no_zero (cfg : Cfg) (l : Lim) (now : Nat) (hG : Good cfg) (hk : cfg.kind = .counter)
    (hprev : l.prev ≤ cfg.limit) (hlt : now - l.start < cfg.period)
    (hno : ¬ (l.prev * (cfg.period - (now - l.start)) + l.cur * cfg.period < cfg.limit * cfg.period)) :
    zeroOk cfg l now = false := by
  have hZ := hG.est hk
  have hL := hG.limit
  have ht : 1 ≤ cfg.tickNs := by
    rcases Nat.eq_zero_or_pos cfg.tickNs with h0 | h0
    · rw [h0] at hZ; omega
    · exact h0
  simp only [zeroOk, decide_eq_false_iff_not, Nat.not_lt]
  unfold estFrac
  simp only
  split
  · simp only
    have h1 : 1 ≤ cfg.period - (now - l.start) := by omega
    calc 1 = 1 * 1 := rfl
      _ ≤ (cfg.period - (now - l.start)) * cfg.tickNs := Nat.mul_le_mul h1 ht
  · simp only
    -- n ≥ B: from the failed test, prev·e ≤ (prev + cur − L)·B
    have hmul : l.prev * (cfg.period - (now - l.start)) = l.prev * cfg.period - l.prev * (now - l.start) :=
      Nat.mul_sub l.prev cfg.period (now - l.start)
    have hpe : l.prev * (now - l.start) ≤ l.prev * cfg.period := Nat.mul_le_mul_left _ (by omega)
    have hA : (l.prev + l.cur - cfg.limit) * cfg.period = l.prev * cfg.period + l.cur * cfg.period - cfg.limit * cfg.period := by
      rw [Nat.sub_mul, Nat.add_mul]
    have hn : (10 * (l.prev + l.cur - cfg.limit) + 1) * cfg.period
        = 10 * ((l.prev + l.cur - cfg.limit) * cfg.period) + cfg.period := by
      rw [Nat.add_mul, Nat.mul_assoc, Nat.one_mul]
    have hpe10 : 10 * l.prev * (now - l.start) = 10 * (l.prev * (now - l.start)) := Nat.mul_assoc _ _ _
    have hB : cfg.period ≤ (10 * (l.prev + l.cur - cfg.limit) + 1) * cfg.period - 10 * l.prev * (now - l.start) := by
      rw [hn, hpe10, hA]
      rw [hmul] at hno
      omega
    calc 10 * l.prev ≤ 10 * cfg.limit := by omega
      _ ≤ cfg.period * cfg.tickNs := hZ
      _ ≤ ((10 * (l.prev + l.cur - cfg.limit) + 1) * cfg.period - 10 * l.prev * (now - l.start)) * cfg.tickNs :=
          Nat.mul_le_mul_right _ hB

/-- For a `Good` configuration a `try_acquire` that took no permit never answers `Ok(Duration::ZERO)`. -/
theorem no_zero_wait (cfg : Cfg) (l : Lim) (now : Nat) (rej : Bool) (fx : Fx) (hG : Good cfg)
    (hmono : l.lastTry ≤ now) (h : LimInv cfg l)
    (hr : (room cfg l now fx).2 = false) :
    zeroWait (noRoomAns cfg (room cfg l now fx).1 now rej fx) = false := by
  have hL := hG.limit
  have hinv := room_inv cfg l now fx hG.period hmono h
  revert hinv
  unfold room at hr ⊢
  unfold noRoomAns
  cases hk : cfg.kind with
  | fixed =>
    intro _
    simp only [hk] at hr ⊢
    unfold roomFixed at hr ⊢
    simp only at hr ⊢
    split at hr
    · cases hr
    · rename_i hav
      simp only [hav, if_false]
      have hnr : ¬ (now - l.start ≥ cfg.period) := by
        intro hge
        apply hav
        unfold fixedRoll
        simp [hge, openWin]; omega
      have hst : (fixedRoll cfg l now).start = l.start := by unfold fixedRoll; simp [hnr]
      simp only [hst]
      split
      · rfl
      · simp [zeroWait]; omega
  | slog =>
    intro _
    simp only [hk] at hr ⊢
    unfold roomLog at hr ⊢
    simp only at hr ⊢
    split at hr
    · cases hr
    · rename_i hlen
      simp only [hlen, if_false]
      cases hex : expire cfg.period now l.ts with
      | nil => simp [hex] at hlen; omega
      | cons t rest =>
        simp only
        have := expire_head _ _ _ _ _ hex
        split
        · rfl
        · simp [zeroWait]; omega
  | counter =>
    intro hinv
    simp only [hk] at hr hinv ⊢
    have hne : cfg.kind ≠ .slog := by rw [hk]; decide
    have hpl := hinv.prevLe hk
    have hiw := hinv.inWin hne
    have hsl := hinv.startLe
    simp only at hpl hiw hsl
    unfold roomCounter at hr hpl hiw hsl ⊢
    simp only at hr hpl hiw hsl ⊢
    split at hr
    · cases hr
    · rename_i hno
      simp only [hno, if_false] at hpl hiw hsl ⊢
      have hno' : ¬ ((counterRoll cfg l now fx.b1).prev * (cfg.period - (now - (counterRoll cfg l now fx.b1).start))
          + (counterRoll cfg l now fx.b1).cur * cfg.period < cfg.limit * cfg.period) := fun hh => hno (Or.inl hh)
      have hz : zeroOk cfg { counterRoll cfg l now fx.b1 with lastTry := now } now = false :=
        counter_no_zero cfg _ now hG hk hpl (by simp only; omega) hno'
      split
      · rw [hz]; rfl
      · split
        · split <;> rfl
        · split
          · rename_i hmin; simp [zeroWait]; omega
          · rfl

/-! ## Part 2 — idle refill -/

/-- the instants are non-decreasing and not before the first argument -/
def Mono : Nat → List Nat → Prop
  | _, [] => True
  | last, t :: ts => last ≤ t ∧ Mono t ts

/-- every one of the successive `try_acquire`s at the given instants (with the given observed choices) takes a permit -/
def AllGranted (cfg : Cfg) : Lim → List (Nat × Fx) → Prop
  | _, [] => True
  | l, p :: ts => (room cfg l p.1 p.2).2 = true ∧ AllGranted cfg (room cfg l p.1 p.2).1 ts

/-- At least `k` more grants are guaranteed at any instants from `t` on. `strict = true`: whatever the observed
choices are; `strict = false`: provided the `f64` bucket count at exactly two buckets comes out as 2 (`b1 = false`). -/
def Spare (strict : Bool) (cfg : Cfg) (l : Lim) (t k : Nat) : Prop :=
  k ≤ cfg.limit ∧
  match cfg.kind with
  | .fixed => k ≤ l.avail ∨ l.start + cfg.period ≤ t
  | .slog => (expire cfg.period t l.ts).length + k ≤ cfg.limit
  | .counter => l.prev + l.cur + k ≤ cfg.limit ∨
      (if strict then l.start + 2 * cfg.period < t else l.start + 2 * cfg.period ≤ t)

/-- two or more buckets have passed, and at exactly two the float quotient did not slip below 2 -/
theorem twoBuckets_true (cfg : Cfg) (e : Nat) (b1 : Bool) (hP : 1 ≤ cfg.period) (he : 2 * cfg.period ≤ e)
    (hb : e = 2 * cfg.period → b1 = false) : twoBuckets cfg e b1 = true := by
  unfold twoBuckets
  split
  · rename_i h2; simp [hb h2]
  · have h2 : 2 ≤ e / cfg.period := by rw [Nat.le_div_iff_mul_le (by omega)]; omega
    simpa using h2

theorem expire_len_le (w now : Nat) (l : List Nat) : (expire w now l).length ≤ l.length := by
  induction l with
  | nil => simp [expire]
  | cons x xs ih => unfold expire; split <;> simp <;> omega

theorem expire_len_mono (w t t' : Nat) (l : List Nat) (h : t ≤ t') :
    (expire w t' l).length ≤ (expire w t l).length := by
  induction l with
  | nil => simp [expire]
  | cons x xs ih =>
    by_cases hx : t - x ≥ w
    · have hx' : t' - x ≥ w := by omega
      rw [expire, expire]; simp only [hx, hx', if_true]; exact ih
    · have : expire w t (x :: xs) = x :: xs := by rw [expire]; simp [hx]
      rw [this]; exact expire_len_le _ _ _

theorem expire_all (w now : Nat) (l : List Nat) (h : ∀ x ∈ l, x + w ≤ now) : expire w now l = [] := by
  induction l with
  | nil => rfl
  | cons x xs ih =>
    have := h x List.mem_cons_self
    rw [expire]
    have hx : now - x ≥ w := by omega
    simp only [hx, if_true]
    exact ih (fun y hy => h y (List.mem_cons_of_mem _ hy))

theorem spare_step (strict : Bool) (cfg : Cfg) (l : Lim) (t t' k : Nat) (fx : Fx) (hP : 1 ≤ cfg.period)
    (hb : strict = false → fx.b1 = false)
    (h : Spare strict cfg l t (k + 1)) (ht : t ≤ t') :
    (room cfg l t' fx).2 = true ∧ Spare strict cfg (room cfg l t' fx).1 t' k := by
  obtain ⟨hk1, h⟩ := h
  unfold room Spare
  cases hk : cfg.kind with
  | fixed =>
    simp only [hk] at h ⊢
    unfold roomFixed
    simp only
    by_cases hge : t' - l.start ≥ cfg.period
    · have hr : fixedRoll cfg l t' = openWin { l with avail := cfg.limit } t' := by unfold fixedRoll; simp [hge]
      rw [hr]
      have : (openWin { l with avail := cfg.limit } t').avail > 0 := by simp [openWin]; omega
      simp only [this, if_true]
      refine ⟨by first | rfl | trivial, by omega, Or.inl ?_⟩
      simp [grant, openWin]; omega
    · have hr : fixedRoll cfg l t' = l := by unfold fixedRoll; simp [hge]
      rw [hr]
      have hav : k + 1 ≤ l.avail := by rcases h with h | h <;> omega
      have : l.avail > 0 := by omega
      simp only [this, if_true]
      refine ⟨by first | rfl | trivial, by omega, Or.inl ?_⟩
      simp [grant]; omega
  | slog =>
    simp only [hk] at h ⊢
    unfold roomLog
    simp only
    have hm := expire_len_mono cfg.period t t' l.ts ht
    have hlt : (expire cfg.period t' l.ts).length < cfg.limit := by omega
    simp only [hlt, if_true]
    refine ⟨by first | rfl | trivial, by omega, ?_⟩
    have := expire_len_le cfg.period t' (expire cfg.period t' l.ts ++ [t'])
    simp at this ⊢
    omega
  | counter =>
    simp only [hk] at h ⊢
    unfold roomCounter
    simp only
    -- the bucket after `maybe_rotate_bucket`
    have hroll : (counterRoll cfg l t' fx.b1).prev + (counterRoll cfg l t' fx.b1).cur + (k + 1) ≤ cfg.limit := by
      unfold counterRoll
      simp only
      split
      · rename_i hge
        rcases h with h | h
        · simp [openWin]; split <;> omega
        · have h2 : twoBuckets cfg (t' - l.start) fx.b1 = true := by
            apply twoBuckets_true cfg _ _ hP
            · cases strict <;> simp at h <;> omega
            · intro he
              cases strict with
              | true => simp at h; omega
              | false => exact hb rfl
          simp [openWin, h2]; omega
      · rename_i hlt
        rcases h with h | h
        · exact h
        · cases strict <;> simp at h <;> omega
    have htest : (counterRoll cfg l t' fx.b1).prev * (cfg.period - (t' - (counterRoll cfg l t' fx.b1).start))
        + (counterRoll cfg l t' fx.b1).cur * cfg.period < cfg.limit * cfg.period := by
      have h1 : (counterRoll cfg l t' fx.b1).prev * (cfg.period - (t' - (counterRoll cfg l t' fx.b1).start))
          ≤ (counterRoll cfg l t' fx.b1).prev * cfg.period := Nat.mul_le_mul_left _ (Nat.sub_le _ _)
      have h2 : ((counterRoll cfg l t' fx.b1).prev + (counterRoll cfg l t' fx.b1).cur + 1) * cfg.period ≤ cfg.limit * cfg.period :=
        Nat.mul_le_mul_right _ (by omega)
      rw [Nat.add_mul, Nat.add_mul] at h2
      omega
    have htest' : (counterRoll cfg l t' fx.b1).prev * (cfg.period - (t' - (counterRoll cfg l t' fx.b1).start))
        + (counterRoll cfg l t' fx.b1).cur * cfg.period < cfg.limit * cfg.period ∨
        (onBoundary cfg (counterRoll cfg l t' fx.b1) (t' - (counterRoll cfg l t' fx.b1).start) = true ∧ fx.adm = true) :=
      Or.inl htest
    simp only [htest', if_true]
    refine ⟨by first | rfl | trivial, by omega, Or.inl ?_⟩
    simp [grant]; omega

theorem spare_mono (strict : Bool) (cfg : Cfg) (l : Lim) (t k k' : Nat) (h : Spare strict cfg l t k) (hk : k' ≤ k) :
    Spare strict cfg l t k' := by
  obtain ⟨h0, h⟩ := h
  refine ⟨by omega, ?_⟩
  cases hkind : cfg.kind <;> simp only [hkind] at h ⊢
  · rcases h with h | h
    · exact Or.inl (by omega)
    · exact Or.inr h
  · omega
  · rcases h with h | h
    · exact Or.inl (by omega)
    · exact Or.inr h

theorem spare_all (strict : Bool) (cfg : Cfg) (hP : 1 ≤ cfg.period) (ts : List (Nat × Fx))
    (hb : strict = false → ∀ p ∈ ts, p.2.b1 = false) :
    ∀ (l : Lim) (t k : Nat), Spare strict cfg l t k → Mono t (ts.map Prod.fst) → ts.length ≤ k → AllGranted cfg l ts := by
  induction ts with
  | nil => intros; trivial
  | cons x xs ih =>
    intro l t k hs hm hlen
    simp at hlen
    have hk1 : k - 1 + 1 = k := by omega
    have hs1 : Spare strict cfg l t (k - 1 + 1) := by rw [hk1]; exact hs
    obtain ⟨hr, hs'⟩ := spare_step strict cfg l t x.1 (k - 1) x.2 hP (fun h => hb h x List.mem_cons_self) hs1 hm.1
    exact ⟨hr, ih (fun h p hp => hb h p (List.mem_cons_of_mem _ hp)) _ x.1 (k - 1) hs' hm.2 (by omega)⟩

/-- after two periods without a `try_acquire` the limiter has `limit` grants to spare (sliding counter: unless the
float bucket count slips at exactly two buckets — `strict = false`) -/
theorem idle_spare (cfg : Cfg) (l : Lim) (t : Nat) (h : LimInv cfg l)
    (hidle : l.lastTry + 2 * cfg.period ≤ t) : Spare false cfg l t cfg.limit := by
  refine ⟨Nat.le_refl _, ?_⟩
  cases hk : cfg.kind <;> simp only
  · have := h.startLe; exact Or.inr (by omega)
  · have : expire cfg.period t l.ts = [] := by
      apply expire_all
      intro x hx
      have := h.tsLe x hx; omega
    simp [this]
  · have := h.startLe; exact Or.inr (by simp; omega)

/-- after more than two periods without a `try_acquire` the limiter has `limit` grants to spare, whatever the
observed choices are -/
theorem idle_spare_strict (cfg : Cfg) (l : Lim) (t : Nat) (h : LimInv cfg l)
    (hidle : l.lastTry + 2 * cfg.period < t) : Spare true cfg l t cfg.limit := by
  refine ⟨Nat.le_refl _, ?_⟩
  cases hk : cfg.kind <;> simp only
  · have := h.startLe; exact Or.inr (by omega)
  · have : expire cfg.period t l.ts = [] := by
      apply expire_all
      intro x hx
      have := h.tsLe x hx; omega
    simp [this]
  · have := h.startLe; exact Or.inr (by simp; omega)

/-! ## Part 3 — callers -/

def callOf : Ev → Option Nat
  | .innerCall c _ => some c
  | _ => none

/-- the callers of the `inner_call` events of a trace, in order -/
def callList (l : List Ev) : List Nat := l.filterMap callOf

/-- number of `inner_call` events for caller `c` in a trace -/
def callsOf (c : Nat) (l : List Ev) : Nat := (callList l).count c

/-- 1 for a caller that has reached the inner service, else 0 -/
def admittedPh : Option Phase → Nat
  | some (.running _) => 1
  | some (.done true) => 1
  | _ => 0

/-- the state invariant; `pend` = grants taken by the step in progress whose inner call has not
been made yet (`[]` between steps). It holds in every reachable state of EVERY configuration: the limiter's
own windows / spans (`lim`) need `period ≥ 1` only, "admissions = grants" and the fixed-window clause of `sleep`
are stated under `Good cfg`, the routing parts
(`calls`, `count`, `rl`, `nr`, `res`) and the sleepers' deadlines unconditionally. -/
structure SInvP (cfg : Cfg) (s : State) (pend : List Nat) : Prop where
  lim    : 1 ≤ cfg.period → LimInv cfg s.lim
  limNow : s.lim.lastTry ≤ s.now
  grants : Good cfg → s.admits.map Prod.snd ++ pend = s.lim.grants
  calls  : callList s.log = s.admits.map Prod.fst
  count  : ∀ c, (s.admits.map Prod.fst).count c = admittedPh (phaseOf s c)
  rl     : ∀ c, Ev.result c .rateLimited ∈ s.log → phaseOf s c = some (.done false)
  nr     : ∀ c, Ev.result c .notReady ∈ s.log → phaseOf s c = some (.done false)
  res    : ∀ c r, r ≠ .rateLimited → r ≠ .notReady → Ev.result c r ∈ s.log → phaseOf s c = some (.done true)
  sleep  : ∀ c arr lo hi, phaseOf s c = some (.sleeping arr lo hi) →
             arr < lo ∧ lo ≤ hi ∧ hi ≤ arr + cfg.timeout ∧ arr ≤ s.now ∧
             (Good cfg → cfg.kind = .fixed → lo ≤ s.lim.start ∨ lo = s.lim.start + cfg.period)

abbrev SInv (cfg : Cfg) (s : State) : Prop := SInvP cfg s []

theorem lookup_cons {α : Type} (l : List (Nat × α)) (k c : Nat) (v : α) :
    lookup ((k, v) :: l) c = if k = c then some v else lookup l c := rfl

theorem room_start_fixed (cfg : Cfg) (l : Lim) (now : Nat) (fx : Fx) (hk : cfg.kind = .fixed) :
    (now - l.start ≥ cfg.period ∧ (room cfg l now fx).1.start = now) ∨
    (now - l.start < cfg.period ∧ (room cfg l now fx).1.start = l.start) := by
  unfold room
  simp only [hk, roomFixed]
  by_cases hge : now - l.start ≥ cfg.period
  · left
    refine ⟨hge, ?_⟩
    have hr : fixedRoll cfg l now = openWin { l with avail := cfg.limit } now := by unfold fixedRoll; simp [hge]
    rw [hr]; split <;> simp [grant, openWin]
  · right
    refine ⟨by omega, ?_⟩
    have hr : fixedRoll cfg l now = l := by unfold fixedRoll; simp [hge]
    rw [hr]; split <;> simp [grant]

/-- the limiter part of a step: one `try_acquire` at the current instant -/
theorem room_state (cfg : Cfg) (s : State) (fx : Fx) (h : SInv cfg s) :
    SInvP cfg { s with lim := (room cfg s.lim s.now fx).1 }
      (if (room cfg s.lim s.now fx).2 then [s.now] else []) := by
  refine ⟨fun hP => room_inv cfg s.lim s.now fx hP h.limNow (h.lim hP), Nat.le_refl _, ?_, h.calls, h.count, h.rl, h.nr, h.res, ?_⟩
  · intro hG
    show s.admits.map Prod.snd ++ _ = (room cfg s.lim s.now fx).1.grants
    rw [room_grants]
    have := h.grants hG
    simp at this
    split <;> simp [this]
  · intro c arr lo hi hc
    obtain ⟨h1, h2, h3, h4, h5⟩ := h.sleep c arr lo hi hc
    refine ⟨h1, h2, h3, h4, ?_⟩
    intro hG hk
    show lo ≤ (room cfg s.lim s.now fx).1.start ∨ lo = (room cfg s.lim s.now fx).1.start + cfg.period
    rcases room_start_fixed cfg s.lim s.now fx hk with ⟨hge, hst⟩ | ⟨hlt, hst⟩
    · rw [hst]
      have hs := (h.lim hG.period).startLe
      have hn := h.limNow
      rcases h5 hG hk with h5 | h5
      · left; omega
      · left; omega
    · rw [hst]; exact h5 hG hk

theorem outcome_results (c k c' : Nat) (o : Out) (r : Res) (h : Ev.result c' r ∈ outcomeEvents c k o) :
    c' = c ∧ r ≠ .rateLimited ∧ r ≠ .notReady := by
  cases o <;> simp [outcomeEvents] at h <;> obtain ⟨h1, h2⟩ := h <;> subst h2 <;> simp [h1]

theorem outcome_calls (c k : Nat) (o : Out) : callList (outcomeEvents c k o) = [] := by
  cases o <;> rfl

/-- One caller `c` (not yet resolved) moves to phase `p`, the events `evs` are appended, the
admissions `newAdm` recorded; the limiter and the clock are untouched. -/
theorem trans_inv (cfg : Cfg) (s s' : State) (c : Nat) (p : Phase) (evs : List Ev)
    (newAdm : List (Nat × Nat)) (pend pend' : List Nat)
    (h : SInvP cfg s pend)
    (hph : s'.phase = (c, p) :: s.phase) (hlog : s'.log = s.log ++ evs)
    (hlim : s'.lim = s.lim) (hnow : s'.now = s.now) (hadm : s'.admits = s.admits ++ newAdm)
    (hq : ∀ b, phaseOf s c ≠ some (.done b))
    (hgr : Good cfg → newAdm.map Prod.snd ++ pend' = pend)
    (hcalls : callList evs = newAdm.map Prod.fst)
    (hothers : ∀ c', c' ≠ c → (newAdm.map Prod.fst).count c' = 0)
    (hcount : (newAdm.map Prod.fst).count c + admittedPh (phaseOf s c) = admittedPh (some p))
    (hrl : ∀ c', Ev.result c' .rateLimited ∈ evs → c' = c ∧ p = .done false)
    (hnr : ∀ c', Ev.result c' .notReady ∈ evs → c' = c ∧ p = .done false)
    (hres : ∀ c' r, r ≠ .rateLimited → r ≠ .notReady → Ev.result c' r ∈ evs → c' = c ∧ p = .done true)
    (hsl : ∀ arr lo hi, p = .sleeping arr lo hi →
        arr < lo ∧ lo ≤ hi ∧ hi ≤ arr + cfg.timeout ∧ arr ≤ s.now ∧
        (Good cfg → cfg.kind = .fixed → lo ≤ s.lim.start ∨ lo = s.lim.start + cfg.period)) :
    SInvP cfg s' pend' := by
  have hphase : ∀ c', phaseOf s' c' = if c = c' then some p else phaseOf s c' := by
    intro c'; unfold phaseOf; rw [hph]; rfl
  refine ⟨by rw [hlim]; exact h.lim, by rw [hlim, hnow]; exact h.limNow, ?_, ?_, ?_, ?_, ?_, ?_, ?_⟩
  · intro hG; rw [hadm, hlim, ← h.grants hG, ← hgr hG]; simp [List.append_assoc]
  · have hc0 := h.calls
    rw [hlog, hadm]
    unfold callList at *
    rw [List.filterMap_append, List.map_append, hc0, hcalls]
  · intro c'
    rw [hadm, hphase]
    simp only [List.map_append, List.count_append]
    by_cases hc : c = c'
    · subst hc; simp only [if_true]; rw [h.count]; omega
    · simp only [hc, if_false]
      rw [h.count, hothers c' (fun e => hc e.symm)]; omega
  · intro c' hm
    rw [hlog] at hm
    rw [hphase]
    rcases List.mem_append.mp hm with hm | hm
    · have := h.rl c' hm
      by_cases hc : c = c'
      · subst hc; exact absurd this (hq false)
      · simp only [hc, if_false]; exact this
    · obtain ⟨h1, h2⟩ := hrl c' hm
      subst h1; simp [h2]
  · intro c' hm
    rw [hlog] at hm
    rw [hphase]
    rcases List.mem_append.mp hm with hm | hm
    · have := h.nr c' hm
      by_cases hc : c = c'
      · subst hc; exact absurd this (hq false)
      · simp only [hc, if_false]; exact this
    · obtain ⟨h1, h2⟩ := hnr c' hm
      subst h1; simp [h2]
  · intro c' r hr hr2 hm
    rw [hlog] at hm
    rw [hphase]
    rcases List.mem_append.mp hm with hm | hm
    · have := h.res c' r hr hr2 hm
      by_cases hc : c = c'
      · subst hc; exact absurd this (hq true)
      · simp only [hc, if_false]; exact this
    · obtain ⟨h1, h2⟩ := hres c' r hr hr2 hm
      subst h1; simp [h2]
  · intro c' arr lo hi hc'
    rw [hphase] at hc'
    rw [hlim, hnow]
    by_cases hc : c = c'
    · simp only [hc, if_true] at hc'
      injection hc' with hc'
      exact hsl arr lo hi hc'
    · simp only [hc, if_false] at hc'
      exact h.sleep c' arr lo hi hc'

/-! ### the transitions of a caller -/

theorem startInner_inv (cfg : Cfg) (s : State) (c arr : Nat) (pend : List Nat) (h : SInvP cfg s pend)
    (hp : Good cfg → pend = [s.now])
    (hq : ∀ b, phaseOf s c ≠ some (.done b)) (h0 : admittedPh (phaseOf s c) = 0) :
    SInv cfg (startInner s c arr) := by
  apply trans_inv cfg s (startInner s c arr) c (.running arr) [.innerCall c s.serial] [(c, s.now)] pend [] h
    rfl rfl rfl rfl rfl hq (by intro hG; rw [hp hG]; rfl) rfl
  · intro c' hc'
    have : c ≠ c' := fun e => hc' (Eq.symm e)
    simp [this]
  · rw [h0]; simp [admittedPh]
  · intro c' hm; simp at hm
  · intro c' hm; simp at hm
  · intro c' r _ _ hm; simp at hm
  · intro arr' lo hi hp; cases hp

theorem startInner_phase (s : State) (c arr : Nat) : phaseOf (startInner s c arr) c = some (.running arr) := by
  simp [startInner, emit, setPh, phaseOf, lookup]

theorem pollRunning_inv (cfg : Cfg) (s : State) (c arr : Nat) (h : SInv cfg s)
    (hph : phaseOf s c = some (.running arr)) : SInv cfg (pollRunning s c) := by
  unfold pollRunning
  split
  · split
    · rename_i t sc k _ _ _ _
      apply trans_inv cfg s (emit (setPh s c (.done true)) (outcomeEvents c k sc.out)) c (.done true) (outcomeEvents c k sc.out) [] [] [] h rfl rfl rfl rfl (List.append_nil _).symm
      · intro b hb; rw [hph] at hb; cases hb
      · intro _; rfl
      · exact outcome_calls _ _ _
      · intro c' _; rfl
      · rw [hph]; rfl
      · intro c' hm; exact absurd rfl (outcome_results _ _ _ _ _ hm).2.1
      · intro c' hm; exact absurd rfl (outcome_results _ _ _ _ _ hm).2.2
      · intro c' r _ _ hm; exact ⟨(outcome_results _ _ _ _ _ hm).1, rfl⟩
      · intro arr' lo hi hp; cases hp
    · exact h
  · exact h

theorem admitCall_inv (cfg : Cfg) (s : State) (c arr : Nat) (pend : List Nat) (h : SInvP cfg s pend)
    (hp : Good cfg → pend = [s.now])
    (hq : ∀ b, phaseOf s c ≠ some (.done b)) (h0 : admittedPh (phaseOf s c) = 0) :
    SInv cfg (admitCall s c arr) := by
  unfold admitCall
  exact pollRunning_inv cfg _ c arr (startInner_inv cfg s c arr pend h hp hq h0) (startInner_phase s c arr)

theorem rejectCall_inv (cfg : Cfg) (s : State) (c arr : Nat) (h : SInv cfg s)
    (hq : ∀ b, phaseOf s c ≠ some (.done b)) (h0 : admittedPh (phaseOf s c) = 0) :
    SInv cfg (rejectCall s c arr) := by
  apply trans_inv cfg s (rejectCall s c arr) c (.done false) [.result c .rateLimited] [] [] [] h
    rfl rfl rfl rfl (List.append_nil _).symm hq (fun _ => rfl) rfl
  · intro c' _; rfl
  · rw [h0]; rfl
  · intro c' hm; simp at hm; exact ⟨hm, rfl⟩
  · intro c' hm; simp at hm
  · intro c' r hr _ hm; simp at hm; exact absurd hm.2 hr
  · intro arr' lo hi hp; cases hp

theorem notReadyCall_inv (cfg : Cfg) (s : State) (c : Nat) (h : SInv cfg s)
    (hq : ∀ b, phaseOf s c ≠ some (.done b)) (h0 : admittedPh (phaseOf s c) = 0) :
    SInv cfg (notReadyCall s c) := by
  apply trans_inv cfg s (notReadyCall s c) c (.done false) [.result c .notReady] [] [] [] h
    rfl rfl rfl rfl (List.append_nil _).symm hq (fun _ => rfl) rfl
  · intro c' _; rfl
  · rw [h0]; rfl
  · intro c' hm; simp at hm
  · intro c' hm; simp at hm; exact ⟨hm, rfl⟩
  · intro c' r _ hr hm; simp at hm; exact absurd hm.2 hr
  · intro arr' lo hi hp; cases hp

/-- appending events that are neither inner calls nor results changes nothing -/
theorem emit_noise_inv (cfg : Cfg) (s : State) (evs : List Ev) (pend : List Nat) (h : SInvP cfg s pend)
    (hc : callList evs = []) (hr : ∀ c r, Ev.result c r ∉ evs) : SInvP cfg (emit s evs) pend := by
  refine ⟨h.lim, h.limNow, h.grants, ?_, h.count, ?_, ?_, ?_, h.sleep⟩
  · show callList (s.log ++ evs) = _
    unfold callList at *
    rw [List.filterMap_append, hc, List.append_nil]; exact h.calls
  · intro c hm
    rcases List.mem_append.mp hm with hm | hm
    · exact h.rl c hm
    · exact absurd hm (hr c _)
  · intro c hm
    rcases List.mem_append.mp hm with hm | hm
    · exact h.nr c hm
    · exact absurd hm (hr c _)
  · intro c r hne hne2 hm
    rcases List.mem_append.mp hm with hm | hm
    · exact h.res c r hne hne2 hm
    · exact absurd hm (hr c _)

theorem badChoice_inv (cfg : Cfg) (s : State) (pend : List Nat) (h : SInvP cfg s pend) :
    SInvP cfg (badChoice s) pend :=
  emit_noise_inv cfg s _ pend h rfl (by intro c r hm; simp at hm)

theorem pollFresh_inv (cfg : Cfg) (s : State) (c : Nat) (rej : Bool) (fx : Fx)
    (h : SInv cfg s) (hph : phaseOf s c = some .fresh) :
    SInv cfg (pollFresh cfg s c rej fx) := by
  have hq : ∀ b, phaseOf { s with lim := (room cfg s.lim s.now fx).1 } c ≠ some (.done b) := by
    intro b hb; change phaseOf s c = _ at hb; rw [hph] at hb; cases hb
  have h0 : admittedPh (phaseOf { s with lim := (room cfg s.lim s.now fx).1 } c) = 0 := by
    change admittedPh (phaseOf s c) = 0; rw [hph]; rfl
  have hrs := room_state cfg s fx h
  unfold pollFresh
  simp only
  split
  · rename_i hr
    simp only [hr, if_true] at hrs
    exact admitCall_inv cfg _ c s.now _ hrs (fun _ => rfl) hq h0
  · rename_i hr
    have hr' : (room cfg s.lim s.now fx).2 = false := by simpa using hr
    simp only [hr', Bool.false_eq_true, if_false] at hrs
    split
    · exact rejectCall_inv cfg _ c s.now hrs hq h0
    · rename_i lo hi hans
      split
      · -- `Ok(Duration::ZERO)` without a permit: impossible in a `Good` configuration, so the limiter clauses are vacuous
        rename_i hhi
        refine admitCall_inv cfg _ c s.now _ hrs ?_ hq h0
        intro hG
        have hz := no_zero_wait cfg s.lim s.now rej fx hG h.limNow (h.lim hG.period) hr'
        rw [hans] at hz
        simp [zeroWait, hhi] at hz
      · rename_i hhi
        obtain ⟨h1, h2, h3, h4⟩ := noRoomAns_wait cfg _ s.now rej fx lo hi hans hhi
        apply trans_inv cfg { s with lim := (room cfg s.lim s.now fx).1 }
          (setPh { s with lim := (room cfg s.lim s.now fx).1 } c (.sleeping s.now (s.now + lo) (s.now + hi)))
          c (.sleeping s.now (s.now + lo) (s.now + hi)) [] [] [] [] hrs
          rfl (List.append_nil _).symm rfl rfl (List.append_nil _).symm hq (fun _ => rfl) rfl
        · intro c' _; rfl
        · rw [h0]; rfl
        · intro c' hm; simp at hm
        · intro c' hm; simp at hm
        · intro c' r _ _ hm; simp at hm
        · intro arr' lo' hi' hp
          injection hp with e1 e2 e3
          subst e1 e2 e3
          refine ⟨by omega, by omega, by omega, Nat.le_refl _, ?_⟩
          intro hG hk
          right
          have hs : (room cfg s.lim s.now fx).1.start ≤ s.now := (hrs.lim hG.period).startLe
          exact h4 hk hs
    · exact badChoice_inv cfg _ [] hrs

theorem secondTry_inv (cfg : Cfg) (s : State) (c arr lo hi : Nat) (fx : Fx)
    (h : SInv cfg s) (hph : phaseOf s c = some (.sleeping arr lo hi)) :
    SInv cfg (secondTry cfg s c arr fx) := by
  have hq : ∀ b, phaseOf { s with lim := (room cfg s.lim s.now fx).1 } c ≠ some (.done b) := by
    intro b hb; change phaseOf s c = _ at hb; rw [hph] at hb; cases hb
  have h0 : admittedPh (phaseOf { s with lim := (room cfg s.lim s.now fx).1 } c) = 0 := by
    change admittedPh (phaseOf s c) = 0; rw [hph]; rfl
  have hrs := room_state cfg s fx h
  unfold secondTry
  simp only
  split
  · rename_i hr
    simp only [hr, if_true] at hrs
    exact admitCall_inv cfg _ c arr _ hrs (fun _ => rfl) hq h0
  · rename_i hr
    have hr' : (room cfg s.lim s.now fx).2 = false := by simpa using hr
    simp only [hr', Bool.false_eq_true, if_false] at hrs
    split
    · rename_i hz
      refine admitCall_inv cfg _ c arr _ hrs ?_ hq h0
      intro hG
      rw [no_zero_wait cfg s.lim s.now true fx hG h.limNow (h.lim hG.period) hr'] at hz
      cases hz
    · exact rejectCall_inv cfg _ c arr hrs hq h0

theorem pollSleeping_inv (cfg : Cfg) (s : State) (c arr lo hi : Nat) (woke : Bool) (fx : Fx)
    (h : SInv cfg s) (hph : phaseOf s c = some (.sleeping arr lo hi)) :
    SInv cfg (pollSleeping cfg s c arr lo hi woke fx) := by
  unfold pollSleeping
  split
  · exact badChoice_inv cfg s [] h
  · split
    · exact secondTry_inv cfg s c arr lo hi fx h hph
    · exact h

theorem dropCaller_inv (cfg : Cfg) (s : State) (c : Nat) (h : SInv cfg s) : SInv cfg (dropCaller s c) := by
  unfold dropCaller
  split
  · rename_i hph
    apply trans_inv cfg s (setPh s c (.done false)) c (.done false) [] [] [] [] h rfl (List.append_nil _).symm rfl rfl (List.append_nil _).symm
    · intro b hb; rw [hph] at hb; cases hb
    · intro _; rfl
    · rfl
    · intro c' _; rfl
    · rw [hph]; rfl
    · intro c' hm; simp at hm
    · intro c' hm; simp at hm
    · intro c' r _ _ hm; simp at hm
    · intro arr' lo hi hp; cases hp
  · rename_i a lo hi hph
    apply trans_inv cfg s (setPh s c (.done false)) c (.done false) [] [] [] [] h rfl (List.append_nil _).symm rfl rfl (List.append_nil _).symm
    · intro b hb; rw [hph] at hb; cases hb
    · intro _; rfl
    · rfl
    · intro c' _; rfl
    · rw [hph]; rfl
    · intro c' hm; simp at hm
    · intro c' hm; simp at hm
    · intro c' r _ _ hm; simp at hm
    · intro arr' lo hi hp; cases hp
  · rename_i a hph
    apply trans_inv cfg s (emit (setPh s c (.done true)) [.innerDrop c ((lookup s.kOf c).getD 0)]) c (.done true) [.innerDrop c ((lookup s.kOf c).getD 0)] [] [] [] h rfl rfl rfl rfl (List.append_nil _).symm
    · intro b hb; rw [hph] at hb; cases hb
    · intro _; rfl
    · rfl
    · intro c' _; rfl
    · rw [hph]; rfl
    · intro c' hm; simp at hm
    · intro c' hm; simp at hm
    · intro c' r _ _ hm; simp at hm
    · intro arr' lo hi hp; cases hp
  · exact h

theorem stepS_inv (cfg : Cfg) (s : State) (op : Op)
    (h : SInv cfg s) : SInv cfg (stepS cfg s op) := by
  cases op with
  | adv ms =>
    refine ⟨h.lim, Nat.le_trans h.limNow (Nat.le_add_right _ _), h.grants, h.calls, h.count, h.rl, h.nr, h.res, ?_⟩
    intro c arr lo hi hc
    obtain ⟨h1, h2, h3, h4, h5⟩ := h.sleep c arr lo hi hc
    exact ⟨h1, h2, h3, Nat.le_trans h4 (Nat.le_add_right _ _), h5⟩
  | arrive c sc =>
    simp only [stepS]
    split
    · exact h
    · rename_i hnone
      have hn : phaseOf s c = none := by
        cases hp : phaseOf s c with
        | none => rfl
        | some v => simp [hp] at hnone
      split
      · exact notReadyCall_inv cfg s c h (by intro b hb; rw [hn] at hb; cases hb) (by rw [hn]; rfl)
      · apply trans_inv cfg s { setPh s c .fresh with script := (c, sc) :: s.script } c .fresh [] [] [] [] h rfl (List.append_nil _).symm rfl rfl (List.append_nil _).symm
        · intro b hb; rw [hn] at hb; cases hb
        · intro _; rfl
        · rfl
        · intro c' _; rfl
        · rw [hn]; rfl
        · intro c' hm; simp at hm
        · intro c' hm; simp at hm
        · intro c' r _ _ hm; simp at hm
        · intro arr' lo hi hp; cases hp
  | poll c rej woke fx =>
    simp only [stepS]
    split
    · rename_i hph; exact pollFresh_inv cfg s c rej fx h hph
    · rename_i arr lo hi hph; exact pollSleeping_inv cfg s c arr lo hi woke fx h hph
    · rename_i arr hph; exact pollRunning_inv cfg s c arr h hph
    · exact h
  | drop c => exact dropCaller_inv cfg s c h
  | busy ms => exact ⟨h.lim, h.limNow, h.grants, h.calls, h.count, h.rl, h.nr, h.res, h.sleep⟩
  | turnedAway c err =>
    simp only [stepS]
    split
    · exact h
    · rename_i hnone
      have hn : phaseOf s c = none := by
        cases hp : phaseOf s c with
        | none => rfl
        | some v => simp [hp] at hnone
      cases err with
      | false =>
        simp only [Bool.false_eq_true, if_false]
        exact notReadyCall_inv cfg s c h (by intro b hb; rw [hn] at hb; cases hb) (by rw [hn]; rfl)
      | true =>
        simp only [if_true]
        have h' : SInv cfg (emit s [readyErrEv c]) :=
          emit_noise_inv cfg s _ [] h rfl (by intro c' r hm; simp [readyErrEv] at hm)
        have hn' : phaseOf (emit s [readyErrEv c]) c = none := hn
        exact notReadyCall_inv cfg _ c h' (by intro b hb; rw [hn'] at hb; cases hb) (by rw [hn']; rfl)

theorem init_inv (cfg : Cfg) : SInv cfg (init cfg) := by
  refine ⟨fun hP => initLim_inv cfg hP, Nat.le_refl _, fun _ => rfl, rfl, ?_, ?_, ?_, ?_, ?_⟩
  · intro c; rfl
  · intro c hm; simp [init] at hm
  · intro c hm; simp [init] at hm
  · intro c r _ _ hm; simp [init] at hm
  · intro c arr lo hi hc; simp [init, phaseOf, lookup] at hc

theorem foldl_inv (cfg : Cfg) (ops : List Op) (s : State)
    (h : SInv cfg s) : SInv cfg (ops.foldl (stepS cfg) s) := by
  induction ops generalizing s with
  | nil => simpa
  | cons o os ih => exact ih _ (stepS_inv cfg s o h)

/-- every reachable state satisfies the invariant: all operation sequences, ALL configurations (the limiter
clauses of the invariant are stated under `Good cfg`), all three window types, all observed choices -/
theorem inv_reachable (cfg : Cfg) (ops : List Op) :
    SInv cfg (run cfg ops) :=
  foldl_inv cfg ops _ (init_inv cfg)

/-! ## Part 4 — one-step facts used by C15 -/

/-- the caller has been decided: admitted (inner call made) or resolved -/
def Decided : Option Phase → Prop
  | some (.running _) => True
  | some (.done _) => True
  | _ => False

/-- the caller has reached the inner service -/
def Admitted : Option Phase → Prop
  | some (.running _) => True
  | some (.done true) => True
  | _ => False

theorem callsOf_eq (cfg : Cfg) (s : State) (h : SInv cfg s) (c : Nat) :
    callsOf c s.log = admittedPh (phaseOf s c) := by
  unfold callsOf; rw [h.calls, h.count]

theorem pollRunning_frame (s : State) (c : Nat) :
    (pollRunning s c).lim = s.lim ∧ (pollRunning s c).admits = s.admits ∧ (pollRunning s c).now = s.now ∧
    (∃ rest, (pollRunning s c).log = s.log ++ rest) ∧
    (phaseOf (pollRunning s c) c = phaseOf s c ∨ phaseOf (pollRunning s c) c = some (.done true)) := by
  unfold pollRunning
  split
  · split
    · refine ⟨rfl, rfl, rfl, ⟨_, rfl⟩, Or.inr ?_⟩
      simp [emit, setPh, phaseOf, lookup]
    · exact ⟨rfl, rfl, rfl, ⟨[], by simp⟩, Or.inl rfl⟩
  · exact ⟨rfl, rfl, rfl, ⟨[], by simp⟩, Or.inl rfl⟩

theorem admitCall_frame (s : State) (c arr : Nat) :
    (admitCall s c arr).lim = s.lim ∧ (admitCall s c arr).admits = s.admits ++ [(c, s.now)] ∧
    (∃ rest, (admitCall s c arr).log = s.log ++ Ev.innerCall c s.serial :: rest) ∧
    Admitted (phaseOf (admitCall s c arr) c) := by
  unfold admitCall
  obtain ⟨h1, h2, _, ⟨rest, h4⟩, h5⟩ := pollRunning_frame (startInner s c arr) c
  refine ⟨by rw [h1]; rfl, by rw [h2]; rfl, ⟨rest, by rw [h4]; simp [startInner, emit, setPh]⟩, ?_⟩
  rcases h5 with h5 | h5
  · rw [h5, startInner_phase]; trivial
  · rw [h5]; trivial

theorem rejectCall_phase (s : State) (c arr : Nat) : phaseOf (rejectCall s c arr) c = some (.done false) := by
  simp [rejectCall, emit, setPh, phaseOf, lookup]

/-- a first poll that finds room reaches the inner service in the same step -/
theorem pollFresh_admits (cfg : Cfg) (s : State) (c : Nat) (rej : Bool) (fx : Fx)
    (hroom : (room cfg s.lim s.now fx).2 = true) :
    ∃ rest, (pollFresh cfg s c rej fx).log = s.log ++ Ev.innerCall c s.serial :: rest := by
  unfold pollFresh
  simp only [hroom, if_true]
  exact (admitCall_frame _ c s.now).2.2.1

theorem admitCall_decided (s : State) (c arr : Nat) : Decided (phaseOf (admitCall s c arr) c) := by
  have := (admitCall_frame s c arr).2.2.2
  revert this
  generalize phaseOf (admitCall s c arr) c = p
  intro hp
  match p, hp with
  | some (.running _), _ => trivial
  | some (.done true), _ => trivial

/-- a first poll always leaves the caller decided or sleeping with a timer due within the timeout
(or the observed choice was not allowed) -/
theorem pollFresh_outcome (cfg : Cfg) (s : State) (c : Nat) (rej : Bool) (fx : Fx) :
    Decided (phaseOf (pollFresh cfg s c rej fx) c) ∨
    (∃ lo hi, phaseOf (pollFresh cfg s c rej fx) c = some (.sleeping s.now lo hi) ∧ hi ≤ s.now + cfg.timeout) ∨
    pollFresh cfg s c rej fx = badChoice { s with lim := (room cfg s.lim s.now fx).1 } := by
  unfold pollFresh
  simp only
  split
  · left; exact admitCall_decided _ c s.now
  · split
    · left; rw [rejectCall_phase]; trivial
    · rename_i lo hi hans
      split
      · left; exact admitCall_decided _ c s.now
      · rename_i hhi
        right; left
        obtain ⟨_, _, h3, _⟩ := noRoomAns_wait cfg _ s.now rej fx lo hi hans hhi
        exact ⟨s.now + lo, s.now + hi, by simp [setPh, phaseOf, lookup], by omega⟩
    · right; right; rfl

theorem secondTry_decides (cfg : Cfg) (s : State) (c arr : Nat) (fx : Fx) :
    Decided (phaseOf (secondTry cfg s c arr fx) c) := by
  unfold secondTry
  simp only
  split
  · exact admitCall_decided _ c arr
  · split
    · exact admitCall_decided _ c arr
    · rw [rejectCall_phase]; trivial

/-- what an admission of a sleeping caller is: a grant taken at the current instant, later than
the arrival; for the fixed window, in a window that began after the arrival -/
theorem sleeper_admission (cfg : Cfg) (s : State) (c arr lo hi : Nat) (rej woke : Bool) (fx : Fx)
    (hG : Good cfg) (h : SInv cfg s) (hph : phaseOf s c = some (.sleeping arr lo hi))
    (hadm : Admitted (phaseOf (stepS cfg s (.poll c rej woke fx)) c)) :
    (room cfg s.lim s.now fx).2 = true ∧ arr < s.now ∧
    (stepS cfg s (.poll c rej woke fx)).lim.grants = s.lim.grants ++ [s.now] ∧
    (stepS cfg s (.poll c rej woke fx)).admits = s.admits ++ [(c, s.now)] ∧
    (cfg.kind = .fixed → arr < (stepS cfg s (.poll c rej woke fx)).lim.start) := by
  obtain ⟨h1, h2, h3, h4, h5⟩ := h.sleep c arr lo hi hph
  simp only [stepS, hph] at hadm ⊢
  unfold pollSleeping at hadm ⊢
  split at hadm
  · rename_i hbad
    change Admitted (phaseOf s c) at hadm
    rw [hph] at hadm; cases hadm
  · rename_i hok
    simp only [hok, if_false]
    split at hadm
    · rename_i hw
      simp only [hw, if_true]
      have hlo : lo ≤ s.now := by
        by_cases hc : s.now < lo
        · exact absurd (Or.inl ⟨hw, hc⟩) hok
        · omega
      unfold secondTry at hadm ⊢
      simp only at hadm ⊢
      split at hadm
      · rename_i hr
        simp only [hr, if_true]
        obtain ⟨f1, f2, _, _⟩ := admitCall_frame { s with lim := (room cfg s.lim s.now fx).1 } c arr
        refine ⟨by first | rfl | trivial, by omega, ?_, f2, ?_⟩
        · rw [f1]; show (room cfg s.lim s.now fx).1.grants = _
          rw [room_grants, hr]; rfl
        · intro hk
          rw [f1]; show arr < (room cfg s.lim s.now fx).1.start
          rcases room_start_fixed cfg s.lim s.now fx hk with ⟨hge, hst⟩ | ⟨hlt, hst⟩
          · rw [hst]; omega
          · rw [hst]
            rcases h5 hG hk with h5 | h5
            · omega
            · have := (h.lim hG.period).startLe; have := h.limNow; omega
      · rename_i hr
        have hr' : (room cfg s.lim s.now fx).2 = false := by simpa using hr
        rw [no_zero_wait cfg s.lim s.now true fx hG h.limNow (h.lim hG.period) hr'] at hadm
        simp only [Bool.false_eq_true, if_false] at hadm
        rw [rejectCall_phase] at hadm; cases hadm
    · rw [hph] at hadm; cases hadm

/-- dropping a caller that has not been admitted touches neither the limiter nor the trace -/
theorem drop_waiter_frame (s : State) (c : Nat)
    (hph : phaseOf s c = some .fresh ∨ ∃ arr lo hi, phaseOf s c = some (.sleeping arr lo hi)) :
    (dropCaller s c).lim = s.lim ∧ (dropCaller s c).log = s.log ∧ (dropCaller s c).admits = s.admits ∧
    phaseOf (dropCaller s c) c = some (.done false) := by
  unfold dropCaller
  rcases hph with hph | ⟨arr, lo, hi, hph⟩ <;> rw [hph] <;> simp [setPh, phaseOf, lookup]

/-- what an admission at the first poll is: a grant taken in that very step -/
theorem fresh_admission (cfg : Cfg) (s : State) (c : Nat) (rej woke : Bool) (fx : Fx) (hG : Good cfg)
    (h : SInv cfg s) (hph : phaseOf s c = some .fresh)
    (hadm : Admitted (phaseOf (stepS cfg s (.poll c rej woke fx)) c)) :
    (room cfg s.lim s.now fx).2 = true ∧
    (stepS cfg s (.poll c rej woke fx)).lim.grants = s.lim.grants ++ [s.now] ∧
    (stepS cfg s (.poll c rej woke fx)).admits = s.admits ++ [(c, s.now)] := by
  simp only [stepS, hph] at hadm ⊢
  unfold pollFresh at hadm ⊢
  simp only at hadm ⊢
  split at hadm
  · rename_i hr
    simp only [hr, if_true]
    obtain ⟨f1, f2, _, _⟩ := admitCall_frame { s with lim := (room cfg s.lim s.now fx).1 } c s.now
    refine ⟨by first | rfl | trivial, ?_, f2⟩
    rw [f1]; show (room cfg s.lim s.now fx).1.grants = _
    rw [room_grants, hr]; rfl
  · rename_i hr
    have hr' : (room cfg s.lim s.now fx).2 = false := by simpa using hr
    have hz := no_zero_wait cfg s.lim s.now rej fx hG h.limNow (h.lim hG.period) hr'
    split at hadm
    · rw [rejectCall_phase] at hadm; cases hadm
    · rename_i lo hi hans
      rw [hans] at hz
      split at hadm
      · rename_i hhi; simp [zeroWait, hhi] at hz
      · simp [setPh, phaseOf, lookup] at hadm; cases hadm
    · change Admitted (phaseOf s c) at hadm; rw [hph] at hadm; cases hadm

/-- fixed window: there is room iff the window is over or a permit is left -/
theorem room_fixed_iff (cfg : Cfg) (l : Lim) (now : Nat) (fx : Fx) (hk : cfg.kind = .fixed) (hL : 1 ≤ cfg.limit) :
    (room cfg l now fx).2 = true ↔ (now - l.start ≥ cfg.period ∨ l.avail > 0) := by
  unfold room
  simp only [hk, roomFixed]
  by_cases hge : now - l.start ≥ cfg.period
  · have hr : fixedRoll cfg l now = openWin { l with avail := cfg.limit } now := by unfold fixedRoll; simp [hge]
    rw [hr]
    have : (openWin { l with avail := cfg.limit } now).avail > 0 := by simp [openWin]; omega
    simp [this, hge]
  · have hr : fixedRoll cfg l now = l := by unfold fixedRoll; simp [hge]
    rw [hr]
    by_cases hav : l.avail > 0 <;> simp [hav, hge]

/-- sliding log: there is room iff fewer than `limit` grants are younger than one period -/
theorem room_log_iff (cfg : Cfg) (l : Lim) (now : Nat) (fx : Fx) (hk : cfg.kind = .slog) :
    (room cfg l now fx).2 = true ↔ (expire cfg.period now l.ts).length < cfg.limit := by
  unfold room
  simp only [hk, roomLog]
  by_cases h : (expire cfg.period now l.ts).length < cfg.limit <;> simp [h]

/-- sliding counter: there is room iff, after the rotation, the weighted count `prev·(1 − e/B) + cur` is below
the limit — or exactly the limit part-way into a bucket, off the dyadic grid, and the `f64` comparison (observed)
said "below" -/
theorem room_counter_iff (cfg : Cfg) (l : Lim) (now : Nat) (fx : Fx) (hk : cfg.kind = .counter) :
    (room cfg l now fx).2 = true ↔
      ((counterRoll cfg l now fx.b1).prev * (cfg.period - (now - (counterRoll cfg l now fx.b1).start))
          + (counterRoll cfg l now fx.b1).cur * cfg.period < cfg.limit * cfg.period ∨
       (onBoundary cfg (counterRoll cfg l now fx.b1) (now - (counterRoll cfg l now fx.b1).start) = true ∧ fx.adm = true)) := by
  unfold room
  simp only [hk, roomCounter]
  split <;> simp_all

/-- a poll at or after the instant by which the timer must have fired -/
theorem pollSleeping_due (cfg : Cfg) (s : State) (c arr lo hi : Nat) (fx : Fx) (hdue : hi ≤ s.now) (hlo : lo ≤ hi) :
    pollSleeping cfg s c arr lo hi true fx = secondTry cfg s c arr fx ∧
    pollSleeping cfg s c arr lo hi false fx = badChoice s := by
  unfold pollSleeping
  constructor
  · have h1 : ¬ ((true = true ∧ s.now < lo) ∨ (true = false ∧ hi ≤ s.now)) := by
      intro h; rcases h with ⟨_, h⟩ | ⟨h, _⟩
      · omega
      · cases h
    rw [if_neg h1]; rfl
  · rw [if_pos (Or.inr ⟨rfl, hdue⟩)]

/-! ## Part 5 — several services built from one layer value (`Fleet`) -/

theorem lookup_setInst_same (l : List (Nat × State)) (k : Nat) (s : State) :
    lookup (setInst l k s) k = some s := by
  induction l with
  | nil => simp [setInst, lookup]
  | cons p tl ih =>
    obtain ⟨k', s'⟩ := p
    unfold setInst
    by_cases hk : k' = k
    · simp [hk, lookup]
    · simp only [hk, if_false, lookup]; exact ih

theorem lookup_setInst_other (l : List (Nat × State)) (k j : Nat) (s : State) (hj : j ≠ k) :
    lookup (setInst l k s) j = lookup l j := by
  induction l with
  | nil =>
    have : ¬ k = j := fun e => hj e.symm
    simp [setInst, lookup, this]
  | cons p tl ih =>
    obtain ⟨k', s'⟩ := p
    unfold setInst
    by_cases hk : k' = k
    · subst hk
      have : ¬ k' = j := fun e => hj e.symm
      simp only [if_true, lookup, this, if_false]
    · simp only [hk, if_false, lookup]; rw [ih]

theorem lookup_mapInsts (g : State → State) (l : List (Nat × State)) (k : Nat) :
    lookup (mapInsts g l) k = (lookup l k).map g := by
  induction l with
  | nil => rfl
  | cons p tl ih =>
    obtain ⟨k', s'⟩ := p
    show lookup ((k', g s') :: mapInsts g tl) k = _
    simp only [lookup]
    by_cases hk : k' = k
    · simp [hk]
    · simp only [hk, if_false]; exact ih

/-- renumbering the calls of the wrapped service touches no instance -/
theorem renum_insts (f : Fleet) (evs : List Ev) : (renum f evs).1.insts = f.insts := by
  induction evs generalizing f with
  | nil => rfl
  | cons e es ih =>
    cases e with
    | innerCall c k => simp only [renum]; rw [ih]
    | innerCallX c k tag r => simp only [renum]; rw [ih]
    | innerDone c k o => simp only [renum]; rw [ih]
    | innerDrop c k => simp only [renum]; rw [ih]
    | result c r => simp only [renum]; rw [ih]
    | probe s => simp only [renum]; rw [ih]
    | raw s => simp only [renum]; rw [ih]

theorem run_snoc (cfg : Cfg) (ops : List Op) (op : Op) : stepS cfg (run cfg ops) op = run cfg (ops ++ [op]) := by
  unfold run; rw [List.foldl_append]; rfl

/-- every instance of the fleet is a state of the single-limiter model reached by some operation sequence
(in the instance's own time) -/
def FReach (cfg : Cfg) (f : Fleet) : Prop := ∀ k s, lookup f.insts k = some s → ∃ ops, s = run cfg ops

theorem freshInst_run (cfg : Cfg) (f : Fleet) : ∃ ops, freshInst cfg f = run cfg ops := by
  unfold freshInst
  split
  · exact ⟨[.busy (f.busyUntil - f.now)], rfl⟩
  · exact ⟨[], rfl⟩

theorem instOf_run (cfg : Cfg) (f : Fleet) (k : Nat) (h : FReach cfg f) : ∃ ops, instOf cfg f k = run cfg ops := by
  unfold instOf
  cases hk : lookup f.insts k with
  | none => exact freshInst_run cfg f
  | some s => exact h k s hk

theorem onInst_insts (cfg : Cfg) (f : Fleet) (k : Nat) (op : Op) :
    (onInst cfg f k op).1.insts = setInst f.insts k (stepS cfg (instOf cfg f k) op) := by
  unfold onInst; rw [renum_insts]

theorem onInst_reach (cfg : Cfg) (f : Fleet) (k : Nat) (op : Op) (h : FReach cfg f) :
    FReach cfg (onInst cfg f k op).1 := by
  intro j s hj
  rw [onInst_insts] at hj
  by_cases hjk : j = k
  · subst hjk
    rw [lookup_setInst_same] at hj
    injection hj with hj
    obtain ⟨ops, ho⟩ := instOf_run cfg f j h
    exact ⟨ops ++ [op], by rw [← hj, ho, run_snoc]⟩
  · rw [lookup_setInst_other _ _ _ _ hjk] at hj
    exact h j s hj

theorem onInst_other (cfg : Cfg) (f : Fleet) (k j : Nat) (op : Op) (hj : j ≠ k) :
    lookup (onInst cfg f k op).1.insts j = lookup f.insts j := by
  rw [onInst_insts, lookup_setInst_other _ _ _ _ hj]

theorem mapInsts_reach (cfg : Cfg) (f f' : Fleet) (op : Op)
    (hi : f'.insts = mapInsts (fun s => stepS cfg s op) f.insts) (h : FReach cfg f) : FReach cfg f' := by
  intro k s hk
  rw [hi, lookup_mapInsts] at hk
  cases hl : lookup f.insts k with
  | none => rw [hl] at hk; cases hk
  | some s0 =>
    rw [hl] at hk
    injection hk with hk
    obtain ⟨ops, ho⟩ := h k s0 hl
    exact ⟨ops ++ [op], by rw [← hk, ho]; exact run_snoc cfg ops op⟩

/-- one fleet step keeps every instance a reachable state of the single-limiter model -/
theorem fstep_reach (cfg : Cfg) (f : Fleet) (op : FOp) (h : FReach cfg f) : FReach cfg (fstep cfg f op).1 := by
  cases op with
  | adv ms => exact mapInsts_reach cfg f _ (.adv ms) rfl h
  | busy ms => exact mapInsts_reach cfg f _ (.busy ms) rfl h
  | ready sc => exact h
  | arrive k c sc =>
    simp only [fstep]
    split
    · exact h
    · split
      · exact onInst_reach cfg _ k _ h
      · split
        · exact onInst_reach cfg _ k _ h
        · exact onInst_reach cfg _ k _ h
        · exact onInst_reach cfg _ k _ h
        · exact onInst_reach cfg _ k _ h
  | poll c rej woke fx =>
    simp only [fstep]
    split
    · exact onInst_reach cfg f _ _ h
    · exact h
  | drop c =>
    simp only [fstep]
    split
    · exact onInst_reach cfg f _ _ h
    · exact h

theorem initFleet_reach (cfg : Cfg) : FReach cfg (initFleet cfg) := by
  intro k s hk
  simp only [initFleet, lookup] at hk
  split at hk
  · injection hk with hk; exact ⟨[], hk.symm⟩
  · cases hk

theorem frun_reach (cfg : Cfg) (ops : List FOp) : FReach cfg (frun cfg ops) := by
  unfold frun
  suffices ∀ f, FReach cfg f → FReach cfg (ops.foldl (fun f op => (fstep cfg f op).1) f) from
    this _ (initFleet_reach cfg)
  induction ops with
  | nil => intro f h; exact h
  | cons o os ih => intro f h; exact ih _ (fstep_reach cfg f o h)

/-- an operation addressed to service `k` leaves the instance of every other service exactly as it is -/
theorem fstep_other (cfg : Cfg) (f : Fleet) (op : FOp) (k j : Nat) (ht : target f op = some k) (hj : j ≠ k) :
    lookup (fstep cfg f op).1.insts j = lookup f.insts j := by
  cases op with
  | adv ms => cases ht
  | busy ms => cases ht
  | ready sc => cases ht
  | arrive k' c sc =>
    simp only [target] at ht
    injection ht with ht
    subst ht
    simp only [fstep]
    split
    · rfl
    · split
      · exact onInst_other cfg _ _ j _ hj
      · split
        · exact onInst_other cfg _ _ j _ hj
        · exact onInst_other cfg _ _ j _ hj
        · exact onInst_other cfg _ _ j _ hj
        · exact onInst_other cfg _ _ j _ hj
  | poll c rej woke fx =>
    simp only [target] at ht
    simp only [fstep, ht]
    exact onInst_other cfg f k j _ hj
  | drop c =>
    simp only [target] at ht
    simp only [fstep, ht]
    exact onInst_other cfg f k j _ hj

end TR.RateLimiter
