import TR.Model.Coalesce
/-!
# Coalesce: a handle whose readiness fails (`arrive … rdy=<script>`) — helper lemmas for C11

The machine answers such a line by `refusal` alone; the state does not move.
-/
namespace TR.Coalesce

/-- the machine's step on an arrival through a handle that does not become ready -/
theorem step_refusal (s : State) (hooks : List (Nat × (Nat × Step))) (c : String) (rest : List String) (r : Res)
    (hr : readiness (parseKv rest) = some r) :
    machine.step (s, hooks) ("arrive" :: c :: rest) =
      ((s, hooks), if s.svcGone then [.raw "noop"] else [Ev.result (c.toNat?.getD 0) r]) := by
  simp [machine, refusal, hr]

/-- a line that is an arrival through a handle that does not become ready -/
def refusedLine (ws : List String) : Bool :=
  match ws with
  | "arrive" :: _ :: rest => (readiness (parseKv rest)).isSome
  | _ => false

theorem refusedLine_state (σ : machine.σ) (ws : List String) (h : refusedLine ws = true) :
    (machine.step σ ws).1 = σ := by
  obtain ⟨s, hooks⟩ := σ
  unfold refusedLine at h
  split at h
  · obtain ⟨r, hr⟩ := Option.isSome_iff_exists.mp h
    rw [step_refusal s hooks _ _ r hr]
  · cases h

/-- the state the model's machine is in after the lines `ls` -/
def afterLines (σ : machine.σ) (ls : List (List String)) : machine.σ :=
  ls.foldl (fun σ ws => (machine.step σ ws).1) σ

theorem afterLines_cons (σ : machine.σ) (ws : List String) (tl : List (List String)) :
    afterLines σ (ws :: tl) = afterLines (machine.step σ ws).1 tl := rfl

theorem afterLines_filter (ls : List (List String)) (σ : machine.σ) :
    afterLines σ ls = afterLines σ (ls.filter fun ws => !refusedLine ws) := by
  induction ls generalizing σ with
  | nil => rfl
  | cons ws tl ih =>
    by_cases h : refusedLine ws = true
    · rw [afterLines_cons, refusedLine_state σ ws h, ih σ]
      simp [h]
    · simp only [Bool.not_eq_true] at h
      rw [afterLines_cons, ih]
      simp [h, afterLines_cons]

end TR.Coalesce
