import TR.Lemmas.Chaos
/-!
# Chaos: the lifetime of the service handles, and bounds of a second and more

`manual dropsvc` (`Op.dropsvc`): the caller drops every handle of the service and the layer
(`let f = svc.call(r); drop(svc); f.await`, `svc.oneshot(r)`). A call future owns what it needs
(service.rs:55-59), so nothing of a request that has already arrived may change: this file proves that
the machine after `dropsvc` runs exactly like the machine without it — on the operations that can still
happen (polls, cancellations, clock advances; a later `arrive` has no handle to be made on) — and differs
from it only in the flag `gone`.

Whole seconds: the bounds reach the model in microseconds and are truncated to milliseconds; the whole
seconds of a bound are part of it (`ms_of_us`), and an injected latency is never below `min_latency`
(`decideG_latency_ge_min`) — in particular never below the whole seconds of `min_latency`.
-/
namespace TR.Chaos

/-- the state, with every handle of the service gone -/
def noHandles (s : State) : State := { s with gone := true }

/-- operations that can still happen once every handle is gone -/
def survives : Op → Bool
  | .arrive _ _ _ _ => false
  | .dropsvc => false
  | _ => true

theorem emit_noHandles (s : State) (evs : List Ev) : emit (noHandles s) evs = noHandles (emit s evs) := rfl

theorem setPhase_noHandles (s : State) (c : Nat) (p : Phase) :
    setPhase (noHandles s) c p = noHandles (setPhase s c p) := rfl

theorem pollInner_noHandles (s : State) (c k t : Nat) (out : Out) :
    pollInner (noHandles s) c k t out = noHandles (pollInner s c k t out) := by
  unfold pollInner
  by_cases h : s.now ≥ t ∧ out ≠ .never
  · have h' : (noHandles s).now ≥ t ∧ out ≠ .never := h
    rw [if_pos h, if_pos h']; rfl
  · have h' : ¬ ((noHandles s).now ≥ t ∧ out ≠ .never) := h
    rw [if_neg h, if_neg h']

theorem startInner_noHandles (s : State) (c : Nat) (st : Step) :
    startInner (noHandles s) c st = noHandles (startInner s c st) := by
  unfold startInner
  exact pollInner_noHandles
    (setPhase (emit { s with serial := s.serial + 1 } [.innerCall c s.serial]) c (.inner s.serial (s.now + st.lat) st.out))
    c s.serial (s.now + st.lat) st.out

theorem pollSleeping_noHandles (s : State) (c wake : Nat) (st : Step) :
    pollSleeping (noHandles s) c wake st = noHandles (pollSleeping s c wake st) := by
  unfold pollSleeping
  by_cases h : s.now ≥ wake
  · have h' : (noHandles s).now ≥ wake := h
    rw [if_pos h, if_pos h']; exact startInner_noHandles s c st
  · have h' : ¬ (noHandles s).now ≥ wake := h
    rw [if_neg h, if_neg h']

theorem checked_noHandles (cfg : Cfg) (s : State) (d : Decision) :
    checked cfg (noHandles s) d = noHandles (checked cfg s d) := by
  unfold checked
  split <;> rfl

theorem record_noHandles (s : State) (c k : Nat) (dec : Decision) :
    record (noHandles s) c k dec = noHandles (record s c k dec) := rfl

theorem enact_noHandles (s : State) (c tag : Nat) (st : Step) (dec : Decision) :
    enact (noHandles s) c tag st dec = noHandles (enact s c tag st dec) := by
  cases dec with
  | error => rfl
  | latency ms =>
      unfold enact
      exact pollSleeping_noHandles (setPhase s c (.sleeping (s.now + ms) st)) c (s.now + ms) st
  | pass => exact startInner_noHandles s c st

theorem pollFresh_noHandles (cfg : Cfg) (s : State) (c k tag : Nat) (st : Step) (d : Decision) :
    pollFresh cfg (noHandles s) c k tag st d = noHandles (pollFresh cfg s c k tag st d) := by
  unfold pollFresh
  rw [show mark (noHandles s) c k = noHandles (mark s c k) from rfl, checked_noHandles, record_noHandles,
    enact_noHandles]

/-- Every operation that can still happen does to the state without handles exactly what it does to
the state with them: first polls (the decision, the draws consumed, error / sleep / inner call), later
polls, cancellations, the clock. -/
theorem stepS_noHandles (cfg : Cfg) (s : State) (op : Op) (h : survives op = true) :
    stepS cfg (noHandles s) op = noHandles (stepS cfg s op) := by
  cases op with
  | arrive c k tag st => simp [survives] at h
  | dropsvc => simp [survives] at h
  | adv ms => rfl
  | poll c d =>
      have hl : lookup (noHandles s).phase c = lookup s.phase c := rfl
      simp only [stepS, hl]
      split
      · cases d with
        | some d => exact pollFresh_noHandles cfg s c _ _ _ d
        | none => rfl
      · exact pollSleeping_noHandles s c _ _
      · exact pollInner_noHandles s c _ _ _
      · rfl
  | drop c =>
      have hl : lookup (noHandles s).phase c = lookup s.phase c := rfl
      simp only [stepS, hl]
      split <;> rfl

/-- without a handle no request can be made, and there is nothing more to drop -/
theorem stepS_noHandles_other (cfg : Cfg) (s : State) (op : Op) (h : survives op = false) :
    stepS cfg (noHandles s) op = noHandles s := by
  cases op with
  | arrive c k tag st => simp [stepS, noHandles]
  | dropsvc => rfl
  | adv ms => simp [survives] at h
  | poll c d => simp [survives] at h
  | drop c => simp [survives] at h

theorem foldl_noHandles (cfg : Cfg) (ops : List Op) (s : State) :
    ops.foldl (stepS cfg) (noHandles s) = noHandles ((ops.filter survives).foldl (stepS cfg) s) := by
  induction ops generalizing s with
  | nil => rfl
  | cons op tl ih =>
      by_cases h : survives op = true
      · simp only [List.foldl_cons, List.filter_cons, h, if_true]
        rw [stepS_noHandles cfg s op h]
        exact ih _
      · have h' : survives op = false := by simpa using h
        simp only [List.foldl_cons, List.filter_cons, h', Bool.false_eq_true, if_false]
        rw [stepS_noHandles_other cfg s op h']
        exact ih s

/-- A run in which every handle is dropped at some point is the run without that `dropsvc` and without
the arrivals after it, plus the flag. -/
theorem run_dropsvc (cfg : Cfg) (ops₁ ops₂ : List Op) :
    run cfg (ops₁ ++ .dropsvc :: ops₂) = noHandles (run cfg (ops₁ ++ ops₂.filter survives)) := by
  unfold run
  rw [List.foldl_append, List.foldl_append, List.foldl_cons]
  exact foldl_noHandles cfg ops₂ _

/-! ## bounds of a second and more -/

/-- `Duration::as_millis` of `secs` whole seconds and `us < 10⁶` further microseconds: the whole seconds
count, 1000 ms each (the header gives the bounds in µs; `machine.init` divides by 1000) -/
theorem ms_of_us (secs us : Nat) : (secs * 1000000 + us) / 1000 = secs * 1000 + us / 1000 := by
  omega

/-- an injected latency is never below `min_latency`, whatever `max_latency` is -/
theorem decideG_latency_ge_min {γ : Type} (G : Gen γ) (cfg : Cfg) (g : γ) (ms : Nat) (hL : Lawful cfg G)
    (h : (decideG G cfg g).1 = .latency ms) : cfg.minMs ≤ ms := by
  have hr := decideG_latency_range G cfg g ms hL h
  by_cases hle : cfg.minMs ≤ cfg.maxMs
  · exact (hr.1 hle).1
  · have := hr.2 (by omega); omega

end TR.Chaos
