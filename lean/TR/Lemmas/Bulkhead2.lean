import TR.Lemmas.Bulkhead
/-!
# Bulkhead: every caller is in at most one phase; a caller that left without being admitted never
reaches the inner service (C07)
-/
namespace TR.Bulkhead

/-- how often `c` occurs in the four phase lists -/
def occ (s : State) (c : Nat) : Nat :=
  s.fresh.count c + s.queue.count c + s.assigned.count c + s.running.count c

def NoCall (s : State) (c : Nat) : Prop := ∀ k, Ev.innerCall c k ∉ s.log
def NoResult (s : State) (c : Nat) : Prop := ∀ r, Ev.result c r ∉ s.log

structure Inv2 (s : State) : Prop where
  once : ∀ c, occ s c ≤ 1
  isKnown : ∀ c, occ s c ≥ 1 → known s c = true
  waiting : ∀ c, s.fresh.count c + s.queue.count c + s.assigned.count c ≥ 1 → NoCall s c ∧ NoResult s c
  running : ∀ c, s.running.count c ≥ 1 → NoResult s c
  unknown : ∀ c, known s c = false → NoCall s c ∧ NoResult s c

theorem count_erase_le (l : List Nat) (a c : Nat) : (l.erase a).count c ≤ l.count c := by
  rw [List.count_erase]; split <;> omega

theorem count_erase_self' (l : List Nat) (c : Nat) : (l.erase c).count c = l.count c - 1 := by
  simp [List.count_erase]

theorem count_erase_ne (l : List Nat) (a c : Nat) (h : c ≠ a) : (l.erase a).count c = l.count c := by
  rw [List.count_erase]
  have : ¬ (a == c) = true := by simpa using (Ne.symm h)
  simp [this]

theorem count_snoc (l : List Nat) (a c : Nat) : (l ++ [a]).count c = l.count c + (if a = c then 1 else 0) := by
  simp [List.count_append, List.count_cons]

theorem mem_iff_count (l : List Nat) (c : Nat) : l.contains c = true ↔ l.count c ≥ 1 := by
  simp [List.count_pos_iff]

/-- `release` moves at most the head of the queue to `assigned` -/
theorem release_counts (s : State) (c : Nat) :
    (release s).fresh = s.fresh ∧ (release s).running = s.running ∧ (release s).log = s.log ∧
    (release s).script = s.script ∧
    (release s).queue.count c + (release s).assigned.count c = s.queue.count c + s.assigned.count c := by
  unfold release
  split
  · exact ⟨rfl, rfl, rfl, rfl, by simp_all⟩
  · rename_i h tl hq
    refine ⟨rfl, rfl, rfl, rfl, ?_⟩
    simp only [hq, List.count_cons, count_snoc]
    by_cases hh : h = c <;> simp [hh] <;> omega

end TR.Bulkhead

namespace TR.Bulkhead

def evCaller : Ev → Option Nat
  | .innerCall c _ => some c
  | .innerCallX c _ _ _ => some c
  | .innerDone c _ _ => some c
  | .innerDrop c _ => some c
  | .result c _ => some c
  | _ => none

/-- a transition whose subject is caller `c`: nobody else changes phase (except that a release may
hand a queued caller its permit), the log only grows by events about `c`, scripts are kept -/
structure Trans (s s' : State) (c : Nat) : Prop where
  other : ∀ x, x ≠ c → s'.fresh.count x = s.fresh.count x ∧
    s'.queue.count x + s'.assigned.count x = s.queue.count x + s.assigned.count x ∧
    s'.running.count x = s.running.count x
  log : ∃ evs, s'.log = s.log ++ evs ∧ ∀ e ∈ evs, evCaller e = some c
  script : s'.script = s.script

theorem Trans.refl (s : State) (c : Nat) : Trans s s c :=
  ⟨fun _ _ => ⟨rfl, rfl, rfl⟩, ⟨[], by simp, by simp⟩, rfl⟩

theorem Trans.trans {s s1 s2 : State} {c : Nat} (h1 : Trans s s1 c) (h2 : Trans s1 s2 c) : Trans s s2 c := by
  refine ⟨?_, ?_, by rw [h2.script, h1.script]⟩
  · intro x hx
    obtain ⟨a1, a2, a3⟩ := h1.other x hx
    obtain ⟨b1, b2, b3⟩ := h2.other x hx
    exact ⟨by rw [b1, a1], by rw [b2, a2], by rw [b3, a3]⟩
  · obtain ⟨e1, l1, p1⟩ := h1.log
    obtain ⟨e2, l2, p2⟩ := h2.log
    refine ⟨e1 ++ e2, by rw [l2, l1, List.append_assoc], ?_⟩
    intro e he
    rcases List.mem_append.mp he with h | h
    · exact p1 e h
    · exact p2 e h

theorem noCall_of_trans {s s' : State} {c x : Nat} (ht : Trans s s' c) (hx : x ≠ c) (h : NoCall s x) : NoCall s' x := by
  obtain ⟨evs, hl, hp⟩ := ht.log
  intro k hm
  rw [hl] at hm
  rcases List.mem_append.mp hm with hm | hm
  · exact h k hm
  · have := hp _ hm; simp [evCaller] at this; exact hx this

theorem noResult_of_trans {s s' : State} {c x : Nat} (ht : Trans s s' c) (hx : x ≠ c) (h : NoResult s x) : NoResult s' x := by
  obtain ⟨evs, hl, hp⟩ := ht.log
  intro r hm
  rw [hl] at hm
  rcases List.mem_append.mp hm with hm | hm
  · exact h r hm
  · have := hp _ hm; simp [evCaller] at this; exact hx this

/-- the invariant follows for everybody else; the subject is checked separately -/
theorem inv2_of_trans {s s' : State} {c : Nat} (h : Inv2 s) (ht : Trans s s' c)
    (h1 : occ s' c ≤ 1) (h2 : occ s' c ≥ 1 → known s' c = true)
    (h3 : s'.fresh.count c + s'.queue.count c + s'.assigned.count c ≥ 1 → NoCall s' c ∧ NoResult s' c)
    (h4 : s'.running.count c ≥ 1 → NoResult s' c) (hk : known s c = true) : Inv2 s' := by
  have hocc : ∀ x, x ≠ c → occ s' x = occ s x := by
    intro x hx; obtain ⟨a1, a2, a3⟩ := ht.other x hx; simp only [occ]; omega
  refine ⟨?_, ?_, ?_, ?_, ?_⟩
  · intro x; by_cases hx : x = c
    · subst hx; exact h1
    · rw [hocc x hx]; exact h.once x
  · intro x hxo; by_cases hx : x = c
    · subst hx; exact h2 hxo
    · rw [hocc x hx] at hxo
      have := h.isKnown x hxo
      simp only [known] at this ⊢; rw [ht.script]; exact this
  · intro x hxw; by_cases hx : x = c
    · subst hx; exact h3 hxw
    · obtain ⟨a1, a2, a3⟩ := ht.other x hx
      have := h.waiting x (by omega)
      exact ⟨noCall_of_trans ht hx this.1, noResult_of_trans ht hx this.2⟩
  · intro x hxr; by_cases hx : x = c
    · subst hx; exact h4 hxr
    · obtain ⟨a1, a2, a3⟩ := ht.other x hx
      exact noResult_of_trans ht hx (h.running x (by omega))
  · intro x hxk; by_cases hx : x = c
    · subst hx; simp only [known] at hk hxk; rw [ht.script] at hxk; rw [hk] at hxk; cases hxk
    · have : known s x = false := by simp only [known] at hxk ⊢; rw [← ht.script]; exact hxk
      have := h.unknown x this
      exact ⟨noCall_of_trans ht hx this.1, noResult_of_trans ht hx this.2⟩

end TR.Bulkhead

namespace TR.Bulkhead

theorem trans_emit (s : State) (c : Nat) (evs : List Ev) (h : ∀ e ∈ evs, evCaller e = some c) :
    Trans s (emit s evs) c :=
  ⟨fun _ _ => ⟨rfl, rfl, rfl⟩, ⟨evs, rfl, h⟩, rfl⟩

theorem trans_startInner (s : State) (c : Nat) : Trans s (startInner s c) c := by
  refine ⟨?_, ⟨[.innerCall c s.serial], rfl, by simp [evCaller]⟩, rfl⟩
  intro x hx
  refine ⟨rfl, rfl, ?_⟩
  simp only [startInner, emit, count_snoc]
  have : ¬ c = x := fun h => hx h.symm
  simp [this]

theorem trans_finishRunning (s : State) (c : Nat) (evs : List Ev) (h : ∀ e ∈ evs, evCaller e = some c) :
    Trans s (finishRunning s c evs) c := by
  have hr := fun x => release_counts { s with running := s.running.erase c } x
  refine ⟨?_, ?_, ?_⟩
  · intro x hx
    obtain ⟨r1, r2, _, _, r5⟩ := hr x
    simp only [finishRunning, emit]
    exact ⟨by rw [r1], r5, by rw [r2]; exact count_erase_ne s.running c x hx⟩
  · obtain ⟨_, _, r3, _, _⟩ := hr 0
    exact ⟨evs, by simp only [finishRunning, emit]; rw [r3], h⟩
  · obtain ⟨_, _, _, r4, _⟩ := hr 0
    simp only [finishRunning, emit]; exact r4

theorem outcome_about (c k : Nat) (o : Out) : ∀ e ∈ outcomeEvents c k o, evCaller e = some c := by
  cases o <;> simp [outcomeEvents, evCaller]

theorem trans_pollRunning (s : State) (c : Nat) : Trans s (pollRunning s c) c := by
  unfold pollRunning
  split
  · split
    · exact trans_finishRunning s c _ (outcome_about _ _ _)
    · exact Trans.refl s c
  · exact Trans.refl s c

theorem trans_admitCall (s : State) (c : Nat) : Trans s (admitCall s c) c :=
  (trans_startInner s c).trans (trans_pollRunning _ c)

/-- what the subject's own counts are after its inner call is polled -/
theorem pollRunning_subject (s : State) (c : Nat) :
    (pollRunning s c = s) ∨
    ((pollRunning s c).fresh = s.fresh ∧ (pollRunning s c).running = s.running.erase c ∧
     (pollRunning s c).queue.count c + (pollRunning s c).assigned.count c = s.queue.count c + s.assigned.count c) := by
  unfold pollRunning
  split
  · split
    · right
      obtain ⟨r1, r2, _, _, r5⟩ := release_counts { s with running := s.running.erase c } c
      simp only [finishRunning, emit]
      exact ⟨r1, r2, r5⟩
    · left; rfl
  · left; rfl

end TR.Bulkhead

namespace TR.Bulkhead

theorem startInner_fields (s : State) (c : Nat) :
    (startInner s c).fresh = s.fresh ∧ (startInner s c).queue = s.queue ∧ (startInner s c).assigned = s.assigned ∧
    (startInner s c).running = s.running ++ [c] ∧ (startInner s c).log = s.log ++ [.innerCall c s.serial] ∧
    (startInner s c).script = s.script :=
  ⟨rfl, rfl, rfl, rfl, rfl, rfl⟩

/-- the subject's own phase counts after admission (the inner call may complete in the same step) -/
theorem admitCall_subject (s : State) (c : Nat) (hr : s.running.count c = 0) (hf : s.fresh.count c = 0)
    (hqa : s.queue.count c + s.assigned.count c = 0) (hnr : NoResult s c) :
    (admitCall s c).fresh.count c = 0 ∧ (admitCall s c).queue.count c + (admitCall s c).assigned.count c = 0 ∧
    (admitCall s c).running.count c ≤ 1 ∧ ((admitCall s c).running.count c ≥ 1 → NoResult (admitCall s c) c) := by
  obtain ⟨f1, f2, f3, f4, f5, _⟩ := startInner_fields s c
  unfold admitCall
  rcases pollRunning_subject (startInner s c) c with h | ⟨h1, h2, h3⟩
  · rw [h, f1, f2, f3, f4]
    refine ⟨hf, hqa, by rw [count_snoc]; simp; omega, fun _ => ?_⟩
    intro r hm
    simp only [f5] at hm
    rcases List.mem_append.mp hm with hm | hm
    · exact hnr r hm
    · simp at hm
  · rw [h1, h2, f1, f4]
    rw [f2, f3] at h3
    refine ⟨hf, by omega, ?_, ?_⟩
    · rw [count_erase_self', count_snoc]; simp; omega
    · intro hh
      have hz : ((s.running ++ [c]).erase c).count c = 0 := by rw [count_erase_self', count_snoc]; simp; omega
      omega

/-- a refused request (its handle did not become ready) only leaves a result and a script entry behind -/
theorem refuseCall_fields (s : State) (c : Nat) (kind : Option Nat) :
    ∃ r, r ≠ Res.timeout ∧ (refuseCall s c kind).fresh = s.fresh ∧ (refuseCall s c kind).queue = s.queue ∧
      (refuseCall s c kind).assigned = s.assigned ∧ (refuseCall s c kind).running = s.running ∧
      (refuseCall s c kind).log = s.log ++ [.result c r] ∧
      (refuseCall s c kind).script = (c, { lat := 0, out := .ok }) :: s.script := by
  cases kind with
  | none => exact ⟨.notReady, by simp, rfl, rfl, rfl, rfl, rfl, rfl⟩
  | some k => exact ⟨.inner k 0, by simp, rfl, rfl, rfl, rfl, rfl, rfl⟩

theorem stepS_inv2 (cfg : Cfg) (s : State) (op : Op) (h : Inv2 s) : Inv2 (stepS cfg s op) := by
  cases op with
  | adv ms => exact ⟨h.once, h.isKnown, h.waiting, h.running, h.unknown⟩
  | tick n => exact ⟨h.once, h.isKnown, h.waiting, h.running, h.unknown⟩
  | refuse c kind =>
    simp only [stepS]
    split
    · exact h
    · rename_i hk
      have hk' : known s c = false := by simpa using hk
      have hocc0 : occ s c = 0 := by
        by_cases ho : occ s c ≥ 1
        · have := h.isKnown c ho; rw [hk'] at this; cases this
        · omega
      obtain ⟨r, _, f1, f2, f3, f4, f5, f6⟩ := refuseCall_fields s c kind
      have hocc : ∀ x, occ (refuseCall s c kind) x = occ s x := by
        intro x; simp only [occ, f1, f2, f3, f4]
      have hkn : ∀ x, known (refuseCall s c kind) x = (decide (c = x) || known s x) := by
        intro x; simp only [known, f6, lookup]
        by_cases hcx : c = x <;> simp [hcx]
      have keep : ∀ x, x ≠ c → NoCall s x ∧ NoResult s x → NoCall (refuseCall s c kind) x ∧ NoResult (refuseCall s c kind) x := by
        intro x hx ⟨a, b⟩
        refine ⟨?_, ?_⟩
        · intro k hm; rw [f5] at hm
          rcases List.mem_append.mp hm with hm | hm
          · exact a k hm
          · simp at hm
        · intro r' hm; rw [f5] at hm
          rcases List.mem_append.mp hm with hm | hm
          · exact b r' hm
          · simp at hm; exact hx hm.1
      have keepR : ∀ x, x ≠ c → NoResult s x → NoResult (refuseCall s c kind) x := by
        intro x hx b r' hm; rw [f5] at hm
        rcases List.mem_append.mp hm with hm | hm
        · exact b r' hm
        · simp at hm; exact hx hm.1
      refine ⟨?_, ?_, ?_, ?_, ?_⟩
      · intro x; rw [hocc]; exact h.once x
      · intro x hx; rw [hocc] at hx; rw [hkn]; simp [h.isKnown x hx]
      · intro x hx
        rw [f1, f2, f3] at hx
        have hxc : x ≠ c := by intro hh; subst hh; simp only [occ] at hocc0; omega
        exact keep x hxc (h.waiting x hx)
      · intro x hx
        rw [f4] at hx
        have hxc : x ≠ c := by intro hh; subst hh; simp only [occ] at hocc0; omega
        exact keepR x hxc (h.running x hx)
      · intro x hx
        rw [hkn] at hx
        have hxc : x ≠ c := by intro hh; subst hh; simp at hx
        have : known s x = false := by
          cases hh : known s x with
          | false => rfl
          | true => simp [hh] at hx
        exact keep x hxc (h.unknown x this)
  | arrive c sc =>
    simp only [stepS]
    split
    · exact h
    · rename_i hk
      have hk' : known s c = false := by simpa using hk
      have hocc0 : occ s c = 0 := by
        by_cases ho : occ s c ≥ 1
        · have := h.isKnown c ho; rw [hk'] at this; cases this
        · omega
      have hkn : ∀ x, known { s with fresh := s.fresh ++ [c], script := (c, sc) :: s.script } x
          = (decide (c = x) || known s x) := by
        intro x; simp only [known, lookup]
        by_cases hcx : c = x <;> simp [hcx]
      refine ⟨?_, ?_, ?_, ?_, ?_⟩
      · intro x
        simp only [occ, count_snoc]
        have := h.once x
        simp only [occ] at this hocc0
        by_cases hcx : c = x
        · subst hcx; simp; omega
        · simp [hcx]; omega
      · intro x hx
        rw [hkn]
        by_cases hcx : c = x
        · simp [hcx]
        · simp only [occ, count_snoc, hcx, if_false, Nat.add_zero] at hx
          simp [hcx]; exact h.isKnown x hx
      · intro x hx
        by_cases hcx : c = x
        · subst hcx; exact h.unknown c hk'
        · simp only [count_snoc, hcx, if_false, Nat.add_zero] at hx
          exact h.waiting x hx
      · intro x hx; exact h.running x hx
      · intro x hx
        rw [hkn] at hx
        have : known s x = false := by
          cases hh : known s x with
          | false => rfl
          | true => simp [hh] at hx
        exact h.unknown x this
  | poll c =>
    simp only [stepS]
    have honce := h.once c
    simp only [occ] at honce
    split
    · -- first poll
      rename_i hfr
      have hfc : s.fresh.count c ≥ 1 := (mem_iff_count _ _).mp hfr
      have hk : known s c = true := h.isKnown c (by simp only [occ]; omega)
      obtain ⟨hnc, hnr⟩ := h.waiting c (by omega)
      have t0 : ∀ fr, Trans s { s with fresh := s.fresh.erase c, firstPoll := (c, s.now) :: s.firstPoll, free := fr } c :=
        fun fr => ⟨fun x hx => ⟨count_erase_ne _ _ _ hx, rfl, rfl⟩, ⟨[], by simp, by simp⟩, rfl⟩
      have hf0 : (s.fresh.erase c).count c = 0 := by rw [count_erase_self']; omega
      unfold pollFresh
      simp only
      split
      · have t1 := (t0 (s.free - 1)).trans (trans_admitCall
          { s with fresh := s.fresh.erase c, firstPoll := (c, s.now) :: s.firstPoll, free := s.free - 1 } c)
        obtain ⟨a1, a2, a3, a4⟩ := admitCall_subject
          { s with fresh := s.fresh.erase c, firstPoll := (c, s.now) :: s.firstPoll, free := s.free - 1 } c
          (by show s.running.count c = 0; omega) hf0 (by show s.queue.count c + s.assigned.count c = 0; omega) hnr
        exact inv2_of_trans h t1 (by simp only [occ]; omega) (fun _ => by simp only [known]; rw [t1.script]; exact hk)
          (fun hw => by omega) a4 hk
      · split
        · have t1 := (t0 s.free).trans (trans_emit { s with fresh := s.fresh.erase c, firstPoll := (c, s.now) :: s.firstPoll } c
            [.result c .timeout] (by simp [evCaller]))
          exact inv2_of_trans h t1 (by simp only [occ, emit]; omega) (fun ho => by simp only [occ, emit] at ho; omega)
            (fun hw => by simp only [emit] at hw; omega) (fun hr => by simp only [emit] at hr; omega) hk
        · rename_i w _ _
          have t1 : Trans s { s with fresh := s.fresh.erase c, firstPoll := (c, s.now) :: s.firstPoll, queue := s.queue ++ [c], deadline := (c, s.now + w) :: s.deadline } c :=
            ⟨fun x hx => ⟨count_erase_ne _ _ _ hx, by simp only [count_snoc]; have : ¬ c = x := fun hh => hx hh.symm; simp [this], rfl⟩,
             ⟨[], by simp, by simp⟩, rfl⟩
          exact inv2_of_trans h t1 (by simp only [occ, count_snoc]; simp; omega) (fun _ => hk)
            (fun _ => ⟨hnc, hnr⟩) (fun hr => by simp only at hr; omega) hk
        · have t1 : Trans s { s with fresh := s.fresh.erase c, firstPoll := (c, s.now) :: s.firstPoll, queue := s.queue ++ [c] } c :=
            ⟨fun x hx => ⟨count_erase_ne _ _ _ hx, by simp only [count_snoc]; have : ¬ c = x := fun hh => hx hh.symm; simp [this], rfl⟩,
             ⟨[], by simp, by simp⟩, rfl⟩
          exact inv2_of_trans h t1 (by simp only [occ, count_snoc]; simp; omega) (fun _ => hk)
            (fun _ => ⟨hnc, hnr⟩) (fun hr => by simp only at hr; omega) hk
    · split
      · -- handed a permit by a release
        rename_i hfr has
        have hac : s.assigned.count c ≥ 1 := (mem_iff_count _ _).mp has
        have hk : known s c = true := h.isKnown c (by simp only [occ]; omega)
        obtain ⟨hnc, hnr⟩ := h.waiting c (by omega)
        have t0 : Trans s { s with assigned := s.assigned.erase c } c :=
          ⟨fun x hx => ⟨rfl, by simp only [count_erase_ne _ _ _ hx], rfl⟩, ⟨[], by simp, by simp⟩, rfl⟩
        have ha0 : (s.assigned.erase c).count c = 0 := by rw [count_erase_self']; omega
        unfold pollAssigned
        have t1 := t0.trans (trans_admitCall { s with assigned := s.assigned.erase c } c)
        obtain ⟨a1, a2, a3, a4⟩ := admitCall_subject { s with assigned := s.assigned.erase c } c
          (by show s.running.count c = 0; omega) (by show s.fresh.count c = 0; omega)
          (by show s.queue.count c + (s.assigned.erase c).count c = 0; omega) hnr
        exact inv2_of_trans h t1 (by simp only [occ]; omega) (fun _ => by simp only [known]; rw [t1.script]; exact hk)
          (fun hw => by omega) a4 hk
      · split
        · -- still queued
          rename_i hfr has hqu
          have hqc : s.queue.count c ≥ 1 := (mem_iff_count _ _).mp hqu
          have hk : known s c = true := h.isKnown c (by simp only [occ]; omega)
          unfold pollQueued
          split
          · split
            · have t0 : Trans s { s with queue := s.queue.erase c } c :=
                ⟨fun x hx => ⟨rfl, by simp only [count_erase_ne _ _ _ hx], rfl⟩, ⟨[], by simp, by simp⟩, rfl⟩
              have t1 := t0.trans (trans_emit { s with queue := s.queue.erase c } c [.result c .timeout] (by simp [evCaller]))
              have hq0 : (s.queue.erase c).count c = 0 := by rw [count_erase_self']; omega
              exact inv2_of_trans h t1 (by simp only [occ, emit]; omega) (fun ho => by simp only [occ, emit] at ho; omega)
                (fun hw => by simp only [emit] at hw; omega) (fun hr => by simp only [emit] at hr; omega) hk
            · exact h
          · exact h
        · split
          · -- running
            rename_i hfr has hqu hru
            have hrc : s.running.count c ≥ 1 := (mem_iff_count _ _).mp hru
            have hk : known s c = true := h.isKnown c (by simp only [occ]; omega)
            have t1 := trans_pollRunning s c
            rcases pollRunning_subject s c with he | ⟨h1, h2, h3⟩
            · rw [he]; exact h
            · have hr0 : (s.running.erase c).count c = 0 := by rw [count_erase_self']; omega
              exact inv2_of_trans h t1 (by simp only [occ]; rw [h1, h2]; omega) (fun ho => by simp only [occ] at ho; rw [h1, h2] at ho; omega)
                (fun hw => by rw [h1] at hw; omega) (fun hr => by rw [h2] at hr; omega) hk
          · exact h
  | drop c =>
    simp only [stepS]
    have honce := h.once c
    simp only [occ] at honce
    split
    · rename_i hfr
      have hfc : s.fresh.count c ≥ 1 := (mem_iff_count _ _).mp hfr
      have hk : known s c = true := h.isKnown c (by simp only [occ]; omega)
      have t0 : Trans s { s with fresh := s.fresh.erase c } c :=
        ⟨fun x hx => ⟨count_erase_ne _ _ _ hx, rfl, rfl⟩, ⟨[], by simp, by simp⟩, rfl⟩
      have hf0 : (s.fresh.erase c).count c = 0 := by rw [count_erase_self']; omega
      exact inv2_of_trans h t0 (by simp only [occ]; omega) (fun ho => by simp only [occ] at ho; omega)
        (fun hw => by simp only at hw; omega) (fun hr => by simp only at hr; omega) hk
    · split
      · rename_i hfr hqu
        have hqc : s.queue.count c ≥ 1 := (mem_iff_count _ _).mp hqu
        have hk : known s c = true := h.isKnown c (by simp only [occ]; omega)
        have t0 : Trans s { s with queue := s.queue.erase c } c :=
          ⟨fun x hx => ⟨rfl, by simp only [count_erase_ne _ _ _ hx], rfl⟩, ⟨[], by simp, by simp⟩, rfl⟩
        have hq0 : (s.queue.erase c).count c = 0 := by rw [count_erase_self']; omega
        exact inv2_of_trans h t0 (by simp only [occ]; omega) (fun ho => by simp only [occ] at ho; omega)
          (fun hw => by simp only at hw; omega) (fun hr => by simp only at hr; omega) hk
      · split
        · rename_i hfr hqu has
          have hac : s.assigned.count c ≥ 1 := (mem_iff_count _ _).mp has
          have hk : known s c = true := h.isKnown c (by simp only [occ]; omega)
          have ha0 : (s.assigned.erase c).count c = 0 := by rw [count_erase_self']; omega
          have hrel := fun x => release_counts { s with assigned := s.assigned.erase c } x
          have t0 : Trans s (release { s with assigned := s.assigned.erase c }) c := by
            refine ⟨?_, ?_, ?_⟩
            · intro x hx
              obtain ⟨r1, r2, _, _, r5⟩ := hrel x
              exact ⟨by rw [r1], by rw [r5]; simp only [count_erase_ne _ _ _ hx], by rw [r2]⟩
            · obtain ⟨_, _, r3, _, _⟩ := hrel 0
              exact ⟨[], by rw [r3]; simp, by simp⟩
            · obtain ⟨_, _, _, r4, _⟩ := hrel 0; exact r4
          obtain ⟨r1, r2, _, _, r5⟩ := hrel c
          exact inv2_of_trans h t0 (by simp only [occ]; rw [r1, r2]; simp only at r5 ⊢; omega)
            (fun ho => by simp only [occ] at ho; rw [r1, r2] at ho; simp only at r5 ho; omega)
            (fun hw => by rw [r1] at hw; simp only at r5 hw; omega) (fun hr => by rw [r2] at hr; simp only at hr; omega) hk
        · split
          · rename_i hfr hqu has hru
            have hrc : s.running.count c ≥ 1 := (mem_iff_count _ _).mp hru
            have hk : known s c = true := h.isKnown c (by simp only [occ]; omega)
            unfold dropRunning
            have t1 := trans_finishRunning s c [.innerDrop c ((lookup s.kOf c).getD 0)] (by simp [evCaller])
            obtain ⟨r1, r2, _, _, r5⟩ := release_counts { s with running := s.running.erase c } c
            have hr0 : (s.running.erase c).count c = 0 := by rw [count_erase_self']; omega
            exact inv2_of_trans h t1 (by simp only [occ, finishRunning, emit]; rw [r1, r2]; simp only at r5 ⊢; omega)
              (fun ho => by simp only [occ, finishRunning, emit] at ho; rw [r1, r2] at ho; simp only at r5 ho; omega)
              (fun hw => by simp only [finishRunning, emit] at hw; rw [r1] at hw; simp only at r5 hw; omega)
              (fun hr => by simp only [finishRunning, emit] at hr; rw [r2] at hr; simp only at hr; omega) hk
          · exact h

end TR.Bulkhead

namespace TR.Bulkhead

theorem init_inv2 (cfg : Cfg) : Inv2 (init cfg) := by
  refine ⟨by intro c; simp [occ, init], by intro c h; simp [occ, init] at h, by intro c h; simp [init] at h,
    by intro c h; simp [init] at h, by intro c _; exact ⟨by intro k; simp [init], by intro r; simp [init]⟩⟩

theorem foldl_inv2 (cfg : Cfg) (ops : List Op) (s : State) (h : Inv2 s) : Inv2 (ops.foldl (stepS cfg) s) := by
  induction ops generalizing s with
  | nil => simpa
  | cons o os ih => exact ih _ (stepS_inv2 cfg s o h)

theorem inv2_reachable (cfg : Cfg) (ops : List Op) : Inv2 (run cfg ops) :=
  foldl_inv2 cfg ops _ (init_inv2 cfg)

/-- every poll / drop is a transition whose subject is the polled / dropped caller -/
theorem poll_trans (cfg : Cfg) (s : State) (c : Nat) : Trans s (stepS cfg s (.poll c)) c := by
  simp only [stepS]
  split
  · unfold pollFresh
    simp only
    have t0 : ∀ fr, Trans s { s with fresh := s.fresh.erase c, firstPoll := (c, s.now) :: s.firstPoll, free := fr } c :=
      fun fr => ⟨fun x hx => ⟨count_erase_ne _ _ _ hx, rfl, rfl⟩, ⟨[], by simp, by simp⟩, rfl⟩
    split
    · exact (t0 (s.free - 1)).trans (trans_admitCall _ c)
    · split
      · exact (t0 s.free).trans (trans_emit _ c [.result c .timeout] (by simp [evCaller]))
      · exact ⟨fun x hx => ⟨count_erase_ne _ _ _ hx, by simp only [count_snoc]; have : ¬ c = x := fun hh => hx hh.symm; simp [this], rfl⟩,
          ⟨[], by simp, by simp⟩, rfl⟩
      · exact ⟨fun x hx => ⟨count_erase_ne _ _ _ hx, by simp only [count_snoc]; have : ¬ c = x := fun hh => hx hh.symm; simp [this], rfl⟩,
          ⟨[], by simp, by simp⟩, rfl⟩
  · split
    · unfold pollAssigned
      have t0 : Trans s { s with assigned := s.assigned.erase c } c :=
        ⟨fun x hx => ⟨rfl, by simp only [count_erase_ne _ _ _ hx], rfl⟩, ⟨[], by simp, by simp⟩, rfl⟩
      exact t0.trans (trans_admitCall _ c)
    · split
      · unfold pollQueued
        split
        · split
          · have t0 : Trans s { s with queue := s.queue.erase c } c :=
              ⟨fun x hx => ⟨rfl, by simp only [count_erase_ne _ _ _ hx], rfl⟩, ⟨[], by simp, by simp⟩, rfl⟩
            exact t0.trans (trans_emit _ c [.result c .timeout] (by simp [evCaller]))
          · exact Trans.refl s c
        · exact Trans.refl s c
      · split
        · exact trans_pollRunning s c
        · exact Trans.refl s c

theorem drop_trans (cfg : Cfg) (s : State) (c : Nat) : Trans s (stepS cfg s (.drop c)) c := by
  simp only [stepS]
  split
  · exact ⟨fun x hx => ⟨count_erase_ne _ _ _ hx, rfl, rfl⟩, ⟨[], by simp, by simp⟩, rfl⟩
  · split
    · exact ⟨fun x hx => ⟨rfl, by simp only [count_erase_ne _ _ _ hx], rfl⟩, ⟨[], by simp, by simp⟩, rfl⟩
    · split
      · have hrel := fun x => release_counts { s with assigned := s.assigned.erase c } x
        refine ⟨?_, ?_, ?_⟩
        · intro x hx
          obtain ⟨r1, r2, _, _, r5⟩ := hrel x
          exact ⟨by rw [r1], by rw [r5]; simp only [count_erase_ne _ _ _ hx], by rw [r2]⟩
        · obtain ⟨_, _, r3, _, _⟩ := hrel 0
          exact ⟨[], by rw [r3]; simp, by simp⟩
        · obtain ⟨_, _, _, r4, _⟩ := hrel 0; exact r4
      · split
        · unfold dropRunning
          exact trans_finishRunning s c _ (by simp [evCaller])
        · exact Trans.refl s c

/-- a caller that has left every phase list without ever reaching the inner service never reaches it:
no later operation — of anybody — starts an inner call for it -/
theorem gone_stays_clean (cfg : Cfg) (s : State) (c : Nat) (hk : known s c = true) (ho : occ s c = 0)
    (hn : NoCall s c) (op : Op) :
    known (stepS cfg s op) c = true ∧ occ (stepS cfg s op) c = 0 ∧ NoCall (stepS cfg s op) c := by
  have hfr : s.fresh.contains c = false := by
    cases hh : s.fresh.contains c with
    | false => rfl
    | true => have := (mem_iff_count _ _).mp hh; simp only [occ] at ho; omega
  have hqu : s.queue.contains c = false := by
    cases hh : s.queue.contains c with
    | false => rfl
    | true => have := (mem_iff_count _ _).mp hh; simp only [occ] at ho; omega
  have has : s.assigned.contains c = false := by
    cases hh : s.assigned.contains c with
    | false => rfl
    | true => have := (mem_iff_count _ _).mp hh; simp only [occ] at ho; omega
  have hru : s.running.contains c = false := by
    cases hh : s.running.contains c with
    | false => rfl
    | true => have := (mem_iff_count _ _).mp hh; simp only [occ] at ho; omega
  have other : ∀ x, x ≠ c → ∀ s', Trans s s' x → known s' c = true ∧ occ s' c = 0 ∧ NoCall s' c := by
    intro x hx s' ht
    obtain ⟨a1, a2, a3⟩ := ht.other c (Ne.symm hx)
    refine ⟨by simp only [known] at hk ⊢; rw [ht.script]; exact hk, by simp only [occ] at ho ⊢; omega,
      noCall_of_trans ht (Ne.symm hx) hn⟩
  cases op with
  | adv ms => exact ⟨hk, ho, hn⟩
  | tick n => exact ⟨hk, ho, hn⟩
  | refuse x kind =>
    simp only [stepS]
    split
    · exact ⟨hk, ho, hn⟩
    · rename_i hkx
      have hxc : x ≠ c := by intro hh; subst hh; exact hkx hk
      obtain ⟨r, _, f1, f2, f3, f4, f5, f6⟩ := refuseCall_fields s x kind
      refine ⟨?_, ?_, ?_⟩
      · simp only [known, f6, lookup]; simp [hxc]; simpa [known] using hk
      · simp only [occ, f1, f2, f3, f4] at ho ⊢; exact ho
      · intro k hm; rw [f5] at hm
        rcases List.mem_append.mp hm with hm | hm
        · exact hn k hm
        · simp at hm
  | arrive x sc =>
    simp only [stepS]
    split
    · exact ⟨hk, ho, hn⟩
    · rename_i hkx
      have hxc : x ≠ c := by intro hh; subst hh; exact hkx hk
      refine ⟨?_, ?_, hn⟩
      · simp only [known, lookup]; simp [hxc]; simpa [known] using hk
      · simp only [occ, count_snoc] at ho ⊢; simp [hxc]; omega
  | poll x =>
    by_cases hx : x = c
    · subst hx
      simp only [stepS, hfr, has, hqu, hru]
      exact ⟨hk, ho, hn⟩
    · exact other x hx _ (poll_trans cfg s x)
  | drop x =>
    by_cases hx : x = c
    · subst hx
      simp only [stepS, hfr, has, hqu, hru]
      exact ⟨hk, ho, hn⟩
    · exact other x hx _ (drop_trans cfg s x)

theorem gone_forever (cfg : Cfg) (ops : List Op) (s : State) (c : Nat) (hk : known s c = true) (ho : occ s c = 0)
    (hn : NoCall s c) : NoCall (ops.foldl (stepS cfg) s) c := by
  induction ops generalizing s with
  | nil => exact hn
  | cons o os ih =>
    obtain ⟨h1, h2, h3⟩ := gone_stays_clean cfg s c hk ho hn o
    exact ih _ h1 h2 h3

end TR.Bulkhead

namespace TR.Bulkhead

/-- a caller that has been rejected with the wait-timeout error has not reached the inner service -/
def TimeoutClean (s : State) : Prop := ∀ c, Ev.result c .timeout ∈ s.log → NoCall s c

theorem mem_new_of_trans {s s' : State} {x : Nat} (ht : Trans s s' x) (e : Ev) (he : e ∈ s'.log) :
    e ∈ s.log ∨ evCaller e = some x := by
  obtain ⟨evs, hl, hp⟩ := ht.log
  rw [hl] at he
  rcases List.mem_append.mp he with h | h
  · exact Or.inl h
  · exact Or.inr (hp e h)

theorem occ_zero_of_result (s : State) (h : Inv2 s) (c : Nat) (r : Res) (hr : Ev.result c r ∈ s.log) :
    occ s c = 0 ∧ known s c = true := by
  constructor
  · by_cases hw : s.fresh.count c + s.queue.count c + s.assigned.count c ≥ 1
    · exact absurd hr ((h.waiting c hw).2 r)
    · by_cases hru : s.running.count c ≥ 1
      · exact absurd hr (h.running c hru r)
      · simp only [occ]; omega
  · cases hk : known s c with
    | true => rfl
    | false => exact absurd hr ((h.unknown c hk).2 r)

theorem timeoutClean_step (cfg : Cfg) (s : State) (op : Op) (h2 : Inv2 s) (h : TimeoutClean s) :
    TimeoutClean (stepS cfg s op) := by
  intro c hc
  cases op with
  | adv ms => exact h c hc
  | tick n => exact h c hc
  | refuse x kind =>
    simp only [stepS] at hc ⊢
    by_cases hkx : known s x = true
    · simp only [hkx, if_true] at hc ⊢; exact h c hc
    · have hkx' : known s x = false := by simpa using hkx
      simp only [hkx', Bool.false_eq_true, if_false] at hc ⊢
      obtain ⟨r, hr, _, _, _, _, f5, _⟩ := refuseCall_fields s x kind
      rw [f5] at hc
      have hold : Ev.result c .timeout ∈ s.log := by
        rcases List.mem_append.mp hc with hh | hh
        · exact hh
        · simp at hh; exact absurd hh.2.symm hr
      intro k hm; rw [f5] at hm
      rcases List.mem_append.mp hm with hm | hm
      · exact h c hold k hm
      · simp at hm
  | arrive x sc => simp only [stepS] at hc ⊢; split at hc <;> (split <;> first | exact h c hc | (rename_i h1 h2'; exact absurd h1 h2') | (rename_i h1 h2'; exact absurd h2' h1))
  | poll x =>
    by_cases hx : x = c
    · subst hx
      by_cases hold : Ev.result x .timeout ∈ s.log
      · -- already rejected earlier: `x` is gone, the poll does nothing
        obtain ⟨ho, hk⟩ := occ_zero_of_result s h2 x _ hold
        exact (gone_stays_clean cfg s x hk ho (h x hold) (.poll x)).2.2
      · -- rejected in this step: the step emitted exactly that result
        have hnew : Ev.result x .timeout ∈ (stepS cfg s (.poll x)).log.drop s.log.length := by
          obtain ⟨evs, hl, _⟩ := (poll_trans cfg s x).log
          rw [hl] at hc ⊢
          rcases List.mem_append.mp hc with hh | hh
          · exact absurd hh hold
          · simpa using hh
        obtain ⟨_, hlog, hcase⟩ := poll_timeout_char cfg s x x hnew
        have hwait : NoCall s x := by
          rcases hcase with ⟨hf, _, _⟩ | ⟨_, _, hq, _⟩
          · exact (h2.waiting x (by have := (mem_iff_count _ _).mp hf; omega)).1
          · exact (h2.waiting x (by have := (mem_iff_count _ _).mp hq; omega)).1
        intro k hm
        rw [hlog] at hm
        rcases List.mem_append.mp hm with hh | hh
        · exact hwait k hh
        · simp at hh
    · have ht := poll_trans cfg s x
      have hold : Ev.result c .timeout ∈ s.log := by
        rcases mem_new_of_trans ht _ hc with hh | hh
        · exact hh
        · simp [evCaller] at hh; exact absurd hh.symm hx
      exact noCall_of_trans ht (Ne.symm hx) (h c hold)
  | drop x =>
    have ht := drop_trans cfg s x
    by_cases hx : x = c
    · subst hx
      have hold : Ev.result x .timeout ∈ s.log := by
        -- a drop never emits a result
        simp only [stepS] at hc
        split at hc
        · exact hc
        · split at hc
          · exact hc
          · split at hc
            · rw [(release_counts _ 0).2.2.1] at hc; exact hc
            · split at hc
              · simp only [dropRunning, finishRunning, emit] at hc
                rw [(release_counts _ 0).2.2.1] at hc
                rcases List.mem_append.mp hc with hh | hh
                · exact hh
                · simp at hh
              · exact hc
      obtain ⟨ho, hk⟩ := occ_zero_of_result s h2 x _ hold
      exact (gone_stays_clean cfg s x hk ho (h x hold) (.drop x)).2.2
    · have hold : Ev.result c .timeout ∈ s.log := by
        rcases mem_new_of_trans ht _ hc with hh | hh
        · exact hh
        · simp [evCaller] at hh; exact absurd hh.symm hx
      exact noCall_of_trans ht (Ne.symm hx) (h c hold)

theorem timeoutClean_reachable (cfg : Cfg) (ops : List Op) : TimeoutClean (run cfg ops) := by
  unfold run
  suffices ∀ s, Inv2 s → TimeoutClean s → TimeoutClean (ops.foldl (stepS cfg) s) from
    this _ (init_inv2 cfg) (by intro c hc; simp [init] at hc)
  induction ops with
  | nil => intro s _ h; exact h
  | cons o os ih => intro s h2 h; exact ih _ (stepS_inv2 cfg s o h2) (timeoutClean_step cfg s o h2 h)

end TR.Bulkhead

namespace TR.Bulkhead

/-- dropping a caller that is still waiting (never polled, queued, or holding an unused permit) removes it -/
theorem drop_waiting_gone (cfg : Cfg) (s : State) (c : Nat) (h : Inv2 s)
    (hw : s.fresh.count c + s.queue.count c + s.assigned.count c ≥ 1) :
    known (stepS cfg s (.drop c)) c = true ∧ occ (stepS cfg s (.drop c)) c = 0 ∧ NoCall (stepS cfg s (.drop c)) c := by
  have honce := h.once c
  simp only [occ] at honce
  have hk : known s c = true := h.isKnown c (by simp only [occ]; omega)
  have hnc := (h.waiting c hw).1
  have ht := drop_trans cfg s c
  have hkn : known (stepS cfg s (.drop c)) c = true := by simp only [known] at hk ⊢; rw [ht.script]; exact hk
  have hlog : (stepS cfg s (.drop c)).log = s.log := by
    simp only [stepS]
    split
    · rfl
    · split
      · rfl
      · split
        · exact (release_counts _ 0).2.2.1
        · split
          · rename_i hru
            have := (mem_iff_count _ _).mp hru; omega
          · rfl
  refine ⟨hkn, ?_, by intro k hm; rw [hlog] at hm; exact hnc k hm⟩
  simp only [stepS]
  split
  · rename_i hfr
    have := (mem_iff_count _ _).mp hfr
    simp only [occ, count_erase_self']; omega
  · rename_i hfr
    have hf0 : s.fresh.count c = 0 := by
      by_cases hp : s.fresh.count c ≥ 1
      · exact absurd ((mem_iff_count _ _).mpr hp) hfr
      · omega
    split
    · rename_i hqu
      have := (mem_iff_count _ _).mp hqu
      simp only [occ, count_erase_self']; omega
    · rename_i hqu
      have hq0 : s.queue.count c = 0 := by
        by_cases hp : s.queue.count c ≥ 1
        · exact absurd ((mem_iff_count _ _).mpr hp) hqu
        · omega
      split
      · rename_i has
        have := (mem_iff_count _ _).mp has
        obtain ⟨r1, r2, _, _, r5⟩ := release_counts { s with assigned := s.assigned.erase c } c
        simp only [occ]; rw [r1, r2]; simp only [count_erase_self'] at r5 ⊢; omega
      · rename_i has
        have : s.assigned.count c ≥ 1 := by omega
        exact absurd ((mem_iff_count _ _).mpr this) has

end TR.Bulkhead
