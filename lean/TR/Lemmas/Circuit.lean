import TR.Model.Circuit
/-!
# Circuit breaker: invariants of the `Circuit` critical sections and of the caller machine
-/
namespace TR.Circuit

/-! ## the circuit-level invariant -/

structure CInv (cfg : Cfg) (c : Circuit) : Prop where
  mirror  : c.mirror = c.st
  failN   : c.failN = countFail c.cwin
  slowN   : c.slowN = countSlow c.cwin
  totalN  : c.totalN = c.cwin.length
  succN   : c.succN + countFail c.cwin = c.cwin.length
  bounded : c.cwin.length ≤ max cfg.size 1
  hoAdm   : c.st = .halfOpen → c.hoAdmitted ≤ max cfg.permitted 1
  hoSucc  : c.st = .halfOpen → c.hoSuccesses < max cfg.permitted 1
  own     : c.ownSucc ≤ c.hoSuccesses
  idle    : c.st ≠ .halfOpen → c.hoAdmitted = 0 ∧ c.hoSuccesses = 0 ∧ c.ownSucc = 0 ∧ c.released = 0

theorem countFail_le (l : List Rec) : countFail l ≤ l.length := List.countP_le_length
theorem countSlow_le (l : List Rec) : countSlow l ≤ l.length := List.countP_le_length

@[simp] theorem countFail_nil : countFail [] = 0 := rfl
@[simp] theorem countSlow_nil : countSlow [] = 0 := rfl
@[simp] theorem countFail_append (a b : List Rec) : countFail (a ++ b) = countFail a + countFail b := by
  simp [countFail, List.countP_append]
@[simp] theorem countSlow_append (a b : List Rec) : countSlow (a ++ b) = countSlow a + countSlow b := by
  simp [countSlow, List.countP_append]
theorem countFail_cons (r : Rec) (l : List Rec) :
    countFail (r :: l) = (if r.fail then 1 else 0) + countFail l := by
  simp [countFail, List.countP_cons]; split <;> omega
theorem countSlow_cons (r : Rec) (l : List Rec) :
    countSlow (r :: l) = (if r.slow then 1 else 0) + countSlow l := by
  simp [countSlow, List.countP_cons]; split <;> omega

theorem init_cinv (cfg : Cfg) : CInv cfg ({} : Circuit) := by
  constructor <;> simp

theorem transitionTo_inv (cfg : Cfg) (c : Circuit) (s : St) (now : Nat) (h : CInv cfg c) :
    CInv cfg (transitionTo c s now).1 := by
  unfold transitionTo
  split
  · exact h
  · exact ⟨rfl, rfl, rfl, rfl, rfl, by simp [clearWindow], by simp, by simp; omega, by simp, by simp⟩

/-- a real transition establishes the invariant from scratch -/
theorem transitionTo_inv_ne (cfg : Cfg) (c : Circuit) (s : St) (now : Nat) (hne : c.st ≠ s) :
    CInv cfg (transitionTo c s now).1 := by
  unfold transitionTo
  rw [if_neg hne]
  exact ⟨rfl, rfl, rfl, rfl, rfl, by simp [clearWindow], by simp, by simp; omega, by simp, by simp⟩

theorem transitionTo_st (c : Circuit) (s : St) (now : Nat) : (transitionTo c s now).1.st = s := by
  unfold transitionTo; split <;> simp_all

theorem clearWindow_inv (cfg : Cfg) (c : Circuit) (h : CInv cfg c) : CInv cfg (clearWindow c) :=
  ⟨h.mirror, rfl, rfl, rfl, rfl, by simp [clearWindow], h.hoAdm, h.hoSucc, h.own, h.idle⟩

theorem cleanup_inv (cfg : Cfg) (c : Circuit) (now : Nat) (h : CInv cfg c) : CInv cfg (cleanup cfg c now) :=
  ⟨h.mirror, h.failN, h.slowN, h.totalN, h.succN, h.bounded, h.hoAdm, h.hoSucc, h.own, h.idle⟩

theorem pushCount_inv (cfg : Cfg) (c : Circuit) (r : Rec) (h : CInv cfg c) : CInv cfg (pushCount cfg c r) := by
  have h1 := h.failN; have h2 := h.slowN; have h3 := h.totalN; have h4 := h.succN
  have hb := h.bounded
  unfold pushCount
  simp only
  split
  · -- one eviction
    rename_i hlen
    unfold evictOne
    simp only
    cases hw : c.cwin ++ [r] with
    | nil => simp at hw
    | cons x tl =>
      simp only
      have hlen' : tl.length = c.cwin.length := by
        have : (x :: tl).length = c.cwin.length + 1 := by rw [← hw]; simp
        simpa using this
      have hcf : (if x.fail then 1 else 0) + countFail tl = countFail c.cwin + (if r.fail then 1 else 0) := by
        rw [← countFail_cons, ← hw]; simp [countFail_cons]
      have hcs : (if x.slow then 1 else 0) + countSlow tl = countSlow c.cwin + (if r.slow then 1 else 0) := by
        rw [← countSlow_cons, ← hw]; simp [countSlow_cons]
      have hfl := countFail_le tl
      have hsl := countSlow_le tl
      simp at hlen
      refine ⟨h.mirror, ?_, ?_, ?_, ?_, ?_, h.hoAdm, h.hoSucc, h.own, h.idle⟩
      · show (if x.fail = true then (if r.fail = true then c.failN + 1 else c.failN) - 1 else (if r.fail = true then c.failN + 1 else c.failN)) = countFail tl
        split <;> split <;> simp_all <;> omega
      · show (if x.slow = true then (if r.slow = true then c.slowN + 1 else c.slowN) - 1 else (if r.slow = true then c.slowN + 1 else c.slowN)) = countSlow tl
        split <;> split <;> simp_all <;> omega
      · show c.totalN + 1 - 1 = tl.length
        omega
      · show (if x.fail = true then (if r.fail = true then c.succN else c.succN + 1) else (if r.fail = true then c.succN else c.succN + 1) - 1) + countFail tl = tl.length
        split <;> split <;> simp_all <;> omega
      · show tl.length ≤ max cfg.size 1
        omega
  · rename_i hlen
    refine ⟨h.mirror, ?_, ?_, ?_, ?_, ?_, h.hoAdm, h.hoSucc, h.own, h.idle⟩
    · show (if r.fail = true then c.failN + 1 else c.failN) = countFail (c.cwin ++ [r])
      simp [countFail_cons]; split <;> simp_all
    · show (if r.slow = true then c.slowN + 1 else c.slowN) = countSlow (c.cwin ++ [r])
      simp [countSlow_cons]; split <;> simp_all
    · show c.totalN + 1 = (c.cwin ++ [r]).length
      simp; omega
    · show (if r.fail = true then c.succN else c.succN + 1) + countFail (c.cwin ++ [r]) = (c.cwin ++ [r]).length
      simp [countFail_cons]; split <;> simp_all <;> omega
    · show (c.cwin ++ [r]).length ≤ max cfg.size 1
      simp at hlen ⊢; omega

theorem pushOutcome_inv (cfg : Cfg) (c : Circuit) (r : Rec) (now : Nat) (h : CInv cfg c) :
    CInv cfg (pushOutcome cfg c r now) := by
  unfold pushOutcome
  split
  · have h' := pushCount_inv cfg c r h
    exact ⟨h'.mirror, h'.failN, h'.slowN, h'.totalN, h'.succN, h'.bounded, h'.hoAdm, h'.hoSucc, h'.own, h'.idle⟩
  · have h' := cleanup_inv cfg c now h
    exact ⟨h'.mirror, h'.failN, h'.slowN, h'.totalN, h'.succN, h'.bounded, h'.hoAdm, h'.hoSucc, h'.own, h'.idle⟩

/-- the window update touches nothing but the window -/
theorem pushOutcome_frame (cfg : Cfg) (c : Circuit) (r : Rec) (now : Nat) :
    let c' := pushOutcome cfg c r now
    c'.st = c.st ∧ c'.mirror = c.mirror ∧ c'.lastChange = c.lastChange ∧ c'.hoAdmitted = c.hoAdmitted ∧
    c'.hoSuccesses = c.hoSuccesses ∧ c'.episode = c.episode ∧ c'.released = c.released ∧ c'.ownSucc = c.ownSucc := by
  unfold pushOutcome pushCount evictOne cleanup
  simp only
  split
  · split
    · split <;> simp
    · simp
  · simp

theorem evalOn_inv (cfg : Cfg) (c : Circuit) (now : Nat) (h : CInv cfg c) : CInv cfg (evalOn cfg c now).1 := by
  unfold evalOn
  simp only
  split
  · exact transitionTo_inv cfg _ _ now h
  · exact h

theorem evaluate_inv (cfg : Cfg) (c : Circuit) (now : Nat) (h : CInv cfg c) : CInv cfg (evaluate cfg c now).1 := by
  unfold evaluate
  apply evalOn_inv
  split
  · exact h
  · exact cleanup_inv cfg c now h

theorem record_inv (cfg : Cfg) (c : Circuit) (fail : Bool) (dur now : Nat) (own : Bool) (h : CInv cfg c) :
    CInv cfg (record cfg c fail dur now own).1 := by
  have hp := pushOutcome_inv cfg c { t := now, fail := fail, slow := isSlow cfg dur } now h
  unfold record
  simp only
  split
  · rename_i hst
    split
    · exact transitionTo_inv cfg _ _ now hp
    · split
      · apply transitionTo_inv_ne
        simp [hst]
      · rename_i hlt
        exact ⟨hp.mirror, hp.failN, hp.slowN, hp.totalN, hp.succN, hp.bounded, hp.hoAdm,
          fun _ => by simp at hlt ⊢; omega, by have := hp.own; simp; split <;> omega,
          fun hne => absurd hst hne⟩
  · exact evaluate_inv cfg _ now hp

theorem tryAcquire_inv (cfg : Cfg) (c : Circuit) (now : Nat) (h : CInv cfg c) :
    CInv cfg (tryAcquire cfg c now).1 := by
  unfold tryAcquire
  split
  · exact h
  · split
    · have ht := transitionTo_inv cfg c .halfOpen now h
      have hst := transitionTo_st c .halfOpen now
      have hid : (transitionTo c .halfOpen now).1.hoSuccesses = 0 ∧ (transitionTo c .halfOpen now).1.ownSucc = 0 := by
        unfold transitionTo; split <;> simp_all
      exact ⟨ht.mirror, ht.failN, ht.slowN, ht.totalN, ht.succN, ht.bounded, fun _ => by simp; omega,
        fun _ => by simp [hid.1]; omega, by simp [hid.1, hid.2], fun hne => absurd hst hne⟩
    · exact h
  · rename_i hst
    split
    · rename_i hlt
      exact ⟨h.mirror, h.failN, h.slowN, h.totalN, h.succN, h.bounded, fun _ => by simp; omega,
        h.hoSucc, h.own, fun hne => absurd hst hne⟩
    · exact h

theorem releaseTrial_inv (cfg : Cfg) (c : Circuit) (ep : Option Nat) (h : CInv cfg c) :
    CInv cfg (releaseTrial c ep) := by
  unfold releaseTrial
  split
  · split
    · rename_i hc
      exact ⟨h.mirror, h.failN, h.slowN, h.totalN, h.succN, h.bounded,
        fun hs => by have := h.hoAdm hs; simp; omega, h.hoSucc, h.own, fun hne => absurd hc.1 hne⟩
    · exact h
  · exact h

theorem reset_inv (cfg : Cfg) (c : Circuit) (now : Nat) (h : CInv cfg c) : CInv cfg (reset c now).1 := by
  unfold reset
  exact clearWindow_inv cfg _ (transitionTo_inv cfg c .closed now h)

/-! ## effects of the critical sections -/

/-- how a critical section may change the state-machine part of the circuit -/
inductive Eff (now : Nat) (c c' : Circuit) (evs : List CEv) : Prop
  | stay (h1 : evs = []) (h2 : c'.st = c.st) (h3 : c'.episode = c.episode)
      (h4 : c'.lastChange = c.lastChange) (h5 : c'.released = c.released) : Eff now c c' evs
  | moved (s' : St) (h0 : c.st ≠ s') (h1 : evs = [.transition c.st s' c.mirror]) (h2 : c'.st = s')
      (h3 : c'.hoAdmitted = 0) (h4 : c'.hoSuccesses = 0) (h5 : c'.released = 0) (h6 : c'.ownSucc = 0)
      (h7 : c'.episode = c.episode + 1) (h8 : c'.lastChange = now) : Eff now c c' evs

theorem transitionTo_eff (c : Circuit) (s : St) (now : Nat) :
    Eff now c (transitionTo c s now).1 (transitionTo c s now).2 ∧
    (c.st = s → (transitionTo c s now).1 = c) := by
  unfold transitionTo
  split
  · exact ⟨.stay rfl rfl rfl rfl rfl, fun _ => rfl⟩
  · rename_i hne
    exact ⟨.moved s hne rfl rfl rfl rfl rfl rfl rfl rfl, fun h => absurd h hne⟩

theorem evalOn_eff (cfg : Cfg) (c : Circuit) (now : Nat) :
    Eff now c (evalOn cfg c now).1 (evalOn cfg c now).2 ∧
    ((evalOn cfg c now).2 = [] → (evalOn cfg c now).1 = c) := by
  unfold evalOn
  simp only
  split
  · have := transitionTo_eff c .opened now
    refine ⟨this.1, fun he => ?_⟩
    cases this.1 with
    | stay h1 h2 h3 h4 h5 =>
      unfold transitionTo at he ⊢
      split <;> simp_all
    | moved s' h0 h1 => simp [h1] at he
  · exact ⟨.stay rfl rfl rfl rfl rfl, fun _ => rfl⟩

theorem cleanup_frame (cfg : Cfg) (c : Circuit) (now : Nat) :
    let c' := cleanup cfg c now
    c'.st = c.st ∧ c'.mirror = c.mirror ∧ c'.lastChange = c.lastChange ∧ c'.hoAdmitted = c.hoAdmitted ∧
    c'.hoSuccesses = c.hoSuccesses ∧ c'.episode = c.episode ∧ c'.released = c.released ∧ c'.ownSucc = c.ownSucc := by
  simp [cleanup]

/-- `evaluate_window`: either nothing but the window changes, or the breaker opens -/
theorem evaluate_eff (cfg : Cfg) (c : Circuit) (now : Nat) :
    let r := evaluate cfg c now
    Eff now c r.1 r.2 ∧ (r.2 = [] → r.1.hoAdmitted = c.hoAdmitted ∧ r.1.ownSucc = c.ownSucc ∧ r.1.hoSuccesses = c.hoSuccesses) := by
  unfold evaluate
  simp only
  by_cases hcb : cfg.countBased = true
  · simp only [hcb, if_true]
    have := evalOn_eff cfg c now
    exact ⟨this.1, fun he => by rw [this.2 he]; simp⟩
  · have hcb' : cfg.countBased = false := by simpa using hcb
    simp only [hcb', Bool.false_eq_true, if_false]
    have := evalOn_eff cfg (cleanup cfg c now) now
    have hf := cleanup_frame cfg c now
    simp only at hf
    obtain ⟨f1, f2, f3, f4, f5, f6, f7, f8⟩ := hf
    refine ⟨?_, fun he => by rw [this.2 he]; exact ⟨f4, f8, f5⟩⟩
    cases this.1 with
    | stay h1 h2 h3 h4 h5 => exact .stay h1 (by rw [h2, f1]) (by rw [h3, f6]) (by rw [h4, f3]) (by rw [h5, f7])
    | moved s' h0 h1 h2 h3 h4 h5 h6 h7 h8 =>
      exact .moved s' (by rw [← f1]; exact h0) (by rw [h1, f1, f2]) h2 h3 h4 h5 h6 (by rw [h7, f6]) h8

theorem evalOn_st (cfg : Cfg) (c : Circuit) (now : Nat) (h : (evalOn cfg c now).2 ≠ []) :
    (evalOn cfg c now).1.st = .opened := by
  unfold evalOn at h ⊢
  simp only at h ⊢
  split
  · exact transitionTo_st ..
  · rename_i hso; simp [hso] at h

theorem evaluate_st (cfg : Cfg) (c : Circuit) (now : Nat) (h : (evaluate cfg c now).2 ≠ []) :
    (evaluate cfg c now).1.st = .opened := by
  unfold evaluate at h ⊢
  exact evalOn_st cfg _ now h

/-- `record_success` / `record_failure` -/
theorem record_eff (cfg : Cfg) (c : Circuit) (fail : Bool) (dur now : Nat) (own : Bool) :
    let r := record cfg c fail dur now own
    Eff now c r.1 r.2 ∧
    (r.2 = [] → r.1.hoAdmitted = c.hoAdmitted ∧
      r.1.ownSucc = c.ownSucc + (if c.st = .halfOpen ∧ own = true then 1 else 0) ∧
      (c.st = .halfOpen → fail = false)) ∧
    (r.2 ≠ [] → r.1.st ≠ .halfOpen) := by
  have hf := pushOutcome_frame cfg c { t := now, fail := fail, slow := isSlow cfg dur } now
  simp only at hf
  obtain ⟨f1, f2, f3, f4, f5, f6, f7, f8⟩ := hf
  unfold record
  simp only
  split
  · rename_i hst
    have hst' : c.st = .halfOpen := by rw [← f1]; exact hst
    split
    · rename_i hfail
      have := (transitionTo_eff (pushOutcome cfg c { t := now, fail := fail, slow := isSlow cfg dur } now) .opened now).1
      cases this with
      | stay h1 h2 => rw [transitionTo_st] at h2; rw [hst] at h2; cases h2
      | moved s' h0 h1 h2 h3 h4 h5 h6 h7 h8 =>
        refine ⟨.moved s' (by rw [← f1]; exact h0) (by rw [h1, f1, f2]) h2 h3 h4 h5 h6 (by rw [h7, f6]) h8, fun he => ?_, fun _ => ?_⟩
        · rw [h1] at he; cases he
        · rw [transitionTo_st]; simp
    · rename_i hfail
      have hfail' : fail = false := by simpa using hfail
      split
      · generalize hc2 : ({ pushOutcome cfg c { t := now, fail := fail, slow := isSlow cfg dur } now with
            hoSuccesses := _, ownSucc := _ } : Circuit) = c2
        have hc2st : c2.st = .halfOpen := by rw [← hc2]; exact hst
        have hc2ep : c2.episode = c.episode := by rw [← hc2]; exact f6
        have hc2mi : c2.mirror = c.mirror := by rw [← hc2]; exact f2
        have := (transitionTo_eff c2 .closed now).1
        cases this with
        | stay h1 h2 => rw [transitionTo_st] at h2; rw [hc2st] at h2; cases h2
        | moved s' h0 h1 h2 h3 h4 h5 h6 h7 h8 =>
          refine ⟨.moved s' (by rw [hst', ← hc2st]; exact h0) (by rw [h1, hc2st, hst', hc2mi]) h2 h3 h4 h5 h6 (by rw [h7, hc2ep]) h8, fun he => ?_, fun _ => ?_⟩
          · rw [h1] at he; cases he
          · rw [transitionTo_st]; simp
      · refine ⟨.stay rfl f1 f6 f3 f7, fun _ => ⟨f4, ?_, fun _ => hfail'⟩, fun hne => absurd rfl hne⟩
        subst hfail'
        cases own <;> simp [hst', f8]
  · rename_i hst
    have hne : c.st ≠ .halfOpen := by
      intro h; rw [← f1] at h; exact hst h
    have := evaluate_eff cfg (pushOutcome cfg c { t := now, fail := fail, slow := isSlow cfg dur } now) now
    simp only at this
    refine ⟨?_, fun he => ?_, fun hne' => ?_⟩
    · cases this.1 with
      | stay h1 h2 h3 h4 h5 => exact .stay h1 (by rw [h2, f1]) (by rw [h3, f6]) (by rw [h4, f3]) (by rw [h5, f7])
      | moved s' h0 h1 h2 h3 h4 h5 h6 h7 h8 =>
        exact .moved s' (by rw [← f1]; exact h0) (by rw [h1, f1, f2]) h2 h3 h4 h5 h6 (by rw [h7, f6]) h8
    · have := this.2 he
      refine ⟨by rw [this.1, f4], ?_, fun h => absurd h hne⟩
      rw [this.2.1, f8]; simp [hne]
    · rw [evaluate_st cfg _ now hne']; simp

/-- complete case analysis of `try_acquire` -/
inductive Acq (cfg : Cfg) (now : Nat) (c c' : Circuit) (ok : Bool) (evs : List CEv) : Prop
  | closed (h : c.st = .closed) (hc : c' = c) (hok : ok = true) (he : evs = [])
  | toHalf (h : c.st = .opened) (hw : now - c.lastChange ≥ cfg.waitMs) (hok : ok = true)
      (he : evs = [.transition .opened .halfOpen c.mirror]) (h2 : c'.st = .halfOpen) (h3 : c'.hoAdmitted = 1)
      (h4 : c'.hoSuccesses = 0) (h5 : c'.released = 0) (h6 : c'.ownSucc = 0)
      (h7 : c'.episode = c.episode + 1) (h8 : c'.lastChange = now)
  | rejectOpen (h : c.st = .opened) (hw : now - c.lastChange < cfg.waitMs) (hc : c' = c) (hok : ok = false) (he : evs = [])
  | trial (h : c.st = .halfOpen) (hlt : c.hoAdmitted < cfg.permitted) (hok : ok = true) (he : evs = [])
      (hc : c' = { c with hoAdmitted := c.hoAdmitted + 1 })
  | rejectHalf (h : c.st = .halfOpen) (hge : ¬ c.hoAdmitted < cfg.permitted) (hc : c' = c) (hok : ok = false) (he : evs = [])

theorem tryAcquire_acq (cfg : Cfg) (c : Circuit) (now : Nat) :
    Acq cfg now c (tryAcquire cfg c now).1 (tryAcquire cfg c now).2.1 (tryAcquire cfg c now).2.2 := by
  unfold tryAcquire
  split
  · rename_i h; exact .closed h rfl rfl rfl
  · rename_i h
    split
    · rename_i hw
      have := (transitionTo_eff c .halfOpen now).1
      cases this with
      | stay h1 h2 => rw [transitionTo_st, h] at h2; cases h2
      | moved s' h0 h1 h2 h3 h4 h5 h6 h7 h8 =>
        have hs' : s' = .halfOpen := by rw [← h2, transitionTo_st]
        exact .toHalf h hw rfl (by simp only []; rw [h1, h, hs']) (by simp only []; rw [h2, hs']) rfl h4 h5 h6 h7 h8
    · rename_i hw
      exact .rejectOpen h (by omega) rfl rfl rfl
  · rename_i h
    split
    · rename_i hlt; exact .trial h hlt rfl rfl rfl
    · rename_i hge; exact .rejectHalf h hge rfl rfl rfl

end TR.Circuit
