import TR.Lemmas.CircuitState
/-!
# Circuit breaker: trace-level (event by event) statements about the log

`SInv` (CircuitState.lean) speaks of the log of a reachable STATE — i.e. of the log at step boundaries. The property clauses
of C03 / C09 are about positions INSIDE the log: "after a `→ open` event no `inner_call` event until the next transition event".
Here the log is read event by event by a checker `tr` (a left fold): besides the summaries of the prefix read so far it keeps
one sticky flag `ok` = "every event so far was legal at the place where it stands":

* an `inner_call` never stands after a `→ open` transition without another transition in between, and never exceeds, together with
  the inner calls since a `→ half-open` transition that were not cancelled, `max permitted 1`;
* a `transition a b` event starts from the target of the previous one (`closed` at the beginning), `a ≠ b`; what a listener
  reading `state_sync()` inside its callback sees is still `a`; out of `open` it goes to half-open no earlier than
  `wait_duration_in_open` after the instant of the `→ open` event, or to closed right after an operator's `force_closed` / `reset` /
  the scheduler running health tasks (`yield`).

`TInv` ties the checker's summaries to the state (`ks` = the serial numbers of the trials of the current episode, `canc` = the
ghost `released`) and `tinv_reachable` proves `ok` for every reachable log. Since `ok` is sticky, it holds for every event-level
prefix of the log (`tr_ok_take`), which is how the index-based theorems of Props/C03 and Props/C09 are obtained.
-/
namespace TR.Circuit

/-- `manual` words after which a transition `open → closed` is an override: the operator's `force_closed` / `reset`, and the
scheduler running the tasks of health signals -/
def isOverride (w : String) : Bool := w == "force_closed" || w == "reset" || w == "yield"

/-- summary of the part of a log read so far -/
structure Tr where
  ok    : Bool := true        -- every event so far was legal where it stands
  tgt   : St := .closed       -- target of the last transition event
  tt    : Nat := 0            -- its instant
  calls : Nat := 0            -- `inner_call` events since
  ks    : List Nat := []      -- their serial numbers
  canc  : Nat := 0            -- how many of THOSE calls were cancelled (`inner_drop`) or panicked since
  ovr   : Bool := false       -- the last event that is not a transition is `manual force_closed | reset | yield`
deriving Repr

/-- is event `p` legal after a prefix summarised by `s`? -/
def evOK (cfg : Cfg) (s : Tr) (p : Nat × CEv) : Bool :=
  match p.2 with
  | .transition a b m =>
      decide (a = s.tgt) && decide (a ≠ b) && decide (m = a) &&
      (if a = .opened then (if b = .halfOpen then decide (s.tt + cfg.waitMs ≤ p.1) else s.ovr) else true)
  | .innerCall _ _ =>
      decide (s.tgt ≠ .opened) && (decide (s.tgt ≠ .halfOpen) || decide (s.calls + 1 - s.canc ≤ max cfg.permitted 1))
  | _ => true

/-- the summaries after event `p` -/
def trUpd (s : Tr) (p : Nat × CEv) : Tr :=
  match p.2 with
  | .transition _ b _ => { s with tgt := b, tt := p.1, calls := 0, ks := [], canc := 0 }
  | .innerCall _ k => { s with calls := s.calls + 1, ks := k :: s.ks, ovr := false }
  | .innerDrop _ k => { s with canc := if k ∈ s.ks then s.canc + 1 else s.canc, ovr := false }
  | .innerDone _ k o => { s with canc := if o = .panic ∧ k ∈ s.ks then s.canc + 1 else s.canc, ovr := false }
  | .manual w => { s with ovr := isOverride w }
  | _ => { s with ovr := false }

def trStep (cfg : Cfg) (s : Tr) (p : Nat × CEv) : Tr := { trUpd s p with ok := s.ok && evOK cfg s p }

/-- the checker: read a log from the beginning -/
def tr (cfg : Cfg) (l : List (Nat × CEv)) : Tr := l.foldl (trStep cfg) {}

/-! ## the summaries as stand-alone functions of the log -/

def cnStep (s : List Nat × Nat) (p : Nat × CEv) : List Nat × Nat :=
  match p.2 with
  | .transition _ _ _ => ([], 0)
  | .innerCall _ k => (k :: s.1, s.2)
  | .innerDrop _ k => (s.1, if k ∈ s.1 then s.2 + 1 else s.2)
  | .innerDone _ k o => (s.1, if o = .panic ∧ k ∈ s.1 then s.2 + 1 else s.2)
  | _ => s
/-- of the inner calls started since the last transition event, how many were cancelled (`inner_drop c k`) or panicked
(`inner_done c k panic`) since: the calls are matched by their serial number `k` -/
def cancelledSince (l : List (Nat × CEv)) : Nat := (l.foldl cnStep ([], 0)).2

def ovStep (b : Bool) (p : Nat × CEv) : Bool :=
  match p.2 with
  | .transition _ _ _ => b
  | .manual w => isOverride w
  | _ => false
/-- the last event of the log that is not a transition event is `manual force_closed`, `manual reset` or `manual yield`:
everything after that line was done by the operator's override / by the scheduler running health tasks -/
def afterOverride (l : List (Nat × CEv)) : Bool := l.foldl ovStep false

theorem tr_append (cfg : Cfg) (l evs : List (Nat × CEv)) : tr cfg (l ++ evs) = evs.foldl (trStep cfg) (tr cfg l) := by
  simp [tr, List.foldl_append]

theorem foldl_tr_fields (cfg : Cfg) (l : List (Nat × CEv)) (a : Tr) :
    (l.foldl (trStep cfg) a).tgt = l.foldl tgStep a.tgt ∧ (l.foldl (trStep cfg) a).tt = l.foldl ttStep a.tt ∧
    (l.foldl (trStep cfg) a).calls = l.foldl csStep a.calls ∧
    ((l.foldl (trStep cfg) a).ks, (l.foldl (trStep cfg) a).canc) = l.foldl cnStep (a.ks, a.canc) ∧
    (l.foldl (trStep cfg) a).ovr = l.foldl ovStep a.ovr := by
  induction l generalizing a with
  | nil => exact ⟨rfl, rfl, rfl, rfl, rfl⟩
  | cons p tl ih =>
    simp only [List.foldl_cons]
    have h := ih (trStep cfg a p)
    have e1 : (trStep cfg a p).tgt = tgStep a.tgt p := by
      unfold trStep trUpd tgStep; cases p.2 <;> rfl
    have e2 : (trStep cfg a p).tt = ttStep a.tt p := by
      unfold trStep trUpd ttStep; cases p.2 <;> rfl
    have e3 : (trStep cfg a p).calls = csStep a.calls p := by
      unfold trStep trUpd csStep; cases p.2 <;> rfl
    have e4 : ((trStep cfg a p).ks, (trStep cfg a p).canc) = cnStep (a.ks, a.canc) p := by
      unfold trStep trUpd cnStep; cases p.2 <;> rfl
    have e5 : (trStep cfg a p).ovr = ovStep a.ovr p := by
      unfold trStep trUpd ovStep; cases p.2 <;> rfl
    rw [← e1, ← e2, ← e3, ← e4, ← e5]
    exact h

/-- the checker's summaries are the summaries of `CircuitState.lean` -/
theorem tr_fields (cfg : Cfg) (l : List (Nat × CEv)) :
    (tr cfg l).tgt = lastTarget l ∧ (tr cfg l).tt = lastTrTime l ∧ (tr cfg l).calls = callsSince l ∧
    (tr cfg l).canc = cancelledSince l ∧ (tr cfg l).ovr = afterOverride l := by
  have h := foldl_tr_fields cfg l {}
  refine ⟨h.1, h.2.1, h.2.2.1, ?_, h.2.2.2.2⟩
  have := congrArg Prod.snd h.2.2.2.1
  exact this

/-- `ok` is sticky -/
theorem foldl_ok (cfg : Cfg) (l : List (Nat × CEv)) (a : Tr) (h : (l.foldl (trStep cfg) a).ok = true) : a.ok = true := by
  induction l generalizing a with
  | nil => exact h
  | cons p tl ih =>
    have := ih _ h
    simp only [trStep, Bool.and_eq_true] at this
    exact this.1

theorem tr_ok_prefix (cfg : Cfg) (l evs : List (Nat × CEv)) (h : (tr cfg (l ++ evs)).ok = true) : (tr cfg l).ok = true := by
  rw [tr_append] at h; exact foldl_ok cfg evs _ h

/-- `ok` of a log is `ok` of each of its event-level prefixes -/
theorem tr_ok_take (cfg : Cfg) (l : List (Nat × CEv)) (n : Nat) (h : (tr cfg l).ok = true) : (tr cfg (l.take n)).ok = true := by
  have : l = l.take n ++ l.drop n := (List.take_append_drop n l).symm
  rw [this] at h
  exact tr_ok_prefix cfg _ _ h

/-- … and every single event was legal where it stands -/
theorem tr_ok_at (cfg : Cfg) (l : List (Nat × CEv)) (n : Nat) (p : Nat × CEv) (hp : l[n]? = some p)
    (h : (tr cfg l).ok = true) : evOK cfg (tr cfg (l.take n)) p = true := by
  have hlt : n < l.length := by
    rcases Nat.lt_or_ge n l.length with h' | h'
    · exact h'
    · rw [List.getElem?_eq_none h'] at hp; cases hp
  have hpe : l[n] = p := by
    rw [List.getElem?_eq_getElem hlt] at hp; exact Option.some.inj hp
  have hsplit : l = l.take n ++ p :: l.drop (n + 1) := by
    rw [← hpe, ← List.drop_eq_getElem_cons hlt, List.take_append_drop]
  rw [hsplit, tr_append, List.foldl_cons] at h
  have := foldl_ok cfg _ _ h
  simp only [trStep, Bool.and_eq_true] at this
  have hl : (l.take n ++ p :: l.drop (n + 1)).take n = l.take n := by
    rw [← hsplit]
  exact this.2

theorem tr_take_succ (cfg : Cfg) (l : List (Nat × CEv)) (n : Nat) (p : Nat × CEv) (hp : l[n]? = some p) :
    tr cfg (l.take (n + 1)) = trStep cfg (tr cfg (l.take n)) p := by
  rw [List.take_add_one, hp, tr_append]; rfl

/-! ## what `ok` means for every prefix -/

/-- after a `→ open` transition no inner call until the next transition; after a `→ half-open` transition the inner calls
that were not cancelled never exceed `max permitted 1` -/
def Good (cfg : Cfg) (a : Tr) : Prop :=
  (a.tgt = .opened → a.calls = 0) ∧ (a.tgt = .halfOpen → a.calls - a.canc ≤ max cfg.permitted 1)

theorem trStep_good (cfg : Cfg) (a : Tr) (p : Nat × CEv) (hg : Good cfg a) (h : (trStep cfg a p).ok = true) :
    Good cfg (trStep cfg a p) := by
  have hev : evOK cfg a p = true := by
    simp only [trStep, Bool.and_eq_true] at h; exact h.2
  obtain ⟨t, e⟩ := p
  unfold Good at hg ⊢
  cases e with
  | transition x y m => simp [trStep, trUpd]
  | innerCall c k =>
    simp only [evOK, Bool.and_eq_true, Bool.or_eq_true, decide_eq_true_eq] at hev
    simp only [trStep, trUpd]
    exact ⟨fun ho => absurd ho hev.1, fun hh => by rcases hev.2 with h' | h'; exact absurd hh h'; exact h'⟩
  | innerDrop c k =>
    simp only [trStep, trUpd]
    refine ⟨hg.1, fun hh => ?_⟩
    have := hg.2 hh
    split <;> omega
  | innerDone c k o =>
    simp only [trStep, trUpd]
    refine ⟨hg.1, fun hh => ?_⟩
    have := hg.2 hh
    split <;> omega
  | result c r => exact hg
  | manual w => exact hg
  | views s => exact hg
  | fbCall c => exact hg
  | fbDrop c => exact hg

theorem foldl_good (cfg : Cfg) (l : List (Nat × CEv)) (a : Tr) (hg : Good cfg a)
    (h : (l.foldl (trStep cfg) a).ok = true) : Good cfg (l.foldl (trStep cfg) a) := by
  induction l generalizing a with
  | nil => exact hg
  | cons p tl ih =>
    simp only [List.foldl_cons] at h ⊢
    exact ih _ (trStep_good cfg a p hg (foldl_ok cfg tl _ h)) h

theorem tr_ok_good (cfg : Cfg) (l : List (Nat × CEv)) (h : (tr cfg l).ok = true) : Good cfg (tr cfg l) :=
  foldl_good cfg l {} ⟨fun _ => rfl, fun h => by cases h⟩ h

/-! ## the invariant tying the checker to the state -/

/-- events that change none of the checker's summaries (but `ovr`) and are always legal -/
def plain : CEv → Bool
  | .transition _ _ _ => false
  | .innerCall _ _ => false
  | .innerDrop _ _ => false
  | .innerDone _ _ o => decide (o ≠ .panic)
  | _ => true

theorem trStep_plain (cfg : Cfg) (a : Tr) (t : Nat) (e : CEv) (h : plain e = true) :
    (trStep cfg a (t, e)).ok = a.ok ∧ (trStep cfg a (t, e)).tgt = a.tgt ∧ (trStep cfg a (t, e)).tt = a.tt ∧
    (trStep cfg a (t, e)).calls = a.calls ∧ (trStep cfg a (t, e)).ks = a.ks ∧ (trStep cfg a (t, e)).canc = a.canc := by
  cases e <;> simp_all [plain, trStep, trUpd, evOK]

theorem foldl_plain (cfg : Cfg) (t : Nat) (evs : List CEv) (h : ∀ e ∈ evs, plain e = true) (a : Tr) :
    ((evs.map (fun e => (t, e))).foldl (trStep cfg) a).ok = a.ok ∧
    ((evs.map (fun e => (t, e))).foldl (trStep cfg) a).tgt = a.tgt ∧
    ((evs.map (fun e => (t, e))).foldl (trStep cfg) a).tt = a.tt ∧
    ((evs.map (fun e => (t, e))).foldl (trStep cfg) a).calls = a.calls ∧
    ((evs.map (fun e => (t, e))).foldl (trStep cfg) a).ks = a.ks ∧
    ((evs.map (fun e => (t, e))).foldl (trStep cfg) a).canc = a.canc := by
  induction evs generalizing a with
  | nil => exact ⟨rfl, rfl, rfl, rfl, rfl, rfl⟩
  | cons e tl ih =>
    simp only [List.map_cons, List.foldl_cons]
    have h1 := trStep_plain cfg a t e (h e (by simp))
    have h2 := ih (fun e' he' => h e' (by simp [he'])) (trStep cfg a (t, e))
    obtain ⟨a1, a2, a3, a4, a5, a6⟩ := h1
    obtain ⟨b1, b2, b3, b4, b5, b6⟩ := h2
    exact ⟨b1.trans a1, b2.trans a2, b3.trans a3, b4.trans a4, b5.trans a5, b6.trans a6⟩

structure TInv (cfg : Cfg) (s : State) : Prop where
  ok       : (tr cfg s.log).ok = true
  serialLt : ∀ r ∈ s.running, r.k < s.serial
  ks       : s.circ.st = .halfOpen → ∀ r ∈ s.running, (r.k ∈ (tr cfg s.log).ks ↔ r.ep = some s.circ.episode)
  canc     : s.circ.st = .halfOpen → (tr cfg s.log).canc = s.circ.released

theorem init_tinv (cfg : Cfg) : TInv cfg init := by
  refine ⟨rfl, ?_, ?_, ?_⟩ <;> simp [init]

/-- what `SInv` says about the checker's summaries -/
theorem tr_state (cfg : Cfg) (s : State) (h : SInv cfg s) :
    (tr cfg s.log).tgt = s.circ.st ∧ (tr cfg s.log).tt = s.circ.lastChange ∧ (tr cfg s.log).calls = (summ s.log).calls := by
  have := tr_fields cfg s.log
  exact ⟨this.1.trans h.target, this.2.1.trans h.trTime, this.2.2.1⟩

/-- only plain events were appended; state, episode and the released count are what they were -/
theorem tinv_plain (cfg : Cfg) (s s' : State) (evs : List CEv) (hp : ∀ e ∈ evs, plain e = true)
    (hlog : s'.log = s.log ++ evs.map (fun e => (s.now, e)))
    (hst : s'.circ.st = s.circ.st) (hep : s'.circ.episode = s.circ.episode) (hrel : s'.circ.released = s.circ.released)
    (hrun : ∀ r ∈ s'.running, r ∈ s.running) (hser : s.serial ≤ s'.serial) (h : TInv cfg s) : TInv cfg s' := by
  have hf := foldl_plain cfg s.now evs hp (tr cfg s.log)
  obtain ⟨f1, _, _, _, f5, f6⟩ := hf
  refine ⟨?_, ?_, ?_, ?_⟩
  · rw [hlog, tr_append, f1]; exact h.ok
  · intro r hr; exact Nat.lt_of_lt_of_le (h.serialLt r (hrun r hr)) hser
  · intro hh r hr
    rw [hlog, tr_append, f5, hep]
    exact h.ks (by rw [← hst]; exact hh) r (hrun r hr)
  · intro hh
    rw [hlog, tr_append, f6, hrel]
    exact h.canc (by rw [← hst]; exact hh)

/-- the log did not change at all -/
theorem tinv_same (cfg : Cfg) (s s' : State) (hlog : s'.log = s.log)
    (hst : s'.circ.st = s.circ.st) (hep : s'.circ.episode = s.circ.episode) (hrel : s'.circ.released = s.circ.released)
    (hrun : ∀ r ∈ s'.running, r ∈ s.running) (hser : s.serial ≤ s'.serial) (h : TInv cfg s) : TInv cfg s' :=
  tinv_plain cfg s s' [] (by simp) (by simp [hlog]) hst hep hrel hrun hser h

theorem ovr_after (cfg : Cfg) (a : Tr) (t : Nat) (w : String) :
    (([CEv.manual w].map (fun e => (t, e))).foldl (trStep cfg) a).ovr = isOverride w := rfl

/-- a forced transition (operator's override / task of a health signal) preceded by plain events `pre`; leaving `open` for
`closed` needs the override marker -/
theorem tinv_forced (cfg : Cfg) (s : State) (tgt : St) (htgt : tgt ≠ .halfOpen) (pre : List CEv)
    (hpre : ∀ e ∈ pre, plain e = true)
    (hov : tgt = .opened ∨ ((pre.map (fun e => (s.now, e))).foldl (trStep cfg) (tr cfg s.log)).ovr = true)
    (hS : SInv cfg s) (h : TInv cfg s) :
    TInv cfg (emit { s with circ := (transitionTo s.circ tgt s.now).1 } (pre ++ (transitionTo s.circ tgt s.now).2)) ∧
    (tr cfg (emit { s with circ := (transitionTo s.circ tgt s.now).1 } (pre ++ (transitionTo s.circ tgt s.now).2)).log).ovr
      = ((pre.map (fun e => (s.now, e))).foldl (trStep cfg) (tr cfg s.log)).ovr := by
  have heff := transitionTo_eff s.circ tgt s.now
  have hts := tr_state cfg s hS
  have hf := foldl_plain cfg s.now pre hpre (tr cfg s.log)
  obtain ⟨f1, f2, f3, f4, f5, f6⟩ := hf
  cases heff.1 with
  | stay h1 h2 h3 h4 h5 =>
    rw [h1, List.append_nil]
    refine ⟨tinv_plain cfg s _ pre hpre rfl h2 h3 h5 (fun r hr => hr) (Nat.le_refl _) h, ?_⟩
    rw [emit_log, tr_append]
  | moved s' h0 h1 h2 h3 h4 h5 h6 h7 h8 =>
    have hs' : s' = tgt := by rw [← h2, transitionTo_st]
    have hlog : s.log ++ (pre ++ (transitionTo s.circ tgt s.now).2).map (fun e => (s.now, e))
        = (s.log ++ pre.map (fun e => (s.now, e))) ++ [(s.now, CEv.transition s.circ.st s' s.circ.mirror)] := by
      rw [h1]; simp
    have hne : ¬ (transitionTo s.circ tgt s.now).1.st = .halfOpen := by rw [transitionTo_st]; exact htgt
    refine ⟨⟨?_, h.serialLt, fun hh => absurd hh hne, fun hh => absurd hh hne⟩, ?_⟩
    · show (tr cfg (s.log ++ (pre ++ (transitionTo s.circ tgt s.now).2).map (fun e => (s.now, e)))).ok = true
      rw [hlog, tr_append, tr_append]
      simp only [List.foldl_cons, List.foldl_nil]
      simp only [trStep, evOK, Bool.and_eq_true, decide_eq_true_eq]
      refine ⟨by rw [f1]; exact h.ok, ⟨⟨by rw [f2]; exact hts.1.symm, h0⟩, hS.circ.mirror⟩, ?_⟩
      split
      · rename_i hop
        have hcl : ¬ s' = .halfOpen := by rw [hs']; exact htgt
        rw [if_neg hcl]
        rcases hov with ho | ho
        · exfalso; apply h0; rw [hop, hs', ho]
        · exact ho
      · rfl
    · show (tr cfg (s.log ++ (pre ++ (transitionTo s.circ tgt s.now).2).map (fun e => (s.now, e)))).ovr = _
      rw [hlog, tr_append, tr_append]
      rfl

/-- a running caller leaves without an outcome being recorded: `inner_drop`, or `inner_done … panic` -/
theorem tinv_release (cfg : Cfg) (s : State) (c : Nat) (r : Caller) (e : CEv) (post : List CEv)
    (he : e = .innerDrop r.c r.k ∨ e = .innerDone r.c r.k .panic) (hpost : ∀ x ∈ post, plain x = true)
    (hfind : findRunning s.running c = some r) (hS : SInv cfg s) (h : TInv cfg s) :
    TInv cfg { (emit { s with running := s.running.eraseP (·.c == c) } (e :: post)) with
               circ := releaseTrial s.circ r.ep } := by
  have hr : r ∈ s.running := mem_of_findRunning _ _ _ hfind
  have hlog : ({ (emit { s with running := s.running.eraseP (·.c == c) } (e :: post)) with
               circ := releaseTrial s.circ r.ep } : State).log
      = (s.log ++ [(s.now, e)]) ++ post.map (fun x => (s.now, x)) := by
    show s.log ++ (e :: post).map (fun x => (s.now, x)) = _
    simp
  have hstep : (trStep cfg (tr cfg s.log) (s.now, e)).ok = (tr cfg s.log).ok ∧
      (trStep cfg (tr cfg s.log) (s.now, e)).ks = (tr cfg s.log).ks ∧
      (trStep cfg (tr cfg s.log) (s.now, e)).canc
        = if r.k ∈ (tr cfg s.log).ks then (tr cfg s.log).canc + 1 else (tr cfg s.log).canc := by
    rcases he with rfl | rfl <;> simp [trStep, trUpd, evOK]
  have hf := foldl_plain cfg s.now post hpost (trStep cfg (tr cfg s.log) (s.now, e))
  obtain ⟨f1, _, _, _, f5, f6⟩ := hf
  have hst : (releaseTrial s.circ r.ep).st = s.circ.st := releaseTrial_st _ _
  have hepi : (releaseTrial s.circ r.ep).episode = s.circ.episode := by
    unfold releaseTrial; split
    · split <;> rfl
    · rfl
  refine ⟨?_, ?_, ?_, ?_⟩
  · rw [hlog, tr_append, tr_append]
    simp only [List.foldl_cons, List.foldl_nil]
    rw [f1, hstep.1]; exact h.ok
  · intro r' hr'; exact h.serialLt r' (eraseP_subset _ _ r' hr')
  · intro hh r' hr'
    rw [hlog, tr_append, tr_append]
    simp only [List.foldl_cons, List.foldl_nil]
    rw [f5, hstep.2.1]
    show _ ↔ r'.ep = some (releaseTrial s.circ r.ep).episode
    rw [hepi]
    exact h.ks (by rw [← hst]; exact hh) r' (eraseP_subset _ _ r' hr')
  · intro hh
    have hho : s.circ.st = .halfOpen := by rw [← hst]; exact hh
    rw [hlog, tr_append, tr_append]
    simp only [List.foldl_cons, List.foldl_nil]
    rw [f6, hstep.2.2]
    have hk := h.ks hho r hr
    have hc := h.canc hho
    show _ = (releaseTrial s.circ r.ep).released
    by_cases hep : r.ep = some s.circ.episode
    · have hin : r.k ∈ (tr cfg s.log).ks := hk.mpr hep
      have hpos : s.circ.hoAdmitted > 0 := by
        have ht := hS.trials hho
        have : 0 < trialsOf s.circ.episode s.running := by
          unfold trialsOf
          rw [List.countP_pos_iff]
          exact ⟨r, hr, by simp [hep]⟩
        omega
      rw [if_pos hin, hc]
      unfold releaseTrial
      simp [hep, hho, hpos]
    · have hin : ¬ r.k ∈ (tr cfg s.log).ks := fun hx => hep (hk.mp hx)
      rw [if_neg hin, hc]
      unfold releaseTrial
      cases hre : r.ep with
      | none => rfl
      | some e' =>
        have : ¬ s.circ.episode = e' := fun hx => hep (by rw [hre, hx])
        simp [this]

/-- `record` in the open state never announces a transition -/
theorem record_opened_quiet (cfg : Cfg) (c : Circuit) (fail : Bool) (dur now : Nat) (own : Bool) (hst : c.st = .opened) :
    (record cfg c fail dur now own).2 = [] := by
  have heff := (record_eff cfg c fail dur now own).1
  cases heff with
  | stay h1 => exact h1
  | moved s' h0 h1 h2 =>
    exfalso
    have := record_opened_stays cfg c fail dur now own hst
    rw [h2] at this
    exact h0 (by rw [hst, this])

/-- the inner call of running caller `r` completed (no panic) and its outcome is recorded -/
theorem tinv_record (cfg : Cfg) (s : State) (c : Nat) (r : Caller) (fail : Bool) (pre post : CEv) (own : Bool)
    (hpre : plain pre = true) (hpost : plain post = true)
    (hS : SInv cfg s) (h : TInv cfg s) :
    TInv cfg (emit { s with running := s.running.eraseP (·.c == c),
                            circ := (record cfg s.circ fail (s.now - r.start) s.now own).1 }
      ([pre] ++ (record cfg s.circ fail (s.now - r.start) s.now own).2 ++ [post])) := by
  have heff := record_eff cfg s.circ fail (s.now - r.start) s.now own
  simp only at heff
  obtain ⟨he1, _, he3⟩ := heff
  have hts := tr_state cfg s hS
  cases he1 with
  | stay h1 h2 h3 h4 h5 =>
    rw [h1]
    exact tinv_plain cfg s _ ([pre] ++ [] ++ [post]) (by intro e he; simp at he; rcases he with rfl | rfl <;> assumption)
      rfl h2 h3 h5 (fun r' hr' => eraseP_subset _ _ r' hr') (Nat.le_refl _) h
  | moved s' h0 h1 h2 h3 h4 h5 h6 h7 h8 =>
    have hne : (record cfg s.circ fail (s.now - r.start) s.now own).2 ≠ [] := by rw [h1]; simp
    have hnh : ¬ (record cfg s.circ fail (s.now - r.start) s.now own).1.st = .halfOpen := he3 hne
    have hnop : s.circ.st ≠ .opened := by
      intro ho
      have := record_opened_quiet cfg s.circ fail (s.now - r.start) s.now own ho
      exact hne this
    have hlog : s.log ++ ([pre] ++ (record cfg s.circ fail (s.now - r.start) s.now own).2 ++ [post]).map (fun e => (s.now, e))
        = s.log ++ [(s.now, pre), (s.now, CEv.transition s.circ.st s' s.circ.mirror), (s.now, post)] := by
      rw [h1]; rfl
    have p1 := trStep_plain cfg (tr cfg s.log) s.now pre hpre
    refine ⟨?_, fun r' hr' => h.serialLt r' (eraseP_subset _ _ r' hr'), fun hh => absurd hh hnh, fun hh => absurd hh hnh⟩
    show (tr cfg (s.log ++ ([pre] ++ (record cfg s.circ fail (s.now - r.start) s.now own).2 ++ [post]).map (fun e => (s.now, e)))).ok = true
    rw [hlog, tr_append]
    simp only [List.foldl_cons, List.foldl_nil]
    rw [(trStep_plain cfg _ s.now post hpost).1]
    have q1 : (trStep cfg (tr cfg s.log) (s.now, pre)).ok = true := by rw [p1.1]; exact h.ok
    have q2 : (trStep cfg (tr cfg s.log) (s.now, pre)).tgt = s.circ.st := by rw [p1.2.1]; exact hts.1
    generalize trStep cfg (tr cfg s.log) (s.now, pre) = a1 at q1 q2
    simp only [trStep, evOK, Bool.and_eq_true, decide_eq_true_eq]
    refine ⟨q1, ⟨⟨q2.symm, h0⟩, hS.circ.mirror⟩, ?_⟩
    rw [if_neg hnop]

theorem trStep_call (cfg : Cfg) (a : Tr) (t c k : Nat) :
    trStep cfg a (t, .innerCall c k) =
      { a with ok := a.ok && (decide (a.tgt ≠ .opened) &&
                               (decide (a.tgt ≠ .halfOpen) || decide (a.calls + 1 - a.canc ≤ max cfg.permitted 1))),
               calls := a.calls + 1, ks := k :: a.ks, ovr := false } := rfl

theorem trStep_transition (cfg : Cfg) (a : Tr) (t : Nat) (x y m : St) :
    trStep cfg a (t, .transition x y m) =
      { a with ok := a.ok && (decide (x = a.tgt) && decide (x ≠ y) && decide (m = x) &&
                               (if x = .opened then (if y = .halfOpen then decide (a.tt + cfg.waitMs ≤ t) else a.ovr) else true)),
               tgt := y, tt := t, calls := 0, ks := [], canc := 0 } := rfl

theorem tinv_admitted (cfg : Cfg) (s : State) (f : Fresh) (hok : (tryAcquire cfg s.circ s.now).2.1 = true)
    (hS : SInv cfg s) (h : TInv cfg s) : TInv cfg (admitted cfg s f) := by
  have hacq := tryAcquire_acq cfg s.circ s.now
  have hts := tr_state cfg s hS
  have hser : ∀ r ∈ (admitted cfg s f).running, r.k < s.serial + 1 := by
    intro r hr
    unfold admitted at hr
    simp only [List.mem_append, List.mem_singleton] at hr
    rcases hr with hr | rfl
    · exact Nat.lt_succ_of_lt (h.serialLt r hr)
    · exact Nat.lt_succ_self _
  cases hacq with
  | closed hst hc hok' he =>
    have hne : ¬ (tryAcquire cfg s.circ s.now).1.st = .halfOpen := by rw [hc, hst]; simp
    refine ⟨?_, hser, fun hh => absurd hh hne, fun hh => absurd hh hne⟩
    show (tr cfg ((s.log ++ (tryAcquire cfg s.circ s.now).2.2.map (fun e => (s.now, e))) ++ [(s.now, CEv.innerCall f.c s.serial)])).ok = true
    rw [he, List.map_nil, List.append_nil, tr_append]
    simp only [List.foldl_cons, List.foldl_nil, trStep_call]
    simp [h.ok, hts.1, hst]
  | toHalf hst hw hok' he h2 h3 h4 h5 h6 h7 h8 =>
    have hlog : (s.log ++ (tryAcquire cfg s.circ s.now).2.2.map (fun e => (s.now, e))) ++ [(s.now, CEv.innerCall f.c s.serial)]
        = s.log ++ [(s.now, CEv.transition .opened .halfOpen s.circ.mirror), (s.now, CEv.innerCall f.c s.serial)] := by
      rw [he]; simp
    have hmir : s.circ.mirror = .opened := by rw [hS.circ.mirror]; exact hst
    have hclock := hS.clock
    have htm : (tr cfg s.log).tt + cfg.waitMs ≤ s.now := by rw [hts.2.1]; omega
    have hT : tr cfg (s.log ++ [(s.now, CEv.transition .opened .halfOpen s.circ.mirror), (s.now, CEv.innerCall f.c s.serial)])
        = { (tr cfg s.log) with ok := true, tgt := .halfOpen, tt := s.now, calls := 1, ks := [s.serial], canc := 0, ovr := false } := by
      rw [tr_append]
      simp only [List.foldl_cons, List.foldl_nil, trStep_transition, trStep_call]
      simp [h.ok, hts.1, hst, hmir, htm]
      omega
    refine ⟨?_, hser, ?_, ?_⟩
    · show (tr cfg ((s.log ++ (tryAcquire cfg s.circ s.now).2.2.map (fun e => (s.now, e))) ++ [(s.now, CEv.innerCall f.c s.serial)])).ok = true
      rw [hlog, hT]
    · intro _ r hr
      show r.k ∈ (tr cfg ((s.log ++ (tryAcquire cfg s.circ s.now).2.2.map (fun e => (s.now, e))) ++ [(s.now, CEv.innerCall f.c s.serial)])).ks
        ↔ r.ep = some (tryAcquire cfg s.circ s.now).1.episode
      rw [hlog, hT, h7]
      simp only [admitted, List.mem_append, List.mem_singleton] at hr
      simp only [List.mem_singleton]
      rcases hr with hr | rfl
      · have h1 := h.serialLt r hr
        constructor
        · intro hk; omega
        · intro hep; have := hS.eps r hr _ hep; omega
      · simp [h2, h7]
    · intro _
      show (tr cfg ((s.log ++ (tryAcquire cfg s.circ s.now).2.2.map (fun e => (s.now, e))) ++ [(s.now, CEv.innerCall f.c s.serial)])).canc
        = (tryAcquire cfg s.circ s.now).1.released
      rw [hlog, hT, h5]
  | rejectOpen hst hw hc hok' he => rw [hok'] at hok; cases hok
  | rejectHalf hst hge hc hok' he => rw [hok'] at hok; cases hok
  | trial hst hlt hok' he hc =>
    have hst' : (tryAcquire cfg s.circ s.now).1.st = .halfOpen := by rw [hc]; exact hst
    have hepi : (tryAcquire cfg s.circ s.now).1.episode = s.circ.episode := by rw [hc]
    have hrel : (tryAcquire cfg s.circ s.now).1.released = s.circ.released := by rw [hc]
    have hlog : (s.log ++ (tryAcquire cfg s.circ s.now).2.2.map (fun e => (s.now, e))) ++ [(s.now, CEv.innerCall f.c s.serial)]
        = s.log ++ [(s.now, CEv.innerCall f.c s.serial)] := by
      rw [he]; simp
    have hcalls := hS.calls hst
    have hcanc := h.canc hst
    refine ⟨?_, hser, ?_, ?_⟩
    · show (tr cfg ((s.log ++ (tryAcquire cfg s.circ s.now).2.2.map (fun e => (s.now, e))) ++ [(s.now, CEv.innerCall f.c s.serial)])).ok = true
      rw [hlog, tr_append]
      simp only [List.foldl_cons, List.foldl_nil, trStep_call]
      have : (tr cfg s.log).calls + 1 - (tr cfg s.log).canc ≤ max cfg.permitted 1 := by
        rw [hts.2.2, hcalls, hcanc]; omega
      simp [h.ok, hts.1, hst, this]
    · intro _ r hr
      show r.k ∈ (tr cfg ((s.log ++ (tryAcquire cfg s.circ s.now).2.2.map (fun e => (s.now, e))) ++ [(s.now, CEv.innerCall f.c s.serial)])).ks
        ↔ r.ep = some (tryAcquire cfg s.circ s.now).1.episode
      rw [hlog, tr_append, hepi]
      simp only [List.foldl_cons, List.foldl_nil, trStep_call, List.mem_cons]
      simp only [admitted, List.mem_append, List.mem_singleton] at hr
      rcases hr with hr | rfl
      · have h1 := h.serialLt r hr
        have h2 := h.ks hst r hr
        constructor
        · intro hk
          rcases hk with hk | hk
          · omega
          · exact h2.mp hk
        · intro hep; exact Or.inr (h2.mpr hep)
      · simp [hst', hepi]
    · intro _
      show (tr cfg ((s.log ++ (tryAcquire cfg s.circ s.now).2.2.map (fun e => (s.now, e))) ++ [(s.now, CEv.innerCall f.c s.serial)])).canc
        = (tryAcquire cfg s.circ s.now).1.released
      rw [hlog, tr_append, hrel]
      simp only [List.foldl_cons, List.foldl_nil, trStep_call]
      exact hcanc

theorem tinv_startFallback (cfg : Cfg) (s : State) (f : Fresh) (h : TInv cfg s) : TInv cfg (startFallback cfg s f) := by
  unfold startFallback
  split
  · exact tinv_plain cfg s _ [.fbCall f.c, .result f.c (fbRes f.c f.fb.out)]
      (by intro e he; simp at he; rcases he with rfl | rfl <;> rfl) rfl rfl rfl rfl (fun r hr => hr) (Nat.le_refl _) h
  · exact tinv_plain cfg s _ [.fbCall f.c] (by intro e he; simp at he; rw [he]; rfl) rfl rfl rfl rfl (fun r hr => hr)
      (Nat.le_refl _) h

theorem tinv_rejected (cfg : Cfg) (s : State) (f : Fresh) (h : TInv cfg s) : TInv cfg (rejected cfg s f) := by
  unfold rejected
  split
  · exact tinv_startFallback cfg _ f (tinv_same cfg s _ rfl rfl rfl rfl (fun r hr => hr) (Nat.le_refl _) h)
  · exact tinv_plain cfg s _ [.result f.c .openCircuit] (by intro e he; simp at he; rw [he]; rfl) rfl rfl rfl rfl
      (fun r hr => hr) (Nat.le_refl _) h

theorem tinv_admitStep (cfg : Cfg) (s : State) (f : Fresh) (hS : SInv cfg s) (h : TInv cfg s) :
    TInv cfg (admitStep cfg s f).1 := by
  have hacq := tryAcquire_acq cfg s.circ s.now
  cases hok : (tryAcquire cfg s.circ s.now).2.1 with
  | true => rw [admitStep_ok cfg s f hok]; exact tinv_admitted cfg s f hok hS h
  | false =>
    cases hacq with
    | closed hst hc hok' he => rw [hok'] at hok; cases hok
    | toHalf hst hw hok' => rw [hok'] at hok; cases hok
    | rejectOpen hst hw hc hok' he => rw [admitStep_rej cfg s f hok hc he]; exact tinv_rejected cfg s f h
    | rejectHalf hst hge hc hok' he => rw [admitStep_rej cfg s f hok hc he]; exact tinv_rejected cfg s f h
    | trial hst hlt hok' => rw [hok'] at hok; cases hok

theorem tinv_pollRunning (cfg : Cfg) (s : State) (c : Nat) (hS : SInv cfg s) (h : TInv cfg s) :
    TInv cfg (pollRunning cfg s c) := by
  unfold pollRunning
  split
  · rename_i r hfind
    split
    · unfold complete
      split
      · exact tinv_release cfg s c r (.innerDone r.c r.k .panic) [.result r.c .panic] (Or.inr rfl)
          (by intro e he; simp at he; rw [he]; rfl) hfind hS h
      · rename_i o hno
        have hpl : plain (CEv.innerDone r.c r.k r.out) = true := by
          cases ho : r.out <;> simp_all [plain]
        exact tinv_record cfg s c r _ _ _ _ hpl rfl hS h
    · exact h
  · exact h

theorem tinv_pollFresh (cfg : Cfg) (s : State) (f : Fresh) (hS : SInv cfg s) (h : TInv cfg s) :
    TInv cfg (pollFresh cfg s f) := by
  unfold pollFresh
  simp only
  split
  · exact tinv_pollRunning cfg _ _ (admitStep_inv cfg s f hS) (tinv_admitStep cfg s f hS h)
  · exact tinv_admitStep cfg s f hS h

/-- the task of a health signal runs: a forced transition; it happens under the override marker of `yield` -/
theorem tinv_applyTask (cfg : Cfg) (s : State) (u : Bool) (hS : SInv cfg s) (h : TInv cfg s)
    (hov : (tr cfg s.log).ovr = true) : TInv cfg (applyTask s u) ∧ (tr cfg (applyTask s u).log).ovr = true := by
  have := tinv_forced cfg s (if u then .opened else .closed) (by cases u <;> simp) [] (by simp) (Or.inr hov) hS h
  simp only [List.nil_append, List.map_nil, List.foldl_nil] at this
  exact ⟨this.1, this.2.trans hov⟩

theorem tinv_foldl_applyTask (cfg : Cfg) (l : List Bool) (s : State) (hS : SInv cfg s) (h : TInv cfg s)
    (hov : (tr cfg s.log).ovr = true) : TInv cfg (l.foldl applyTask s) := by
  induction l generalizing s with
  | nil => exact h
  | cons u tl ih =>
    have := tinv_applyTask cfg s u hS h hov
    exact ih _ (applyTask_inv cfg s u hS) this.1 this.2

theorem tinv_manual (cfg : Cfg) (s : State) (tgt : St) (htgt : tgt ≠ .halfOpen) (w : String)
    (hw : tgt = .opened ∨ isOverride w = true) (hS : SInv cfg s) (h : TInv cfg s) :
    TInv cfg (emit { s with circ := (transitionTo s.circ tgt s.now).1 } ([CEv.manual w] ++ (transitionTo s.circ tgt s.now).2)) :=
  (tinv_forced cfg s tgt htgt [CEv.manual w] (by intro e he; simp at he; rw [he]; rfl)
    (by rcases hw with hw | hw
        · exact Or.inl hw
        · exact Or.inr hw) hS h).1

theorem stepS_tinv (cfg : Cfg) (s : State) (op : Op) (hS : SInv cfg s) (h : TInv cfg s) : TInv cfg (stepS cfg s op) := by
  cases op with
  | adv ms => exact tinv_same cfg s _ rfl rfl rfl rfl (fun r hr => hr) (Nat.le_refl _) h
  | arrive c sc tag fb =>
    simp only [stepS]
    split
    · exact h
    · split
      · exact tinv_same cfg s _ rfl rfl rfl rfl (fun r hr => hr) (Nat.le_refl _) h
      · exact tinv_plain cfg s _ [_] (by intro e he; simp at he; rw [he]; rfl) rfl rfl rfl rfl (fun r hr => hr)
          (Nat.le_refl _) h
  | poll c =>
    simp only [stepS]
    split
    · exact tinv_pollFresh cfg s _ hS h
    · split
      · rename_i r _
        unfold pollFalling
        split
        · exact tinv_plain cfg s _ [_] (by intro e he; simp at he; rw [he]; rfl) rfl rfl rfl rfl (fun r hr => hr)
            (Nat.le_refl _) h
        · exact h
      · exact tinv_pollRunning cfg s c hS h
  | drop c =>
    simp only [stepS]
    split
    · exact tinv_same cfg s _ rfl rfl rfl rfl (fun r hr => hr) (Nat.le_refl _) h
    · split
      · exact tinv_plain cfg s _ [_] (by intro e he; simp at he; rw [he]; rfl) rfl rfl rfl rfl (fun r hr => hr)
          (Nat.le_refl _) h
      · split
        · rename_i r hfind
          exact tinv_release cfg s c r (.innerDrop r.c r.k) [] (Or.inl rfl) (by simp) hfind hS h
        · exact h
  | forceOpen => exact tinv_manual cfg s .opened (by simp) "force_open" (Or.inl rfl) hS h
  | forceClosed => exact tinv_manual cfg s .closed (by simp) "force_closed" (Or.inr (by decide)) hS h
  | reset =>
    have h1 := tinv_manual cfg s .closed (by simp) "reset" (Or.inr (by decide)) hS h
    show TInv cfg (emit { s with circ := clearWindow (transitionTo s.circ .closed s.now).1 }
      ([CEv.manual "reset"] ++ (transitionTo s.circ .closed s.now).2))
    exact tinv_same cfg (emit { s with circ := (transitionTo s.circ .closed s.now).1 }
      ([CEv.manual "reset"] ++ (transitionTo s.circ .closed s.now).2)) _ rfl rfl rfl rfl (fun r hr => hr) (Nat.le_refl _) h1
  | views => exact tinv_plain cfg s _ [_] (by intro e he; simp at he; rw [he]; rfl) rfl rfl rfl rfl (fun r hr => hr) (Nat.le_refl _) h
  | gate g => exact tinv_plain cfg s _ [_] (by intro e he; simp at he; rw [he]; rfl) rfl rfl rfl rfl (fun r hr => hr) (Nat.le_refl _) h
  | trigger u => exact tinv_plain cfg s _ [_] (by intro e he; simp at he; rw [he]; rfl) rfl rfl rfl rfl (fun r hr => hr) (Nat.le_refl _) h
  | yield =>
    have hq : ∀ e ∈ [CEv.manual "yield"], quiet e = true := by intro e he; simp at he; rw [he]; rfl
    have h1 : TInv cfg (emit s [.manual "yield"]) :=
      tinv_plain cfg s _ [_] (by intro e he; simp at he; rw [he]; rfl) rfl rfl rfl rfl (fun r hr => hr) (Nat.le_refl _) h
    have hS1 : SInv cfg (emit s [.manual "yield"]) := sinv_quiet cfg s _ hq hS
    have hov : (tr cfg (emit s [.manual "yield"]).log).ovr = true := by
      rw [emit_log, tr_append]; rfl
    show TInv cfg (runTasks (emit s [.manual "yield"]))
    unfold runTasks
    exact tinv_foldl_applyTask cfg _ _ (sinv_congr cfg _ _ hS1 rfl rfl rfl rfl)
      (tinv_same cfg (emit s [.manual "yield"]) { (emit s [.manual "yield"]) with pending := [] } rfl rfl rfl rfl
        (fun r hr => hr) (Nat.le_refl _) h1) hov
  | elsewhere n => exact tinv_same cfg s _ rfl rfl rfl rfl (fun r hr => hr) (Nat.le_add_right _ _) h

theorem foldl_tinv (cfg : Cfg) (ops : List Op) (s : State) (hS : SInv cfg s) (h : TInv cfg s) :
    TInv cfg (ops.foldl (stepS cfg) s) := by
  induction ops generalizing s with
  | nil => exact h
  | cons o os ih => exact ih _ (stepS_inv cfg s o hS) (stepS_tinv cfg s o hS h)

/-- every reachable log passes the checker, and the checker's trial bookkeeping is the state's -/
theorem tinv_reachable (cfg : Cfg) (ops : List Op) : TInv cfg (run cfg ops) :=
  foldl_tinv cfg ops _ (init_sinv cfg) (init_tinv cfg)

/-! ## reading the checker's verdict: statements about positions of the log -/

/-- position `n` of the log holds a transition event -/
def trAt (l : List (Nat × CEv)) (n : Nat) : Prop := ∃ t a b m, l[n]? = some (t, CEv.transition a b m)

theorem lastTarget_snoc (l : List (Nat × CEv)) (p : Nat × CEv) : lastTarget (l ++ [p]) = tgStep (lastTarget l) p := by
  simp [lastTarget, List.foldl_append]

theorem lastTrTime_snoc (l : List (Nat × CEv)) (p : Nat × CEv) : lastTrTime (l ++ [p]) = ttStep (lastTrTime l) p := by
  simp [lastTrTime, List.foldl_append]

/-- between a transition event at position `i` and a later position `n` with no transition event in between, the summaries
of the prefix are those the event at `i` left -/
theorem summaries_after_transition (l : List (Nat × CEv)) (i : Nat) (t0 : Nat) (a b m : St)
    (hi : l[i]? = some (t0, CEv.transition a b m)) (d : Nat)
    (hq : ∀ j, i < j → j < i + 1 + d → ¬ trAt l j) :
    lastTarget (l.take (i + 1 + d)) = b ∧ lastTrTime (l.take (i + 1 + d)) = t0 := by
  induction d with
  | zero =>
    rw [Nat.add_zero, List.take_add_one, hi]
    simp [lastTarget_snoc, lastTrTime_snoc, tgStep, ttStep]
  | succ d ih =>
    have ih := ih (fun j h1 h2 => hq j h1 (by omega))
    have hnt : ¬ trAt l (i + 1 + d) := hq _ (by omega) (by omega)
    rw [show i + 1 + (d + 1) = (i + 1 + d) + 1 by omega, List.take_add_one]
    cases hp : l[i + 1 + d]? with
    | none => simpa using ih
    | some p =>
      obtain ⟨t, e⟩ := p
      simp only [Option.toList_some, lastTarget_snoc, lastTrTime_snoc]
      cases e with
      | transition x y z => exact absurd ⟨t, x, y, z, hp⟩ hnt
      | _ => exact ih

/-- unpacking `evOK` for a transition event -/
theorem evOK_transition (cfg : Cfg) (a : Tr) (t : Nat) (x y m : St) (h : evOK cfg a (t, .transition x y m) = true) :
    x = a.tgt ∧ x ≠ y ∧ m = x ∧
    (x = .opened → (y = .halfOpen ∧ a.tt + cfg.waitMs ≤ t) ∨ (y = .closed ∧ a.ovr = true)) := by
  simp only [evOK, Bool.and_eq_true, decide_eq_true_eq] at h
  obtain ⟨⟨⟨h1, h2⟩, h3⟩, h4⟩ := h
  refine ⟨h1, h2, h3, fun hx => ?_⟩
  rw [if_pos hx] at h4
  by_cases hy : y = .halfOpen
  · rw [if_pos hy] at h4
    exact Or.inl ⟨hy, by simpa using h4⟩
  · rw [if_neg hy] at h4
    refine Or.inr ⟨?_, h4⟩
    cases y with
    | closed => rfl
    | opened => exact absurd hx h2
    | halfOpen => exact absurd rfl hy

theorem evOK_call (cfg : Cfg) (a : Tr) (t c k : Nat) (h : evOK cfg a (t, .innerCall c k) = true) : a.tgt ≠ .opened := by
  simp only [evOK, Bool.and_eq_true, decide_eq_true_eq] at h
  exact h.1

/-- in a finite stretch of the log either there is no transition event, or there is a first one -/
theorem first_transition (l : List (Nat × CEv)) (i : Nat) (d : Nat) :
    (∀ n, i < n → n < i + 1 + d → ¬ trAt l n) ∨
    (∃ m, i < m ∧ m < i + 1 + d ∧ trAt l m ∧ ∀ n, i < n → n < m → ¬ trAt l n) := by
  induction d with
  | zero => left; intro n h1 h2; omega
  | succ d ih =>
    rcases ih with h | ⟨m, h1, h2, h3, h4⟩
    · cases hp : l[i + 1 + d]? with
      | none =>
        left; intro n h1 h2
        by_cases hn : n = i + 1 + d
        · rw [hn]; intro ⟨t, a, b, z, hh⟩; rw [hp] at hh; cases hh
        · exact h n h1 (by omega)
      | some p =>
        obtain ⟨t, e⟩ := p
        by_cases htr : trAt l (i + 1 + d)
        · right; exact ⟨i + 1 + d, by omega, by omega, htr, fun n h1 h2 => h n h1 h2⟩
        · left; intro n h1 h2
          by_cases hn : n = i + 1 + d
          · rw [hn]; exact htr
          · exact h n h1 (by omega)
    · right; exact ⟨m, h1, by omega, h3, h4⟩

/-! ## the log only grows -/

theorem emit_prefix (s : State) (evs : List CEv) : s.log <+: (emit s evs).log := List.prefix_append _ _

theorem pollRunning_log_prefix (cfg : Cfg) (s : State) (c : Nat) : s.log <+: (pollRunning cfg s c).log := by
  unfold pollRunning
  split
  · split
    · unfold complete
      split
      · exact List.prefix_append _ _
      · exact List.prefix_append _ _
    · exact List.prefix_refl _
  · exact List.prefix_refl _

theorem admitStep_log_prefix (cfg : Cfg) (s : State) (f : Fresh) : s.log <+: (admitStep cfg s f).1.log := by
  unfold admitStep
  simp only
  split
  · exact (List.prefix_append _ _).trans (List.prefix_append _ _)
  · split
    · unfold startFallback
      split
      · exact (List.prefix_append _ _).trans (List.prefix_append _ _)
      · exact (List.prefix_append _ _).trans (List.prefix_append _ _)
    · exact (List.prefix_append _ _).trans (List.prefix_append _ _)

theorem foldl_applyTask_log_prefix (l : List Bool) (s : State) : s.log <+: (l.foldl applyTask s).log := by
  induction l generalizing s with
  | nil => exact List.prefix_refl _
  | cons u tl ih => exact (List.prefix_append _ _).trans (ih (applyTask s u))

/-- one step appends events to the log and changes nothing that is already there -/
theorem stepS_log_prefix (cfg : Cfg) (s : State) (op : Op) : s.log <+: (stepS cfg s op).log := by
  cases op with
  | adv ms => exact List.prefix_refl _
  | arrive c sc tag fb =>
    simp only [stepS]
    split
    · exact List.prefix_refl _
    · split
      · exact List.prefix_refl _
      · exact List.prefix_append _ _
  | poll c =>
    simp only [stepS]
    split
    · rename_i f _
      unfold pollFresh
      simp only
      split
      · exact (admitStep_log_prefix cfg s f).trans (pollRunning_log_prefix cfg _ _)
      · exact admitStep_log_prefix cfg s f
    · split
      · unfold pollFalling
        split
        · exact List.prefix_append _ _
        · exact List.prefix_refl _
      · exact pollRunning_log_prefix cfg s c
  | drop c =>
    simp only [stepS]
    split
    · exact List.prefix_refl _
    · split
      · exact List.prefix_append _ _
      · split
        · exact List.prefix_append _ _
        · exact List.prefix_refl _
  | forceOpen => exact List.prefix_append _ _
  | forceClosed => exact List.prefix_append _ _
  | reset => exact List.prefix_append _ _
  | views => exact List.prefix_append _ _
  | gate g => exact List.prefix_append _ _
  | trigger u => exact List.prefix_append _ _
  | yield =>
    show s.log <+: (runTasks (emit s [.manual "yield"])).log
    unfold runTasks
    exact (List.prefix_append _ _).trans
      (foldl_applyTask_log_prefix s.pending { (emit s [.manual "yield"]) with pending := [] })
  | elsewhere n => exact List.prefix_refl _

theorem foldl_log_prefix (cfg : Cfg) (ops : List Op) (s : State) : s.log <+: (ops.foldl (stepS cfg) s).log := by
  induction ops generalizing s with
  | nil => exact List.prefix_refl _
  | cons o os ih => exact (stepS_log_prefix cfg s o).trans (ih (stepS cfg s o))

/-- **`log_prefix`**: the log of a run is an extension of the log of each of its earlier stages -/
theorem log_prefix (cfg : Cfg) (ops : List Op) (n : Nat) : (run cfg (ops.take n)).log <+: (run cfg ops).log := by
  have h := foldl_log_prefix cfg (ops.drop n) (run cfg (ops.take n))
  have e : (ops.drop n).foldl (stepS cfg) (run cfg (ops.take n)) = run cfg ops := by
    unfold run
    rw [← List.foldl_append, List.take_append_drop]
  rw [e] at h
  exact h

/-- events that are not transitions leave the target of the last transition alone -/
theorem lastTarget_append_quiet (l evs : List (Nat × CEv)) (h : ∀ p ∈ evs, ∀ a b m, p.2 ≠ CEv.transition a b m) :
    lastTarget (l ++ evs) = lastTarget l := by
  induction evs generalizing l with
  | nil => simp
  | cons p tl ih =>
    have : l ++ p :: tl = (l ++ [p]) ++ tl := by simp
    rw [this, ih _ (fun q hq => h q (by simp [hq])), lastTarget_snoc]
    have hp := h p (by simp)
    obtain ⟨t, e⟩ := p
    cases e with
    | transition a b m => exact absurd rfl (hp a b m)
    | _ => rfl

/-! ## histories without cancellations: no `drop` operation, no inner call scripted to panic -/

/-- the two events that give a trial slot back without an outcome being recorded -/
def isCancel : CEv → Bool
  | .innerDrop _ _ => true
  | .innerDone _ _ o => decide (o = .panic)
  | _ => false

/-- operations that cannot cancel a call: everything but `drop c`, and arrivals whose inner call is not scripted to panic -/
def noCancelOp : Op → Bool
  | .drop _ => false
  | .arrive _ sc _ _ => decide (sc.out ≠ .panic)
  | _ => true

structure NC (s : State) : Prop where
  fresh   : ∀ f ∈ s.fresh, f.sc.out ≠ .panic
  running : ∀ r ∈ s.running, r.out ≠ .panic
  log     : ∀ p ∈ s.log, isCancel p.2 = false

theorem nc_emit (s : State) (evs : List CEv) (he : ∀ e ∈ evs, isCancel e = false) (h : NC s) : NC (emit s evs) := by
  refine ⟨h.fresh, h.running, ?_⟩
  intro p hp
  rw [emit_log] at hp
  rcases List.mem_append.mp hp with hp | hp
  · exact h.log p hp
  · obtain ⟨e, he1, he2⟩ := List.mem_map.mp hp
    rw [← he2]; exact he e he1

theorem nc_congr (s s' : State) (h : NC s) (h1 : ∀ f ∈ s'.fresh, f ∈ s.fresh) (h2 : ∀ r ∈ s'.running, r ∈ s.running)
    (h3 : s'.log = s.log) : NC s' :=
  ⟨fun f hf => h.fresh f (h1 f hf), fun r hr => h.running r (h2 r hr), by rw [h3]; exact h.log⟩

theorem transitionTo_events (c : Circuit) (tgt : St) (now : Nat) : ∀ e ∈ (transitionTo c tgt now).2, isCancel e = false := by
  unfold transitionTo
  split
  · simp
  · intro e he; simp at he; rw [he]; rfl

theorem record_events (cfg : Cfg) (c : Circuit) (fail : Bool) (dur now : Nat) (own : Bool) :
    ∀ e ∈ (record cfg c fail dur now own).2, isCancel e = false := by
  have := (record_eff cfg c fail dur now own).1
  cases this with
  | stay h1 => rw [h1]; simp
  | moved s' h0 h1 => rw [h1]; intro e he; simp at he; rw [he]; rfl

theorem tryAcquire_events (cfg : Cfg) (c : Circuit) (now : Nat) : ∀ e ∈ (tryAcquire cfg c now).2.2, isCancel e = false := by
  have := tryAcquire_acq cfg c now
  cases this with
  | closed _ _ _ he => rw [he]; simp
  | toHalf _ _ _ he => rw [he]; intro e he'; simp at he'; rw [he']; rfl
  | rejectOpen _ _ _ _ he => rw [he]; simp
  | trial _ _ _ he => rw [he]; simp
  | rejectHalf _ _ _ _ he => rw [he]; simp

theorem nc_pollRunning (cfg : Cfg) (s : State) (c : Nat) (h : NC s) : NC (pollRunning cfg s c) := by
  unfold pollRunning
  split
  · rename_i r hfind
    have hr := h.running r (mem_of_findRunning _ _ _ hfind)
    split
    · unfold complete
      split
      · rename_i hp; exact absurd hp hr
      · rename_i o hno
        apply nc_emit
        · intro e he
          simp only [List.mem_append, List.mem_singleton] at he
          rcases he with (rfl | he) | rfl
          · simp [isCancel, hr]
          · exact record_events _ _ _ _ _ _ e he
          · rfl
        · exact ⟨h.fresh, fun r' hr' => h.running r' (eraseP_subset _ _ r' hr'), h.log⟩
    · exact h
  · exact h

theorem nc_startFallback (cfg : Cfg) (s : State) (f : Fresh) (h : NC s) : NC (startFallback cfg s f) := by
  unfold startFallback
  split
  · exact nc_emit s _ (by intro e he; simp at he; rcases he with rfl | rfl <;> rfl) h
  · exact nc_emit _ _ (by intro e he; simp at he; rw [he]; rfl) (nc_congr s _ h (fun _ hf => hf) (fun _ hr => hr) rfl)

theorem nc_pollFresh (cfg : Cfg) (s : State) (f : Fresh) (hf : f ∈ s.fresh) (h : NC s) : NC (pollFresh cfg s f) := by
  have hfo := h.fresh f hf
  have hbase : NC (emit { s with fresh := s.fresh.eraseP (·.c == f.c), circ := (tryAcquire cfg s.circ s.now).1 }
      (tryAcquire cfg s.circ s.now).2.2) :=
    nc_emit _ _ (tryAcquire_events cfg s.circ s.now)
      (nc_congr s _ h (fun g hg => List.mem_of_mem_eraseP hg) (fun _ hr => hr) rfl)
  unfold pollFresh admitStep
  simp only
  by_cases hok : (tryAcquire cfg s.circ s.now).2.1 = true
  · simp only [hok, if_true]
    apply nc_pollRunning
    refine nc_emit _ _ (by intro e he; simp at he; rw [he]; rfl) ⟨hbase.fresh, ?_, hbase.log⟩
    intro r hr
    simp only [List.mem_append, List.mem_singleton] at hr
    rcases hr with hr | rfl
    · exact hbase.running r hr
    · exact hfo
  · have hok' : (tryAcquire cfg s.circ s.now).2.1 = false := by simpa using hok
    simp only [hok', Bool.false_eq_true, if_false]
    split
    · exact nc_startFallback cfg _ f hbase
    · exact nc_emit _ _ (by intro e he; simp at he; rw [he]; rfl) hbase

theorem nc_foldl_applyTask (l : List Bool) (s : State) (h : NC s) : NC (l.foldl applyTask s) := by
  induction l generalizing s with
  | nil => exact h
  | cons u tl ih =>
    apply ih
    exact nc_emit _ _ (transitionTo_events _ _ _) (nc_congr s _ h (fun _ hf => hf) (fun _ hr => hr) rfl)

theorem stepS_nc (cfg : Cfg) (s : State) (op : Op) (hop : noCancelOp op = true) (h : NC s) : NC (stepS cfg s op) := by
  cases op with
  | adv ms => exact nc_congr s _ h (fun _ hf => hf) (fun _ hr => hr) rfl
  | arrive c sc tag fb =>
    simp only [noCancelOp, decide_eq_true_eq] at hop
    simp only [stepS]
    split
    · exact h
    · split
      · refine ⟨?_, h.running, h.log⟩
        intro f hf
        simp only [List.mem_append, List.mem_singleton] at hf
        rcases hf with hf | rfl
        · exact h.fresh f hf
        · exact hop
      · exact nc_emit _ _ (by intro e he; simp at he; rw [he]; rfl) (nc_congr s _ h (fun _ hf => hf) (fun _ hr => hr) rfl)
  | poll c =>
    simp only [stepS]
    split
    · rename_i f hfind
      exact nc_pollFresh cfg s f (List.mem_of_find?_eq_some hfind) h
    · split
      · unfold pollFalling
        split
        · exact nc_emit _ _ (by intro e he; simp at he; rw [he]; rfl) (nc_congr s _ h (fun _ hf => hf) (fun _ hr => hr) rfl)
        · exact h
      · exact nc_pollRunning cfg s c h
  | drop c => simp [noCancelOp] at hop
  | forceOpen =>
    exact nc_emit _ _ (by intro e he; simp at he; rcases he with rfl | he; rfl; exact transitionTo_events _ _ _ e he)
      (nc_congr s _ h (fun _ hf => hf) (fun _ hr => hr) rfl)
  | forceClosed =>
    exact nc_emit _ _ (by intro e he; simp at he; rcases he with rfl | he; rfl; exact transitionTo_events _ _ _ e he)
      (nc_congr s _ h (fun _ hf => hf) (fun _ hr => hr) rfl)
  | reset =>
    exact nc_emit _ _ (by intro e he; simp at he; rcases he with rfl | he; rfl; exact transitionTo_events _ _ _ e he)
      (nc_congr s _ h (fun _ hf => hf) (fun _ hr => hr) rfl)
  | views => exact nc_emit _ _ (by intro e he; simp at he; rw [he]; rfl) h
  | gate g => exact nc_emit _ _ (by intro e he; simp at he; rw [he]; rfl) (nc_congr s _ h (fun _ hf => hf) (fun _ hr => hr) rfl)
  | trigger u => exact nc_emit _ _ (by intro e he; simp at he; rw [he]; rfl) (nc_congr s _ h (fun _ hf => hf) (fun _ hr => hr) rfl)
  | yield =>
    show NC (runTasks (emit s [.manual "yield"]))
    unfold runTasks
    exact nc_foldl_applyTask _ _ (nc_congr _ _ (nc_emit s _ (by intro e he; simp at he; rw [he]; rfl) h)
      (fun _ hf => hf) (fun _ hr => hr) rfl)
  | elsewhere n => exact nc_congr s _ h (fun _ hf => hf) (fun _ hr => hr) rfl

theorem nc_reachable (cfg : Cfg) (ops : List Op) (hops : ∀ op ∈ ops, noCancelOp op = true) : NC (run cfg ops) := by
  unfold run
  suffices ∀ s, NC s → NC (ops.foldl (stepS cfg) s) from this _ ⟨by simp [init], by simp [init], by simp [init]⟩
  induction ops with
  | nil => intro s h; exact h
  | cons o os ih =>
    intro s h
    exact ih (fun op hop => hops op (by simp [hop])) _ (stepS_nc cfg s o (hops o (by simp)) h)

/-- a log without cancel events has cancelled nothing -/
theorem cancelledSince_zero (l : List (Nat × CEv)) (h : ∀ p ∈ l, isCancel p.2 = false) : cancelledSince l = 0 := by
  unfold cancelledSince
  suffices ∀ (acc : List Nat × Nat), acc.2 = 0 → (l.foldl cnStep acc).2 = 0 from this _ rfl
  induction l with
  | nil => intro acc h0; exact h0
  | cons p tl ih =>
    intro acc h0
    apply ih (fun q hq => h q (by simp [hq]))
    have hp := h p (by simp)
    obtain ⟨t, e⟩ := p
    cases e <;> simp_all [cnStep, isCancel]

/-! ## from "the last transition went to `b`" to the position of that transition event -/

theorem foldl_tgStep_last (l : List (Nat × CEv)) (acc b : St) (h : l.foldl tgStep acc = b) :
    (∃ i t a m, l[i]? = some (t, CEv.transition a b m) ∧ ∀ j, i < j → ¬ trAt l j) ∨
    (acc = b ∧ ∀ j, ¬ trAt l j) := by
  induction l generalizing acc with
  | nil => right; exact ⟨h, fun j ⟨t, a, b', m, hh⟩ => by simp at hh⟩
  | cons p tl ih =>
    rw [List.foldl_cons] at h
    rcases ih _ h with ⟨i, t, a, m, hi, hafter⟩ | ⟨hacc, hnone⟩
    · left
      refine ⟨i + 1, t, a, m, by simpa using hi, ?_⟩
      intro j hj ⟨t', a', b', m', hh⟩
      obtain ⟨j', rfl⟩ : ∃ j', j = j' + 1 := ⟨j - 1, by omega⟩
      exact hafter j' (by omega) ⟨t', a', b', m', by simpa using hh⟩
    · obtain ⟨t, e⟩ := p
      have hafter : ∀ j, 0 < j → ¬ trAt ((t, e) :: tl) j := by
        intro j hj ⟨t', a', b', m', hh⟩
        obtain ⟨j', rfl⟩ : ∃ j', j = j' + 1 := ⟨j - 1, by omega⟩
        exact hnone j' ⟨t', a', b', m', by simpa using hh⟩
      cases e with
      | transition x y z =>
        left
        have : y = b := hacc
        exact ⟨0, t, x, z, by simp [this], hafter⟩
      | _ =>
        right
        refine ⟨hacc, ?_⟩
        intro j
        rcases Nat.eq_zero_or_pos j with rfl | hj
        · intro ⟨t', a', b', m', hh⟩; simp at hh
        · exact hafter j hj

/-- if the last transition of a log went to a state other than `closed`, that transition event is in the log, and no
transition event stands after it -/
theorem last_transition_event (l : List (Nat × CEv)) (b : St) (hb : b ≠ .closed) (h : lastTarget l = b) :
    ∃ i t a m, l[i]? = some (t, CEv.transition a b m) ∧ ∀ j, i < j → ¬ trAt l j := by
  rcases foldl_tgStep_last l .closed b h with h' | ⟨h', _⟩
  · exact h'
  · exact absurd h'.symm hb

end TR.Circuit
