import TR.Lemmas.Hedge
/-!
# Hedge — the timestamped event log and its tie to the ghost records (C12)

`trace cfg ops` is the event log as the driver prints it (and as the correspondence check compares it with the
implementation's): every event an operation appends to `State.log`, stamped with the instant of the state the
operation leads to (`Driver.applyStep` prints `t={now st'}`).

`AB` / `RB` tie the ghost record of a request to the lines of the trace that are about it:

* an `inner_done c k o` line at `t`  ⟷  an attempt that called (`wait = .no`) with serial `k`, outcome `o`, `fin = some t`;
* every attempt has its *start mark* in the trace at `startAt`: its `inner_call` line when its clone needs no
  readiness poll (the primary; no readiness plan), its `inner_warm c i w` line otherwise; every `inner_call c k`
  line belongs to an attempt and stands at or after that attempt's start (exactly at it without a readiness plan);
* the result lines of a call (a `result c r` whose `r` is not `HedgeError::Inner` — that one answers a refused
  readiness poll, `Op.refused`) are exactly `cl.result`: at most one;
* the successful completions in log order are the successes in the channel; the result `ok:v` stands after the
  first `inner_done c _ ok` line of the log, which carries `v`;
* a result other than a response stands after the failure line of every attempt.
-/
namespace TR.Hedge

/-! ## the timestamped log -/

def stamp (t : Nat) (evs : List Ev) : List (Nat × Ev) := evs.map (fun e => (t, e))

theorem stamp_append (t : Nat) (a b : List Ev) : stamp t (a ++ b) = stamp t a ++ stamp t b := by
  simp [stamp]

theorem mem_stamp {t : Nat} {evs : List Ev} {x : Nat × Ev} : x ∈ stamp t evs ↔ x.1 = t ∧ x.2 ∈ evs := by
  obtain ⟨t', e⟩ := x
  simp only [stamp, List.mem_map, Prod.mk.injEq]
  constructor
  · rintro ⟨e', he, rfl, rfl⟩; exact ⟨rfl, he⟩
  · rintro ⟨rfl, he⟩; exact ⟨e, he, rfl, rfl⟩

/-- the events an operation appends to the log -/
def newEvents (cfg : Cfg) (s : State) (op : Op) : List Ev := (stepS cfg s op).log.drop s.log.length

/-- one operation: the state it leads to, and its events stamped with that state's instant (`Driver.applyStep`) -/
def stepT (cfg : Cfg) (p : State × List (Nat × Ev)) (op : Op) : State × List (Nat × Ev) :=
  (stepS cfg p.1 op, p.2 ++ stamp (stepS cfg p.1 op).now (newEvents cfg p.1 op))

def runT (cfg : Cfg) (ops : List Op) : State × List (Nat × Ev) := ops.foldl (stepT cfg) (init, [])

/-- the event log with its instants -/
def trace (cfg : Cfg) (ops : List Op) : List (Nat × Ev) := (runT cfg ops).2

theorem foldl_stepT_fst (cfg : Cfg) (ops : List Op) (p : State × List (Nat × Ev)) :
    (ops.foldl (stepT cfg) p).1 = ops.foldl (stepS cfg) p.1 := by
  induction ops generalizing p with
  | nil => rfl
  | cons o os ih => simp only [List.foldl_cons, ih]; rfl

theorem runT_fst (cfg : Cfg) (ops : List Op) : (runT cfg ops).1 = run cfg ops :=
  foldl_stepT_fst cfg ops (init, [])

theorem run_snoc (cfg : Cfg) (ops : List Op) (op : Op) : run cfg (ops ++ [op]) = stepS cfg (run cfg ops) op := by
  simp [run, List.foldl_append]

theorem trace_snoc (cfg : Cfg) (ops : List Op) (op : Op) :
    trace cfg (ops ++ [op]) =
      trace cfg ops ++ stamp (stepS cfg (run cfg ops) op).now (newEvents cfg (run cfg ops) op) := by
  unfold trace runT
  rw [List.foldl_append]
  simp only [List.foldl_cons, List.foldl_nil, stepT]
  have := runT_fst cfg ops
  unfold runT at this
  rw [this]

theorem trace_nil (cfg : Cfg) : trace cfg [] = [] := rfl

/-- induction from the end of the operation list -/
theorem snoc_induction {α : Type} {P : List α → Prop} (h0 : P [])
    (hs : ∀ l a, P l → P (l ++ [a])) : ∀ l, P l := by
  intro l
  rw [← List.reverse_reverse l]
  induction l.reverse with
  | nil => exact h0
  | cons a t ih => rw [List.reverse_cons]; exact hs _ _ ih

theorem newEvents_of_log (cfg : Cfg) (s : State) (op : Op) (evs : List Ev)
    (h : (stepS cfg s op).log = s.log ++ evs) : newEvents cfg s op = evs := by
  simp [newEvents, h]

/-! ## the lines about one request -/

def nonInner : Res → Bool
  | .inner _ _ => false
  | _ => true

/-- the result lines of the **call** of request `c` (not the answer to a refused readiness poll), with their instants -/
def resOf (c : Nat) (x : Nat × Ev) : Option (Nat × Res) :=
  match x.2 with
  | .result c' r => if c' = c ∧ nonInner r = true then some (x.1, r) else none
  | _ => none

def callResults (c : Nat) (tr : List (Nat × Ev)) : List (Nat × Res) := tr.filterMap (resOf c)

def okOf (c : Nat) (x : Nat × Ev) : Option Nat :=
  match x.2 with
  | .innerDone c' k .ok => if c' = c then some k else none
  | _ => none

/-- serials of the `inner_done c _ ok` lines, in log order -/
def okDones (c : Nat) (tr : List (Nat × Ev)) : List Nat := tr.filterMap (okOf c)

def pairOf (c : Nat) (x : Nat × Ev) : Option (Nat × Nat) :=
  match x.2 with
  | .innerCall c' k => if c' = c then some (x.1, k) else none
  | _ => none

/-- instant and serial of the `inner_call c _` lines, in log order -/
def callPairs (c : Nat) (tr : List (Nat × Ev)) : List (Nat × Nat) := tr.filterMap (pairOf c)

/-- `inner_call` / `inner_done` of request `c` -/
def isCD (c : Nat) : Ev → Bool
  | .innerCall c' _ => decide (c' = c)
  | .innerDone c' _ _ => decide (c' = c)
  | _ => false

/-- a call result of request `c`, or a successful completion of one of its attempts -/
def isRO (c : Nat) : Ev → Bool
  | .result c' r => decide (c' = c) && nonInner r
  | .innerDone c' _ .ok => decide (c' = c)
  | _ => false

/-- what a step on behalf of request `c` may emit -/
def evOK (c : Nat) : Ev → Prop
  | .innerCall c' _ => c' = c
  | .innerDone c' _ _ => c' = c
  | .result c' r => c' = c ∧ nonInner r = true
  | .raw _ => True
  | _ => False

theorem evOK_other {c c' : Nat} {e : Ev} (h : evOK c e) (hne : c' ≠ c) : isCD c' e = false ∧ isRO c' e = false := by
  cases e with
  | innerCall x k => have : x = c := h; subst this; simp [isCD, isRO]; exact fun e => hne e.symm
  | innerDone x k o =>
    have : x = c := h; subst this
    have hx : ¬ x = c' := fun e => hne e.symm
    cases o <;> simp [isCD, isRO, hx]
  | result x r => have : x = c := h.1; subst this; simp [isCD, isRO]; intro e; exact absurd e.symm hne
  | raw s => simp [isCD, isRO]
  | innerCallX _ _ _ _ => exact False.elim h
  | innerDrop _ _ => exact False.elim h
  | probe _ => exact False.elim h

theorem callResults_append (c : Nat) (a b : List (Nat × Ev)) :
    callResults c (a ++ b) = callResults c a ++ callResults c b := by simp [callResults]
theorem okDones_append (c : Nat) (a b : List (Nat × Ev)) :
    okDones c (a ++ b) = okDones c a ++ okDones c b := by simp [okDones]
theorem callPairs_append (c : Nat) (a b : List (Nat × Ev)) :
    callPairs c (a ++ b) = callPairs c a ++ callPairs c b := by simp [callPairs]

theorem callResults_nil_of {c : Nat} {l : List (Nat × Ev)} (h : ∀ x ∈ l, isRO c x.2 = false) : callResults c l = [] := by
  unfold callResults
  apply List.filterMap_eq_nil_iff.mpr
  intro x hx
  have := h x hx
  unfold resOf
  split
  · rename_i c' r he
    rw [he] at this
    simp only [isRO, Bool.and_eq_false_imp, decide_eq_true_eq] at this
    split
    · rename_i hc; rw [this hc.1] at hc; exact absurd hc.2 (by simp)
    · rfl
  · rfl

theorem okDones_nil_of {c : Nat} {l : List (Nat × Ev)} (h : ∀ x ∈ l, isRO c x.2 = false) : okDones c l = [] := by
  unfold okDones
  apply List.filterMap_eq_nil_iff.mpr
  intro x hx
  have := h x hx
  unfold okOf
  split
  · rename_i c' k he
    rw [he] at this
    simp only [isRO, decide_eq_false_iff_not] at this
    rw [if_neg this]
  · rfl

theorem callPairs_nil_of {c : Nat} {l : List (Nat × Ev)} (h : ∀ x ∈ l, isCD c x.2 = false) : callPairs c l = [] := by
  unfold callPairs
  apply List.filterMap_eq_nil_iff.mpr
  intro x hx
  have := h x hx
  unfold pairOf
  split
  · rename_i c' k he
    rw [he] at this
    simp only [isCD, decide_eq_false_iff_not] at this
    rw [if_neg this]
  · rfl

/-! ## the bridge, per request -/

/-- readiness plan entry of attempt number `i` (`none`: the primary, or not listed) -/
def warmAt (warm : List Ready) (i : Nat) : Option Ready := if i = 0 then none else warm[i - 1]?

theorem warmOf_eq (cl : Call) : warmOf cl = warmAt cl.warm cl.attempts.length := rfl

/-- the line that marks the start of attempt `a` stands in the trace at `a.startAt` -/
def Mark (c : Nat) (tr : List (Nat × Ev)) (warm : List Ready) (a : Attempt) : Prop :=
  match warmAt warm a.idx with
  | none => a.wait = .no ∧ (a.startAt, Ev.innerCall c a.k) ∈ tr
  | some wv => (a.startAt, warmEv c a.idx wv) ∈ tr ∧ (a.wait = .no ∨ a.fin = none ∨ wv = .fail) ∧
      ∀ x, a.wait = .till x → ∃ d, wv = .after d ∧ x = a.startAt + d

/-- the line that shows the failure of attempt `a`: its `inner_done`, or — for a hedge whose fresh clone failed its
readiness poll and which therefore never called — its `inner_warm … fail` -/
def FailLine (c : Nat) (tr : List (Nat × Ev)) (a : Attempt) : Prop :=
  (a.wait = .no ∧ ∃ tf, a.fin = some tf ∧ (tf, Ev.innerDone c a.k a.out) ∈ tr) ∨
  (a.wait ≠ .no ∧ (a.startAt, warmEv c a.idx .fail) ∈ tr)

structure AB (c : Nat) (tr : List (Nat × Ev)) (cl : Call) : Prop where
  doneLog : ∀ a ∈ cl.attempts, a.wait = .no → ∀ tf, a.fin = some tf → (tf, Ev.innerDone c a.k a.out) ∈ tr
  logDone : ∀ t k o, (t, Ev.innerDone c k o) ∈ tr →
    ∃ a ∈ cl.attempts, a.wait = .no ∧ a.k = k ∧ a.out = o ∧ a.fin = some t
  mark : ∀ a ∈ cl.attempts, Mark c tr cl.warm a
  logCall : ∀ t k, (t, Ev.innerCall c k) ∈ tr →
    ∃ a ∈ cl.attempts, a.wait = .no ∧ a.k = k ∧ a.startAt ≤ t ∧ t ≤ a.doneAt ∧
      (warmAt cl.warm a.idx = none → t = a.startAt) ∧ ∀ d, warmAt cl.warm a.idx = some (.after d) → a.startAt + d ≤ t
  nowarm : cl.warm = [] → (∀ a ∈ cl.attempts, a.wait = .no) ∧
    callPairs c tr = (cl.attempts.map (fun a => (a.startAt, a.k))).reverse
  failRes : ∀ t r, cl.result = some (t, r) → (∀ v, r ≠ .ok v) →
    ∃ pre post, tr = pre ++ (t, Ev.result c r) :: post ∧ ∀ a ∈ cl.attempts, a.fin.isSome = true ∧ FailLine c pre a
  /-- attempt numbers are positions: the list (newest first) holds the attempts `n-1, …, 1, 0` -/
  idxs : cl.attempts.map (·.idx) = (List.range cl.attempts.length).reverse

structure RB (c : Nat) (tr : List (Nat × Ev)) (cl : Call) : Prop where
  res : callResults c tr = cl.result.toList
  noRes : cl.phase ≠ .done → cl.result = none
  okq : live cl.phase = true → okDones c tr = (cl.chan.filter (fun a => decide (a.out = .ok))).map (·.k)
  fresh : cl.phase = .fresh → cl.attempts = [] ∧ cl.chan = []
  okRes : ∀ t v, cl.result = some (t, .ok v) →
    ∃ pre post, tr = pre ++ (t, Ev.result c (.ok v)) :: post ∧ (okDones c pre).head? = some v

theorem Mark.mono {c : Nat} {tr tr' : List (Nat × Ev)} {warm : List Ready} {a : Attempt}
    (h : Mark c tr warm a) (hs : ∀ x ∈ tr, x ∈ tr') : Mark c tr' warm a := by
  unfold Mark at h ⊢
  split
  · rename_i he; rw [he] at h; exact ⟨h.1, hs _ h.2⟩
  · rename_i wv he; rw [he] at h; exact ⟨hs _ h.1, h.2⟩

/-- the bridge reads nothing of a record but its attempts, readiness plan and result -/
theorem AB.congr {c : Nat} {tr : List (Nat × Ev)} {cl cl' : Call} (h : AB c tr cl)
    (ha : cl'.attempts = cl.attempts) (hw : cl'.warm = cl.warm) (hr : cl'.result = cl.result) : AB c tr cl' := by
  constructor
  · rw [ha]; exact h.doneLog
  · rw [ha]; exact h.logDone
  · rw [ha, hw]; exact h.mark
  · rw [ha, hw]; exact h.logCall
  · rw [ha, hw]; exact h.nowarm
  · rw [ha, hr]; exact h.failRes
  · rw [ha]; exact h.idxs

theorem RB.congr {c : Nat} {tr : List (Nat × Ev)} {cl cl' : Call} (h : RB c tr cl)
    (hr : cl'.result = cl.result) (hp : cl'.phase = cl.phase) (hc : cl'.chan = cl.chan)
    (ha : cl'.attempts = cl.attempts) : RB c tr cl' := by
  constructor
  · rw [hr]; exact h.res
  · rw [hr, hp]; exact h.noRes
  · rw [hp, hc]; exact h.okq
  · rw [hp, hc, ha]; exact h.fresh
  · rw [hr]; exact h.okRes

/-- lines that are no `inner_call` / `inner_done` of this request change nothing for its attempts -/
theorem AB.frame {c : Nat} {tr : List (Nat × Ev)} {cl : Call} (h : AB c tr cl) (new : List (Nat × Ev))
    (hn : ∀ x ∈ new, isCD c x.2 = false) : AB c (tr ++ new) cl := by
  have old : ∀ x ∈ tr, x ∈ tr ++ new := fun x hx => List.mem_append_left _ hx
  have notNewD : ∀ t k o, (t, Ev.innerDone c k o) ∈ tr ++ new → (t, Ev.innerDone c k o) ∈ tr := by
    intro t k o hx
    rcases List.mem_append.mp hx with q | q
    · exact q
    · have := hn _ q; simp [isCD] at this
  have notNewC : ∀ t k, (t, Ev.innerCall c k) ∈ tr ++ new → (t, Ev.innerCall c k) ∈ tr := by
    intro t k hx
    rcases List.mem_append.mp hx with q | q
    · exact q
    · have := hn _ q; simp [isCD] at this
  constructor
  · intro a ha hw tf hf; exact old _ (h.doneLog a ha hw tf hf)
  · intro t k o hx; exact h.logDone t k o (notNewD t k o hx)
  · intro a ha; exact (h.mark a ha).mono old
  · intro t k hx; exact h.logCall t k (notNewC t k hx)
  · intro hw
    obtain ⟨h1, h2⟩ := h.nowarm hw
    refine ⟨h1, ?_⟩
    rw [callPairs_append, callPairs_nil_of hn, List.append_nil]; exact h2
  · intro t r hr hno
    obtain ⟨pre, post, h1, h2⟩ := h.failRes t r hr hno
    exact ⟨pre, post ++ new, by rw [h1]; simp, h2⟩
  · exact h.idxs

/-- lines that are no call result and no successful completion of this request change nothing for its result -/
theorem RB.frame {c : Nat} {tr : List (Nat × Ev)} {cl : Call} (h : RB c tr cl) (new : List (Nat × Ev))
    (hn : ∀ x ∈ new, isRO c x.2 = false) : RB c (tr ++ new) cl := by
  constructor
  · rw [callResults_append, callResults_nil_of hn, List.append_nil]; exact h.res
  · exact h.noRes
  · intro hl; rw [okDones_append, okDones_nil_of hn, List.append_nil]; exact h.okq hl
  · exact h.fresh
  · intro t v hr
    obtain ⟨pre, post, h1, h2⟩ := h.okRes t v hr
    exact ⟨pre, post ++ new, by rw [h1]; simp, h2⟩

/-! ## primitive transitions of one record -/

theorem finMove_warm (now cl pre a post) : (finMove now cl pre a post).warm = cl.warm := by
  unfold finMove; split <;> rfl

theorem mem_edit_old {pre post : List Attempt} {a a' b : Attempt} (h : b ∈ pre ++ a :: post) :
    b = a ∨ b ∈ pre ++ a' :: post := by
  simp only [List.mem_append, List.mem_cons] at h ⊢
  rcases h with q | q | q
  · exact Or.inr (Or.inl q)
  · exact Or.inl q
  · exact Or.inr (Or.inr (Or.inr q))

theorem mem_edit_self {pre post : List Attempt} {a : Attempt} : a ∈ pre ++ a :: post := by simp

/-- an attempt is replaced by one that has called, with the same number and start instant (and the same serial if the
old one had called already) -/
theorem Mark.edit {c : Nat} {tr : List (Nat × Ev)} {warm : List Ready} {a a' : Attempt} (h : Mark c tr warm a)
    (hi : a'.idx = a.idx) (hs : a'.startAt = a.startAt) (hk : a.wait = .no → a'.k = a.k) (hw : a'.wait = .no) :
    Mark c tr warm a' := by
  unfold Mark at h ⊢
  rw [hi, hs]
  split
  · rename_i he; rw [he] at h; exact ⟨hw, by rw [hk h.1]; exact h.2⟩
  · rename_i wv he; rw [he] at h
    exact ⟨h.1, Or.inl hw, fun x hx => by rw [hw] at hx; cases hx⟩

theorem callPairs_single_done (c now c' k : Nat) (o : Out) : callPairs c [(now, Ev.innerDone c' k o)] = [] := rfl
theorem callPairs_single_call (c now k : Nat) : callPairs c [(now, Ev.innerCall c k)] = [(now, k)] := by
  simp [callPairs, pairOf]

/-- completion of an attempt that has called: one `inner_done` line -/
theorem AB_finMove {c now : Nat} {tr : List (Nat × Ev)} {cl : Call} {pre post : List Attempt} {a : Attempt}
    (h : AB c tr cl) (hatt : cl.attempts = pre ++ a :: post) (hfin : a.fin = none) (hw : a.wait = .no) :
    AB c (tr ++ [(now, Ev.innerDone c a.k a.out)]) (finMove now cl pre a post) := by
  have hA := finMove_attempts now cl pre a post
  have hW := finMove_warm now cl pre a post
  have hR := finMove_result now cl pre a post
  have old : ∀ x ∈ tr, x ∈ tr ++ [(now, Ev.innerDone c a.k a.out)] := fun x hx => List.mem_append_left _ hx
  have memOld : ∀ b ∈ pre ++ { a with fin := some now } :: post, b = { a with fin := some now } ∨ b ∈ cl.attempts := by
    intro b hb; rw [hatt]; exact mem_edit_old hb
  constructor
  · intro b hb hbw tf hbf
    rw [hA] at hb
    rcases memOld b hb with q | q
    · subst q
      have : now = tf := by simpa using hbf
      subst this
      exact List.mem_append_right _ (by simp)
    · exact old _ (h.doneLog b q hbw tf hbf)
  · intro t k o hx
    rw [hA]
    rcases List.mem_append.mp hx with q | q
    · obtain ⟨b, hb, h1, h2, h3, h4⟩ := h.logDone t k o q
      rw [hatt] at hb
      rcases mem_edit_old (a' := { a with fin := some now }) hb with e | e
      · subst e; rw [hfin] at h4; cases h4
      · exact ⟨b, e, h1, h2, h3, h4⟩
    · simp only [List.mem_singleton, Prod.mk.injEq, Ev.innerDone.injEq] at q
      obtain ⟨ht, _, hk, ho⟩ := q
      exact ⟨{ a with fin := some now }, mem_edit_self, hw, hk.symm, ho.symm, by rw [ht]⟩
  · intro b hb
    rw [hA] at hb; rw [hW]
    rcases memOld b hb with q | q
    · subst q
      exact ((h.mark a (by rw [hatt]; exact mem_edit_self)).edit (a' := { a with fin := some now })
        rfl rfl (fun _ => rfl) hw).mono old
    · exact (h.mark b q).mono old
  · intro t k hx
    rw [hA, hW]
    have hx' : (t, Ev.innerCall c k) ∈ tr := by
      rcases List.mem_append.mp hx with q | q
      · exact q
      · simp at q
    obtain ⟨b, hb, hr⟩ := h.logCall t k hx'
    rw [hatt] at hb
    rcases mem_edit_old (a' := { a with fin := some now }) hb with e | e
    · subst e; exact ⟨{ b with fin := some now }, mem_edit_self, hr⟩
    · exact ⟨b, e, hr⟩
  · intro hw0
    rw [hW] at hw0
    obtain ⟨h1, h2⟩ := h.nowarm hw0
    refine ⟨?_, ?_⟩
    · intro b hb
      rw [hA] at hb
      rcases memOld b hb with q | q
      · subst q; exact hw
      · exact h1 b q
    · rw [callPairs_append, callPairs_single_done, List.append_nil, h2, hA, hatt]
      simp
  · intro t r hr hno
    rw [hR] at hr
    obtain ⟨_, _, _, h2⟩ := h.failRes t r hr hno
    have := (h2 a (by rw [hatt]; exact mem_edit_self)).1
    rw [hfin] at this; cases this
  · have := h.idxs
    rw [hatt] at this
    rw [hA]
    simpa using this

theorem okDones_single_done (c now k : Nat) (o : Out) :
    okDones c [(now, Ev.innerDone c k o)] = if o = .ok then [k] else [] := by
  cases o <;> simp [okDones, okOf]

theorem RB_finMove {c now : Nat} {tr : List (Nat × Ev)} {cl : Call} {pre post : List Attempt} {a : Attempt}
    (h : RB c tr cl) (hatt : cl.attempts = pre ++ a :: post) :
    RB c (tr ++ [(now, Ev.innerDone c a.k a.out)]) (finMove now cl pre a post) := by
  constructor
  · rw [callResults_append, finMove_result]
    have : callResults c [(now, Ev.innerDone c a.k a.out)] = [] := rfl
    rw [this, List.append_nil]; exact h.res
  · rw [finMove_phase, finMove_result]; exact h.noRes
  · rw [finMove_phase]
    intro hl
    rw [okDones_append, okDones_single_done, h.okq hl]
    unfold finMove
    rw [hl]
    cases ho : a.out <;> simp [sendable]
  · rw [finMove_phase]
    intro hp
    have := (h.fresh hp).1; rw [hatt] at this; simp at this
  · intro t v hr
    rw [finMove_result] at hr
    obtain ⟨p1, p2, h1, h2⟩ := h.okRes t v hr
    exact ⟨p1, p2 ++ [(now, Ev.innerDone c a.k a.out)], by rw [h1]; simp, h2⟩

theorem markFin_wait {now k : Nat} {l : List Attempt} {a' : Attempt} {l' : List Attempt}
    (h : markFin now k l = some (a', l')) : a'.wait = .no := by
  induction l generalizing a' l' with
  | nil => simp [markFin] at h
  | cons x tl ih =>
    unfold markFin at h
    split at h
    · rename_i hc
      simp only [Option.some.injEq, Prod.mk.injEq] at h
      rw [← h.1]; exact hc.2.2.2.2
    · split at h
      · rename_i a2 tl2 heq
        simp only [Option.some.injEq, Prod.mk.injEq] at h
        rw [← h.1]; exact ih heq
      · simp at h

/-- `finishCall_cases` with the fact that only an attempt that has called can complete -/
theorem finishCall_cases2 (now k c : Nat) (cl : Call) :
    finishCall now k c cl = (cl, []) ∨
    ∃ pre a post, cl.attempts = pre ++ a :: post ∧ a.fin = none ∧ a.wait = .no ∧ a.k = k ∧
      finishCall now k c cl = (finMove now cl pre a post, [.innerDone c a.k a.out]) := by
  unfold finishCall
  split
  · left; rfl
  · rename_i a' l' heq
    have hw := markFin_wait heq
    obtain ⟨pre, a, post, h1, h2, h3, h4, h5, h6, h7⟩ := markFin_some heq
    right
    refine ⟨pre, a, post, h1, h3, ?_, h4, ?_⟩
    · rw [h7] at hw; exact hw
    · subst h7; subst h2; rfl

theorem AB_finishCall {c now : Nat} {tr : List (Nat × Ev)} {cl : Call} (k : Nat) (h : AB c tr cl) :
    AB c (tr ++ stamp now (finishCall now k c cl).2) (finishCall now k c cl).1 := by
  rcases finishCall_cases2 now k c cl with he | ⟨pre, a, post, hatt, hfin, hw, _, he⟩
  · rw [he]; simpa [stamp] using h
  · rw [he]; exact AB_finMove h hatt hfin hw

theorem RB_finishCall {c now : Nat} {tr : List (Nat × Ev)} {cl : Call} (k : Nat) (h : RB c tr cl) :
    RB c (tr ++ stamp now (finishCall now k c cl).2) (finishCall now k c cl).1 := by
  rcases finishCall_cases2 now k c cl with he | ⟨pre, a, post, hatt, _, _, _, he⟩
  · rw [he]; simpa [stamp] using h
  · rw [he]; exact RB_finMove h hatt

theorem finishCall_evOK (now k c : Nat) (cl : Call) : ∀ e ∈ (finishCall now k c cl).2, evOK c e := by
  rcases finishCall_cases2 now k c cl with he | ⟨pre, a, post, _, _, _, _, he⟩
  · rw [he]; intro e h; cases h
  · rw [he]; intro e h; simp at h; subst h; exact rfl

theorem finishCall_warm (now k c : Nat) (cl : Call) : (finishCall now k c cl).1.warm = cl.warm := by
  rcases finishCall_cases2 now k c cl with he | ⟨pre, a, post, _, _, _, _, he⟩
  · rw [he]
  · rw [he]; exact finMove_warm ..

/-- a new attempt that calls at once: one `inner_call` line -/
theorem AB_pushCalled {c now : Nat} {tr : List (Nat × Ev)} {cl : Call} (h : AB c tr cl) (a : Attempt)
    (hw : a.wait = .no) (hf : a.fin = none) (hi : a.idx = cl.attempts.length) (hs : a.startAt = now)
    (hd : now ≤ a.doneAt) (hres : cl.result = none)
    (hwm : warmAt cl.warm cl.attempts.length = none ∨
      (warmAt cl.warm cl.attempts.length = some (.after 0) ∧ (now, warmEv c cl.attempts.length (.after 0)) ∈ tr)) :
    AB c (tr ++ [(now, Ev.innerCall c a.k)]) { cl with attempts := a :: cl.attempts } := by
  have old : ∀ x ∈ tr, x ∈ tr ++ [(now, Ev.innerCall c a.k)] := fun x hx => List.mem_append_left _ hx
  constructor
  · intro b hb hbw tf hbf
    rcases List.mem_cons.mp hb with q | q
    · subst q; rw [hf] at hbf; cases hbf
    · exact old _ (h.doneLog b q hbw tf hbf)
  · intro t k o hx
    have hx' : (t, Ev.innerDone c k o) ∈ tr := by
      rcases List.mem_append.mp hx with q | q
      · exact q
      · simp at q
    obtain ⟨b, hb, hr⟩ := h.logDone t k o hx'
    exact ⟨b, List.mem_cons_of_mem _ hb, hr⟩
  · intro b hb
    rcases List.mem_cons.mp hb with q | q
    · subst q
      show Mark c _ cl.warm b
      unfold Mark
      rw [hi]
      rcases hwm with e | ⟨e, hl⟩
      · rw [e]; exact ⟨hw, by rw [hs]; exact List.mem_append_right _ (by simp)⟩
      · rw [e]; exact ⟨by rw [hs]; exact old _ hl, Or.inl hw, fun x hx => by rw [hw] at hx; cases hx⟩
    · exact (h.mark b q).mono old
  · intro t k hx
    rcases List.mem_append.mp hx with q | q
    · obtain ⟨b, hb, hr⟩ := h.logCall t k q
      exact ⟨b, List.mem_cons_of_mem _ hb, hr⟩
    · simp only [List.mem_singleton, Prod.mk.injEq, Ev.innerCall.injEq] at q
      obtain ⟨ht, _, hk⟩ := q
      refine ⟨a, List.mem_cons_self, hw, hk.symm, by omega, by omega, fun _ => by omega, ?_⟩
      intro d hd'
      show a.startAt + d ≤ t
      rw [hi] at hd'
      rcases hwm with e | ⟨e, _⟩
      · rw [e] at hd'; cases hd'
      · rw [e] at hd'; cases hd'; omega
  · intro hw0
    obtain ⟨h1, h2⟩ := h.nowarm hw0
    refine ⟨?_, ?_⟩
    · intro b hb
      rcases List.mem_cons.mp hb with q | q
      · subst q; exact hw
      · exact h1 b q
    · rw [callPairs_append, callPairs_single_call, h2]
      simp [hs]
  · intro t r hr; rw [hres] at hr; cases hr
  · show (a :: cl.attempts).map (·.idx) = (List.range (cl.attempts.length + 1)).reverse
    rw [List.range_succ, List.reverse_append, List.map_cons, h.idxs, hi]; rfl

/-- a new attempt that does not call (its clone is warming up, or failed its readiness poll): one `inner_warm` line -/
theorem AB_pushOther {c : Nat} {tr : List (Nat × Ev)} {cl : Call} (h : AB c tr cl) (a : Attempt) (wv : Ready)
    (hw : a.wait ≠ .no) (hi : a.idx = cl.attempts.length) (hres : cl.result = none)
    (hwm : warmAt cl.warm cl.attempts.length = some wv) (hm : a.fin = none ∨ wv = .fail)
    (ht : ∀ x, a.wait = .till x → ∃ d, wv = .after d ∧ x = a.startAt + d) :
    AB c (tr ++ [(a.startAt, warmEv c cl.attempts.length wv)]) { cl with attempts := a :: cl.attempts } := by
  have old : ∀ x ∈ tr, x ∈ tr ++ [(a.startAt, warmEv c cl.attempts.length wv)] :=
    fun x hx => List.mem_append_left _ hx
  have hfr := h.frame [(a.startAt, warmEv c cl.attempts.length wv)] (by intro x hx; simp at hx; subst hx; rfl)
  constructor
  · intro b hb hbw tf hbf
    rcases List.mem_cons.mp hb with q | q
    · subst q; exact absurd hbw hw
    · exact hfr.doneLog b q hbw tf hbf
  · intro t k o hx
    obtain ⟨b, hb, hr⟩ := hfr.logDone t k o hx
    exact ⟨b, List.mem_cons_of_mem _ hb, hr⟩
  · intro b hb
    rcases List.mem_cons.mp hb with q | q
    · subst q
      show Mark c _ cl.warm b
      unfold Mark
      rw [hi, hwm]
      refine ⟨List.mem_append_right _ (by simp), ?_, ht⟩
      rcases hm with e | e
      · exact Or.inr (Or.inl e)
      · exact Or.inr (Or.inr e)
    · exact hfr.mark b q
  · intro t k hx
    obtain ⟨b, hb, hr⟩ := hfr.logCall t k hx
    exact ⟨b, List.mem_cons_of_mem _ hb, hr⟩
  · intro hw0
    have hw0' : cl.warm = [] := hw0
    rw [hw0'] at hwm
    unfold warmAt at hwm
    split at hwm <;> simp at hwm
  · intro t r hr; rw [hres] at hr; cases hr
  · show (a :: cl.attempts).map (·.idx) = (List.range (cl.attempts.length + 1)).reverse
    rw [List.range_succ, List.reverse_append, List.map_cons, h.idxs, hi]; rfl

theorem readyBy_till {now : Nat} {w : Wait} (h : readyBy now w = true) : ∃ x, w = .till x ∧ x ≤ now := by
  cases w with
  | till x => exact ⟨x, rfl, by simpa [readyBy] using h⟩
  | no => simp [readyBy] at h
  | forever => simp [readyBy] at h

theorem markCall_some2 {now i k : Nat} {st : Step} {l l' : List Attempt} (h : markCall now i k st l = some l') :
    ∃ pre a post, l = pre ++ a :: post ∧ a.fin = none ∧ readyBy now a.wait = true ∧
      l' = pre ++ a.call now k st :: post := by
  induction l generalizing l' with
  | nil => simp [markCall] at h
  | cons x tl ih =>
    unfold markCall at h
    split at h
    · rename_i hc
      simp only [Option.some.injEq] at h
      exact ⟨[], x, tl, rfl, hc.2.2, hc.2.1, by simp [← h]⟩
    · split at h
      · rename_i tl2 heq
        simp only [Option.some.injEq] at h
        obtain ⟨pre, a, post, h1, h2, h3, h4⟩ := ih heq
        exact ⟨x :: pre, a, post, by simp [h1], h2, h3, by simp [← h, h4]⟩
      · simp at h

/-- a waiting attempt whose clone has become ready calls: one `inner_call` line -/
theorem AB_swap {c now k : Nat} {st : Step} {tr : List (Nat × Ev)} {cl : Call} {pre post : List Attempt} {a : Attempt}
    (h : AB c tr cl) (hatt : cl.attempts = pre ++ a :: post) (hf : a.fin = none)
    (hr : readyBy now a.wait = true) :
    AB c (tr ++ [(now, Ev.innerCall c k)]) { cl with attempts := pre ++ a.call now k st :: post } := by
  obtain ⟨x, hx, hxn⟩ := readyBy_till hr
  have hwn : a.wait ≠ .no := by rw [hx]; simp
  have hma := h.mark a (by rw [hatt]; exact mem_edit_self)
  have old : ∀ y ∈ tr, y ∈ tr ++ [(now, Ev.innerCall c k)] := fun y hy => List.mem_append_left _ hy
  have memOld : ∀ b ∈ pre ++ a.call now k st :: post, b = a.call now k st ∨ b ∈ cl.attempts := by
    intro b hb; rw [hatt]; exact mem_edit_old hb
  -- the readiness plan lists the attempt: `after d`, ready at `startAt + d ≤ now`
  obtain ⟨wv, d, hwv, hd, hline⟩ : ∃ wv d, warmAt cl.warm a.idx = some wv ∧ (wv = .after d ∧ x = a.startAt + d) ∧
      (a.startAt, warmEv c a.idx wv) ∈ tr := by
    unfold Mark at hma
    split at hma
    · exact absurd hma.1 hwn
    · rename_i wv he
      obtain ⟨d, hd⟩ := hma.2.2 x hx
      exact ⟨wv, d, he, hd, hma.1⟩
  constructor
  · intro b hb hbw tf hbf
    rcases memOld b hb with q | q
    · subst q
      have : a.fin = some tf := hbf
      rw [hf] at this; cases this
    · exact old _ (h.doneLog b q hbw tf hbf)
  · intro t k' o hy
    have hy' : (t, Ev.innerDone c k' o) ∈ tr := by
      rcases List.mem_append.mp hy with q | q
      · exact q
      · simp at q
    obtain ⟨b, hb, h1, hrest⟩ := h.logDone t k' o hy'
    rw [hatt] at hb
    rcases mem_edit_old (a' := a.call now k st) hb with e | e
    · subst e; exact absurd h1 hwn
    · exact ⟨b, e, h1, hrest⟩
  · intro b hb
    rcases memOld b hb with q | q
    · subst q
      exact (hma.edit (a' := a.call now k st) rfl rfl (fun e => absurd e hwn) rfl).mono old
    · exact (h.mark b q).mono old
  · intro t k' hy
    rcases List.mem_append.mp hy with q | q
    · obtain ⟨b, hb, h1, hrest⟩ := h.logCall t k' q
      rw [hatt] at hb
      rcases mem_edit_old (a' := a.call now k st) hb with e | e
      · subst e; exact absurd h1 hwn
      · exact ⟨b, e, h1, hrest⟩
    · simp only [List.mem_singleton, Prod.mk.injEq, Ev.innerCall.injEq] at q
      obtain ⟨ht, _, hk⟩ := q
      refine ⟨a.call now k st, mem_edit_self, rfl, hk.symm, ?_, ?_, ?_, ?_⟩
      · show a.startAt ≤ t
        omega
      · show t ≤ now + st.lat
        omega
      · intro hn
        have hn' : warmAt cl.warm a.idx = none := hn
        rw [hwv] at hn'; cases hn'
      · intro d' hd'
        have hd'' : warmAt cl.warm a.idx = some (.after d') := hd'
        rw [hwv, hd.1] at hd''
        simp only [Option.some.injEq, Ready.after.injEq] at hd''
        show a.startAt + d' ≤ t
        omega
  · intro hw0
    have hw0' : cl.warm = [] := hw0
    exact absurd ((h.nowarm hw0').1 a (by rw [hatt]; exact mem_edit_self)) hwn
  · intro t r hr' hno
    obtain ⟨_, _, _, h2⟩ := h.failRes t r hr' hno
    have := (h2 a (by rw [hatt]; exact mem_edit_self)).1
    rw [hf] at this; cases this
  · have := h.idxs
    rw [hatt] at this
    show (pre ++ a.call now k st :: post).map (·.idx) = (List.range (pre ++ a.call now k st :: post).length).reverse
    simpa [Attempt.call] using this

/-- a change of the attempts alone, with lines that are no result and no successful completion -/
theorem RB.attempts {c : Nat} {tr : List (Nat × Ev)} {cl : Call} (h : RB c tr cl) (l : List Attempt)
    (new : List (Nat × Ev)) (hn : ∀ x ∈ new, isRO c x.2 = false) (hp : cl.phase ≠ .fresh) :
    RB c (tr ++ new) { cl with attempts := l } := by
  have := h.frame new hn
  exact ⟨this.res, this.noRes, this.okq, fun hq => absurd hq hp, this.okRes⟩

/-! ## threading the bridge through one poll -/

/-- the bridge while one call is polled: the trace is the old one plus the events emitted so far, stamped `now` -/
structure WB (c now : Nat) (tr0 : List (Nat × Ev)) (w : W) : Prop where
  ab : AB c (tr0 ++ stamp now w.evs) w.cl
  rb : RB c (tr0 ++ stamp now w.evs) w.cl
  ok : ∀ e ∈ w.evs, evOK c e

theorem live_not_fresh {p : Phase} (h : live p = true) : p ≠ .fresh := by intro e; rw [e] at h; cases h
theorem live_not_done {p : Phase} (h : live p = true) : p ≠ .done := by intro e; rw [e] at h; cases h

theorem stamp_snoc (tr0 : List (Nat × Ev)) (now : Nat) (evs : List Ev) (e : Ev) :
    tr0 ++ stamp now (evs ++ [e]) = (tr0 ++ stamp now evs) ++ [(now, e)] := by
  simp [stamp]

theorem stamp_snoc2 (tr0 : List (Nat × Ev)) (now : Nat) (evs : List Ev) (e : Ev) (more : List Ev) :
    tr0 ++ stamp now (evs ++ [e] ++ more) = ((tr0 ++ stamp now evs) ++ [(now, e)]) ++ stamp now more := by
  simp [stamp]

theorem WB_addRaw {c now : Nat} {tr0 : List (Nat × Ev)} {w : W} (h : WB c now tr0 w) (s : String) :
    WB c now tr0 { w with evs := w.evs ++ [Ev.raw s] } := by
  refine ⟨?_, ?_, ?_⟩
  · show AB c (tr0 ++ stamp now (w.evs ++ [Ev.raw s])) w.cl
    rw [stamp_snoc]; exact h.ab.frame _ (by intro x hx; simp at hx; subst hx; rfl)
  · show RB c (tr0 ++ stamp now (w.evs ++ [Ev.raw s])) w.cl
    rw [stamp_snoc]; exact h.rb.frame _ (by intro x hx; simp at hx; subst hx; rfl)
  · intro e he
    rcases List.mem_append.mp he with q | q
    · exact h.ok e q
    · simp at q; subst q; exact trivial

theorem WB_callAttempt {c now : Nat} {tr0 : List (Nat × Ev)} {w : W} (h : WB c now tr0 w)
    (hl : live w.cl.phase = true)
    (hwm : warmOf w.cl = none ∨
      (warmOf w.cl = some (.after 0) ∧ warmEv c w.cl.attempts.length (.after 0) ∈ w.evs)) :
    WB c now tr0 (callAttempt now c w) := by
  have hres : w.cl.result = none := h.rb.noRes (live_not_done hl)
  have hwm' : warmAt w.cl.warm w.cl.attempts.length = none ∨
      (warmAt w.cl.warm w.cl.attempts.length = some (.after 0) ∧
        (now, warmEv c w.cl.attempts.length (.after 0)) ∈ tr0 ++ stamp now w.evs) := by
    rcases hwm with e | ⟨e, hm⟩
    · exact Or.inl e
    · exact Or.inr ⟨e, List.mem_append_right _ (mem_stamp.mpr ⟨rfl, hm⟩)⟩
  have a1 : AB c ((tr0 ++ stamp now w.evs) ++ [(now, Ev.innerCall c w.serial)]) (pushAttempt now w).cl :=
    AB_pushCalled h.ab
      { idx := w.cl.attempts.length, k := w.serial, startAt := now,
        doneAt := now + (w.cl.plan.getD (nCalled w.cl) ⟨0, .ok⟩).lat, out := (w.cl.plan.getD (nCalled w.cl) ⟨0, .ok⟩).out }
      rfl rfl rfl rfl (Nat.le_add_right _ _) hres hwm'
  have r1 : RB c ((tr0 ++ stamp now w.evs) ++ [(now, Ev.innerCall c w.serial)]) (pushAttempt now w).cl :=
    h.rb.attempts _ _ (by intro x hx; simp at hx; subst hx; rfl) (live_not_fresh hl)
  unfold callAttempt
  dsimp only
  split
  · refine ⟨?_, ?_, ?_⟩
    · show AB c (tr0 ++ stamp now (w.evs ++ [Ev.innerCall c w.serial] ++ _)) _
      rw [stamp_snoc2]; exact AB_finishCall _ a1
    · show RB c (tr0 ++ stamp now (w.evs ++ [Ev.innerCall c w.serial] ++ _)) _
      rw [stamp_snoc2]; exact RB_finishCall _ r1
    · intro e he
      show evOK c e
      have he' : e ∈ w.evs ++ [Ev.innerCall c w.serial] ++ (finishCall now w.serial c (pushAttempt now w).cl).2 := he
      simp only [List.mem_append, List.mem_singleton] at he'
      rcases he' with (q | q) | q
      · exact h.ok e q
      · subst q; exact rfl
      · exact finishCall_evOK _ _ _ _ e q
  · refine ⟨?_, ?_, ?_⟩
    · show AB c (tr0 ++ stamp now (w.evs ++ [Ev.innerCall c w.serial] ++ [])) _
      rw [List.append_nil, stamp_snoc]; exact a1
    · show RB c (tr0 ++ stamp now (w.evs ++ [Ev.innerCall c w.serial] ++ [])) _
      rw [List.append_nil, stamp_snoc]; exact r1
    · intro e he
      show evOK c e
      have he' : e ∈ w.evs ++ [Ev.innerCall c w.serial] ++ [] := he
      simp only [List.mem_append, List.mem_singleton, List.append_nil] at he'
      rcases he' with q | q
      · exact h.ok e q
      · subst q; exact rfl

/-- `inner_warm` line plus an attempt that waits for its clone -/
theorem WB_pushWaiting {c now : Nat} {tr0 : List (Nat × Ev)} {w : W} (h : WB c now tr0 w)
    (hl : live w.cl.phase = true) (wv : Ready) (wt : Wait) (hwm : warmOf w.cl = some wv) (hwt : wt ≠ .no)
    (ht : ∀ x, wt = .till x → ∃ d, wv = .after d ∧ x = now + d) :
    WB c now tr0 (pushWaiting now wt { w with evs := w.evs ++ [warmEv c w.cl.attempts.length wv] }) := by
  have hres : w.cl.result = none := h.rb.noRes (live_not_done hl)
  refine ⟨?_, ?_, ?_⟩
  · show AB c (tr0 ++ stamp now (w.evs ++ [warmEv c w.cl.attempts.length wv])) _
    rw [stamp_snoc]
    exact AB_pushOther h.ab
      { idx := w.cl.attempts.length, k := 0, startAt := now, doneAt := 0, out := .never, wait := wt } wv
      hwt rfl hres hwm (Or.inl rfl) ht
  · show RB c (tr0 ++ stamp now (w.evs ++ [warmEv c w.cl.attempts.length wv])) _
    rw [stamp_snoc]
    exact h.rb.attempts _ _ (by intro x hx; simp at hx; subst hx; rfl) (live_not_fresh hl)
  · intro e he
    have he' : e ∈ w.evs ++ [warmEv c w.cl.attempts.length wv] := he
    rcases List.mem_append.mp he' with q | q
    · exact h.ok e q
    · simp at q; subst q; exact trivial

/-- `inner_warm … fail` line plus an attempt that is over at once -/
theorem WB_failAttempt {c now : Nat} {tr0 : List (Nat × Ev)} {w : W} (h : WB c now tr0 w)
    (hl : live w.cl.phase = true) (hwm : warmOf w.cl = some .fail) :
    WB c now tr0 (failAttempt now { w with evs := w.evs ++ [warmEv c w.cl.attempts.length .fail] }) := by
  have hres : w.cl.result = none := h.rb.noRes (live_not_done hl)
  have a1 := AB_pushOther h.ab { failedAttempt now w.cl.attempts.length with fin := some now } .fail
      (by simp [failedAttempt]) rfl hres hwm (Or.inr rfl) (by intro x hx; simp [failedAttempt] at hx)
  have r1 := h.rb.frame [(now, warmEv c w.cl.attempts.length .fail)] (by intro x hx; simp at hx; subst hx; rfl)
  refine ⟨?_, ?_, ?_⟩
  · show AB c (tr0 ++ stamp now (w.evs ++ [warmEv c w.cl.attempts.length .fail])) _
    rw [stamp_snoc]
    refine a1.congr ?_ ?_ ?_ <;> (unfold failAttempt; dsimp only; split <;> rfl)
  · show RB c (tr0 ++ stamp now (w.evs ++ [warmEv c w.cl.attempts.length .fail])) _
    rw [stamp_snoc]
    have hph : (failAttempt now { w with evs := w.evs ++ [warmEv c w.cl.attempts.length .fail] }).cl.phase
        = w.cl.phase := by unfold failAttempt; dsimp only; split <;> rfl
    have hrs : (failAttempt now { w with evs := w.evs ++ [warmEv c w.cl.attempts.length .fail] }).cl.result
        = w.cl.result := by unfold failAttempt; dsimp only; split <;> rfl
    constructor
    · rw [hrs]; exact r1.res
    · rw [hrs, hph]; exact r1.noRes
    · rw [hph]
      intro hl'
      rw [r1.okq hl']
      unfold failAttempt
      dsimp only
      split <;> simp [failedAttempt]
    · rw [hph]; intro hq; exact absurd hq (live_not_fresh hl)
    · rw [hrs]; exact r1.okRes
  · intro e he
    have he' : e ∈ w.evs ++ [warmEv c w.cl.attempts.length .fail] := he
    rcases List.mem_append.mp he' with q | q
    · exact h.ok e q
    · simp at q; subst q; exact trivial

theorem WB_startAttempt {c now : Nat} {tr0 : List (Nat × Ev)} {w : W} (h : WB c now tr0 w)
    (hl : live w.cl.phase = true) : WB c now tr0 (startAttempt now c w) := by
  unfold startAttempt
  split
  · rename_i he; exact WB_callAttempt h hl (Or.inl he)
  · rename_i d he
    split
    · rename_i hd
      subst hd
      exact WB_callAttempt (w := { w with evs := w.evs ++ [warmEv c w.cl.attempts.length (.after 0)] })
        (WB_addRaw h _) hl (Or.inr ⟨he, by simp⟩)
    · rename_i hd
      exact WB_pushWaiting h hl (.after d) _ he (by simp) (by intro x hx; cases hx; exact ⟨d, rfl, rfl⟩)
  · rename_i he
    exact WB_pushWaiting h hl .never .forever he (by simp) (by intro x hx; cases hx)
  · rename_i he
    exact WB_failAttempt h hl he

theorem startAttempt_phase (now c : Nat) (w : W) : (startAttempt now c w).cl.phase = w.cl.phase := by
  rcases startAttempt_cases now c w with ⟨evs, he, _⟩ | ⟨wt, e, _, he⟩ | ⟨e, he⟩
  · rw [he, callAttempt_cl]; split
    · rw [finishCall_phase]; rfl
    · rfl
  · rw [he]; rfl
  · rw [he, failAttempt_cl, finMove_phase]

theorem WB_readyCall {c now i : Nat} {tr0 : List (Nat × Ev)} {w : W} (h : WB c now tr0 w) :
    WB c now tr0 (readyCall now c i w) := by
  unfold readyCall
  dsimp only
  split
  · exact h
  · rename_i l' heq
    obtain ⟨pre, a, post, hatt, hf, hr, hl'⟩ := markCall_some2 heq
    subst hl'
    have hnf : w.cl.phase ≠ .fresh := by
      intro hq; have := (h.rb.fresh hq).1; rw [hatt] at this; simp at this
    have a1 : AB c ((tr0 ++ stamp now w.evs) ++ [(now, Ev.innerCall c w.serial)])
        { w.cl with attempts := pre ++ a.call now w.serial (w.cl.plan.getD (nCalled w.cl) ⟨0, .ok⟩) :: post } :=
      AB_swap h.ab hatt hf hr
    have r1 : RB c ((tr0 ++ stamp now w.evs) ++ [(now, Ev.innerCall c w.serial)])
        { w.cl with attempts := pre ++ a.call now w.serial (w.cl.plan.getD (nCalled w.cl) ⟨0, .ok⟩) :: post } :=
      h.rb.attempts _ _ (by intro x hx; simp at hx; subst hx; rfl) hnf
    split
    · refine ⟨?_, ?_, ?_⟩
      · show AB c (tr0 ++ stamp now (w.evs ++ [Ev.innerCall c w.serial] ++ _)) _
        rw [stamp_snoc2]; exact AB_finishCall _ a1
      · show RB c (tr0 ++ stamp now (w.evs ++ [Ev.innerCall c w.serial] ++ _)) _
        rw [stamp_snoc2]; exact RB_finishCall _ r1
      · intro e he
        show evOK c e
        have he' : e ∈ w.evs ++ [Ev.innerCall c w.serial] ++ (finishCall now w.serial c
          { w.cl with attempts := pre ++ a.call now w.serial (w.cl.plan.getD (nCalled w.cl) ⟨0, .ok⟩) :: post }).2 := he
        simp only [List.mem_append, List.mem_singleton] at he'
        rcases he' with (q | q) | q
        · exact h.ok e q
        · subst q; exact rfl
        · exact finishCall_evOK _ _ _ _ e q
    · refine ⟨?_, ?_, ?_⟩
      · show AB c (tr0 ++ stamp now (w.evs ++ [Ev.innerCall c w.serial] ++ [])) _
        rw [List.append_nil, stamp_snoc]; exact a1
      · show RB c (tr0 ++ stamp now (w.evs ++ [Ev.innerCall c w.serial] ++ [])) _
        rw [List.append_nil, stamp_snoc]; exact r1
      · intro e he
        show evOK c e
        have he' : e ∈ w.evs ++ [Ev.innerCall c w.serial] ++ [] := he
        simp only [List.mem_append, List.mem_singleton, List.append_nil] at he'
        rcases he' with q | q
        · exact h.ok e q
        · subst q; exact rfl

/-! ### receiving -/

/-- the call resolves: one `result` line; for a result that is not a response every attempt is over, and its failure
line stands in the trace already -/
theorem AB_resolve {c now : Nat} {tr : List (Nat × Ev)} {cl : Call} (h : AB c tr cl) (cl' : Call)
    (ha : cl'.attempts = cl.attempts) (hw : cl'.warm = cl.warm) (r : Res)
    (hfail : (∀ v, r ≠ .ok v) → ∀ a ∈ cl.attempts, a.fin.isSome = true) :
    AB c (tr ++ [(now, Ev.result c r)]) (resolve now r cl') := by
  have hfr := h.frame [(now, Ev.result c r)] (by intro x hx; simp at hx; subst hx; rfl)
  constructor
  · show ∀ a ∈ cl'.attempts, _
    rw [ha]; exact hfr.doneLog
  · show ∀ t k o, _ → ∃ a ∈ cl'.attempts, _
    rw [ha]; exact hfr.logDone
  · show ∀ a ∈ cl'.attempts, Mark c _ cl'.warm a
    rw [ha, hw]; exact hfr.mark
  · show ∀ t k, _ → ∃ a ∈ cl'.attempts, _ ∧ _ ∧ _ ∧ _ ∧ (warmAt cl'.warm a.idx = none → _) ∧ ∀ d, warmAt cl'.warm a.idx = _ → _
    rw [ha, hw]; exact hfr.logCall
  · show cl'.warm = [] → (∀ a ∈ cl'.attempts, _) ∧ _ = (cl'.attempts.map _).reverse
    rw [ha, hw]; exact hfr.nowarm
  · intro t r' hr hno
    have hr' : some (now, r) = some (t, r') := hr
    simp only [Option.some.injEq, Prod.mk.injEq] at hr'
    obtain ⟨rfl, rfl⟩ := hr'
    refine ⟨tr, [], rfl, ?_⟩
    show ∀ a ∈ cl'.attempts, _
    rw [ha]
    intro a haa
    have hs := hfail hno a haa
    refine ⟨hs, ?_⟩
    obtain ⟨tf, htf⟩ := Option.isSome_iff_exists.mp hs
    by_cases hwn : a.wait = .no
    · exact Or.inl ⟨hwn, tf, htf, h.doneLog a haa hwn tf htf⟩
    · right
      refine ⟨hwn, ?_⟩
      have hm := h.mark a haa
      unfold Mark at hm
      split at hm
      · exact absurd hm.1 hwn
      · rename_i wv he
        rcases hm.2.1 with q | q | q
        · exact absurd q hwn
        · rw [htf] at q; cases q
        · rw [q] at hm; exact hm.1
  · show cl'.attempts.map (·.idx) = (List.range cl'.attempts.length).reverse
    rw [ha]; exact h.idxs

theorem callResults_single (c now : Nat) (r : Res) (h : nonInner r = true) :
    callResults c [(now, Ev.result c r)] = [(now, r)] := by
  simp [callResults, resOf, h]

theorem RB_resolve {c now : Nat} {tr : List (Nat × Ev)} {cl : Call} (h : RB c tr cl) (cl' : Call)
    (hl : live cl.phase = true) (r : Res) (hni : nonInner r = true)
    (hok : ∀ v, r = .ok v → (okDones c tr).head? = some v) :
    RB c (tr ++ [(now, Ev.result c r)]) (resolve now r cl') := by
  have hnone : cl.result = none := h.noRes (live_not_done hl)
  constructor
  · show _ = (some (now, r)).toList
    rw [callResults_append, callResults_single c now r hni, h.res, hnone]; rfl
  · intro hq; exact absurd rfl hq
  · intro hq; cases hq
  · intro hq; cases hq
  · intro t v hr
    have hr' : some (now, r) = some (t, .ok v) := hr
    simp only [Option.some.injEq, Prod.mk.injEq] at hr'
    obtain ⟨rfl, rfl⟩ := hr'
    exact ⟨tr, [], rfl, hok v rfl⟩

/-- a message that is no success leaves the channel -/
theorem RB.pop {c : Nat} {tr : List (Nat × Ev)} {cl : Call} (h : RB c tr cl) {m : Attempt} {rest : List Attempt}
    (hc : cl.chan = m :: rest) (hm : m.out ≠ .ok) (cl' : Call) (hr : cl'.result = cl.result)
    (hp : cl'.phase = cl.phase) (hch : cl'.chan = rest) (ha : cl'.attempts = cl.attempts) : RB c tr cl' := by
  constructor
  · rw [hr]; exact h.res
  · rw [hr, hp]; exact h.noRes
  · rw [hp, hch]; intro hl; rw [h.okq hl, hc]; simp [hm]
  · rw [hp]; intro hq; have := (h.fresh hq).2; rw [hc] at this; cases this
  · rw [hr]; exact h.okRes

theorem okDones_head {c : Nat} {tr : List (Nat × Ev)} {cl : Call} (h : RB c tr cl) {m : Attempt} {rest : List Attempt}
    (hc : cl.chan = m :: rest) (hl : live cl.phase = true) (hm : m.out = .ok) :
    (okDones c tr).head? = some m.k := by
  rw [h.okq hl, hc]; simp [hm]

theorem resolve_pack {c now : Nat} {tr : List (Nat × Ev)} {cl : Call} (ha : AB c tr cl) (hr : RB c tr cl)
    (hl : live cl.phase = true) (cl' : Call) (hatt : cl'.attempts = cl.attempts) (hw : cl'.warm = cl.warm) (r : Res)
    (hni : nonInner r = true) (hok : ∀ v, r = .ok v → (okDones c tr).head? = some v)
    (hfail : (∀ v, r ≠ .ok v) → ∀ a ∈ cl.attempts, a.fin.isSome = true) :
    AB c (tr ++ stamp now (resolve now r cl', [Ev.result c r]).2) (resolve now r cl', [Ev.result c r]).1 ∧
    RB c (tr ++ stamp now (resolve now r cl', [Ev.result c r]).2) (resolve now r cl', [Ev.result c r]).1 ∧
    ∀ e ∈ (resolve now r cl', [Ev.result c r]).2, evOK c e := by
  refine ⟨AB_resolve ha cl' hatt hw r hfail, RB_resolve hr cl' hl r hni hok, ?_⟩
  intro e he
  simp at he; subst he; exact ⟨rfl, hni⟩

theorem WB_recvLat (cfg : Cfg) (now c : Nat) (tr : List (Nat × Ev)) : ∀ (msgs : List Attempt) (cl : Call),
    cl.chan = msgs → cl.phase = .latency → CallInv cfg now cl → AB c tr cl → RB c tr cl →
    AB c (tr ++ stamp now (recvLat cfg now c msgs cl).2) (recvLat cfg now c msgs cl).1 ∧
    RB c (tr ++ stamp now (recvLat cfg now c msgs cl).2) (recvLat cfg now c msgs cl).1 ∧
    ∀ e ∈ (recvLat cfg now c msgs cl).2, evOK c e := by
  intro msgs
  induction msgs with
  | nil => intro cl _ _ _ ha hr; exact ⟨by simpa [recvLat, stamp] using ha, by simpa [recvLat, stamp] using hr, by simp [recvLat]⟩
  | cons m rest ih =>
    intro cl hc hp h ha hr
    have hl : live cl.phase = true := by rw [hp]; rfl
    unfold recvLat
    split
    · rename_i hok
      exact resolve_pack (now := now) ha hr hl (popMsg cl m rest) rfl rfl (.ok m.k) rfl
        (fun v hv => by cases hv; exact okDones_head hr hc hl hok) (fun hno => absurd rfl (hno m.k))
    · rename_i kd herr
      have hm : isErr m.out = true := by rw [herr]; rfl
      have hmne : m.out ≠ .ok := by rw [herr]; simp
      split
      · rename_i hmax
        have hres := (CallInv_resolve_allFailed_lat h hc hp hm hmax (primaryErr m kd cl.firstErr)
          ((primaryErr m kd cl.firstErr).getD (kd, m.k)).1 ((primaryErr m kd cl.firstErr).getD (kd, m.k)).2).rs.res rfl
        obtain ⟨t', r', h1, _, _, h4⟩ := hres
        have h1' : some (now, Res.allFailed ((primaryErr m kd cl.firstErr).getD (kd, m.k)).1
            ((primaryErr m kd cl.firstErr).getD (kd, m.k)).2) = some (t', r') := h1
        simp only [Option.some.injEq, Prod.mk.injEq] at h1'
        obtain ⟨rfl, rfl⟩ := h1'
        have hfin : ∀ a ∈ cl.attempts, a.fin.isSome = true := by
          intro a haa
          obtain ⟨tf, htf, _⟩ := h4.1.2 a haa
          simp [htf]
        exact resolve_pack (now := now) ha hr hl
          { popMsg cl m rest with firstErr := primaryErr m kd cl.firstErr, errors := cl.errors + 1 } rfl rfl
          (.allFailed ((primaryErr m kd cl.firstErr).getD (kd, m.k)).1 ((primaryErr m kd cl.firstErr).getD (kd, m.k)).2)
          rfl (fun v hv => by cases hv) (fun _ => hfin)
      · rename_i hmax
        refine ih _ rfl hp ?_ (ha.congr rfl rfl rfl) (hr.pop hc hmne _ rfl rfl rfl rfl)
        refine ⟨h.st.congr rfl rfl rfl, ChanInv_pop_err h.ch hc hl hm _ _ ?_ ?_, ⟨h.rs.noRes, h.rs.res⟩⟩
        · intro _; exact ⟨rfl, by omega⟩
        · intro hq
          have hq' : cl.phase = .drain := hq
          rw [hp] at hq'; cases hq'
    · rename_i h1 h2
      obtain ⟨_, _, hsend⟩ := h.ch.chanMem m (by rw [hc]; simp)
      rcases sendable_cases hsend with q | ⟨kd, q⟩
      · exact absurd q h1
      · exact absurd q (h2 kd)

theorem WB_recvDrain (now c : Nat) (tr : List (Nat × Ev)) : ∀ (msgs : List Attempt) (cl : Call),
    cl.chan = msgs → cl.phase = .drain → AB c tr cl → RB c tr cl →
    AB c (tr ++ stamp now (recvDrain now c msgs cl).2) (recvDrain now c msgs cl).1 ∧
    RB c (tr ++ stamp now (recvDrain now c msgs cl).2) (recvDrain now c msgs cl).1 ∧
    ∀ e ∈ (recvDrain now c msgs cl).2, evOK c e := by
  intro msgs
  induction msgs with
  | nil =>
    intro cl _ hp ha hr
    have hl : live cl.phase = true := by rw [hp]; rfl
    unfold recvDrain
    split
    · rename_i hall
      have hfin : ∀ a ∈ cl.attempts, a.fin.isSome = true := fun a haa => (List.all_eq_true.mp hall) a haa
      split
      · rename_i e _
        exact resolve_pack (now := now) ha hr hl cl rfl rfl (.allFailed e.1 e.2) rfl (fun v hv => by cases hv)
          (fun _ => hfin)
      · exact resolve_pack (now := now) ha hr hl cl rfl rfl .panic rfl (fun v hv => by cases hv) (fun _ => hfin)
    · exact ⟨by simpa [stamp] using ha, by simpa [stamp] using hr, by simp⟩
  | cons m rest ih =>
    intro cl hc hp ha hr
    have hl : live cl.phase = true := by rw [hp]; rfl
    unfold recvDrain
    split
    · rename_i hok
      exact resolve_pack (now := now) ha hr hl (popMsg cl m rest) rfl rfl (.ok m.k) rfl
        (fun v hv => by cases hv; exact okDones_head hr hc hl hok) (fun hno => absurd rfl (hno m.k))
    · rename_i kd herr
      have hmne : m.out ≠ .ok := by rw [herr]; simp
      exact ih _ rfl hp (ha.congr rfl rfl rfl) (hr.pop hc hmne _ rfl rfl rfl rfl)
    · rename_i h1 _
      exact ih _ rfl hp (ha.congr rfl rfl rfl) (hr.pop hc h1 _ rfl rfl rfl rfl)

/-! ### starting hedges, the phases of a poll -/

theorem WB.setHedge {c now : Nat} {tr0 : List (Nat × Ev)} {w : W} (h : WB c now tr0 w) (t : Nat) :
    WB c now tr0 { w with cl := { w.cl with nextHedgeAt := t } } :=
  ⟨h.ab.congr rfl rfl rfl, h.rb.congr rfl rfl rfl rfl, h.ok⟩

theorem WB_spawnLat {cfg : Cfg} {c now : Nat} {tr0 : List (Nat × Ev)} : ∀ (fuel : Nat) (w : W),
    WB c now tr0 w → w.cl.phase = .latency → WB c now tr0 (spawnLat cfg now c fuel w) := by
  intro fuel
  induction fuel with
  | zero => intro w h _; exact h
  | succ fuel ih =>
    intro w h hp
    unfold spawnLat
    split
    · have hl : live w.cl.phase = true := by rw [hp]; rfl
      have h1 := WB_startAttempt (c := c) (now := now) h hl
      have hp1 : (startAttempt now c w).cl.phase = .latency := by rw [startAttempt_phase, hp]
      dsimp only
      split
      · exact ih _ (h1.setHedge _) hp1
      · exact ih _ h1 hp1
    · exact h

theorem WB_startN {c now : Nat} {tr0 : List (Nat × Ev)} : ∀ (n : Nat) (w : W),
    WB c now tr0 w → live w.cl.phase = true → WB c now tr0 (startN now c n w) := by
  intro n
  induction n with
  | zero => intro w h _; exact h
  | succ n ih =>
    intro w h hl
    unfold startN
    exact ih _ (WB_startAttempt h hl) (by rw [startAttempt_phase]; exact hl)

/-- no attempt yet: no successful completion in the trace -/
theorem okDones_nil_of_AB {c : Nat} {tr : List (Nat × Ev)} {cl : Call} (h : AB c tr cl) (ha : cl.attempts = []) :
    okDones c tr = [] := by
  unfold okDones
  apply List.filterMap_eq_nil_iff.mpr
  intro x hx
  unfold okOf
  split
  · rename_i c' k he
    split
    · rename_i hc
      subst hc
      have hm : (x.1, Ev.innerDone c' k .ok) ∈ tr := by rw [← he]; exact hx
      obtain ⟨a, haa, _⟩ := h.logDone _ _ _ hm
      rw [ha] at haa; cases haa
    · rfl
  · rfl

/-- the first poll leaves the `fresh` phase -/
theorem WB.setPhase {c now : Nat} {tr0 : List (Nat × Ev)} {w : W} (h : WB c now tr0 w) (hp : w.cl.phase = .fresh)
    (p : Phase) (t : Nat) (hpl : live p = true) :
    WB c now tr0 { w with cl := { w.cl with phase := p, nextHedgeAt := t } } := by
  obtain ⟨ha, hc⟩ := h.rb.fresh hp
  have hres : w.cl.result = none := h.rb.noRes (by rw [hp]; simp)
  refine ⟨h.ab.congr rfl rfl rfl, ?_, h.ok⟩
  constructor
  · exact h.rb.res
  · intro _; exact hres
  · intro _
    show okDones c _ = (w.cl.chan.filter _).map _
    rw [okDones_nil_of_AB h.ab ha, hc]; rfl
  · intro hq
    have hq' : p = .fresh := hq
    rw [hq'] at hpl; cases hpl
  · exact h.rb.okRes

theorem WB_pollFresh {cfg : Cfg} {c now : Nat} {tr0 : List (Nat × Ev)} {w : W} (h : WB c now tr0 w)
    (hp : w.cl.phase = .fresh) : WB c now tr0 (pollFresh cfg now c w) := by
  unfold pollFresh
  split
  · exact WB_startAttempt (h.setPhase hp .latency _ rfl) rfl
  · have h0 : WB c now tr0 { w with cl := { w.cl with phase := .drain } } := by
      have := h.setPhase hp .drain w.cl.nextHedgeAt rfl
      exact this
    exact WB_startN _ _ (WB_startAttempt h0 rfl) (by rw [startAttempt_phase]; rfl)

theorem WB_pollCall {cfg : Cfg} {c now : Nat} {tr0 : List (Nat × Ev)} {w : W} (h : WB c now tr0 w)
    (hi : CallInv cfg now w.cl) : WB c now tr0 (pollCall cfg now c w) := by
  unfold pollCall
  split
  · rename_i hp; exact WB_pollFresh h hp
  · rename_i hp
    unfold pollLatency
    dsimp only
    obtain ⟨a1, r1, o1⟩ := WB_recvLat cfg now c (tr0 ++ stamp now w.evs) w.cl.chan w.cl rfl hp hi h.ab h.rb
    have h' : WB c now tr0 { w with cl := (recvLat cfg now c w.cl.chan w.cl).1,
                                    evs := w.evs ++ (recvLat cfg now c w.cl.chan w.cl).2 } := by
      refine ⟨?_, ?_, ?_⟩
      · show AB c (tr0 ++ stamp now (w.evs ++ _)) _
        rw [stamp_append, ← List.append_assoc]; exact a1
      · show RB c (tr0 ++ stamp now (w.evs ++ _)) _
        rw [stamp_append, ← List.append_assoc]; exact r1
      · intro e he
        rcases List.mem_append.mp he with q | q
        · exact h.ok e q
        · exact o1 e q
    split
    · rename_i hq; exact WB_spawnLat _ _ h' hq
    · exact h'
  · rename_i hp
    unfold pollDrain
    dsimp only
    obtain ⟨a1, r1, o1⟩ := WB_recvDrain now c (tr0 ++ stamp now w.evs) w.cl.chan w.cl rfl hp h.ab h.rb
    refine ⟨?_, ?_, ?_⟩
    · show AB c (tr0 ++ stamp now (w.evs ++ _)) _
      rw [stamp_append, ← List.append_assoc]; exact a1
    · show RB c (tr0 ++ stamp now (w.evs ++ _)) _
      rw [stamp_append, ← List.append_assoc]; exact r1
    · intro e he
      rcases List.mem_append.mp he with q | q
      · exact h.ok e q
      · exact o1 e q
  · exact h

/-! ## all requests of a state -/

/-- no line of the trace is about request `c` -/
def Quiet (c : Nat) (tr : List (Nat × Ev)) : Prop := ∀ x ∈ tr, isCD c x.2 = false ∧ isRO c x.2 = false

structure SB (s : State) (tr : List (Nat × Ev)) : Prop where
  some : ∀ c cl, lookup s.calls c = some cl → AB c tr cl ∧ RB c tr cl
  none : ∀ c, lookup s.calls c = none → Quiet c tr
  nodup : (keys s.calls).Nodup

/-- lines that are not about `c` -/
def Other (c : Nat) (new : List (Nat × Ev)) : Prop := ∀ x ∈ new, isCD c x.2 = false ∧ isRO c x.2 = false

theorem Other.of_evOK {c c' now : Nat} {evs : List Ev} (h : ∀ e ∈ evs, evOK c' e) (hne : c ≠ c') :
    Other c (stamp now evs) := by
  intro x hx
  exact evOK_other (h x.2 (mem_stamp.mp hx).2) hne

theorem Other.nil (c : Nat) : Other c [] := fun _ hx => nomatch hx

theorem Other.append {c : Nat} {a b : List (Nat × Ev)} (ha : Other c a) (hb : Other c b) : Other c (a ++ b) := by
  intro x hx
  rcases List.mem_append.mp hx with q | q
  · exact ha x q
  · exact hb x q

theorem AB.other {c : Nat} {tr : List (Nat × Ev)} {cl : Call} (h : AB c tr cl) {new : List (Nat × Ev)}
    (hn : Other c new) : AB c (tr ++ new) cl := h.frame new (fun x hx => (hn x hx).1)
theorem RB.other {c : Nat} {tr : List (Nat × Ev)} {cl : Call} (h : RB c tr cl) {new : List (Nat × Ev)}
    (hn : Other c new) : RB c (tr ++ new) cl := h.frame new (fun x hx => (hn x hx).2)
theorem Quiet.other {c : Nat} {tr : List (Nat × Ev)} (h : Quiet c tr) {new : List (Nat × Ev)}
    (hn : Other c new) : Quiet c (tr ++ new) := by
  intro x hx
  rcases List.mem_append.mp hx with q | q
  · exact h x q
  · exact hn x q

/-- a request that has just arrived, in a trace that does not mention it -/
theorem bridge_new {c : Nat} {tr : List (Nat × Ev)} (h : Quiet c tr) (plan : List Step) (warm : List Ready) :
    AB c tr { plan := plan, warm := warm } ∧ RB c tr { plan := plan, warm := warm } := by
  refine ⟨⟨?_, ?_, ?_, ?_, ?_, ?_, rfl⟩, ⟨?_, ?_, ?_, ?_, ?_⟩⟩
  · intro a ha; cases ha
  · intro t k o hx; have := (h _ hx).1; simp [isCD] at this
  · intro a ha; cases ha
  · intro t k hx; have := (h _ hx).1; simp [isCD] at this
  · intro _
    refine ⟨(fun a ha => nomatch ha), ?_⟩
    rw [callPairs_nil_of (fun x hx => (h x hx).1)]; rfl
  · intro t r hr; cases hr
  · rw [callResults_nil_of (fun x hx => (h x hx).2)]; rfl
  · intro _; rfl
  · intro hl; cases hl
  · intro _; exact ⟨rfl, rfl⟩
  · intro t v hr; cases hr

theorem SB_setCall {s : State} {tr : List (Nat × Ev)} (h : SB s tr) {c : Nat} {cl v : Call}
    (hl : lookup s.calls c = some cl) (new : List (Nat × Ev))
    (hv : AB c (tr ++ new) v ∧ RB c (tr ++ new) v) (ho : ∀ c', c' ≠ c → Other c' new)
    (s' : State) (hs : s'.calls = setCall s.calls c v) : SB s' (tr ++ new) := by
  constructor
  · intro c' cl' hl'
    rw [hs, lookup_setCall] at hl'
    by_cases hc : c' = c
    · subst hc
      rw [if_pos rfl, hl] at hl'
      simp only [Option.map_some, Option.some.injEq] at hl'
      subst hl'; exact hv
    · rw [if_neg hc] at hl'
      obtain ⟨a, r⟩ := h.some c' cl' hl'
      exact ⟨a.other (ho c' hc), r.other (ho c' hc)⟩
  · intro c' hl'
    rw [hs, lookup_setCall] at hl'
    by_cases hc : c' = c
    · subst hc; rw [if_pos rfl, hl] at hl'; simp at hl'
    · rw [if_neg hc] at hl'
      exact (h.none c' hl').other (ho c' hc)
  · rw [hs, keys_setCall]; exact h.nodup

/-- what one step does to the log and to the bridge: it appends events, each on behalf of some request, stamped with
the instant it leads to -/
def StepOK (s : State) (tr : List (Nat × Ev)) (s' : State) : Prop :=
  ∃ E, s'.log = s.log ++ E ∧ SB s' (tr ++ stamp s'.now E) ∧ ∀ e ∈ E, ∃ c, evOK c e

theorem StepOK.same {s : State} {tr : List (Nat × Ev)} (h : SB s tr) : StepOK s tr s :=
  ⟨[], by simp, by simpa [stamp] using h, fun _ he => nomatch he⟩

theorem pollS_ok {cfg : Cfg} {s : State} {tr : List (Nat × Ev)} (c : Nat) (h : SB s tr) (hi : Inv cfg s) :
    StepOK s tr (pollS cfg s c) ∧ (pollS cfg s c).now = s.now := by
  unfold pollS
  split
  · exact ⟨StepOK.same h, rfl⟩
  · rename_i cl hl
    refine ⟨?_, rfl⟩
    obtain ⟨c', hm⟩ := lookup_mem hl
    obtain ⟨a0, r0⟩ := h.some c cl hl
    have w0 : WB c s.now tr { cl := cl, serial := s.serial } :=
      ⟨by simpa [stamp] using a0, by simpa [stamp] using r0, fun _ he => nomatch he⟩
    have w1 := WB_pollCall (cfg := cfg) w0 (hi _ hm)
    refine ⟨(pollCall cfg s.now c { cl := cl, serial := s.serial }).evs, rfl, ?_, fun e he => ⟨c, w1.ok e he⟩⟩
    exact SB_setCall h hl _ ⟨w1.ab, w1.rb⟩ (fun c' hc => Other.of_evOK w1.ok hc) _ rfl

theorem readyOne_ok {s : State} {tr : List (Nat × Ev)} (c i : Nat) (h : SB s tr) :
    StepOK s tr (readyOne s c i) := by
  unfold readyOne
  split
  · exact StepOK.same h
  · rename_i cl hl
    obtain ⟨a0, r0⟩ := h.some c cl hl
    have w0 : WB c s.now tr { cl := cl, serial := s.serial } :=
      ⟨by simpa [stamp] using a0, by simpa [stamp] using r0, fun _ he => nomatch he⟩
    have w1 := WB_readyCall (i := i) w0
    refine ⟨(readyCall s.now c i { cl := cl, serial := s.serial }).evs, rfl, ?_, fun e he => ⟨c, w1.ok e he⟩⟩
    exact SB_setCall h hl _ ⟨w1.ab, w1.rb⟩ (fun c' hc => Other.of_evOK w1.ok hc) _ rfl

theorem dropS_ok {s : State} {tr : List (Nat × Ev)} (c : Nat) (h : SB s tr) : StepOK s tr (dropS s c) := by
  unfold dropS
  split
  · exact StepOK.same h
  · rename_i cl hl
    obtain ⟨a0, r0⟩ := h.some c cl hl
    refine ⟨[], by simp, ?_, fun _ he => nomatch he⟩
    have hd : AB c (tr ++ []) (dropCall cl) ∧ RB c (tr ++ []) (dropCall cl) := by
      rw [List.append_nil]
      unfold dropCall
      split
      · exact ⟨a0, r0⟩
      · rename_i hnd
        refine ⟨a0.congr rfl rfl rfl, ?_⟩
        exact ⟨r0.res, fun _ => r0.noRes hnd, (fun hq => nomatch hq), (fun hq => nomatch hq), r0.okRes⟩
    have := SB_setCall h hl [] hd (fun c' _ => Other.nil c') { s with calls := setCall s.calls c (dropCall cl) } rfl
    simpa [stamp] using this

theorem arriveS_ok {s : State} {tr : List (Nat × Ev)} (c : Nat) (plan : List Step) (warm : List Ready)
    (h : SB s tr) : StepOK s tr (arriveS s c plan warm) := by
  unfold arriveS
  split
  · exact StepOK.same h
  · rename_i hn
    have hnone : lookup s.calls c = none := by
      cases hl : lookup s.calls c with
      | none => rfl
      | some v => rw [hl] at hn; simp at hn
    refine ⟨[], by simp, ?_, fun _ he => nomatch he⟩
    show SB _ (tr ++ stamp _ [])
    rw [show stamp s.now [] = [] from rfl, List.append_nil]
    constructor
    · intro c' cl' hl'
      have hl'' : lookup (s.calls ++ [(c, { plan := plan, warm := warm })]) c' = some cl' := hl'
      cases hq : lookup s.calls c' with
      | some v =>
        rw [lookup_append_some hq] at hl''
        cases hl''; exact h.some c' _ hq
      | none =>
        rw [lookup_append_none hq, lookup_cons] at hl''
        by_cases hc : c = c'
        · subst hc
          rw [if_pos rfl] at hl''
          cases hl''
          exact bridge_new (h.none c hnone) plan warm
        · rw [if_neg hc] at hl''; simp [lookup] at hl''
    · intro c' hl'
      have hl'' : lookup (s.calls ++ [(c, { plan := plan, warm := warm })]) c' = none := hl'
      cases hq : lookup s.calls c' with
      | some v => rw [lookup_append_some hq] at hl''; cases hl''
      | none => exact h.none c' hq
    · have := keys_nodup_stepS (cfg := { max := 1, delay := fun _ => 0 }) (.arrive c plan warm) h.nodup
      have e : stepS { max := 1, delay := fun _ => 0 } s (.arrive c plan warm)
          = { s with calls := s.calls ++ [(c, { plan := plan, warm := warm })] } := by
        show arriveS s c plan warm = _
        unfold arriveS; rw [if_neg hn]
      rw [e] at this; exact this

theorem lookup_split {l : List (Nat × Call)} {c : Nat} {v : Call} (h : lookup l c = some v) :
    ∃ l1 l2, l = l1 ++ (c, v) :: l2 ∧ c ∉ keys l1 := by
  induction l with
  | nil => simp [lookup] at h
  | cons p tl ih =>
    obtain ⟨k, x⟩ := p
    rw [lookup_cons] at h
    by_cases hk : k = c
    · subst hk
      rw [if_pos rfl] at h; cases h
      exact ⟨[], tl, rfl, by simp [keys]⟩
    · rw [if_neg hk] at h
      obtain ⟨l1, l2, e, hn⟩ := ih h
      refine ⟨(k, x) :: l1, l2, by rw [e]; rfl, ?_⟩
      simp only [keys, List.map_cons, List.mem_cons, not_or]
      exact ⟨fun e => hk e.symm, hn⟩

/-- the completions of requests other than `c` -/
theorem finish_other (now k c : Nat) (l : List (Nat × Call)) (hc : c ∉ keys l) :
    Other c (stamp now (l.flatMap (fun p => (finishCall now k p.1 p.2).2))) := by
  intro x hx
  obtain ⟨_, he⟩ := mem_stamp.mp hx
  obtain ⟨p, hp, hep⟩ := List.mem_flatMap.mp he
  have hne : c ≠ p.1 := by
    intro e; apply hc; rw [e]; exact List.mem_map.mpr ⟨p, hp, rfl⟩
  exact evOK_other (finishCall_evOK now k p.1 p.2 x.2 hep) hne

theorem finishOne_ok {s : State} {tr : List (Nat × Ev)} (k : Nat) (h : SB s tr) : StepOK s tr (finishOne s k) := by
  refine ⟨s.calls.flatMap (fun p => (finishCall s.now k p.1 p.2).2), rfl, ?_, ?_⟩
  · show SB (finishOne s k) (tr ++ stamp s.now _)
    constructor
    · intro c cl' hl'
      have hl'' : lookup (s.calls.map (fun p => (p.1, (finishCall s.now k p.1 p.2).1))) c = some cl' := hl'
      rw [lookup_map_snd s.calls (fun c cl => (finishCall s.now k c cl).1) c] at hl''
      cases hq : lookup s.calls c with
      | none => rw [hq] at hl''; cases hl''
      | some cl =>
        rw [hq] at hl''
        simp only [Option.map_some, Option.some.injEq] at hl''
        subst hl''
        obtain ⟨l1, l2, e, hn1⟩ := lookup_split hq
        have hn2 : c ∉ keys l2 := by
          have := h.nodup
          rw [e] at this
          simp only [keys, List.map_append, List.map_cons] at this
          have := (List.nodup_append.mp this).2.1
          exact (List.nodup_cons.mp this).1
        obtain ⟨a0, r0⟩ := h.some c cl hq
        have o1 := finish_other s.now k c l1 hn1
        have o2 := finish_other s.now k c l2 hn2
        have hE : tr ++ stamp s.now (s.calls.flatMap (fun p => (finishCall s.now k p.1 p.2).2))
            = ((tr ++ stamp s.now (l1.flatMap (fun p => (finishCall s.now k p.1 p.2).2)))
                ++ stamp s.now (finishCall s.now k c cl).2)
                ++ stamp s.now (l2.flatMap (fun p => (finishCall s.now k p.1 p.2).2)) := by
          rw [e]; simp [stamp_append, List.flatMap_append, List.flatMap_cons]
        rw [hE]
        exact ⟨(AB_finishCall k (a0.other o1)).other o2, (RB_finishCall k (r0.other o1)).other o2⟩
    · intro c hl'
      have hl'' : lookup (s.calls.map (fun p => (p.1, (finishCall s.now k p.1 p.2).1))) c = none := hl'
      rw [lookup_map_snd s.calls (fun c cl => (finishCall s.now k c cl).1) c] at hl''
      have hq : lookup s.calls c = none := by
        cases hq : lookup s.calls c with
        | none => rfl
        | some v => rw [hq] at hl''; cases hl''
      exact (h.none c hq).other (finish_other s.now k c s.calls ((lookup_none_iff _ _).mp hq))
    · rw [keys_finishOne]; exact h.nodup
  · intro e he
    obtain ⟨p, _, hep⟩ := List.mem_flatMap.mp he
    exact ⟨p.1, finishCall_evOK s.now k p.1 p.2 e hep⟩

theorem fireOne_now (s : State) (f : Fire) : (fireOne s f).now = s.now := by
  cases f with
  | done k => rfl
  | rdy c i => exact readyOne_now s c i

theorem foldl_fireOne_now (ks : List Fire) : ∀ s : State, (ks.foldl fireOne s).now = s.now := by
  induction ks with
  | nil => intro s; rfl
  | cons k tl ih => intro s; rw [List.foldl_cons, ih, fireOne_now]

theorem fireOne_ok {s : State} {tr : List (Nat × Ev)} (f : Fire) (h : SB s tr) : StepOK s tr (fireOne s f) := by
  cases f with
  | done k => exact finishOne_ok k h
  | rdy c i => exact readyOne_ok c i h

theorem StepOK.trans {s s1 s2 : State} {tr : List (Nat × Ev)} (h1 : StepOK s tr s1)
    (h2 : ∀ tr1, SB s1 tr1 → StepOK s1 tr1 s2) (hn : s2.now = s1.now) : StepOK s tr s2 := by
  obtain ⟨E1, l1, b1, o1⟩ := h1
  obtain ⟨E2, l2, b2, o2⟩ := h2 _ b1
  refine ⟨E1 ++ E2, by rw [l2, l1, List.append_assoc], ?_, ?_⟩
  · rw [stamp_append, ← List.append_assoc, hn]
    rw [hn] at b2; exact b2
  · intro e he
    rcases List.mem_append.mp he with q | q
    · exact o1 e q
    · exact o2 e q

theorem foldl_fireOne_ok (ks : List Fire) : ∀ (s : State) (tr : List (Nat × Ev)), SB s tr →
    StepOK s tr (ks.foldl fireOne s) := by
  induction ks with
  | nil => intro s tr h; exact StepOK.same h
  | cons k tl ih =>
    intro s tr h
    exact (fireOne_ok k h).trans (fun tr1 b1 => ih _ tr1 b1) (foldl_fireOne_now tl _)

theorem advS_ok {s : State} {tr : List (Nat × Ev)} (ms : Nat) (order : List Fire) (h : SB s tr) :
    StepOK s tr (advS s ms order) := by
  have h0 : SB { s with now := s.now + ms } tr := ⟨h.some, h.none, h.nodup⟩
  unfold advS
  dsimp only
  split
  · obtain ⟨E, l, b, o⟩ := foldl_fireOne_ok order _ tr h0
    exact ⟨E, l, b, o⟩
  · have h1 : StepOK s tr { s with now := s.now + ms, log := s.log ++ [Ev.raw "choice-not-allowed"] } := by
      refine ⟨[Ev.raw "choice-not-allowed"], rfl, ?_, fun e he => ⟨0, by simp at he; subst he; trivial⟩⟩
      have ho : ∀ c, Other c (stamp (s.now + ms) [Ev.raw "choice-not-allowed"]) := by
        intro c x hx; simp [stamp] at hx; subst hx; exact ⟨rfl, rfl⟩
      exact ⟨fun c cl hl => ⟨(h.some c cl hl).1.other (ho c), (h.some c cl hl).2.other (ho c)⟩,
        fun c hl => (h.none c hl).other (ho c), h.nodup⟩
    exact h1.trans (fun tr1 b1 => foldl_fireOne_ok _ _ tr1 b1) (foldl_fireOne_now _ _)

/-- every operation but a refusal: the bridge is kept, every new event is on behalf of some request (so no
`HedgeError::Inner` result among them) -/
theorem stepS_ok {cfg : Cfg} {s : State} {tr : List (Nat × Ev)} (op : Op) (h : SB s tr) (hi : Inv cfg s)
    (hop : ∀ c k v, op ≠ .refused c k v) : StepOK s tr (stepS cfg s op) := by
  cases op with
  | arrive c plan warm => exact arriveS_ok c plan warm h
  | poll c => exact (pollS_ok c h hi).1
  | drop c => exact dropS_ok c h
  | adv ms order => exact advS_ok ms order h
  | refused c k v => exact absurd rfl (hop c k v)

theorem refused_ok {cfg : Cfg} {s : State} {tr : List (Nat × Ev)} (c k v : Nat) (h : SB s tr) :
    SB (stepS cfg s (.refused c k v)) (tr ++ [(s.now, Ev.result c (.inner k v))]) := by
  have ho : ∀ c', Other c' [(s.now, Ev.result c (.inner k v))] := by
    intro c' x hx; simp at hx; subst hx; exact ⟨rfl, by simp [isRO, nonInner]⟩
  exact ⟨fun c' cl hl => ⟨(h.some c' cl hl).1.other (ho c'), (h.some c' cl hl).2.other (ho c')⟩,
    fun c' hl => (h.none c' hl).other (ho c'), h.nodup⟩

/-- the new events of a step, given what it appends to the log -/
theorem stamp_new (cfg : Cfg) (s : State) (op : Op) (E : List Ev) (h : (stepS cfg s op).log = s.log ++ E) :
    stamp (stepS cfg s op).now (newEvents cfg s op) = stamp (stepS cfg s op).now E := by
  rw [newEvents_of_log cfg s op E h]

/-- **the bridge holds in every reachable state**, for the trace as the driver prints it -/
theorem bridge_reachable (cfg : Cfg) (hmax : 1 ≤ cfg.max) (ops : List Op) : SB (run cfg ops) (trace cfg ops) := by
  induction ops using snoc_induction with
  | h0 => exact ⟨(fun c cl hl => nomatch hl), (fun c _ x hx => nomatch hx), List.nodup_nil⟩
  | hs l op ih =>
    rw [run_snoc, trace_snoc]
    by_cases hop : ∃ c k v, op = .refused c k v
    · obtain ⟨c, k, v, rfl⟩ := hop
      have : newEvents cfg (run cfg l) (.refused c k v) = [Ev.result c (.inner k v)] :=
        newEvents_of_log _ _ _ _ rfl
      rw [this]
      exact refused_ok c k v ih
    · have hop' : ∀ c k v, op ≠ .refused c k v := fun c k v e => hop ⟨c, k, v, e⟩
      obtain ⟨E, hl, hb, _⟩ := stepS_ok (cfg := cfg) op ih (inv_reachable cfg hmax l) hop'
      rw [stamp_new cfg _ op E hl]; exact hb

end TR.Hedge
