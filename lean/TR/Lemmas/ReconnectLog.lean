import TR.Lemmas.Reconnect
import TR.Lemmas.ReconnectHistory
import TR.Lemmas.ReconnectEntry
/-!
# Reconnect (C16): the timestamped event log

`Shared.tlog` is the event log with the instant of every line — what the driver prints (`t=<now> <event>`) and the
correspondence check compares with the implementation's log. This file states, over that log alone, what every line
must satisfy with respect to the lines before it (`EvOK`), proves that every reachable log is well formed (`WFT`,
`logInv_reachable`), and ties the ghost variables of the model to the log (`Tied`: the ghost list `calls` IS the list
of `inner_call` lines of the request, with instants and serials, in order; a request that is calling / backing off has
the corresponding `inner_call` / `inner_done` line as its latest line).

* `owner`, `isMine c`, `lastMine c T` — the lines of request `c` (`inner_call c _`, `inner_done c _ _`, `inner_drop c _`,
  `result c _`) and the latest of them in `T`;
* `pubOf cfg log` — the published connection state (`Connected` / `Disconnected` / `Reconnecting`) as a function of the
  log;
* `EvOK cfg pre t e` — line `(t, e)` is justified by the lines `pre` before it:
  a **retry** (`inner_call c _` when `c` has lines already) directly follows an `inner_done c k err<kd>` whose error the
  predicate accepts, with `retry_on_reconnect`, attempts left, and not before `done instant + delay` for a delay the
  policy allows for that attempt; an `inner_done c k _` / `inner_drop c k` directly follows `inner_call c k`;
  a `result c r` wraps the latest `inner_done` line of `c` with the variant that the configuration and the number of
  `inner_call` lines dictate; a `probe state = x` reports `pubOf` of the lines before it; instants never decrease.
-/
namespace TR.Reconnect

/-! ## lines of one request -/

/-- the request an event belongs to -/
def owner : REv → Option Nat
  | .call c _ => some c
  | .done c _ _ => some c
  | .dropped c _ => some c
  | .result c _ => some c
  | _ => none

/-- the line belongs to request `x` -/
def isMine (x : Nat) (l : Nat × REv) : Bool := owner l.2 == some x

/-- the line is an `inner_call` of request `x` -/
def isCallLine (x : Nat) (l : Nat × REv) : Bool := isCallOf x l.2

/-- the latest line of request `x` -/
def lastMine (x : Nat) (T : List (Nat × REv)) : Option (Nat × REv) := (T.filter (isMine x)).getLast?

/-- the `inner_call` lines of request `x`, in order -/
def callLines (x : Nat) (T : List (Nat × REv)) : List (Nat × REv) := T.filter (isCallLine x)

/-- number of `inner_call x _` lines -/
def callsInT (x : Nat) (T : List (Nat × REv)) : Nat := T.countP (isCallLine x)

theorem callsInT_eq_length (x : Nat) (T : List (Nat × REv)) : callsInT x T = (callLines x T).length := by
  simp [callsInT, callLines, List.countP_eq_length_filter]

theorem callsInT_map (x : Nat) (T : List (Nat × REv)) : callsIn x (T.map Prod.snd) = callsInT x T := by
  simp only [callsIn, callsInT, List.countP_map]
  rfl

theorem isCallLine_isMine {x : Nat} {l : Nat × REv} (h : isCallLine x l = true) : isMine x l = true := by
  obtain ⟨t, e⟩ := l
  cases e <;> simp [isCallLine, isCallOf, isMine, owner] at h ⊢
  exact h

@[simp] theorem lastMine_nil (x : Nat) : lastMine x [] = none := rfl

theorem lastMine_snoc (x : Nat) (T : List (Nat × REv)) (l : Nat × REv) :
    lastMine x (T ++ [l]) = if isMine x l = true then some l else lastMine x T := by
  unfold lastMine
  rw [List.filter_append]
  by_cases h : isMine x l = true
  · simp [List.filter, h]
  · have h' : isMine x l = false := by simpa using h
    simp [List.filter, h']

theorem lastMine_append_none (x : Nat) (T U : List (Nat × REv)) (h : ∀ l ∈ U, isMine x l = false) :
    lastMine x (T ++ U) = lastMine x T := by
  unfold lastMine
  rw [List.filter_append]
  have : U.filter (isMine x) = [] := by
    rw [List.filter_eq_nil_iff]
    intro l hl
    simp [h l hl]
  rw [this, List.append_nil]

theorem callLines_snoc (x : Nat) (T : List (Nat × REv)) (l : Nat × REv) :
    callLines x (T ++ [l]) = if isCallLine x l = true then callLines x T ++ [l] else callLines x T := by
  unfold callLines
  rw [List.filter_append]
  by_cases h : isCallLine x l = true
  · simp [List.filter, h]
  · have h' : isCallLine x l = false := by simpa using h
    simp [List.filter, h']

theorem callLines_append_none (x : Nat) (T U : List (Nat × REv)) (h : ∀ l ∈ U, isMine x l = false) :
    callLines x (T ++ U) = callLines x T := by
  unfold callLines
  rw [List.filter_append]
  have : U.filter (isCallLine x) = [] := by
    rw [List.filter_eq_nil_iff]
    intro l hl hc
    have := isCallLine_isMine hc
    rw [h l hl] at this
    simp at this
  rw [this, List.append_nil]

theorem callLines_append_nocall (x : Nat) (T U : List (Nat × REv)) (h : ∀ l ∈ U, isCallLine x l = false) :
    callLines x (T ++ U) = callLines x T := by
  unfold callLines
  rw [List.filter_append]
  have : U.filter (isCallLine x) = [] := by
    rw [List.filter_eq_nil_iff]
    intro l hl
    simp [h l hl]
  rw [this, List.append_nil]

theorem lastMine_none_iff (x : Nat) (T : List (Nat × REv)) :
    lastMine x T = none ↔ ∀ l ∈ T, isMine x l = false := by
  unfold lastMine
  rw [List.getLast?_eq_none_iff, List.filter_eq_nil_iff]
  constructor
  · intro h l hl; simpa using h l hl
  · intro h l hl; simp [h l hl]

theorem lastMine_mem {x : Nat} {T : List (Nat × REv)} {l : Nat × REv} (h : lastMine x T = some l) :
    l ∈ T ∧ isMine x l = true := by
  unfold lastMine at h
  have := List.mem_of_getLast? h
  simpa using this

/-- the latest line of `x` splits the log: nothing of `x` comes after it -/
theorem lastMine_split {x : Nat} : ∀ {T : List (Nat × REv)} {l : Nat × REv}, lastMine x T = some l →
    ∃ a b, T = a ++ l :: b ∧ ∀ y ∈ b, isMine x y = false := by
  intro T
  induction T with
  | nil => intro l h; simp at h
  | cons hd tl ih =>
    intro l h
    cases htl : lastMine x tl with
    | some l' =>
      have e : lastMine x (hd :: tl) = some l' := by
        have := lastMine_mem htl
        unfold lastMine at htl ⊢
        by_cases hm : isMine x hd = true
        · rw [List.filter_cons_of_pos hm, List.getLast?_cons]
          rw [htl]; rfl
        · rw [List.filter_cons_of_neg hm]; exact htl
      rw [e] at h
      cases h
      obtain ⟨a, b, hab, hb⟩ := ih htl
      exact ⟨hd :: a, b, by rw [hab]; rfl, hb⟩
    | none =>
      have hno := (lastMine_none_iff x tl).1 htl
      have hfil : tl.filter (isMine x) = [] := by
        rw [List.filter_eq_nil_iff]; intro y hy; simp [hno y hy]
      unfold lastMine at h
      by_cases hm : isMine x hd = true
      · rw [List.filter_cons_of_pos hm, hfil] at h
        simp at h
        subst h
        exact ⟨[], tl, rfl, hno⟩
      · rw [List.filter_cons_of_neg hm, hfil] at h
        simp at h

theorem lastMine_of_split {x : Nat} {a b : List (Nat × REv)} {l : Nat × REv} (hl : isMine x l = true)
    (hb : ∀ y ∈ b, isMine x y = false) : lastMine x (a ++ l :: b) = some l := by
  have : a ++ l :: b = (a ++ [l]) ++ b := by simp
  rw [this, lastMine_append_none x _ b hb, lastMine_snoc, if_pos hl]

/-! ## the published state as a function of the log -/

/-- effect of one event on the published connection state -/
def pubStep (cfg : Cfg) (x : Conn) : REv → Conn
  | .done _ _ (.err kd) => if cfg.reconn kd = true then .reconnecting else x
  | .result _ (.ok _) => .connected
  | .result _ (.noRetry _ _) => .connected
  | .result _ (.maxAttempts _ _ _) => .disconnected
  | .result _ (.connFailed _ _) => .disconnected
  | .bad => .disconnected
  | _ => x

/-- **the published connection state, computed from the event log alone**: initially `Disconnected`; a reconnectable
inner error that is handled makes it `Reconnecting` — unless the request gives up in the same turn (`MaxAttemptsExceeded`,
`ConnectionFailed` under policy `None`): then `Disconnected`; a success returned to a caller (or the end of the back-off
of a request with `retry_on_reconnect = false`) makes it `Connected`; nothing else changes it -/
def pubOf (cfg : Cfg) (l : List REv) : Conn := l.foldl (pubStep cfg) .disconnected

theorem pubOf_append (cfg : Cfg) (l evs : List REv) :
    pubOf cfg (l ++ evs) = evs.foldl (pubStep cfg) (pubOf cfg l) := by
  simp [pubOf, List.foldl_append]

/-! ## what a line must satisfy with respect to the lines before it -/

/-- a retry of request `c` at `t` is justified by the lines `pre`: the latest line of `c` is an `inner_done` with an error
the predicate accepts, `retry_on_reconnect` is on, attempts are left, and `t` is not before that line's instant plus a
delay that the policy allows for this attempt (the number of `inner_call` lines of `c` so far) -/
def RetryOK (cfg : Cfg) (c : Nat) (pre : List (Nat × REv)) (t : Nat) : Prop :=
  ∃ t1 k1 kd d, lastMine c pre = some (t1, .done c k1 (.err kd)) ∧ cfg.reconn kd = true ∧ cfg.retry = true ∧
    exceeded cfg (callsInT c pre) = false ∧ cfg.policy.allowed (callsInT c pre) d = true ∧ t1 + ceilMs d ≤ t

/-- a `result c r` line at `t` is justified by the lines `pre` -/
def ResultOK (cfg : Cfg) (c : Nat) (pre : List (Nat × REv)) (t : Nat) : RRes → Prop
  | .ok k => lastMine c pre = some (t, .done c k .ok)
  | .panic => ∃ k, lastMine c pre = some (t, .done c k .panic)
  | .service kd k => lastMine c pre = some (t, .done c k (.err kd)) ∧ cfg.reconn kd = false
  | .maxAttempts n kd k =>
      lastMine c pre = some (t, .done c k (.err kd)) ∧ cfg.reconn kd = true ∧ n = callsInT c pre ∧ exceeded cfg n = true
  | .connFailed kd k =>
      lastMine c pre = some (t, .done c k (.err kd)) ∧ cfg.reconn kd = true ∧ exceeded cfg (callsInT c pre) = false ∧
        cfg.policy.has = false
  | .noRetry kd k =>
      ∃ t1 d, lastMine c pre = some (t1, .done c k (.err kd)) ∧ cfg.reconn kd = true ∧ cfg.retry = false ∧
        exceeded cfg (callsInT c pre) = false ∧ cfg.policy.allowed (callsInT c pre) d = true ∧ t1 + ceilMs d ≤ t
  | .readyErr =>
      pre.getLast? = some (t, .readyErr) ∧ RetryOK cfg c pre t
  | .notReady => lastMine c pre = none

/-- line `(t, e)` is justified by the lines `pre` before it -/
def EvOK (cfg : Cfg) (pre : List (Nat × REv)) (t : Nat) : REv → Prop
  | .call c _ => lastMine c pre = none ∨ RetryOK cfg c pre t
  | .done c k _ => ∃ t0, lastMine c pre = some (t0, .call c k)
  | .dropped c k => ∃ t0, lastMine c pre = some (t0, .call c k)
  | .result c r => ResultOK cfg c pre t r
  | .probe x => x = pubOf cfg (pre.map Prod.snd)
  | _ => True

/-- a well-formed timestamped log: instants never decrease and every line is justified by the lines before it -/
def WFT (cfg : Cfg) (T : List (Nat × REv)) : Prop :=
  ∀ pre t e post, T = pre ++ (t, e) :: post → (∀ l ∈ pre, l.1 ≤ t) ∧ EvOK cfg pre t e

theorem wft_nil (cfg : Cfg) : WFT cfg [] := by
  intro pre t e post h
  simp at h

theorem wft_snoc {cfg : Cfg} {T : List (Nat × REv)} {t : Nat} {e : REv} (h : WFT cfg T) (hs : ∀ l ∈ T, l.1 ≤ t)
    (he : EvOK cfg T t e) : WFT cfg (T ++ [(t, e)]) := by
  intro pre t' e' post hsplit
  rcases List.eq_nil_or_concat post with hp | ⟨post', x, hp⟩
  · subst hp
    have := List.append_inj' hsplit rfl
    obtain ⟨h1, h2⟩ := this
    simp at h2
    obtain ⟨h2, h3⟩ := h2
    subst h1; subst h2; subst h3
    exact ⟨hs, he⟩
  · subst hp
    have e1 : T ++ [(t, e)] = (pre ++ (t', e') :: post') ++ [x] := by
      rw [hsplit]; simp
    have := List.append_inj' e1 rfl
    exact h pre t' e' post' this.1

/-- well-formedness is closed under prefixes -/
theorem wft_prefix {cfg : Cfg} {T U : List (Nat × REv)} (h : WFT cfg (T ++ U)) : WFT cfg T := by
  intro pre t e post hsplit
  exact h pre t e (post ++ U) (by rw [hsplit]; simp)

/-! ## the model's transitions append to the log -/

@[simp] theorem mark_tlog (c : Nat) (x : Conn) (w : Shared) : (mark c x w).tlog = w.tlog := by cases x <;> rfl
@[simp] theorem mark_log (c : Nat) (x : Conn) (w : Shared) : (mark c x w).log = w.log := by cases x <;> rfl
@[simp] theorem mark_now (c : Nat) (x : Conn) (w : Shared) : (mark c x w).now = w.now := by cases x <;> rfl
@[simp] theorem mark_conn (c : Nat) (x : Conn) (w : Shared) : (mark c x w).conn = x := by cases x <;> rfl

/-- what a transition of request `c`'s future does to the log: it appends events of `c` (or of nobody), stamped with
the current instant, and leaves the clock alone -/
def Ext (c : Nat) (w w' : Shared) : Prop :=
  w'.now = w.now ∧ ∃ evs, w'.log = w.log ++ evs ∧ w'.tlog = w.tlog ++ evs.map (fun e => (w.now, e)) ∧
    ∀ e ∈ evs, owner e = some c ∨ owner e = none

theorem Ext.refl (c : Nat) (w : Shared) : Ext c w w := ⟨rfl, [], by simp, by simp, by simp⟩

theorem Ext.trans {c : Nat} {a b d : Shared} (h1 : Ext c a b) (h2 : Ext c b d) : Ext c a d := by
  obtain ⟨n1, e1, l1, t1, o1⟩ := h1
  obtain ⟨n2, e2, l2, t2, o2⟩ := h2
  refine ⟨n2.trans n1, e1 ++ e2, by rw [l2, l1]; simp, by rw [t2, t1, n1]; simp, ?_⟩
  intro e he
  rcases List.mem_append.1 he with h | h
  · exact o1 e h
  · exact o2 e h

theorem onError_ext {cfg : Cfg} {c : Nat} {st : Caller} {w : Shared} {kd k : Nat} :
    Ext c w (onError cfg c st w kd k).2 := by
  unfold onError
  split
  · refine ⟨rfl, [.result c (.service kd k)], ?_, ?_, ?_⟩ <;> simp [finish, emit, owner]
  · simp only
    split
    · refine ⟨by simp [finish, emit], [.result c (.maxAttempts (st.attempt + 1) kd k)], ?_, ?_, ?_⟩ <;>
        simp [finish, emit, owner]
    · split
      · refine ⟨by simp [finish, emit], [.result c (.connFailed kd k)], ?_, ?_, ?_⟩ <;> simp [finish, emit, owner]
      · refine ⟨by simp [emit], [.bad], ?_, ?_, ?_⟩ <;> simp [emit, owner]
      · refine ⟨by simp, [], ?_, ?_, ?_⟩ <;> simp

theorem trans_ext {cfg : Cfg} {c : Nat} {st : Caller} {w : Shared} {p : Caller × Shared}
    (ht : trans cfg c st w = some p) : Ext c w p.2 := by
  unfold trans at ht
  split at ht
  · rename_i k d o hph
    unfold transCalling at ht
    split at ht
    · simp at ht
    · split at ht
      · simp at ht
      · simp at ht; subst ht
        refine ⟨by simp [finish, emit], [.done c k .ok, .result c (.ok k)], ?_, ?_, ?_⟩ <;> simp [finish, emit, owner]
      · simp at ht; subst ht
        refine ⟨by simp [finish, emit], [.done c k .panic, .result c .panic], ?_, ?_, ?_⟩ <;> simp [finish, emit, owner]
      · rename_i kd
        simp at ht; subst ht
        have h1 : Ext c w (emit [.done c k (.err kd)] w) :=
          ⟨rfl, [.done c k (.err kd)], rfl, rfl, by simp [owner]⟩
        exact h1.trans onError_ext
  · rename_i wk hph
    unfold transSleeping at ht
    split at ht
    · simp at ht
    · split at ht
      · simp at ht; subst ht; exact Ext.refl c w
      · split at ht
        · rename_i kd k _
          simp at ht; subst ht
          refine ⟨by simp [finish, emit], [.result c (.noRetry kd k)], ?_, ?_, ?_⟩ <;> simp [finish, emit, owner]
        · simp at ht
  · rename_i wk hph
    unfold transReadying at ht
    split at ht
    · simp at ht
    · split at ht
      · simp at ht
      · simp at ht; subst ht
        refine ⟨by simp [startCall, emit, popScript], [.call c w.serial], ?_, ?_, ?_⟩ <;>
          simp [startCall, emit, popScript, owner]
      · simp at ht; subst ht
        refine ⟨by simp [finish, emit, popScript], [.readyErr, .result c .readyErr], ?_, ?_, ?_⟩ <;>
          simp [finish, emit, popScript, owner]
  · simp at ht

theorem loop_ext {cfg : Cfg} {c : Nat} (n : Nat) {st : Caller} {w : Shared} : Ext c w (loop cfg c n st w).2 := by
  induction n generalizing st w with
  | zero => exact Ext.refl c w
  | succ n ih =>
    unfold loop
    split
    · exact Ext.refl c w
    · rename_i st' w' ht
      exact (trans_ext ht).trans ih

theorem dropCaller_ext (c : Nat) (st : Caller) (w : Shared) : Ext c w (dropCaller c st w).2 := by
  unfold dropCaller
  split
  · rename_i k _ _ _
    exact ⟨rfl, [.dropped c k], rfl, rfl, by simp [owner]⟩
  · exact Ext.refl c w

/-! ## the log stays well formed, and the ghost variables of a request are tied to its lines -/

/-- the log is well formed and no line is stamped later than the clock reads -/
structure LogG (cfg : Cfg) (w : Shared) : Prop where
  wft : WFT cfg w.tlog
  stamped : ∀ l ∈ w.tlog, l.1 ≤ w.now

theorem LogG.emit1 {cfg : Cfg} {w : Shared} (h : LogG cfg w) (e : REv) (he : EvOK cfg w.tlog w.now e) :
    LogG cfg (emit [e] w) := by
  refine ⟨?_, ?_⟩
  · show WFT cfg (w.tlog ++ [(w.now, e)])
    exact wft_snoc h.wft h.stamped he
  · intro l hl
    have hl' : l ∈ w.tlog ++ [(w.now, e)] := hl
    rcases List.mem_append.1 hl' with hl | hl
    · exact h.stamped l hl
    · simp at hl; subst hl; exact Nat.le_refl _

theorem LogG.congr {cfg : Cfg} {w w' : Shared} (h : LogG cfg w) (h1 : w'.tlog = w.tlog) (h2 : w'.now = w.now) :
    LogG cfg w' := ⟨h1 ▸ h.wft, by rw [h1, h2]; exact h.stamped⟩

/-- the ghost variables of request `c` and the lines of `c` in the log: the ghost list `calls` is the list of its
`inner_call` lines (instants and serials, in order); while it is calling, its latest line is that call's `inner_call`
line; while it backs off (or waits for readiness after the back-off), its latest line is the `inner_done` line of its
latest call, stamped with the instant recorded in the ghost sleep record -/
structure Tied (c : Nat) (st : Caller) (w : Shared) : Prop where
  lines : callLines c w.tlog = st.calls.reverse.map fun r => (r.t, REv.call c r.k)
  calling : ∀ k d o, st.phase = .calling k d o → ∃ t0, lastMine c w.tlog = some (t0, .call c k)
  waiting : ∀ wake, st.phase = .sleeping wake ∨ st.phase = .readying wake →
      ∃ sl h tl kd, st.pend = some sl ∧ st.calls = h :: tl ∧ h.step.out = .err kd ∧
        lastMine c w.tlog = some (sl.since, .done c h.k (.err kd))

theorem Tied.count {c : Nat} {st : Caller} {w : Shared} (h : Tied c st w) : callsInT c w.tlog = st.calls.length := by
  rw [callsInT_eq_length, h.lines]; simp

theorem tied_done {c : Nat} {st : Caller} {w : Shared}
    (hl : callLines c w.tlog = st.calls.reverse.map fun r => (r.t, REv.call c r.k)) (hp : st.phase = .done) :
    Tied c st w := by
  refine ⟨hl, ?_, ?_⟩
  · intro k d o h; rw [hp] at h; simp at h
  · intro wk h; rw [hp] at h; simp at h

theorem callLines_emit_other {c : Nat} {w : Shared} {e : REv} (he : isCallOf c e = false) :
    callLines c (emit [e] w).tlog = callLines c w.tlog := by
  show callLines c (w.tlog ++ [(w.now, e)]) = _
  rw [callLines_snoc]
  simp [isCallLine, he]

theorem lastMine_emit_mine {c : Nat} {w : Shared} {e : REv} (he : owner e = some c) :
    lastMine c (emit [e] w).tlog = some (w.now, e) := by
  show lastMine c (w.tlog ++ [(w.now, e)]) = _
  rw [lastMine_snoc]
  simp [isMine, he]

theorem lastMine_emit_other {c : Nat} {w : Shared} {e : REv} (he : owner e ≠ some c) :
    lastMine c (emit [e] w).tlog = lastMine c w.tlog := by
  show lastMine c (w.tlog ++ [(w.now, e)]) = _
  rw [lastMine_snoc]
  simp [isMine, he]

theorem callsInT_emit_other {c : Nat} {w : Shared} {e : REv} (he : isCallOf c e = false) :
    callsInT c (emit [e] w).tlog = callsInT c w.tlog := by
  rw [callsInT_eq_length, callsInT_eq_length, callLines_emit_other he]

theorem finish_tied {c : Nat} {r : RRes} {st : Caller} {w : Shared}
    (hl : callLines c w.tlog = st.calls.reverse.map fun r => (r.t, REv.call c r.k)) :
    Tied c (finish c r st w).1 (finish c r st w).2 := by
  apply tied_done
  · show callLines c (emit [.result c r] w).tlog = _
    rw [callLines_emit_other (by simp [isCallOf])]
    exact hl
  · rfl

/-- a (re)call: the new ghost record and the new `inner_call` line -/
theorem startCall_log {cfg : Cfg} {c : Nat} {st : Caller} {w : Shared} (hG : LogG cfg w)
    (he : EvOK cfg w.tlog w.now (.call c w.serial))
    (hl : callLines c w.tlog = st.calls.reverse.map fun r => (r.t, REv.call c r.k)) :
    Tied c (startCall c st w).1 (startCall c st w).2 ∧ LogG cfg (startCall c st w).2 := by
  have htl : (startCall c st w).2.tlog = w.tlog ++ [(w.now, .call c w.serial)] := rfl
  refine ⟨⟨?_, ?_, ?_⟩, ?_⟩
  · rw [htl, callLines_snoc]
    simp [isCallLine, isCallOf, startCall, hl]
  · intro k d o h
    simp [startCall] at h
    rw [htl, lastMine_snoc]
    simp [isMine, owner, h.1]
  · intro wk h; simp [startCall] at h
  · refine ⟨?_, ?_⟩
    · rw [htl]; exact wft_snoc hG.wft hG.stamped he
    · intro l hl'
      rw [htl] at hl'
      rcases List.mem_append.1 hl' with hl' | hl'
      · exact hG.stamped l hl'
      · simp at hl'; subst hl'; exact Nat.le_refl _

theorem onError_log {cfg : Cfg} {c : Nat} {st : Caller} {w : Shared} {kd k d : Nat}
    (hg : Good cfg st) (hp : st.phase = .calling k d (.err kd)) (hG : LogG cfg w)
    (hl : callLines c w.tlog = st.calls.reverse.map fun r => (r.t, REv.call c r.k))
    (hlast : lastMine c w.tlog = some (w.now, .done c k (.err kd))) :
    Tied c (onError cfg c st w kd k).1 (onError cfg c st w kd k).2 ∧ LogG cfg (onError cfg c st w kd k).2 := by
  obtain ⟨hlen, hpend, h, tl, hcalls, hk, hd, ho⟩ := hg.calling k d _ hp
  have hcnt : callsInT c w.tlog = st.attempt + 1 := by
    rw [callsInT_eq_length, hl]; simp [hlen]
  unfold onError
  split
  · rename_i hre
    exact ⟨finish_tied hl, hG.emit1 _ ⟨hlast, hre⟩⟩
  · rename_i hre
    have hre' : cfg.reconn kd = true := by simpa using hre
    have hG1 : LogG cfg (mark c .disconnected w) := hG.congr (mark_tlog ..) (mark_now ..)
    simp only
    split
    · rename_i hex
      refine ⟨finish_tied (by simpa using hl), hG1.emit1 _ ?_⟩
      simp only [EvOK, ResultOK, mark_tlog, mark_now]
      exact ⟨hlast, hre', hcnt.symm, hex⟩
    · rename_i hex
      have hex' : exceeded cfg (st.attempt + 1) = false := by simpa using hex
      split
      · rename_i hnd
        refine ⟨finish_tied (by simpa using hl), hG1.emit1 _ ?_⟩
        simp only [EvOK, ResultOK, mark_tlog, mark_now]
        exact ⟨hlast, hre', by rw [hcnt]; exact hex', nextDelay_noPolicy hnd⟩
      · refine ⟨tied_done ?_ rfl, hG1.emit1 _ trivial⟩
        show callLines c (emit [.bad] (mark c .disconnected w)).tlog = _
        rw [callLines_emit_other (by simp [isCallOf])]
        simpa using hl
      · rename_i dl rest hnd
        refine ⟨⟨by simpa using hl, ?_, ?_⟩, hG.congr (by simp) (by simp)⟩
        · intro k' d' o' hh; simp at hh
        · intro wk _
          refine ⟨_, h, tl, kd, rfl, hcalls, ho.symm, ?_⟩
          simp [hk, hlast]

theorem transCalling_log {cfg : Cfg} {c : Nat} {st : Caller} {w : Shared} {k d : Nat} {o : Out} {p : Caller × Shared}
    (hg : Good cfg st) (hp : st.phase = .calling k d o) (hT : Tied c st w) (hG : LogG cfg w)
    (ht : transCalling cfg c st w k d o = some p) : Tied c p.1 p.2 ∧ LogG cfg p.2 := by
  obtain ⟨t0, hcall⟩ := hT.calling k d o hp
  have hGd : LogG cfg (emit [.done c k o] w) := hG.emit1 _ ⟨t0, hcall⟩
  have hld : callLines c (emit [.done c k o] w).tlog = st.calls.reverse.map fun r => (r.t, REv.call c r.k) := by
    rw [callLines_emit_other (by simp [isCallOf])]; exact hT.lines
  have hlast : lastMine c (emit [.done c k o] w).tlog = some (w.now, .done c k o) :=
    lastMine_emit_mine (by simp [owner])
  unfold transCalling at ht
  split at ht
  · simp at ht
  · split at ht
    · simp at ht
    · simp at ht; subst ht
      have hG1 : LogG cfg (mark c .connected (emit [.done c k .ok] w)) := hGd.congr (mark_tlog ..) (mark_now ..)
      refine ⟨finish_tied (by simpa using hld), hG1.emit1 _ ?_⟩
      simp only [EvOK, ResultOK, mark_tlog, mark_now]
      exact hlast
    · simp at ht; subst ht
      refine ⟨finish_tied hld, hGd.emit1 _ ?_⟩
      exact ⟨k, hlast⟩
    · rename_i kd
      simp at ht; subst ht
      exact onError_log hg hp hGd hld hlast

theorem transSleeping_log {cfg : Cfg} {c : Nat} {st : Caller} {w : Shared} {wake : Nat} {p : Caller × Shared}
    (hg : Good cfg st) (hp : st.phase = .sleeping wake) (hT : Tied c st w) (hG : LogG cfg w)
    (ht : transSleeping cfg c st w wake = some p) : Tied c p.1 p.2 ∧ LogG cfg p.2 := by
  obtain ⟨hlen, hex, h, tl, kd, sl, hcalls, ho, hre, hle, hpend, hatt, hal, hsince, hwake⟩ := hg.sleeping wake hp
  obtain ⟨sl', h', tl', kd', hpend', hcalls', ho', hlast⟩ := hT.waiting wake (Or.inl hp)
  unfold transSleeping at ht
  split at ht
  · simp at ht
  · rename_i hnow
    split at ht
    · simp at ht; subst ht
      refine ⟨⟨hT.lines, ?_, ?_⟩, hG⟩
      · intro k' d' o' hh; simp at hh
      · intro wk _
        exact ⟨sl', h', tl', kd', hpend', hcalls', ho', hlast⟩
    · rename_i hretry
      rw [hle] at ht
      simp at ht; subst ht
      have hG1 : LogG cfg (mark c .connected w) := hG.congr (mark_tlog ..) (mark_now ..)
      refine ⟨finish_tied (by simpa using hT.lines), hG1.emit1 _ ?_⟩
      simp only [EvOK, ResultOK, mark_tlog, mark_now]
      rw [hpend] at hpend'; cases hpend'
      rw [hcalls] at hcalls'; cases hcalls'
      rw [ho] at ho'; cases ho'
      refine ⟨sl.since, sl.delay, hlast, hre, by simpa using hretry, ?_, ?_, by omega⟩
      · rw [hT.count, hlen]; exact hex
      · rw [hT.count, hlen]; exact hal

theorem retryOK_of_readying {cfg : Cfg} {c : Nat} {st : Caller} {w : Shared} {wake : Nat}
    (hg : Good cfg st) (hp : st.phase = .readying wake) (hT : Tied c st w) (hnow : ¬ w.now < wake) :
    RetryOK cfg c w.tlog w.now := by
  obtain ⟨hretry, hlen, hex, h, tl, kd, sl, hcalls, ho, hre, hpend, hatt, hal, hsince, hwake⟩ := hg.readying wake hp
  obtain ⟨sl', h', tl', kd', hpend', hcalls', ho', hlast⟩ := hT.waiting wake (Or.inr hp)
  rw [hpend] at hpend'; cases hpend'
  rw [hcalls] at hcalls'; cases hcalls'
  rw [ho] at ho'; cases ho'
  refine ⟨sl.since, h.k, kd, sl.delay, hlast, hre, hretry, ?_, ?_, by omega⟩
  · rw [hT.count, hlen]; exact hex
  · rw [hT.count, hlen]; exact hal

theorem transReadying_log {cfg : Cfg} {c : Nat} {st : Caller} {w : Shared} {wake : Nat} {p : Caller × Shared}
    (hg : Good cfg st) (hp : st.phase = .readying wake) (hT : Tied c st w) (hG : LogG cfg w)
    (ht : transReadying c st w wake = some p) : Tied c p.1 p.2 ∧ LogG cfg p.2 := by
  unfold transReadying at ht
  split at ht
  · simp at ht
  · rename_i hnow
    have hr := retryOK_of_readying hg hp hT hnow
    split at ht
    · simp at ht
    · simp at ht; subst ht
      have hG1 : LogG cfg (popScript w) := hG.congr rfl rfl
      exact startCall_log hG1 (Or.inr hr) hT.lines
    · simp at ht; subst ht
      have hG1 : LogG cfg (emit [.readyErr] (popScript w)) := (hG.congr rfl rfl : LogG cfg (popScript w)).emit1 _ trivial
      refine ⟨finish_tied ?_, hG1.emit1 _ ?_⟩
      · rw [callLines_emit_other (by simp [isCallOf])]; exact hT.lines
      · refine ⟨?_, ?_⟩
        · show (w.tlog ++ [(w.now, REv.readyErr)]).getLast? = some (w.now, REv.readyErr)
          simp
        · obtain ⟨t1, k1, kd, dl, h1, h2, h3, h4, h5, h6⟩ := hr
          refine ⟨t1, k1, kd, dl, ?_, h2, h3, ?_, ?_, h6⟩
          · rw [lastMine_emit_other (by simp [owner])]; exact h1
          · rw [callsInT_emit_other (by simp [isCallOf])]; exact h4
          · rw [callsInT_emit_other (by simp [isCallOf])]; exact h5

theorem trans_log {cfg : Cfg} {c : Nat} {st : Caller} {w : Shared} {p : Caller × Shared}
    (hg : Good cfg st) (hT : Tied c st w) (hG : LogG cfg w) (ht : trans cfg c st w = some p) :
    Tied c p.1 p.2 ∧ LogG cfg p.2 := by
  unfold trans at ht
  split at ht
  · rename_i k d o hp; exact transCalling_log hg hp hT hG ht
  · rename_i wk hp; exact transSleeping_log hg hp hT hG ht
  · rename_i wk hp; exact transReadying_log hg hp hT hG ht
  · simp at ht

theorem loop_log {cfg : Cfg} {c : Nat} (n : Nat) {st : Caller} {w : Shared}
    (hg : Good cfg st) (hT : Tied c st w) (hG : LogG cfg w) :
    Tied c (loop cfg c n st w).1 (loop cfg c n st w).2 ∧ LogG cfg (loop cfg c n st w).2 := by
  induction n generalizing st w with
  | zero => exact ⟨hT, hG⟩
  | succ n ih =>
    unfold loop
    split
    · exact ⟨hT, hG⟩
    · rename_i st' w' ht
      obtain ⟨h1, h2⟩ := trans_log hg hT hG ht
      exact ih (trans_good hg ht) h1 h2

theorem dropCaller_log {cfg : Cfg} {c : Nat} {st : Caller} {w : Shared} (hT : Tied c st w) (hG : LogG cfg w) :
    Tied c (dropCaller c st w).1 (dropCaller c st w).2 ∧ LogG cfg (dropCaller c st w).2 := by
  unfold dropCaller
  split
  · rename_i k d o hp
    obtain ⟨t0, hcall⟩ := hT.calling k d o hp
    refine ⟨tied_done ?_ rfl, hG.emit1 _ ⟨t0, hcall⟩⟩
    show callLines c (emit [.dropped c k] w).tlog = _
    rw [callLines_emit_other (by simp [isCallOf])]; exact hT.lines
  · exact ⟨tied_done hT.lines rfl, hG⟩

/-- a transition of another request's future leaves the ties of request `c'` alone -/
theorem tied_of_ext {c c' : Nat} {st : Caller} {w w' : Shared} (hne : c' ≠ c) (he : Ext c w w') (hT : Tied c' st w) :
    Tied c' st w' := by
  obtain ⟨_, evs, _, htl, hown⟩ := he
  have hno : ∀ l ∈ evs.map (fun e => (w.now, e)), isMine c' l = false := by
    intro l hl
    obtain ⟨e, he, rfl⟩ := List.mem_map.1 hl
    rcases hown e he with h | h <;> simp [isMine, h]
    exact fun h' => hne h'.symm
  have h1 : lastMine c' w'.tlog = lastMine c' w.tlog := by rw [htl]; exact lastMine_append_none _ _ _ hno
  have h2 : callLines c' w'.tlog = callLines c' w.tlog := by rw [htl]; exact callLines_append_none _ _ _ hno
  exact ⟨h2 ▸ hT.lines, fun k d o h => h1 ▸ hT.calling k d o h, fun wk h => h1 ▸ hT.waiting wk h⟩

theorem logG_of_ext_stamped {c : Nat} {w w' : Shared} (he : Ext c w w') (h : ∀ l ∈ w.tlog, l.1 ≤ w.now) :
    ∀ l ∈ w'.tlog, l.1 ≤ w'.now := by
  obtain ⟨hn, evs, _, htl, _⟩ := he
  intro l hl
  rw [htl] at hl
  rw [hn]
  rcases List.mem_append.1 hl with hl | hl
  · exact h l hl
  · obtain ⟨e, _, rfl⟩ := List.mem_map.1 hl
    exact Nat.le_refl _

/-! ## the published state is `pubOf` of the log -/

def PubFn (cfg : Cfg) (w : Shared) : Prop := w.conn = pubOf cfg w.log

theorem onError_pubfn {cfg : Cfg} {c : Nat} {st : Caller} {w : Shared} {kd k : Nat} (h : PubFn cfg w) :
    PubFn cfg (onError cfg c st (emit [.done c k (.err kd)] w) kd k).2 := by
  unfold PubFn at h ⊢
  unfold onError
  split
  · rename_i hr
    simp [finish, emit, pubOf_append, pubStep, hr]
    exact h
  · rename_i hr
    have hr : cfg.reconn kd = true := by simpa using hr
    simp only
    split
    · simp [finish, emit, pubOf_append, pubStep, hr]
    · split
      · simp [finish, emit, pubOf_append, pubStep, hr]
      · simp [emit, pubOf_append, pubStep, hr]
      · simp [emit, pubOf_append, pubStep, hr]

theorem trans_pubfn {cfg : Cfg} {c : Nat} {st : Caller} {w : Shared} {p : Caller × Shared}
    (h : PubFn cfg w) (ht : trans cfg c st w = some p) : PubFn cfg p.2 := by
  unfold trans at ht
  split at ht
  · rename_i k d o hph
    unfold transCalling at ht
    split at ht
    · simp at ht
    · split at ht
      · simp at ht
      · simp at ht; subst ht
        simp [PubFn, finish, emit, pubOf_append, pubStep]
      · simp at ht; subst ht
        unfold PubFn at h ⊢
        simp [finish, emit, pubOf_append, pubStep]
        exact h
      · rename_i kd
        simp at ht; subst ht
        exact onError_pubfn h
  · rename_i wk hph
    unfold transSleeping at ht
    split at ht
    · simp at ht
    · split at ht
      · simp at ht; subst ht
        exact h
      · split at ht
        · simp at ht; subst ht
          simp [PubFn, finish, emit, pubOf_append, pubStep]
        · simp at ht
  · rename_i wk hph
    unfold transReadying at ht
    split at ht
    · simp at ht
    · split at ht
      · simp at ht
      · simp at ht; subst ht
        unfold PubFn at h ⊢
        simp [startCall, emit, popScript, pubOf_append, pubStep]
        exact h
      · simp at ht; subst ht
        unfold PubFn at h ⊢
        simp [finish, emit, popScript, pubOf_append, pubStep]
        exact h
  · simp at ht

theorem loop_pubfn {cfg : Cfg} {c : Nat} (n : Nat) {st : Caller} {w : Shared} (h : PubFn cfg w) :
    PubFn cfg (loop cfg c n st w).2 := by
  induction n generalizing st w with
  | zero => exact h
  | succ n ih =>
    unfold loop
    split
    · exact h
    · rename_i st' w' ht
      exact ih (trans_pubfn h ht)

/-! ## every reachable state -/

theorem Tied.congr {c : Nat} {st : Caller} {w w' : Shared} (h : Tied c st w) (e : w'.tlog = w.tlog) : Tied c st w' :=
  ⟨e ▸ h.lines, fun k d o hp => e ▸ h.calling k d o hp, fun wk hp => e ▸ h.waiting wk hp⟩

/-- the invariant that ties the model's state to its timestamped log -/
structure LogInv (cfg : Cfg) (s : State) : Prop where
  g : LogG cfg s.sh
  same : s.sh.tlog.map Prod.snd = s.sh.log
  pub : PubFn cfg s.sh
  tied : ∀ c st, lookup s.callers c = some st → Tied c st s.sh
  known : ∀ c, lookup s.callers c = none → ∀ l ∈ s.sh.tlog, isMine c l = false

theorem callLines_nil_of_unknown {c : Nat} {T : List (Nat × REv)} (h : ∀ l ∈ T, isMine c l = false) :
    callLines c T = [] := by
  have := callLines_append_none c [] T h
  simpa [callLines] using this

/-- a step made by (or for) request `c`: its record becomes `st'`, the shared part `sh'` -/
theorem logInv_caller_step {cfg : Cfg} {s : State} {c : Nat} {st' : Caller} {w' sh' : Shared} (h : LogInv cfg s)
    (hT : Tied c st' w') (hG : LogG cfg w') (hE : Ext c s.sh w') (hP : PubFn cfg w')
    (e1 : sh'.tlog = w'.tlog) (e2 : sh'.log = w'.log) (e3 : sh'.now = w'.now) (e4 : sh'.conn = w'.conn) :
    LogInv cfg { sh := sh', callers := (c, st') :: s.callers } := by
  obtain ⟨hn, evs, hlog, htl, hown⟩ := hE
  refine ⟨hG.congr e1 e3, ?_, ?_, ?_, ?_⟩
  · show sh'.tlog.map Prod.snd = sh'.log
    rw [e1, e2, htl, hlog, List.map_append, h.same]
    simp [Function.comp_def]
  · show sh'.conn = pubOf cfg sh'.log
    rw [e4, e2]; exact hP
  · intro c' st'' hl
    rw [lookup_cons] at hl
    split at hl
    · rename_i hcc
      simp at hl
      subst hcc; subst hl
      exact hT.congr e1
    · rename_i hcc
      have : Tied c' st'' w' := tied_of_ext (fun e => hcc e.symm) ⟨hn, evs, hlog, htl, hown⟩ (h.tied c' st'' hl)
      exact this.congr e1
  · intro c' hl l hmem
    rw [lookup_cons] at hl
    split at hl
    · simp at hl
    · rename_i hcc
      have hmem' : l ∈ s.sh.tlog ++ evs.map (fun e => (s.sh.now, e)) := by
        have : l ∈ sh'.tlog := hmem
        rw [e1, htl] at this
        exact this
      rcases List.mem_append.1 hmem' with hm | hm
      · exact h.known c' hl l hm
      · obtain ⟨e, he, rfl⟩ := List.mem_map.1 hm
        rcases hown e he with ho | ho <;> simp [isMine, ho]
        exact hcc

theorem stepS_logInv {cfg : Cfg} {s : State} (op : Op) (hg : AllGood cfg s) (h : LogInv cfg s) :
    LogInv cfg (stepS cfg s op) := by
  cases op with
  | adv ms =>
    refine ⟨⟨h.g.wft, ?_⟩, h.same, h.pub, fun c st hl => (h.tied c st hl).congr rfl, h.known⟩
    intro l hl
    have := h.g.stamped l hl
    show l.1 ≤ s.sh.now + ms
    omega
  | incr =>
    exact ⟨h.g.congr rfl rfl, h.same, h.pub, fun c st hl => (h.tied c st hl).congr rfl, h.known⟩
  | inner sc r =>
    exact ⟨h.g.congr rfl rfl, h.same, h.pub, fun c st hl => (h.tied c st hl).congr rfl, h.known⟩
  | probe =>
    have hno : ∀ (c : Nat), ∀ l ∈ [(s.sh.now, REv.probe s.sh.conn)], isMine c l = false := by
      intro c l hl; simp at hl; subst hl; simp [isMine, owner]
    refine ⟨h.g.emit1 _ ?_, ?_, ?_, ?_, ?_⟩
    · show s.sh.conn = pubOf cfg (s.sh.tlog.map Prod.snd)
      rw [h.same]; exact h.pub
    · show (s.sh.tlog ++ [(s.sh.now, REv.probe s.sh.conn)]).map Prod.snd = s.sh.log ++ [REv.probe s.sh.conn]
      rw [List.map_append, h.same]; rfl
    · show s.sh.conn = pubOf cfg (s.sh.log ++ [REv.probe s.sh.conn])
      rw [pubOf_append]; simp [pubStep]; exact h.pub
    · intro c st hl
      have := h.tied c st hl
      have e : (emit [REv.probe s.sh.conn] s.sh).tlog = s.sh.tlog ++ [(s.sh.now, REv.probe s.sh.conn)] := rfl
      refine ⟨?_, fun k d o hp => ?_, fun wk hp => ?_⟩
      · show callLines c (emit [REv.probe s.sh.conn] s.sh).tlog = _
        rw [e, callLines_append_none _ _ _ (hno c)]; exact this.lines
      · show ∃ t0, lastMine c (emit [REv.probe s.sh.conn] s.sh).tlog = _
        rw [e, lastMine_append_none _ _ _ (hno c)]; exact this.calling k d o hp
      · show ∃ sl h tl kd, _ ∧ _ ∧ _ ∧ lastMine c (emit [REv.probe s.sh.conn] s.sh).tlog = _
        rw [e, lastMine_append_none _ _ _ (hno c)]; exact this.waiting wk hp
    · intro c hl l hmem
      have hmem' : l ∈ s.sh.tlog ++ [(s.sh.now, REv.probe s.sh.conn)] := hmem
      rcases List.mem_append.1 hmem' with hm | hm
      · exact h.known c hl l hm
      · exact hno c l hm
  | arrive c plan =>
    simp only [stepS]
    split
    · exact h
    · rename_i hnone
      have hunk := h.known c hnone
      have hlast : lastMine c s.sh.tlog = none := (lastMine_none_iff c _).2 hunk
      have hlines : callLines c s.sh.tlog = [] := callLines_nil_of_unknown hunk
      cases hra : readyAns s.sh with
      | ready =>
        dsimp only
        have hG1 : LogG cfg (popScript s.sh) := h.g.congr rfl rfl
        obtain ⟨h1, h2⟩ := @startCall_log cfg c (newCaller plan) (popScript s.sh) hG1 (Or.inl hlast)
          (by simpa [newCaller, popScript] using hlines)
        refine logInv_caller_step h h1 h2 ?_ ?_ rfl rfl rfl rfl
        · exact ⟨rfl, [.call c s.sh.serial], rfl, rfl, by simp [owner]⟩
        · have := h.pub
          unfold PubFn at this ⊢
          simp [startCall, emit, popScript, pubOf_append, pubStep]
          exact this
      | pending =>
        dsimp only
        refine logInv_caller_step (w' := emit [.result c .notReady] s.sh) h ?_ (h.g.emit1 _ hlast) ?_ ?_ rfl rfl rfl rfl
        · apply tied_done _ rfl
          rw [callLines_emit_other (by simp [isCallOf])]
          simpa [refused] using hlines
        · exact ⟨rfl, [.result c .notReady], rfl, rfl, by simp [owner]⟩
        · have := h.pub
          unfold PubFn at this ⊢
          simp [emit, pubOf_append, pubStep]
          exact this
      | error =>
        dsimp only
        have hG1 : LogG cfg (emit [.readyErr] (popScript s.sh)) := (h.g.congr rfl rfl : LogG cfg (popScript s.sh)).emit1 _ trivial
        have hG2 : LogG cfg (emit [.result c .notReady] (emit [.readyErr] (popScript s.sh))) := by
          apply hG1.emit1
          show lastMine c (emit [.readyErr] (popScript s.sh)).tlog = none
          rw [lastMine_emit_other (by simp [owner])]; exact hlast
        refine logInv_caller_step (w' := emit [.readyErr, .result c .notReady] (popScript s.sh)) h ?_
          (hG2.congr (by simp [emit]) rfl) ?_ ?_ rfl rfl rfl rfl
        · apply tied_done _ rfl
          show callLines c (s.sh.tlog ++ [(s.sh.now, REv.readyErr), (s.sh.now, .result c .notReady)]) = _
          rw [callLines_append_nocall]
          · simpa [refused] using hlines
          · intro l hl; simp at hl; rcases hl with rfl | rfl <;> simp [isCallLine, isCallOf]
        · exact ⟨rfl, [.readyErr, .result c .notReady], rfl, rfl, by simp [owner]⟩
        · have := h.pub
          unfold PubFn at this ⊢
          simp [emit, popScript, pubOf_append, pubStep]
          exact this
  | poll c obs =>
    simp only [stepS]
    split
    · rename_i st hst
      have hT0 : Tied c st { s.sh with obs := obs } := (h.tied c st hst).congr rfl
      have hG0 : LogG cfg { s.sh with obs := obs } := h.g.congr rfl rfl
      obtain ⟨h1, h2⟩ := @loop_log cfg c (fuel st) st { s.sh with obs := obs } (hg c st hst) hT0 hG0
      have h3 : Ext c s.sh (loop cfg c (fuel st) st { s.sh with obs := obs }).2 :=
        @loop_ext cfg c (fuel st) st { s.sh with obs := obs }
      have h4 := @loop_pubfn cfg c (fuel st) st { s.sh with obs := obs } h.pub
      exact logInv_caller_step h h1 h2 h3 h4 rfl rfl rfl rfl
    · exact h
  | drop c =>
    simp only [stepS]
    split
    · rename_i st hst
      obtain ⟨h1, h2⟩ := @dropCaller_log cfg c st s.sh (h.tied c st hst) h.g
      refine logInv_caller_step h h1 h2 (dropCaller_ext c st s.sh) ?_ rfl rfl rfl rfl
      have := h.pub
      unfold PubFn at this ⊢
      unfold dropCaller
      split
      · simp [emit, pubOf_append, pubStep]; exact this
      · exact this
    · exact h

theorem logInv_init (cfg : Cfg) : LogInv cfg init :=
  ⟨⟨wft_nil cfg, by simp [init]⟩, rfl, rfl, by intro c st h; simp [init, lookup] at h, by simp [init]⟩

/-- **every reachable state satisfies `LogInv`**: its timestamped log is well formed, is the event log with instants,
the published state is `pubOf` of it, and every request's ghost variables are tied to that request's lines -/
theorem logInv_reachable (cfg : Cfg) (ops : List Op) : LogInv cfg (run cfg ops) := by
  have key : ∀ (ops : List Op) (s : State), AllGood cfg s → LogInv cfg s → LogInv cfg (ops.foldl (stepS cfg) s) := by
    intro ops
    induction ops with
    | nil => intro s _ h; exact h
    | cons o os ih => intro s hg h; exact ih _ (stepS_allGood o hg) (stepS_logInv o hg h)
  exact key ops _ (by intro c st h; simp [init, lookup] at h) (logInv_init cfg)

end TR.Reconnect
