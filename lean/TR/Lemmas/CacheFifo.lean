import TR.Lemmas.Cache
/-!
# Cache, FIFO: the queue under expiry-removals and re-stores (helper lemmas for C10)

`FifoStore` keeps a `VecDeque` of keys next to the map. Three things touch it: `insert` of a new key
(`push_back`, after a `pop_front` when full), `insert` of a present key (nothing), and `remove`
(reached from `CacheStore::get` when the entry read has expired: the key's slot is deleted, every
other slot keeps its relative position). `QStep` is the complete list of what one operation of the
service can do to the queue; `step_fifo_queue` proves it for every state and every operation.
-/
namespace TR.Cache

/-- a queue slot as the policy sees it: the key and the logical instant (`tick`) of the insert that
created the entry — not the value, not `inserted_at` (a re-insert of a present key refreshes those
and keeps the slot) -/
def slot (e : Entry) : Nat × Nat := (e.key, e.born)

/-- what one operation does to the FIFO queue `q` (giving `q'`) at instant `now`, logical instant `tick` -/
inductive QStep (ttl : Option Nat) (now cap tick : Nat) (q q' : List Entry) : Prop
  /-- same slots in the same order (hits, re-inserts of a present key, everything that is not a store access) -/
  | same   (h : q'.map slot = q.map slot)
  /-- the entry read has expired: exactly its slot is deleted, all others keep their order -/
  | expire (e : Entry) (hf : find q e.key = some e) (hexp : expired ttl now e = true) (h : q' = rm e.key q)
  /-- a key that is not queued, room left: the new entry, created now, goes to the back -/
  | push   (e : Entry) (hnew : find q e.key = none) (hb : e.born = tick) (hroom : q.length < cap)
           (h : q' = q ++ [e])
  /-- a key that is not queued, store full: the front leaves, the new entry goes to the back -/
  | evict  (e : Entry) (hnew : find q e.key = none) (hb : e.born = tick) (hfull : q.length ≥ cap)
           (h : q' = q.tail ++ [e])

theorem slots_upd (k : Nat) (f : Entry → Entry) (items : List Entry) (hf : ∀ x, slot (f x) = slot x) :
    (upd k f items).map slot = items.map slot := by
  unfold upd
  rw [List.map_map]
  apply List.map_congr_left
  intro a _
  simp only [Function.comp]
  split
  · exact hf a
  · rfl

theorem storeGet_fifo_qstep {cfg : Cfg} (hp : cfg.policy = .fifo) (now tick cap t : Nat)
    (items : List Entry) (k : Nat) :
    QStep cfg.ttl now cap t items (storeGet cfg now tick items k).1 := by
  rw [storeGet_eq]; unfold storeGetC
  split
  · exact .same rfl
  · rename_i e hf
    have hk := (find_some hf).2
    split
    · rename_i hexp
      subst hk
      exact .expire e hf hexp rfl
    · rw [hp]; exact .same rfl

theorem insertFifo_qstep (ttl : Option Nat) (now cap tick : Nat) (items : List Entry) (e : Entry)
    (hb : e.born = tick) : QStep ttl now cap tick items (insertFifo cap items e).items := by
  unfold insertFifo
  split
  · exact .same (slots_upd _ _ _ (fun _ => rfl))
  · rename_i hs
    have hn := find_none_of_not_isSome hs
    split
    · rename_i hfull
      exact .evict e hn hb hfull rfl
    · rename_i hroom
      exact .push e hn hb (by omega) rfl

/-- every operation of the service, in every state, moves the FIFO queue by one `QStep` -/
theorem step_fifo_queue (cfg : Cfg) (hp : cfg.policy = .fifo) (s : State) (op : Op) :
    QStep cfg.ttl s.now cfg.cap s.tick s.store (stepS cfg s op).store := by
  cases op with
  | adv ms => exact .same rfl
  | drop c =>
    simp only [stepS, dropC]
    split
    · exact .same rfl
    · split <;> exact .same rfl
  | arrive c key svc sc =>
    simp only [stepS, arrive]
    split
    · exact .same rfl
    · split
      · exact storeGet_fifo_qstep hp s.now s.tick cfg.cap s.tick s.store key
      · exact storeGet_fifo_qstep hp s.now s.tick cfg.cap s.tick s.store key
  | poll c w =>
    simp only [stepS, poll]
    split
    · exact .same rfl
    · split
      · rename_i p _
        unfold pollPend
        split
        · split
          · show QStep cfg.ttl s.now cfg.cap s.tick s.store (storeInsert cfg s.now s.tick s.store p.key p.k w).items
            rw [storeInsert_fifo hp]
            exact insertFifo_qstep cfg.ttl s.now cfg.cap s.tick s.store _ rfl
          · exact .same rfl
          · exact .same rfl
          · exact .same rfl
        · exact .same rfl
      · exact .same rfl

/-- the victim of a FIFO insert (new key, full store) is the front of the queue -/
theorem insertFifo_victim_head {cap : Nat} {items : List Entry} {e : Entry}
    (hnone : find items e.key = none) (hfull : items.length ≥ cap) :
    (insertFifo cap items e).victim = items.head? ∧ (insertFifo cap items e).items = items.tail ++ [e] := by
  simp only [insertFifo, hnone, Option.isSome_none, Bool.false_eq_true, if_false, hfull, if_true, and_self]

/-- a `QStep` keeps the relative order of the entries that stay: if `x` is before `y` in the new
queue and both keys were queued before, then the slot of `x` was before the slot of `y` already -/
theorem QStep.slots_sublist {ttl : Option Nat} {now cap tick : Nat} {q q' : List Entry}
    (h : QStep ttl now cap tick q q') :
    ∃ kept new, q'.map slot = kept ++ new ∧ kept.Sublist (q.map slot) ∧ new.length ≤ 1 ∧
      ∀ sl ∈ new, sl.2 = tick ∧ ∀ x ∈ q, x.key ≠ sl.1 := by
  cases h with
  | same h => exact ⟨q.map slot, [], by simp [h], List.Sublist.refl _, by simp, by simp⟩
  | expire e hf hexp h =>
    subst h
    exact ⟨(rm e.key q).map slot, [], by simp, (rm_sublist _ _).map _, by simp, by simp⟩
  | push e hnew hb hroom h =>
    subst h
    refine ⟨q.map slot, [slot e], by simp, List.Sublist.refl _, by simp, ?_⟩
    intro sl hsl
    simp only [List.mem_singleton] at hsl
    subst hsl
    exact ⟨hb, find_none hnew⟩
  | evict e hnew hb hfull h =>
    subst h
    refine ⟨q.tail.map slot, [slot e], by simp, (List.tail_sublist q).map _, by simp, ?_⟩
    intro sl hsl
    simp only [List.mem_singleton] at hsl
    subst hsl
    exact ⟨hb, find_none hnew⟩

end TR.Cache
