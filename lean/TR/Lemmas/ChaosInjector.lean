import TR.Lemmas.Chaos
/-!
# Chaos: an arbitrary `ErrorInjector`

`ErrorInjector<Req, Err>` (config.rs:14-20) is a PUBLIC trait: `inject_error(&self, req, roll) -> Option<Err>` and
`error_rate(&self) -> f64`. The crate ships two implementations — `NoErrorInjection` (`None`, rate 0) and
`CustomErrorFn` (`Some(f(req))` iff `roll < rate`, rate clamped to [0,1]) — and today only those two can be installed:
`ChaosConfig` has no public constructor, the builders produce `NoErrorInjection` / `CustomErrorFn` only, and
`Layer<S>` is implemented for `ChaosLayer<NoErrorInjection>` and `ChaosLayer<CustomErrorFn<F>>` only (layer.rs:98,107).
`Chaos<S, E>: Service` however is written for every `E: ErrorInjector` (service.rs:38-46), so this file transcribes the
decision block of `Chaos::call` over an ARBITRARY injector and records which clauses of the property survive:

* `inj tag roll` — does `inject_error` return `Some` for the request with payload `tag` and this roll (rolls are 53-bit
  numerators; `P53` is the default roll `1.0` that is passed when `error_rate() > 0.0` is false);
* `cfg.eT` — the threshold of whatever `error_rate()` returns (`> P53` for a rate above 1: nothing clamps it here).

Everything the poll-level machine proves (`TR.Props.C19`: an injected error skips the inner call, the shape and the
instants of a request's log lines, the decisions of a service are the prefix of its stream, independence of the
services) is about the decision TAKEN and holds for every injector — those theorems have no hypothesis on where the
decisions come from. What depends on the injector is the decision function itself:

* survives for every injector: an injected latency lies within the bounds (`decideI_latency_range`), needs a positive
  latency rate (`decideI_latency_pos`); "inject" is decided exactly when the injector says so (`decideI_error_iff`);
* "error rate 0 ⇒ never" needs: the injector declines the default roll 1.0 (`decideI_never_at_zero`) — an injector that
  returns `Some` regardless of the roll breaks transparency (`injector_ignoring_the_roll`);
* "error rate 1 ⇒ always" needs: the injector accepts every roll below 1 (`decideI_always_at_one`) — one that never
  injects although it reports rate 1 gives a layer that neither fails nor delays anything (`injector_reporting_a_rate_it_ignores`);
* "a function of the seed and the order of requests" needs: the injector does not look at the request
  (`streamI_payload_independent`); one that does makes the decisions depend on the payloads (`injector_reading_the_request`);
* with `inj _ r = (r < rate)` the block is today's (`decideI_shipped`), with the constant `false` and rate 0 it is the
  latency-only layer (`decideI_no_injection`).
-/
namespace TR.Chaos

/-- service.rs:64-91 over an arbitrary `ErrorInjector` -/
def decideI {γ : Type} (G : Gen γ) (inj : Nat → Nat → Bool) (cfg : Cfg) (tag : Nat) (g : γ) : Decision × γ :=
  -- `let mut error_roll = 1.0; if config.error_injector.error_rate() > 0.0 { error_roll = rng.random(); }`
  let e : Nat × γ := if cfg.eT > 0 then G.nextF g else (P53, g)
  -- `if config.latency_rate > 0.0 && error_roll >= config.error_injector.error_rate() { … }`
  let l : Option Nat × γ :=
    if cfg.lT > 0 ∧ e.1 ≥ cfg.eT then
      let lr := G.nextF e.2
      if lr.1 < cfg.lT then
        if cfg.maxMs > cfg.minMs then
          let d := G.nextR cfg.minMs cfg.maxMs lr.2
          (some d.1, d.2)
        else (some cfg.minMs, lr.2)
      else (none, lr.2)
    else (none, e.2)
  -- `if let Some(err) = config.error_injector.inject_error(&req, error_roll) { … return Err(err); }`
  if inj tag e.1 then (.error, l.2)
  else match l.1 with
    | some ms => (.latency ms, l.2)
    | none => (.pass, l.2)

/-- the roll handed to `inject_error` -/
def errorRoll {γ : Type} (G : Gen γ) (cfg : Cfg) (g : γ) : Nat := (if cfg.eT > 0 then G.nextF g else (P53, g)).1

/-- `CustomErrorFn` (config.rs:67-82): today's decision block -/
theorem decideI_of_exact {γ : Type} (G : Gen γ) (inj : Nat → Nat → Bool) (cfg : Cfg) (tag : Nat) (g : γ)
    (hx : ∀ r, inj tag r = decide (r < cfg.eT)) : decideI G inj cfg tag g = decideG G cfg g := by
  unfold decideI decideG
  extract_lets e l
  simp only [hx, decide_eq_true_eq]
  by_cases h : e.1 < cfg.eT
  · simp only [h, if_true]
  · simp only [h, if_false]
    cases l.1 <;> rfl

theorem decideI_shipped {γ : Type} (G : Gen γ) (cfg : Cfg) (tag : Nat) (g : γ) :
    decideI G (fun _ r => decide (r < cfg.eT)) cfg tag g = decideG G cfg g :=
  decideI_of_exact G _ cfg tag g (fun _ => rfl)

/-- `NoErrorInjection` (config.rs:30-38): `None` whatever the roll, rate 0 -/
theorem decideI_no_injection {γ : Type} (G : Gen γ) (cfg : Cfg) (tag : Nat) (g : γ) (he : cfg.eT = 0) :
    decideI G (fun _ _ => false) cfg tag g = decideG G cfg g :=
  decideI_of_exact G _ cfg tag g (fun r => by simp [he])

/-- for every injector: "inject" is decided exactly when the injector returns `Some` for the roll it is given -/
theorem decideI_error_iff {γ : Type} (G : Gen γ) (inj : Nat → Nat → Bool) (cfg : Cfg) (tag : Nat) (g : γ) :
    (decideI G inj cfg tag g).1 = .error ↔ inj tag (errorRoll G cfg g) = true := by
  unfold decideI errorRoll
  by_cases hi : inj tag (if cfg.eT > 0 then G.nextF g else (P53, g)).1 = true
  · simp [hi]
  · simp only [hi, Bool.false_eq_true, if_false, iff_false]
    split <;> simp

/-- for every injector: an injected latency is `random_range(min..=max)` when `max > min`, `min` otherwise -/
theorem decideI_latency {γ : Type} (G : Gen γ) (inj : Nat → Nat → Bool) (cfg : Cfg) (tag : Nat) (g : γ) (ms : Nat)
    (h : (decideI G inj cfg tag g).1 = .latency ms) :
    cfg.lT > 0 ∧ ((cfg.maxMs > cfg.minMs ∧ ∃ g', ms = (G.nextR cfg.minMs cfg.maxMs g').1) ∨
      (cfg.maxMs ≤ cfg.minMs ∧ ms = cfg.minMs)) := by
  unfold decideI at h
  by_cases hi : inj tag (if cfg.eT > 0 then G.nextF g else (P53, g)).1 = true
  · simp [hi] at h
  · simp only [hi, Bool.false_eq_true, if_false] at h
    by_cases hc : cfg.lT > 0 ∧ (if cfg.eT > 0 then G.nextF g else (P53, g)).1 ≥ cfg.eT
    · refine ⟨hc.1, ?_⟩
      simp only [hc, and_self, if_true] at h
      by_cases hl : (G.nextF (if cfg.eT > 0 then G.nextF g else (P53, g)).2).1 < cfg.lT
      · simp only [hl, if_true] at h
        by_cases hm : cfg.maxMs > cfg.minMs
        · simp only [hm, if_true] at h
          injection h with h
          exact Or.inl ⟨hm, _, h.symm⟩
        · simp only [hm, if_false] at h
          injection h with h
          exact Or.inr ⟨by omega, h.symm⟩
      · simp [hl] at h
    · simp [hc] at h

/-- **For every injector an injected latency lies within the bounds** (`= min` when `min ≥ max`). -/
theorem decideI_latency_range {γ : Type} (G : Gen γ) (inj : Nat → Nat → Bool) (cfg : Cfg) (tag : Nat) (g : γ) (ms : Nat)
    (hL : Lawful cfg G) (h : (decideI G inj cfg tag g).1 = .latency ms) :
    (cfg.minMs ≤ cfg.maxMs → cfg.minMs ≤ ms ∧ ms ≤ cfg.maxMs) ∧ (cfg.maxMs ≤ cfg.minMs → ms = cfg.minMs) := by
  rcases (decideI_latency G inj cfg tag g ms h).2 with ⟨hm, g', rfl⟩ | ⟨hm, rfl⟩
  · exact ⟨fun hle => hL.range hle g', fun hle => by omega⟩
  · exact ⟨fun hle => by omega, fun _ => rfl⟩

theorem decideI_latency_pos {γ : Type} (G : Gen γ) (inj : Nat → Nat → Bool) (cfg : Cfg) (tag : Nat) (g : γ) (ms : Nat)
    (h : (decideI G inj cfg tag g).1 = .latency ms) : cfg.lT > 0 :=
  (decideI_latency G inj cfg tag g ms h).1

/-- "error rate 0 ⇒ never an error; both rates 0 ⇒ transparent, no draw" holds for every injector that declines the
default roll 1.0 -/
theorem decideI_never_at_zero {γ : Type} (G : Gen γ) (inj : Nat → Nat → Bool) (cfg : Cfg) (tag : Nat) (g : γ)
    (he : cfg.eT = 0) (hd : inj tag P53 = false) :
    (decideI G inj cfg tag g).1 ≠ .error ∧ (cfg.lT = 0 → decideI G inj cfg tag g = (.pass, g)) := by
  constructor
  · intro h
    have := (decideI_error_iff G inj cfg tag g).mp h
    simp [errorRoll, he, hd] at this
  · intro hl
    simp [decideI, he, hl, hd]

/-- "error rate 1 ⇒ every call fails" holds for every injector that accepts every roll below 1 -/
theorem decideI_always_at_one {γ : Type} (G : Gen γ) (inj : Nat → Nat → Bool) (cfg : Cfg) (tag : Nat) (g : γ)
    (hL : Lawful cfg G) (he : cfg.eT = P53) (ha : ∀ r, r < P53 → inj tag r = true) :
    (decideI G inj cfg tag g).1 = .error := by
  apply (decideI_error_iff G inj cfg tag g).mpr
  have hp : (0 : Nat) < P53 := by decide
  simp only [errorRoll, he, gt_iff_lt, hp, if_true]
  exact ha _ (hL.roll g)

/-- the boundary clauses of the property hold for every injector that injects exactly below its reported rate — it
then IS today's block -/
theorem decideI_allowed {γ : Type} (G : Gen γ) (inj : Nat → Nat → Bool) (cfg : Cfg) (tag : Nat) (g : γ)
    (hL : Lawful cfg G) (hx : ∀ r, inj tag r = decide (r < cfg.eT)) :
    allowedDec cfg (decideI G inj cfg tag g).1 = true := by
  rw [decideI_of_exact G inj cfg tag g hx]
  exact decideG_allowed G cfg g hL

/-! ### the decisions of a sequence of requests -/

/-- the decisions of the requests with payloads `tags`, first polled in this order on a service whose generator starts
in state `g` -/
def streamI {γ : Type} (G : Gen γ) (inj : Nat → Nat → Bool) (cfg : Cfg) : γ → List Nat → List Decision
  | _, [] => []
  | g, tag :: tl => (decideI G inj cfg tag g).1 :: streamI G inj cfg (decideI G inj cfg tag g).2 tl

/-- **An injector that does not look at the request gives a function of the seed and the order of requests alone**:
whatever the payloads, the decisions are those of any other payload sequence of the same length. -/
theorem streamI_payload_independent {γ : Type} (G : Gen γ) (inj : Nat → Nat → Bool) (cfg : Cfg)
    (hind : ∀ t t' r, inj t r = inj t' r) (g : γ) (tags tags' : List Nat) (hlen : tags.length = tags'.length) :
    streamI G inj cfg g tags = streamI G inj cfg g tags' := by
  have hdec : ∀ t t' g, decideI G inj cfg t g = decideI G inj cfg t' g := by
    intro t t' g
    simp only [decideI, hind t t']
  induction tags generalizing g tags' with
  | nil => cases tags' with
    | nil => rfl
    | cons _ _ => simp at hlen
  | cons t tl ih =>
      cases tags' with
      | nil => simp at hlen
      | cons t' tl' =>
          simp only [streamI]
          rw [hdec t t' g]
          congr 1
          exact ih _ tl' (by simpa using hlen)

/-- the shipped injector: the stream of today's block, whatever the payloads -/
theorem streamI_shipped {γ : Type} (G : Gen γ) (cfg : Cfg) (g : γ) (tags : List Nat) :
    streamI G (fun _ r => decide (r < cfg.eT)) cfg g tags = streamG G cfg g tags.length := by
  induction tags generalizing g with
  | nil => rfl
  | cons t tl ih => simp only [streamI, streamG, List.length_cons, decideI_shipped, ih]

/-! ### injectors that break a clause (each is a legal `impl ErrorInjector`) -/

/-- `inject_error` returns `Some` whatever the roll, `error_rate()` is 0: the roll is the default 1.0, the injector is
asked all the same, every call fails — "with both rates 0 the layer is transparent" does not survive. -/
theorem injector_ignoring_the_roll {γ : Type} (G : Gen γ) (cfg : Cfg) (tag : Nat) (g : γ) (he : cfg.eT = 0) (hl : cfg.lT = 0) :
    decideI G (fun _ _ => true) cfg tag g = (.error, g) := by
  simp [decideI, he, hl]

/-- `error_rate()` is 1 and `inject_error` returns `None` whatever the roll: no call fails — and none is delayed
either, at any latency rate, because `error_roll >= error_rate` is false for every roll below 1. -/
theorem injector_reporting_a_rate_it_ignores {γ : Type} (G : Gen γ) (cfg : Cfg) (tag : Nat) (g : γ) (hL : Lawful cfg G)
    (he : cfg.eT = P53) : decideI G (fun _ _ => false) cfg tag g = (.pass, (G.nextF g).2) := by
  have hr := hL.roll g
  have hp : (0 : Nat) < P53 := by decide
  have hn : ¬ (cfg.lT > 0 ∧ (G.nextF g).1 ≥ P53) := by omega
  simp [decideI, he, hp, hn]

/-- `inject_error` looks at the request (here: fails the requests with an odd payload): the same seed, the same
position in the order of requests, two payloads — two decisions. The decisions are then a function of the seed, the
order AND the payloads. -/
theorem injector_reading_the_request {γ : Type} (G : Gen γ) (cfg : Cfg) (g : γ) (hl : cfg.lT = 0) :
    (decideI G (fun tag _ => tag % 2 == 1) cfg 1 g).1 = .error ∧
    (decideI G (fun tag _ => tag % 2 == 1) cfg 2 g).1 = .pass := by
  simp [decideI, hl]

end TR.Chaos
