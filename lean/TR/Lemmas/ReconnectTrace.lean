import TR.Lemmas.ReconnectLog
/-!
# Reconnect (C16): reading a well-formed timestamped log, and the polled-when-woken discipline

Part 1 is pure log theory: what `WFT` (every line justified by the lines before it, `TR.Lemmas.ReconnectLog`) says about
the lines of one request — a retry is preceded by `inner_call c k0 … inner_done c k0 err<kd>` with nothing of `c` in
between, an `inner_done` by its own `inner_call`, nothing of `c` follows its `result` / `inner_drop` line, and after
`inner_done c k ok` only `result c ok:k` follows.

Part 2: the retry instant is EXACTLY `failure instant + delay` when the request is polled whenever its back-off timer
fires (`PolledWhenWoken`: the clock never moves past the end of a back-off of the request) and the wrapped service has no
recovery time (`noRecovery`; otherwise the retry is due when the service is ready again).
-/
namespace TR.Reconnect

/-! ## reading a well-formed log -/

/-- a retry line: either it is the request's first `inner_call`, or the lines of the request before it end with
`inner_call c k0` (at `t0`) and `inner_done c k0 err<kd>` (at `t1 ≥ t0`), `kd` accepted by the predicate,
`retry_on_reconnect` on, attempts left, and the retry is not before `t1 + delay` for a delay `d` the policy allows for
this attempt -/
theorem retry_structure {cfg : Cfg} {T pre post : List (Nat × REv)} {t c k : Nat} (hW : WFT cfg T)
    (hT : T = pre ++ (t, .call c k) :: post) :
    callsInT c pre = 0 ∨
    ∃ p1 t0 k0 mid t1 kd mid2 d,
      pre = p1 ++ (t0, .call c k0) :: (mid ++ (t1, .done c k0 (.err kd)) :: mid2) ∧
      (∀ y ∈ mid, isMine c y = false) ∧ (∀ y ∈ mid2, isMine c y = false) ∧
      cfg.reconn kd = true ∧ cfg.retry = true ∧ exceeded cfg (callsInT c pre) = false ∧
      cfg.policy.allowed (callsInT c pre) d = true ∧ t0 ≤ t1 ∧ t1 + ceilMs d ≤ t := by
  obtain ⟨_, he⟩ := hW pre t _ post hT
  rcases he with h0 | ⟨t1, k1, kd, d, hl, h2, h3, h4, h5, h6⟩
  · left
    rw [callsInT_eq_length, callLines_nil_of_unknown ((lastMine_none_iff c pre).1 h0)]
    rfl
  · right
    obtain ⟨a, b, hab, hb⟩ := lastMine_split hl
    have hsplit : T = a ++ (t1, .done c k1 (.err kd)) :: (b ++ (t, .call c k) :: post) := by rw [hT, hab]; simp
    obtain ⟨hmono, t0, hcall⟩ := hW a t1 _ _ hsplit
    obtain ⟨a1, a2, ha, ha2⟩ := lastMine_split hcall
    refine ⟨a1, t0, k1, a2, t1, kd, b, d, by rw [hab, ha]; simp, ha2, hb, h2, h3, h4, h5, ?_, h6⟩
    exact hmono (t0, REv.call c k1) (by rw [ha]; simp)

/-- an `inner_done c k _` (or `inner_drop c k`) line directly follows, among the lines of `c`, the line `inner_call c k` -/
theorem end_follows_its_call {cfg : Cfg} {T pre post : List (Nat × REv)} {t c k : Nat} {e : REv} (hW : WFT cfg T)
    (hT : T = pre ++ (t, e) :: post) (he : (∃ o, e = .done c k o) ∨ e = .dropped c k) :
    ∃ p1 t0 mid, pre = p1 ++ (t0, .call c k) :: mid ∧ (∀ y ∈ mid, isMine c y = false) ∧ t0 ≤ t := by
  obtain ⟨hmono, hev⟩ := hW pre t _ post hT
  have : ∃ t0, lastMine c pre = some (t0, .call c k) := by
    rcases he with ⟨o, rfl⟩ | rfl <;> exact hev
  obtain ⟨t0, hcall⟩ := this
  obtain ⟨a1, a2, ha, ha2⟩ := lastMine_split hcall
  exact ⟨a1, t0, a2, ha, ha2, hmono (t0, REv.call c k) (by rw [ha]; simp)⟩

/-- the first line of request `c` in a list that has one -/
theorem first_mine {c : Nat} : ∀ {post : List (Nat × REv)}, (∃ y ∈ post, isMine c y = true) →
    ∃ a y b, post = a ++ y :: b ∧ isMine c y = true ∧ ∀ z ∈ a, isMine c z = false := by
  intro post
  induction post with
  | nil => rintro ⟨y, hy, _⟩; simp at hy
  | cons hd tl ih =>
    rintro ⟨y, hy, hm⟩
    by_cases hh : isMine c hd = true
    · exact ⟨[], hd, tl, rfl, hh, by simp⟩
    · have hh' : isMine c hd = false := by simpa using hh
      simp at hy
      rcases hy with rfl | hy
      · rw [hm] at hh'; simp at hh'
      · obtain ⟨a, y', b, hab, hy', ha⟩ := ih ⟨y, hy, hm⟩
        refine ⟨hd :: a, y', b, by rw [hab]; rfl, hy', ?_⟩
        intro z hz
        simp at hz
        rcases hz with rfl | hz
        · exact hh'
        · exact ha z hz

/-- the next line of `c` after a line `l` of `c` is justified by a log whose latest line of `c` is `l` -/
theorem next_line {cfg : Cfg} {c : Nat} {T pre a b : List (Nat × REv)} {l y : Nat × REv} (hW : WFT cfg T)
    (hT : T = pre ++ l :: (a ++ y :: b)) (hl : isMine c l = true) (ha : ∀ z ∈ a, isMine c z = false) :
    lastMine c (pre ++ l :: a) = some l ∧ EvOK cfg (pre ++ l :: a) y.1 y.2 := by
  refine ⟨lastMine_of_split hl ha, ?_⟩
  exact (hW (pre ++ l :: a) y.1 y.2 b (by rw [hT]; simp)).2

/-- the event closes the request's line sequence -/
def isFinal (c : Nat) : REv → Bool
  | .result c' _ => c' == c
  | .dropped c' _ => c' == c
  | _ => false

/-- **nothing of request `c` follows its `result` line** (nor its `inner_drop` line): no further call, completion or
second result -/
theorem final_line {cfg : Cfg} {c : Nat} {T pre post : List (Nat × REv)} {t : Nat} {e : REv} (hW : WFT cfg T)
    (hT : T = pre ++ (t, e) :: post) (hf : isFinal c e = true) : ∀ y ∈ post, isMine c y = false := by
  intro y hy
  cases hm : isMine c y with
  | false => rfl
  | true =>
    exfalso
    obtain ⟨a, y', b, hab, hy', ha⟩ := first_mine ⟨y, hy, hm⟩
    have hl : isMine c (t, e) = true := by
      cases e <;> simp [isFinal] at hf <;> simp [isMine, owner, hf]
    obtain ⟨hlast, hev⟩ := next_line hW (by rw [hT, hab]) hl ha
    obtain ⟨t', e'⟩ := y'
    have hne1 : ∀ t0 k0, lastMine c (pre ++ (t, e) :: a) ≠ some (t0, REv.call c k0) := by
      intro t0 k0 h; rw [hlast] at h; cases h; simp [isFinal] at hf
    have hne2 : ∀ t0 k0 o, lastMine c (pre ++ (t, e) :: a) ≠ some (t0, REv.done c k0 o) := by
      intro t0 k0 o h; rw [hlast] at h; cases h; simp [isFinal] at hf
    have hne3 : lastMine c (pre ++ (t, e) :: a) ≠ none := by rw [hlast]; simp
    have hretry : ¬ RetryOK cfg c (pre ++ (t, e) :: a) t' := by
      rintro ⟨t1, k1, kd, d, h, _⟩; exact hne2 _ _ _ h
    cases e' with
    | call c' k' =>
      have : c' = c := by simpa [isMine, owner] using hy'
      subst this
      rcases hev with h | h
      · exact hne3 h
      · exact hretry h
    | done c' k' o =>
      have : c' = c := by simpa [isMine, owner] using hy'
      subst this
      obtain ⟨t0, h⟩ := hev
      exact hne1 _ _ h
    | dropped c' k' =>
      have : c' = c := by simpa [isMine, owner] using hy'
      subst this
      obtain ⟨t0, h⟩ := hev
      exact hne1 _ _ h
    | result c' r =>
      have : c' = c := by simpa [isMine, owner] using hy'
      subst this
      cases r with
      | ok k' => exact hne2 _ _ _ hev
      | panic => obtain ⟨k', h⟩ := hev; exact hne2 _ _ _ h
      | service kd k' => exact hne2 _ _ _ hev.1
      | connFailed kd k' => exact hne2 _ _ _ hev.1
      | noRetry kd k' => obtain ⟨t1, d, h, _⟩ := hev; exact hne2 _ _ _ h
      | maxAttempts n kd k' => exact hne2 _ _ _ hev.1
      | readyErr => exact hretry hev.2
      | notReady => exact hne3 hev
    | probe x => simp [isMine, owner] at hy'
    | bad => simp [isMine, owner] at hy'
    | readyErr => simp [isMine, owner] at hy'

/-- **the first success ends the request**: after `inner_done c k ok` the only further line of `c` is `result c ok:k`, at
the same instant — no further call -/
theorem after_success {cfg : Cfg} {c : Nat} {T pre post : List (Nat × REv)} {t k : Nat} (hW : WFT cfg T)
    (hT : T = pre ++ (t, .done c k .ok) :: post) : ∀ y ∈ post, isMine c y = true → y = (t, .result c (.ok k)) := by
  intro y hy hm
  obtain ⟨a, y', b, hab, hy', ha⟩ := first_mine ⟨y, hy, hm⟩
  have hl : isMine c (t, REv.done c k .ok) = true := by simp [isMine, owner]
  obtain ⟨hlast, hev⟩ := next_line hW (by rw [hT, hab]) hl ha
  obtain ⟨t', e'⟩ := y'
  have hne1 : ∀ t0 k0, lastMine c (pre ++ (t, REv.done c k .ok) :: a) ≠ some (t0, REv.call c k0) := by
    intro t0 k0 h; rw [hlast] at h; cases h
  have hne2 : ∀ t0 k0 kd, lastMine c (pre ++ (t, REv.done c k .ok) :: a) ≠ some (t0, REv.done c k0 (.err kd)) := by
    intro t0 k0 kd h; rw [hlast] at h; cases h
  have hne3 : lastMine c (pre ++ (t, REv.done c k .ok) :: a) ≠ none := by rw [hlast]; simp
  have hretry : ¬ RetryOK cfg c (pre ++ (t, REv.done c k .ok) :: a) t' := by
    rintro ⟨t1, k1, kd, d, h, _⟩; exact hne2 _ _ _ h
  -- the first line of `c` after the success is the result line
  have hfirst : (t', e') = (t, REv.result c (.ok k)) := by
    cases e' with
    | call c' k' =>
      have : c' = c := by simpa [isMine, owner] using hy'
      subst this
      rcases hev with h | h
      · exact absurd h hne3
      · exact absurd h hretry
    | done c' k' o =>
      have : c' = c := by simpa [isMine, owner] using hy'
      subst this
      obtain ⟨t0, h⟩ := hev
      exact absurd h (hne1 _ _)
    | dropped c' k' =>
      have : c' = c := by simpa [isMine, owner] using hy'
      subst this
      obtain ⟨t0, h⟩ := hev
      exact absurd h (hne1 _ _)
    | result c' r =>
      have : c' = c := by simpa [isMine, owner] using hy'
      subst this
      cases r with
      | ok k' =>
        have h : lastMine c' (pre ++ (t, REv.done c' k .ok) :: a) = some (t', REv.done c' k' .ok) := hev
        rw [hlast] at h
        cases h
        rfl
      | panic => obtain ⟨k', h⟩ := hev; rw [hlast] at h; cases h
      | service kd k' => exact absurd hev.1 (hne2 _ _ _)
      | connFailed kd k' => exact absurd hev.1 (hne2 _ _ _)
      | noRetry kd k' => obtain ⟨t1, d, h, _⟩ := hev; exact absurd h (hne2 _ _ _)
      | maxAttempts n kd k' => exact absurd hev.1 (hne2 _ _ _)
      | readyErr => exact absurd hev.2 hretry
      | notReady => exact absurd hev hne3
    | probe x => simp [isMine, owner] at hy'
    | bad => simp [isMine, owner] at hy'
    | readyErr => simp [isMine, owner] at hy'
  cases hfirst
  -- and nothing of `c` follows the result line
  have hfin := final_line (c := c) hW (pre := pre ++ (t, REv.done c k .ok) :: a) (post := b) (t := t)
    (e := REv.result c (.ok k)) (by rw [hT, hab]; simp) (by simp [isFinal])
  rw [hab] at hy
  rcases List.mem_append.1 hy with h | h
  · rw [ha y h] at hm; simp at hm
  · simp at h
    rcases h with rfl | h
    · rfl
    · rw [hfin y h] at hm; simp at hm

/-! ## the polled-when-woken discipline: the retry is made exactly when the back-off ends -/

/-- the operation does not move the clock past the end of a back-off of request `c` -/
def advOK (c : Nat) (s : State) : Op → Bool
  | .adv ms =>
      match lookup s.callers c with
      | some st =>
          match st.phase with
          | .sleeping wake => decide (s.sh.now + ms ≤ wake)
          | _ => true
      | none => true
  | _ => true

def timelyFrom (cfg : Cfg) (c : Nat) : State → List Op → Bool
  | _, [] => true
  | s, op :: rest => advOK c s op && timelyFrom cfg c (stepS cfg s op) rest

/-- **the poll discipline**, a condition on the operation list alone: whenever request `c` is backing off, the clock is
not advanced past the end of that back-off — the timer fires AT its deadline (the virtual clock visits that instant) and
the woken request is polled before time goes on. (For every split `ops = pre ++ adv ms :: post`: if `c` sleeps until
`wake` after `pre`, then `now + ms ≤ wake`: `polledWhenWoken_iff`.) -/
def PolledWhenWoken (cfg : Cfg) (c : Nat) (ops : List Op) : Prop := timelyFrom cfg c init ops = true

instance (cfg : Cfg) (c : Nat) (ops : List Op) : Decidable (PolledWhenWoken cfg c ops) := by
  unfold PolledWhenWoken; infer_instance

theorem timelyFrom_iff (cfg : Cfg) (c : Nat) : ∀ (ops : List Op) (s : State),
    timelyFrom cfg c s ops = true ↔
      ∀ pre op post, ops = pre ++ op :: post → advOK c (pre.foldl (stepS cfg) s) op = true := by
  intro ops
  induction ops with
  | nil => intro s; simp [timelyFrom]
  | cons o os ih =>
    intro s
    simp only [timelyFrom, Bool.and_eq_true]
    rw [ih]
    constructor
    · rintro ⟨h1, h2⟩ pre op post hsplit
      cases pre with
      | nil => simp at hsplit; rw [← hsplit.1]; exact h1
      | cons p ps =>
        simp at hsplit
        rw [← hsplit.1]
        exact h2 ps op post hsplit.2
    · intro h
      refine ⟨h [] o os rfl, ?_⟩
      intro pre op post hsplit
      exact h (o :: pre) op post (by rw [hsplit]; rfl)

/-- the discipline in words: after any prefix of the history, an `adv ms` that follows does not jump over the end of a
back-off of `c` -/
theorem polledWhenWoken_iff (cfg : Cfg) (c : Nat) (ops : List Op) :
    PolledWhenWoken cfg c ops ↔
      ∀ pre ms post, ops = pre ++ .adv ms :: post → ∀ st wake, lookup (run cfg pre).callers c = some st →
        st.phase = .sleeping wake → (run cfg pre).sh.now + ms ≤ wake := by
  unfold PolledWhenWoken
  rw [timelyFrom_iff]
  constructor
  · intro h pre ms post hsplit st wake hl hp
    have := h pre (.adv ms) post hsplit
    unfold run at hl ⊢
    simp only [advOK, hl, hp] at this
    simpa using this
  · intro h pre op post hsplit
    cases op with
    | adv ms =>
      simp only [advOK]
      split
      · rename_i st hl
        split
        · rename_i wake hp
          have := h pre ms post hsplit st wake hl hp
          simpa [run] using this
        · rfl
      · rfl
    | _ => rfl

/-- the wrapped service has no recovery time -/
def noRecovery : Op → Bool
  | .inner _ r => r == 0
  | _ => true

/-- exactness of one line w.r.t. the lines before it: a retry of `c` is made exactly `delay` after the `inner_done`
line it follows -/
def ExactOK (cfg : Cfg) (c : Nat) (pre : List (Nat × REv)) (t : Nat) : REv → Prop
  | .call c' _ => c' = c → ∀ t1 k1 o, lastMine c pre = some (t1, .done c k1 o) →
      ∃ d, cfg.policy.allowed (callsInT c pre) d = true ∧ t = t1 + ceilMs d
  | _ => True

def ExactT (cfg : Cfg) (c : Nat) (T : List (Nat × REv)) : Prop :=
  ∀ pre t e post, T = pre ++ (t, e) :: post → ExactOK cfg c pre t e

/-- appending lines that are exact (w.r.t. ANY prefix) keeps the log exact -/
theorem exactT_append {cfg : Cfg} {c : Nat} {T U : List (Nat × REv)} (h : ExactT cfg c T)
    (hU : ∀ a t e b, U = a ++ (t, e) :: b → ExactOK cfg c (T ++ a) t e) : ExactT cfg c (T ++ U) := by
  intro pre t e post hsplit
  rcases List.append_eq_append_iff.1 hsplit with ⟨a', h1, h2⟩ | ⟨c', h1, h2⟩
  · rw [h1]; exact hU a' t e post h2
  · cases c' with
    | nil =>
      simp at h1 h2
      rw [← h1]
      have := hU [] t e post h2.symm
      simpa using this
    | cons x xs =>
      simp at h2
      obtain ⟨rfl, _⟩ := h2
      exact h pre t e xs h1

theorem exactT_append_others {cfg : Cfg} {c : Nat} {T : List (Nat × REv)} {now : Nat} {evs : List REv}
    (h : ExactT cfg c T) (hown : ∀ e ∈ evs, isCallOf c e = false) :
    ExactT cfg c (T ++ evs.map (fun e => (now, e))) := by
  apply exactT_append h
  intro a t e b hsplit
  have hmem : (t, e) ∈ evs.map (fun e => (now, e)) := by rw [hsplit]; simp
  obtain ⟨e', he', heq⟩ := List.mem_map.1 hmem
  simp at heq
  obtain ⟨_, rfl⟩ := heq
  have := hown e' he'
  cases e' <;> simp [ExactOK]
  rename_i c' k'
  intro hc
  subst hc
  simp [isCallOf] at this

theorem not_call_of_owner {c c' : Nat} {e : REv} (hne : c' ≠ c) (h : owner e = some c' ∨ owner e = none) :
    isCallOf c e = false := by
  cases e <;> simp [isCallOf, owner] at h ⊢
  rw [h]; exact hne

/-- the wrapped service is always ready (no recovery time configured, none in progress) -/
def NoRec (w : Shared) : Prop := w.recover = 0 ∧ w.busyUntil = 0

theorem onError_norec {cfg : Cfg} {c : Nat} {st : Caller} {w : Shared} {kd k : Nat} (h : NoRec w) :
    NoRec (onError cfg c st w kd k).2 := by
  unfold onError
  split
  · exact h
  · simp only
    split
    · exact h
    · split <;> exact h

theorem trans_norec {cfg : Cfg} {c : Nat} {st : Caller} {w : Shared} {p : Caller × Shared} (h : NoRec w)
    (ht : trans cfg c st w = some p) : NoRec p.2 := by
  unfold trans at ht
  split at ht
  · unfold transCalling at ht
    split at ht
    · simp at ht
    · split at ht
      · simp at ht
      · simp at ht; subst ht; exact h
      · simp at ht; subst ht; exact h
      · rename_i k _ _ _ kd _
        simp at ht; subst ht
        exact @onError_norec cfg c st (emit [.done c k (.err kd)] w) kd k h
  · unfold transSleeping at ht
    split at ht
    · simp at ht
    · split at ht
      · simp at ht; subst ht; exact h
      · split at ht
        · simp at ht; subst ht; exact h
        · simp at ht
  · unfold transReadying at ht
    split at ht
    · simp at ht
    · split at ht
      · simp at ht
      · simp at ht; subst ht
        obtain ⟨h1, h2⟩ := h
        exact ⟨h1, by simp [startCall, emit, popScript, h1, h2]⟩
      · simp at ht; subst ht; exact h
  · simp at ht

theorem loop_norec {cfg : Cfg} {c : Nat} (n : Nat) {st : Caller} {w : Shared} (h : NoRec w) :
    NoRec (loop cfg c n st w).2 := by
  induction n generalizing st w with
  | zero => exact h
  | succ n ih =>
    unfold loop
    split
    · exact h
    · rename_i st' w' ht
      exact ih (trans_norec h ht)

/-- request `c` has not overslept: a back-off of `c` has not ended yet, and `c` reached `Readying` at the very instant
its back-off ended -/
def PromptC (st : Caller) (w : Shared) : Prop :=
  (∀ wake, st.phase = .sleeping wake → w.now ≤ wake) ∧ (∀ wake, st.phase = .readying wake → w.now = wake)

theorem trans_prompt {cfg : Cfg} {c : Nat} {st : Caller} {w : Shared} {p : Caller × Shared}
    (hg : Good cfg st) (hT : Tied c st w) (hP : PromptC st w) (hE : ExactT cfg c w.tlog)
    (ht : trans cfg c st w = some p) : PromptC p.1 p.2 ∧ ExactT cfg c p.2.tlog := by
  have hnotcall : ∀ {evs : List REv}, (∀ e ∈ evs, isCallOf c e = false) → ∀ w' : Shared,
      w'.tlog = w.tlog ++ evs.map (fun e => (w.now, e)) → ExactT cfg c w'.tlog := by
    intro evs h w' e; rw [e]; exact exactT_append_others hE h
  unfold trans at ht
  split at ht
  · rename_i k d o hph
    -- no `inner_call` line is added in the Calling phase
    obtain ⟨_, evs, _, htl, hown⟩ := trans_ext (show trans cfg c st w = some p by unfold trans; rw [hph]; exact ht)
    have hnc : ∀ e ∈ evs, isCallOf c e = false := by
      intro e he
      have hcnt := (trans_calls (show trans cfg c st w = some p by unfold trans; rw [hph]; exact ht)).2
      have hlen : p.1.calls.length = st.calls.length := by
        unfold transCalling at ht
        split at ht
        · simp at ht
        · split at ht
          · simp at ht
          · simp at ht; subst ht; rfl
          · simp at ht; subst ht; rfl
          · simp at ht; subst ht
            unfold onError
            split
            · rfl
            · simp only
              split
              · rfl
              · split <;> rfl
      rename_i hlog
      rw [hlog, hlen] at hcnt
      simp only [callsIn, List.countP_append] at hcnt
      have : List.countP (isCallOf c) evs = 0 := by omega
      rw [List.countP_eq_zero] at this
      simpa using this e he
    refine ⟨?_, hnotcall hnc _ htl⟩
    unfold transCalling at ht
    split at ht
    · simp at ht
    · split at ht
      · simp at ht
      · simp at ht; subst ht; exact ⟨fun wk h => by simp [finish] at h, fun wk h => by simp [finish] at h⟩
      · simp at ht; subst ht; exact ⟨fun wk h => by simp [finish] at h, fun wk h => by simp [finish] at h⟩
      · rename_i kd
        simp at ht; subst ht
        unfold onError
        split
        · exact ⟨fun wk h => by simp [finish] at h, fun wk h => by simp [finish] at h⟩
        · simp only
          split
          · exact ⟨fun wk h => by simp [finish] at h, fun wk h => by simp [finish] at h⟩
          · split
            · exact ⟨fun wk h => by simp [finish] at h, fun wk h => by simp [finish] at h⟩
            · exact ⟨fun wk h => by simp at h, fun wk h => by simp at h⟩
            · refine ⟨fun wk h => ?_, fun wk h => by simp at h⟩
              simp at h
              simp [emit, ← h]
  · rename_i wk hph
    unfold transSleeping at ht
    split at ht
    · simp at ht
    · rename_i hnow
      split at ht
      · simp at ht; subst ht
        refine ⟨⟨fun wk' h => by simp at h, fun wk' h => ?_⟩, hE⟩
        simp at h
        have := hP.1 wk hph
        show w.now = wk'
        omega
      · split at ht
        · rename_i kd' k' _
          simp at ht; subst ht
          refine ⟨⟨fun wk h => by simp [finish] at h, fun wk h => by simp [finish] at h⟩, ?_⟩
          exact hnotcall (evs := [.result c (.noRetry kd' k')]) (by simp [isCallOf]) _ (by simp [finish, emit])
        · simp at ht
  · rename_i wk hph
    unfold transReadying at ht
    split at ht
    · simp at ht
    · rename_i hnow
      split at ht
      · simp at ht
      · simp at ht; subst ht
        refine ⟨⟨fun wk' h => by simp [startCall] at h, fun wk' h => by simp [startCall] at h⟩, ?_⟩
        have htl : (startCall c st (popScript w)).2.tlog = w.tlog ++ [(w.now, .call c w.serial)] := rfl
        rw [htl]
        apply exactT_append hE
        intro a t e b hsplit
        have : a = [] ∧ (t, e) = (w.now, REv.call c w.serial) ∧ b = [] := by
          cases a with
          | nil => simp at hsplit; exact ⟨rfl, by rw [hsplit.1.1, hsplit.1.2], hsplit.2⟩
          | cons x xs => simp at hsplit
        obtain ⟨rfl, heq, _⟩ := this
        cases heq
        simp only [List.append_nil, ExactOK]
        intro _ t1 k1 o hlast
        obtain ⟨hretry, hlen, hex, h, tl, kd, sl, hcalls, ho, hre, hpend, hatt, hal, hsince, hwake⟩ := hg.readying wk hph
        obtain ⟨sl', h', tl', kd', hpend', hcalls', ho', hlast'⟩ := hT.waiting wk (Or.inr hph)
        rw [hpend] at hpend'; cases hpend'
        rw [hlast'] at hlast; cases hlast
        refine ⟨sl.delay, by rw [hT.count, hlen]; exact hal, ?_⟩
        have := hP.2 wk hph
        omega
      · simp at ht; subst ht
        refine ⟨⟨fun wk h => by simp [finish] at h, fun wk h => by simp [finish] at h⟩, ?_⟩
        exact hnotcall (evs := [.readyErr, .result c .readyErr]) (by simp [isCallOf]) _ (by simp [finish, emit, popScript])
  · simp at ht

theorem loop_prompt {cfg : Cfg} {c : Nat} (n : Nat) {st : Caller} {w : Shared}
    (hg : Good cfg st) (hT : Tied c st w) (hG : LogG cfg w) (hP : PromptC st w) (hE : ExactT cfg c w.tlog) :
    PromptC (loop cfg c n st w).1 (loop cfg c n st w).2 ∧ ExactT cfg c (loop cfg c n st w).2.tlog := by
  induction n generalizing st w with
  | zero => exact ⟨hP, hE⟩
  | succ n ih =>
    unfold loop
    split
    · exact ⟨hP, hE⟩
    · rename_i st' w' ht
      obtain ⟨h1, h2⟩ := trans_log hg hT hG ht
      obtain ⟨h3, h4⟩ := trans_prompt hg hT hP hE ht
      exact ih (trans_good hg ht) h1 h2 h3 h4

/-- the state-level invariant under the discipline -/
structure Prompt (cfg : Cfg) (c : Nat) (s : State) : Prop where
  exact : ExactT cfg c s.sh.tlog
  norec : NoRec s.sh
  mine : ∀ st, lookup s.callers c = some st →
    (∀ wake, st.phase = .sleeping wake → s.sh.now ≤ wake) ∧ ∀ wake, st.phase ≠ .readying wake

theorem exactOK_of_unknown {cfg : Cfg} {c c' k t : Nat} {T : List (Nat × REv)}
    (h : c' = c → lastMine c T = none) : ExactOK cfg c T t (.call c' k) := by
  intro hc t1 k1 o hlast
  rw [h hc] at hlast
  simp at hlast

theorem exactT_snoc {cfg : Cfg} {c t : Nat} {e : REv} {T : List (Nat × REv)} (h : ExactT cfg c T)
    (he : ExactOK cfg c T t e) : ExactT cfg c (T ++ [(t, e)]) := by
  apply exactT_append h
  intro a t' e' b hsplit
  cases a with
  | nil => simp at hsplit; rw [← hsplit.1.1, ← hsplit.1.2]; simpa using he
  | cons x xs => simp at hsplit

theorem stepS_prompt {cfg : Cfg} {c : Nat} {s : State} (op : Op) (hg : AllGood cfg s) (hl : LogInv cfg s)
    (hp : Prompt cfg c s) (hop : advOK c s op = true) (hnr : noRecovery op = true) :
    Prompt cfg c (stepS cfg s op) := by
  cases op with
  | adv ms =>
    refine ⟨hp.exact, hp.norec, ?_⟩
    intro st hst
    refine ⟨?_, (hp.mine st hst).2⟩
    intro wake hph
    show s.sh.now + ms ≤ wake
    have hst' : lookup s.callers c = some st := hst
    simp only [advOK, hst', hph] at hop
    simpa using hop
  | incr => exact ⟨hp.exact, hp.norec, hp.mine⟩
  | inner sc r =>
    refine ⟨hp.exact, ?_, hp.mine⟩
    have : r = 0 := by simpa [noRecovery] using hnr
    exact ⟨this, hp.norec.2⟩
  | probe =>
    refine ⟨?_, hp.norec, hp.mine⟩
    exact exactT_snoc hp.exact trivial
  | arrive c' plan =>
    simp only [stepS]
    split
    · exact hp
    · rename_i hnone
      have hunk : c' = c → lastMine c s.sh.tlog = none := by
        intro hc; subst hc
        exact (lastMine_none_iff _ _).2 (hl.known _ hnone)
      cases hra : readyAns s.sh with
      | ready =>
        dsimp only
        refine ⟨?_, ?_, ?_⟩
        · exact exactT_snoc hp.exact (exactOK_of_unknown hunk)
        · obtain ⟨h1, h2⟩ := hp.norec
          exact ⟨h1, by simp [startCall, emit, popScript, h1, h2]⟩
        · intro st hst
          rw [lookup_cons] at hst
          split at hst
          · simp at hst; subst hst
            exact ⟨fun wk h => by simp [startCall, newCaller] at h, fun wk h => by simp [startCall, newCaller] at h⟩
          · exact hp.mine st hst
      | pending =>
        dsimp only
        refine ⟨exactT_snoc hp.exact trivial, hp.norec, ?_⟩
        intro st hst
        rw [lookup_cons] at hst
        split at hst
        · simp at hst; subst hst
          exact ⟨fun wk h => by simp [refused] at h, fun wk h => by simp [refused] at h⟩
        · exact hp.mine st hst
      | error =>
        dsimp only
        refine ⟨?_, hp.norec, ?_⟩
        · have : (emit [REv.readyErr, REv.result c' RRes.notReady] (popScript s.sh)).tlog
              = (s.sh.tlog ++ [(s.sh.now, REv.readyErr)]) ++ [(s.sh.now, REv.result c' RRes.notReady)] := by
            simp [emit, popScript]
          rw [this]
          exact exactT_snoc (exactT_snoc hp.exact trivial) trivial
        · intro st hst
          rw [lookup_cons] at hst
          split at hst
          · simp at hst; subst hst
            exact ⟨fun wk h => by simp [refused] at h, fun wk h => by simp [refused] at h⟩
          · exact hp.mine st hst
  | poll c' obs =>
    simp only [stepS]
    split
    · rename_i st hst
      have hT0 : Tied c' st { s.sh with obs := obs } := (hl.tied c' st hst).congr rfl
      have hG0 : LogG cfg { s.sh with obs := obs } := hl.g.congr rfl rfl
      have hN := @loop_norec cfg c' (fuel st) st { s.sh with obs := obs } hp.norec
      have hX : Ext c' s.sh (loop cfg c' (fuel st) st { s.sh with obs := obs }).2 :=
        @loop_ext cfg c' (fuel st) st { s.sh with obs := obs }
      by_cases hcc : c' = c
      · subst hcc
        have hP0 : PromptC st { s.sh with obs := obs } := by
          obtain ⟨h1, h2⟩ := hp.mine st hst
          exact ⟨h1, fun wk h => absurd h (h2 wk)⟩
        obtain ⟨h3, h4⟩ := @loop_prompt cfg c' (fuel st) st { s.sh with obs := obs } (hg c' st hst) hT0 hG0 hP0 hp.exact
        refine ⟨h4, hN, ?_⟩
        intro st' hst'
        simp [lookup_cons] at hst'
        subst hst'
        refine ⟨h3.1, ?_⟩
        intro wk hph
        -- a polled request is not left in `Readying` when the inner service is ready
        have hc := pollCaller_complete cfg c' st { s.sh with obs := obs }
        unfold pollCaller at hc hph
        unfold trans at hc
        rw [hph] at hc
        simp only [transReadying] at hc
        have hnow : (loop cfg c' (fuel st) st { s.sh with obs := obs }).2.now = wk := h3.2 wk hph
        dsimp only at hnow
        split at hc
        · omega
        · split at hc
          · rename_i hra
            unfold readyAns at hra
            split at hra
            · rename_i hb
              rw [hN.2] at hb
              omega
            · split at hra <;> simp at hra
          · simp at hc
          · simp at hc
      · obtain ⟨hn, evs, _, htl, hown⟩ := hX
        refine ⟨?_, hN, ?_⟩
        · show ExactT cfg c (pollCaller cfg c' st { s.sh with obs := obs }).2.tlog
          unfold pollCaller
          rw [htl]
          exact exactT_append_others hp.exact (fun e he => not_call_of_owner hcc (hown e he))
        · intro st' hst'
          rw [lookup_cons] at hst'
          simp [hcc] at hst'
          have := hp.mine st' hst'
          refine ⟨?_, this.2⟩
          intro wk hph
          show (pollCaller cfg c' st { s.sh with obs := obs }).2.now ≤ wk
          unfold pollCaller
          rw [hn]
          exact this.1 wk hph
    · exact hp
  | drop c' =>
    simp only [stepS]
    split
    · rename_i st hst
      obtain ⟨hn, evs, _, htl, hown⟩ := dropCaller_ext c' st s.sh
      have hnc : ∀ e ∈ evs, isCallOf c e = false := by
        intro e he
        have hcnt : callsIn c (dropCaller c' st s.sh).2.log = callsIn c s.sh.log := by
          unfold dropCaller; split <;> simp [emit, callsIn, List.countP_append, isCallOf]
        rename_i hlog
        rw [hlog] at hcnt
        simp only [callsIn, List.countP_append] at hcnt
        have : List.countP (isCallOf c) evs = 0 := by omega
        rw [List.countP_eq_zero] at this
        simpa using this e he
      refine ⟨?_, ?_, ?_⟩
      · show ExactT cfg c (dropCaller c' st s.sh).2.tlog
        rw [htl]; exact exactT_append_others hp.exact hnc
      · have : (dropCaller c' st s.sh).2.recover = s.sh.recover ∧ (dropCaller c' st s.sh).2.busyUntil = s.sh.busyUntil := by
          unfold dropCaller; split <;> exact ⟨rfl, rfl⟩
        exact ⟨this.1.trans hp.norec.1, this.2.trans hp.norec.2⟩
      · intro st' hst'
        rw [lookup_cons] at hst'
        split at hst'
        · simp at hst'; subst hst'
          have : (dropCaller c' st s.sh).1.phase = .done := by unfold dropCaller; split <;> rfl
          exact ⟨fun wk h => by rw [this] at h; simp at h, fun wk h => by rw [this] at h; simp at h⟩
        · have := hp.mine st' hst'
          refine ⟨?_, this.2⟩
          intro wk hph
          show (dropCaller c' st s.sh).2.now ≤ wk
          rw [hn]; exact this.1 wk hph
    · exact hp

theorem prompt_init (cfg : Cfg) (c : Nat) : Prompt cfg c init :=
  ⟨by intro pre t e post h; simp [init] at h, ⟨rfl, rfl⟩, by intro st h; simp [init, lookup] at h⟩

/-- under the discipline, with a wrapped service that has no recovery time, every reachable log is exact for `c` -/
theorem prompt_reachable (cfg : Cfg) (c : Nat) (ops : List Op) (hd : PolledWhenWoken cfg c ops)
    (hn : ∀ op ∈ ops, noRecovery op = true) : Prompt cfg c (run cfg ops) := by
  have key : ∀ (ops : List Op) (s : State), AllGood cfg s → LogInv cfg s → Prompt cfg c s →
      timelyFrom cfg c s ops = true → (∀ op ∈ ops, noRecovery op = true) → Prompt cfg c (ops.foldl (stepS cfg) s) := by
    intro ops
    induction ops with
    | nil => intro s _ _ h _ _; exact h
    | cons o os ih =>
      intro s hg hl hp ht hn
      simp only [timelyFrom, Bool.and_eq_true] at ht
      exact ih _ (stepS_allGood o hg) (stepS_logInv o hg hl)
        (stepS_prompt o hg hl hp ht.1 (hn o (List.mem_cons_self ..))) ht.2
        (fun op hop => hn op (List.mem_cons_of_mem _ hop))
  exact key ops _ (by intro c st h; simp [init, lookup] at h) (logInv_init cfg) (prompt_init cfg c) hd hn

/-! ## the timestamped log is what the driver prints -/

/-- one operation appends its new events, stamped with the clock of the state it leads to — what `Driver.applyStep`
prints (`t={now st'}` in front of every event the step returns, which `machineStep` computes as the new part of `log`) -/
theorem stepS_tlog (cfg : Cfg) (s : State) (op : Op) :
    (stepS cfg s op).sh.tlog =
      s.sh.tlog ++ ((stepS cfg s op).sh.log.drop s.sh.log.length).map (fun e => ((stepS cfg s op).sh.now, e)) := by
  have key : ∃ evs, (stepS cfg s op).sh.log = s.sh.log ++ evs ∧
      (stepS cfg s op).sh.tlog = s.sh.tlog ++ evs.map (fun e => ((stepS cfg s op).sh.now, e)) := by
    cases op with
    | adv ms => exact ⟨[], by simp [stepS], by simp [stepS]⟩
    | incr => exact ⟨[], by simp [stepS], by simp [stepS]⟩
    | inner sc r => exact ⟨[], by simp [stepS], by simp [stepS]⟩
    | probe => exact ⟨[.probe s.sh.conn], rfl, rfl⟩
    | arrive c plan =>
      simp only [stepS]
      split
      · exact ⟨[], by simp, by simp⟩
      · cases hra : readyAns s.sh with
        | ready => exact ⟨[.call c s.sh.serial], rfl, rfl⟩
        | pending => exact ⟨[.result c .notReady], rfl, rfl⟩
        | error => exact ⟨[.readyErr, .result c .notReady], rfl, rfl⟩
    | poll c obs =>
      simp only [stepS]
      split
      · rename_i st hst
        obtain ⟨hn, evs, h1, h2, _⟩ := @loop_ext cfg c (fuel st) st { s.sh with obs := obs }
        refine ⟨evs, h1, ?_⟩
        show (pollCaller cfg c st { s.sh with obs := obs }).2.tlog = _
        unfold pollCaller
        rw [h2]
        show _ = s.sh.tlog ++ evs.map (fun e => ((loop cfg c (fuel st) st { s.sh with obs := obs }).2.now, e))
        rw [hn]
      · exact ⟨[], by simp, by simp⟩
    | drop c =>
      simp only [stepS]
      split
      · rename_i st hst
        obtain ⟨hn, evs, h1, h2, _⟩ := dropCaller_ext c st s.sh
        refine ⟨evs, h1, ?_⟩
        show (dropCaller c st s.sh).2.tlog = s.sh.tlog ++ evs.map (fun e => ((dropCaller c st s.sh).2.now, e))
        rw [h2, hn]
      · exact ⟨[], by simp, by simp⟩
  obtain ⟨evs, h1, h2⟩ := key
  rw [h2, h1]
  simp

/-! ## deterministic policies: the delay the policy allows is the policy's delay -/

/-- `delay_for_attempt a` of a fixed, exponential or custom policy (0 for the others) -/
def Policy.delayOf : Policy → Nat → Nat
  | .fixed n, _ => n
  | .exp i c, a => expDelay i c a
  | .custom f, a => f a
  | _, _ => 0

theorem allowed_deterministic {p : Policy} {a d : Nat} (hd : p.deterministic = true) :
    p.allowed a d = true ↔ d = p.delayOf a := by
  cases p <;> simp [Policy.deterministic] at hd <;> simp [Policy.allowed, Policy.delayOf]

/-! ## several layer values: each instance's log is well formed -/

theorem stepS_now_le (cfg : Cfg) (s : State) (op : Op) : s.sh.now ≤ (stepS cfg s op).sh.now := by
  cases op with
  | adv ms => exact Nat.le_add_right _ _
  | incr => exact Nat.le_refl _
  | inner sc r => exact Nat.le_refl _
  | probe => exact Nat.le_refl _
  | arrive c plan =>
    simp only [stepS]
    split
    · exact Nat.le_refl _
    · cases hra : readyAns s.sh <;> exact Nat.le_refl _
  | poll c obs =>
    simp only [stepS]
    split
    · rename_i st hst
      have := (@loop_ext cfg c (fuel st) st { s.sh with obs := obs }).1
      show s.sh.now ≤ (pollCaller cfg c st { s.sh with obs := obs }).2.now
      unfold pollCaller
      rw [this]
      exact Nat.le_refl _
    · exact Nat.le_refl _
  | drop c =>
    simp only [stepS]
    split
    · rename_i st hst
      have := (dropCaller_ext c st s.sh).1
      show s.sh.now ≤ (dropCaller c st s.sh).2.now
      rw [this]
      exact Nat.le_refl _
    · exact Nat.le_refl _

/-- an instance that sees a later reading of the world's clock (and any call counter) still satisfies `LogInv` -/
theorem logInv_sync {cfg : Cfg} {s : State} {n k : Nat} (h : LogInv cfg s) (hn : s.sh.now ≤ n) :
    LogInv cfg (sync n k s) := by
  refine ⟨⟨h.g.wft, ?_⟩, h.same, h.pub, fun c st hl => (h.tied c st hl).congr rfl, h.known⟩
  intro l hl
  have := h.g.stamped l hl
  show l.1 ≤ n
  omega

/-- what every stored instance of a multi-layer run satisfies -/
def MInv (cfg : Cfg) (m : Multi) : Prop :=
  ∀ j, LogInv cfg (stored m j) ∧ AllGood cfg (stored m j) ∧ (stored m j).sh.now ≤ m.now

theorem stepM_minv {cfg : Cfg} {m : Multi} (iop : Nat × Op) (h : MInv cfg m) : MInv cfg (stepM cfg m iop) := by
  obtain ⟨i, op⟩ := iop
  have hi := h i
  have hL : LogInv cfg (instOf m i) := logInv_sync hi.1 hi.2.2
  have hG : AllGood cfg (instOf m i) := hi.2.1
  have hnow : m.now ≤ (stepM cfg m (i, op)).now := by
    show m.now ≤ (stepS cfg (instOf m i) op).sh.now
    exact stepS_now_le cfg (instOf m i) op
  intro j
  by_cases hj : j = i
  · subst hj
    rw [stored_self]
    exact ⟨stepS_logInv op hG hL, stepS_allGood op hG, Nat.le_refl _⟩
  · rw [stored_other cfg m i j op hj]
    have := h j
    exact ⟨this.1, this.2.1, Nat.le_trans this.2.2 hnow⟩

/-- **every layer value's log is well formed**: the instance of layer value `j` in any multi-layer run satisfies `LogInv` —
its timestamped log is well formed (`WFT`), its published state is `pubOf` of ITS log, its requests are tied to their
lines -/
theorem logInv_multi (cfg : Cfg) (ops : List (Nat × Op)) (j : Nat) : LogInv cfg (instOf (runM cfg ops) j) := by
  have key : ∀ (ops : List (Nat × Op)) (m : Multi), MInv cfg m → MInv cfg (ops.foldl (stepM cfg) m) := by
    intro ops
    induction ops with
    | nil => intro m h; exact h
    | cons o os ih => intro m h; exact ih _ (stepM_minv o h)
  have h0 : MInv cfg {} := by
    intro j
    have : stored ({} : Multi) j = init := by simp [stored, lookup]
    rw [this]
    exact ⟨logInv_init cfg, by intro c st h; simp [init, lookup] at h, Nat.le_refl _⟩
  have := key ops {} h0 j
  exact logInv_sync this.1 this.2.2

/-! ## reading `pubOf` -/

/-- the event changes the published state -/
def changesPub (cfg : Cfg) : REv → Bool
  | .done _ _ (.err kd) => cfg.reconn kd
  | .result _ (.ok _) => true
  | .result _ (.noRetry _ _) => true
  | .result _ (.maxAttempts _ _ _) => true
  | .result _ (.connFailed _ _) => true
  | .bad => true
  | _ => false

theorem pubStep_neutral {cfg : Cfg} {x : Conn} {e : REv} (h : changesPub cfg e = false) : pubStep cfg x e = x := by
  cases e with
  | done c k o =>
    cases o with
    | err kd => simp [changesPub] at h; simp [pubStep, h]
    | _ => rfl
  | result c r => cases r <;> simp [changesPub] at h <;> rfl
  | bad => simp [changesPub] at h
  | _ => rfl

theorem foldl_pubStep_neutral {cfg : Cfg} : ∀ (post : List REv) (x : Conn), (∀ e ∈ post, changesPub cfg e = false) →
    post.foldl (pubStep cfg) x = x := by
  intro post
  induction post with
  | nil => intro x _; rfl
  | cons e es ih =>
    intro x h
    simp only [List.foldl_cons]
    rw [pubStep_neutral (h e (by simp))]
    exact ih x (fun y hy => h y (by simp [hy]))

/-- the published state is decided by the latest line that changes it -/
theorem pubOf_after (cfg : Cfg) (pre post : List REv) (e : REv) (hpost : ∀ x ∈ post, changesPub cfg x = false) :
    pubOf cfg (pre ++ e :: post) = pubStep cfg (pubOf cfg pre) e := by
  rw [pubOf_append]
  simp only [List.foldl_cons]
  exact foldl_pubStep_neutral post _ hpost

/-! ## progress: with unlimited attempts and a zero delay, `n` accepted failures then a success end in that success -/

/-- the request's record after an accepted failure of call `k` was handled with a zero delay -/
def failedRec (st : Caller) (now kd k : Nat) (ph : Phase) : Caller :=
  { st with attempt := st.attempt + 1, lastErr := some (kd, k), phase := ph,
            pend := some { attempt := st.attempt + 1, since := now, delay := 0 } }

/-- … and the shared part -/
def failedSh (c : Nat) (w : Shared) (kd k : Nat) : Shared :=
  mark c .reconnecting (mark c .disconnected (emit [.done c k (.err kd)] w))

/-- the state after the retry that follows was made (three turns of the loop) -/
def afterFail (c : Nat) (st : Caller) (w : Shared) (kd k : Nat) : Caller × Shared :=
  startCall c (failedRec st w.now kd k (.readying w.now)) (popScript (failedSh c w kd k))

theorem three_turns {cfg : Cfg} (hmax : cfg.maxAttempts = none) (hretry : cfg.retry = true) (hpol : cfg.policy = .fixed 0)
    {kd c : Nat} (hk : cfg.reconn kd = true) (N : Nat) (st : Caller) (w : Shared) (k d : Nat)
    (hph : st.phase = .calling k d (.err kd)) (hd : d ≤ w.now) (hbusy : w.busyUntil ≤ w.now)
    (hscr : w.script = []) :
    loop cfg c (N + 3) st w = loop cfg c N (afterFail c st w kd k).1 (afterFail c st w kd k).2 := by
  have h1 : ¬ w.now < d := by omega
  have h2 : ¬ w.now < w.busyUntil := by omega
  have e1 : trans cfg c st w = some (failedRec st w.now kd k (.sleeping w.now), failedSh c w kd k) := by
    simp [trans, hph, transCalling, h1, onError, hk, exceeded, hmax, nextDelay, hpol, ceilMs, emit, mark, failedRec, failedSh]
  have e2 : trans cfg c (failedRec st w.now kd k (.sleeping w.now)) (failedSh c w kd k)
      = some (failedRec st w.now kd k (.readying w.now), failedSh c w kd k) := by
    simp [trans, transSleeping, hretry, emit, mark, failedRec, failedSh]
  have e3 : trans cfg c (failedRec st w.now kd k (.readying w.now)) (failedSh c w kd k) = some (afterFail c st w kd k) := by
    simp [trans, transReadying, readyAns, emit, mark, h2, hscr, afterFail, failedRec, failedSh]
  rw [show N + 3 = (N + 2) + 1 from rfl, loop, e1]
  simp only
  rw [show N + 2 = (N + 1) + 1 from rfl, loop, e2]
  simp only
  rw [loop, e3]

/-- a completed successful call: one turn returns it -/
theorem ok_turn {cfg : Cfg} {c : Nat} (N : Nat) (st : Caller) (w : Shared) (k d : Nat)
    (hph : st.phase = .calling k d .ok) (hd : d ≤ w.now) :
    (loop cfg c (N + 1) st w).1.result = some (.ok k) ∧ (loop cfg c (N + 1) st w).1.calls = st.calls ∧
    (loop cfg c (N + 1) st w).2.conn = .connected := by
  have h1 : ¬ w.now < d := by omega
  have e1 : trans cfg c st w = some (finish c (.ok k) st (mark c .connected (emit [.done c k .ok] w))) := by
    simp [trans, hph, transCalling, h1]
  rw [loop, e1]
  simp only
  rw [loop_of_done N (by simp [finish])]
  simp [finish, emit, mark]

theorem progress_loop {cfg : Cfg} (hmax : cfg.maxAttempts = none) (hretry : cfg.retry = true) (hpol : cfg.policy = .fixed 0)
    {kd c : Nat} (hk : cfg.reconn kd = true) :
    ∀ (m N : Nat) (st : Caller) (w : Shared) (k d : Nat), 3 * m + 4 ≤ N → st.phase = .calling k d (.err kd) → d ≤ w.now →
      st.plan = List.replicate m ⟨0, .err kd⟩ ++ [⟨0, .ok⟩] → w.busyUntil ≤ w.now → w.recover = 0 → w.script = [] →
      (loop cfg c N st w).1.result = some (.ok (w.serial + m)) ∧
      (loop cfg c N st w).1.calls.length = st.calls.length + m + 1 ∧ (loop cfg c N st w).2.conn = .connected := by
  intro m
  induction m with
  | zero =>
    intro N st w k d hN hph hd hplan hbusy hrec hscr
    obtain ⟨N', rfl⟩ : ∃ N', N = (N' + 1) + 3 := ⟨N - 4, by omega⟩
    rw [three_turns hmax hretry hpol hk (N' + 1) st w k d hph hd hbusy hscr]
    have hp : (afterFail c st w kd k).1.phase = .calling w.serial w.now .ok := by
      simp [afterFail, startCall, failedRec, failedSh, popScript, emit, mark, hplan]
    obtain ⟨h1, h2, h3⟩ := @ok_turn cfg c N' (afterFail c st w kd k).1 (afterFail c st w kd k).2 w.serial w.now hp
      (by simp [afterFail, startCall, failedRec, failedSh, popScript, emit, mark])
    refine ⟨by simpa using h1, ?_, h3⟩
    rw [h2]
    simp [afterFail, startCall, failedRec]
  | succ m ih =>
    intro N st w k d hN hph hd hplan hbusy hrec hscr
    obtain ⟨N', rfl⟩ : ∃ N', N = N' + 3 := ⟨N - 3, by omega⟩
    rw [three_turns hmax hretry hpol hk N' st w k d hph hd hbusy hscr]
    have hp : (afterFail c st w kd k).1.phase = .calling w.serial w.now (.err kd) := by
      simp [afterFail, startCall, failedRec, failedSh, popScript, emit, mark, hplan, List.replicate_succ]
    have hpl : (afterFail c st w kd k).1.plan = List.replicate m ⟨0, .err kd⟩ ++ [⟨0, .ok⟩] := by
      simp [afterFail, startCall, failedRec, hplan, List.replicate_succ]
    have hw : (afterFail c st w kd k).2.now = w.now ∧ (afterFail c st w kd k).2.serial = w.serial + 1 ∧
        (afterFail c st w kd k).2.busyUntil = w.busyUntil ∧ (afterFail c st w kd k).2.recover = 0 ∧
        (afterFail c st w kd k).2.script = [] := by
      simp [afterFail, startCall, failedSh, popScript, emit, mark, hrec, hscr]
    obtain ⟨h1, h2, h3⟩ := ih N' (afterFail c st w kd k).1 (afterFail c st w kd k).2 w.serial w.now (by omega) hp
      (by rw [hw.1]; exact Nat.le_refl _) hpl (by rw [hw.2.2.1, hw.1]; exact hbusy) hw.2.2.2.1 hw.2.2.2.2
    refine ⟨?_, ?_, h3⟩
    · rw [h1, hw.2.1]; congr 2; omega
    · rw [h2]; simp [afterFail, startCall, failedRec]; omega

/-- the first request of a history: what `arrive` makes of it … -/
def arrived (c : Nat) (plan : List Step) : Caller × Shared := startCall c (newCaller plan) (popScript init.sh)

/-- … and what the first poll makes of that -/
def polled (cfg : Cfg) (c : Nat) (plan : List Step) : Caller × Shared :=
  pollCaller cfg c (arrived c plan).1 { (arrived c plan).2 with obs := [] }

theorem run_arrive_poll (cfg : Cfg) (c : Nat) (plan : List Step) :
    lookup (run cfg [.arrive c plan, .poll c []]).callers c = some (polled cfg c plan).1 ∧
    (run cfg [.arrive c plan, .poll c []]).sh.conn = (polled cfg c plan).2.conn := by
  simp [run, stepS, lookup, init, readyAns, polled, arrived]

/-- **progress**: unlimited attempts, `retry_on_reconnect`, a zero delay, an inner service that is always ready: a request
whose inner calls fail `n` times with an error the predicate accepts and then succeed returns that success — after `n + 1`
calls, in the one poll, and the published state reads `Connected` -/
theorem progress_run (cfg : Cfg) (hmax : cfg.maxAttempts = none) (hretry : cfg.retry = true) (hpol : cfg.policy = .fixed 0)
    (kd c n : Nat) (hk : cfg.reconn kd = true) :
    ∃ st, lookup (run cfg [.arrive c (List.replicate n ⟨0, .err kd⟩ ++ [⟨0, .ok⟩]), .poll c []]).callers c = some st ∧
      st.result = some (.ok n) ∧ st.calls.length = n + 1 ∧
      (run cfg [.arrive c (List.replicate n ⟨0, .err kd⟩ ++ [⟨0, .ok⟩]), .poll c []]).sh.conn = .connected := by
  obtain ⟨e1, e2⟩ := run_arrive_poll cfg c (List.replicate n ⟨0, .err kd⟩ ++ [⟨0, .ok⟩])
  rw [e1, e2]
  refine ⟨_, rfl, ?_⟩
  cases n with
  | zero =>
    have hp : (arrived c [⟨0, .ok⟩]).1.phase = .calling 0 0 .ok := by
      simp [arrived, startCall, newCaller, popScript, init]
    obtain ⟨h1, h2, h3⟩ := @ok_turn cfg c 3 (arrived c [⟨0, .ok⟩]).1 { (arrived c [⟨0, .ok⟩]).2 with obs := [] } 0 0 hp
      (Nat.zero_le _)
    have hf : fuel (arrived c [⟨0, .ok⟩]).1 = 3 + 1 := by simp [fuel, arrived, startCall, newCaller]
    simp only [List.replicate_zero, List.nil_append, polled, pollCaller, hf]
    refine ⟨h1, ?_, h3⟩
    rw [h2]
    simp [arrived, startCall, newCaller]
  | succ n =>
    have hp : (arrived c (List.replicate (n + 1) ⟨0, .err kd⟩ ++ [⟨0, .ok⟩])).1.phase = .calling 0 0 (.err kd) := by
      simp [arrived, startCall, newCaller, popScript, init, List.replicate_succ]
    have hpl : (arrived c (List.replicate (n + 1) ⟨0, .err kd⟩ ++ [⟨0, .ok⟩])).1.plan
        = List.replicate n ⟨0, .err kd⟩ ++ [⟨0, .ok⟩] := by
      simp [arrived, startCall, newCaller, List.replicate_succ]
    have hf : fuel (arrived c (List.replicate (n + 1) ⟨0, .err kd⟩ ++ [⟨0, .ok⟩])).1 = 3 * (n + 1) + 4 := by
      simp [fuel, hpl]
    obtain ⟨h1, h2, h3⟩ := progress_loop hmax hretry hpol hk n (3 * (n + 1) + 4)
      (arrived c (List.replicate (n + 1) ⟨0, .err kd⟩ ++ [⟨0, .ok⟩])).1
      { (arrived c (List.replicate (n + 1) ⟨0, .err kd⟩ ++ [⟨0, .ok⟩])).2 with obs := [] } 0 0 (by omega) hp (Nat.zero_le _) hpl
      (by simp [arrived, startCall, newCaller, popScript, init, emit])
      (by simp [arrived, startCall, newCaller, popScript, init, emit])
      (by simp [arrived, startCall, newCaller, popScript, init, emit])
    simp only [polled, pollCaller, hf]
    refine ⟨?_, ?_, h3⟩
    · rw [h1]
      simp [arrived, startCall, newCaller, popScript, init, emit]
      omega
    · rw [h2]
      simp [arrived, startCall, newCaller]
      omega

instance (c : Nat) (op : Op) : Decidable (Solo c op) := by
  cases op <;> unfold Solo <;> infer_instance

end TR.Reconnect
