import TR.Lemmas.TimeLimiterOrder
/-!
# Time limiter: the timeout of a call is fixed when the call is made

Lemmas for `TR.Props.C06.deadline_fixed_at_call`: no operation of the service changes the timeout (`tmo`, `unl`) or the
scripted inner call of a record that exists; turning the knob the timeout function reads (`KOp.knob`) is no operation of
the service at all.
-/
namespace TR.TimeLimiter

/-- the captured fields of two records agree -/
def SameCall (x y : Caller) : Prop := y.tmo = x.tmo ∧ y.unl = x.unl ∧ y.sc = x.sc

/-- a record that exists still exists, with the same captured fields -/
def Kept (a b : Option Caller) : Prop := ∀ x, a = some x → ∃ y, b = some y ∧ SameCall x y

theorem Kept.refl (a : Option Caller) : Kept a a := fun x h => ⟨x, h, rfl, rfl, rfl⟩

theorem Kept.trans {a b c : Option Caller} (h1 : Kept a b) (h2 : Kept b c) : Kept a c := by
  intro x hx
  obtain ⟨y, hy, e1, e2, e3⟩ := h1 x hx
  obtain ⟨z, hz, f1, f2, f3⟩ := h2 y hy
  exact ⟨z, hz, f1.trans e1, f2.trans e2, f3.trans e3⟩

theorem Kept.map (a : Option Caller) (f : Caller → Caller) (hf : ∀ x, SameCall x (f x)) : Kept a (a.map f) := by
  intro x hx
  subst hx
  exact ⟨f x, rfl, hf x⟩

theorem pollDetached_same (now : Nat) (x : Caller) : SameCall x (pollDetached now x).1 := by
  unfold pollDetached deliver expire note SameCall
  split
  · simp
  · split <;> simp

theorem pollC_same (cfg : Cfg) (now : Nat) (x : Caller) : SameCall x (pollC cfg now x).1 := by
  cases ho : x.outer with
  | fresh =>
    have h := firstPoll_fields cfg now x ho
    exact ⟨h.2.1, h.2.2.2.2, h.2.2.1⟩
  | waiting =>
    unfold pollC
    simp only [ho]
    cases cfg.cancel
    · simpa using pollDetached_same now x
    · have h := pollCancel_fields now x
      simpa using (show SameCall x (pollCancel now x).1 from ⟨h.2.1, h.2.2.2, h.2.2.1⟩)
  | gone =>
    unfold pollC
    simp only [ho]
    exact ⟨rfl, rfl, rfl⟩

theorem dropC_same (cfg : Cfg) (now : Nat) (x : Caller) : SameCall x (dropC cfg now x).1 := by
  unfold dropC note SameCall
  split
  · simp
  · split <;> simp
  · simp

theorem advC_same (cfg : Cfg) (now : Nat) (x : Caller) : SameCall x (advC cfg now x).1 := by
  unfold advC
  split
  · exact ⟨rfl, rfl, rfl⟩
  · have h := runTask_fields now x
    exact ⟨h.2.1, h.2.2.2, h.2.2.1⟩

/-- one step of the single-caller machine keeps an existing record's captured fields -/
theorem track_kept (cfg : Cfg) (c : Nat) (p : Nat × Option Caller) (op : Op) : Kept p.2 (track cfg c p op).2 := by
  cases op with
  | adv ms => exact Kept.map _ _ (advC_same cfg _)
  | arrive c' tmo sc =>
    simp only [track]
    by_cases h : c' = c
    · simp only [h, if_true]
      intro x hx
      simp only [hx]
      exact ⟨x, rfl, rfl, rfl, rfl⟩
    · simp only [h, if_false]
      exact Kept.refl _
  | poll c' =>
    simp only [track]
    by_cases h : c' = c
    · simp only [h, if_true]
      exact Kept.map _ _ (pollC_same cfg _)
    · simp only [h, if_false]
      exact Kept.refl _
  | drop c' =>
    simp only [track]
    by_cases h : c' = c
    · simp only [h, if_true]
      exact Kept.map _ _ (dropC_same cfg _)
    · simp only [h, if_false]
      exact Kept.refl _
  | refused c' e => exact Kept.refl _

/-- one operation of the service keeps every existing record's captured fields -/
theorem stepS_kept (cfg : Cfg) (s : State) (op : Op) (c : Nat) :
    Kept (lookup s.callers c) (lookup (stepS cfg s op).callers c) := by
  have h := track_kept cfg c (proj s c) op
  rw [← proj_step] at h
  exact h

/-- one requested operation — an operation of the service, or a turn of the knob — keeps them -/
theorem stepK_kept (cfg : Cfg) (p : Option Tmo × State) (op : KOp) (c : Nat) :
    Kept (lookup p.2.callers c) (lookup (stepK cfg p op).2.callers c) := by
  cases op with
  | knob v => exact Kept.refl _
  | op o => exact stepS_kept cfg p.2 (knobOp p.1 o) c

theorem foldK_kept (cfg : Cfg) (ops : List KOp) (p : Option Tmo × State) (c : Nat) :
    Kept (lookup p.2.callers c) (lookup (ops.foldl (stepK cfg) p).2.callers c) := by
  induction ops generalizing p with
  | nil => exact Kept.refl _
  | cons o os ih => exact (stepK_kept cfg p o c).trans (ih (stepK cfg p o))

end TR.TimeLimiter
