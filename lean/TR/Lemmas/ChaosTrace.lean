import TR.Lemmas.Chaos
/-!
# Chaos: the timestamped event log, and its tie to the ghost decisions

`State.tlog` is the event log as the driver prints it and as the correspondence check compares it with the
implementation's: every line of `State.log`, typed, stamped with the instant it was emitted at — including the line
`first_poll <c> svc=<k>` the harness prints when it polls the call future of a request for the first time.

1. `Ext`: what one helper of the machine does to the two logs and the clock; `synced` (`tlog` without the instants IS
   `log`), `step_stamps` (the stamps are the instants the driver prints).
2. `Lines` / `TStage` / `TInv`: the lines of ONE request, with their instants, are exactly what its decision dictates —
   `first_poll` at `t0`, then: the injected error at `t0` and nothing else / nothing before `t0 + ms`, the inner call at
   `t1 ≥ t0 + ms` (`= t0 + ms` when the woken caller is polled before the clock moves on: `Timely`) / the inner call at `t0`.
3. `Aligned`: the ghost decision list is the list of `first_poll` lines of the log, in log order, each with the
   decision of its request — so the decisions of a run fed from streams `σ` can be read off the log
   (`fed_request_lines`).
-/
namespace TR.Chaos

/-! ## 1. the two logs grow together -/

/-- one helper of the machine: the clock stands still, both logs are extended by the same lines, stamped with the
current instant; `P` holds for every new line -/
def Ext (P : TEv → Prop) (s s' : State) : Prop :=
  s'.now = s.now ∧
  ∃ tl : List (Nat × TEv), s'.tlog = s.tlog ++ tl ∧ s'.log = s.log ++ tl.map (fun p => p.2.toEv) ∧
    ∀ p ∈ tl, p.1 = s.now ∧ P p.2

theorem Ext.refl (P : TEv → Prop) (s : State) : Ext P s s :=
  ⟨rfl, [], by simp, by simp, by simp⟩

theorem Ext.of_eq {P : TEv → Prop} {s s' : State} (h1 : s'.now = s.now) (h2 : s'.tlog = s.tlog) (h3 : s'.log = s.log) :
    Ext P s s' :=
  ⟨h1, [], by simp [h2], by simp [h3], by simp⟩

theorem Ext.trans {P : TEv → Prop} {s1 s2 s3 : State} (h1 : Ext P s1 s2) (h2 : Ext P s2 s3) : Ext P s1 s3 := by
  obtain ⟨n1, t1, a1, b1, c1⟩ := h1
  obtain ⟨n2, t2, a2, b2, c2⟩ := h2
  refine ⟨by rw [n2, n1], t1 ++ t2, by rw [a2, a1, List.append_assoc], by rw [b2, b1]; simp, ?_⟩
  intro p hp
  rcases List.mem_append.mp hp with h | h
  · exact c1 p h
  · have := c2 p h
    exact ⟨by rw [this.1, n1], this.2⟩

theorem Ext.mono {P Q : TEv → Prop} {s s' : State} (hpq : ∀ e, P e → Q e) (h : Ext P s s') : Ext Q s s' := by
  obtain ⟨n, tl, a, b, c⟩ := h
  exact ⟨n, tl, a, b, fun p hp => ⟨(c p hp).1, hpq _ (c p hp).2⟩⟩

theorem ext_emit {P : TEv → Prop} (s : State) (evs : List Ev) (h : ∀ e ∈ evs, P (.ev e)) : Ext P s (emit s evs) := by
  refine ⟨rfl, evs.map (fun e => (s.now, TEv.ev e)), rfl, ?_, ?_⟩
  · show s.log ++ evs = _
    congr 1
    simp [List.map_map, Function.comp_def, TEv.toEv]
  · intro p hp
    simp only [List.mem_map] at hp
    obtain ⟨e, he, rfl⟩ := hp
    exact ⟨rfl, h e he⟩

theorem ext_mark {P : TEv → Prop} (s : State) (c k : Nat) (h : P (.firstPoll c k)) : Ext P s (mark s c k) :=
  ⟨rfl, [(s.now, .firstPoll c k)], rfl, rfl, by intro p hp; simp at hp; subst hp; exact ⟨rfl, h⟩⟩

theorem ext_setPhase {P : TEv → Prop} (s : State) (c : Nat) (p : Phase) : Ext P s (setPhase s c p) :=
  Ext.of_eq rfl rfl rfl

theorem ext_record {P : TEv → Prop} (s : State) (c k : Nat) (d : Decision) : Ext P s (record s c k d) :=
  Ext.of_eq rfl rfl rfl

/-- a line that is an event (not the `first_poll` marker), about request `c` or about no request -/
def OwnEv (c : Nat) (t : TEv) : Prop := ∃ e, t = .ev e ∧ ∀ x, about e = some x → x = c

/-- the request a line of the typed log belongs to -/
def owner : TEv → Option Nat
  | .firstPoll c _ => some c
  | .ev e => about e

/-- a line about request `c` or about no request -/
def Own (c : Nat) (t : TEv) : Prop := ∀ x, owner t = some x → x = c

theorem ownEv_own {c : Nat} (t : TEv) (h : OwnEv c t) : Own c t := by
  obtain ⟨e, rfl, h⟩ := h
  exact h

theorem ownEv_of_about {c : Nat} {e : Ev} (h : about e = some c) : OwnEv c (.ev e) :=
  ⟨e, rfl, fun x hx => by rw [h] at hx; injection hx with hx; exact hx.symm⟩

theorem ownEv_raw (c : Nat) (m : String) : OwnEv c (.ev (.raw m)) :=
  ⟨_, rfl, fun x hx => by simp [about] at hx⟩

theorem ext_pollInner (s : State) (c k t : Nat) (out : Out) : Ext (OwnEv c) s (pollInner s c k t out) := by
  unfold pollInner
  split
  · exact (ext_emit s _ (fun e he => ownEv_of_about (outcomeEvents_about c k out e he))).trans (ext_setPhase _ c _)
  · exact Ext.refl _ s

theorem ext_startInner (s : State) (c : Nat) (st : Step) : Ext (OwnEv c) s (startInner s c st) := by
  unfold startInner
  refine Ext.trans ?_ (ext_pollInner _ c _ _ _)
  refine Ext.trans (s2 := emit { s with serial := s.serial + 1 } [.innerCall c s.serial]) ?_ (ext_setPhase _ c _)
  refine Ext.trans (s2 := { s with serial := s.serial + 1 }) (Ext.of_eq rfl rfl rfl) ?_
  exact ext_emit _ _ (by intro e he; simp at he; subst he; exact ownEv_of_about rfl)

theorem ext_pollSleeping (s : State) (c u : Nat) (st : Step) : Ext (OwnEv c) s (pollSleeping s c u st) := by
  unfold pollSleeping
  split
  · exact ext_startInner s c st
  · exact Ext.refl _ s

theorem ext_notAllowed (c : Nat) (s : State) : Ext (OwnEv c) s (emit s [.raw "choice-not-allowed"]) :=
  ext_emit s _ (by intro e he; simp at he; subst he; exact ownEv_raw c _)

theorem ext_checked (cfg : Cfg) (c : Nat) (s : State) (d : Decision) : Ext (OwnEv c) s (checked cfg s d) := by
  unfold checked
  split
  · exact Ext.refl _ s
  · exact ext_notAllowed c s

theorem ext_enact (s : State) (c tag : Nat) (st : Step) (d : Decision) : Ext (OwnEv c) s (enact s c tag st d) := by
  cases d with
  | error =>
      exact (ext_emit s _ (by intro e he; simp at he; subst he; exact ownEv_of_about rfl)).trans (ext_setPhase _ c _)
  | latency ms => exact (ext_setPhase s c _).trans (ext_pollSleeping _ c _ st)
  | pass => exact ext_startInner s c st

/-- everything a first poll does after the harness's `first_poll` line: events only -/
theorem ext_afterMark (cfg : Cfg) (s : State) (c k tag : Nat) (st : Step) (d : Decision) :
    Ext (OwnEv c) (mark s c k) (pollFresh cfg s c k tag st d) := by
  unfold pollFresh
  exact ((ext_checked cfg c _ d).trans (ext_record _ c k d)).trans (ext_enact _ c tag st d)

theorem ext_pollFresh (cfg : Cfg) (s : State) (c k tag : Nat) (st : Step) (d : Decision) :
    Ext (Own c) s (pollFresh cfg s c k tag st d) :=
  (ext_mark s c k (by intro x hx; simp [owner] at hx; exact hx.symm)).trans
    ((ext_afterMark cfg s c k tag st d).mono ownEv_own)

/-- a poll that is not a first poll with a reported decision, a drop: events only, about that request -/
theorem ext_poll_later (cfg : Cfg) (s : State) (c : Nat) (d : Option Decision)
    (h : isFresh s c = false ∨ d = none) : Ext (OwnEv c) s (stepS cfg s (.poll c d)) := by
  simp only [stepS]
  split
  · rename_i k tag st hph
    rcases h with h | h
    · simp [isFresh, hph] at h
    · subst h; exact ext_notAllowed c s
  · exact ext_pollSleeping s c _ _
  · exact ext_pollInner s c _ _ _
  · exact Ext.refl _ s

theorem ext_drop (cfg : Cfg) (s : State) (c : Nat) : Ext (OwnEv c) s (stepS cfg s (.drop c)) := by
  simp only [stepS]
  split
  · exact ext_setPhase s c _
  · exact ext_setPhase s c _
  · rename_i k _ _ _
    exact (ext_emit s _ (by intro e he; simp at he; subst he; exact ownEv_of_about rfl)).trans (ext_setPhase _ c _)
  · exact Ext.refl _ s

theorem ext_poll (cfg : Cfg) (s : State) (c : Nat) (d : Option Decision) : Ext (Own c) s (stepS cfg s (.poll c d)) := by
  by_cases hf : isFresh s c = false ∨ d = none
  · exact (ext_poll_later cfg s c d hf).mono ownEv_own
  · have hfr : isFresh s c = true := by
      cases h : isFresh s c with
      | true => rfl
      | false => exact absurd (Or.inl h) hf
    cases d with
    | none => exact absurd (Or.inr rfl) hf
    | some d =>
        unfold isFresh at hfr
        simp only [stepS]
        split at hfr <;> try (simp at hfr)
        rename_i k tag st hph
        simp only [hph]
        exact ext_pollFresh cfg s c k tag st d

/-- **What any operation does to the two logs**: they are extended by the same lines; the stamps are the instant of
the state the operation leads to — the `t=` the driver prints for the lines of that operation (`Driver.applyStep`). -/
theorem step_stamps (cfg : Cfg) (s : State) (op : Op) :
    ∃ tl : List (Nat × TEv), (stepS cfg s op).tlog = s.tlog ++ tl ∧
      (stepS cfg s op).log = s.log ++ tl.map (fun p => p.2.toEv) ∧ ∀ p ∈ tl, p.1 = (stepS cfg s op).now := by
  have of_ext : ∀ (P : TEv → Prop) (s' : State), Ext P s s' →
      ∃ tl : List (Nat × TEv), s'.tlog = s.tlog ++ tl ∧ s'.log = s.log ++ tl.map (fun p => p.2.toEv) ∧
        ∀ p ∈ tl, p.1 = s'.now := by
    intro P s' ⟨n, tl, a, b, c⟩
    exact ⟨tl, a, b, fun p hp => by rw [n]; exact (c p hp).1⟩
  cases op with
  | adv ms => exact ⟨[], by simp [stepS], by simp [stepS], by simp⟩
  | dropsvc => exact ⟨[], by simp [stepS], by simp [stepS], by simp⟩
  | arrive c k tag st =>
      simp only [stepS]
      split
      · exact of_ext (fun _ => True) _ (Ext.refl _ s)
      · exact of_ext (fun _ => True) _ (ext_setPhase s c _)
  | poll c d => exact of_ext _ _ (ext_poll cfg s c d)
  | drop c => exact of_ext _ _ (ext_drop cfg s c)

/-- `tlog` without the instants is `log` -/
def Synced (s : State) : Prop := s.tlog.map (fun p => p.2.toEv) = s.log

theorem step_synced (cfg : Cfg) (s : State) (op : Op) (h : Synced s) : Synced (stepS cfg s op) := by
  obtain ⟨tl, a, b, _⟩ := step_stamps cfg s op
  unfold Synced at *
  rw [a, b, List.map_append, h]

theorem synced_reachable (cfg : Cfg) (ops : List Op) : Synced (run cfg ops) := by
  have gen : ∀ (ops : List Op) (s : State), Synced s → Synced (ops.foldl (stepS cfg) s) := by
    intro ops
    induction ops with
    | nil => intro s h; exact h
    | cons op tl ih => intro s h; exact ih _ (step_synced cfg s op h)
  exact gen ops init rfl

/-! ## 2. the lines of one request, with their instants -/

/-- the lines of request `c` (its `first_poll` line and the events about it), with their instants, in log order -/
def mine (c : Nat) (tl : List (Nat × TEv)) : List (Nat × TEv) := tl.filter (fun p => owner p.2 == some c)

@[simp] theorem mine_append (c : Nat) (a b : List (Nat × TEv)) : mine c (a ++ b) = mine c a ++ mine c b := by
  simp [mine]

theorem mem_mine {c : Nat} {tl : List (Nat × TEv)} {p : Nat × TEv} : p ∈ mine c tl ↔ p ∈ tl ∧ owner p.2 = some c := by
  simp [mine]

theorem mine_all {c : Nat} {tl : List (Nat × TEv)} (h : ∀ p ∈ tl, owner p.2 = some c) : mine c tl = tl := by
  unfold mine
  apply List.filter_eq_self.mpr
  intro p hp; simp [h p hp]

theorem mine_foreign {c c' : Nat} {tl : List (Nat × TEv)} (h : ∀ p ∈ tl, Own c' p.2) (hne : c' ≠ c) : mine c tl = [] := by
  unfold mine
  apply List.filter_eq_nil_iff.mpr
  intro p hp
  simp only [beq_iff_eq]
  intro hab
  exact hne (h p hp c hab).symm

theorem mine_emit_same {c : Nat} {s : State} {evs : List Ev} (h : ∀ e ∈ evs, about e = some c) :
    mine c (emit s evs).tlog = mine c s.tlog ++ evs.map (fun e => (s.now, TEv.ev e)) := by
  show mine c (s.tlog ++ evs.map (fun e => (s.now, TEv.ev e))) = _
  rw [mine_append]
  congr 1
  apply mine_all
  intro p hp
  simp only [List.mem_map] at hp
  obtain ⟨e, he, rfl⟩ := hp
  exact h e he

/-- When the inner call of a request first polled at `t0` happens (`t1`), by its decision: "pass" — in the first poll;
"delay by `ms`" — not before `t0 + ms`, and (`x`: the woken caller is polled before the clock moves on) exactly at
`t0 + ms`; "inject" — never. -/
def Sched (x : Bool) : Decision → Nat → Nat → Prop
  | .error, _, _ => False
  | .pass, t0, t1 => t1 = t0
  | .latency ms, t0, t1 => t0 + ms ≤ t1 ∧ (x = true → t1 = t0 + ms)

/-- what follows the inner call `j` of request `c`: nothing yet / the call future was dropped / the call completed
and its answer is the request's result -/
def Rest (c j : Nat) (rest : List (Nat × TEv)) : Prop :=
  ∃ (evs : List Ev) (t2 : Nat), rest = evs.map (fun e => (t2, TEv.ev e)) ∧
    (evs = [] ∨ evs = [.innerDrop c j] ∨ ∃ out, evs = outcomeEvents c j out)

/-- **The lines of one request, with their instants, by its decision.** -/
inductive Lines (x : Bool) (c : Nat) : Option Decision → List (Nat × TEv) → Prop
  /-- not polled yet, or dropped before its first poll: no decision, no line -/
  | unpolled : Lines x c none []
  /-- "inject": the error built from the request, in the first poll, and nothing else — no inner call -/
  | failed (t0 k tag : Nat) : Lines x c (some .error) [(t0, .firstPoll c k), (t0, .ev (.result c (injected tag)))]
  /-- "delay": asleep (or dropped while asleep) -/
  | waiting (t0 k ms : Nat) : Lines x c (some (.latency ms)) [(t0, .firstPoll c k)]
  /-- "pass" / "delay": the one inner call, at the instant the decision dictates, and what follows it -/
  | called (t0 k : Nat) (dec : Decision) (t1 j : Nat) (rest : List (Nat × TEv)) (hs : Sched x dec t0 t1)
      (hr : Rest c j rest) :
      Lines x c (some dec) ((t0, .firstPoll c k) :: (t1, .ev (.innerCall c j)) :: rest)

def TStage (x : Bool) (s : State) (c : Nat) : Prop :=
  match lookup s.phase c with
  | none => mine c s.tlog = [] ∧ lookup s.decOf c = none
  | some (.fresh _ _ _) => mine c s.tlog = [] ∧ lookup s.decOf c = none
  | some (.sleeping u _) => ∃ t0 k ms, mine c s.tlog = [(t0, .firstPoll c k)] ∧
      lookup s.decOf c = some (.latency ms) ∧ u = t0 + ms ∧ (x = true → s.now ≤ u)
  | some (.inner j _ _) => ∃ t0 k dec t1, mine c s.tlog = [(t0, .firstPoll c k), (t1, .ev (.innerCall c j))] ∧
      lookup s.decOf c = some dec ∧ Sched x dec t0 t1
  | some .done => Lines x c (lookup s.decOf c) (mine c s.tlog)

def TInv (x : Bool) (s : State) : Prop := ∀ c, TStage x s c

/-- in every phase the lines of a request are what its decision dictates -/
theorem lines_of_tstage {x : Bool} {s : State} {c : Nat} (h : TStage x s c) :
    Lines x c (lookup s.decOf c) (mine c s.tlog) := by
  unfold TStage at h
  split at h
  · rw [h.1, h.2]; exact .unpolled
  · rw [h.1, h.2]; exact .unpolled
  · obtain ⟨t0, k, ms, hm, hd, _, _⟩ := h
    rw [hm, hd]; exact .waiting t0 k ms
  · obtain ⟨t0, k, dec, t1, hm, hd, hs⟩ := h
    rw [hm, hd]; exact .called t0 k dec t1 _ [] hs ⟨[], 0, rfl, Or.inl rfl⟩
  · exact h

theorem tstage_other {x : Bool} {s s' : State} {c c' : Nat} (hne : c ≠ c') (ht : Touches c s s')
    (he : Ext (Own c) s s') (h : TStage x s c') : TStage x s' c' := by
  obtain ⟨hn, tl, htl, _, hown⟩ := he
  have hm : mine c' s'.tlog = mine c' s.tlog := by
    rw [htl, mine_append, mine_foreign (fun p hp => (hown p hp).2) hne, List.append_nil]
  unfold TStage at *
  rw [ht.phase c' hne, hm, ht.dec c' hne, hn]
  exact h

theorem tinv_of_touches {x : Bool} {s s' : State} {c : Nat} (hinv : TInv x s) (ht : Touches c s s')
    (he : Ext (Own c) s s') (hc : TStage x s' c) : TInv x s' := by
  intro c'
  by_cases hne : c = c'
  · subst hne; exact hc
  · exact tstage_other hne ht he (hinv c')

theorem tstage_pollInner {x : Bool} {s : State} {c k t : Nat} {out : Out}
    (hph : lookup s.phase c = some (.inner k t out)) (h : TStage x s c) : TStage x (pollInner s c k t out) c := by
  unfold pollInner
  split
  · unfold TStage at h ⊢
    rw [hph] at h
    rw [lookup_setPhase_same]
    obtain ⟨t0, kk, dec, t1, hm, hd, hs⟩ := h
    show Lines x c (lookup s.decOf c) (mine c (emit s (outcomeEvents c k out)).tlog)
    rw [mine_emit_same (outcomeEvents_about c k out), hm, hd]
    exact Lines.called t0 kk dec t1 k _ hs ⟨outcomeEvents c k out, s.now, rfl, Or.inr (Or.inr ⟨out, rfl⟩)⟩
  · exact h

theorem tstage_startInner {x : Bool} {s : State} {c : Nat} {st : Step} {t0 k : Nat} {dec : Decision}
    (hm : mine c s.tlog = [(t0, .firstPoll c k)]) (hd : lookup s.decOf c = some dec) (hs : Sched x dec t0 s.now) :
    TStage x (startInner s c st) c := by
  unfold startInner
  apply tstage_pollInner (lookup_setPhase_same _ c _)
  unfold TStage
  rw [lookup_setPhase_same]
  refine ⟨t0, k, dec, s.now, ?_, hd, hs⟩
  show mine c (s.tlog ++ [(s.now, TEv.ev (Ev.innerCall c s.serial))]) = _
  rw [mine_append, hm]
  simp [mine, owner, about]

theorem tstage_pollSleeping {x : Bool} {s : State} {c u : Nat} {st : Step}
    (hph : lookup s.phase c = some (.sleeping u st)) (h : TStage x s c) : TStage x (pollSleeping s c u st) c := by
  unfold pollSleeping
  split
  · rename_i hge
    unfold TStage at h
    rw [hph] at h
    obtain ⟨t0, k, ms, hm, hd, hu, hx⟩ := h
    refine tstage_startInner hm hd ?_
    show t0 + ms ≤ s.now ∧ (x = true → s.now = t0 + ms)
    exact ⟨by omega, fun hxt => by have := hx hxt; omega⟩
  · exact h

theorem tstage_pollFresh {x : Bool} {cfg : Cfg} {s : State} {c k tag : Nat} {st : Step} {d : Decision}
    (hph : lookup s.phase c = some (.fresh k tag st)) (h : TStage x s c) :
    TStage x (pollFresh cfg s c k tag st d) c := by
  unfold TStage at h
  rw [hph] at h
  unfold pollFresh
  have hm0 : mine c (mark s c k).tlog = [(s.now, .firstPoll c k)] := by
    show mine c (s.tlog ++ [(s.now, TEv.firstPoll c k)]) = _
    rw [mine_append, h.1]; simp [mine, owner]
  have hm1 : mine c (checked cfg (mark s c k) d).tlog = [(s.now, .firstPoll c k)] ∧
      (checked cfg (mark s c k) d).now = s.now ∧ (checked cfg (mark s c k) d).decOf = s.decOf := by
    unfold checked
    split
    · exact ⟨hm0, rfl, rfl⟩
    · refine ⟨?_, rfl, rfl⟩
      show mine c ((mark s c k).tlog ++ [((mark s c k).now, TEv.ev (Ev.raw "choice-not-allowed"))]) = _
      rw [mine_append, hm0]; simp [mine, owner, about]
  generalize checked cfg (mark s c k) d = s0 at hm1
  have hm2 : mine c (record s0 c k d).tlog = [(s.now, .firstPoll c k)] := hm1.1
  have hd2 : lookup (record s0 c k d).decOf c = some d := by simp [record, lookup]
  have hn2 : (record s0 c k d).now = s.now := hm1.2.1
  generalize record s0 c k d = s1 at hm2 hd2 hn2
  cases d with
  | error =>
      unfold enact TStage
      rw [lookup_setPhase_same]
      show Lines x c (lookup s1.decOf c) (mine c (s1.tlog ++ [(s1.now, TEv.ev (Ev.result c (injected tag)))]))
      rw [mine_append, hm2, hd2, hn2]
      simp only [mine, owner, about, List.filter, beq_self_eq_true, List.cons_append, List.nil_append]
      exact Lines.failed s.now k tag
  | latency ms =>
      unfold enact
      apply tstage_pollSleeping (lookup_setPhase_same _ c _)
      unfold TStage
      rw [lookup_setPhase_same]
      refine ⟨s.now, k, ms, hm2, hd2, ?_, fun _ => ?_⟩
      · show s1.now + ms = s.now + ms
        rw [hn2]
      · show s1.now ≤ s1.now + ms
        omega
  | pass =>
      unfold enact
      exact tstage_startInner hm2 hd2 hn2

theorem touches_drop (cfg : Cfg) (s : State) (c : Nat) : Touches c s (stepS cfg s (.drop c)) := by
  simp only [stepS]
  split
  · exact touches_setPhase c s _
  · exact touches_setPhase c s _
  · rename_i k _ _ _
    exact (touches_emit c s _ (about_of_all (by intro e he; simp at he; subst he; rfl))).trans (touches_setPhase c _ _)
  · exact Touches.refl c s

/-- the clock may not jump over the wake-up of a sleeping request: `adv ms` from a state in which a request sleeps
until `u` needs `now + ms ≤ u` (or `ms = 0`) -/
def StepTimely (s : State) (op : Op) : Prop :=
  ∀ ms, op = .adv ms → ∀ c u st, lookup s.phase c = some (.sleeping u st) → s.now + ms ≤ u ∨ ms = 0

theorem tstep_inv (x : Bool) (cfg : Cfg) (s : State) (op : Op) (hinv : TInv x s) (hd : x = true → StepTimely s op) :
    TInv x (stepS cfg s op) := by
  cases op with
  | adv ms =>
      intro c
      have hc := hinv c
      unfold TStage at hc ⊢
      show (match lookup s.phase c with
        | none => mine c s.tlog = [] ∧ lookup s.decOf c = none
        | some (.fresh _ _ _) => mine c s.tlog = [] ∧ lookup s.decOf c = none
        | some (.sleeping u _) => ∃ t0 k ms', mine c s.tlog = [(t0, .firstPoll c k)] ∧
            lookup s.decOf c = some (.latency ms') ∧ u = t0 + ms' ∧ (x = true → s.now + ms ≤ u)
        | some (.inner j _ _) => ∃ t0 k dec t1, mine c s.tlog = [(t0, .firstPoll c k), (t1, .ev (.innerCall c j))] ∧
            lookup s.decOf c = some dec ∧ Sched x dec t0 t1
        | some .done => Lines x c (lookup s.decOf c) (mine c s.tlog))
      split
      · rename_i hph; rw [hph] at hc; exact hc
      · rename_i hph; rw [hph] at hc; exact hc
      · rename_i u st hph
        rw [hph] at hc
        obtain ⟨t0, k, ms', hm, hdd, hu, hx⟩ := hc
        refine ⟨t0, k, ms', hm, hdd, hu, fun hxt => ?_⟩
        rcases hd hxt ms rfl c u st hph with h | h
        · exact h
        · have := hx hxt; omega
      · rename_i hph; rw [hph] at hc; exact hc
      · rename_i hph; rw [hph] at hc; exact hc
  | dropsvc => exact hinv
  | arrive c k tag st =>
      simp only [stepS]
      split
      · exact hinv
      · rename_i hk
        apply tinv_of_touches hinv (touches_setPhase c s _) (ext_setPhase s c _)
        have hnone : lookup s.phase c = none := by
          simp only [known, Bool.or_eq_true, not_or, Bool.not_eq_true, Option.isSome_eq_false_iff, Option.isNone_iff_eq_none] at hk
          exact hk.2
        have := hinv c
        unfold TStage at this ⊢
        rw [hnone] at this
        rw [lookup_setPhase_same]
        exact this
  | poll c d =>
      apply tinv_of_touches hinv (touches_poll cfg s c d) (ext_poll cfg s c d)
      simp only [stepS]
      split
      · rename_i k tag st hph
        split
        · exact tstage_pollFresh hph (hinv c)
        · have := hinv c
          have hph' : lookup (emit s [Ev.raw "choice-not-allowed"]).phase c = some (.fresh k tag st) := hph
          unfold TStage at this ⊢
          rw [hph] at this
          rw [hph']
          refine ⟨?_, this.2⟩
          show mine c (s.tlog ++ [(s.now, TEv.ev (Ev.raw "choice-not-allowed"))]) = []
          rw [mine_append, this.1]; simp [mine, owner, about]
      · rename_i u st hph
        exact tstage_pollSleeping hph (hinv c)
      · rename_i k t out hph
        exact tstage_pollInner hph (hinv c)
      · exact hinv c
  | drop c =>
      apply tinv_of_touches hinv
        (touches_drop cfg s c) ((ext_drop cfg s c).mono ownEv_own)
      have := hinv c
      simp only [stepS]
      split
      · rename_i k tag st hph
        unfold TStage at this ⊢
        rw [hph] at this
        rw [lookup_setPhase_same]
        show Lines x c (lookup s.decOf c) (mine c s.tlog)
        rw [this.1, this.2]; exact .unpolled
      · rename_i u st hph
        unfold TStage at this ⊢
        rw [hph] at this
        rw [lookup_setPhase_same]
        obtain ⟨t0, k, ms, hm, hdd, _, _⟩ := this
        show Lines x c (lookup s.decOf c) (mine c s.tlog)
        rw [hm, hdd]; exact .waiting t0 k ms
      · rename_i k t out hph
        unfold TStage at this ⊢
        rw [hph] at this
        rw [lookup_setPhase_same]
        obtain ⟨t0, kk, dec, t1, hm, hdd, hs⟩ := this
        have hab : ∀ e ∈ [Ev.innerDrop c k], about e = some c := by intro e he; simp at he; subst he; rfl
        show Lines x c (lookup s.decOf c) (mine c (emit s [Ev.innerDrop c k]).tlog)
        rw [mine_emit_same hab, hm, hdd]
        exact Lines.called t0 kk dec t1 k _ hs ⟨[.innerDrop c k], s.now, rfl, Or.inr (Or.inl rfl)⟩
      · exact this

theorem tinv_init (x : Bool) : TInv x init := by
  intro c; simp [TStage, init, lookup, mine]

/-- **The runtime's side of an injected latency**: the timer fires AT the wake-up instant (the virtual clock visits it)
and the woken caller is polled before time goes on — as a condition on the operations: no `adv` jumps over the
wake-up of a request that is asleep. -/
def TimelyFrom (cfg : Cfg) : State → List Op → Prop
  | _, [] => True
  | s, op :: tl => StepTimely s op ∧ TimelyFrom cfg (stepS cfg s op) tl

def Timely (cfg : Cfg) (ops : List Op) : Prop := TimelyFrom cfg init ops

theorem foldl_tinv (x : Bool) (cfg : Cfg) (ops : List Op) (s : State) (h : TInv x s)
    (ht : x = true → TimelyFrom cfg s ops) : TInv x (ops.foldl (stepS cfg) s) := by
  induction ops generalizing s with
  | nil => exact h
  | cons op tl ih =>
      exact ih _ (tstep_inv x cfg s op h (fun hx => (ht hx).1)) (fun hx => (ht hx).2)

theorem tinv_reachable (x : Bool) (cfg : Cfg) (ops : List Op) (ht : x = true → Timely cfg ops) : TInv x (run cfg ops) :=
  foldl_tinv x cfg ops init (tinv_init x) ht

/-- the discipline, said without the recursion: whenever the operations are `pre ++ adv ms :: post`, no request that
is asleep after `pre` has its wake-up jumped over -/
theorem timelyFrom_iff (cfg : Cfg) (ops : List Op) (s : State) :
    TimelyFrom cfg s ops ↔ ∀ pre ms post, ops = pre ++ .adv ms :: post → ∀ c u st,
      lookup (pre.foldl (stepS cfg) s).phase c = some (.sleeping u st) →
      (pre.foldl (stepS cfg) s).now + ms ≤ u ∨ ms = 0 := by
  induction ops generalizing s with
  | nil =>
      simp only [TimelyFrom, true_iff]
      intro pre ms post h
      cases pre <;> simp at h
  | cons op tl ih =>
      simp only [TimelyFrom]
      constructor
      · rintro ⟨h1, h2⟩ pre ms post heq c u st hph
        cases pre with
        | nil =>
            simp only [List.nil_append, List.cons.injEq] at heq
            exact h1 ms heq.1 c u st hph
        | cons o pre' =>
            simp only [List.cons_append, List.cons.injEq] at heq
            obtain ⟨rfl, rfl⟩ := heq
            exact (ih _).mp h2 pre' ms post rfl c u st hph
      · intro h
        refine ⟨?_, (ih _).mpr ?_⟩
        · intro ms hop c u st hph
          subst hop
          exact h [] ms tl rfl c u st hph
        · intro pre ms post heq c u st hph
          exact h (op :: pre) ms post (by rw [heq]; rfl) c u st hph

theorem timely_iff (cfg : Cfg) (ops : List Op) :
    Timely cfg ops ↔ ∀ pre ms post, ops = pre ++ .adv ms :: post → ∀ c u st,
      lookup (run cfg pre).phase c = some (.sleeping u st) → (run cfg pre).now + ms ≤ u ∨ ms = 0 :=
  timelyFrom_iff cfg ops init

theorem lookup_mem {α : Type} {l : List (Nat × α)} {c : Nat} {v : α} (h : lookup l c = some v) : (c, v) ∈ l := by
  induction l with
  | nil => simp [lookup] at h
  | cons p tl ih =>
      obtain ⟨k, w⟩ := p
      simp only [lookup] at h
      split at h
      · rename_i hk; subst hk; injection h with h; subst h; exact List.mem_cons_self ..
      · exact List.mem_cons_of_mem _ (ih h)

/-- an executable check of the discipline (for the examples) -/
def timelyB (cfg : Cfg) : State → List Op → Bool
  | _, [] => true
  | s, op :: tl =>
      (match op with
        | .adv ms => ms == 0 || s.phase.all (fun p =>
            match lookup s.phase p.1 with
            | some (.sleeping u _) => decide (s.now + ms ≤ u)
            | _ => true)
        | _ => true) && timelyB cfg (stepS cfg s op) tl

theorem timelyB_sound (cfg : Cfg) (ops : List Op) (s : State) (h : timelyB cfg s ops = true) : TimelyFrom cfg s ops := by
  induction ops generalizing s with
  | nil => trivial
  | cons op tl ih =>
      simp only [timelyB, Bool.and_eq_true] at h
      refine ⟨?_, ih _ h.2⟩
      intro ms hop c u st hph
      subst hop
      have h1 := h.1
      simp only [Bool.or_eq_true, beq_iff_eq, List.all_eq_true] at h1
      rcases h1 with h1 | h1
      · exact Or.inr h1
      · have := h1 (c, .sleeping u st) (lookup_mem hph)
        simp only [hph, decide_eq_true_eq] at this
        exact Or.inl this

/-! ## 3. the ghost decision list is the list of `first_poll` lines -/

/-- the `first_poll` lines of the log, in log order: (request, service) -/
def markers (tl : List (Nat × TEv)) : List (Nat × Nat) :=
  tl.filterMap (fun p => match p.2 with | .firstPoll c k => some (c, k) | .ev _ => none)

/-- the requests first polled on service `k`, in the order of their `first_poll` lines -/
def markersOn (k : Nat) (tl : List (Nat × TEv)) : List Nat := ((markers tl).filter (fun p => p.2 == k)).map (·.1)

@[simp] theorem markers_append (a b : List (Nat × TEv)) : markers (a ++ b) = markers a ++ markers b := by
  simp [markers]

theorem mem_markers {tl : List (Nat × TEv)} {c k : Nat} : (c, k) ∈ markers tl ↔ ∃ t, (t, TEv.firstPoll c k) ∈ tl := by
  unfold markers
  simp only [List.mem_filterMap]
  constructor
  · rintro ⟨⟨t, e⟩, hp, he⟩
    cases e with
    | firstPoll c' k' => simp at he; obtain ⟨rfl, rfl⟩ := he; exact ⟨t, hp⟩
    | ev e => simp at he
  · rintro ⟨t, h⟩
    exact ⟨(t, .firstPoll c k), h, rfl⟩

theorem markers_events {tl : List (Nat × TEv)} (h : ∀ p ∈ tl, ∃ e, p.2 = TEv.ev e) : markers tl = [] := by
  unfold markers
  apply List.filterMap_eq_nil_iff.mpr
  intro p hp
  obtain ⟨e, he⟩ := h p hp
  rw [he]

theorem markers_ext {c : Nat} {s s' : State} (h : Ext (OwnEv c) s s') : markers s'.tlog = markers s.tlog := by
  obtain ⟨_, tl, htl, _, hev⟩ := h
  have : markers tl = [] := markers_events (fun p hp => by obtain ⟨e, he, _⟩ := (hev p hp).2; exact ⟨e, he⟩)
  rw [htl, markers_append, this, List.append_nil]

/-- the decision recorded for a request (`pass` stands for "none": never consulted for a request without one) -/
def dOf (dm : List (Nat × Decision)) (c : Nat) : Decision := (lookup dm c).getD .pass

/-- **The ghost decision list IS the list of `first_poll` lines of the log**, in log order: the entry for a line
`first_poll c svc=k` is (`k`, the decision of request `c`). -/
def Aligned (s : State) : Prop := s.decs = (markers s.tlog).map (fun p => (p.2, dOf s.decOf p.1))

theorem step_aligned (x : Bool) (cfg : Cfg) (s : State) (op : Op) (hinv : TInv x s) (h : Aligned s) :
    Aligned (stepS cfg s op) := by
  by_cases hf : ∃ c d, op = .poll c (some d) ∧ isFresh s c = true
  · obtain ⟨c, d, rfl, hfr⟩ := hf
    have hg := step_fresh cfg s c d hfr
    unfold isFresh at hfr
    split at hfr <;> try (simp at hfr)
    rename_i k tag st hph
    have hk : svcOfFresh s c = k := by simp [svcOfFresh, hph]
    have hs : stepS cfg s (.poll c (some d)) = pollFresh cfg s c k tag st d := by simp [stepS, hph]
    have hmk : markers (stepS cfg s (.poll c (some d))).tlog = markers s.tlog ++ [(c, k)] := by
      rw [hs, markers_ext (ext_afterMark cfg s c k tag st d)]
      show markers (s.tlog ++ [(s.now, TEv.firstPoll c k)]) = _
      rw [markers_append]; rfl
    have hnone := hinv c
    unfold TStage at hnone
    rw [hph] at hnone
    unfold Aligned at h ⊢
    rw [hg.1, hg.2, hmk, hk, h, List.map_append]
    congr 1
    · apply List.map_congr_left
      intro p hp
      have hne : p.1 ≠ c := by
        intro heq
        obtain ⟨t, ht⟩ := mem_markers.mp (show (p.1, p.2) ∈ markers s.tlog from hp)
        have : (t, TEv.firstPoll p.1 p.2) ∈ mine c s.tlog := mem_mine.mpr ⟨ht, by simp [owner, heq]⟩
        rw [hnone.1] at this
        simp at this
      have hne' : ¬ c = p.1 := fun h => hne h.symm
      simp [dOf, lookup, hne']
    · simp [dOf, lookup]
  · have hun := step_ghost_unchanged cfg s op (by
      intro c' d hop
      cases hfr : isFresh s c' with
      | false => rfl
      | true => exact absurd ⟨c', d, hop, hfr⟩ hf)
    have hmk : markers (stepS cfg s op).tlog = markers s.tlog := by
      cases op with
      | adv ms => rfl
      | dropsvc => rfl
      | arrive c k tag st => simp only [stepS]; split <;> rfl
      | drop c => exact markers_ext (ext_drop cfg s c)
      | poll c d =>
          apply markers_ext (c := c) (ext_poll_later cfg s c d ?_)
          cases d with
          | none => exact Or.inr rfl
          | some d =>
              left
              cases hfr : isFresh s c with
              | false => rfl
              | true => exact absurd ⟨c, d, rfl, hfr⟩ hf
    unfold Aligned at h ⊢
    rw [hun.1, hun.2, hmk]
    exact h

theorem aligned_reachable (cfg : Cfg) (ops : List Op) : Aligned (run cfg ops) := by
  have gen : ∀ (ops : List Op) (s : State), TInv false s → Aligned s →
      TInv false (ops.foldl (stepS cfg) s) ∧ Aligned (ops.foldl (stepS cfg) s) := by
    intro ops
    induction ops with
    | nil => intro s h1 h2; exact ⟨h1, h2⟩
    | cons op tl ih =>
        intro s h1 h2
        exact ih _ (tstep_inv false cfg s op h1 (by intro h; cases h)) (step_aligned false cfg s op h1 h2)
  exact (gen ops init (tinv_init false) (by simp [Aligned, init, markers])).2

/-- the decisions taken on service `k` are the decisions of the requests first polled on `k`, in the order of their
`first_poll` lines -/
theorem decsOn_markers {s : State} (h : Aligned s) (k : Nat) :
    decsOn s k = (markersOn k s.tlog).map (dOf s.decOf) := by
  unfold decsOn markersOn
  rw [h, List.filter_map, List.map_map, List.map_map]
  rfl

/-- a request with a `first_poll` line has a decision -/
theorem marked_has_decision {x : Bool} {s : State} {c k t : Nat} (hinv : TInv x s)
    (h : (t, TEv.firstPoll c k) ∈ s.tlog) : ∃ dec, lookup s.decOf c = some dec := by
  have hl := lines_of_tstage (hinv c)
  have hm : (t, TEv.firstPoll c k) ∈ mine c s.tlog := mem_mine.mpr ⟨h, rfl⟩
  cases hd : lookup s.decOf c with
  | some dec => exact ⟨dec, rfl⟩
  | none =>
      rw [hd] at hl
      generalize mine c s.tlog = l at hl hm
      cases hl
      simp at hm

/-- **Reading the decisions of a fed run off the log**: the `i`-th request to have a `first_poll` line on service `k`
has the decision `σ k i`, and its lines — with their instants — are what that decision dictates. -/
theorem fed_request_lines (x : Bool) (σ : Nat → Nat → Decision) (cfg : Cfg) (ops : List ROp)
    (ht : x = true → Timely cfg (annotated σ cfg init ops)) (k i c : Nat)
    (h : (markersOn k (runD σ cfg ops).tlog)[i]? = some c) :
    lookup (runD σ cfg ops).decOf c = some (σ k i) ∧ Lines x c (some (σ k i)) (mine c (runD σ cfg ops).tlog) := by
  have hfed := runD_fed σ cfg ops k
  have hinv : TInv x (runD σ cfg ops) := by rw [runD_eq_run]; exact tinv_reachable x cfg _ ht
  have hal : Aligned (runD σ cfg ops) := by rw [runD_eq_run]; exact aligned_reachable cfg _
  generalize runD σ cfg ops = s at *
  have hdm := decsOn_markers hal k
  -- the decision of `c`
  have hi : i < (markersOn k s.tlog).length := by
    rcases Nat.lt_or_ge i (markersOn k s.tlog).length with h' | h'
    · exact h'
    · rw [List.getElem?_eq_none h'] at h; cases h
  have hlen : (decsOn s k).length = (markersOn k s.tlog).length := by rw [hdm, List.length_map]
  have h1 : (decsOn s k)[i]? = some (dOf s.decOf c) := by rw [hdm, List.getElem?_map, h]; rfl
  have h2 : (decsOn s k)[i]? = some (σ k i) := by
    rw [hfed, List.getElem?_map, List.getElem?_range (by rw [hlen]; exact hi)]; rfl
  have hdo : dOf s.decOf c = σ k i := by rw [h1] at h2; injection h2
  -- `c` has a `first_poll` line
  have hcm : c ∈ markersOn k s.tlog := List.mem_of_getElem? h
  unfold markersOn at hcm
  simp only [List.mem_map, List.mem_filter] at hcm
  obtain ⟨⟨c', k'⟩, ⟨hmem, _⟩, rfl⟩ := hcm
  obtain ⟨t, htm⟩ := mem_markers.mp hmem
  obtain ⟨dec, hdec⟩ := marked_has_decision hinv htm
  have : dec = σ k i := by simpa [dOf, hdec] using hdo
  subst this
  refine ⟨hdec, ?_⟩
  have := lines_of_tstage (hinv c')
  rw [hdec] at this
  exact this

/-! ## 4. reading a request's lines -/

/-- the event log of a run with its instants (what the driver prints, what the correspondence check compares) -/
def trace (cfg : Cfg) (ops : List Op) : List (Nat × TEv) := (run cfg ops).tlog

/-- the same for a run fed from decision streams -/
def traceD (σ : Nat → Nat → Decision) (cfg : Cfg) (ops : List ROp) : List (Nat × TEv) := (runD σ cfg ops).tlog

theorem rest_events {c j : Nat} {rest : List (Nat × TEv)} (h : Rest c j rest) :
    ∀ p ∈ rest, ∃ e, p.2 = TEv.ev e ∧ about e = some c ∧ ∀ c' j', e ≠ Ev.innerCall c' j' := by
  obtain ⟨evs, t2, rfl, hev⟩ := h
  intro p hp
  simp only [List.mem_map] at hp
  obtain ⟨e, he, rfl⟩ := hp
  refine ⟨e, rfl, ?_⟩
  rcases hev with rfl | rfl | ⟨out, rfl⟩
  · simp at he
  · simp at he; subst he; exact ⟨rfl, by intro c' j' h; cases h⟩
  · refine ⟨outcomeEvents_about c j out e he, ?_⟩
    intro c' j' h
    subst h
    cases out <;> simp [outcomeEvents] at he

/-- a request's `first_poll` line is the first of its lines, and the only one -/
theorem lines_marker {x : Bool} {c : Nat} {dec : Option Decision} {m : List (Nat × TEv)} {t k : Nat}
    (h : Lines x c dec m) (hm : (t, TEv.firstPoll c k) ∈ m) :
    ∃ tl, m = (t, .firstPoll c k) :: tl ∧ ∀ p ∈ tl, ∃ e, p.2 = TEv.ev e := by
  cases h with
  | unpolled => simp at hm
  | failed t0 k0 tag =>
      simp at hm
      obtain ⟨rfl, rfl⟩ := hm
      exact ⟨_, rfl, by intro p hp; simp at hp; subst hp; exact ⟨_, rfl⟩⟩
  | waiting t0 k0 ms =>
      simp at hm
      obtain ⟨rfl, rfl⟩ := hm
      exact ⟨_, rfl, by simp⟩
  | called t0 k0 d t1 j rest hs hr =>
      simp only [List.mem_cons, Prod.mk.injEq, TEv.firstPoll.injEq, true_and, reduceCtorEq, and_false, false_or] at hm
      rcases hm with ⟨rfl, rfl⟩ | hm
      · refine ⟨_, rfl, ?_⟩
        intro p hp
        simp only [List.mem_cons] at hp
        rcases hp with rfl | hp
        · exact ⟨_, rfl⟩
        · obtain ⟨e, he, _⟩ := rest_events hr p hp; exact ⟨e, he⟩
      · obtain ⟨e, he, _⟩ := rest_events hr _ hm
        cases he

/-- the inner call of a request: there is one, at the instant its decision dictates, directly after the `first_poll`
line; what follows is the fate of that call -/
theorem lines_call {x : Bool} {c : Nat} {dec : Decision} {m : List (Nat × TEv)} {t0 k t1 j : Nat}
    (h : Lines x c (some dec) m) (h0 : (t0, TEv.firstPoll c k) ∈ m) (h1 : (t1, TEv.ev (Ev.innerCall c j)) ∈ m) :
    Sched x dec t0 t1 ∧ ∃ rest, m = (t0, .firstPoll c k) :: (t1, .ev (.innerCall c j)) :: rest ∧ Rest c j rest := by
  obtain ⟨tl, rfl, _⟩ := lines_marker h h0
  cases h with
  | failed t0' k0 tag => simp [injected] at h1
  | waiting t0' k0 ms => simp at h1
  | called t0' k0 d t1' j' rest hs hr =>
      simp only [List.mem_cons, Prod.mk.injEq, reduceCtorEq, and_false, false_or, TEv.ev.injEq, Ev.innerCall.injEq,
        true_and] at h1
      rcases h1 with ⟨rfl, rfl⟩ | h1
      · exact ⟨hs, rest, rfl, hr⟩
      · obtain ⟨e, he, _, hne⟩ := rest_events hr _ h1
        injection he with he
        exact absurd he.symm (hne c j)

/-- the lines of a request in the whole log -/
theorem mem_trace_mine {tl : List (Nat × TEv)} {c : Nat} {p : Nat × TEv} (hp : p ∈ tl) (ho : owner p.2 = some c) :
    p ∈ mine c tl := mem_mine.mpr ⟨hp, ho⟩

/-- is this line an inner call for request `c`? -/
def isCallOf (c : Nat) (p : Nat × TEv) : Bool :=
  match p.2 with
  | .ev (.innerCall c' _) => c' == c
  | _ => false

/-- is this line a result for request `c`? -/
def isResultOf (c : Nat) (p : Nat × TEv) : Bool :=
  match p.2 with
  | .ev (.result c' _) => c' == c
  | _ => false

/-- the log shows an injected error for request `c`: a result and NO inner call -/
def injectedIn (tl : List (Nat × TEv)) (c : Nat) : Bool := tl.any (isResultOf c) && !tl.any (isCallOf c)

/-- the log shows that request `c` was forwarded: an inner call -/
def forwardedIn (tl : List (Nat × TEv)) (c : Nat) : Bool := tl.any (isCallOf c)

theorem isCallOf_owner {c : Nat} {p : Nat × TEv} (h : isCallOf c p = true) : owner p.2 = some c := by
  obtain ⟨t, e⟩ := p
  cases e with
  | firstPoll _ _ => simp [isCallOf] at h
  | ev e => cases e <;> simp [isCallOf] at h; subst h; rfl

theorem isResultOf_owner {c : Nat} {p : Nat × TEv} (h : isResultOf c p = true) : owner p.2 = some c := by
  obtain ⟨t, e⟩ := p
  cases e with
  | firstPoll _ _ => simp [isResultOf] at h
  | ev e => cases e <;> simp [isResultOf] at h; subst h; rfl

theorem any_mine {c : Nat} {f : Nat × TEv → Bool} (hf : ∀ p, f p = true → owner p.2 = some c) (tl : List (Nat × TEv)) :
    tl.any f = (mine c tl).any f := by
  induction tl with
  | nil => rfl
  | cons p tl ih =>
      simp only [mine, List.filter_cons] at ih ⊢
      by_cases h : owner p.2 = some c
      · simp [h, ih]
      · have : f p = false := by
          cases hfp : f p with
          | false => rfl
          | true => exact absurd (hf p hfp) h
        simp [h, this, ih]

theorem filter_mine {c : Nat} {f : Nat × TEv → Bool} (hf : ∀ p, f p = true → owner p.2 = some c) (tl : List (Nat × TEv)) :
    tl.filter f = (mine c tl).filter f := by
  unfold mine
  rw [List.filter_filter]
  apply List.filter_congr
  intro p _
  cases hfp : f p with
  | false => simp
  | true => simp [hf p hfp]

theorem rest_no_call {c j : Nat} {rest : List (Nat × TEv)} (h : Rest c j rest) (c' : Nat) :
    rest.filter (isCallOf c') = [] := by
  apply List.filter_eq_nil_iff.mpr
  intro p hp
  obtain ⟨t, e⟩ := p
  obtain ⟨e', he, _, hne⟩ := rest_events h _ hp
  simp only at he
  subst he
  cases e' with
  | innerCall c'' j'' => exact absurd rfl (hne c'' j'')
  | _ => simp [isCallOf]

/-- what the log shows of a request, by its decision: an injected error (a result and no inner call) exactly for
"inject"; an inner call only for "pass" / "delay", always for "pass" -/
theorem lines_visible {x : Bool} {c : Nat} {dec : Decision} {tl : List (Nat × TEv)}
    (h : Lines x c (some dec) (mine c tl)) :
    (injectedIn tl c = (dec == .error)) ∧ (forwardedIn tl c = true → dec ≠ .error) ∧
    (dec = .pass → forwardedIn tl c = true) ∧ (tl.filter (isCallOf c)).length ≤ 1 := by
  unfold injectedIn forwardedIn
  rw [any_mine (fun p => isResultOf_owner) tl, any_mine (fun p => isCallOf_owner) tl,
    filter_mine (fun p => isCallOf_owner) tl]
  generalize mine c tl = m at h
  cases h with
  | failed t0 k tag => simp [isResultOf, isCallOf, injected]
  | waiting t0 k ms => simp [isResultOf, isCallOf]
  | called t0 k _ t1 j rest hs hr =>
      have hne : dec ≠ .error := by intro h; subst h; exact hs
      have hnc := rest_no_call hr c
      have hde : (dec == Decision.error) = false := by cases dec <;> simp at hne ⊢
      have h1 : isCallOf c (t0, TEv.firstPoll c k) = false := rfl
      have h2 : isCallOf c (t1, TEv.ev (Ev.innerCall c j)) = true := by simp [isCallOf]
      have hany : ((t0, TEv.firstPoll c k) :: (t1, TEv.ev (Ev.innerCall c j)) :: rest).any (isCallOf c) = true := by
        simp only [List.any_cons, h1, h2]; simp
      have hfil : ((t0, TEv.firstPoll c k) :: (t1, TEv.ev (Ev.innerCall c j)) :: rest).filter (isCallOf c) =
          [(t1, TEv.ev (Ev.innerCall c j))] := by
        simp only [List.filter_cons, h1, h2, hnc]; simp
      refine ⟨by rw [hany, hde]; simp, fun _ => hne, fun _ => hany, by rw [hfil]; simp⟩

/-! ## 5. run-level consequences -/

theorem mem_log_of_mem_tlog {s : State} (h : Synced s) {t : Nat} {e : Ev} (hm : (t, TEv.ev e) ∈ s.tlog) : e ∈ s.log := by
  rw [← h]
  exact List.mem_map.mpr ⟨(t, .ev e), hm, rfl⟩

/-- the answer of inner call `j` with outcome `out`, as the caller of a transparent layer must see it: unchanged -/
def answer (j : Nat) : Out → Option Res
  | .ok => some (.ok j)
  | .err kd => some (.inner kd j)
  | .panic => some .panic
  | .never => none

theorem rest_result {c j : Nat} {rest : List (Nat × TEv)} (h : Rest c j rest) {t : Nat} {r : Res}
    (hm : (t, TEv.ev (Ev.result c r)) ∈ rest) :
    ∃ out, (t, TEv.ev (Ev.innerDone c j out)) ∈ rest ∧ answer j out = some r := by
  obtain ⟨evs, t2, rfl, hev⟩ := h
  simp only [List.mem_map, Prod.mk.injEq, TEv.ev.injEq] at hm
  obtain ⟨e, he, rfl, rfl⟩ := hm
  rcases hev with rfl | rfl | ⟨out, rfl⟩
  · simp at he
  · simp at he
  · refine ⟨out, ?_, ?_⟩
    · simp only [List.mem_map, Prod.mk.injEq, TEv.ev.injEq, true_and, exists_eq_right]
      cases out <;> simp [outcomeEvents] at he ⊢
    · cases out <;> simp [outcomeEvents] at he <;> simp [answer, he]

/-- what the log shows of a request is its decision: an injected error (a result and no inner call) iff "inject" -/
theorem injectedIn_iff {x : Bool} {s : State} (h : TInv x s) (c : Nat) :
    injectedIn s.tlog c = true ↔ lookup s.decOf c = some .error := by
  have hl := lines_of_tstage (h c)
  cases hd : lookup s.decOf c with
  | none =>
      rw [hd] at hl
      have hm : mine c s.tlog = [] := by
        generalize mine c s.tlog = m at hl
        cases hl; rfl
      have : injectedIn s.tlog c = false := by
        unfold injectedIn
        rw [any_mine (fun p => isResultOf_owner) s.tlog, hm]; rfl
      simp [this]
  | some dec =>
      rw [hd] at hl
      rw [(lines_visible hl).1]
      cases dec <;> simp

/-- an inner call in the log: its request has a decision, and it is not "inject" -/
theorem forwardedIn_dec {x : Bool} {s : State} (h : TInv x s) (c : Nat) (hf : forwardedIn s.tlog c = true) :
    ∃ dec, lookup s.decOf c = some dec ∧ dec ≠ .error := by
  have hl := lines_of_tstage (h c)
  cases hd : lookup s.decOf c with
  | none =>
      rw [hd] at hl
      have hm : mine c s.tlog = [] := by
        generalize mine c s.tlog = m at hl
        cases hl; rfl
      unfold forwardedIn at hf
      rw [any_mine (fun p => isCallOf_owner) s.tlog, hm] at hf
      cases hf
  | some dec =>
      rw [hd] at hl
      exact ⟨dec, rfl, (lines_visible hl).2.1 hf⟩

/-- the lines of a request with a `first_poll` line, by its decision (`x`: under the poll discipline) -/
theorem marked_lines {x : Bool} {s : State} (h : TInv x s) {t0 c k : Nat} (hm : (t0, TEv.firstPoll c k) ∈ s.tlog) :
    ∃ dec, lookup s.decOf c = some dec ∧ Lines x c (some dec) (mine c s.tlog) ∧
      ∃ tl, mine c s.tlog = (t0, .firstPoll c k) :: tl := by
  obtain ⟨dec, hd⟩ := marked_has_decision h hm
  have hl := lines_of_tstage (h c)
  rw [hd] at hl
  obtain ⟨tl, htl, _⟩ := lines_marker hl (mem_trace_mine hm rfl)
  exact ⟨dec, hd, hl, tl, htl⟩

/-- "inject": the request's lines are its `first_poll` line and, at the same instant, the injected error -/
theorem lines_failed {x : Bool} {c : Nat} {m : List (Nat × TEv)} {t0 k : Nat} {tl : List (Nat × TEv)}
    (h : Lines x c (some .error) m) (hm : m = (t0, .firstPoll c k) :: tl) :
    ∃ tag, m = [(t0, .firstPoll c k), (t0, .ev (.result c (injected tag)))] := by
  subst hm
  cases h with
  | failed t0' k' tag => exact ⟨tag, rfl⟩
  | called _ _ _ _ _ _ hs _ => exact absurd hs (by simp [Sched])

/-- "pass": the inner call is in the first poll -/
theorem lines_passed {x : Bool} {c : Nat} {m : List (Nat × TEv)} {t0 k : Nat} {tl : List (Nat × TEv)}
    (h : Lines x c (some .pass) m) (hm : m = (t0, .firstPoll c k) :: tl) :
    ∃ j rest, m = (t0, .firstPoll c k) :: (t0, .ev (.innerCall c j)) :: rest ∧ Rest c j rest := by
  subst hm
  cases h with
  | called _ _ _ t1 j rest hs hr =>
      have : t1 = t0 := hs
      subst this
      exact ⟨j, rest, rfl, hr⟩

/-- every decision of the run is one reported with a first poll -/
theorem allowed_of_hall {cfg : Cfg} {ops : List Op} (hall : ∀ c d, Op.poll c (some d) ∈ ops → allowedDec cfg d = true)
    {c : Nat} {dec : Decision} (h : lookup (run cfg ops).decOf c = some dec) : allowedDec cfg dec = true :=
  hall c dec (decision_from_obs cfg ops c dec h)

/-- the decisions handed to the machine by a run fed from admissible streams are admissible -/
theorem hall_of_stream (σ : Nat → Nat → Decision) (cfg : Cfg) (ops : List ROp) (hσ : ∀ k i, allowedDec cfg (σ k i) = true) :
    ∀ c d, Op.poll c (some d) ∈ annotated σ cfg init ops → allowedDec cfg d = true := by
  intro c d hin
  obtain ⟨k, i, rfl⟩ := annotated_from_stream σ cfg ops init c d hin
  exact hσ k i

end TR.Chaos
