import TR.Lemmas.Health
/-!
# Health check: selection over any number of picks, across status changes, and at random (C18)

A. the eligible list (`eligible`): strictly increasing indices, membership
B. windows of a cyclic reading (`window`): `k` full rounds visit every member `k` times; any `m` picks are balanced
C. round-robin through `getWith` = a window of the eligible list; consecutive calls whose filters and statuses
   differ (`picksVar`): the one shared counter, the pick of every call
D. the seeded change C18-w5m2 transcribed (`selectClamped`)
E. `Random`: every draw lands in the eligible set, every eligible resource is some draw's, the draw recovered from an
   observed result explains it
-/
namespace TR.Health

/-! ## A. the eligible list -/

/-- the resources (indices) that pass the filter, in order: what a selection chooses from -/
def eligible (p : St → Bool) (sts : List St) : List Nat := (availFrom p 0 sts).map (·.1)

@[simp] theorem eligible_length (p : St → Bool) (sts : List St) : (eligible p sts).length = (availFrom p 0 sts).length := by
  simp [eligible]

theorem eligible_eq_nil_iff (p : St → Bool) (sts : List St) : eligible p sts = [] ↔ availFrom p 0 sts = [] := by
  simp [eligible]

theorem availFrom_ids_pairwise (p : St → Bool) (k : Nat) (sts : List St) :
    ((availFrom p k sts).map (·.1)).Pairwise (· < ·) := by
  induction sts generalizing k with
  | nil => simp [availFrom]
  | cons a tl ih =>
    unfold availFrom
    split
    · simp only [List.map_cons, List.pairwise_cons]
      refine ⟨?_, ih (k + 1)⟩
      intro i hi
      obtain ⟨⟨i', st⟩, hm, he⟩ := List.mem_map.1 hi
      simp at he; subst he
      have := (availFrom_mem hm).2.1
      omega
    · exact ih (k + 1)

theorem eligible_nodup (p : St → Bool) (sts : List St) : (eligible p sts).Nodup :=
  (availFrom_ids_pairwise p 0 sts).imp (fun h => Nat.ne_of_lt h)

theorem mem_eligible_iff (p : St → Bool) (sts : List St) (a : Nat) :
    a ∈ eligible p sts ↔ ∃ st, sts[a]? = some st ∧ p st = true := by
  constructor
  · intro h
    obtain ⟨⟨i, st⟩, hm, he⟩ := List.mem_map.1 h
    simp at he; subst he
    obtain ⟨h1, _, h3⟩ := availFrom_mem hm
    exact ⟨st, by simpa using h3, h1⟩
  · intro ⟨st, h1, h2⟩
    have := availFrom_complete (k := 0) h1 h2
    exact List.mem_map.2 ⟨(0 + a, st), this, by simp⟩

/-! ## B. windows of a cyclic reading -/

/-- `m` consecutive readings of `l` taken cyclically from position `c` -/
def window (l : List Nat) (c m : Nat) : List (Option Nat) :=
  (List.range m).map (fun j => l[(c + j) % l.length]?)

theorem window_add (l : List Nat) (c a b : Nat) : window l c (a + b) = window l c a ++ window l (c + a) b := by
  unfold window
  rw [List.range_add, List.map_append, List.map_map]
  congr 1
  apply List.map_congr_left
  intro j _
  simp [Function.comp, Nat.add_assoc]

theorem window_length (l : List Nat) (c m : Nat) : (window l c m).length = m := by simp [window]

theorem window_full_perm (l : List Nat) (c : Nat) : (window l c l.length).Perm (l.map some) := rot_perm l c

theorem mem_window {l : List Nat} {c m : Nat} {x : Option Nat} (hne : l ≠ []) (h : x ∈ window l c m) :
    ∃ b ∈ l, x = some b := by
  unfold window at h
  obtain ⟨j, _, he⟩ := List.mem_map.1 h
  have hpos : 0 < l.length := List.length_pos_iff.2 hne
  have hlt : (c + j) % l.length < l.length := Nat.mod_lt _ hpos
  rw [List.getElem?_eq_getElem hlt] at he
  exact ⟨l[(c + j) % l.length], List.getElem_mem hlt, he.symm⟩

theorem count_map_some (l : List Nat) (a : Nat) : (l.map some).count (some a) = l.count a := by
  induction l with
  | nil => rfl
  | cons b tl ih =>
    simp only [List.map_cons, List.count_cons, ih]
    by_cases h : b = a <;> simp [h]

theorem count_of_nodup {l : List Nat} (h : l.Nodup) (a : Nat) : l.count a = if a ∈ l then 1 else 0 := by
  induction l with
  | nil => simp
  | cons b tl ih =>
    rw [List.nodup_cons] at h
    simp only [List.count_cons, ih h.2, List.mem_cons]
    by_cases hb : b = a
    · subst hb; simp [h.1]
    · have : ¬ a = b := fun e => hb e.symm
      simp [hb, this]

theorem count_window_full {l : List Nat} (hnd : l.Nodup) (c a : Nat) :
    (window l c l.length).count (some a) = if a ∈ l then 1 else 0 := by
  rw [(window_full_perm l c).count_eq, count_map_some, count_of_nodup hnd]

/-- **`k` full rounds**: every member exactly `k` times, nothing else -/
theorem count_window_rounds {l : List Nat} (hnd : l.Nodup) (c k a : Nat) :
    (window l c (k * l.length)).count (some a) = if a ∈ l then k else 0 := by
  induction k generalizing c with
  | zero => simp [window]
  | succ k ih =>
    rw [Nat.succ_mul, window_add, List.count_append, ih, count_window_full hnd]
    split <;> rfl

theorem window_prefix (l : List Nat) (c m n : Nat) (h : m ≤ n) : (window l c m).Sublist (window l c n) := by
  obtain ⟨d, rfl⟩ : ∃ d, n = m + d := ⟨n - m, by omega⟩
  rw [window_add]
  exact List.sublist_append_left _ _

theorem count_window_short {l : List Nat} (hnd : l.Nodup) (c m a : Nat) (hm : m ≤ l.length) :
    (window l c m).count (some a) ≤ 1 := by
  have h1 := (window_prefix l c m l.length hm).count_le (some a)
  rw [count_window_full hnd] at h1
  split at h1 <;> omega

/-- **any `m` picks are balanced**: every member `m / n` or `m / n + 1` times -/
theorem count_window_balanced {l : List Nat} (hnd : l.Nodup) (c m a : Nat) (ha : a ∈ l) :
    m / l.length ≤ (window l c m).count (some a) ∧ (window l c m).count (some a) ≤ m / l.length + 1 := by
  have hpos : 0 < l.length := List.length_pos_iff.2 (List.ne_nil_of_mem ha)
  have hm : m = (m / l.length) * l.length + m % l.length := by
    rw [Nat.mul_comm]; exact (Nat.div_add_mod m l.length).symm
  have hr : m % l.length ≤ l.length := Nat.le_of_lt (Nat.mod_lt _ hpos)
  have h2 := count_window_short hnd (c + m / l.length * l.length) (m % l.length) a hr
  have e : (window l c m).count (some a) =
      m / l.length + (window l (c + m / l.length * l.length) (m % l.length)).count (some a) := by
    conv => lhs; rw [hm]
    rw [window_add, List.count_append, count_window_rounds hnd, if_pos ha]
  omega

/-! ## C. round-robin = a window of the eligible list -/

theorem picks_rr_window (p : St → Bool) (hp : ∀ s, p s = true → s.usable = true) (sts : List St)
    (hne : eligible p sts ≠ []) (m ctr : Nat) : picks p .rr sts m ctr = window (eligible p sts) ctr m := by
  rw [picks_rr p hp sts (by simpa [eligible] using hne)]
  simp [window, eligible]

theorem picks_none_of_empty (p : St → Bool) (strat : Strat) (sts : List St) (h : eligible p sts = []) (m ctr : Nat) :
    picks p strat sts m ctr = List.replicate m none := by
  have h' := (eligible_eq_nil_iff p sts).1 h
  induction m generalizing ctr with
  | zero => rfl
  | succ m ih =>
    unfold picks
    rw [getWith_none_of_empty p strat sts ctr h']
    simp [List.replicate_succ, ih]

/-- one round-robin selection, whatever is eligible: entry `ctr mod n` of the eligible list (nothing when it is
empty), and the shared counter moves exactly when something was returned -/
theorem getWith_rr_eligible (p : St → Bool) (hp : ∀ s, p s = true → s.usable = true) (sts : List St) (ctr : Nat) :
    getWith p .rr sts ctr =
      ((eligible p sts)[ctr % (eligible p sts).length]?, if eligible p sts = [] then ctr else ctr + 1) := by
  by_cases h : eligible p sts = []
  · rw [getWith_none_of_empty p .rr sts ctr ((eligible_eq_nil_iff p sts).1 h)]
    simp [h]
  · rw [getWith_rr p hp sts ctr (by simpa [eligible] using h)]
    simp [eligible]
    intro h'; exact absurd (by simpa [eligible] using h') h

/-- a call: the filter it uses and the statuses published when it is made -/
abbrev Call := (St → Bool) × List St

/-- consecutive selections, each with its own filter over the statuses of its own moment (they may have changed in
between), all through the one shared counter -/
def picksVar (strat : Strat) : List Call → Nat → List (Option Nat)
  | [], _ => []
  | c :: tl, ctr => (getWith c.1 strat c.2 ctr).1 :: picksVar strat tl (getWith c.1 strat c.2 ctr).2

/-- the shared counter after those calls -/
def ctrAfter (strat : Strat) : List Call → Nat → Nat
  | [], ctr => ctr
  | c :: tl, ctr => ctrAfter strat tl (getWith c.1 strat c.2 ctr).2

theorem picksVar_append (strat : Strat) (a b : List Call) (ctr : Nat) :
    picksVar strat (a ++ b) ctr = picksVar strat a ctr ++ picksVar strat b (ctrAfter strat a ctr) := by
  induction a generalizing ctr with
  | nil => rfl
  | cons c tl ih => simp [picksVar, ctrAfter, ih]

/-- the filters the wrapper uses: each lets through only usable statuses -/
def Call.ok (c : Call) : Prop := ∀ s, c.1 s = true → s.usable = true

/-- **the pick of every call** under round-robin, statuses changing as they may: entry `counter mod n` of what is
eligible for that call at that moment; the counter has moved once for every earlier call that returned something -/
theorem picksVar_rr_cons (c : Call) (hc : c.ok) (tl : List Call) (ctr : Nat) :
    picksVar .rr (c :: tl) ctr =
      (eligible c.1 c.2)[ctr % (eligible c.1 c.2).length]? ::
        picksVar .rr tl (if eligible c.1 c.2 = [] then ctr else ctr + 1) := by
  simp only [picksVar, getWith_rr_eligible c.1 hc c.2 ctr]

/-- calls whose eligible lists coincide (whichever filters and statuses produce them) read one rotation -/
theorem picksVar_rr_same (l : List Nat) (hne : l ≠ []) (calls : List Call)
    (h : ∀ c ∈ calls, c.ok ∧ eligible c.1 c.2 = l) (ctr : Nat) :
    picksVar .rr calls ctr = window l ctr calls.length := by
  induction calls generalizing ctr with
  | nil => rfl
  | cons c tl ih =>
    obtain ⟨hc, he⟩ := h c (by simp)
    rw [picksVar_rr_cons c hc, he, if_neg hne, ih (fun c' hc' => h c' (by simp [hc']))]
    have : (c :: tl).length = 1 + tl.length := by simp; omega
    rw [this, window_add]
    simp [window]

/-! ## D. the seeded change C18-w5m2, transcribed

`fetch_update(|cur| (cur + 1) % len)` keeps the stored cursor inside `0..len` of the list it was stored for; the
value read back is clamped (`idx.min(len - 1)`) instead of reduced. -/

def selectClamped (us : List Nat) (cur : Nat) : Option Nat × Nat :=
  if us.isEmpty then (none, cur) else (us[min cur (us.length - 1)]?, (cur + 1) % us.length)

/-- consecutive selections of the changed code over the given eligible lists -/
def picksClamped : List (List Nat) → Nat → List (Option Nat)
  | [], _ => []
  | us :: tl, cur => (selectClamped us cur).1 :: picksClamped tl (selectClamped us cur).2

/-! ## E. `Random` -/

theorem posOf_some {i : Nat} {l : List Nat} {d : Nat} (h : posOf i l = some d) : l[d]? = some i := by
  induction l generalizing d with
  | nil => simp [posOf] at h
  | cons a tl ih =>
    unfold posOf at h
    split at h
    · rename_i ha; cases h; simp [ha]
    · cases hq : posOf i tl with
      | none => simp [hq] at h
      | some j => simp [hq] at h; subst h; simpa using ih hq

theorem posOf_of_mem {i : Nat} {l : List Nat} (h : i ∈ l) : ∃ d, posOf i l = some d := by
  induction l with
  | nil => cases h
  | cons a tl ih =>
    unfold posOf
    by_cases ha : a = i
    · exact ⟨0, by simp [ha]⟩
    · have : i ∈ tl := by
        rcases List.mem_cons.1 h with e | e
        · exact absurd e.symm ha
        · exact e
      obtain ⟨d, hd⟩ := ih this
      exact ⟨d + 1, by simp [ha, hd]⟩

theorem posOf_none_iff (i : Nat) (l : List Nat) : posOf i l = none ↔ i ∉ l := by
  constructor
  · intro h hm
    obtain ⟨d, hd⟩ := posOf_of_mem hm
    rw [hd] at h; cases h
  · intro h
    cases hq : posOf i l with
    | none => rfl
    | some d => exact absurd (List.mem_of_getElem? (posOf_some hq)) h

/-- `get_with_filter` under `Random`: entry `draw mod n` of the eligible list, the counter is not touched -/
theorem getWith_random (p : St → Bool) (hp : ∀ s, p s = true → s.usable = true) (sts : List St) (ctr d : Nat) :
    getWith p (.random d) sts ctr = ((eligible p sts)[d % (eligible p sts).length]?, ctr) := by
  by_cases h : eligible p sts = []
  · rw [getWith_none_of_empty p _ sts ctr ((eligible_eq_nil_iff p sts).1 h)]
    simp [h]
  · have hne : availFrom p 0 sts ≠ [] := by simpa [eligible] using h
    have hall : ∀ s ∈ (availFrom p 0 sts).map (·.2), s.usable = true :=
      fun s hs => hp s (availFrom_snd_all p 0 sts s hs)
    have hne' : (availFrom p 0 sts).map (·.2) ≠ [] := by simpa using hne
    have hs := select_random_all _ ctr d hne' hall
    unfold getWith
    have e : (availFrom p 0 sts).isEmpty = false := by
      cases hq : availFrom p 0 sts with
      | nil => exact absurd hq hne
      | cons _ _ => rfl
    simp only [e, hs]
    simp [eligible]

end TR.Health
