import TR.Model.Adaptive
import TR.Lemmas.Limit
/-!
# Invariants of the adaptive limiter service (C13, part B)

`Inv`: the counter equals the number of running calls (and the number of inner calls started
and not finished/dropped according to the event log); every readiness check ever made was
refused iff at least `limit` calls were really running at that step; every caller holding a
ready clone passed such a check; the algorithm's limit is in bounds; a finished call future that
its caller still holds (`held`) is not running (so it is not counted); every running call has
its scripted completion instant.
-/
namespace TR.Adaptive
open TR.Limit (Cfg Cells FOp Wf InB CellsOk)

def isCall : Ev → Bool
  | .innerCall _ _ => true
  | _ => false

def isEnd : Ev → Bool
  | .innerDone _ _ _ => true
  | .innerDrop _ _ => true
  | _ => false

/-- inner calls started according to the log -/
def calls (l : List Ev) : Nat := l.countP isCall
/-- inner calls finished (any outcome, incl. panic) or dropped according to the log -/
def ended (l : List Ev) : Nat := l.countP isEnd

/-- a readiness check answered correctly: refused iff `limit` or more calls were running -/
def Check.ok (k : Check) : Prop := k.refused = true ↔ k.running ≥ k.limit

structure Inv (cfg : Cfg) (s : State) : Prop where
  exact : s.inFlight = s.running.length
  trace : calls s.log = ended s.log + s.inFlight
  nodup : s.running.Nodup
  runKnown : ∀ c ∈ s.running, known s c = true
  chkFresh : ∀ c ∈ s.checked, known s c = false
  chkNodup : s.checked.Nodup
  alg : CellsOk cfg s.alg
  checks : ∀ k ∈ s.checks, k.ok
  chkHad : ∀ c ∈ s.checked, ∃ k ∈ s.checks, k.who = c ∧ k.refused = false
  heldFree : ∀ c ∈ s.held, c ∉ s.running
  heldKnown : ∀ c ∈ s.held, known s c = true
  sched : ∀ c ∈ s.running, (lookup s.doneAt c).isSome = true ∧ (lookup s.kOf c).isSome = true

theorem known_cons (s : State) (c x : Nat) (sc : Step) :
    known { s with script := (c, sc) :: s.script } x = (decide (c = x) || known s x) := by
  unfold known
  simp only [lookup]
  split <;> simp_all

theorem init_inv {cfg : Cfg} (h : cfg.min ≤ cfg.max) : Inv cfg (init cfg) :=
  { exact := rfl, trace := rfl, nodup := List.nodup_nil
    runKnown := by intro c hc; cases hc
    chkFresh := by intro c hc; cases hc
    chkNodup := List.nodup_nil
    alg := Limit.initCells_ok h
    checks := by intro k hk; cases hk
    chkHad := by intro c hc; cases hc
    heldFree := by intro c hc; cases hc
    heldKnown := by intro c hc; cases hc
    sched := by intro c hc; cases hc }

theorem lookup_cons {α : Type} (l : List (Nat × α)) (c x : Nat) (v : α) :
    (lookup ((c, v) :: l) x).isSome = (decide (c = x) || (lookup l x).isSome) := by
  simp only [lookup]
  split <;> simp_all

/-- events that are neither the start nor the end of an inner call leave the accounting alone -/
theorem emit_inv {cfg : Cfg} {s : State} (h : Inv cfg s) (evs : List Ev)
    (h1 : calls evs = 0) (h2 : ended evs = 0) : Inv cfg (emit s evs) :=
  { h with
    trace := by
      have := h.trace
      simp only [emit, calls, ended, List.countP_append] at *
      omega }

theorem recordCheck_inv {cfg : Cfg} {s : State} (h : Inv cfg s) (who : Nat) :
    Inv cfg (recordCheck s who) :=
  { h with
    checks := by
      intro k hk
      simp only [recordCheck, List.mem_append, List.mem_singleton] at hk
      rcases hk with hk | hk
      · exact h.checks k hk
      · subst hk
        simp only [Check.ok, atCapacity, decide_eq_true_eq]
        rw [h.exact]
    chkHad := by
      intro c hc
      obtain ⟨k, hk, hw⟩ := h.chkHad c hc
      exact ⟨k, by simp only [recordCheck, List.mem_append]; exact Or.inl hk, hw⟩ }

theorem startCall_inv {cfg : Cfg} {s : State} (h : Inv cfg s) (c : Nat) (sc : Step)
    (hk : known s c = false) (hc : c ∉ s.checked) : Inv cfg (startCall s c sc) := by
  have hnr : c ∉ s.running := by
    intro hm; have := h.runKnown c hm; rw [hk] at this; cases this
  refine
    { exact := by simp [startCall, emit, h.exact]
      trace := ?_
      nodup := ?_
      runKnown := ?_
      chkFresh := ?_
      chkNodup := h.chkNodup
      alg := h.alg
      checks := h.checks
      chkHad := h.chkHad
      heldFree := ?_
      heldKnown := ?_
      sched := ?_ }
  · have := h.trace
    simp only [startCall, emit, calls, ended, List.countP_append, List.countP_cons, List.countP_nil, isCall, isEnd] at *
    simp
    omega
  · simp only [startCall, emit]
    rw [List.nodup_append]
    refine ⟨h.nodup, (by simp), ?_⟩
    intro a ha b hb
    simp at hb
    subst hb
    intro hab; subst hab; exact hnr ha
  · intro x hx
    simp only [startCall, emit, List.mem_append, List.mem_singleton] at hx
    show known { s with script := (c, sc) :: s.script, inFlight := _, running := _, startAt := _, doneAt := _, kOf := _, serial := _, log := _ } x = true
    have hkc := known_cons s c x sc
    unfold known at hkc ⊢
    simp only at hkc ⊢
    rw [hkc]
    rcases hx with hx | hx
    · have := h.runKnown x hx; unfold known at this; simp [this]
    · simp [hx]
  · intro x hx
    have hx' : x ∈ s.checked := hx
    have hne : c ≠ x := by intro he; subst he; exact hc hx'
    have hkc := known_cons s c x sc
    have := h.chkFresh x hx'
    unfold known at hkc this ⊢
    simp only [startCall, emit] at hkc ⊢
    rw [hkc]
    simp [hne, this]
  · intro x hx
    have hx' : x ∈ s.held := hx
    simp only [startCall, emit, List.mem_append, List.mem_singleton]
    intro hm
    rcases hm with hm | hm
    · exact h.heldFree x hx' hm
    · subst hm; have := h.heldKnown x hx'; rw [hk] at this; cases this
  · intro x hx
    have hx' : x ∈ s.held := hx
    have hkc := known_cons s c x sc
    have := h.heldKnown x hx'
    unfold known at hkc this ⊢
    simp only [startCall, emit] at hkc ⊢
    rw [hkc]; simp [this]
  · intro x hx
    simp only [startCall, emit, List.mem_append, List.mem_singleton] at hx
    simp only [startCall, emit, lookup_cons]
    rcases hx with hx | hx
    · have := h.sched x hx; simp [this.1, this.2]
    · simp [hx]

theorem refuse_inv {cfg : Cfg} {s : State} (h : Inv cfg s) (c : Nat) (sc : Step)
    (hc : c ∉ s.checked) : Inv cfg (refuse s c sc) := by
  refine
    { exact := h.exact
      trace := ?_
      nodup := h.nodup
      runKnown := ?_
      chkFresh := ?_
      chkNodup := h.chkNodup
      alg := h.alg
      checks := h.checks
      chkHad := h.chkHad
      heldFree := h.heldFree
      heldKnown := ?_
      sched := h.sched }
  · have := h.trace
    simp only [refuse, emit, calls, ended, List.countP_append, List.countP_cons, List.countP_nil, isCall, isEnd] at *
    simp
    omega
  · intro x hx
    have hx' : x ∈ s.running := hx
    have hkc := known_cons s c x sc
    have := h.runKnown x hx'
    unfold known at hkc this ⊢
    simp only [refuse, emit] at hkc ⊢
    rw [hkc]; simp [this]
  · intro x hx
    have hx' : x ∈ s.checked := hx
    have hne : c ≠ x := by intro he; subst he; exact hc hx'
    have hkc := known_cons s c x sc
    have := h.chkFresh x hx'
    unfold known at hkc this ⊢
    simp only [refuse, emit] at hkc ⊢
    rw [hkc]; simp [hne, this]
  · intro x hx
    have hx' : x ∈ s.held := hx
    have hkc := known_cons s c x sc
    have := h.heldKnown x hx'
    unfold known at hkc this ⊢
    simp only [refuse, emit] at hkc ⊢
    rw [hkc]; simp [this]

theorem arriveFresh_inv {cfg : Cfg} {s : State} (h : Inv cfg s) (c : Nat) (sc : Step)
    (hk : known s c = false) (hc : c ∉ s.checked) : Inv cfg (arriveFresh s c sc) := by
  unfold arriveFresh
  split
  · exact refuse_inv (recordCheck_inv h c) c sc hc
  · exact startCall_inv (recordCheck_inv h c) c sc hk hc

theorem uncheck_inv {cfg : Cfg} {s : State} (h : Inv cfg s) (c : Nat) :
    Inv cfg { s with checked := s.checked.erase c } :=
  { h with
    chkFresh := fun x hx => h.chkFresh x (List.mem_of_mem_erase hx)
    chkNodup := h.chkNodup.erase c
    chkHad := fun x hx => h.chkHad x (List.mem_of_mem_erase hx) }

theorem arriveChecked_inv {cfg : Cfg} {s : State} (h : Inv cfg s) (c : Nat) (sc : Step)
    (hk : known s c = false) : Inv cfg (arriveChecked s c sc) := by
  unfold arriveChecked
  apply startCall_inv (uncheck_inv h c) c sc hk
  intro hm
  exact ((h.chkNodup.mem_erase_iff).mp hm).1 rfl

/-- the guard is dropped and the end of the inner call is logged (`evs` holds exactly one end event) -/
theorem release_inv {cfg : Cfg} {s : State} (h : Inv cfg s) (c : Nat) (hc : c ∈ s.running)
    (evs : List Ev) (h1 : calls evs = 0) (h2 : ended evs = 1) : Inv cfg (emit (release s c) evs) := by
  have hpos : 0 < s.running.length := List.length_pos_of_mem hc
  have hlen : (s.running.erase c).length = s.running.length - 1 := List.length_erase_of_mem hc
  refine
    { exact := by simp only [release, emit]; rw [hlen, h.exact]
      trace := ?_
      nodup := h.nodup.erase c
      runKnown := fun x hx => h.runKnown x (List.mem_of_mem_erase hx)
      chkFresh := h.chkFresh
      chkNodup := h.chkNodup
      alg := h.alg
      checks := h.checks
      chkHad := h.chkHad
      heldFree := fun x hx hm => h.heldFree x hx (List.mem_of_mem_erase hm)
      heldKnown := h.heldKnown
      sched := fun x hx => h.sched x (List.mem_of_mem_erase hx) }
  have ht := h.trace
  have he := h.exact
  simp only [release, emit, calls, ended, List.countP_append] at *
  omega

theorem release_not_running {cfg : Cfg} {s : State} (h : Inv cfg s) (c : Nat) : c ∉ (release s c).running := by
  intro hm
  exact ((h.nodup.mem_erase_iff).mp hm).1 rfl

theorem noteKeep_inv {cfg : Cfg} {s : State} (h : Inv cfg s) (c : Nat) (keep : Bool) :
    Inv cfg (noteKeep s c keep) := by
  unfold noteKeep
  split
  · exact { h with }
  · exact h

theorem noteKeep_known (s : State) (c : Nat) (keep : Bool) (x : Nat) : known (noteKeep s c keep) x = known s x := by
  unfold noteKeep; split <;> rfl

theorem noteKeep_checked (s : State) (c : Nat) (keep : Bool) : (noteKeep s c keep).checked = s.checked := by
  unfold noteKeep; split <;> rfl

/-- a finished call future is kept by its caller: it is not running any more, nothing is counted for it -/
theorem hold_inv {cfg : Cfg} {s : State} (h : Inv cfg s) (c : Nat) (hc : c ∉ s.running)
    (hk : known s c = true) : Inv cfg (hold s c) := by
  unfold hold
  split
  · exact
      { h with
        heldFree := by
          intro x hx
          simp only [List.mem_append, List.mem_singleton] at hx
          rcases hx with hx | hx
          · exact h.heldFree x hx
          · subst hx; exact hc
        heldKnown := by
          intro x hx
          simp only [List.mem_append, List.mem_singleton] at hx
          rcases hx with hx | hx
          · exact h.heldKnown x hx
          · subst hx; exact hk }
  · exact h

theorem hold_emit (s : State) (c : Nat) (evs : List Ev) : emit (hold s c) evs = hold (emit s evs) c := by
  unfold hold emit
  split <;> rfl

theorem letGoOp_inv {cfg : Cfg} {s : State} (h : Inv cfg s) (c : Nat) : Inv cfg (letGoOp s c) :=
  { h with
    heldFree := fun x hx => h.heldFree x (List.mem_of_mem_erase hx)
    heldKnown := fun x hx => h.heldKnown x (List.mem_of_mem_erase hx) }

theorem feed_inv {cfg : Cfg} (w : Wf cfg) {s : State} (h : Inv cfg s) (op : FOp) : Inv cfg (feed cfg s op) :=
  { h with alg := Limit.seqOp_ok w s.alg op h.alg }

theorem feed_emit (cfg : Cfg) (s : State) (op : FOp) (evs : List Ev) :
    emit (feed cfg s op) evs = feed cfg (emit s evs) op := rfl

theorem complete_inv {cfg : Cfg} (w : Wf cfg) {s : State} (h : Inv cfg s) (c k : Nat) (o : Out)
    (hc : c ∈ s.running) : Inv cfg (complete cfg s c k o) := by
  have hkn : known s c = true := h.runKnown c hc
  have hnr : c ∉ (release s c).running := release_not_running h c
  unfold complete
  split
  · rw [feed_emit, hold_emit]
    exact feed_inv w (hold_inv (release_inv h c hc _ (by rfl) (by rfl)) c hnr hkn) _
  · rw [feed_emit, hold_emit]
    exact feed_inv w (hold_inv (release_inv h c hc _ (by rfl) (by rfl)) c hnr hkn) _
  · exact release_inv h c hc _ (by rfl) (by rfl)
  · exact h

theorem pollRunning_inv {cfg : Cfg} (w : Wf cfg) {s : State} (h : Inv cfg s) (c : Nat)
    (hc : c ∈ s.running) : Inv cfg (pollRunning cfg s c) := by
  unfold pollRunning
  split
  · split
    · exact complete_inv w h c _ _ hc
    · exact h
  · exact h

theorem dropRunning_inv {cfg : Cfg} {s : State} (h : Inv cfg s) (c : Nat)
    (hc : c ∈ s.running) : Inv cfg (dropRunning s c) :=
  release_inv h c hc _ (by rfl) (by rfl)

theorem checkOp_inv {cfg : Cfg} {s : State} (h : Inv cfg s) (c : Nat) : Inv cfg (checkOp s c) := by
  unfold checkOp
  split
  · exact emit_inv h _ (by rfl) (by rfl)
  · next hfresh =>
    have hk : known s c = false := by
      cases hkn : known s c
      · rfl
      · exact absurd (Or.inl hkn) hfresh
    have hnc : c ∉ s.checked := fun hm => hfresh (Or.inr hm)
    split
    · exact emit_inv (recordCheck_inv h c) _ (by rfl) (by rfl)
    · next hcap =>
      apply emit_inv _ _ (by rfl) (by rfl)
      have hr := recordCheck_inv h c
      refine
        { hr with
          chkFresh := ?_
          chkNodup := ?_
          chkHad := ?_ }
      · intro x hx
        simp only [List.mem_append, List.mem_singleton] at hx
        rcases hx with hx | hx
        · exact h.chkFresh x hx
        · subst hx; exact hk
      · show (s.checked ++ [c]).Nodup
        rw [List.nodup_append]
        refine ⟨h.chkNodup, (by simp), ?_⟩
        intro a ha b hb
        simp at hb; subst hb
        intro hab; subst hab; exact hnc ha
      · intro x hx
        simp only [List.mem_append, List.mem_singleton] at hx
        rcases hx with hx | hx
        · exact hr.chkHad x hx
        · subst hx
          refine ⟨_, by simp only [recordCheck, List.mem_append, List.mem_singleton]; exact Or.inr rfl, rfl, ?_⟩
          simpa using hcap

theorem warmOp_inv {cfg : Cfg} (w : Wf cfg) {s : State} (h : Inv cfg s) (prog : List FOp) :
    Inv cfg (warmOp cfg s prog) := by
  unfold warmOp
  apply emit_inv _ _ (by rfl) (by rfl)
  exact { h with alg := (Limit.seqOps_ok w s.alg prog h.alg).1 }

theorem stepS_inv {cfg : Cfg} (w : Wf cfg) {s : State} (h : Inv cfg s) (op : Op) :
    Inv cfg (stepS cfg s op) := by
  cases op with
  | adv ms => exact { h with }
  | arrive c sc keep =>
    simp only [stepS]
    split
    · exact h
    · next hk =>
      have hk : known s c = false := by simpa using hk
      have hk' : known (noteKeep s c keep) c = false := by rw [noteKeep_known]; exact hk
      split
      · exact arriveChecked_inv (noteKeep_inv h c keep) c sc hk'
      · next hc => exact arriveFresh_inv (noteKeep_inv h c keep) c sc hk' (by rw [noteKeep_checked]; exact hc)
  | poll c =>
    simp only [stepS]
    split
    · next hc => exact pollRunning_inv w h c hc
    · exact h
  | drop c =>
    simp only [stepS]
    split
    · next hc => exact dropRunning_inv h c hc
    · exact h
  | check c => exact checkOp_inv h c
  | letGo c => exact letGoOp_inv h c
  | warm prog => exact warmOp_inv w h prog
  | probeInFlight => exact emit_inv h _ (by rfl) (by rfl)
  | probeLimit => exact emit_inv h _ (by rfl) (by rfl)
  | probeReady =>
    exact emit_inv (recordCheck_inv h 0) _ (by rfl) (by rfl)

/-- a new caller arriving while `poll_ready`'s comparison says "below the limit" is admitted in that step -/
theorem arrive_below (cfg : Cfg) (s : State) (c : Nat) (sc : Step) (keep : Bool) (hk : known s c = false)
    (hc : c ∉ s.checked) (hn : atCapacity s = false) :
    (stepS cfg s (.arrive c sc keep)).running = s.running ++ [c] ∧
    (stepS cfg s (.arrive c sc keep)).inFlight = s.inFlight + 1 := by
  have hn' : atCapacity (noteKeep s c keep) = false := by
    unfold noteKeep; split <;> exact hn
  have hs : stepS cfg s (.arrive c sc keep) = startCall (recordCheck (noteKeep s c keep) c) c sc := by
    simp only [stepS, hk, hc, arriveFresh, hn']
    simp
  rw [hs]
  unfold noteKeep
  split <;> simp [startCall, emit, recordCheck]

/-- a new caller arriving while the comparison says "at the limit" is refused: nothing starts -/
theorem arrive_at (cfg : Cfg) (s : State) (c : Nat) (sc : Step) (keep : Bool) (hk : known s c = false)
    (hc : c ∉ s.checked) (h : atCapacity s = true) :
    (stepS cfg s (.arrive c sc keep)).running = s.running ∧
    (stepS cfg s (.arrive c sc keep)).inFlight = s.inFlight ∧
    (stepS cfg s (.arrive c sc keep)).log = s.log ++ [.result c .notReady] := by
  have h' : atCapacity (noteKeep s c keep) = true := by
    unfold noteKeep; split <;> exact h
  have hs : stepS cfg s (.arrive c sc keep) = refuse (recordCheck (noteKeep s c keep) c) c sc := by
    simp only [stepS, hk, hc, arriveFresh, h']
    simp
  rw [hs]
  unfold noteKeep
  split <;> simp [refuse, emit, recordCheck]

/-- one poll of a running call whose inner call has finished (ok, error or panic): the slot is given
back in that step and the call leaves `running` — whether or not the caller keeps the future; a
kept future that resolved with a value is from then on *held* -/
theorem poll_finished (cfg : Cfg) (s : State) (c t k : Nat) (sc : Step) (hc : c ∈ s.running)
    (hd : lookup s.doneAt c = some t) (hs : lookup s.script c = some sc) (hk : lookup s.kOf c = some k)
    (ht : s.now ≥ t) (hn : sc.out ≠ .never) :
    (stepS cfg s (.poll c)).inFlight = s.inFlight - 1 ∧
    (stepS cfg s (.poll c)).running = s.running.erase c ∧
    (stepS cfg s (.poll c)).held = (if c ∈ s.keeps ∧ sc.out ≠ .panic then s.held ++ [c] else s.held) := by
  simp only [stepS, hc, if_true, pollRunning, hd, hs, hk, ht]
  unfold complete
  cases ho : sc.out with
  | never => exact absurd ho hn
  | panic => simp [release, emit]
  | ok =>
    simp only [emit, feed, hold, release]
    by_cases hkp : c ∈ s.keeps <;> simp [hkp]
  | err kd =>
    simp only [emit, feed, hold, release]
    by_cases hkp : c ∈ s.keeps <;> simp [hkp]

/-- dropping a running call future gives the slot back in that step -/
theorem drop_running (cfg : Cfg) (s : State) (c : Nat) (hc : c ∈ s.running) :
    (stepS cfg s (.drop c)).inFlight = s.inFlight - 1 ∧
    (stepS cfg s (.drop c)).running = s.running.erase c ∧ (stepS cfg s (.drop c)).held = s.held := by
  simp [stepS, hc, dropRunning, release, emit]

/-- letting go of a finished call future touches nothing but the set of held futures -/
theorem letGo_frame (cfg : Cfg) (s : State) (c : Nat) :
    (stepS cfg s (.letGo c)).inFlight = s.inFlight ∧ (stepS cfg s (.letGo c)).running = s.running ∧
    (stepS cfg s (.letGo c)).alg = s.alg ∧ (stepS cfg s (.letGo c)).checked = s.checked ∧
    (stepS cfg s (.letGo c)).checks = s.checks ∧ (stepS cfg s (.letGo c)).log = s.log ∧
    (stepS cfg s (.letGo c)).held = s.held.erase c ∧ atCapacity (stepS cfg s (.letGo c)) = atCapacity s := by
  simp [stepS, letGoOp, atCapacity]

theorem foldl_inv {cfg : Cfg} (w : Wf cfg) (ops : List Op) {s : State} (h : Inv cfg s) :
    Inv cfg (ops.foldl (stepS cfg) s) := by
  induction ops generalizing s with
  | nil => exact h
  | cons op tl ih => exact ih (stepS_inv w h op)

theorem inv_reachable {cfg : Cfg} (w : Wf cfg) (ops : List Op) : Inv cfg (run cfg ops) :=
  foldl_inv w ops (init_inv w.le)

end TR.Adaptive
