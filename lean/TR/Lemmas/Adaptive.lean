import TR.Model.Adaptive
import TR.Lemmas.Limit
/-!
# Invariants of the adaptive limiter service (C13, part B)

`Inv`: the counter equals the number of running calls (and the number of inner calls started
and not finished/dropped according to the event log); every readiness check ever made was
refused iff at least `limit` calls were really running at that step; every caller holding a
ready clone passed such a check; the algorithm's limit is in bounds; a finished call future that
its caller still holds (`held`) is not running (so it is not counted); every running call has
its scripted completion instant.
-/
namespace TR.Adaptive
open TR.Limit (Cfg Cells FOp Wf InB CellsOk)

def isCall : Ev → Bool
  | .innerCall _ _ => true
  | .innerCallX _ _ _ _ => true
  | _ => false

def isEnd : Ev → Bool
  | .innerDone _ _ _ => true
  | .innerDrop _ _ => true
  | _ => false

/-- inner calls started according to the log -/
def calls (l : List Ev) : Nat := l.countP isCall
/-- inner calls finished (any outcome, incl. panic) or dropped according to the log -/
def ended (l : List Ev) : Nat := l.countP isEnd

/-- a readiness check answered correctly: refused iff `limit` or more calls were running -/
def Check.ok (k : Check) : Prop := k.refused = true ↔ k.running ≥ k.limit

/-- one `poll_ready` of a persistent handle answered correctly: refused for capacity iff `limit` or more calls were
running at that poll — whatever the handle was told before —, and `Ready` only if the inner service was ready -/
def Poll.ok (k : Poll) : Prop := (k.answer = .refused ↔ k.running ≥ k.limit) ∧ (k.answer = .ready → k.inner = .r)

structure Inv (cfg : Cfg) (s : State) : Prop where
  exact : s.inFlight = s.running.length
  trace : calls s.log = ended s.log + s.inFlight
  nodup : s.running.Nodup
  runKnown : ∀ c ∈ s.running, known s c = true
  chkFresh : ∀ c ∈ s.checked, known s c = false
  chkNodup : s.checked.Nodup
  alg : CellsOk cfg s.alg
  checks : ∀ k ∈ s.checks, k.ok
  chkHad : ∀ c ∈ s.checked, ∃ k ∈ s.checks, k.who = c ∧ k.refused = false
  heldFree : ∀ c ∈ s.held, c ∉ s.running
  heldKnown : ∀ c ∈ s.held, known s c = true
  sched : ∀ c ∈ s.running, (lookup s.doneAt c).isSome = true ∧ (lookup s.kOf c).isSome = true
  pollsOk : ∀ k ∈ s.polls, k.ok
  hrdy : ∀ p ∈ s.hready, p.2 ∈ s.polls ∧ p.2.handle = p.1 ∧ p.2.answer = .ready

theorem known_cons (s : State) (c x : Nat) (sc : Step) :
    known { s with script := (c, sc) :: s.script } x = (decide (c = x) || known s x) := by
  unfold known
  simp only [lookup]
  split <;> simp_all

theorem init_inv {cfg : Cfg} (h : cfg.min ≤ cfg.max) : Inv cfg (init cfg) :=
  { exact := rfl, trace := rfl, nodup := List.nodup_nil
    runKnown := by intro c hc; cases hc
    chkFresh := by intro c hc; cases hc
    chkNodup := List.nodup_nil
    alg := Limit.initCells_ok h
    checks := by intro k hk; cases hk
    chkHad := by intro c hc; cases hc
    heldFree := by intro c hc; cases hc
    heldKnown := by intro c hc; cases hc
    sched := by intro c hc; cases hc
    pollsOk := by intro k hk; cases hk
    hrdy := by intro p hp; cases hp }

theorem lookup_cons {α : Type} (l : List (Nat × α)) (c x : Nat) (v : α) :
    (lookup ((c, v) :: l) x).isSome = (decide (c = x) || (lookup l x).isSome) := by
  simp only [lookup]
  split <;> simp_all

/-- events that are neither the start nor the end of an inner call leave the accounting alone -/
theorem emit_inv {cfg : Cfg} {s : State} (h : Inv cfg s) (evs : List Ev)
    (h1 : calls evs = 0) (h2 : ended evs = 0) : Inv cfg (emit s evs) :=
  { h with
    trace := by
      have := h.trace
      simp only [emit, calls, ended, List.countP_append] at *
      omega }

theorem recordCheck_inv {cfg : Cfg} {s : State} (h : Inv cfg s) (who : Nat) :
    Inv cfg (recordCheck s who) :=
  { h with
    checks := by
      intro k hk
      simp only [recordCheck, List.mem_append, List.mem_singleton] at hk
      rcases hk with hk | hk
      · exact h.checks k hk
      · subst hk
        simp only [Check.ok, atCapacity, decide_eq_true_eq]
        rw [h.exact]
    chkHad := by
      intro c hc
      obtain ⟨k, hk, hw⟩ := h.chkHad c hc
      exact ⟨k, by simp only [recordCheck, List.mem_append]; exact Or.inl hk, hw⟩ }

theorem startCall_inv {cfg : Cfg} {s : State} (h : Inv cfg s) (c : Nat) (sc : Step)
    (hk : known s c = false) (hc : c ∉ s.checked) : Inv cfg (startCall s c sc) := by
  have hnr : c ∉ s.running := by
    intro hm; have := h.runKnown c hm; rw [hk] at this; cases this
  refine
    { exact := by simp [startCall, emit, h.exact]
      trace := ?_
      nodup := ?_
      runKnown := ?_
      chkFresh := ?_
      chkNodup := h.chkNodup
      alg := h.alg
      checks := h.checks
      chkHad := h.chkHad
      heldFree := ?_
      heldKnown := ?_
      sched := ?_
      pollsOk := h.pollsOk
      hrdy := h.hrdy }
  · have := h.trace
    simp only [startCall, emit, calls, ended, List.countP_append, List.countP_cons, List.countP_nil, isCall, isEnd] at *
    simp
    omega
  · simp only [startCall, emit]
    rw [List.nodup_append]
    refine ⟨h.nodup, (by simp), ?_⟩
    intro a ha b hb
    simp at hb
    subst hb
    intro hab; subst hab; exact hnr ha
  · intro x hx
    simp only [startCall, emit, List.mem_append, List.mem_singleton] at hx
    show known { s with script := (c, sc) :: s.script, inFlight := _, running := _, startAt := _, doneAt := _, kOf := _, serial := _, cur := _, log := _ } x = true
    have hkc := known_cons s c x sc
    unfold known at hkc ⊢
    simp only at hkc ⊢
    rw [hkc]
    rcases hx with hx | hx
    · have := h.runKnown x hx; unfold known at this; simp [this]
    · simp [hx]
  · intro x hx
    have hx' : x ∈ s.checked := hx
    have hne : c ≠ x := by intro he; subst he; exact hc hx'
    have hkc := known_cons s c x sc
    have := h.chkFresh x hx'
    unfold known at hkc this ⊢
    simp only [startCall, emit] at hkc ⊢
    rw [hkc]
    simp [hne, this]
  · intro x hx
    have hx' : x ∈ s.held := hx
    simp only [startCall, emit, List.mem_append, List.mem_singleton]
    intro hm
    rcases hm with hm | hm
    · exact h.heldFree x hx' hm
    · subst hm; have := h.heldKnown x hx'; rw [hk] at this; cases this
  · intro x hx
    have hx' : x ∈ s.held := hx
    have hkc := known_cons s c x sc
    have := h.heldKnown x hx'
    unfold known at hkc this ⊢
    simp only [startCall, emit] at hkc ⊢
    rw [hkc]; simp [this]
  · intro x hx
    simp only [startCall, emit, List.mem_append, List.mem_singleton] at hx
    simp only [startCall, emit, lookup_cons]
    rcases hx with hx | hx
    · have := h.sched x hx; simp [this.1, this.2]
    · simp [hx]

theorem refuseWith_inv {cfg : Cfg} {s : State} (h : Inv cfg s) (c : Nat) (sc : Step) (r : Res)
    (hc : c ∉ s.checked) : Inv cfg (refuseWith s c sc r) := by
  refine
    { exact := h.exact
      trace := ?_
      nodup := h.nodup
      runKnown := ?_
      chkFresh := ?_
      chkNodup := h.chkNodup
      alg := h.alg
      checks := h.checks
      chkHad := h.chkHad
      heldFree := h.heldFree
      heldKnown := ?_
      sched := h.sched
      pollsOk := h.pollsOk
      hrdy := h.hrdy }
  · have := h.trace
    simp only [refuseWith, emit, calls, ended, List.countP_append, List.countP_cons, List.countP_nil, isCall, isEnd] at *
    simp
    omega
  · intro x hx
    have hx' : x ∈ s.running := hx
    have hkc := known_cons s c x sc
    have := h.runKnown x hx'
    unfold known at hkc this ⊢
    simp only [refuseWith, emit] at hkc ⊢
    rw [hkc]; simp [this]
  · intro x hx
    have hx' : x ∈ s.checked := hx
    have hne : c ≠ x := by intro he; subst he; exact hc hx'
    have hkc := known_cons s c x sc
    have := h.chkFresh x hx'
    unfold known at hkc this ⊢
    simp only [refuseWith, emit] at hkc ⊢
    rw [hkc]; simp [hne, this]
  · intro x hx
    have hx' : x ∈ s.held := hx
    have hkc := known_cons s c x sc
    have := h.heldKnown x hx'
    unfold known at hkc this ⊢
    simp only [refuseWith, emit] at hkc ⊢
    rw [hkc]; simp [this]

theorem refuse_inv {cfg : Cfg} {s : State} (h : Inv cfg s) (c : Nat) (sc : Step)
    (hc : c ∉ s.checked) : Inv cfg (refuse s c sc) := refuseWith_inv h c sc _ hc

theorem arriveFresh_inv {cfg : Cfg} {s : State} (h : Inv cfg s) (c : Nat) (sc : Step)
    (hk : known s c = false) (hc : c ∉ s.checked) : Inv cfg (arriveFresh s c sc) := by
  unfold arriveFresh
  split
  · exact refuse_inv (recordCheck_inv h c) c sc hc
  · exact startCall_inv (recordCheck_inv h c) c sc hk hc

theorem uncheck_inv {cfg : Cfg} {s : State} (h : Inv cfg s) (c : Nat) :
    Inv cfg { s with checked := s.checked.erase c } :=
  { h with
    chkFresh := fun x hx => h.chkFresh x (List.mem_of_mem_erase hx)
    chkNodup := h.chkNodup.erase c
    chkHad := fun x hx => h.chkHad x (List.mem_of_mem_erase hx) }

theorem arriveChecked_inv {cfg : Cfg} {s : State} (h : Inv cfg s) (c : Nat) (sc : Step)
    (hk : known s c = false) : Inv cfg (arriveChecked s c sc) := by
  unfold arriveChecked
  apply startCall_inv (uncheck_inv h c) c sc hk
  intro hm
  exact ((h.chkNodup.mem_erase_iff).mp hm).1 rfl

/-- the guard is dropped and the end of the inner call is logged (`evs` holds exactly one end event) -/
theorem release_inv {cfg : Cfg} {s : State} (h : Inv cfg s) (c : Nat) (hc : c ∈ s.running)
    (evs : List Ev) (h1 : calls evs = 0) (h2 : ended evs = 1) : Inv cfg (emit (release s c) evs) := by
  have hpos : 0 < s.running.length := List.length_pos_of_mem hc
  have hlen : (s.running.erase c).length = s.running.length - 1 := List.length_erase_of_mem hc
  refine
    { exact := by simp only [release, emit]; rw [hlen, h.exact]
      trace := ?_
      nodup := h.nodup.erase c
      runKnown := fun x hx => h.runKnown x (List.mem_of_mem_erase hx)
      chkFresh := h.chkFresh
      chkNodup := h.chkNodup
      alg := h.alg
      checks := h.checks
      chkHad := h.chkHad
      heldFree := fun x hx hm => h.heldFree x hx (List.mem_of_mem_erase hm)
      heldKnown := h.heldKnown
      sched := fun x hx => h.sched x (List.mem_of_mem_erase hx)
      pollsOk := h.pollsOk
      hrdy := h.hrdy }
  have ht := h.trace
  have he := h.exact
  simp only [release, emit, calls, ended, List.countP_append] at *
  omega

theorem release_not_running {cfg : Cfg} {s : State} (h : Inv cfg s) (c : Nat) : c ∉ (release s c).running := by
  intro hm
  exact ((h.nodup.mem_erase_iff).mp hm).1 rfl

theorem noteKeep_inv {cfg : Cfg} {s : State} (h : Inv cfg s) (c : Nat) (keep : Bool) :
    Inv cfg (noteKeep s c keep) := by
  unfold noteKeep
  split
  · exact { h with }
  · exact h

theorem noteKeep_known (s : State) (c : Nat) (keep : Bool) (x : Nat) : known (noteKeep s c keep) x = known s x := by
  unfold noteKeep; split <;> rfl

theorem noteKeep_checked (s : State) (c : Nat) (keep : Bool) : (noteKeep s c keep).checked = s.checked := by
  unfold noteKeep; split <;> rfl

/-- a finished call future is kept by its caller: it is not running any more, nothing is counted for it -/
theorem hold_inv {cfg : Cfg} {s : State} (h : Inv cfg s) (c : Nat) (hc : c ∉ s.running)
    (hk : known s c = true) : Inv cfg (hold s c) := by
  unfold hold
  split
  · exact
      { h with
        heldFree := by
          intro x hx
          simp only [List.mem_append, List.mem_singleton] at hx
          rcases hx with hx | hx
          · exact h.heldFree x hx
          · subst hx; exact hc
        heldKnown := by
          intro x hx
          simp only [List.mem_append, List.mem_singleton] at hx
          rcases hx with hx | hx
          · exact h.heldKnown x hx
          · subst hx; exact hk }
  · exact h

theorem hold_emit (s : State) (c : Nat) (evs : List Ev) : emit (hold s c) evs = hold (emit s evs) c := by
  unfold hold emit
  split <;> rfl

theorem letGoOp_inv {cfg : Cfg} {s : State} (h : Inv cfg s) (c : Nat) : Inv cfg (letGoOp s c) :=
  { h with
    heldFree := fun x hx => h.heldFree x (List.mem_of_mem_erase hx)
    heldKnown := fun x hx => h.heldKnown x (List.mem_of_mem_erase hx) }

theorem feed_inv {cfg : Cfg} (w : Wf cfg) {s : State} (h : Inv cfg s) (op : FOp) : Inv cfg (feed cfg s op) :=
  { h with alg := Limit.seqOp_ok w s.alg op h.alg }

theorem feed_emit (cfg : Cfg) (s : State) (op : FOp) (evs : List Ev) :
    emit (feed cfg s op) evs = feed cfg (emit s evs) op := rfl

theorem complete_inv {cfg : Cfg} (w : Wf cfg) {s : State} (h : Inv cfg s) (c k : Nat) (o : Out)
    (hc : c ∈ s.running) : Inv cfg (complete cfg s c k o) := by
  have hkn : known s c = true := h.runKnown c hc
  have hnr : c ∉ (release s c).running := release_not_running h c
  unfold complete
  split
  · rw [feed_emit, hold_emit]
    exact feed_inv w (hold_inv (release_inv h c hc _ (by rfl) (by rfl)) c hnr hkn) _
  · rw [feed_emit, hold_emit]
    exact feed_inv w (hold_inv (release_inv h c hc _ (by rfl) (by rfl)) c hnr hkn) _
  · exact release_inv h c hc _ (by rfl) (by rfl)
  · exact h

theorem pollRunning_inv {cfg : Cfg} (w : Wf cfg) {s : State} (h : Inv cfg s) (c : Nat)
    (hc : c ∈ s.running) : Inv cfg (pollRunning cfg s c) := by
  unfold pollRunning
  split
  · split
    · exact complete_inv w h c _ _ hc
    · exact h
  · exact h

theorem dropRunning_inv {cfg : Cfg} {s : State} (h : Inv cfg s) (c : Nat)
    (hc : c ∈ s.running) : Inv cfg (dropRunning s c) :=
  release_inv h c hc _ (by rfl) (by rfl)

theorem checkOp_inv {cfg : Cfg} {s : State} (h : Inv cfg s) (c : Nat) : Inv cfg (checkOp s c) := by
  unfold checkOp
  split
  · exact emit_inv h _ (by rfl) (by rfl)
  · next hfresh =>
    have hk : known s c = false := by
      cases hkn : known s c
      · rfl
      · exact absurd (Or.inl hkn) hfresh
    have hnc : c ∉ s.checked := fun hm => hfresh (Or.inr hm)
    split
    · exact emit_inv (recordCheck_inv h c) _ (by rfl) (by rfl)
    · next hcap =>
      apply emit_inv _ _ (by rfl) (by rfl)
      have hr := recordCheck_inv h c
      refine
        { hr with
          chkFresh := ?_
          chkNodup := ?_
          chkHad := ?_ }
      · intro x hx
        simp only [List.mem_append, List.mem_singleton] at hx
        rcases hx with hx | hx
        · exact h.chkFresh x hx
        · subst hx; exact hk
      · show (s.checked ++ [c]).Nodup
        rw [List.nodup_append]
        refine ⟨h.chkNodup, (by simp), ?_⟩
        intro a ha b hb
        simp at hb; subst hb
        intro hab; subst hab; exact hnc ha
      · intro x hx
        simp only [List.mem_append, List.mem_singleton] at hx
        rcases hx with hx | hx
        · exact hr.chkHad x hx
        · subst hx
          refine ⟨_, by simp only [recordCheck, List.mem_append, List.mem_singleton]; exact Or.inr rfl, rfl, ?_⟩
          simpa using hcap

theorem warmOp_inv {cfg : Cfg} (w : Wf cfg) {s : State} (h : Inv cfg s) (prog : List FOp) :
    Inv cfg (warmOp cfg s prog) := by
  unfold warmOp
  apply emit_inv _ _ (by rfl) (by rfl)
  exact { h with alg := (Limit.seqOps_ok w s.alg prog h.alg).1 }


/-! ## persistent handles -/

theorem answerOf_refused (s : State) (a : Ans) : answerOf s a = .refused ↔ atCapacity s = true := by
  unfold answerOf
  split
  · simp [*]
  · cases a <;> simp [*]

theorem answerOf_ready (s : State) (a : Ans) : answerOf s a = .ready ↔ atCapacity s = false ∧ a = .r := by
  unfold answerOf
  split
  · simp [*]
  · cases a <;> simp [*]

theorem mkPoll_ok {cfg : Cfg} {s : State} (h : Inv cfg s) (hd : Nat) (a : Ans) : (mkPoll s hd a).ok := by
  refine ⟨?_, ?_⟩
  · show answerOf s a = .refused ↔ s.running.length ≥ s.alg.limit
    rw [answerOf_refused]
    simp only [atCapacity, decide_eq_true_eq]
    rw [h.exact]
  · show answerOf s a = .ready → a = .r
    intro hr
    exact ((answerOf_ready s a).mp hr).2

theorem mem_eraseKey {l : List (Nat × Poll)} {hd : Nat} {p : Nat × Poll} (hp : p ∈ eraseKey l hd) : p ∈ l :=
  (List.mem_filter.mp hp).1

theorem lookup_eraseKey (l : List (Nat × Poll)) (hd : Nat) : lookup (eraseKey l hd) hd = none := by
  induction l with
  | nil => rfl
  | cons x tl ih =>
    obtain ⟨k, v⟩ := x
    by_cases hk : k = hd
    · simp [eraseKey, hk]
      exact ih
    · have : ((k, v) :: tl).filter (fun p => p.1 != hd) = (k, v) :: tl.filter (fun p => p.1 != hd) := by
        simp [hk]
      unfold eraseKey
      rw [this]
      simp only [lookup, hk, if_false]
      exact ih

theorem lookup_mem {l : List (Nat × Poll)} {hd : Nat} {k : Poll} (h : lookup l hd = some k) : (hd, k) ∈ l := by
  induction l with
  | nil => cases h
  | cons x tl ih =>
    obtain ⟨a, v⟩ := x
    simp only [lookup] at h
    split at h
    · next he => cases h; subst he; exact List.mem_cons_self
    · exact List.mem_cons_of_mem _ (ih h)

/-- one `poll_ready` on a handle: recorded, answered correctly, and the handle is ready afterwards iff the answer was `Ready` -/
theorem pollHandle_inv {cfg : Cfg} {s : State} (h : Inv cfg s) (hd : Nat) (a : Ans) : Inv cfg (pollHandle s hd a) :=
  { h with
    pollsOk := by
      intro k hk
      simp only [pollHandle, List.mem_append, List.mem_singleton] at hk
      rcases hk with hk | hk
      · exact h.pollsOk k hk
      · subst hk; exact mkPoll_ok h hd a
    hrdy := by
      intro p hp
      simp only [pollHandle] at hp ⊢
      split at hp
      · next hr =>
        rcases List.mem_cons.mp hp with hp | hp
        · subst hp
          exact ⟨List.mem_append_right _ (List.mem_singleton.mpr rfl), rfl, hr⟩
        · have := h.hrdy p (mem_eraseKey hp)
          exact ⟨List.mem_append_left _ this.1, this.2⟩
      · have := h.hrdy p (mem_eraseKey hp)
        exact ⟨List.mem_append_left _ this.1, this.2⟩ }

theorem eraseH_inv {cfg : Cfg} {s : State} (h : Inv cfg s) (hd : Nat) :
    Inv cfg { s with hready := eraseKey s.hready hd } :=
  { h with hrdy := fun p hp => h.hrdy p (mem_eraseKey hp) }

theorem callHandle_inv {cfg : Cfg} {s : State} (h : Inv cfg s) (c : Nat) (sc : Step) (hd : Nat)
    (hk : known s c = false) (hc : c ∉ s.checked) : Inv cfg (callHandle s c sc hd) :=
  startCall_inv (eraseH_inv h hd) c sc hk hc

theorem arriveHandle_inv {cfg : Cfg} {s : State} (h : Inv cfg s) (c : Nat) (sc : Step) (hd : Nat) (a : Ans)
    (hk : known s c = false) (hc : c ∉ s.checked) : Inv cfg (arriveHandle s c sc hd a) := by
  unfold arriveHandle
  split
  · exact callHandle_inv h c sc hd hk hc
  · split
    · exact callHandle_inv (pollHandle_inv h hd a) c sc hd hk hc
    · exact refuseWith_inv (pollHandle_inv h hd a) c sc _ hc

/-! ## an inner service whose `call()` itself panics -/

/-- counter up, guard, unwind: what is left of such a call is the caller's knowledge of the panic -/
theorem panicCall_eq (s : State) (c : Nat) (sc : Step) : panicCall s c sc = refuseWith s c sc .panic := by
  simp only [panicCall, unwindCall, enterCall, refuseWith, Nat.add_sub_cancel]

theorem panicCall_inv {cfg : Cfg} {s : State} (h : Inv cfg s) (c : Nat) (sc : Step)
    (hc : c ∉ s.checked) : Inv cfg (panicCall s c sc) := by
  rw [panicCall_eq]; exact refuseWith_inv h c sc _ hc

theorem arriveFreshX_inv {cfg : Cfg} {s : State} (h : Inv cfg s) (c : Nat) (sc : Step)
    (hc : c ∉ s.checked) : Inv cfg (arriveFreshX s c sc) := by
  unfold arriveFreshX
  split
  · exact refuse_inv (recordCheck_inv h c) c sc hc
  · exact panicCall_inv (recordCheck_inv h c) c sc hc

theorem arriveHandleX_inv {cfg : Cfg} {s : State} (h : Inv cfg s) (c : Nat) (sc : Step) (hd : Nat) (a : Ans)
    (hc : c ∉ s.checked) : Inv cfg (arriveHandleX s c sc hd a) := by
  unfold arriveHandleX
  split
  · exact panicCall_inv (eraseH_inv h hd) c sc hc
  · split
    · exact panicCall_inv (eraseH_inv (pollHandle_inv h hd a) hd) c sc hc
    · exact refuseWith_inv (pollHandle_inv h hd a) c sc _ hc

theorem arriveX_inv {cfg : Cfg} {s : State} (h : Inv cfg s) (c : Nat) (sc : Step) (hd : Nat) (a : Ans) :
    Inv cfg (stepS cfg s (.arriveX c sc hd a)) := by
  simp only [stepS]
  split
  · exact h
  · split
    · apply panicCall_inv (uncheck_inv h c) c sc
      intro hm
      exact ((h.chkNodup.mem_erase_iff).mp hm).1 rfl
    · next hc =>
      split
      · exact arriveFreshX_inv h c sc hc
      · exact arriveHandleX_inv h c sc hd a hc

theorem readyOp_inv {cfg : Cfg} {s : State} (h : Inv cfg s) (hd : Nat) (a : Ans) : Inv cfg (readyOp s hd a) :=
  emit_inv (pollHandle_inv h hd a) _ (by rfl) (by rfl)

/-- (the equation lemmas of these definitions are generated here, so that the audit of `TR.Props.C13` lists only its theorems) -/
theorem handle_defs (cfg : Cfg) (s : State) (c : Nat) (sc : Step) (hd : Nat) (a : Ans) (r : Answer) :
    arriveHandle s c sc hd a = arriveHandle s c sc hd a ∧ readyOp s hd a = readyOp s hd a ∧
    refusalOf r = refusalOf r ∧ freshShared cfg = freshShared cfg := by
  refine ⟨?_, ?_, ?_, ?_⟩
  · simp only [arriveHandle]
  · simp only [readyOp]
  · cases r <;> simp only [refusalOf]
  · simp only [freshShared]

/-! ## clones on several threads -/

def sumBy (f : TThread → Nat) (l : List TThread) : Nat := (l.map f).sum

theorem sumBy_split (f : TThread → Nat) : ∀ (l : List TThread) (i : Nat) (a : TThread), l[i]? = some a →
    ∃ rest, sumBy f l = f a + rest ∧ ∀ b, sumBy f (l.set i b) = f b + rest := by
  intro l
  induction l with
  | nil => intro i a h; simp at h
  | cons x xs ih =>
    intro i a h
    cases i with
    | zero =>
      simp at h
      subst h
      exact ⟨sumBy f xs, by simp [sumBy], by intro b; simp [sumBy]⟩
    | succ j =>
      simp at h
      obtain ⟨rest, h1, h2⟩ := ih j a h
      refine ⟨f x + rest, ?_, ?_⟩
      · simp only [sumBy, List.map_cons, List.sum_cons] at h1 ⊢; omega
      · intro b
        have := h2 b
        simp only [sumBy, List.set_cons_succ, List.map_cons, List.sum_cons] at this ⊢; omega

theorem sumBy_zero (f : TThread → Nat) (l : List TThread) (h : ∀ x ∈ l, f x = 0) : sumBy f l = 0 := by
  induction l with
  | nil => rfl
  | cons x xs ih =>
    simp only [sumBy, List.map_cons, List.sum_cons]
    have h1 := h x List.mem_cons_self
    have h2 := ih (fun y hy => h y (List.mem_cons_of_mem _ hy))
    simp only [sumBy] at h2
    omega

/-- the live guards a thread owns -/
def nlive (th : TThread) : Nat := th.calls.length

/-- the end of the oldest call's inner future is already in the log, its guard not yet released -/
def pend (th : TThread) : Nat :=
  match th.ph with
  | .rel _ => if th.calls.isEmpty then 0 else 1
  | _ => 0

theorem liveGuards_eq (ths : List TThread) : liveGuards ths = sumBy nlive ths := rfl

/-- the registers of a thread inside the algorithm hold limits that are in bounds -/
def ThOk (cfg : Cfg) (th : TThread) : Prop := ∀ lt b, th.ph = .feed lt b → Limit.ThreadOk cfg lt

/-- what one turn of one thread does to the shared counter, the log and the thread's own guards -/
structure Eff (cfg : Cfg) (sh : Shared) (th : TThread) (r : Shared × TThread) : Prop where
  alg : CellsOk cfg sh.alg → ThOk cfg th → CellsOk cfg r.1.alg ∧ ThOk cfg r.2
  cnt : nlive th ≤ sh.inFlight → r.1.inFlight + nlive th = sh.inFlight + nlive r.2
  tr : nlive th ≤ sh.inFlight →
    calls r.1.log + pend r.2 + (ended sh.log + sh.inFlight) = calls sh.log + pend th + (ended r.1.log + r.1.inFlight)

theorem thOk_of_ph {cfg : Cfg} {th : TThread} (h : ∀ lt b, th.ph ≠ .feed lt b) : ThOk cfg th := by
  intro lt b hp; exact absurd hp (h lt b)

theorem tdone_ok (cfg : Cfg) (th : TThread) : ThOk cfg (tdone th) := by
  apply thOk_of_ph; intro lt b; simp [tdone]

theorem pend_tdone (th : TThread) : pend (tdone th) = 0 := rfl

theorem eff_refl {cfg : Cfg} (sh : Shared) (th : TThread) : Eff cfg sh th (sh, th) :=
  ⟨fun a b => ⟨a, b⟩, fun _ => rfl, fun _ => rfl⟩

/-- a turn that touches neither the counter, nor the algorithm, nor the log, nor the guards of the thread, and
neither starts nor ends in the release phase -/
theorem eff_local {cfg : Cfg} (sh sh' : Shared) (th th' : TThread)
    (h1 : sh'.alg = sh.alg) (h2 : sh'.inFlight = sh.inFlight) (h3 : sh'.log = sh.log)
    (h4 : th'.calls = th.calls) (h5 : pend th = 0) (h6 : pend th' = 0) (h7 : ThOk cfg th') :
    Eff cfg sh th (sh', th') := by
  refine ⟨fun a _ => ⟨by simpa [h1] using a, h7⟩, ?_, ?_⟩
  · intro _; simp [nlive, h2, h4]
  · intro _; simp [h2, h3, h5, h6]

/-- the same for a turn inside the algorithm (the algorithm's cells change) -/
theorem eff_quiet {cfg : Cfg} (sh sh' : Shared) (th th' : TThread)
    (h2 : sh'.inFlight = sh.inFlight) (h3 : sh'.log = sh.log)
    (h4 : th'.calls = th.calls) (h5 : pend th = 0) (h6 : pend th' = 0)
    (h7 : CellsOk cfg sh.alg → ThOk cfg th → CellsOk cfg sh'.alg ∧ ThOk cfg th') :
    Eff cfg sh th (sh', th') := by
  refine ⟨h7, ?_, ?_⟩
  · intro _; simp [nlive, h2, h4]
  · intro _; simp [h2, h3, h5, h6]

theorem afterRel_calls (th : TThread) (p : Bool) (o : Out) : (afterRel th p o).calls = th.calls := by
  unfold afterRel; split
  · split <;> rfl
  · rfl

theorem afterRel_pend (th : TThread) (p : Bool) (o : Out) : pend (afterRel th p o) = 0 := by
  unfold afterRel; split
  · split <;> rfl
  · rfl

theorem afterRel_ok (cfg : Cfg) (th : TThread) (p : Bool) (o : Out) : ThOk cfg (afterRel th p o) := by
  unfold afterRel; split
  · split
    · intro lt b hp; simp at hp; rw [← hp.1]; exact Limit.threadOk_fresh cfg _
    · intro lt b hp; simp at hp; rw [← hp.1]; exact Limit.threadOk_fresh cfg _
    · exact tdone_ok cfg th
  · exact tdone_ok cfg th

theorem beginT_eff {cfg : Cfg} (sh : Shared) (th : TThread) (op : TOp) (hph : th.ph = .idle) :
    Eff cfg sh th (beginT sh th op) := by
  have hp0 : pend th = 0 := by simp [pend, hph]
  cases op with
  | acquire o =>
    exact eff_local sh sh th _ rfl rfl rfl rfl hp0 rfl (thOk_of_ph (by intro lt b; simp))
  | readInFlight =>
    exact eff_local sh sh th _ rfl rfl rfl rfl hp0 rfl (thOk_of_ph (by intro lt b; simp))
  | fb op =>
    refine eff_local sh sh th _ rfl rfl rfl rfl hp0 rfl ?_
    intro lt b hp; simp at hp; rw [← hp.1]; exact Limit.threadOk_fresh cfg _
  | finishCall =>
    simp only [beginT]
    split
    · exact eff_local sh sh th _ rfl rfl rfl rfl hp0 rfl (tdone_ok cfg th)
    · next cl rest hc =>
      split
      · exact eff_local sh sh th _ rfl rfl rfl rfl hp0 rfl (tdone_ok cfg th)
      · refine ⟨fun a _ => ⟨a, thOk_of_ph (by intro lt b; simp)⟩, fun _ => rfl, ?_⟩
        intro _
        simp [pushLog, calls, ended, List.countP_append, isCall, isEnd, pend, hph, hc]
        omega
  | dropCall =>
    simp only [beginT]
    split
    · exact eff_local sh sh th _ rfl rfl rfl rfl hp0 rfl (tdone_ok cfg th)
    · next cl rest hc =>
      refine ⟨fun a _ => ⟨a, thOk_of_ph (by intro lt b; simp)⟩, fun _ => rfl, ?_⟩
      intro _
      simp [pushLog, calls, ended, List.countP_append, isCall, isEnd, pend, hph, hc]
      omega

theorem relStep_eff {cfg : Cfg} (sh : Shared) (th : TThread) (polled : Bool) (hph : th.ph = .rel polled) :
    Eff cfg sh th (relStep sh th polled) := by
  unfold relStep
  split
  · next hc =>
    refine ⟨fun a _ => ⟨a, tdone_ok cfg th⟩, fun _ => rfl, ?_⟩
    intro _; simp [pend, hph, hc, tdone]
  · next cl rest hc =>
    refine ⟨fun a _ => ⟨a, afterRel_ok cfg _ _ _⟩, ?_, ?_⟩
    · intro hle
      simp only [nlive, afterRel_calls, hc, List.length_cons] at hle ⊢
      omega
    · intro hle
      simp only [nlive, hc, List.length_cons] at hle
      have hp1 : pend th = 1 := by simp [pend, hph, hc]
      show calls sh.log + pend (afterRel { th with calls := rest } polled cl.o) + (ended sh.log + sh.inFlight) =
        calls sh.log + pend th + (ended sh.log + (sh.inFlight - 1))
      rw [afterRel_pend, hp1]
      omega

theorem feedStep_eff {cfg : Cfg} (w : Wf cfg) (sh : Shared) (th : TThread) (lt : Limit.Thread) (sync : Bool) (weak : Bool)
    (hph : th.ph = .feed lt sync) : Eff cfg sh th (feedStep cfg sh th lt sync weak) := by
  have hp0 : pend th = 0 := by simp [pend, hph]
  unfold feedStep
  simp only
  split
  · refine eff_quiet sh { sh with alg := (Limit.tstepW cfg sh.alg lt weak).1 } th _ rfl rfl ?_ hp0 ?_ ?_
    · split <;> rfl
    · split <;> rfl
    · intro a b
      have hr := Limit.tstepW_ok w sh.alg lt weak a (b lt sync hph)
      refine ⟨hr.1, ?_⟩
      split
      · exact thOk_of_ph (by intro lt b; simp)
      · exact tdone_ok cfg _
  · refine eff_quiet sh { sh with alg := (Limit.tstepW cfg sh.alg lt weak).1 } th _ rfl rfl rfl hp0 rfl ?_
    intro a b
    have hr := Limit.tstepW_ok w sh.alg lt weak a (b lt sync hph)
    refine ⟨hr.1, ?_⟩
    intro lt' b' hp; simp at hp; rw [← hp.1]; exact hr.2

theorem enterStep_eff {cfg : Cfg} (sh : Shared) (tid : Nat) (th : TThread) (o : Out) (lim seen : Nat)
    (hph : th.ph = .enter o lim seen) : Eff cfg sh th (enterStep sh tid th o lim seen) := by
  have hp0 : pend th = 0 := by simp [pend, hph]
  refine ⟨fun a _ => ⟨a, thOk_of_ph (by intro lt b; simp [enterStep])⟩, ?_, ?_⟩
  · intro _; simp [enterStep, nlive]; omega
  · intro _
    have hp1 : pend (enterStep sh tid th o lim seen).2 = 0 := rfl
    rw [hp1, hp0]
    simp [enterStep, calls, ended, List.countP_append, isCall, isEnd]
    omega

/-- **one turn of one thread** keeps the algorithm in bounds and changes the counter by exactly the change of the
thread's own live guards -/
theorem tstepT_eff {cfg : Cfg} (w : Wf cfg) (sh : Shared) (tid : Nat) (th : TThread) (weak : Bool := false) :
    Eff cfg sh th (tstepT cfg sh tid th weak) := by
  unfold tstepT
  split
  · next hph =>
    split
    · exact eff_refl sh th
    · exact beginT_eff sh th _ hph
  · next o hph =>
    exact eff_local sh sh th _ rfl rfl rfl rfl (by simp [pend, hph]) rfl (thOk_of_ph (by intro lt b; simp))
  · next o lim hph =>
    unfold checkStep
    split
    · exact eff_local sh _ th _ rfl rfl rfl rfl (by simp [pend, hph]) rfl (tdone_ok cfg _)
    · exact eff_local sh _ th _ rfl rfl rfl rfl (by simp [pend, hph]) rfl (thOk_of_ph (by intro lt b; simp))
  · next o lim seen hph => exact enterStep_eff sh tid th o lim seen hph
  · next hph =>
    exact eff_local sh sh th _ rfl rfl rfl rfl (by simp [pend, hph]) rfl (thOk_of_ph (by intro lt b; simp))
  · next l hph =>
    split
    · exact eff_local sh sh th _ rfl rfl rfl rfl (by simp [pend, hph]) rfl (tdone_ok cfg _)
    · exact eff_local sh sh th _ rfl rfl rfl rfl (by simp [pend, hph]) rfl (thOk_of_ph (by intro lt b; simp))
  · next l hph =>
    exact eff_local sh _ th _ rfl rfl rfl rfl (by simp [pend, hph]) rfl (tdone_ok cfg _)
  · next polled hph => exact relStep_eff sh th polled hph
  · next lt sync hph => exact feedStep_eff w sh th lt sync weak hph
  · next hph =>
    exact eff_local sh sh th _ rfl rfl rfl rfl (by simp [pend, hph]) rfl (tdone_ok cfg _)

/-! ### readiness under interleaving: what every check saw, what every admitted call was admitted on -/

/-- a limit a thread has loaded for a readiness check: within the bounds, and a value the limit cell has held -/
def LimOk (cfg : Cfg) (stores : List Nat) (lim : Nat) : Prop := InB cfg lim ∧ lim ∈ stores

/-- a readiness comparison was answered by its own two loads: refused iff the `in_flight` it saw had reached the limit
it had loaded -/
def TCheck.ok (cfg : Cfg) (stores : List Nat) (k : TCheck) : Prop :=
  (k.refused = true ↔ k.seen ≥ k.lim) ∧ LimOk cfg stores k.lim

/-- the readiness registers of a thread and the ghost records of the calls it holds -/
structure RegOk (cfg : Cfg) (stores : List Nat) (th : TThread) : Prop where
  rd : ∀ o lim, th.ph = .rdInFlight o lim → LimOk cfg stores lim
  en : ∀ o lim seen, th.ph = .enter o lim seen → seen < lim ∧ LimOk cfg stores lim
  cl : ∀ c ∈ th.calls, c.seen < c.lim ∧ LimOk cfg stores c.lim

/-- the thread has passed its readiness check and has not yet counted its call in -/
def entering (th : TThread) : Nat :=
  match th.ph with
  | .enter _ _ _ => 1
  | _ => 0

theorem entering_le_one (th : TThread) : entering th ≤ 1 := by
  unfold entering; split <;> omega

theorem limOk_mono {cfg : Cfg} {st st' : List Nat} (hm : ∀ v ∈ st, v ∈ st') {lim : Nat} (h : LimOk cfg st lim) :
    LimOk cfg st' lim := ⟨h.1, hm _ h.2⟩

theorem regOk_mono {cfg : Cfg} {st st' : List Nat} (hm : ∀ v ∈ st, v ∈ st') {th : TThread} (h : RegOk cfg st th) :
    RegOk cfg st' th :=
  ⟨fun o lim hp => limOk_mono hm (h.rd o lim hp), fun o lim seen hp => ⟨(h.en o lim seen hp).1, limOk_mono hm (h.en o lim seen hp).2⟩,
   fun c hc => ⟨(h.cl c hc).1, limOk_mono hm (h.cl c hc).2⟩⟩

theorem tcheck_mono {cfg : Cfg} {st st' : List Nat} (hm : ∀ v ∈ st, v ∈ st') {k : TCheck} (h : k.ok cfg st) : k.ok cfg st' :=
  ⟨h.1, limOk_mono hm h.2⟩

/-- what one turn of one thread does to the readiness records -/
structure Chk (cfg : Cfg) (sh : Shared) (th : TThread) (r : Shared × TThread) : Prop where
  mono : ∀ v ∈ sh.alg.stores, v ∈ r.1.alg.stores
  reg  : RegOk cfg r.1.alg.stores r.2
  chks : ∀ k ∈ r.1.tchecks, k.ok cfg r.1.alg.stores
  /-- either the turn does not add to "counter + threads about to count themselves in", or it is a check that passed:
  the counter was below a limit within the bounds -/
  over : r.1.inFlight + entering r.2 ≤ sh.inFlight + entering th ∨
         (entering th = 0 ∧ entering r.2 = 1 ∧ r.1.inFlight = sh.inFlight ∧ sh.inFlight + 1 ≤ cfg.max)

/-- a turn that leaves the algorithm's cells, the counter and the check records alone and ends in a phase without
readiness registers, the calls unchanged -/
theorem chk_plain {cfg : Cfg} (sh sh' : Shared) (th th' : TThread)
    (hc : ∀ k ∈ sh.tchecks, k.ok cfg sh.alg.stores) (hr : RegOk cfg sh.alg.stores th)
    (h1 : sh'.alg = sh.alg) (h2 : sh'.inFlight = sh.inFlight) (h3 : sh'.tchecks = sh.tchecks)
    (h4 : th'.calls = th.calls) (h5 : entering th' = 0)
    (h6 : ∀ o lim, th'.ph ≠ .rdInFlight o lim) (h7 : ∀ o lim seen, th'.ph ≠ .enter o lim seen) :
    Chk cfg sh th (sh', th') := by
  refine ⟨by intro v hv; simpa [h1] using hv, ⟨?_, ?_, ?_⟩, ?_, ?_⟩
  · intro o lim hp; exact absurd hp (h6 o lim)
  · intro o lim seen hp; exact absurd hp (h7 o lim seen)
  · intro c hcm; simp only [h1]; rw [h4] at hcm; exact hr.cl c hcm
  · intro k hk; simp only [h1]; rw [h3] at hk; exact hc k hk
  · left; simp only [h2, h5]; omega

theorem tdone_entering (th : TThread) : entering (tdone th) = 0 := rfl

theorem afterRel_entering (th : TThread) (p : Bool) (o : Out) : entering (afterRel th p o) = 0 := by
  unfold afterRel; split
  · split <;> rfl
  · rfl

theorem afterRel_noReg (th : TThread) (p : Bool) (o : Out) :
    (∀ o' lim, (afterRel th p o).ph ≠ .rdInFlight o' lim) ∧ (∀ o' lim seen, (afterRel th p o).ph ≠ .enter o' lim seen) := by
  unfold afterRel; split
  · split <;> exact ⟨by intro o' lim; simp [tdone], by intro o' lim seen; simp [tdone]⟩
  · exact ⟨by intro o' lim; simp [tdone], by intro o' lim seen; simp [tdone]⟩

theorem beginT_chk {cfg : Cfg} (sh : Shared) (th : TThread) (op : TOp)
    (hc : ∀ k ∈ sh.tchecks, k.ok cfg sh.alg.stores) (hr : RegOk cfg sh.alg.stores th) :
    Chk cfg sh th (beginT sh th op) := by
  cases op with
  | acquire o => exact chk_plain sh sh th _ hc hr rfl rfl rfl rfl rfl (by intro o l; simp) (by intro o l s; simp)
  | readInFlight => exact chk_plain sh sh th _ hc hr rfl rfl rfl rfl rfl (by intro o l; simp) (by intro o l s; simp)
  | fb op => exact chk_plain sh sh th _ hc hr rfl rfl rfl rfl rfl (by intro o l; simp) (by intro o l s; simp)
  | finishCall =>
    simp only [beginT]
    split
    · exact chk_plain sh sh th _ hc hr rfl rfl rfl rfl rfl (by intro o l; simp [tdone]) (by intro o l s; simp [tdone])
    · split
      · exact chk_plain sh sh th _ hc hr rfl rfl rfl rfl rfl (by intro o l; simp [tdone]) (by intro o l s; simp [tdone])
      · exact chk_plain sh _ th _ hc hr rfl rfl rfl rfl rfl (by intro o l; simp) (by intro o l s; simp)
  | dropCall =>
    simp only [beginT]
    split
    · exact chk_plain sh sh th _ hc hr rfl rfl rfl rfl rfl (by intro o l; simp [tdone]) (by intro o l s; simp [tdone])
    · exact chk_plain sh _ th _ hc hr rfl rfl rfl rfl rfl (by intro o l; simp) (by intro o l s; simp)

theorem relStep_chk {cfg : Cfg} (sh : Shared) (th : TThread) (polled : Bool)
    (hc : ∀ k ∈ sh.tchecks, k.ok cfg sh.alg.stores) (hr : RegOk cfg sh.alg.stores th) (hph : th.ph = .rel polled) :
    Chk cfg sh th (relStep sh th polled) := by
  have he : entering th = 0 := by simp [entering, hph]
  unfold relStep
  split
  · exact chk_plain sh sh th _ hc hr rfl rfl rfl rfl rfl (by intro o l; simp [tdone]) (by intro o l s; simp [tdone])
  · next cl rest hcs =>
    have hn := afterRel_noReg { th with calls := rest } polled cl.o
    refine ⟨fun v hv => hv, ⟨?_, ?_, ?_⟩, hc, ?_⟩
    · intro o lim hp; exact absurd hp (hn.1 o lim)
    · intro o lim seen hp; exact absurd hp (hn.2 o lim seen)
    · intro c hcm
      rw [afterRel_calls] at hcm
      exact hr.cl c (by rw [hcs]; exact List.mem_cons_of_mem _ hcm)
    · left
      show sh.inFlight - 1 + entering (afterRel { th with calls := rest } polled cl.o) ≤ sh.inFlight + entering th
      rw [afterRel_entering]; omega

theorem feedStep_chk {cfg : Cfg} (sh : Shared) (th : TThread) (lt : Limit.Thread) (sync : Bool) (weak : Bool)
    (hc : ∀ k ∈ sh.tchecks, k.ok cfg sh.alg.stores) (hr : RegOk cfg sh.alg.stores th) (hph : th.ph = .feed lt sync) :
    Chk cfg sh th (feedStep cfg sh th lt sync weak) := by
  have he : entering th = 0 := by simp [entering, hph]
  have hm : ∀ v ∈ sh.alg.stores, v ∈ (Limit.tstepW cfg sh.alg lt weak).1.stores :=
    fun v hv => Limit.tstepW_mono cfg sh.alg lt weak v hv
  unfold feedStep
  simp only
  split
  · split
    · refine ⟨hm, ⟨by intro o l hp; simp at hp, by intro o l s hp; simp at hp, ?_⟩, fun k hk => tcheck_mono hm (hc k hk), ?_⟩
      · intro c hcm; exact (regOk_mono hm hr).cl c hcm
      · left; show sh.inFlight + 0 ≤ _; omega
    · refine ⟨hm, ⟨by intro o l hp; simp [tdone] at hp, by intro o l s hp; simp [tdone] at hp, ?_⟩,
        fun k hk => tcheck_mono hm (hc k hk), ?_⟩
      · intro c hcm; exact (regOk_mono hm hr).cl c hcm
      · left; show sh.inFlight + 0 ≤ _; omega
  · refine ⟨hm, ⟨by intro o l hp; simp at hp, by intro o l s hp; simp at hp, ?_⟩, fun k hk => tcheck_mono hm (hc k hk), ?_⟩
    · intro c hcm; exact (regOk_mono hm hr).cl c hcm
    · left; show sh.inFlight + 0 ≤ _; omega

theorem enterStep_chk {cfg : Cfg} (sh : Shared) (tid : Nat) (th : TThread) (o : Out) (lim seen : Nat)
    (hc : ∀ k ∈ sh.tchecks, k.ok cfg sh.alg.stores) (hr : RegOk cfg sh.alg.stores th) (hph : th.ph = .enter o lim seen) :
    Chk cfg sh th (enterStep sh tid th o lim seen) := by
  have he : entering th = 1 := by simp [entering, hph]
  have hen := hr.en o lim seen hph
  refine ⟨fun v hv => hv, ⟨by intro o l hp; simp [enterStep] at hp, by intro o l s hp; simp [enterStep] at hp, ?_⟩, hc, ?_⟩
  · intro c hcm
    simp only [enterStep, List.mem_append, List.mem_singleton] at hcm
    rcases hcm with hcm | hcm
    · exact hr.cl c hcm
    · subst hcm; exact hen
  · left
    show sh.inFlight + 1 + 0 ≤ sh.inFlight + entering th
    omega

theorem checkStep_chk {cfg : Cfg} (sh : Shared) (tid : Nat) (th : TThread) (o : Out) (lim : Nat)
    (ha : CellsOk cfg sh.alg) (hc : ∀ k ∈ sh.tchecks, k.ok cfg sh.alg.stores) (hr : RegOk cfg sh.alg.stores th)
    (hph : th.ph = .rdInFlight o lim) : Chk cfg sh th (checkStep sh tid th o lim) := by
  have he : entering th = 0 := by simp [entering, hph]
  have hl := hr.rd o lim hph
  unfold checkStep
  split
  · next hge =>
    refine ⟨fun v hv => hv, ⟨by intro o l hp; simp [tdone] at hp, by intro o l s hp; simp [tdone] at hp, ?_⟩, ?_, ?_⟩
    · intro c hcm; exact hr.cl c hcm
    · intro k hk
      simp only [List.mem_append, List.mem_singleton] at hk
      rcases hk with hk | hk
      · exact hc k hk
      · subst hk; exact ⟨by simp; exact hge, hl⟩
    · left; show sh.inFlight + 0 ≤ _; omega
  · next hlt =>
    refine ⟨fun v hv => hv, ⟨by intro o l hp; simp at hp, ?_, ?_⟩, ?_, ?_⟩
    · intro o' lim' seen' hp
      simp only [TPh.enter.injEq] at hp
      obtain ⟨_, h2, h3⟩ := hp
      subst h2; subst h3
      exact ⟨by omega, hl⟩
    · intro c hcm; exact hr.cl c hcm
    · intro k hk
      simp only [List.mem_append, List.mem_singleton] at hk
      rcases hk with hk | hk
      · exact hc k hk
      · subst hk; exact ⟨by simp; omega, hl⟩
    · right
      have : lim ≤ cfg.max := hl.1.2
      exact ⟨he, rfl, rfl, by omega⟩

/-- **one turn of one thread** keeps every readiness record truthful -/
theorem tstepT_chk {cfg : Cfg} (sh : Shared) (tid : Nat) (th : TThread) (weak : Bool)
    (ha : CellsOk cfg sh.alg) (hc : ∀ k ∈ sh.tchecks, k.ok cfg sh.alg.stores) (hr : RegOk cfg sh.alg.stores th) :
    Chk cfg sh th (tstepT cfg sh tid th weak) := by
  unfold tstepT
  split
  · next hph =>
    split
    · refine ⟨fun v hv => hv, hr, hc, Or.inl (Nat.le_refl _)⟩
    · exact beginT_chk sh th _ hc hr
  · next o hph =>
    -- `poll_ready` loads the limit: the value the cell holds now
    refine ⟨fun v hv => hv, ⟨?_, by intro o l s hp; simp at hp, fun c hcm => hr.cl c hcm⟩, hc, ?_⟩
    · intro o' lim hp
      simp only [TPh.rdInFlight.injEq] at hp
      rw [← hp.2]
      exact ⟨ha.lim, Limit.limit_mem_stores ha⟩
    · left; simp [entering, hph]
  · next o lim hph => exact checkStep_chk sh tid th o lim ha hc hr hph
  · next o lim seen hph => exact enterStep_chk sh tid th o lim seen hc hr hph
  · next hph => exact chk_plain sh sh th _ hc hr rfl rfl rfl rfl rfl (by intro o l; simp) (by intro o l s; simp)
  · next l hph =>
    split
    · exact chk_plain sh sh th _ hc hr rfl rfl rfl rfl rfl (by intro o l; simp [tdone]) (by intro o l s; simp [tdone])
    · exact chk_plain sh sh th _ hc hr rfl rfl rfl rfl rfl (by intro o l; simp) (by intro o l s; simp)
  · next l hph => exact chk_plain sh _ th _ hc hr rfl rfl rfl rfl rfl (by intro o l; simp [tdone]) (by intro o l s; simp [tdone])
  · next polled hph => exact relStep_chk sh th polled hc hr hph
  · next lt sync hph => exact feedStep_chk sh th lt sync weak hc hr hph
  · next hph => exact chk_plain sh sh th _ hc hr rfl rfl rfl rfl rfl (by intro o l; simp [tdone]) (by intro o l s; simp [tdone])

theorem sumBy_le_length (f : TThread → Nat) (hf : ∀ x, f x ≤ 1) (l : List TThread) : sumBy f l ≤ l.length := by
  induction l with
  | nil => simp [sumBy]
  | cons x xs ih =>
    simp only [sumBy, List.map_cons, List.sum_cons, List.length_cons] at ih ⊢
    have := hf x; omega

/-- `sumBy_split` with the rest bounded by the number of the OTHER threads -/
theorem sumBy_split_le (f : TThread → Nat) (hf : ∀ x, f x ≤ 1) : ∀ (l : List TThread) (i : Nat) (a : TThread), l[i]? = some a →
    ∃ rest, sumBy f l = f a + rest ∧ (∀ b, sumBy f (l.set i b) = f b + rest) ∧ rest + 1 ≤ l.length := by
  intro l
  induction l with
  | nil => intro i a h; simp at h
  | cons x xs ih =>
    intro i a h
    cases i with
    | zero =>
      simp at h
      subst h
      exact ⟨sumBy f xs, by simp [sumBy], by intro b; simp [sumBy], by have := sumBy_le_length f hf xs; simp; omega⟩
    | succ j =>
      simp at h
      obtain ⟨rest, h1, h2, h3⟩ := ih j a h
      refine ⟨f x + rest, ?_, ?_, ?_⟩
      · simp only [sumBy, List.map_cons, List.sum_cons] at h1 ⊢; omega
      · intro b
        have := h2 b
        simp only [sumBy, List.set_cons_succ, List.map_cons, List.sum_cons] at this ⊢; omega
      · have := hf x; simp only [List.length_cons]; omega

/-- the invariant of the interleaving model: `base` calls of other (single-threaded) callers are in flight throughout -/
structure TInv (cfg : Cfg) (base : Nat) (s : TState) : Prop where
  alg : CellsOk cfg s.sh.alg
  ths : ∀ th ∈ s.threads, ThOk cfg th
  exact : s.sh.inFlight = base + sumBy nlive s.threads
  trace : calls s.sh.log + sumBy pend s.threads = ended s.sh.log + s.sh.inFlight
  /-- every readiness comparison made so far was answered by what it saw -/
  chks : ∀ k ∈ s.sh.tchecks, k.ok cfg s.sh.alg.stores
  /-- every thread about to call, and every call in flight, passed a check that saw fewer calls than its limit -/
  regs : ∀ th ∈ s.threads, RegOk cfg s.sh.alg.stores th
  /-- stale checks overshoot by at most one call per other thread -/
  over : s.sh.inFlight + sumBy entering s.threads ≤ max base (cfg.max + s.threads.length - 1)

theorem tinv_say {cfg : Cfg} {base : Nat} {s : TState} (h : TInv cfg base s) (l : String) :
    TInv cfg base { s with sh := pushLog s.sh (.raw l) } :=
  { h with
    trace := by
      have := h.trace
      simp only [pushLog, calls, ended, List.countP_append, List.countP_cons, List.countP_nil, isCall, isEnd] at *
      simpa using this
    chks := h.chks
    regs := h.regs
    over := h.over }

theorem stepTT_inv {cfg : Cfg} (w : Wf cfg) {base : Nat} {s : TState} (h : TInv cfg base s) (t : Limit.Turn) :
    TInv cfg base (stepTT cfg s t) := by
  unfold stepTT
  split
  · exact tinv_say h _
  · next th hth =>
    split
    · exact tinv_say h _
    · have hs := tinv_say h s!"step {t.render}"
      have e := tstepT_eff w (pushLog s.sh (.raw s!"step {t.render}")) t.tid th t.isWeak
      have hmem : th ∈ s.threads := List.mem_of_getElem? hth
      have k := tstepT_chk (pushLog s.sh (.raw s!"step {t.render}")) t.tid th t.isWeak hs.alg hs.chks (hs.regs th hmem)
      obtain ⟨r1, a1, b1⟩ := sumBy_split nlive s.threads t.tid th hth
      obtain ⟨r2, a2, b2⟩ := sumBy_split pend s.threads t.tid th hth
      obtain ⟨r3, a3, b3, c3⟩ := sumBy_split_le entering entering_le_one s.threads t.tid th hth
      have hex := hs.exact
      have htr := hs.trace
      have hov := hs.over
      simp only at hex htr hov
      have hle : nlive th ≤ (pushLog s.sh (.raw s!"step {t.render}")).inFlight := by rw [hex, a1]; omega
      have ha := e.alg hs.alg (h.ths th hmem)
      have hc := e.cnt hle
      have ht := e.tr hle
      have km := k.mono
      have kr := k.reg
      have kc := k.chks
      have ko := k.over
      show TInv cfg base { sh := (tstepT cfg (pushLog s.sh (.raw s!"step {t.render}")) t.tid th t.isWeak).1,
                           threads := s.threads.set t.tid (tstepT cfg (pushLog s.sh (.raw s!"step {t.render}")) t.tid th t.isWeak).2 }
      generalize tstepT cfg (pushLog s.sh (.raw s!"step {t.render}")) t.tid th t.isWeak = r at ha hc ht km kr kc ko
      refine ⟨ha.1, ?_, ?_, ?_, kc, ?_, ?_⟩
      · intro x hx
        rcases List.mem_or_eq_of_mem_set hx with hx | hx
        · exact h.ths x hx
        · subst hx; exact ha.2
      · show r.1.inFlight = base + sumBy nlive (s.threads.set t.tid r.2)
        rw [b1]; rw [hex, a1] at hc; omega
      · show calls r.1.log + sumBy pend (s.threads.set t.tid r.2) = ended r.1.log + r.1.inFlight
        rw [b2]; rw [a2] at htr; omega
      · intro x hx
        rcases List.mem_or_eq_of_mem_set hx with hx | hx
        · exact regOk_mono km (h.regs x hx)
        · subst hx; exact kr
      · show r.1.inFlight + sumBy entering (s.threads.set t.tid r.2) ≤ max base (cfg.max + (s.threads.set t.tid r.2).length - 1)
        rw [b3, List.length_set]
        rw [a3] at hov
        have hsh : (pushLog s.sh (.raw s!"step {t.render}")).inFlight = s.sh.inFlight := rfl
        rw [hsh] at ko
        rcases ko with ko | ⟨k1, k2, k3, k4⟩
        · omega
        · rw [k2, k3]
          have : s.sh.inFlight + (1 + r3) ≤ cfg.max + s.threads.length - 1 := by omega
          omega

/-- **the turn of a readiness comparison**: a thread whose next yield point is the `in_flight` load of `poll_ready`
(limit `lim` loaded earlier) is refused in that turn iff the calls in flight AT THAT TURN (`base` of the single-threaded
callers + the live guards of all threads — the counter is exact) have reached `lim`; otherwise it goes on to `call`.
The ghost record of the check says exactly that. -/
theorem stepTT_check {cfg : Cfg} {base : Nat} {s : TState} (h : TInv cfg base s) (t : Limit.Turn) (th : TThread)
    (o : Out) (lim : Nat) (hth : s.threads[t.tid]? = some th) (hp : th.prog.isEmpty = false) (hph : th.ph = .rdInFlight o lim) :
    (stepTT cfg s t).sh.tchecks = s.sh.tchecks ++
      [{ tid := t.tid, lim := lim, seen := base + liveGuards s.threads, refused := decide (base + liveGuards s.threads ≥ lim) }] ∧
    (stepTT cfg s t).threads = s.threads.set t.tid
      (if base + liveGuards s.threads ≥ lim then tdone { th with out := th.out ++ ["x"] }
       else { th with ph := .enter o lim (base + liveGuards s.threads) }) ∧
    (stepTT cfg s t).sh.inFlight = s.sh.inFlight := by
  have hex : s.sh.inFlight = base + liveGuards s.threads := by rw [liveGuards_eq]; exact h.exact
  unfold stepTT
  simp only [hth, hp]
  simp only [tstepT, hph, checkStep, pushLog]
  rw [hex]
  by_cases hge : base + liveGuards s.threads ≥ lim
  · simp [hge]
  · simp [hge]

/-- the turn before: `poll_ready` loads the limit — the value the limit cell holds at THAT turn -/
theorem stepTT_loadLimit (cfg : Cfg) (s : TState) (t : Limit.Turn) (th : TThread) (o : Out)
    (hth : s.threads[t.tid]? = some th) (hp : th.prog.isEmpty = false) (hph : th.ph = .rdLimit o) :
    (stepTT cfg s t).threads = s.threads.set t.tid { th with ph := .rdInFlight o s.sh.alg.limit } ∧
    (stepTT cfg s t).sh.inFlight = s.sh.inFlight ∧ (stepTT cfg s t).sh.alg = s.sh.alg := by
  unfold stepTT
  simp only [hth, hp]
  simp [tstepT, hph, pushLog]

/-- the `fetch_sub` of a guard never wraps: a thread that holds a call finds the counter at 1 or more -/
theorem guard_release_no_underflow {cfg : Cfg} {base : Nat} {s : TState} (h : TInv cfg base s) (th : TThread)
    (hm : th ∈ s.threads) (hc : th.calls ≠ []) : 0 < s.sh.inFlight := by
  obtain ⟨i, hi⟩ := List.getElem?_of_mem hm
  obtain ⟨rest, a, _⟩ := sumBy_split nlive s.threads i th hi
  have := h.exact
  have hl : 0 < nlive th := by
    unfold nlive; exact List.length_pos_iff.mpr hc
  omega

theorem runSchedT_inv {cfg : Cfg} (w : Wf cfg) {base : Nat} (sched : List Limit.Turn) {s : TState} (h : TInv cfg base s) :
    TInv cfg base (runSchedT cfg s sched) := by
  induction sched generalizing s with
  | nil => exact h
  | cons t tl ih => exact ih (stepTT_inv w h t)

theorem drainT_inv {cfg : Cfg} (w : Wf cfg) {base : Nat} (n : Nat) {s : TState} (h : TInv cfg base s) :
    TInv cfg base (drainT cfg n s) := by
  induction n generalizing s with
  | zero => exact h
  | succ n ih =>
    unfold drainT
    split
    · exact h
    · exact ih (stepTT_inv w h _)

theorem execT_inv {cfg : Cfg} (w : Wf cfg) {base : Nat} (sched : List Limit.Turn) {s : TState} (h : TInv cfg base s) :
    TInv cfg base (execT cfg s sched) :=
  drainT_inv w _ (runSchedT_inv w sched h)

theorem fresh_nlive (progs : List (List TOp)) : sumBy nlive (freshThreads progs) = 0 := by
  apply sumBy_zero
  intro x hx
  simp [freshThreads] at hx
  obtain ⟨p, _, rfl⟩ := hx
  rfl

theorem fresh_pend (progs : List (List TOp)) : sumBy pend (freshThreads progs) = 0 := by
  apply sumBy_zero
  intro x hx
  simp [freshThreads] at hx
  obtain ⟨p, _, rfl⟩ := hx
  rfl

theorem fresh_ok (cfg : Cfg) (progs : List (List TOp)) : ∀ th ∈ freshThreads progs, ThOk cfg th := by
  intro x hx
  simp [freshThreads] at hx
  obtain ⟨p, _, rfl⟩ := hx
  exact thOk_of_ph (by intro lt b; simp)

theorem fresh_entering (progs : List (List TOp)) : sumBy entering (freshThreads progs) = 0 := by
  apply sumBy_zero
  intro x hx
  simp [freshThreads] at hx
  obtain ⟨p, _, rfl⟩ := hx
  rfl

theorem fresh_regs (cfg : Cfg) (st : List Nat) (progs : List (List TOp)) : ∀ th ∈ freshThreads progs, RegOk cfg st th := by
  intro x hx
  simp [freshThreads] at hx
  obtain ⟨p, _, rfl⟩ := hx
  exact ⟨by intro o l hp; simp at hp, by intro o l s hp; simp at hp, by intro c hc; simp at hc⟩

/-- threads started on any shared state whose log accounts for its counter -/
theorem start_tinv {cfg : Cfg} {sh : Shared} (ha : CellsOk cfg sh.alg) (ht : calls sh.log = ended sh.log + sh.inFlight)
    (progs : List (List TOp)) (hk : sh.tchecks = [] := by rfl) : TInv cfg sh.inFlight { sh := sh, threads := freshThreads progs } :=
  ⟨ha, fresh_ok cfg progs, by simp [fresh_nlive], by simp [fresh_pend, ht], by intro k hkm; simp [hk] at hkm,
   fresh_regs cfg _ progs, by simp only [fresh_entering]; omega⟩

theorem tinit_inv {cfg : Cfg} {s : State} (h : Inv cfg s) : TInv cfg s.inFlight (tinit s) :=
  start_tinv (sh := { alg := s.alg, inFlight := s.inFlight, cur := s.cur, serial := s.serial, log := s.log })
    h.alg h.trace s.progs

theorem dropLeft_spec (cs : List TCall) : ∀ sh : Shared, cs.length ≤ sh.inFlight →
    (dropLeft sh cs).inFlight + cs.length = sh.inFlight ∧ (dropLeft sh cs).alg = sh.alg ∧
    calls (dropLeft sh cs).log = calls sh.log ∧ ended (dropLeft sh cs).log = ended sh.log + cs.length := by
  induction cs with
  | nil => intro sh _; simp [dropLeft]
  | cons c tl ih =>
    intro sh hle
    simp only [List.length_cons] at hle
    have := ih { sh with inFlight := sh.inFlight - 1, log := sh.log ++ [.innerDrop c.c c.k] } (by simp; omega)
    simp only [dropLeft, List.foldl_cons, List.length_cons] at this ⊢
    obtain ⟨h1, h2, h3, h4⟩ := this
    refine ⟨by omega, h2, ?_, ?_⟩
    · rw [h3]; simp [calls, List.countP_append, isCall]
    · rw [h4]; simp [ended, List.countP_append, isEnd]; omega

theorem cleanup_spec (ths : List TThread) : ∀ (i : Nat) (sh : Shared), sumBy nlive ths ≤ sh.inFlight →
    (cleanup sh i ths).inFlight + sumBy nlive ths = sh.inFlight ∧ (cleanup sh i ths).alg = sh.alg ∧
    calls (cleanup sh i ths).log = calls sh.log ∧ ended (cleanup sh i ths).log = ended sh.log + sumBy nlive ths := by
  induction ths with
  | nil => intro i sh _; simp [cleanup, sumBy]
  | cons th tl ih =>
    intro i sh hle
    simp only [sumBy, List.map_cons, List.sum_cons] at hle
    have hd := dropLeft_spec th.calls (pushLog sh (.raw s!"th {i} {renderStrs th.out}")) (by simp [pushLog, nlive] at *; omega)
    obtain ⟨d1, d2, d3, d4⟩ := hd
    have := ih (i + 1) (dropLeft (pushLog sh (.raw s!"th {i} {renderStrs th.out}")) th.calls)
      (by simp only [sumBy]; simp [pushLog, nlive] at *; omega)
    obtain ⟨h1, h2, h3, h4⟩ := this
    simp only [cleanup, sumBy, List.map_cons, List.sum_cons] at *
    refine ⟨?_, ?_, ?_, ?_⟩
    · simp [pushLog, nlive] at *; omega
    · rw [h2, d2]; rfl
    · rw [h3, d3]; simp [pushLog, calls, List.countP_append, isCall]
    · rw [h4, d4]; simp [pushLog, ended, List.countP_append, isEnd, nlive]; omega

theorem pend_of_idle (th : TThread) (h : th.ph.isIdle = true) : pend th = 0 := by
  unfold pend
  split
  · next hp => rw [hp] at h; cases h
  · rfl

/-- **a round of threads inside a history**: afterwards the counter is again the number of running calls of the
single-threaded callers, the log accounts for it, the limit is in bounds -/
theorem schedOp_inv {cfg : Cfg} (w : Wf cfg) {s : State} (h : Inv cfg s) (sch : List Limit.Turn) :
    Inv cfg (schedOp cfg s sch) := by
  have ht := execT_inv w sch (tinit_inv h)
  unfold schedOp
  simp only
  generalize execT cfg (tinit s) sch = r at ht
  split
  · next hset =>
    have hp0 : sumBy pend r.threads = 0 := by
      apply sumBy_zero
      intro x hx
      have := List.all_eq_true.mp hset x hx
      simp only [Bool.and_eq_true] at this
      exact pend_of_idle x this.2
    have hex := ht.exact
    have htr := ht.trace
    rw [hp0] at htr
    obtain ⟨c1, c2, c3, c4⟩ := cleanup_spec r.threads 0 r.sh (by rw [hex]; omega)
    refine
      { h with
        exact := ?_
        trace := ?_
        alg := ?_ }
    · show (cleanup r.sh 0 r.threads).inFlight = s.running.length
      rw [← h.exact]; omega
    · show calls ((cleanup r.sh 0 r.threads).log ++ _) = ended ((cleanup r.sh 0 r.threads).log ++ _) + (cleanup r.sh 0 r.threads).inFlight
      simp only [calls, ended, List.countP_append, List.countP_cons, List.countP_nil, isCall, isEnd] at *
      simp
      omega
    · show CellsOk cfg (cleanup r.sh 0 r.threads).alg
      rw [c2]; exact ht.alg
  · exact emit_inv (s := { s with progs := [] }) { h with } _ (by rfl) (by rfl)

theorem stepS_inv {cfg : Cfg} (w : Wf cfg) {s : State} (h : Inv cfg s) (op : Op) :
    Inv cfg (stepS cfg s op) := by
  cases op with
  | adv ms => exact { h with }
  | arrive c sc keep =>
    simp only [stepS]
    split
    · exact h
    · next hk =>
      have hk : known s c = false := by simpa using hk
      have hk' : known (noteKeep s c keep) c = false := by rw [noteKeep_known]; exact hk
      split
      · exact arriveChecked_inv (noteKeep_inv h c keep) c sc hk'
      · next hc => exact arriveFresh_inv (noteKeep_inv h c keep) c sc hk' (by rw [noteKeep_checked]; exact hc)
  | poll c =>
    simp only [stepS]
    split
    · next hc => exact pollRunning_inv w h c hc
    · exact h
  | drop c =>
    simp only [stepS]
    split
    · next hc => exact dropRunning_inv h c hc
    · exact h
  | check c => exact checkOp_inv h c
  | letGo c => exact letGoOp_inv h c
  | warm prog => exact warmOp_inv w h prog
  | probeInFlight => exact emit_inv h _ (by rfl) (by rfl)
  | probeLimit => exact emit_inv h _ (by rfl) (by rfl)
  | probeReady =>
    exact emit_inv (recordCheck_inv h 0) _ (by rfl) (by rfl)
  | ready hd a => exact readyOp_inv h hd a
  | arriveH c sc keep hd a =>
    simp only [stepS]
    split
    · exact h
    · next hk =>
      have hk : known s c = false := by simpa using hk
      have hk' : known (noteKeep s c keep) c = false := by rw [noteKeep_known]; exact hk
      split
      · exact arriveChecked_inv (noteKeep_inv h c keep) c sc hk'
      · next hc => exact arriveHandle_inv (noteKeep_inv h c keep) c sc hd a hk' (by rw [noteKeep_checked]; exact hc)
  | thread t prog => exact { h with }
  | sched sch => exact schedOp_inv w h sch
  | arriveX c sc hd a => exact arriveX_inv h c sc hd a

/-- a new caller arriving while `poll_ready`'s comparison says "below the limit" is admitted in that step -/
theorem arrive_below (cfg : Cfg) (s : State) (c : Nat) (sc : Step) (keep : Bool) (hk : known s c = false)
    (hc : c ∉ s.checked) (hn : atCapacity s = false) :
    (stepS cfg s (.arrive c sc keep)).running = s.running ++ [c] ∧
    (stepS cfg s (.arrive c sc keep)).inFlight = s.inFlight + 1 := by
  have hn' : atCapacity (noteKeep s c keep) = false := by
    unfold noteKeep; split <;> exact hn
  have hs : stepS cfg s (.arrive c sc keep) = startCall (recordCheck (noteKeep s c keep) c) c sc := by
    simp only [stepS, hk, hc, arriveFresh, hn']
    simp
  rw [hs]
  unfold noteKeep
  split <;> simp [startCall, emit, recordCheck]

/-- a new caller arriving while the comparison says "at the limit" is refused: nothing starts -/
theorem arrive_at (cfg : Cfg) (s : State) (c : Nat) (sc : Step) (keep : Bool) (hk : known s c = false)
    (hc : c ∉ s.checked) (h : atCapacity s = true) :
    (stepS cfg s (.arrive c sc keep)).running = s.running ∧
    (stepS cfg s (.arrive c sc keep)).inFlight = s.inFlight ∧
    (stepS cfg s (.arrive c sc keep)).log = s.log ++ [.result c .notReady] := by
  have h' : atCapacity (noteKeep s c keep) = true := by
    unfold noteKeep; split <;> exact h
  have hs : stepS cfg s (.arrive c sc keep) = refuse (recordCheck (noteKeep s c keep) c) c sc := by
    simp only [stepS, hk, hc, arriveFresh, h']
    simp
  rw [hs]
  unfold noteKeep
  split <;> simp [refuse, refuseWith, emit, recordCheck]

/-- one poll of a running call whose inner call has finished (ok, error or panic): the slot is given
back in that step and the call leaves `running` — whether or not the caller keeps the future; a
kept future that resolved with a value is from then on *held* -/
theorem poll_finished (cfg : Cfg) (s : State) (c t k : Nat) (sc : Step) (hc : c ∈ s.running)
    (hd : lookup s.doneAt c = some t) (hs : lookup s.script c = some sc) (hk : lookup s.kOf c = some k)
    (ht : s.now ≥ t) (hn : sc.out ≠ .never) :
    (stepS cfg s (.poll c)).inFlight = s.inFlight - 1 ∧
    (stepS cfg s (.poll c)).running = s.running.erase c ∧
    (stepS cfg s (.poll c)).held = (if c ∈ s.keeps ∧ sc.out ≠ .panic then s.held ++ [c] else s.held) := by
  simp only [stepS, hc, if_true, pollRunning, hd, hs, hk, ht]
  unfold complete
  cases ho : sc.out with
  | never => exact absurd ho hn
  | panic => simp [release, emit]
  | ok =>
    simp only [emit, feed, hold, release]
    by_cases hkp : c ∈ s.keeps <;> simp [hkp]
  | err kd =>
    simp only [emit, feed, hold, release]
    by_cases hkp : c ∈ s.keeps <;> simp [hkp]

/-- dropping a running call future gives the slot back in that step -/
theorem drop_running (cfg : Cfg) (s : State) (c : Nat) (hc : c ∈ s.running) :
    (stepS cfg s (.drop c)).inFlight = s.inFlight - 1 ∧
    (stepS cfg s (.drop c)).running = s.running.erase c ∧ (stepS cfg s (.drop c)).held = s.held := by
  simp [stepS, hc, dropRunning, release, emit]

/-- letting go of a finished call future touches nothing but the set of held futures -/
theorem letGo_frame (cfg : Cfg) (s : State) (c : Nat) :
    (stepS cfg s (.letGo c)).inFlight = s.inFlight ∧ (stepS cfg s (.letGo c)).running = s.running ∧
    (stepS cfg s (.letGo c)).alg = s.alg ∧ (stepS cfg s (.letGo c)).checked = s.checked ∧
    (stepS cfg s (.letGo c)).checks = s.checks ∧ (stepS cfg s (.letGo c)).log = s.log ∧
    (stepS cfg s (.letGo c)).held = s.held.erase c ∧ atCapacity (stepS cfg s (.letGo c)) = atCapacity s := by
  simp [stepS, letGoOp, atCapacity]

theorem foldl_inv {cfg : Cfg} (w : Wf cfg) (ops : List Op) {s : State} (h : Inv cfg s) :
    Inv cfg (ops.foldl (stepS cfg) s) := by
  induction ops generalizing s with
  | nil => exact h
  | cons op tl ih => exact ih (stepS_inv w h op)

theorem inv_reachable {cfg : Cfg} (w : Wf cfg) (ops : List Op) : Inv cfg (run cfg ops) :=
  foldl_inv w ops (init_inv w.le)

end TR.Adaptive
