import TR.Model.Coalesce
/-!
# Coalesce (C11): what an `arrive` line says about the request (`arriveOp`)

Only the words `key=`, `svc=`, `inner=` and `callpanic=` reach the model; any other word of the line — in particular
`via=…`, the way the caller obtained the handle it calls, and `unwind=…`, `eclone=…`, `keep=…`, what the caller does with
the future and with what it returns — can be inserted or removed without changing the operation.
-/
namespace TR.Coalesce

theorem kv_get_skip (pre post : Kv) (a v k : String) (h : a ≠ k) :
    Kv.get (pre ++ (a, v) :: post) k = Kv.get (pre ++ post) k := by
  induction pre with
  | nil => simp [Kv.get, h]
  | cons p tl ih =>
      obtain ⟨x, y⟩ := p
      simp only [List.cons_append, Kv.get]
      rw [ih]

/-- a word whose name is none of `key`, `svc`, `inner`, `callpanic` does not change the request -/
theorem arriveOp_skip (c : Nat) (pre post : Kv) (a v : String)
    (h1 : a ≠ "key") (h2 : a ≠ "inner") (h3 : a ≠ "callpanic") (h4 : a ≠ "svc") :
    arriveOp c (pre ++ (a, v) :: post) = arriveOp c (pre ++ post) := by
  have e1 := kv_get_skip pre post a v "key" h1
  have e2 := kv_get_skip pre post a v "inner" h2
  have e3 := kv_get_skip pre post a v "callpanic" h3
  have e4 := kv_get_skip pre post a v "svc" h4
  simp only [arriveOp, planOf, Kv.nat, Kv.str, e1, e2, e3, e4]

/-- … nor the operations the whole line stands for, if it is not `clonepanic` either -/
theorem arriveOps_skip (c : Nat) (pre post : Kv) (a v : String)
    (h1 : a ≠ "key") (h2 : a ≠ "inner") (h3 : a ≠ "callpanic") (h4 : a ≠ "svc") (h5 : a ≠ "clonepanic") :
    arriveOps c (pre ++ (a, v) :: post) = arriveOps c (pre ++ post) := by
  have e5 := kv_get_skip pre post a v "clonepanic" h5
  have e : Kv.nat (pre ++ (a, v) :: post) "clonepanic" 0 = Kv.nat (pre ++ post) "clonepanic" 0 := by
    simp only [Kv.nat, e5]
  unfold arriveOps
  rw [arriveOp_skip c pre post a v h1 h2 h3 h4, e]

end TR.Coalesce
