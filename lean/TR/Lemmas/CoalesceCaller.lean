import TR.Model.Coalesce
/-!
# Coalesce (C11): what an `arrive` line says about the request (`arriveOp`)

Only the words `key=`, `inner=` and `callpanic=` reach the model; any other word of the line — in particular
`via=…`, the way the caller obtained the handle it calls — can be inserted or removed without changing the operation.
-/
namespace TR.Coalesce

theorem kv_get_skip (pre post : Kv) (a v k : String) (h : a ≠ k) :
    Kv.get (pre ++ (a, v) :: post) k = Kv.get (pre ++ post) k := by
  induction pre with
  | nil => simp [Kv.get, h]
  | cons p tl ih =>
      obtain ⟨x, y⟩ := p
      simp only [List.cons_append, Kv.get]
      rw [ih]

/-- a word whose name is none of `key`, `inner`, `callpanic` does not change the request -/
theorem arriveOp_skip (c : Nat) (pre post : Kv) (a v : String)
    (h1 : a ≠ "key") (h2 : a ≠ "inner") (h3 : a ≠ "callpanic") :
    arriveOp c (pre ++ (a, v) :: post) = arriveOp c (pre ++ post) := by
  have e1 := kv_get_skip pre post a v "key" h1
  have e2 := kv_get_skip pre post a v "inner" h2
  have e3 := kv_get_skip pre post a v "callpanic" h3
  simp only [arriveOp, planOf, Kv.nat, Kv.str, e1, e2, e3]

end TR.Coalesce
