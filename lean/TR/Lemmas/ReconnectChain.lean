import TR.Lemmas.Reconnect
/-!
# Reconnect: errors with a `source()` chain (helper lemmas for C16)

The chain-level input language (`COp`, `TR.Model.Reconnect`) reaches the transitions through `COp.head` only.
-/
namespace TR.Reconnect

/-- the same outcome with every cause removed -/
def stripOut : COut → COut
  | .err kd _ => .err kd []
  | o => o

def stripOp : COp → COp
  | .arrive c plan => .arrive c (plan.map fun s => { s with out := stripOut s.out })
  | op => op

theorem head_stripOp (op : COp) : (stripOp op).head = op.head := by
  cases op with
  | arrive c plan =>
    simp only [stripOp, COp.head, List.map_map]
    congr 1
    apply List.map_congr_left
    intro s _
    cases s with
    | mk l o => cases o <;> rfl
  | poll c obs => rfl
  | drop c => rfl
  | adv ms => rfl
  | probe => rfl
  | incr => rfl
  | inner sc r => rfl

theorem map_head_stripOp (ops : List COp) : (ops.map stripOp).map COp.head = ops.map COp.head := by
  simp only [List.map_map]
  apply List.map_congr_left
  intro op _
  exact head_stripOp op

theorem rejected_finishes (cfg : Cfg) (c : Nat) (st : Caller) (w : Shared) (k doneAt kd : Nat)
    (causes : List Nat) (hk : cfg.reconn kd = false) (ht : ¬ w.now < doneAt) :
    classify cfg kd causes = false ∧
    transCalling cfg c st w k doneAt (COut.err kd causes).head
      = some (finish c (.service kd k) st (emit [.done c k (.err kd)] w)) := by
  simp [classify, transCalling, onError, COut.head, hk, ht]

theorem expected_rejected (cfg : Cfg) (hd : CallRec) (n kd : Nat) (r : RRes) (ho : hd.step.out = .err kd)
    (hk : cfg.reconn kd = false) (he : expected cfg hd n = some r) : r = .service kd hd.k := by
  simp [expected, ho, hk] at he
  exact he.symm

end TR.Reconnect
