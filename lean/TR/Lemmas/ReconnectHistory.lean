import TR.Lemmas.Reconnect
/-!
# Reconnect (C16): the published state is a function of the history of completions

Any number of requests (clones of one `ReconnectService`, the same handle used again, services made by
the same layer) share one `ReconnectState` and are polled in any interleaving. Whatever the
interleaving, whether the published state reads `Connected` depends only on the order in which inner
calls *completed*, as the event log shows it:

* a reconnectable inner error (`inner_done c k err<kd>` with `reconn kd`) takes the link down,
* a success returned to a caller (`result c ok:k`) brings it up — so does the end of the back-off of a
  request with `retry_on_reconnect = false` (`result c err:no_retry…`, the code's "backoff succeeded"),
* nothing else matters: not who issued what when, not what the state read when a request was issued, not
  cancellations, non-reconnectable errors, panics, give-ups, retries being issued, probes.

`linkUp cfg log` is that function; `hist_reachable` proves `conn = Connected ↔ linkUp cfg log` in every
reachable state. Corollaries (used by `TR.Props.C16`): after a success the state is Connected until the next
reconnectable failure is handled, whatever other requests did in between; after a reconnectable failure it is
not Connected until the next success.
-/
namespace TR.Reconnect

/-- effect of one event of the log on "the link is published as up" -/
def upStep (cfg : Cfg) (b : Bool) : REv → Bool
  | .done _ _ (.err kd) => if cfg.reconn kd = true then false else b
  | .result _ (.ok _) => true
  | .result _ (.noRetry _ _) => true
  | _ => b

/-- the published state reads Connected, computed from the event log alone (initially: not connected) -/
def linkUp (cfg : Cfg) (l : List REv) : Bool := l.foldl (upStep cfg) false

theorem linkUp_append (cfg : Cfg) (l evs : List REv) :
    linkUp cfg (l ++ evs) = evs.foldl (upStep cfg) (linkUp cfg l) := by
  simp [linkUp, List.foldl_append]

/-- the invariant: the shared field agrees with the history -/
def HistOK (cfg : Cfg) (w : Shared) : Prop := w.conn = .connected ↔ linkUp cfg w.log = true

theorem onError_hist {cfg : Cfg} {c : Nat} {st : Caller} {w : Shared} {kd k : Nat} (h : HistOK cfg w) :
    HistOK cfg (onError cfg c st (emit [.done c k (.err kd)] w) kd k).2 := by
  unfold HistOK at h ⊢
  unfold onError
  split
  · rename_i hr
    simp [finish, emit, linkUp_append, upStep, hr]
    exact h
  · rename_i hr
    have hr : cfg.reconn kd = true := by simpa using hr
    simp only
    split
    · simp [finish, emit, mark, linkUp_append, upStep, hr]
    · split
      · simp [finish, emit, mark, linkUp_append, upStep, hr]
      · simp [emit, mark, linkUp_append, upStep, hr]
      · simp [emit, mark, linkUp_append, upStep, hr]

theorem trans_hist {cfg : Cfg} {c : Nat} {st : Caller} {w : Shared} {p : Caller × Shared}
    (h : HistOK cfg w) (ht : trans cfg c st w = some p) : HistOK cfg p.2 := by
  unfold trans at ht
  split at ht
  · rename_i k d o hph
    unfold transCalling at ht
    split at ht
    · simp at ht
    · split at ht
      · simp at ht
      · simp at ht; subst ht
        simp [HistOK, finish, emit, mark, linkUp_append, upStep]
      · simp at ht; subst ht
        unfold HistOK at h ⊢
        simp [finish, emit, linkUp_append, upStep]
        exact h
      · rename_i kd
        simp at ht; subst ht
        exact onError_hist h
  · rename_i wk hph
    unfold transSleeping at ht
    split at ht
    · simp at ht
    · split at ht
      · simp at ht; subst ht
        exact h
      · split at ht
        · simp at ht; subst ht
          simp [HistOK, finish, emit, mark, linkUp_append, upStep]
        · simp at ht
  · rename_i wk hph
    unfold transReadying at ht
    split at ht
    · simp at ht
    · split at ht
      · simp at ht
      · simp at ht; subst ht
        unfold HistOK at h ⊢
        simp [startCall, emit, popScript, linkUp_append, upStep]
        exact h
      · simp at ht; subst ht
        unfold HistOK at h ⊢
        simp [finish, emit, popScript, linkUp_append, upStep]
        exact h
  · simp at ht

theorem loop_hist {cfg : Cfg} {c : Nat} (n : Nat) {st : Caller} {w : Shared} (h : HistOK cfg w) :
    HistOK cfg (loop cfg c n st w).2 := by
  induction n generalizing st w with
  | zero => exact h
  | succ n ih =>
    unfold loop
    split
    · exact h
    · rename_i st' w' ht
      exact ih (trans_hist h ht)

theorem stepS_hist {cfg : Cfg} {s : State} (op : Op) (h : HistOK cfg s.sh) : HistOK cfg (stepS cfg s op).sh := by
  cases op with
  | adv ms => exact h
  | incr => exact h
  | inner sc r => exact h
  | probe =>
    unfold HistOK at h ⊢
    simp [stepS, emit, linkUp_append, upStep]
    exact h
  | arrive c plan =>
    simp only [stepS]
    split
    · exact h
    · unfold HistOK at h ⊢
      cases hra : readyAns s.sh <;>
      · simp [startCall, emit, popScript, linkUp_append, upStep]
        exact h
  | poll c obs =>
    simp only [stepS]
    split
    · rename_i st hst
      have h0 : HistOK cfg { s.sh with obs := obs } := h
      have := @loop_hist cfg c (fuel st) st { s.sh with obs := obs } h0
      exact this
    · exact h
  | drop c =>
    simp only [stepS]
    split
    · rename_i st hst
      unfold HistOK at h ⊢
      unfold dropCaller
      split
      · simp [emit, linkUp_append, upStep]
        exact h
      · exact h
    · exact h

/-- **In every reachable state the published state reads Connected exactly when the history says so.** -/
theorem hist_reachable (cfg : Cfg) (ops : List Op) : HistOK cfg (run cfg ops).sh := by
  have key : ∀ (ops : List Op) (s : State), HistOK cfg s.sh → HistOK cfg (ops.foldl (stepS cfg) s).sh := by
    intro ops
    induction ops with
    | nil => intro s h; exact h
    | cons o os ih => intro s h; exact ih _ (stepS_hist o h)
  exact key ops _ (by simp [HistOK, init, linkUp])

/-! ## reading `linkUp` -/

/-- an event that takes the link down: a reconnectable inner error being handled -/
def isFailure (cfg : Cfg) : REv → Bool
  | .done _ _ (.err kd) => cfg.reconn kd
  | _ => false

/-- an event that brings the link up -/
def isSuccess : REv → Bool
  | .result _ (.ok _) => true
  | .result _ (.noRetry _ _) => true
  | _ => false

theorem foldl_up_of_no_failure (cfg : Cfg) : ∀ (post : List REv), (∀ e ∈ post, isFailure cfg e = false) →
    post.foldl (upStep cfg) true = true := by
  intro post
  induction post with
  | nil => intro _; rfl
  | cons e es ih =>
    intro h
    have he := h e (by simp)
    have hes : ∀ x ∈ es, isFailure cfg x = false := fun x hx => h x (by simp [hx])
    have : upStep cfg true e = true := by
      cases e with
      | done c k o =>
        cases o with
        | err kd => simp [isFailure] at he; simp [upStep, he]
        | _ => rfl
      | result c r => cases r <;> rfl
      | _ => rfl
    simp only [List.foldl_cons, this]
    exact ih hes

theorem foldl_down_of_no_success (cfg : Cfg) : ∀ (post : List REv), (∀ e ∈ post, isSuccess e = false) →
    post.foldl (upStep cfg) false = false := by
  intro post
  induction post with
  | nil => intro _; rfl
  | cons e es ih =>
    intro h
    have he := h e (by simp)
    have hes : ∀ x ∈ es, isSuccess x = false := fun x hx => h x (by simp [hx])
    have : upStep cfg false e = false := by
      cases e with
      | done c k o =>
        cases o with
        | err kd => simp [upStep]
        | _ => rfl
      | result c r => cases r <;> simp [isSuccess] at he <;> rfl
      | _ => rfl
    simp only [List.foldl_cons, this]
    exact ih hes

/-- the last success in the log with no reconnectable failure after it: the link is up -/
theorem linkUp_after_success (cfg : Cfg) (pre post : List REv) (e : REv) (he : isSuccess e = true)
    (hpost : ∀ x ∈ post, isFailure cfg x = false) : linkUp cfg (pre ++ e :: post) = true := by
  rw [linkUp_append]
  have : upStep cfg (linkUp cfg pre) e = true := by
    cases e with
    | result c r => cases r <;> simp [isSuccess] at he <;> rfl
    | _ => simp [isSuccess] at he
  simp only [List.foldl_cons, this]
  exact foldl_up_of_no_failure cfg post hpost

/-- the last reconnectable failure in the log with no success after it: the link is down -/
theorem linkUp_after_failure (cfg : Cfg) (pre post : List REv) (e : REv) (he : isFailure cfg e = true)
    (hpost : ∀ x ∈ post, isSuccess x = false) : linkUp cfg (pre ++ e :: post) = false := by
  rw [linkUp_append]
  have : upStep cfg (linkUp cfg pre) e = false := by
    cases e with
    | done c k o =>
      cases o with
      | err kd => simp [isFailure] at he; simp [upStep, he]
      | _ => simp [isFailure] at he
    | _ => simp [isFailure] at he
  simp only [List.foldl_cons, this]
  exact foldl_down_of_no_success cfg post hpost

end TR.Reconnect
