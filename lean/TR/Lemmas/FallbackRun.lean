import TR.Lemmas.Fallback
/-!
# Fallback: the explicit normal form of a request's trace, and what the callbacks in it are

`Shape` (TR.Lemmas.Fallback) describes a request's sub-log through `completionInner`; `Trace` spells the
same out event by event: which inner result, which decision (`afterInner … = .finish cbs o` /
`.backup cbs`), which callbacks, which tail. The run-level theorems of C17 about rejected errors and about
"a user function runs only if …" are read off this form.

Pure part: `Act.cbs` (the callbacks of a decision), `strategyCall` (the one invocation of a user function
the strategy makes) and `callbacks_exact`: the callbacks of the decision on an error are the predicate
call (if one is configured) followed — only if the error is accepted — by the strategy's invocation.
-/
namespace TR.Fallback

/-! ## the callbacks of a decision -/

def Act.cbs : Act → List Callback
  | .finish cbs _ => cbs
  | .backup cbs => cbs

/-- the invocation of a user function that applying the strategy makes (none for a static value and
for the backup service, which is a call, not a callback) -/
def strategyCall (cfg : Cfg) (rq : Request) (n : Nat) (e : IErr) : Option Callback :=
  match cfg.strat with
  | .value => none
  | .valueFn => some (.valueFn n)
  | .fromError => some (.fromError e)
  | .fromReqErr => some (.fromReqErr rq e)
  | .service => none
  | .exception => some (.exception e)

def Callback.isPredicate : Callback → Bool
  | .predicate _ _ => true
  | _ => false

theorem predCalls_isPredicate (cfg : Cfg) (e : IErr) : ∀ cb ∈ predCalls cfg e, cb = .predicate e (accepts cfg e) ∧ cfg.pred ≠ none := by
  intro cb h
  unfold predCalls at h
  split at h
  · simp at h
  · rename_i p hp
    simp only [List.mem_cons, List.mem_nil_iff, or_false] at h
    exact ⟨h, by rw [hp]; simp⟩

theorem strategyCall_not_predicate {cfg : Cfg} {rq : Request} {n : Nat} {e : IErr} {cb : Callback}
    (h : strategyCall cfg rq n e = some cb) : cb.isPredicate = false := by
  unfold strategyCall at h
  split at h <;> simp at h <;> subst h <;> rfl

theorem applyStrategy_cbs (cfg : Cfg) (rq : Request) (n : Nat) (e : IErr) :
    (applyStrategy cfg rq n e).cbs = predCalls cfg e ++ (strategyCall cfg rq n e).toList := by
  unfold applyStrategy strategyCall
  cases cfg.strat <;> simp [Act.cbs]

/-- the callbacks of the decision on an inner error: the predicate call if a predicate is configured,
then — only if the error is accepted — the one invocation the strategy makes -/
theorem afterInner_err_cbs (cfg : Cfg) (rq : Request) (n : Nat) (e : IErr) :
    (afterInner cfg rq n (.err e)).cbs
      = predCalls cfg e ++ (if accepts cfg e then (strategyCall cfg rq n e).toList else []) := by
  simp only [afterInner]
  split
  · exact applyStrategy_cbs cfg rq n e
  · simp [Act.cbs]

theorem afterInner_ok_cbs (cfg : Cfg) (rq : Request) (n : Nat) (r : Resp) : (afterInner cfg rq n (.ok r)).cbs = [] := rfl

/-- a callback of a decision: the inner result was an error `e`, and the callback is the predicate call on
`e` or — `e` accepted — the strategy's invocation for this request, this error, this counter -/
theorem mem_afterInner_cbs {cfg : Cfg} {rq : Request} {n : Nat} {ri : IRes} {cb : Callback}
    (h : cb ∈ (afterInner cfg rq n ri).cbs) :
    ∃ e, ri = .err e ∧
      ((cb = .predicate e (accepts cfg e) ∧ cfg.pred ≠ none) ∨
       (accepts cfg e = true ∧ strategyCall cfg rq n e = some cb)) := by
  cases ri with
  | ok r => simp [afterInner_ok_cbs] at h
  | err e =>
      refine ⟨e, rfl, ?_⟩
      rw [afterInner_err_cbs, List.mem_append] at h
      rcases h with h | h
      · exact Or.inl (predCalls_isPredicate cfg e cb h)
      · split at h
        · rename_i hacc
          exact Or.inr ⟨hacc, by simpa [Option.mem_toList] using h⟩
        · simp at h

/-- the decision on a rejected error, spelled out -/
theorem afterInner_rejected {cfg : Cfg} {rq : Request} {n : Nat} {e : IErr} (h : accepts cfg e = false) :
    afterInner cfg rq n (.err e) = .finish [.predicate e false] (.inner e) := by
  have hp : predCalls cfg e = [.predicate e false] := by
    unfold predCalls accepts at *
    cases hh : cfg.pred with
    | none => simp [hh] at h
    | some m => simp [hh] at h ⊢; exact h
  simp [afterInner, h, hp]

/-- the value-function counter matters to the decision only through the value function's own invocation -/
theorem afterInner_congr_n {cfg : Cfg} {rq : Request} {n n' : Nat} {ri : IRes}
    (h : ∀ cb ∈ (afterInner cfg rq n ri).cbs, cb = .valueFn n → n = n') :
    afterInner cfg rq n ri = afterInner cfg rq n' ri := by
  cases ri with
  | ok r => rfl
  | err e =>
      simp only [afterInner] at h ⊢
      split
      · rename_i hacc
        simp only [hacc, if_true] at h
        unfold applyStrategy at h ⊢
        cases hs : cfg.strat <;> simp only [hs] at h ⊢
        have := h (.valueFn n) (by simp [Act.cbs]) rfl
        rw [this]
      · rfl

/-! ## the tail of a trace after the decision to call the backup service -/

inductive Tail (c : Nat) (rq : Request) : List FEv → Prop
  /-- the backup service failed readiness: a failure of the backup, no backup call -/
  | notReady : Tail c rq [.resp c (.failed readyErr), .result c (.failed readyErr)]
  | calling (k2 : Nat) : Tail c rq [.backupCall c k2 rq]
  | dropped (k2 : Nat) : Tail c rq [.backupCall c k2 rq, .backupDrop c k2]
  | panicked (k2 : Nat) (out2 : Out) (hn2 : out2 ≠ .never) (hr2 : svcResult rq k2 out2 = none) :
      Tail c rq [.backupCall c k2 rq, .backupDone c k2 out2, .panicked c]
  | finished (k2 : Nat) (out2 : Out) (rb : IRes) (hn2 : out2 ≠ .never) (hr2 : svcResult rq k2 out2 = some rb) :
      Tail c rq [.backupCall c k2 rq, .backupDone c k2 out2, .resp c (afterBackup rb), .result c (afterBackup rb)]

/-- a request's sub-log, event by event -/
inductive Trace (cfg : Cfg) (c : Nat) : List FEv → Prop
  | none : Trace cfg c []
  | calling (rq : Request) (k : Nat) : Trace cfg c [.innerCall c k rq]
  | notReady : Trace cfg c [.notReady c]
  | readyFailed : Trace cfg c [.resp c (.inner readyErr), .result c (.inner readyErr)]
  | droppedInner (rq : Request) (k : Nat) : Trace cfg c [.innerCall c k rq, .innerDrop c k]
  | panicked (rq : Request) (k : Nat) (out : Out) (hn : out ≠ .never) (hr : svcResult rq k out = none) :
      Trace cfg c [.innerCall c k rq, .innerDone c k out, .panicked c]
  | finished (rq : Request) (n k : Nat) (out : Out) (ri : IRes) (cbs : List Callback) (o : Outcome) (hn : out ≠ .never)
      (hr : svcResult rq k out = some ri) (ha : afterInner cfg rq n ri = .finish cbs o) :
      Trace cfg c (.innerCall c k rq :: .innerDone c k out :: (cbs.map (.callback c) ++ [.resp c o, .result c o]))
  | backup (rq : Request) (n k : Nat) (out : Out) (ri : IRes) (cbs : List Callback) (tail : List FEv) (hn : out ≠ .never)
      (hr : svcResult rq k out = some ri) (ha : afterInner cfg rq n ri = .backup cbs) (ht : Tail c rq tail) :
      Trace cfg c (.innerCall c k rq :: .innerDone c k out :: (cbs.map (.callback c) ++ tail))

theorem tail_backupNotReady (c : Nat) (rq : Request) : Tail c rq (backupNotReady c) := by
  simp only [backupNotReady, afterBackup]; exact Tail.notReady

theorem tail_completionBackup (c : Nat) (rq : Request) (k2 : Nat) (out2 : Out) (hn2 : out2 ≠ .never) :
    Tail c rq (.backupCall c k2 rq :: completionBackup c rq k2 out2) := by
  rcases completionBackup_cases c rq k2 out2 with ⟨hr, hb⟩ | ⟨rb, hr, hb⟩
  · rw [hb]; exact Tail.panicked k2 out2 hn2 hr
  · rw [hb]; exact Tail.finished k2 out2 rb hn2 hr

/-- a trace that went to the backup service -/
theorem trace_of_toBackup {cfg : Cfg} {c : Nat} {rq : Request} {n k : Nat} {out : Out} {tail : List FEv}
    (hn : out ≠ .never) (hnx : (completionInner cfg c rq n k out).2 = .toBackup) (ht : Tail c rq tail) :
    Trace cfg c (traceFin cfg c rq n k out ++ tail) := by
  rcases completionInner_cases cfg c rq n k out with ⟨_, hc⟩ | ⟨ri, cbs, o', _, _, hc⟩ | ⟨ri, cbs, hr, ha, hc⟩
  · rw [hc] at hnx; simp at hnx
  · rw [hc] at hnx; simp at hnx
  · simp only [traceFin, hc, List.cons_append]
    exact Trace.backup rq n k out ri cbs tail hn hr ha ht

theorem trace_of_final {cfg : Cfg} {c : Nat} {l : List FEv} (h : Final cfg c l) : Trace cfg c l := by
  cases h with
  | unpolled => exact Trace.none
  | notReady => exact Trace.notReady
  | readyFailed => exact Trace.readyFailed
  | backupNotReady rq n k out hn hnx => exact trace_of_toBackup hn hnx (tail_backupNotReady c rq)
  | droppedInner rq k => exact Trace.droppedInner rq k
  | finished rq n k out hn hfin =>
      rcases completionInner_cases cfg c rq n k out with ⟨hr, hc⟩ | ⟨ri, cbs, o', hr, ha, hc⟩ | ⟨ri, cbs, _, _, hc⟩
      · simp only [traceFin, hc]; exact Trace.panicked rq k out hn hr
      · simp only [traceFin, hc]; exact Trace.finished rq n k out ri cbs o' hn hr ha
      · rw [hc] at hfin; simp at hfin
  | droppedBackup rq n k out k2 hn hnx =>
      have := trace_of_toBackup (tail := [.backupCall c k2 rq, .backupDrop c k2]) hn hnx (Tail.dropped k2)
      simpa [traceToBackup, traceFin] using this
  | finishedBackup rq n k out k2 out2 hn hn2 hnx =>
      have := trace_of_toBackup hn hnx (tail_completionBackup c rq k2 out2 hn2)
      simpa [traceToBackup, traceFin] using this

theorem trace_of_shape {cfg : Cfg} {c : Nat} {l : List FEv} (h : Shape cfg c l) : Trace cfg c l := by
  cases h with
  | none => exact Trace.none
  | calling rq k => exact Trace.calling rq k
  | backingUp rq n k out k2 hn hnx =>
      have := trace_of_toBackup (tail := [.backupCall c k2 rq]) hn hnx (Tail.calling k2)
      simpa [traceToBackup, traceFin] using this
  | final l hf => exact trace_of_final hf

/-- in every reachable state every request's sub-log is an explicit trace -/
theorem trace_reachable (cfg : Cfg) (ops : List Op) (c : Nat) : Trace cfg c (evsOf c (run cfg ops).log) :=
  trace_of_shape (shape_reachable cfg ops c)

/-! ## facts about tails -/

theorem callback_not_mem_tail {c : Nat} {rq : Request} {tail : List FEv} (h : Tail c rq tail) (c' : Nat) (cb : Callback) :
    FEv.callback c' cb ∉ tail := by
  cases h <;> simp

theorem innerDone_not_mem_tail {c : Nat} {rq : Request} {tail : List FEv} (h : Tail c rq tail) (c' k : Nat) (o : Out) :
    FEv.innerDone c' k o ∉ tail := by
  cases h <;> simp

/-- the same normal form, with the completion block still in one piece: a trace without a completed
inner call, or inner call ++ completion block (for SOME counter `n`) ++ tail -/
theorem shape_block {cfg : Cfg} {c : Nat} {l : List FEv} (h : Shape cfg c l) :
    (∀ k o, FEv.innerDone c k o ∉ l) ∨
    ∃ rq n k out tail, out ≠ .never ∧ l = traceFin cfg c rq n k out ++ tail ∧
      (∀ c' k' o, FEv.innerDone c' k' o ∉ tail) ∧ (∀ c' cb, FEv.callback c' cb ∉ tail) := by
  have hb : ∀ k2 rq out2, (∀ c' k' o, FEv.innerDone c' k' o ∉ completionBackup c rq k2 out2) := by
    intro k2 rq out2 c' k' o
    unfold completionBackup; split <;> simp
  cases h with
  | none => left; simp
  | calling rq k => left; simp
  | backingUp rq n k out k2 hn hnx =>
      right; exact ⟨rq, n, k, out, [.backupCall c k2 rq], hn, by simp [traceToBackup, traceFin], by simp, by simp⟩
  | final l hf =>
      cases hf with
      | unpolled => left; simp
      | notReady => left; simp
      | readyFailed => left; simp
      | backupNotReady rq n k out hn hnx =>
          right; exact ⟨rq, n, k, out, _, hn, rfl, by simp [backupNotReady], by simp [backupNotReady]⟩
      | droppedInner rq k => left; simp
      | finished rq n k out hn hfin => right; exact ⟨rq, n, k, out, [], hn, by simp, by simp, by simp⟩
      | droppedBackup rq n k out k2 hn hnx =>
          right; exact ⟨rq, n, k, out, [.backupCall c k2 rq, .backupDrop c k2], hn, by simp [traceToBackup, traceFin], by simp, by simp⟩
      | finishedBackup rq n k out k2 out2 hn hn2 hnx =>
          right
          refine ⟨rq, n, k, out, .backupCall c k2 rq :: completionBackup c rq k2 out2, hn, by simp [traceToBackup, traceFin], ?_, ?_⟩
          · intro c' k' o hm
            simp only [List.mem_cons, reduceCtorEq, false_or] at hm
            exact hb k2 rq out2 c' k' o hm
          · intro c' cb hm
            simp only [List.mem_cons, reduceCtorEq, false_or] at hm
            exact callback_not_mem_completionBackup c rq k2 out2 c' cb hm

/-! ## at most one completion of the inner call and at most one result per request -/

def isResult : FEv → Bool
  | .result _ _ => true
  | _ => false

def isResultOf (c : Nat) : FEv → Bool
  | .result c' _ => c' == c
  | _ => false

theorem countP_isResultOf (c : Nat) (l : List FEv) : l.countP (isResultOf c) = (evsOf c l).countP isResult := by
  induction l with
  | nil => rfl
  | cons e tl ih =>
      by_cases h : about e = c
      · have : evsOf c (e :: tl) = e :: evsOf c tl := by simp [evsOf, h]
        rw [this, List.countP_cons, List.countP_cons, ih]
        cases e <;> simp only [about] at h <;> simp [isResultOf, isResult, h]
      · have : evsOf c (e :: tl) = evsOf c tl := by simp [evsOf, h]
        rw [this, List.countP_cons, ih]
        cases e <;> simp only [about] at h <;> simp [isResultOf, h]

theorem countP_isResult_callbacks (c : Nat) (cbs : List Callback) : (cbs.map (FEv.callback c)).countP isResult = 0 := by
  rw [List.countP_eq_zero]
  intro e he
  simp only [List.mem_map] at he
  obtain ⟨cb, _, rfl⟩ := he
  simp [isResult]

theorem trace_one_result {cfg : Cfg} {c : Nat} {l : List FEv} (h : Trace cfg c l) : l.countP isResult ≤ 1 := by
  cases h with
  | none => simp
  | calling rq k => simp [isResult]
  | notReady => simp [isResult]
  | readyFailed => simp [isResult]
  | droppedInner rq k => simp [isResult]
  | panicked rq k out hn hr => simp [isResult]
  | finished rq n k out ri cbs o hn hr ha =>
      simp [List.countP_cons, List.countP_append, isResult]
  | backup rq n k out ri cbs tail hn hr ha ht =>
      simp only [List.countP_cons, List.countP_append, countP_isResult_callbacks, isResult]
      cases ht <;> simp [isResult]

theorem trace_innerDone_unique {cfg : Cfg} {c : Nat} {l : List FEv} (h : Trace cfg c l) {k k' : Nat} {o o' : Out}
    (h1 : FEv.innerDone c k o ∈ l) (h2 : FEv.innerDone c k' o' ∈ l) : k = k' ∧ o = o' := by
  cases h with
  | none => simp at h1
  | calling rq k0 => simp at h1
  | notReady => simp at h1
  | readyFailed => simp at h1
  | droppedInner rq k0 => simp at h1
  | panicked rq k0 out hn hr =>
      simp at h1 h2
      exact ⟨h1.1.trans h2.1.symm, h1.2.trans h2.2.symm⟩
  | finished rq n k0 out ri cbs o0 hn hr ha =>
      simp at h1 h2
      exact ⟨h1.1.trans h2.1.symm, h1.2.trans h2.2.symm⟩
  | backup rq n k0 out ri cbs tail hn hr ha ht =>
      simp at h1 h2
      rcases h1 with h1 | h1
      · rcases h2 with h2 | h2
        · exact ⟨h1.1.trans h2.1.symm, h1.2.trans h2.2.symm⟩
        · exact absurd h2 (innerDone_not_mem_tail ht c k' o')
      · exact absurd h1 (innerDone_not_mem_tail ht c k o)

theorem trace_result_unique {cfg : Cfg} {c : Nat} {l : List FEv} (h : Trace cfg c l) {o o' : Outcome}
    (h1 : FEv.result c o ∈ l) (h2 : FEv.result c o' ∈ l) : o = o' := by
  cases h with
  | none => simp at h1
  | calling rq k0 => simp at h1
  | notReady => simp at h1
  | readyFailed => simp at h1 h2; rw [h1, h2]
  | droppedInner rq k0 => simp at h1
  | panicked rq k0 out hn hr => simp at h1
  | finished rq n k0 out ri cbs o0 hn hr ha => simp at h1 h2; rw [h1, h2]
  | backup rq n k0 out ri cbs tail hn hr ha ht =>
      simp at h1 h2
      cases ht <;> simp at h1 h2 <;> rw [h1, h2]

section realise
theorem equations_realised_run : True := by
  have := @Act.cbs.eq_1
  have := @Act.cbs.eq_2
  have := @strategyCall.eq_1
  have := @Callback.isPredicate.eq_1
  have := @isResult.eq_1
  have := @isResultOf.eq_1
  trivial
end realise

end TR.Fallback
