import TR.Lemmas.BulkheadLog
import TR.Lemmas.BulkheadMulti
/-!
# Bulkhead: the wait deadline is "first poll + max_wait"; rejection exactly then; bursts into spare capacity (C07)

* `WaitInv` — for every queued caller the armed deadline equals the ghost instant of its first poll plus the configured
  `max_wait`; without a `max_wait` no deadline is ever armed; first-poll instants lie in the past.
* `timeout_step` — a step that answers `err:timeout` is a poll of that caller at an instant `≥ firstPoll + max_wait`.
* `poll_at_deadline_rejects` / `poll_before_deadline_waits` — the converse: a waiting caller without a permit polled at
  or after that instant IS rejected, polled before it nothing happens.
* `burst_admitted`, `burst_simultaneous`, `poll_fresh_full_step` — as many first polls as there are free permits all reach
  the inner service in their own step; if none of them finishes at once they are all inside together; with no free permit
  the next first poll does not reach the inner service (it queues, or is rejected when `max_wait = 0`).
-/
namespace TR.Bulkhead

/-! ## frame: steps that only shrink the queue and leave the wait bookkeeping alone -/

structure Shrinks (s s' : State) : Prop where
  fp : s'.firstPoll = s.firstPoll
  dl : s'.deadline = s.deadline
  q : ∀ x, x ∈ s'.queue → x ∈ s.queue
  now : s'.now = s.now

theorem Shrinks.refl (s : State) : Shrinks s s := ⟨rfl, rfl, fun _ h => h, rfl⟩

theorem Shrinks.trans {a b c : State} (h1 : Shrinks a b) (h2 : Shrinks b c) : Shrinks a c :=
  ⟨by rw [h2.fp, h1.fp], by rw [h2.dl, h1.dl], fun x h => h1.q x (h2.q x h), by rw [h2.now, h1.now]⟩

theorem shrinks_release (s : State) : Shrinks s (release s) := by
  unfold release
  split
  · exact ⟨rfl, rfl, fun _ h => h, rfl⟩
  · rename_i hd tl hq
    exact ⟨rfl, rfl, fun x h => by rw [hq]; exact List.mem_cons_of_mem _ h, rfl⟩

theorem shrinks_emit (s : State) (evs : List Ev) : Shrinks s (emit s evs) := ⟨rfl, rfl, fun _ h => h, rfl⟩

theorem shrinks_startInner (s : State) (c : Nat) : Shrinks s (startInner s c) := ⟨rfl, rfl, fun _ h => h, rfl⟩

theorem shrinks_finishRunning (s : State) (c : Nat) (evs : List Ev) : Shrinks s (finishRunning s c evs) := by
  unfold finishRunning
  have t0 : Shrinks s { s with running := s.running.erase c } := ⟨rfl, rfl, fun _ h => h, rfl⟩
  exact (t0.trans (shrinks_release _)).trans (shrinks_emit _ _)

theorem shrinks_pollRunning (s : State) (c : Nat) : Shrinks s (pollRunning s c) := by
  unfold pollRunning
  split
  · split
    · exact shrinks_finishRunning s c _
    · exact Shrinks.refl s
  · exact Shrinks.refl s

theorem shrinks_admitCall (s : State) (c : Nat) : Shrinks s (admitCall s c) :=
  (shrinks_startInner s c).trans (shrinks_pollRunning _ c)

/-! ## the invariant -/

structure WaitInv (cfg : Cfg) (s : State) : Prop where
  /-- the deadline of a queued caller is the instant of its first poll plus the configured wait -/
  dl : ∀ c, c ∈ s.queue → ∀ w, cfg.maxWait = some w →
        ∃ t, lookup s.firstPoll c = some t ∧ lookup s.deadline c = some (t + w)
  /-- waiting forever: no deadline is ever armed -/
  nodl : cfg.maxWait = none → s.deadline = []
  /-- reject-when-full: nobody ever queues -/
  zero : cfg.maxWait = some 0 → s.queue = []
  /-- first polls happened in the past -/
  past : ∀ c t, lookup s.firstPoll c = some t → t ≤ s.now

theorem waitInv_of_shrinks {cfg : Cfg} {s s' : State} (h : WaitInv cfg s) (hs : Shrinks s s') : WaitInv cfg s' := by
  refine ⟨?_, ?_, ?_, ?_⟩
  · intro c hc w hw; rw [hs.fp, hs.dl]; exact h.dl c (hs.q c hc) w hw
  · intro hn; rw [hs.dl]; exact h.nodl hn
  · intro hz
    have := h.zero hz
    cases hq : s'.queue with
    | nil => rfl
    | cons x xs => have := hs.q x (by rw [hq]; simp); simp_all
  · intro c t ht; rw [hs.fp] at ht; rw [hs.now]; exact h.past c t ht

theorem lookup_cons_ne {α : Type} (l : List (Nat × α)) (c x : Nat) (v : α) (h : c ≠ x) :
    lookup ((c, v) :: l) x = lookup l x := by
  simp [lookup, h]

theorem lookup_cons_self {α : Type} (l : List (Nat × α)) (c : Nat) (v : α) : lookup ((c, v) :: l) c = some v := by
  simp [lookup]

theorem stepS_waitInv (cfg : Cfg) (s : State) (op : Op) (h2 : Inv2 s) (h : WaitInv cfg s) :
    WaitInv cfg (stepS cfg s op) := by
  cases op with
  | adv ms =>
    exact ⟨h.dl, h.nodl, h.zero, fun c t ht => by have := h.past c t ht; show t ≤ s.now + ms; omega⟩
  | tick n => exact ⟨h.dl, h.nodl, h.zero, h.past⟩
  | arrive c sc =>
    simp only [stepS]; split
    · exact h
    · exact ⟨h.dl, h.nodl, h.zero, h.past⟩
  | refuse c kind =>
    simp only [stepS]; split
    · exact h
    · exact ⟨h.dl, h.nodl, h.zero, h.past⟩
  | drop c =>
    simp only [stepS]
    split
    · exact ⟨h.dl, h.nodl, h.zero, h.past⟩
    · split
      · have t0 : Shrinks s { s with queue := s.queue.erase c } :=
          ⟨rfl, rfl, fun x hx => List.mem_of_mem_erase hx, rfl⟩
        exact waitInv_of_shrinks h t0
      · split
        · have t0 : Shrinks s { s with assigned := s.assigned.erase c } := ⟨rfl, rfl, fun _ hx => hx, rfl⟩
          exact waitInv_of_shrinks h (t0.trans (shrinks_release _))
        · split
          · unfold dropRunning; exact waitInv_of_shrinks h (shrinks_finishRunning s c _)
          · exact h
  | poll c =>
    simp only [stepS]
    split
    · -- first poll: the arrival instant is recorded; `c` is not queued (it is in exactly one phase)
      rename_i hfr
      have hfc : s.fresh.count c ≥ 1 := (mem_iff_count _ _).mp hfr
      have honce := h2.once c
      simp only [occ] at honce
      have hnq : c ∉ s.queue := by
        intro hm; have := List.count_pos_iff.mpr hm; omega
      have h0 : WaitInv cfg { s with fresh := s.fresh.erase c, firstPoll := (c, s.now) :: s.firstPoll } := by
        refine ⟨?_, h.nodl, h.zero, ?_⟩
        · intro x hx w hw
          have hxc : c ≠ x := fun hh => hnq (hh ▸ hx)
          obtain ⟨t, h1, h2'⟩ := h.dl x hx w hw
          exact ⟨t, by show lookup ((c, s.now) :: s.firstPoll) x = some t; rw [lookup_cons_ne _ _ _ _ hxc]; exact h1, h2'⟩
        · intro x t ht
          have ht' : lookup ((c, s.now) :: s.firstPoll) x = some t := ht
          by_cases hxc : c = x
          · subst hxc; rw [lookup_cons_self] at ht'; cases ht'; exact Nat.le_refl _
          · rw [lookup_cons_ne _ _ _ _ hxc] at ht'; exact h.past x t ht'
      unfold pollFresh
      simp only
      split
      · have t0 : Shrinks { s with fresh := s.fresh.erase c, firstPoll := (c, s.now) :: s.firstPoll }
            { s with fresh := s.fresh.erase c, firstPoll := (c, s.now) :: s.firstPoll, free := s.free - 1 } :=
          ⟨rfl, rfl, fun _ hx => hx, rfl⟩
        exact waitInv_of_shrinks h0 (t0.trans (shrinks_admitCall _ c))
      · split
        · exact waitInv_of_shrinks h0 (shrinks_emit _ _)
        · rename_i w hw0 hw
          refine ⟨?_, ?_, ?_, h0.past⟩
          · intro x hx w' hw'
            have hww : w' = w := by rw [hw] at hw'; cases hw'; rfl
            subst hww
            have hx' : x ∈ s.queue ++ [c] := hx
            by_cases hxc : c = x
            · subst hxc
              exact ⟨s.now, lookup_cons_self _ _ _, lookup_cons_self _ _ _⟩
            · have hxq : x ∈ s.queue := by
                rcases List.mem_append.mp hx' with hh | hh
                · exact hh
                · simp at hh; exact absurd hh.symm hxc
              obtain ⟨t, h1, h2'⟩ := h0.dl x hxq w' hw
              exact ⟨t, h1, by show lookup ((c, s.now + w') :: s.deadline) x = some (t + w')
                               rw [lookup_cons_ne _ _ _ _ hxc]; exact h2'⟩
          · intro hn; rw [hn] at hw; cases hw
          · intro hz; rw [hz] at hw; cases hw; exact absurd rfl (hw0 · )
        · rename_i hw
          refine ⟨?_, h0.nodl, ?_, h0.past⟩
          · intro x hx w' hw'; rw [hw] at hw'; cases hw'
          · intro hz; rw [hz] at hw; cases hw
    · split
      · unfold pollAssigned
        have t0 : Shrinks s { s with assigned := s.assigned.erase c } := ⟨rfl, rfl, fun _ hx => hx, rfl⟩
        exact waitInv_of_shrinks h (t0.trans (shrinks_admitCall _ c))
      · split
        · unfold pollQueued
          split
          · split
            · have t0 : Shrinks s { s with queue := s.queue.erase c } :=
                ⟨rfl, rfl, fun x hx => List.mem_of_mem_erase hx, rfl⟩
              exact waitInv_of_shrinks h (t0.trans (shrinks_emit _ _))
            · exact h
          · exact h
        · split
          · exact waitInv_of_shrinks h (shrinks_pollRunning s c)
          · exact h

theorem init_waitInv (cfg : Cfg) : WaitInv cfg (init cfg) :=
  ⟨by intro c hc; simp [init] at hc, fun _ => rfl, fun _ => rfl, by intro c t ht; simp [init, lookup] at ht⟩

theorem waitInv_reachable (cfg : Cfg) (ops : List Op) : WaitInv cfg (run cfg ops) := by
  unfold run
  suffices ∀ s, Inv2 s → WaitInv cfg s → WaitInv cfg (ops.foldl (stepS cfg) s) from
    this _ (init_inv2 cfg) (init_waitInv cfg)
  induction ops with
  | nil => intro s _ h; exact h
  | cons o os ih => intro s h2 h; exact ih _ (stepS_inv2 cfg s o h2) (stepS_waitInv cfg s o h2 h)

end TR.Bulkhead

namespace TR.Bulkhead

/-! ## rejection: by whom, when, and the converse -/

/-- only a poll of `c` itself can answer `c` with the wait-timeout error -/
theorem timeout_only_poll (cfg : Cfg) (s : State) (op : Op) (c : Nat)
    (h : Ev.result c .timeout ∈ (stepS cfg s op).log.drop s.log.length) : op = .poll c := by
  cases op with
  | adv ms => simp [stepS] at h
  | tick n => simp [stepS] at h
  | arrive x sc => simp only [stepS] at h; split at h <;> simp at h
  | refuse x kind =>
    simp only [stepS] at h
    split at h
    · simp at h
    · obtain ⟨r, hr, _, _, _, _, f5, _⟩ := refuseCall_fields s x kind
      have := (mem_new_iff f5 _).mp h
      simp at this
      exact absurd this.2.symm hr
  | drop x =>
    simp only [stepS] at h
    split at h
    · simp at h
    · split at h
      · simp at h
      · split at h
        · rw [release_log] at h; simp at h
        · split at h
          · have hl : (dropRunning s x).log = s.log ++ [Ev.innerDrop x ((lookup s.kOf x).getD 0)] := by
              simp [dropRunning, finishRunning, emit, release_log]
            have := (mem_new_iff hl _).mp h
            simp at this
          · simp at h
  | poll x => rw [(poll_timeout_char cfg s x c h).1]

/-- the state after a reject-when-full first poll -/
theorem pollFresh_full_zero (cfg : Cfg) (s : State) (c : Nat) (hf : s.fresh.contains c = true) (h0 : s.free = 0)
    (hw : cfg.maxWait = some 0) :
    stepS cfg s (.poll c) =
      emit { s with fresh := s.fresh.erase c, firstPoll := (c, s.now) :: s.firstPoll } [.result c .timeout] := by
  have hfree' : ¬ s.free > 0 := by omega
  simp only [stepS, hf, if_true, pollFresh, hfree', if_false, hw]

/-- **not later**: a queued caller without a permit that is polled at or after its deadline is rejected in that poll -/
theorem poll_at_deadline_rejects (cfg : Cfg) (s : State) (c d : Nat) (hf : s.fresh.contains c = false)
    (ha : s.assigned.contains c = false) (hq : s.queue.contains c = true) (hd : lookup s.deadline c = some d)
    (hnow : d ≤ s.now) :
    stepS cfg s (.poll c) = emit { s with queue := s.queue.erase c } [.result c .timeout] := by
  have : s.now ≥ d := hnow
  simp only [stepS, hf, ha, hq, Bool.false_eq_true, if_false, if_true, pollQueued, hd, this]

/-- **not earlier**: polled before its deadline, nothing at all happens -/
theorem poll_before_deadline_waits (cfg : Cfg) (s : State) (c d : Nat) (hf : s.fresh.contains c = false)
    (ha : s.assigned.contains c = false) (hq : s.queue.contains c = true) (hd : lookup s.deadline c = some d)
    (hnow : s.now < d) : stepS cfg s (.poll c) = s := by
  have : ¬ s.now ≥ d := by omega
  simp only [stepS, hf, ha, hq, Bool.false_eq_true, if_false, if_true, pollQueued, hd, this]

/-- a caller waiting forever polled while it has no permit: nothing happens -/
theorem poll_without_deadline_waits (cfg : Cfg) (s : State) (c : Nat) (hf : s.fresh.contains c = false)
    (ha : s.assigned.contains c = false) (hq : s.queue.contains c = true) (hd : lookup s.deadline c = none) :
    stepS cfg s (.poll c) = s := by
  simp only [stepS, hf, ha, hq, Bool.false_eq_true, if_false, if_true, pollQueued, hd]

/-- **Rejected exactly `max_wait` after it arrived (never earlier).** In a state satisfying the invariants (every
reachable state does), a step that answers `c` with the wait-timeout error is a poll of `c`; a `max_wait = w` is
configured; `c`'s first poll was at some instant `t` with `t + w ≤ now`; the answer is the only thing the step emits.
Either this IS the first poll (`t = now`, `w = 0`, no permit free), or `c` was queued without a permit and its armed
deadline is exactly `t + w`. -/
theorem timeout_step (cfg : Cfg) (s : State) (op : Op) (c : Nat) (hw : WaitInv cfg s)
    (h : Ev.result c .timeout ∈ (stepS cfg s op).log.drop s.log.length) :
    op = .poll c ∧ (stepS cfg s op).log = s.log ++ [Ev.result c .timeout] ∧
    ∃ w t, cfg.maxWait = some w ∧ lookup (stepS cfg s op).firstPoll c = some t ∧ t + w ≤ s.now ∧
      ((s.fresh.contains c = true ∧ s.free = 0 ∧ w = 0 ∧ t = s.now) ∨
       (s.fresh.contains c = false ∧ s.assigned.contains c = false ∧ s.queue.contains c = true ∧
          lookup s.firstPoll c = some t ∧ lookup s.deadline c = some (t + w))) := by
  have hop := timeout_only_poll cfg s op c h
  subst hop
  obtain ⟨_, hlog, hcase⟩ := poll_timeout_char cfg s c c h
  refine ⟨rfl, hlog, ?_⟩
  rcases hcase with ⟨hf, h0, hz⟩ | ⟨hf, ha, hq, d, hd, hdn⟩
  · refine ⟨0, s.now, hz, ?_, by omega, Or.inl ⟨hf, h0, rfl, rfl⟩⟩
    rw [pollFresh_full_zero cfg s c hf h0 hz]
    exact lookup_cons_self _ _ _
  · cases hmw : cfg.maxWait with
    | none => have := hw.nodl hmw; rw [this] at hd; simp [lookup] at hd
    | some w =>
      obtain ⟨t, ht, htd⟩ := hw.dl c (mem_of_contains hq) w hmw
      have hdt : d = t + w := by rw [hd] at htd; cases htd; rfl
      subst hdt
      refine ⟨w, t, rfl, ?_, hdn, Or.inr ⟨hf, ha, hq, ht, hd⟩⟩
      rw [poll_at_deadline_rejects cfg s c _ hf ha hq hd hdn]
      exact ht

/-- how the ghost `firstPoll` moves: only a poll of a caller that has never been polled records an arrival, at `now` -/
theorem stepS_firstPoll (cfg : Cfg) (s : State) (op : Op) :
    (stepS cfg s op).firstPoll = s.firstPoll ∨
    ∃ c, op = .poll c ∧ s.fresh.contains c = true ∧ (stepS cfg s op).firstPoll = (c, s.now) :: s.firstPoll := by
  cases op with
  | adv ms => exact Or.inl rfl
  | tick n => exact Or.inl rfl
  | arrive c sc => simp only [stepS]; split <;> exact Or.inl rfl
  | refuse c kind => simp only [stepS]; split <;> exact Or.inl rfl
  | drop c =>
    left
    simp only [stepS]
    split
    · rfl
    · split
      · rfl
      · split
        · exact (shrinks_release _).fp
        · split
          · unfold dropRunning; exact (shrinks_finishRunning s c _).fp
          · rfl
  | poll c =>
    simp only [stepS]
    split
    · rename_i hfr
      right
      refine ⟨c, rfl, hfr, ?_⟩
      unfold pollFresh
      simp only
      split
      · exact (shrinks_admitCall _ c).fp
      · split <;> rfl
    · left
      split
      · unfold pollAssigned; exact (shrinks_admitCall _ c).fp
      · split
        · unfold pollQueued
          split
          · split <;> rfl
          · rfl
        · split
          · exact (shrinks_pollRunning s c).fp
          · rfl

/-- **the ghost arrival instant is the instant of the caller's first poll in the history** -/
theorem firstPoll_origin (cfg : Cfg) (ops : List Op) (c t : Nat) (h : lookup (run cfg ops).firstPoll c = some t) :
    ∃ pre post, ops = pre ++ .poll c :: post ∧ (run cfg pre).fresh.contains c = true ∧ (run cfg pre).now = t := by
  unfold run at h ⊢
  suffices ∀ s, lookup (ops.foldl (stepS cfg) s).firstPoll c = some t → lookup s.firstPoll c = some t ∨
      ∃ pre post, ops = pre ++ .poll c :: post ∧ (pre.foldl (stepS cfg) s).fresh.contains c = true ∧
        (pre.foldl (stepS cfg) s).now = t by
    rcases this _ h with hh | hh
    · simp [init, lookup] at hh
    · exact hh
  clear h
  induction ops with
  | nil => intro s h; exact Or.inl h
  | cons o os ih =>
    intro s h
    rcases ih (stepS cfg s o) h with hh | ⟨pre, post, heq, hm⟩
    · rcases stepS_firstPoll cfg s o with hfp | ⟨x, hop, hfr, hfp⟩
      · rw [hfp] at hh; exact Or.inl hh
      · rw [hfp] at hh
        by_cases hxc : x = c
        · subst hxc
          rw [lookup_cons_self] at hh; cases hh
          exact Or.inr ⟨[], os, by rw [hop]; rfl, hfr, rfl⟩
        · rw [lookup_cons_ne _ _ _ _ hxc] at hh; exact Or.inl hh
    · exact Or.inr ⟨o :: pre, post, by rw [heq]; rfl, hm⟩

end TR.Bulkhead

namespace TR.Bulkhead

/-! ## bursts into spare capacity -/

/-- polling an inner call with nobody queued: the permit (if released) goes back to the pool -/
theorem pollRunning_noqueue (s : State) (c : Nat) (hq : s.queue = []) :
    (pollRunning s c).fresh = s.fresh ∧ (pollRunning s c).assigned = s.assigned ∧ (pollRunning s c).queue = [] ∧
    s.free ≤ (pollRunning s c).free ∧ (pollRunning s c).script = s.script := by
  unfold pollRunning
  split
  · split
    · simp [finishRunning, emit, release, hq]
    · exact ⟨rfl, rfl, hq, Nat.le_refl _, rfl⟩
  · exact ⟨rfl, rfl, hq, Nat.le_refl _, rfl⟩

theorem admitCall_noqueue (s : State) (c : Nat) (hq : s.queue = []) :
    (admitCall s c).fresh = s.fresh ∧ (admitCall s c).assigned = s.assigned ∧ (admitCall s c).queue = [] ∧
    s.free ≤ (admitCall s c).free ∧ (admitCall s c).script = s.script := by
  unfold admitCall
  exact pollRunning_noqueue (startInner s c) c hq

/-- an inner call that does not finish at once stays: polling it right after it started changes nothing -/
theorem pollRunning_startInner_slow (s : State) (c : Nat)
    (hslow : ∀ sc, lookup s.script c = some sc → sc.lat > 0 ∨ sc.out = .never) :
    pollRunning (startInner s c) c = startInner s c := by
  unfold pollRunning
  split
  · rename_i t sc k hd hs hk
    have hs' : lookup s.script c = some sc := hs
    have hd' : lookup ((c, s.now + (match lookup s.script c with | some sc => sc.lat | none => 0)) :: s.doneAt) c
        = some t := hd
    rw [lookup_cons_self, hs'] at hd'
    simp only at hd'
    cases hd'
    have hcond : ¬ ((startInner s c).now ≥ s.now + sc.lat ∧ sc.out ≠ .never) := by
      intro ⟨h1, h2⟩
      have h1' : s.now ≥ s.now + sc.lat := h1
      rcases hslow sc hs' with hl | hn
      · omega
      · exact h2 hn
    simp only [hcond, if_false]
  · rfl

/-- **One first poll while a permit is free**: the caller's `inner_call` is the first new event and the step emits
no other `inner_call`; the caller leaves `fresh`; at most one free permit is used up; nobody is handed a permit. -/
theorem poll_fresh_admit_step (cfg : Cfg) (s : State) (c : Nat) (hinv : Inv cfg s) (hfr : c ∈ s.fresh)
    (hfree : s.free > 0) :
    (∃ rest, (stepS cfg s (.poll c)).log = s.log ++ Ev.innerCall c s.serial :: rest) ∧
    (stepS cfg s (.poll c)).fresh = s.fresh.erase c ∧ s.free ≤ (stepS cfg s (.poll c)).free + 1 ∧
    (stepS cfg s (.poll c)).assigned = s.assigned ∧ (stepS cfg s (.poll c)).queue = [] ∧
    (stepS cfg s (.poll c)).script = s.script := by
  have hq : s.queue = [] := hinv.noBarge hfree
  have hfc : s.fresh.contains c = true := by simpa using hfr
  have hstep : stepS cfg s (.poll c) = admitCall
      { s with fresh := s.fresh.erase c, firstPoll := (c, s.now) :: s.firstPoll, free := s.free - 1 } c := by
    simp only [stepS, hfc, if_true, pollFresh, hfree]
  obtain ⟨p1, p2, p3, p4, p5⟩ := admitCall_noqueue
      { s with fresh := s.fresh.erase c, firstPoll := (c, s.now) :: s.firstPoll, free := s.free - 1 } c hq
  refine ⟨?_, ?_, ?_, ?_, ?_, ?_⟩
  · obtain ⟨rest, h⟩ := pollFresh_admits cfg s c hfree
    exact ⟨rest, by simp only [stepS, hfc, if_true]; exact h⟩
  · rw [hstep, p1]
  · rw [hstep]
    have : s.free - 1 ≤ _ := p4
    omega
  · rw [hstep, p2]
  · rw [hstep, p3]
  · rw [hstep, p5]

/-- … and if its inner call does not finish at once, the caller is now inside and holds exactly one permit more -/
theorem poll_fresh_admit_step_slow (cfg : Cfg) (s : State) (c : Nat) (hfr : c ∈ s.fresh) (hfree : s.free > 0)
    (hslow : ∀ sc, lookup s.script c = some sc → sc.lat > 0 ∨ sc.out = .never) :
    (stepS cfg s (.poll c)).running = s.running ++ [c] ∧ (stepS cfg s (.poll c)).free + 1 = s.free ∧
    (stepS cfg s (.poll c)).queue = s.queue ∧ (stepS cfg s (.poll c)).assigned = s.assigned := by
  have hfc : s.fresh.contains c = true := by simpa using hfr
  have hstep : stepS cfg s (.poll c) = startInner
      { s with fresh := s.fresh.erase c, firstPoll := (c, s.now) :: s.firstPoll, free := s.free - 1 } c := by
    simp only [stepS, hfc, if_true, pollFresh, hfree, admitCall]
    exact pollRunning_startInner_slow _ c hslow
  rw [hstep]
  refine ⟨rfl, ?_, rfl, rfl⟩
  show s.free - 1 + 1 = s.free
  omega

/-- **One first poll while NO permit is free**: no inner call starts and nobody's call is touched; the caller queues
(behind everybody already queued), or — with `max_wait = 0` — is rejected in that step. -/
theorem poll_fresh_full_step (cfg : Cfg) (s : State) (c : Nat) (hfr : c ∈ s.fresh) (hfree : s.free = 0) :
    (stepS cfg s (.poll c)).running = s.running ∧ (stepS cfg s (.poll c)).free = 0 ∧
    ((cfg.maxWait = some 0 ∧ (stepS cfg s (.poll c)).log = s.log ++ [Ev.result c .timeout] ∧
        (stepS cfg s (.poll c)).queue = s.queue) ∨
     (cfg.maxWait ≠ some 0 ∧ (stepS cfg s (.poll c)).log = s.log ∧ (stepS cfg s (.poll c)).queue = s.queue ++ [c])) := by
  have hfc : s.fresh.contains c = true := by simpa using hfr
  have hfree' : ¬ s.free > 0 := by omega
  simp only [stepS, hfc, if_true, pollFresh, hfree', if_false]
  split
  · rename_i hw
    exact ⟨rfl, hfree, Or.inl ⟨hw, rfl, rfl⟩⟩
  · rename_i w hw0 hw
    refine ⟨rfl, hfree, Or.inr ⟨?_, rfl, rfl⟩⟩
    intro hh; rw [hw] at hh; cases hh; exact hw0 rfl
  · rename_i hw
    exact ⟨rfl, hfree, Or.inr ⟨by rw [hw]; simp, rfl, rfl⟩⟩

/-- a burst: the callers of `cs` polled once each, in the order of the list -/
def burst (cfg : Cfg) (s : State) (cs : List Nat) : State := cs.foldl (fun s c => stepS cfg s (.poll c)) s

theorem burst_eq_foldl (cfg : Cfg) (s : State) (cs : List Nat) :
    burst cfg s cs = (cs.map Op.poll).foldl (stepS cfg) s := by
  simp [burst, List.foldl_map]

theorem run_burst (cfg : Cfg) (ops : List Op) (cs : List Nat) :
    run cfg (ops ++ cs.map Op.poll) = burst cfg (run cfg ops) cs := by
  simp [run, List.foldl_append, burst_eq_foldl]

theorem burst_log_mono (cfg : Cfg) (cs : List Nat) : ∀ (s : State) (e : Ev), e ∈ s.log → e ∈ (burst cfg s cs).log := by
  induction cs with
  | nil => intro s e h; exact h
  | cons c cs ih =>
    intro s e h
    obtain ⟨evs, hl⟩ := stepS_log_append cfg s (.poll c)
    exact ih (stepS cfg s (.poll c)) e (by rw [hl]; exact List.mem_append_left _ h)

/-- **As many first polls as there are free permits are all admitted, each in its own poll** — whatever order they
are polled in (`cs` is any duplicate-free list), whatever else is running, whatever their inner calls do. -/
theorem burst_admitted (cfg : Cfg) (cs : List Nat) : ∀ (s : State), Inv cfg s → cs.Nodup → (∀ c ∈ cs, c ∈ s.fresh) →
    cs.length ≤ s.free →
    (∀ c ∈ cs, ∃ k, Ev.innerCall c k ∈ (burst cfg s cs).log) ∧ s.free ≤ (burst cfg s cs).free + cs.length := by
  induction cs with
  | nil => intro s _ _ _ _; exact ⟨by simp, by simp [burst]⟩
  | cons c cs ih =>
    intro s hinv hnd hfr hlen
    have hc : c ∈ s.fresh := hfr c (by simp)
    have hfree : s.free > 0 := by simp at hlen; omega
    obtain ⟨⟨rest, hlog⟩, hfresh, hfr1, _, _, _⟩ := poll_fresh_admit_step cfg s c hinv hc hfree
    have hnd' := List.nodup_cons.mp hnd
    obtain ⟨ih1, ih2⟩ := ih (stepS cfg s (.poll c)) (stepS_inv cfg s _ hinv) hnd'.2
      (by
        intro x hx
        rw [hfresh]
        have hxc : x ≠ c := fun hh => hnd'.1 (hh ▸ hx)
        exact (List.mem_erase_of_ne hxc).mpr (hfr x (by simp [hx])))
      (by simp at hlen; omega)
    refine ⟨?_, ?_⟩
    · intro x hx
      rcases List.mem_cons.mp hx with hh | hh
      · subst hh
        exact ⟨s.serial, burst_log_mono cfg cs _ _ (by rw [hlog]; simp)⟩
      · exact ih1 x hh
    · show s.free ≤ (burst cfg (stepS cfg s (.poll c)) cs).free + (cs.length + 1)
      omega

/-- **… and if none of their inner calls finishes at once, they are all inside together**: `running` grows by exactly
the burst (in poll order) and exactly that many permits are gone. -/
theorem burst_simultaneous (cfg : Cfg) (cs : List Nat) : ∀ (s : State), Inv2 s → cs.Nodup → (∀ c ∈ cs, c ∈ s.fresh) →
    cs.length ≤ s.free → (∀ c ∈ cs, ∀ sc, lookup s.script c = some sc → sc.lat > 0 ∨ sc.out = .never) →
    (burst cfg s cs).running = s.running ++ cs ∧ (burst cfg s cs).free + cs.length = s.free ∧
    (burst cfg s cs).queue = s.queue ∧ (burst cfg s cs).assigned = s.assigned ∧
    (∀ x, x ∉ cs → (x ∈ (burst cfg s cs).fresh ↔ x ∈ s.fresh)) := by
  induction cs with
  | nil => intro s _ _ _ _ _; simp [burst]
  | cons c cs ih =>
    intro s h2 hnd hfr hlen hslow
    have hc : c ∈ s.fresh := hfr c (by simp)
    have hfree : s.free > 0 := by simp at hlen; omega
    obtain ⟨r1, r2, r3, r4⟩ := poll_fresh_admit_step_slow cfg s c hc hfree (hslow c (by simp))
    have ht := poll_trans cfg s c
    have hfresh : ∀ x, x ≠ c → (x ∈ (stepS cfg s (.poll c)).fresh ↔ x ∈ s.fresh) := by
      intro x hx
      have := (ht.other x hx).1
      rw [← List.count_pos_iff, ← List.count_pos_iff, this]
    have hnd' := List.nodup_cons.mp hnd
    obtain ⟨i1, i2, i3, i4, i5⟩ := ih (stepS cfg s (.poll c)) (stepS_inv2 cfg s _ h2) hnd'.2
      (by
        intro x hx
        have hxc : x ≠ c := fun hh => hnd'.1 (hh ▸ hx)
        exact (hfresh x hxc).mpr (hfr x (by simp [hx])))
      (by simp at hlen; omega)
      (by intro x hx sc hsc; rw [ht.script] at hsc; exact hslow x (by simp [hx]) sc hsc)
    refine ⟨?_, ?_, ?_, ?_, ?_⟩
    · show (burst cfg (stepS cfg s (.poll c)) cs).running = s.running ++ c :: cs
      rw [i1, r1]; simp
    · show (burst cfg (stepS cfg s (.poll c)) cs).free + (cs.length + 1) = s.free
      omega
    · show (burst cfg (stepS cfg s (.poll c)) cs).queue = s.queue
      rw [i3, r3]
    · show (burst cfg (stepS cfg s (.poll c)) cs).assigned = s.assigned
      rw [i4, r4]
    · intro x hx
      have hxc : x ≠ c := fun hh => hx (by simp [hh])
      have hxcs : x ∉ cs := fun hh => hx (by simp [hh])
      show x ∈ (burst cfg (stepS cfg s (.poll c)) cs).fresh ↔ x ∈ s.fresh
      rw [i5 x hxcs]; exact hfresh x hxc

end TR.Bulkhead

namespace TR.Bulkhead

/-! ## the general burst: callers holding a handed-over permit and never-polled callers, in any order -/

/-- admission never lowers the free permits, never takes a handed-over permit away from anybody, keeps `fresh` -/
theorem admitCall_frame (s : State) (c : Nat) :
    (admitCall s c).fresh = s.fresh ∧ s.free ≤ (admitCall s c).free ∧
    ∀ x, x ∈ s.assigned → x ∈ (admitCall s c).assigned := by
  unfold admitCall pollRunning
  split
  · split
    · simp only [finishRunning, emit, release]
      split
      · exact ⟨rfl, Nat.le_add_right _ _, fun _ h => h⟩
      · exact ⟨rfl, Nat.le_refl _, fun _ h => List.mem_append_left _ h⟩
    · exact ⟨rfl, Nat.le_refl _, fun _ h => h⟩
  · exact ⟨rfl, Nat.le_refl _, fun _ h => h⟩

/-- a first poll while a permit is free (no invariant needed) -/
theorem poll_fresh_step (cfg : Cfg) (s : State) (c : Nat) (hfc : s.fresh.contains c = true) (hfree : s.free > 0) :
    (∃ rest, (stepS cfg s (.poll c)).log = s.log ++ Ev.innerCall c s.serial :: rest) ∧
    (stepS cfg s (.poll c)).fresh = s.fresh.erase c ∧ s.free ≤ (stepS cfg s (.poll c)).free + 1 ∧
    ∀ x, x ∈ s.assigned → x ∈ (stepS cfg s (.poll c)).assigned := by
  have hstep : stepS cfg s (.poll c) = admitCall
      { s with fresh := s.fresh.erase c, firstPoll := (c, s.now) :: s.firstPoll, free := s.free - 1 } c := by
    simp only [stepS, hfc, if_true, pollFresh, hfree]
  obtain ⟨p1, p2, p3⟩ := admitCall_frame
      { s with fresh := s.fresh.erase c, firstPoll := (c, s.now) :: s.firstPoll, free := s.free - 1 } c
  obtain ⟨rest, hl, _⟩ := admitCall_log
      { s with fresh := s.fresh.erase c, firstPoll := (c, s.now) :: s.firstPoll, free := s.free - 1 } c
  rw [hstep]
  refine ⟨⟨rest, hl⟩, p1, ?_, p3⟩
  have : s.free - 1 ≤ _ := p2
  omega

/-- a poll of a caller that holds a handed-over permit: it uses it -/
theorem poll_assigned_step (cfg : Cfg) (s : State) (c : Nat) (hfc : s.fresh.contains c = false)
    (ha : c ∈ s.assigned) :
    (∃ rest, (stepS cfg s (.poll c)).log = s.log ++ Ev.innerCall c s.serial :: rest) ∧
    (stepS cfg s (.poll c)).fresh = s.fresh ∧ s.free ≤ (stepS cfg s (.poll c)).free ∧
    ∀ x, x ≠ c → x ∈ s.assigned → x ∈ (stepS cfg s (.poll c)).assigned := by
  have hac : s.assigned.contains c = true := by simpa using ha
  have hstep : stepS cfg s (.poll c) = admitCall { s with assigned := s.assigned.erase c } c := by
    simp only [stepS, hfc, hac, Bool.false_eq_true, if_false, if_true, pollAssigned]
  obtain ⟨p1, p2, p3⟩ := admitCall_frame { s with assigned := s.assigned.erase c } c
  obtain ⟨rest, hl, _⟩ := admitCall_log { s with assigned := s.assigned.erase c } c
  rw [hstep]
  exact ⟨⟨rest, hl⟩, p1, p2, fun x hx hm => p3 x ((List.mem_erase_of_ne hx).mpr hm)⟩

/-- **Everybody who can be admitted is admitted.** A duplicate-free list of callers each of which either holds a
handed-over permit or has never been polled, with no more never-polled ones than there are free permits, polled once
each in the order of the list (any order): every one of them reaches the inner service in its own poll. -/
theorem burst_admitted_mixed (cfg : Cfg) (bs : List Nat) : ∀ (s : State), bs.Nodup →
    (∀ c ∈ bs, c ∈ s.fresh ∨ c ∈ s.assigned) → bs.countP (fun c => s.fresh.contains c) ≤ s.free →
    ∀ c ∈ bs, ∃ k, Ev.innerCall c k ∈ (burst cfg s bs).log := by
  induction bs with
  | nil => intro s _ _ _ c hc; simp at hc
  | cons b bs ih =>
    intro s hnd hmem hcnt
    have hnd' := List.nodup_cons.mp hnd
    rw [List.countP_cons] at hcnt
    -- the step on `b`
    have key : (∃ rest, (stepS cfg s (.poll b)).log = s.log ++ Ev.innerCall b s.serial :: rest) ∧
        (∀ x, x ≠ b → ((stepS cfg s (.poll b)).fresh.contains x = s.fresh.contains x)) ∧
        s.free ≤ (stepS cfg s (.poll b)).free + (if s.fresh.contains b then 1 else 0) ∧
        (∀ x, x ≠ b → x ∈ s.assigned → x ∈ (stepS cfg s (.poll b)).assigned) := by
      cases hfb : s.fresh.contains b with
      | true =>
        have hfree : s.free > 0 := by rw [hfb] at hcnt; simp at hcnt; omega
        obtain ⟨q1, q2, q3, q4⟩ := poll_fresh_step cfg s b hfb hfree
        refine ⟨q1, ?_, by simpa using q3, fun x _ hx => q4 x hx⟩
        intro x hx
        rw [q2]
        rw [Bool.eq_iff_iff]
        simp only [List.contains_iff_mem]
        exact List.mem_erase_of_ne hx
      | false =>
        have hb : b ∈ s.assigned := by
          rcases hmem b (by simp) with hh | hh
          · have : s.fresh.contains b = true := by simpa using hh
            rw [hfb] at this; cases this
          · exact hh
        obtain ⟨q1, q2, q3, q4⟩ := poll_assigned_step cfg s b hfb hb
        exact ⟨q1, fun x _ => by rw [q2], by simpa using q3, q4⟩
    obtain ⟨⟨rest, hlog⟩, kfresh, kfree, kass⟩ := key
    have hcongr : bs.countP (fun c => (stepS cfg s (.poll b)).fresh.contains c)
        = bs.countP (fun c => s.fresh.contains c) := by
      apply List.countP_congr
      intro x hx
      have hxb : x ≠ b := fun hh => hnd'.1 (hh ▸ hx)
      simp only [kfresh x hxb]
    have ih' := ih (stepS cfg s (.poll b)) hnd'.2
      (by
        intro x hx
        have hxb : x ≠ b := fun hh => hnd'.1 (hh ▸ hx)
        rcases hmem x (by simp [hx]) with hh | hh
        · left
          have h1 : s.fresh.contains x = true := by simpa using hh
          have h2 := kfresh x hxb
          rw [h1] at h2
          simpa using h2
        · exact Or.inr (kass x hxb hh))
      (by rw [hcongr]; split at kfree <;> split at hcnt <;> omega)
    intro c hc
    rcases List.mem_cons.mp hc with hh | hh
    · subst hh
      exact ⟨s.serial, burst_log_mono cfg bs _ _ (by rw [hlog]; simp)⟩
    · exact ih' c hh

/-! ## a caller is polled "for the first time" only once -/

theorem poll_fresh_cases (cfg : Cfg) (s : State) (x : Nat) :
    (stepS cfg s (.poll x)).fresh = s.fresh ∨ (stepS cfg s (.poll x)).fresh = s.fresh.erase x := by
  simp only [stepS]
  split
  · right
    unfold pollFresh
    simp only
    split
    · exact (admitCall_frame _ x).1
    · split <;> rfl
  · left
    split
    · unfold pollAssigned; exact (admitCall_frame _ x).1
    · split
      · unfold pollQueued
        split
        · split <;> rfl
        · rfl
      · split
        · rcases pollRunning_subject s x with h | ⟨h, _, _⟩
          · rw [h]
          · exact h
        · rfl

theorem drop_fresh_cases (cfg : Cfg) (s : State) (x : Nat) :
    (stepS cfg s (.drop x)).fresh = s.fresh ∨ (stepS cfg s (.drop x)).fresh = s.fresh.erase x := by
  simp only [stepS]
  split
  · exact Or.inr rfl
  · left
    split
    · rfl
    · split
      · exact (release_counts _ 0).1
      · split
        · simp only [dropRunning, finishRunning, emit]; exact (release_counts _ 0).1
        · rfl

/-- a known caller that is not (or no longer) `fresh` never becomes `fresh` again -/
theorem not_fresh_stays (cfg : Cfg) (s : State) (c : Nat) (hk : known s c = true) (hf : s.fresh.count c = 0) (op : Op) :
    known (stepS cfg s op) c = true ∧ (stepS cfg s op).fresh.count c = 0 := by
  have sub : ∀ (s' : State), (s'.fresh = s.fresh ∨ ∃ x, s'.fresh = s.fresh.erase x) → s'.fresh.count c = 0 := by
    intro s' h
    rcases h with h | ⟨x, h⟩
    · rw [h]; exact hf
    · rw [h]; have := count_erase_le s.fresh x c; omega
  cases op with
  | adv ms => exact ⟨hk, hf⟩
  | tick n => exact ⟨hk, hf⟩
  | refuse x kind =>
    simp only [stepS]
    split
    · exact ⟨hk, hf⟩
    · rename_i hkx
      have hxc : x ≠ c := by intro hh; subst hh; exact hkx hk
      obtain ⟨r, _, f1, _, _, _, _, f6⟩ := refuseCall_fields s x kind
      refine ⟨?_, by rw [f1]; exact hf⟩
      simp only [known, f6, lookup]; simp [hxc]; simpa [known] using hk
  | arrive x sc =>
    simp only [stepS]
    split
    · exact ⟨hk, hf⟩
    · rename_i hkx
      have hxc : x ≠ c := by intro hh; subst hh; exact hkx hk
      refine ⟨?_, ?_⟩
      · simp only [known, lookup]; simp [hxc]; simpa [known] using hk
      · simp only [count_snoc]; simp [hxc]; exact hf
  | poll x =>
    refine ⟨by simp only [known] at hk ⊢; rw [(poll_trans cfg s x).script]; exact hk, sub _ ?_⟩
    rcases poll_fresh_cases cfg s x with h | h
    · exact Or.inl h
    · exact Or.inr ⟨x, h⟩
  | drop x =>
    refine ⟨by simp only [known] at hk ⊢; rw [(drop_trans cfg s x).script]; exact hk, sub _ ?_⟩
    rcases drop_fresh_cases cfg s x with h | h
    · exact Or.inl h
    · exact Or.inr ⟨x, h⟩

theorem not_fresh_forever (cfg : Cfg) (ops : List Op) : ∀ (s : State) (c : Nat), known s c = true → s.fresh.count c = 0 →
    (ops.foldl (stepS cfg) s).fresh.count c = 0 := by
  induction ops with
  | nil => intro s c _ h; exact h
  | cons o os ih =>
    intro s c hk hf
    obtain ⟨h1, h2⟩ := not_fresh_stays cfg s c hk hf o
    exact ih _ c h1 h2

/-- after the poll of a `fresh` caller, that caller is never `fresh` again, whatever happens -/
theorem first_poll_once (cfg : Cfg) (s : State) (h2 : Inv2 s) (c : Nat) (hfc : s.fresh.contains c = true)
    (ops : List Op) : c ∉ (ops.foldl (stepS cfg) (stepS cfg s (.poll c))).fresh := by
  have hcnt : s.fresh.count c ≥ 1 := (mem_iff_count _ _).mp hfc
  have honce := h2.once c
  simp only [occ] at honce
  have hk : known s c = true := h2.isKnown c (by simp only [occ]; omega)
  have hk' : known (stepS cfg s (.poll c)) c = true := by
    simp only [known] at hk ⊢; rw [(poll_trans cfg s c).script]; exact hk
  have hf' : (stepS cfg s (.poll c)).fresh.count c = 0 := by
    have : (stepS cfg s (.poll c)).fresh = s.fresh.erase c := by
      simp only [stepS, hfc, if_true]
      unfold pollFresh
      simp only
      split
      · exact (admitCall_frame _ c).1
      · split <;> rfl
    rw [this, count_erase_self']; omega
  intro hm
  have := not_fresh_forever cfg ops _ c hk' hf'
  have := List.count_pos_iff.mpr hm
  omega

/-! ## packaged for the property files -/

/-- a caller that is queued and has not been handed a permit is in no other phase -/
theorem waiting_flags {s : State} (h2 : Inv2 s) {c : Nat} (hq : c ∈ s.queue) (ha : c ∉ s.assigned) :
    s.fresh.contains c = false ∧ s.assigned.contains c = false ∧ s.queue.contains c = true := by
  have honce := h2.once c
  simp only [occ] at honce
  have hqc : s.queue.count c ≥ 1 := List.count_pos_iff.mpr hq
  refine ⟨?_, ?_, by simpa using hq⟩
  · cases hh : s.fresh.contains c with
    | false => rfl
    | true => have := (mem_iff_count _ _).mp hh; omega
  · cases hh : s.assigned.contains c with
    | false => rfl
    | true => exact absurd (mem_of_contains hh) ha

/-- what the rejecting poll does to the state -/
theorem reject_step_effect (cfg : Cfg) (s : State) (h2 : Inv2 s) (c d : Nat) (hq : c ∈ s.queue) (ha : c ∉ s.assigned)
    (hd : lookup s.deadline c = some d) (hnow : d ≤ s.now) :
    (stepS cfg s (.poll c)).log = s.log ++ [Ev.result c .timeout] ∧ c ∉ (stepS cfg s (.poll c)).queue ∧
    (stepS cfg s (.poll c)).running = s.running ∧ (stepS cfg s (.poll c)).free = s.free ∧
    (stepS cfg s (.poll c)).assigned = s.assigned := by
  obtain ⟨hf, ha', hq'⟩ := waiting_flags h2 hq ha
  rw [poll_at_deadline_rejects cfg s c d hf ha' hq' hd hnow]
  refine ⟨rfl, ?_, rfl, rfl, rfl⟩
  intro hm
  have hm' : c ∈ s.queue.erase c := hm
  have h1 := List.count_pos_iff.mpr hm'
  have h3 := h2.once c
  simp only [occ] at h3
  rw [count_erase_self'] at h1; omega

/-- after a burst that used up every free permit with calls that do not finish at once, one more first poll is not
admitted: it queues, or is rejected at once when `max_wait = 0`; no `inner_call` for it, the calls inside untouched -/
theorem burst_overflow (cfg : Cfg) (s : State) (h2 : Inv2 s) (cs : List Nat) (x : Nat) (hnd : cs.Nodup)
    (hfr : ∀ c ∈ cs, c ∈ s.fresh) (hlen : cs.length = s.free)
    (hslow : ∀ c ∈ cs, ∀ sc, lookup s.script c = some sc → sc.lat > 0 ∨ sc.out = .never)
    (hx : x ∈ s.fresh) (hxcs : x ∉ cs) (h2b : Inv2 (burst cfg s cs)) :
    (stepS cfg (burst cfg s cs) (.poll x)).running = s.running ++ cs ∧
    (∀ k, Ev.innerCall x k ∉ (stepS cfg (burst cfg s cs) (.poll x)).log) ∧
    ((cfg.maxWait = some 0 ∧ Ev.result x .timeout ∈ (stepS cfg (burst cfg s cs) (.poll x)).log) ∨
     (cfg.maxWait ≠ some 0 ∧ x ∈ (stepS cfg (burst cfg s cs) (.poll x)).queue)) := by
  obtain ⟨r1, r2, _, _, r5⟩ := burst_simultaneous cfg cs s h2 hnd hfr (by omega) hslow
  have hxf : x ∈ (burst cfg s cs).fresh := (r5 x hxcs).mpr hx
  have hf0 : (burst cfg s cs).free = 0 := by omega
  obtain ⟨q1, _, q3⟩ := poll_fresh_full_step cfg _ x hxf hf0
  have hnc : NoCall (burst cfg s cs) x :=
    (h2b.waiting x (by have := List.count_pos_iff.mpr hxf; omega)).1
  refine ⟨by rw [q1]; exact r1, ?_, ?_⟩
  · intro k hm
    rcases q3 with ⟨_, hl, _⟩ | ⟨_, hl, _⟩
    · rw [hl] at hm
      rcases List.mem_append.mp hm with hh | hh
      · exact hnc k hh
      · simp at hh
    · rw [hl] at hm; exact hnc k hm
  · rcases q3 with ⟨hw, hl, _⟩ | ⟨hw, _, hq⟩
    · exact Or.inl ⟨hw, by rw [hl]; simp⟩
    · exact Or.inr ⟨hw, by rw [hq]; simp⟩

/-- a burst on service `i` of a family of services built from one layer value -/
def burstM (cfg : Cfg) (ms : MState) (i : Nat) (cs : List Nat) : MState :=
  cs.foldl (fun ms c => stepM cfg ms i (.poll c)) ms

theorem burstM_inst (cfg : Cfg) (i : Nat) (cs : List Nat) : ∀ ms : MState,
    (burstM cfg ms i cs).insts i = burst cfg (ms.insts i) cs := by
  induction cs with
  | nil => intro ms; rfl
  | cons c cs ih =>
    intro ms
    show (burstM cfg (stepM cfg ms i (.poll c)) i cs).insts i = burst cfg (stepS cfg (ms.insts i) (.poll c)) cs
    rw [ih]; simp [stepM]

end TR.Bulkhead
