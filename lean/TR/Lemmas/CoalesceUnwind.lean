import TR.Lemmas.Coalesce
/-!
# Coalesce (C11): the poll in which a leader's inner call is due — it panics, it completes, or publishing its value panics

The leader's future ceases to exist in that very step — the model does not say how: destroyed while the panic
unwinds through the frame that owns it (a spawned task, an `async` block that awaits it, a `select!` arm; harness:
`arrive … unwind=1`), or after the panic was caught around the `poll` call (`catch_unwind(|| fut.poll(cx))`; the
default). The code has to arrive at the same state either way: `Registration::drop` runs in both and must
unregister the key whether or not `std::thread::panicking()`.
-/
namespace TR.Coalesce

/-- the whole state after the poll of a live leader whose inner call is due and scripted to panic -/
theorem poll_leader_panics {s : State} {l key k t : Nat} {sc : Step} (hl : LiveLeader s l key k)
    (hd : lookup s.doneAt l = some t) (hsc : lookup s.script l = some sc) (hdue : s.now ≥ t)
    (hp : sc.out = .panic) :
    stepS s (.poll l) = emit (retire s l key .closed) [.innerDone l key k .panic, .result l .panic] := by
  rw [stepS_poll_leader hl]
  unfold pollLeader
  rw [hd, hsc]
  have h1 : s.now ≥ t ∧ sc.out ≠ Out.never := ⟨hdue, by rw [hp]; intro h; cases h⟩
  have h2 : ¬ (s.bomb.contains l ∧ sc.out ≠ Out.panic) := fun h => h.2 hp
  show (if s.now ≥ t ∧ sc.out ≠ Out.never then
          if s.bomb.contains l ∧ sc.out ≠ Out.panic then clonePanic s l key k sc.out
          else finishLeader s l key k sc.out
        else s) = _
  rw [if_pos h1, if_neg h2, hp]
  rfl

/-- the whole state after the poll of a live leader whose inner call is due with a value (ok or an error) that
panics when it is cloned: the leader panics in its completing poll, after its inner call has finished -/
theorem poll_leader_clone_panics {s : State} {l key k t : Nat} {sc : Step} (hl : LiveLeader s l key k)
    (hd : lookup s.doneAt l = some t) (hsc : lookup s.script l = some sc) (hdue : s.now ≥ t)
    (hb : s.bomb.contains l = true) (ho : sc.out ≠ .never ∧ sc.out ≠ .panic) :
    stepS s (.poll l) = emit (retire s l key .closed) [.innerDone l key k sc.out, .result l .panic] := by
  rw [stepS_poll_leader hl]
  unfold pollLeader
  rw [hd, hsc]
  show (if s.now ≥ t ∧ sc.out ≠ Out.never then
          if s.bomb.contains l ∧ sc.out ≠ Out.panic then clonePanic s l key k sc.out
          else finishLeader s l key k sc.out
        else s) = _
  rw [if_pos ⟨hdue, ho.1⟩, if_pos ⟨hb, ho.2⟩]
  rfl

/-- the whole state after the poll of a live leader whose inner call is due (any outcome) and whose value can be
cloned: the leader gets `outRes`, the channel is left as `outChan` -/
theorem poll_leader_completes {s : State} {l key k t : Nat} {sc : Step} (hl : LiveLeader s l key k)
    (hd : lookup s.doneAt l = some t) (hsc : lookup s.script l = some sc) (hdue : s.now ≥ t)
    (ho : sc.out ≠ .never) (hb : s.bomb.contains l = false) :
    stepS s (.poll l)
      = emit (retire s l key (outChan k sc.out)) [.innerDone l key k sc.out, .result l (outRes k sc.out)] := by
  rw [stepS_poll_leader hl]
  unfold pollLeader
  rw [hd, hsc]
  show (if s.now ≥ t ∧ sc.out ≠ Out.never then
          if s.bomb.contains l ∧ sc.out ≠ Out.panic then clonePanic s l key k sc.out
          else finishLeader s l key k sc.out
        else s) = _
  rw [if_pos ⟨hdue, ho⟩, if_neg (by rw [hb]; simp)]
  exact finishLeader_eq s l key k ho

end TR.Coalesce
