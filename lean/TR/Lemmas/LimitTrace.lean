import TR.Model.LimitTrace
import TR.Lemmas.Limit
/-!
# Every trace the protocol checker accepts keeps the limit within its bounds and the in-flight count exact
-/
namespace TR.Limit

theorem findOpen_mem {l : List OpenOp} {tid : Nat} {o : OpenOp} (h : findOpen l tid = some o) : o ∈ l := by
  induction l with
  | nil => simp [findOpen] at h
  | cons x tl ih =>
    simp only [findOpen] at h
    split at h
    · cases h; exact List.mem_cons_self
    · exact List.mem_cons_of_mem _ (ih h)

theorem mem_dropOpen {l : List OpenOp} {tid : Nat} {x : OpenOp} (h : x ∈ dropOpen l tid) : x ∈ l :=
  (List.mem_filter.mp h).1

theorem mem_setOpen {l : List OpenOp} {o x : OpenOp} (h : x ∈ setOpen l o) : x = o ∨ x ∈ l := by
  simp only [setOpen, List.mem_cons] at h
  rcases h with h | h
  · exact Or.inl h
  · exact Or.inr (mem_dropOpen h)

/-- an allowed replacement of a value within the bounds is within the bounds -/
theorem allowed_inB {cfg : Cfg} (w : Wf cfg) {fb : Fb} {r new : Nat} (hr : InB cfg r)
    (h : allowed cfg fb r new = true) : InB cfg new := by
  unfold allowed at h
  split at h
  · cases h
  · split at h
    · split at h
      · have : new = aimdFailNew cfg r := by simpa using h
        subst this; exact aimdFailNew_inB w hr
      · have : new = aimdSuccNew cfg r := by simpa using h
        subst this; exact aimdSuccNew_inB w.le hr
    · simp only [Bool.or_eq_true, beq_iff_eq] at h
      rcases h with (h | h) | h <;> (subst h; exact vegasNew_inB w.le hr _)
  · split at h
    · have : new = aimdFailNew cfg r := by simpa using h
      subst this; exact aimdFailNew_inB w hr
    · have : new = vegasFailNew cfg r := by simpa using h
      subst this; exact vegasFailNew_inB w.le hr
  · simp only [Bool.and_eq_true, beq_iff_eq] at h
    obtain ⟨_, h⟩ := h
    subst h; exact aimdSuccsNew_inB w.le _ hr
  · cases h

theorem allowedFrom_inB {cfg : Cfg} (w : Wf cfg) {fb : Fb} {rs : List Nat} {new : Nat}
    (hrs : ∀ r ∈ rs, InB cfg r) (h : allowedFrom cfg fb rs new = true) : InB cfg new := by
  unfold allowedFrom at h
  split at h
  · simp only [Bool.and_eq_true, beq_iff_eq] at h
    rw [h.2]; exact clampInit_inB w.le
  · rw [List.any_eq_true] at h
    obtain ⟨r, hr, ha⟩ := h
    exact allowed_inB w (hrs r hr) ha

/-- what the checker's state says, `i0` being the in-flight count at the beginning of the trace -/
structure CInv (cfg : Cfg) (i0 : Nat) (cs : CS) : Prop where
  lim   : InB cfg cs.lim
  vals  : ∀ v ∈ cs.vals, InB cfg v
  reads : ∀ o ∈ cs.opens, ∀ r ∈ o.reads, InB cfg r
  rets  : ∀ v ∈ cs.rets, InB cfg v
  cnt   : cs.inf + cs.rls = i0 + cs.acq
  adm   : cs.acq = cs.admitted + cs.openAW
  rel   : cs.rls = cs.released + cs.openRW
  ba    : cs.begunA = cs.finA + cs.openAW + cs.openAN
  br    : cs.begunR = cs.released + cs.openRW + cs.openRN

theorem cinit_inv {cfg : Cfg} {v0 : Nat} (i0 : Nat) (hv : InB cfg v0) : CInv cfg i0 (cinit v0 i0) :=
  ⟨hv, by intro v h; simp [cinit] at h; subst h; exact hv, by intro o h; simp [cinit] at h,
   by intro v h; simp [cinit] at h, by simp [cinit], rfl, rfl, rfl, rfl⟩

/-- what one accepted entry adds to what the trace shows -/
def dVals : Item → List Nat
  | .lim _ _ _ new _ => [new]
  | _ => []

def dRets : Item → List Nat
  | .fin _ op (some v) => if op.rd then [v] else []
  | _ => []

def dAdm : Item → Nat
  | .fin _ op res => if op.role = .acq ∧ res = some 1 then 1 else 0
  | _ => 0

def dRel : Item → Nat
  | .fin _ op _ => if op.role = .rel then 1 else 0
  | _ => 0

def dBegA : Item → Nat
  | .begin _ op => if op.role = .acq then 1 else 0
  | _ => 0

def dEndA : Item → Nat
  | .fin _ op _ => if op.role = .acq then 1 else 0
  | _ => 0

def dBegR : Item → Nat
  | .begin _ op => if op.role = .rel then 1 else 0
  | _ => 0

def dInf (i : Nat) : Item → Nat
  | .inf _ _ _ new _ => new
  | _ => i

def dLim (v : Nat) : Item → Nat
  | .lim _ _ _ new _ => new
  | _ => v

/-- the summary of one step: the invariant again, and the ghost fields grow by the entry's contribution -/
structure StepOk (cfg : Cfg) (i0 : Nat) (cs cs' : CS) (it : Item) : Prop where
  inv  : CInv cfg i0 cs'
  vals : cs'.vals = cs.vals ++ dVals it
  rets : cs'.rets = cs.rets ++ dRets it
  adm  : cs'.admitted = cs.admitted + dAdm it
  rel  : cs'.released = cs.released + dRel it
  inf  : cs'.inf = dInf cs.inf it
  lim  : cs'.lim = dLim cs.lim it
  begA : cs'.begunA = cs.begunA + dBegA it
  finA : cs'.finA = cs.finA + dEndA it
  begR : cs'.begunR = cs.begunR + dBegR it

/-- what the operations on the two cells leave alone -/
structure Frame (cs cs' : CS) : Prop where
  rets : cs'.rets = cs.rets
  adm  : cs'.admitted = cs.admitted
  rel  : cs'.released = cs.released
  begA : cs'.begunA = cs.begunA
  finA : cs'.finA = cs.finA
  begR : cs'.begunR = cs.begunR

theorem limRead_ok {cfg : Cfg} {i0 : Nat} {cs : CS} (h : CInv cfg i0 cs) (tid v : Nat) (hv : InB cfg v) :
    CInv cfg i0 (limRead cs tid v) ∧ Frame cs (limRead cs tid v) ∧ (limRead cs tid v).vals = cs.vals ∧
      (limRead cs tid v).inf = cs.inf ∧ (limRead cs tid v).lim = cs.lim := by
  unfold limRead
  split
  · exact ⟨h, ⟨rfl, rfl, rfl, rfl, rfl, rfl⟩, rfl, rfl, rfl⟩
  · next o ho =>
    refine ⟨⟨h.lim, h.vals, ?_, h.rets, h.cnt, h.adm, h.rel, h.ba, h.br⟩, ⟨rfl, rfl, rfl, rfl, rfl, rfl⟩, rfl, rfl, rfl⟩
    intro x hx r hr
    rcases mem_setOpen hx with hx | hx
    · subst hx
      simp only [List.mem_cons] at hr
      rcases hr with hr | hr
      · subst hr; exact hv
      · exact h.reads o (findOpen_mem ho) r hr
    · exact h.reads x hx r hr

theorem infRead_ok {cfg : Cfg} {i0 : Nat} {cs : CS} (h : CInv cfg i0 cs) (tid v : Nat) :
    CInv cfg i0 (infRead cs tid v) ∧ Frame cs (infRead cs tid v) ∧ (infRead cs tid v).vals = cs.vals ∧
      (infRead cs tid v).inf = cs.inf ∧ (infRead cs tid v).lim = cs.lim := by
  unfold infRead
  split
  · exact ⟨h, ⟨rfl, rfl, rfl, rfl, rfl, rfl⟩, rfl, rfl, rfl⟩
  · next o ho =>
    refine ⟨⟨h.lim, h.vals, ?_, h.rets, h.cnt, h.adm, h.rel, h.ba, h.br⟩, ⟨rfl, rfl, rfl, rfl, rfl, rfl⟩, rfl, rfl, rfl⟩
    intro x hx r hr
    rcases mem_setOpen hx with hx | hx
    · subst hx; exact h.reads o (findOpen_mem ho) r hr
    · exact h.reads x hx r hr

theorem limWrite_ok {cfg : Cfg} (w : Wf cfg) {i0 : Nat} {cs cs' : CS} (h : CInv cfg i0 cs) (tid : Nat) (k : AKind) (new : Nat)
    (hs : limWrite cfg cs tid k new = some cs') :
    CInv cfg i0 cs' ∧ Frame cs cs' ∧ cs'.vals = cs.vals ++ [new] ∧ cs'.inf = cs.inf ∧ cs'.lim = new := by
  unfold limWrite at hs
  split at hs
  · cases hs
  · next o ho =>
    have hom := findOpen_mem ho
    have hrs : ∀ r ∈ readSet k cs.lim o.reads, InB cfg r := by
      intro r hr
      unfold readSet at hr
      split at hr
      · exact h.reads o hom r hr
      · simp only [List.mem_cons] at hr
        rcases hr with hr | hr
        · subst hr; exact h.lim
        · exact h.reads o hom r hr
    split at hs
    · next ha =>
      cases hs
      have hn := allowedFrom_inB w hrs ha
      refine ⟨⟨hn, ?_, ?_, h.rets, h.cnt, h.adm, h.rel, h.ba, h.br⟩, ⟨rfl, rfl, rfl, rfl, rfl, rfl⟩, rfl, rfl, rfl⟩
      · intro v hv
        simp only [List.mem_append, List.mem_singleton] at hv
        rcases hv with hv | hv
        · exact h.vals v hv
        · subst hv; exact hn
      · intro x hx r hr
        rcases mem_setOpen hx with hx | hx
        · subst hx; exact hrs r hr
        · exact h.reads x hx r hr
    · cases hs

theorem infWrite_ok {cfg : Cfg} {i0 : Nat} {cs cs' : CS} (h : CInv cfg i0 cs) (tid : Nat) (k : AKind) (new : Nat)
    (hs : infWrite cs tid k new = some cs') :
    CInv cfg i0 cs' ∧ Frame cs cs' ∧ cs'.vals = cs.vals ∧ cs'.inf = new ∧ cs'.lim = cs.lim := by
  unfold infWrite at hs
  split at hs
  · cases hs
  · split at hs
    · cases hs
    · next o ho =>
      have hom := findOpen_mem ho
      have hopens : ∀ x ∈ setOpen cs.opens { o with wroteI := true }, ∀ r ∈ x.reads, InB cfg r := by
        intro x hx r hr
        rcases mem_setOpen hx with hx | hx
        · subst hx; exact h.reads o hom r hr
        · exact h.reads x hx r hr
      split at hs
      · cases hs
      · split at hs
        · cases hs
        · split at hs
          · next hn =>
            cases hs
            refine ⟨⟨h.lim, h.vals, hopens, h.rets, ?_, ?_, h.rel, ?_, h.br⟩, ⟨rfl, rfl, rfl, rfl, rfl, rfl⟩, rfl, rfl, rfl⟩
            · show new + cs.rls = i0 + (cs.acq + 1)
              have := h.cnt; omega
            · show cs.acq + 1 = cs.admitted + (cs.openAW + 1)
              have := h.adm; omega
            · show cs.begunA = cs.finA + (cs.openAW + 1) + (cs.openAN - 1)
              have := h.ba; omega
          · cases hs
        · split at hs
          · next hn =>
            cases hs
            refine ⟨⟨h.lim, h.vals, hopens, h.rets, ?_, h.adm, ?_, h.ba, ?_⟩, ⟨rfl, rfl, rfl, rfl, rfl, rfl⟩, rfl, rfl, rfl⟩
            · show new + (cs.rls + 1) = i0 + cs.acq
              have := h.cnt; omega
            · show cs.rls + 1 = cs.released + (cs.openRW + 1)
              have := h.rel; omega
            · show cs.begunR = cs.released + (cs.openRW + 1) + (cs.openRN - 1)
              have := h.br; omega
          · cases hs

theorem retCheck_ok {cfg : Cfg} {o : OpenOp} {res : Option Nat} {rets rets' : List Nat}
    (hreads : ∀ r ∈ o.reads, InB cfg r) (hrets : ∀ v ∈ rets, InB cfg v) (hs : retCheck o res rets = some rets') :
    (∀ v ∈ rets', InB cfg v) ∧ rets' = rets ++ dRets (.fin o.tid o.op res) := by
  unfold retCheck at hs
  split at hs
  · next hrd =>
    split at hs
    · next v =>
      split at hs
      · next hm =>
        cases hs
        refine ⟨?_, by simp [dRets, hrd]⟩
        intro x hx
        simp only [List.mem_append, List.mem_singleton] at hx
        rcases hx with hx | hx
        · exact hrets x hx
        · subst hx; exact hreads x hm
      · cases hs
    · cases hs
  · next hrd =>
    cases hs
    refine ⟨hrets, ?_⟩
    cases res <;> simp [dRets, hrd]

theorem finOp_ok {cfg : Cfg} {i0 : Nat} {cs cs' : CS} (h : CInv cfg i0 cs) (tid : Nat) (op : TrOp) (res : Option Nat)
    (hs : finOp cfg cs tid op res = some cs') : StepOk cfg i0 cs cs' (.fin tid op res) := by
  unfold finOp at hs
  split at hs
  · cases hs
  · next o ho =>
    have hom := findOpen_mem ho
    split at hs
    · cases hs
    · next hop =>
      have hop' : o.op = op := by simpa using hop
      split at hs
      · cases hs
      split at hs
      · cases hs
      · next rets hrc =>
        obtain ⟨hr1, hr2⟩ := retCheck_ok (cfg := cfg) (h.reads o hom) h.rets hrc
        have hr2' : rets = cs.rets ++ dRets (.fin tid op res) := by
          rw [hr2, hop']; cases res <;> simp [dRets]
        have hopens : ∀ x ∈ dropOpen cs.opens tid, ∀ r ∈ x.reads, InB cfg r :=
          fun x hx => h.reads x (mem_dropOpen hx)
        simp only at hs
        split at hs
        · next hrole =>
          cases hs
          exact ⟨⟨h.lim, h.vals, hopens, hr1, h.cnt, h.adm, h.rel, h.ba, h.br⟩, by simp [dVals], hr2', by simp [dAdm, hrole],
            by simp [dRel, hrole], rfl, rfl, by simp [dBegA], by simp [dEndA, hrole], by simp [dBegR]⟩
        · next hrole =>
          split at hs
          · split at hs
            · next hc =>
              cases hs
              refine ⟨⟨h.lim, h.vals, hopens, hr1, h.cnt, ?_, h.rel, ?_, h.br⟩, by simp [dVals], hr2', by simp [dAdm, hrole, hc.1],
                by simp [dRel, hrole], rfl, rfl, by simp [dBegA], by simp [dEndA, hrole], by simp [dBegR]⟩
              · show cs.acq = cs.admitted + 1 + (cs.openAW - 1)
                have := h.adm; have := hc.2; omega
              · show cs.begunA = cs.finA + 1 + (cs.openAW - 1) + cs.openAN
                have := h.ba; have := hc.2; omega
            · cases hs
          · split at hs
            · cases hs
            · next hne =>
              cases hs
              have hne1 : ¬ res = some 1 := fun hh => hne (Or.inl hh)
              have hne2 : cs.openAN ≠ 0 := fun hh => hne (Or.inr hh)
              refine ⟨⟨h.lim, h.vals, hopens, hr1, h.cnt, h.adm, h.rel, ?_, h.br⟩, by simp [dVals], hr2', by simp [dAdm, hrole, hne1],
                by simp [dRel, hrole], rfl, rfl, by simp [dBegA], by simp [dEndA, hrole], by simp [dBegR]⟩
              show cs.begunA = cs.finA + 1 + cs.openAW + (cs.openAN - 1)
              have := h.ba; omega
        · next hrole =>
          split at hs
          · next hc =>
            cases hs
            refine ⟨⟨h.lim, h.vals, hopens, hr1, h.cnt, h.adm, ?_, h.ba, ?_⟩, by simp [dVals], hr2', by simp [dAdm, hrole],
              by simp [dRel, hrole], rfl, rfl, by simp [dBegA], by simp [dEndA, hrole], by simp [dBegR]⟩
            · show cs.rls = cs.released + 1 + (cs.openRW - 1)
              have := h.rel; have := hc.2; omega
            · show cs.begunR = cs.released + 1 + (cs.openRW - 1) + cs.openRN
              have := h.br; have := hc.2; omega
          · cases hs

theorem cstep_ok {cfg : Cfg} (w : Wf cfg) {i0 : Nat} {cs cs' : CS} (h : CInv cfg i0 cs) (it : Item)
    (hs : cstep cfg cs it = some cs') : StepOk cfg i0 cs cs' it := by
  cases it with
  | begin tid op =>
    simp only [cstep] at hs
    split at hs
    · cases hs
    · have hopens : ∀ x ∈ setOpen cs.opens { tid := tid, op := op }, ∀ r ∈ x.reads, InB cfg r := by
        intro x hx r hr
        rcases mem_setOpen hx with hx | hx
        · subst hx; simp at hr
        · exact h.reads x hx r hr
      split at hs
      · next hrole =>
        cases hs
        exact ⟨⟨h.lim, h.vals, hopens, h.rets, h.cnt, h.adm, h.rel, h.ba, h.br⟩, by simp [dVals], by simp [dRets], rfl, rfl, rfl, rfl,
          by simp [dBegA, hrole], rfl, by simp [dBegR, hrole]⟩
      · next hrole =>
        cases hs
        refine ⟨⟨h.lim, h.vals, hopens, h.rets, h.cnt, h.adm, h.rel, ?_, h.br⟩, by simp [dVals], by simp [dRets], rfl, rfl, rfl, rfl,
          by simp [dBegA, hrole], rfl, by simp [dBegR, hrole]⟩
        show cs.begunA + 1 = cs.finA + cs.openAW + (cs.openAN + 1)
        have := h.ba; omega
      · next hrole =>
        cases hs
        refine ⟨⟨h.lim, h.vals, hopens, h.rets, h.cnt, h.adm, h.rel, h.ba, ?_⟩, by simp [dVals], by simp [dRets], rfl, rfl, rfl, rfl,
          by simp [dBegA, hrole], rfl, by simp [dBegR, hrole]⟩
        show cs.begunR + 1 = cs.released + cs.openRW + (cs.openRN + 1)
        have := h.br; omega
  | fin tid op res => exact finOp_ok h tid op res hs
  | lim tid k old new ok =>
    simp only [cstep] at hs
    split at hs
    · cases hs
    · next hold =>
      have hold' : old = cs.lim := by simpa using hold
      split at hs
      · split at hs
        · next hn =>
          cases hs
          have h' : CInv cfg i0 { cs with vals := cs.vals ++ [new] } := by
            refine ⟨h.lim, ?_, h.reads, h.rets, h.cnt, h.adm, h.rel, h.ba, h.br⟩
            intro v hv
            simp only [List.mem_append, List.mem_singleton] at hv
            rcases hv with hv | hv
            · exact h.vals v hv
            · subst hv; rw [hn, hold']; exact h.lim
          obtain ⟨a, f, b, c, d⟩ := limRead_ok h' tid old (by rw [hold']; exact h.lim)
          exact ⟨a, by rw [b]; rfl, by rw [f.rets]; simp [dRets], f.adm, f.rel, c, by rw [d]; simp [dLim, hn, hold'],
            f.begA, f.finA, f.begR⟩
        · cases hs
      · obtain ⟨a, f, b, c, d⟩ := limWrite_ok w h tid k new hs
        exact ⟨a, b, by rw [f.rets]; simp [dRets], f.adm, f.rel, c, d, f.begA, f.finA, f.begR⟩
  | inf tid k old new ok =>
    simp only [cstep] at hs
    split at hs
    · cases hs
    · next hold =>
      have hold' : old = cs.inf := by simpa using hold
      split at hs
      · split at hs
        · next hn =>
          cases hs
          obtain ⟨a, f, b, c, d⟩ := infRead_ok h tid old
          exact ⟨a, by rw [b]; simp [dVals], by rw [f.rets]; simp [dRets], f.adm, f.rel, by rw [c]; simp [dInf, hn, hold'], d,
            f.begA, f.finA, f.begR⟩
        · cases hs
      · obtain ⟨a, f, b, c, d⟩ := infWrite_ok h tid k new hs
        exact ⟨a, by rw [b]; simp [dVals], by rw [f.rets]; simp [dRets], f.adm, f.rel, c, d, f.begA, f.finA, f.begR⟩
  | oth =>
    simp only [cstep] at hs
    cases hs
    exact ⟨h, by simp [dVals], by simp [dRets], rfl, rfl, rfl, rfl, rfl, rfl, rfl⟩

/-- what an accepted End marker says about the result it carries, read off the entry alone: the accessors report the
configured bounds -/
def itemOk (cfg : Cfg) : Item → Prop
  | .fin _ op res => (op.acc = .minL → res = some cfg.min) ∧ (op.acc = .maxL → res = some cfg.max)
  | _ => True

theorem cstep_itemOk {cfg : Cfg} {cs cs' : CS} (it : Item) (hs : cstep cfg cs it = some cs') : itemOk cfg it := by
  cases it with
  | fin tid op res =>
    simp only [cstep, finOp] at hs
    split at hs
    · cases hs
    · next o ho =>
      split at hs
      · cases hs
      · split at hs
        · cases hs
        · next hacc =>
          have hacc' : accCheck cfg o op.acc res = true := by simpa using hacc
          unfold accCheck at hacc'
          refine ⟨?_, ?_⟩
          · intro hm; rw [hm] at hacc'; simpa using hacc'
          · intro hm; rw [hm] at hacc'; simpa using hacc'
  | _ => trivial

theorem crun_itemsOk {cfg : Cfg} (tr : List Item) {cs cs' : CS} (hs : crun cfg cs tr = some cs') :
    ∀ it ∈ tr, itemOk cfg it := by
  induction tr generalizing cs with
  | nil => intro it h; cases h
  | cons x tl ih =>
    simp only [crun] at hs
    split at hs
    · cases hs
    · next cs1 h1 =>
      intro it hm
      simp only [List.mem_cons] at hm
      rcases hm with hm | hm
      · subst hm; exact cstep_itemOk _ h1
      · exact ih hs it hm

theorem limValues_cons (it : Item) (tl : List Item) : limValues (it :: tl) = dVals it ++ limValues tl := by
  cases it <;> simp [limValues, dVals]

theorem readResults_cons (it : Item) (tl : List Item) : readResults (it :: tl) = dRets it ++ readResults tl := by
  cases it with
  | fin tid op res =>
    cases res with
    | none => simp [readResults, dRets]
    | some v => by_cases h : op.rd <;> simp [readResults, dRets, h]
  | _ => simp [readResults, dRets]

theorem admittedCalls_cons (it : Item) (tl : List Item) : admittedCalls (it :: tl) = dAdm it + admittedCalls tl := by
  cases it with
  | fin tid op res =>
    by_cases h : op.role = .acq ∧ res = some 1 <;> simp [admittedCalls, dAdm, h, Nat.add_comm]
  | _ => simp [admittedCalls, dAdm]

theorem releasedCalls_cons (it : Item) (tl : List Item) : releasedCalls (it :: tl) = dRel it + releasedCalls tl := by
  cases it with
  | fin tid op res =>
    by_cases h : op.role = .rel <;> simp [releasedCalls, dRel, h, Nat.add_comm]
  | _ => simp [releasedCalls, dRel]

theorem begunAcq_cons (it : Item) (tl : List Item) : begunAcq (it :: tl) = dBegA it + begunAcq tl := by
  cases it with
  | begin tid op => by_cases h : op.role = .acq <;> simp [begunAcq, dBegA, h, Nat.add_comm]
  | _ => simp [begunAcq, dBegA]

theorem endedAcq_cons (it : Item) (tl : List Item) : endedAcq (it :: tl) = dEndA it + endedAcq tl := by
  cases it with
  | fin tid op res => by_cases h : op.role = .acq <;> simp [endedAcq, dEndA, h, Nat.add_comm]
  | _ => simp [endedAcq, dEndA]

theorem begunRel_cons (it : Item) (tl : List Item) : begunRel (it :: tl) = dBegR it + begunRel tl := by
  cases it with
  | begin tid op => by_cases h : op.role = .rel <;> simp [begunRel, dBegR, h, Nat.add_comm]
  | _ => simp [begunRel, dBegR]

theorem finalInf_cons (i : Nat) (it : Item) (tl : List Item) : finalInf i (it :: tl) = finalInf (dInf i it) tl := by
  cases it <;> simp [finalInf, dInf]

theorem finalLim_cons (v : Nat) (it : Item) (tl : List Item) : finalLim v (it :: tl) = finalLim (dLim v it) tl := by
  cases it <;> simp [finalLim, dLim]

/-- the summary of an accepted run -/
structure RunOk (cfg : Cfg) (i0 : Nat) (cs cs' : CS) (tr : List Item) : Prop where
  inv  : CInv cfg i0 cs'
  vals : cs'.vals = cs.vals ++ limValues tr
  rets : cs'.rets = cs.rets ++ readResults tr
  adm  : cs'.admitted = cs.admitted + admittedCalls tr
  rel  : cs'.released = cs.released + releasedCalls tr
  inf  : cs'.inf = finalInf cs.inf tr
  lim  : cs'.lim = finalLim cs.lim tr
  begA : cs'.begunA = cs.begunA + begunAcq tr
  finA : cs'.finA = cs.finA + endedAcq tr
  begR : cs'.begunR = cs.begunR + begunRel tr

theorem crun_ok {cfg : Cfg} (w : Wf cfg) {i0 : Nat} (tr : List Item) {cs cs' : CS} (h : CInv cfg i0 cs)
    (hs : crun cfg cs tr = some cs') : RunOk cfg i0 cs cs' tr := by
  induction tr generalizing cs with
  | nil =>
    simp only [crun] at hs
    cases hs
    exact ⟨h, by simp [limValues], by simp [readResults], rfl, rfl, rfl, rfl, rfl, rfl, rfl⟩
  | cons it tl ih =>
    simp only [crun] at hs
    split at hs
    · cases hs
    · next cs1 h1 =>
      have s := cstep_ok w h it h1
      have r := ih s.inv hs
      refine ⟨r.inv, ?_, ?_, ?_, ?_, ?_, ?_, ?_, ?_, ?_⟩
      · rw [r.vals, s.vals, limValues_cons, List.append_assoc]
      · rw [r.rets, s.rets, readResults_cons, List.append_assoc]
      · rw [r.adm, s.adm, admittedCalls_cons]; omega
      · rw [r.rel, s.rel, releasedCalls_cons]; omega
      · rw [r.inf, s.inf, finalInf_cons]
      · rw [r.lim, s.lim, finalLim_cons]
      · rw [r.begA, s.begA, begunAcq_cons]; omega
      · rw [r.finA, s.finA, endedAcq_cons]; omega
      · rw [r.begR, s.begR, begunRel_cons]; omega

/-- the state the accepted run of `a ++ b` is in after `a` -/
theorem crun_split {cfg : Cfg} (w : Wf cfg) {i0 : Nat} (a b : List Item) {cs cs' : CS} (h : CInv cfg i0 cs)
    (hs : crun cfg cs (a ++ b) = some cs') : ∃ cs1, RunOk cfg i0 cs cs1 a ∧ crun cfg cs1 b = some cs' := by
  induction a generalizing cs with
  | nil => exact ⟨cs, ⟨h, by simp [limValues], by simp [readResults], rfl, rfl, rfl, rfl, rfl, rfl, rfl⟩, hs⟩
  | cons it tl ih =>
    simp only [List.cons_append, crun] at hs
    split at hs
    · cases hs
    · next cs1 h1 =>
      have s := cstep_ok w h it h1
      obtain ⟨cs2, r, hrun⟩ := ih s.inv hs
      refine ⟨cs2, ⟨r.inv, ?_, ?_, ?_, ?_, ?_, ?_, ?_, ?_, ?_⟩, hrun⟩
      · rw [r.vals, s.vals, limValues_cons, List.append_assoc]
      · rw [r.rets, s.rets, readResults_cons, List.append_assoc]
      · rw [r.adm, s.adm, admittedCalls_cons]; omega
      · rw [r.rel, s.rel, releasedCalls_cons]; omega
      · rw [r.inf, s.inf, finalInf_cons]
      · rw [r.lim, s.lim, finalLim_cons]
      · rw [r.begA, s.begA, begunAcq_cons]; omega
      · rw [r.finA, s.finA, endedAcq_cons]; omega
      · rw [r.begR, s.begR, begunRel_cons]; omega

/-! ## readiness decisions -/

theorem findBelow_spec {reads readsI : List Nat} {p : Nat × Nat} (h : findBelow reads readsI = some p) :
    p.1 ∈ reads ∧ p.2 ∈ readsI ∧ p.2 < p.1 := by
  unfold findBelow at h
  obtain ⟨r, hr, hf⟩ := List.exists_of_findSome?_eq_some h
  simp only [Option.map_eq_some_iff] at hf
  obtain ⟨n, hn, hp⟩ := hf
  subst hp
  have h1 := List.mem_of_find?_eq_some hn
  have h2 := List.find?_some hn
  exact ⟨hr, h1, by simpa using h2⟩

theorem findAtOrAbove_spec {reads readsI : List Nat} {p : Nat × Nat} (h : findAtOrAbove reads readsI = some p) :
    p.1 ∈ reads ∧ p.2 ∈ readsI ∧ p.2 ≥ p.1 := by
  unfold findAtOrAbove at h
  obtain ⟨r, hr, hf⟩ := List.exists_of_findSome?_eq_some h
  simp only [Option.map_eq_some_iff] at hf
  obtain ⟨n, hn, hp⟩ := hf
  subst hp
  have h1 := List.mem_of_find?_eq_some hn
  have h2 := List.find?_some hn
  exact ⟨hr, h1, by simpa using h2⟩

/-- a decision agrees with its witnesses: admitted on `seen < lim`, refused on `seen ≥ lim`, `lim` within the bounds -/
def Dec.ok (cfg : Cfg) (d : Dec) : Prop :=
  (d.admitted = true → d.seen < d.lim) ∧ (d.admitted = false → d.seen ≥ d.lim) ∧ InB cfg d.lim

structure DInv (cfg : Cfg) (ds : DS) : Prop where
  pend : ∀ q ∈ ds.pend, q.2.2 < q.2.1 ∧ InB cfg q.2.1
  decs : ∀ d ∈ ds.decs, d.ok cfg

theorem lookup_mem_pend {l : List (Nat × (Nat × Nat))} {t : Nat} {p : Nat × Nat} (h : lookup l t = some p) : (t, p) ∈ l := by
  induction l with
  | nil => simp [lookup] at h
  | cons x tl ih =>
    obtain ⟨a, b⟩ := x
    simp only [lookup] at h
    split at h
    · next heq =>
      cases h
      have : a = t := by simpa using heq
      subst this; exact List.mem_cons_self
    · exact List.mem_cons_of_mem _ (ih h)

/-- the number of decisions an entry adds / of them admitted -/
def dDec : Item → Nat
  | .fin _ op _ => if op.role = .acq then 1 else 0
  | _ => 0

theorem dstep_ok {cfg : Cfg} {i0 : Nat} {cs : CS} {ds ds' : DS} (hc : CInv cfg i0 cs) (hd : DInv cfg ds) (it : Item)
    (hs : dstep cs ds it = some ds') : DInv cfg ds' := by
  cases it with
  | inf tid k old new ok =>
    simp only [dstep] at hs
    split at hs
    · cases hs; exact hd
    · split at hs
      · cases hs; exact hd
      · next o ho =>
        split at hs
        · split at hs
          · next p hp =>
            cases hs
            obtain ⟨h1, _, h3⟩ := findBelow_spec hp
            refine ⟨?_, hd.decs⟩
            intro q hq
            simp only [List.mem_cons] at hq
            rcases hq with hq | hq
            · subst hq; exact ⟨h3, hc.reads o (findOpen_mem ho) _ h1⟩
            · exact hd.pend q (List.mem_filter.mp hq).1
          · cases hs
        · cases hs; exact hd
  | fin tid op res =>
    simp only [dstep] at hs
    split at hs
    · split at hs
      · cases hs; exact hd
      · next o ho =>
        split at hs
        · split at hs
          · next p hp =>
            cases hs
            have hm := hd.pend _ (lookup_mem_pend hp)
            refine ⟨fun q hq => hd.pend q (List.mem_filter.mp hq).1, ?_⟩
            intro d hdm
            simp only [List.mem_append, List.mem_singleton] at hdm
            rcases hdm with hdm | hdm
            · exact hd.decs d hdm
            · subst hdm; exact ⟨fun _ => hm.1, (by intro h; cases h), hm.2⟩
          · cases hs
        · split at hs
          · next p hp =>
            cases hs
            obtain ⟨h1, _, h3⟩ := findAtOrAbove_spec hp
            refine ⟨hd.pend, ?_⟩
            intro d hdm
            simp only [List.mem_append, List.mem_singleton] at hdm
            rcases hdm with hdm | hdm
            · exact hd.decs d hdm
            · subst hdm; exact ⟨(by intro h; cases h), fun _ => h3, hc.reads o (findOpen_mem ho) _ h1⟩
          · cases hs
    · cases hs; exact hd
  | begin tid op => simp only [dstep] at hs; cases hs; exact hd
  | lim tid k old new ok => simp only [dstep] at hs; cases hs; exact hd
  | oth => simp only [dstep] at hs; cases hs; exact hd

/-- the decisions grow by one per returned acquisition; an admitted one is recorded as admitted -/
theorem dstep_count {cfg : Cfg} {cs cs' : CS} {ds ds' : DS} (it : Item) (hcs : cstep cfg cs it = some cs')
    (hs : dstep cs ds it = some ds') : ds'.decs.length = ds.decs.length + dDec it := by
  cases it with
  | fin tid op res =>
    simp only [dstep] at hs
    split at hs
    · next hrole =>
      split at hs
      · next hno =>
        -- `cstep` has rejected an End marker without a call in progress
        simp only [cstep, finOp, hno] at hcs
        cases hcs
      · split at hs
        · split at hs
          · cases hs; simp [dDec, hrole]
          · cases hs
        · split at hs
          · cases hs; simp [dDec, hrole]
          · cases hs
    · next hrole => cases hs; simp [dDec, hrole]
  | inf tid k old new ok =>
    simp only [dstep] at hs
    split at hs
    · cases hs; rfl
    · split at hs
      · cases hs; rfl
      · split at hs
        · split at hs
          · cases hs; rfl
          · cases hs
        · cases hs; rfl
  | begin tid op => simp only [dstep] at hs; cases hs; rfl
  | lim tid k old new ok => simp only [dstep] at hs; cases hs; rfl
  | oth => simp only [dstep] at hs; cases hs; rfl

theorem endedAcq_eq_dDec (it : Item) : dEndA it = dDec it := by
  cases it <;> rfl

/-- an accepted run with decisions is an accepted run, and every decision is justified -/
theorem crunD_ok {cfg : Cfg} (w : Wf cfg) {i0 : Nat} (tr : List Item) {cs cs' : CS} {ds ds' : DS} (hc : CInv cfg i0 cs)
    (hd : DInv cfg ds) (hs : crunD cfg cs ds tr = some (cs', ds')) :
    crun cfg cs tr = some cs' ∧ DInv cfg ds' ∧ ds'.decs.length = ds.decs.length + endedAcq tr := by
  induction tr generalizing cs ds with
  | nil =>
    simp only [crunD] at hs
    cases hs
    exact ⟨rfl, hd, by simp [endedAcq]⟩
  | cons it tl ih =>
    simp only [crunD] at hs
    split at hs
    · next cs1 ds1 h1 h2 =>
      have s := cstep_ok w hc it h1
      have d := dstep_ok hc hd it h2
      obtain ⟨r1, r2, r3⟩ := ih s.inv d hs
      refine ⟨by simp only [crun, h1]; exact r1, r2, ?_⟩
      rw [r3, dstep_count it h1 h2, endedAcq_cons, endedAcq_eq_dDec]; omega
    · cases hs

theorem checkTraceD_run {cfg : Cfg} {v0 i0 : Nat} {tr : List Item} {cs : CS} {ds : DS}
    (h : checkTraceD cfg v0 i0 tr = some (cs, ds)) :
    crunD cfg (cinit v0 i0) {} tr = some (cs, ds) ∧ cs.quiet = true := by
  unfold checkTraceD at h
  split at h
  · next cs1 ds1 h1 =>
    split at h
    · next hq => cases h; exact ⟨h1, hq⟩
    · cases h
  · cases h

/-- what `checkTraceD` accepts, `checkTrace` accepts: every theorem about accepted traces applies -/
theorem checkTraceD_checkTrace {cfg : Cfg} (w : Wf cfg) {v0 i0 : Nat} (hv : InB cfg v0) {tr : List Item} {cs : CS} {ds : DS}
    (h : checkTraceD cfg v0 i0 tr = some (cs, ds)) : checkTrace cfg v0 i0 tr = some cs := by
  obtain ⟨hrun, hq⟩ := checkTraceD_run h
  obtain ⟨r1, _, _⟩ := crunD_ok w tr (cinit_inv i0 hv) ⟨(by intro q hq; cases hq), (by intro d hd; cases hd)⟩ hrun
  simp [checkTrace, r1, hq]

theorem checkTrace_run {cfg : Cfg} {v0 i0 : Nat} {tr : List Item} {cs : CS} (h : checkTrace cfg v0 i0 tr = some cs) :
    crun cfg (cinit v0 i0) tr = some cs ∧ cs.openAW = 0 ∧ cs.openRW = 0 := by
  unfold checkTrace at h
  split at h
  · next cs1 h1 =>
    split at h
    · next hq =>
      cases h
      simp only [CS.quiet, Bool.and_eq_true, beq_iff_eq] at hq
      exact ⟨h1, hq.1.1.1.2, hq.1.1.2⟩
    · cases h
  · cases h

end TR.Limit
