import TR.Model.Fallback
/-!
# Fallback (C17) — the builder as a function of the chain of setter calls

`chainBuilder` is a left fold over the chain; `lastStrategy` / `lastHandle` read the two slots off the
chain directly. They agree (`chainBuilder_slots`), and each slot ignores the setters of the other one.
-/
namespace TR.Fallback

/-- the slots after folding a chain into an arbitrary builder state: the last setter of each kind in
the chain, else what the slot held before -/
theorem foldl_set_slots (l : List Setter) (b : Builder) :
    (l.foldl Builder.set b).strategy = (match lastStrategy l with | some g => some g | none => b.strategy)
    ∧ (l.foldl Builder.set b).pred = (match lastHandle l with | some q => some q | none => b.pred) := by
  induction l generalizing b with
  | nil => exact ⟨rfl, rfl⟩
  | cons st tl ih =>
    cases st with
    | strategy f =>
      have h := ih { b with strategy := some f }
      refine ⟨?_, ?_⟩
      · show (tl.foldl Builder.set { b with strategy := some f }).strategy = _
        rw [h.1]; simp only [lastStrategy]; cases lastStrategy tl <;> rfl
      · show (tl.foldl Builder.set { b with strategy := some f }).pred = _
        rw [h.2]; simp only [lastHandle]
    | handle p =>
      have h := ih { b with pred := some p }
      refine ⟨?_, ?_⟩
      · show (tl.foldl Builder.set { b with pred := some p }).strategy = _
        rw [h.1]; simp only [lastStrategy]
      · show (tl.foldl Builder.set { b with pred := some p }).pred = _
        rw [h.2]; simp only [lastHandle]; cases lastHandle tl <;> rfl
    | name =>
      have h := ih b
      exact ⟨by show (tl.foldl Builder.set b).strategy = _; rw [h.1]; simp only [lastStrategy],
             by show (tl.foldl Builder.set b).pred = _; rw [h.2]; simp only [lastHandle]⟩

/-- the two slots of the builder, read off the chain -/
theorem chainBuilder_slots (chain : List Setter) :
    (chainBuilder chain).strategy = lastStrategy chain ∧ (chainBuilder chain).pred = lastHandle chain := by
  have h := foldl_set_slots chain {}
  refine ⟨?_, ?_⟩
  · show (chain.foldl Builder.set {}).strategy = _
    rw [h.1]; cases lastStrategy chain <;> rfl
  · show (chain.foldl Builder.set {}).pred = _
    rw [h.2]; cases lastHandle chain <;> rfl

theorem lastStrategy_append (a b : List Setter) :
    lastStrategy (a ++ b) = (match lastStrategy b with | some g => some g | none => lastStrategy a) := by
  induction a with
  | nil => simp only [List.nil_append, lastStrategy]; cases lastStrategy b <;> rfl
  | cons st tl ih =>
    cases st with
    | strategy f =>
      simp only [List.cons_append, lastStrategy, ih]
      cases lastStrategy b <;> rfl
    | handle p => simpa only [List.cons_append, lastStrategy] using ih
    | name => simpa only [List.cons_append, lastStrategy] using ih

theorem lastHandle_append (a b : List Setter) :
    lastHandle (a ++ b) = (match lastHandle b with | some g => some g | none => lastHandle a) := by
  induction a with
  | nil => simp only [List.nil_append, lastHandle]; cases lastHandle b <;> rfl
  | cons st tl ih =>
    cases st with
    | handle p =>
      simp only [List.cons_append, lastHandle, ih]
      cases lastHandle b <;> rfl
    | strategy f => simpa only [List.cons_append, lastHandle] using ih
    | name => simpa only [List.cons_append, lastHandle] using ih

theorem lastStrategy_none_of_no_strategy (l : List Setter) (h : ∀ st ∈ l, st.isStrategy = false) :
    lastStrategy l = none := by
  induction l with
  | nil => rfl
  | cons st tl ih =>
    have htl := ih (fun x hx => h x (List.mem_cons_of_mem _ hx))
    cases st with
    | strategy f => exact absurd (h _ (List.mem_cons_self ..)) (by simp [Setter.isStrategy])
    | handle p => simpa only [lastStrategy] using htl
    | name => simpa only [lastStrategy] using htl

theorem lastHandle_none_of_no_handle (l : List Setter) (h : ∀ st ∈ l, st.isHandle = false) :
    lastHandle l = none := by
  induction l with
  | nil => rfl
  | cons st tl ih =>
    have htl := ih (fun x hx => h x (List.mem_cons_of_mem _ hx))
    cases st with
    | handle p => exact absurd (h _ (List.mem_cons_self ..)) (by simp [Setter.isHandle])
    | strategy f => simpa only [lastHandle] using htl
    | name => simpa only [lastHandle] using htl

end TR.Fallback
